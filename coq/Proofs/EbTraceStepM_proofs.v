(** The small-step relation of the encoder's trace ACROSS RUNS: between two consecutive configurations of ANY trace of
    [eb_encode_tr] - inside a run or from the last configuration of one call of EncodeConnectivityFromCorner to the first of
    the next - the older one performs its [SPEC] step and the newer state agrees with the result on the members the events
    depend on ([REL]: symbols, processed corners, events, face_to_split_symbol_map_, last_encoded_symbol_id_; visited_faces_
    only grows).  The corner stack is not described here (inside a run: [EbTraceStep_proofs.SSTEP]). *)
From Coq Require Import List Arith Bool PeanoNat ZArith Lia.
Import ListNotations.
From Draco Require Import Model.CornerTable Model.EbEncoder Model.EbTrace Proofs.CornerTable_proofs Proofs.EbEncoder_proofs Proofs.EbTrace_proofs Proofs.EbTraceStep_proofs.

Definition REL (s1 s2 : est) : Prop :=
  syms s2 = syms s1 /\ pcc s2 = pcc s1 /\ evs s2 = evs s1 /\ f2s s2 = f2s s1 /\ last_id s2 = last_id s1 /\
  length (vf s2) = length (vf s1) /\ (forall f, nth f (vf s1) false = true -> nth f (vf s2) false = true).

Lemma REL_refl s : REL s s.
Proof. unfold REL. auto 10. Qed.
Lemma REL_trans s1 s2 s3 : REL s1 s2 -> REL s2 s3 -> REL s1 s3.
Proof.
  intros (A1 & A2 & A3 & A4 & A5 & A6 & A7) (B1 & B2 & B3 & B4 & B5 & B6 & B7). unfold REL.
  split; [congruence|]. split; [congruence|]. split; [congruence|]. split; [congruence|]. split; [congruence|]. split; [congruence|auto].
Qed.
Lemma REL_stack s st : REL s (with_stack s st).
Proof. unfold REL. cbn [with_stack syms pcc evs f2s last_id vf]. auto 10. Qed.

Definition WSTEP (opp : list (option nat)) (cf cf' : cfg) : Prop :=
  exists y s1, SPEC opp (cf_st cf) (cf_corner cf) y s1 /\ REL s1 (cf_st cf').

Lemma SSTEP_WSTEP opp cf cf' : SSTEP opp cf cf' -> WSTEP opp cf cf'.
Proof.
  intros (y & s1 & Sp & Cs). exists y, s1. split; auto.
  destruct Cs as [(_ & E & _)|[(_ & E & _)|(_ & dead & rest & _ & E & _)]]; rewrite E; [apply REL_refl|apply REL_refl|apply REL_stack].
Qed.

Lemma gadj_impl (R R' : cfg -> cfg -> Prop) : (forall a b, R a b -> R' a b) -> forall tr, gadj R tr -> gadj R' tr.
Proof.
  intros Im. induction tr as [|a tr IH]; [auto|]. destruct tr as [|b t]; [auto|]. intros [X Y]. split; [apply Im; exact X|apply IH; exact Y].
Qed.

Lemma gadj_cons (R : cfg -> cfg -> Prop) a b t : R b a -> gadj R (b :: t) -> gadj R (a :: b :: t).
Proof. intros X Y. cbn [gadj]. split; auto. Qed.

Lemma gadj_app_link (R : cfg -> cfg -> Prop) : forall pre cf0 cf r, gadj R (pre ++ [cf0]) -> gadj R (cf :: r) -> R cf cf0 ->
  gadj R ((pre ++ [cf0]) ++ cf :: r).
Proof.
  induction pre as [|a pre IH]; intros cf0 cf r A B L; cbn [app] in *.
  - apply gadj_cons; auto.
  - destruct (pre ++ [cf0]) as [|b l] eqn:E; [destruct pre; discriminate|].
    cbn [gadj] in A. destruct A as [A1 A2]. cbn [app]. apply gadj_cons; [exact A1|].
    change (b :: l ++ cf :: r) with ((b :: l) ++ cf :: r). rewrite <- E. apply IH; auto. rewrite E. exact A2.
Qed.

Section StepM.
Variables (c2v : list nat) (opp : list (option nat)) (hid : list (option nat)).

(** a call that emits no symbol changes nothing but the stack *)
Lemma outer_tr_nil : forall fuel s s', outer_tr c2v opp hid fuel s [] = EOk (s', []) -> REL s s'.
Proof.
  induction fuel as [|k IH]; intros s s' H; cbn [outer_tr] in H; [discriminate|].
  destruct (stack s) as [|top r] eqn:St.
  - inversion H; subst. apply REL_refl.
  - assert (Pop : outer_tr c2v opp hid k (with_stack s r) [] = EOk (s', []) -> REL s s').
    { intros H'. eapply REL_trans; [apply (REL_stack s r)|apply IH; exact H']. }
    destruct top as [c|]; [|apply Pop; exact H].
    hstep H. hstep H; [apply Pop; exact H|].
    hstep H. match goal with X : inner_tr _ _ _ _ _ _ _ = EOk ?p |- _ => destruct p as [s1 tr1]; rename X into E1 end. cbn [fst snd] in H.
    destruct (outer_tr_grows _ _ _ _ _ _ _ _ H) as (p2 & Ep2).
    assert (tr1 = []) by (destruct p2; destruct tr1; try discriminate; reflexivity). subst tr1.
    destruct (Nat.eq_dec (NF c2v) 0) as [Z0|NZ].
    + rewrite Z0 in E1. cbn [inner_tr] in E1. inversion E1; subst s1. apply IH. exact H.
    + destruct (inner_tr_grows _ _ _ _ _ _ _ _ _ E1) as (p1 & Ep1 & Gp1). destruct (Gp1 NZ) as (p1' & Ep1'). subst p1.
      rewrite app_nil_r in Ep1. destruct p1'; discriminate.
Qed.

(** the invariant of the fold over the corners: the trace so far (newest first), conditional on its length *)
Definition POSTW (tr : list cfg) (s : est) : Prop :=
  exists cf r y s1, tr = cf :: r /\ SPEC opp (cf_st cf) (cf_corner cf) y s1 /\ REL s1 s.
Definition LASTF (tr : list cfg) : Prop :=
  exists pre cf0, tr = pre ++ [cf0] /\ PRISTINE (cf_st cf0) /\ stack (cf_st cf0) = [Some (cf_corner cf0)].
Definition GOODW (tr : list cfg) (s : est) : Prop :=
  (tr = [] /\ PRISTINE s) \/ (gadj (WSTEP opp) tr /\ LASTF tr /\ POSTW tr s).
Definition goodw4 (st : eres (est * list bool * list nat * list cfg)) : Prop :=
  forall s bits inits tr, st = EOk (s, bits, inits, tr) -> length tr <= NF c2v -> GOODW tr s.

Lemma PRISTINE_REL s s' : PRISTINE s -> REL s s' -> PRISTINE s'.
Proof. intros (A & B & C & D & E) (R1 & R2 & R3 & R4 & R5 & _). unfold PRISTINE. repeat split; congruence. Qed.

Lemma GOODW_REL tr s s' : GOODW tr s -> REL s s' -> GOODW tr s'.
Proof.
  intros [(E & P)|(A & B & (cf & r & y & s1 & E & Sp & R))] Re; [left; split; auto; eapply PRISTINE_REL; eauto|right].
  split; auto. split; auto. exists cf, r, y, s1. split; auto. split; auto. eapply REL_trans; eauto.
Qed.

Lemma GOODW_call tr s c s2 tr1 : GOODW tr s -> from_corner_tr c2v opp hid s (Some c) tr = EOk (s2, tr1) -> length tr1 <= NF c2v ->
  GOODW tr1 s2.
Proof.
  intros G H Bd. destruct (from_corner_tr_app _ _ _ _ _ _ _ _ H) as (p & Hp & ->).
  rewrite app_length in Bd.
  destruct p as [|a p'] eqn:Ep.
  { (* nothing emitted *)
    cbn [app]. apply (GOODW_REL tr s); auto. unfold from_corner_tr in Hp.
    eapply REL_trans; [apply (REL_stack s [Some c])|]. eapply outer_tr_nil. exact Hp. }
  rewrite <- Ep in *. assert (Np : p <> []) by (rewrite Ep; discriminate). clear Ep a p'.
  destruct (from_corner_tr_sstep c2v opp hid s c s2 p Hp ltac:(lia)) as (A & Fi & Po).
  destruct Fi as [X|(pre & cf0 & Epre & Es0 & Ec0)]; [congruence|]. destruct Po as [X|Po]; [congruence|].
  assert (A' : gadj (WSTEP opp) p) by (apply (gadj_impl (SSTEP opp)); [apply SSTEP_WSTEP|exact A]).
  assert (PW : POSTW (p ++ tr) s2).
  { destruct Po as (cf & r & E & y & s1 & dead & Sp & B & C & _). exists cf, (r ++ tr), y, s1. rewrite E. split; [reflexivity|]. split; auto.
    rewrite C. apply REL_stack. }
  right. destruct G as [(-> & Pr)|(G1 & G2 & (cf & r & y & s1 & E & Sp & R))].
  - rewrite app_nil_r in *. split; auto. split; auto. exists pre, cf0. split; auto. rewrite Es0. cbn [with_stack stack]. rewrite Ec0. split; auto.
  - split; [|split; auto].
    + rewrite Epre, E. apply gadj_app_link; [rewrite <- Epre; exact A'|rewrite <- E; exact G1|].
      exists y, s1. split; auto. rewrite Es0. eapply REL_trans; [exact R|apply REL_stack].
    + destruct G2 as (pre0 & cfz & E0 & P0 & S0). exists (p ++ pre0), cfz. rewrite E0, app_assoc. auto.
Qed.

Lemma ec_corner_tr_goodw st c_id : goodw4 st -> goodw4 (ec_corner_tr c2v opp hid st c_id).
Proof.
  intros Co s' bits' inits' tr' H Bd. unfold ec_corner_tr in H.
  destruct st as [[[[s bits] inits] tr]| | |]; cbn [ebind] in H; try discriminate. specialize (Co s bits inits tr eq_refl).
  hstep H. hstep H. { inversion H; subst; auto. }
  destruct (is_degenerated c2v (c_id / 3)). { inversion H; subst; auto. }
  hstep H. match goal with X : find_init _ _ _ _ = EOk ?p |- _ => destruct p as [start interior] end.
  destruct interior.
  - repeat hstep H.
    match goal with X : eset (vf s) _ true = EOk ?l |- _ => apply eset_upd in X; destruct X as (Evf & Lvf); subst l end.
    match type of H with context [with_vf (with_vv s ?vvl) ?vfl] => set (sn := with_vf (with_vv s vvl) vfl) in * end.
    assert (Rn : REL s sn).
    { unfold REL, sn. cbn [with_vf with_vv syms pcc evs f2s last_id vf]. repeat (split; [reflexivity|]). split; [apply upd_length|].
      intros f Hf. rewrite nth_upd. destruct ((f =? c_id / 3) && (c_id / 3 <? length (vf s))); auto. }
    match type of H with match ?o with Some _ => _ | None => _ end = _ => destruct o as [oc|] end.
    + hstep H. hstep H. { inversion H; subst. intros. eapply GOODW_REL; [apply Co; auto|exact Rn]. }
      hstep H. match goal with X : from_corner_tr _ _ _ _ _ _ = EOk ?p |- _ => destruct p as [s2 tr1]; cbn [fst snd] in H; inversion H; subst;
        eapply GOODW_call; [|exact X|exact Bd] end.
      eapply GOODW_REL; [apply Co|exact Rn].
      match goal with X : from_corner_tr _ _ _ _ _ _ = EOk _ |- _ => destruct (from_corner_tr_app _ _ _ _ _ _ _ _ X) as (p & _ & Ep) end.
      rewrite Ep, app_length in Bd. lia.
    + inversion H; subst. eapply GOODW_REL; [apply Co; auto|exact Rn].
  - hstep H. hstep H.
    match goal with X : from_corner_tr _ _ _ ?sa _ _ = EOk ?p, X2 : encode_hole _ _ _ _ _ _ = EOk _ |- _ =>
      destruct p as [s2 tr1]; cbn [fst snd] in H; inversion H; subst;
      apply encode_hole_all in X2; destruct X2 as (Z1 & Z2 & Z3 & Z4 & Z5 & Z6 & Z7);
      assert (Rn : REL s sa) by (unfold REL; rewrite Z1, Z2, Z4, Z5, Z6, Z7; auto 10);
      eapply GOODW_call; [|exact X|exact Bd];
      eapply GOODW_REL; [apply Co|exact Rn];
      destruct (from_corner_tr_app _ _ _ _ _ _ _ _ X) as (p & _ & Ep); rewrite Ep, app_length in Bd; lia end.
Qed.

Lemma ec_fold_tr_goodw l : forall st, goodw4 st -> goodw4 (fold_left (ec_corner_tr c2v opp hid) l st).
Proof. induction l as [|a l IH]; intros st Co; cbn [fold_left]; auto. apply IH. apply ec_corner_tr_goodw. auto. Qed.
End StepM.

(** the whole trace of any encoding *)
Theorem trace_wsteps c2v opp nv niso ndeg o tr : eb_encode_tr c2v opp nv niso ndeg = EOk (o, tr) -> length tr <= NF c2v ->
  tr = [] \/ exists sF, GOODW opp (rev tr) sF /\ o_syms o = rev (syms sF) /\ o_events o = rev (evs sF).
Proof.
  unfold eb_encode_tr. intros H Bd. destruct (NF c2v =? ndeg); [discriminate|].
  destruct (find_holes c2v opp nv) as [[hid vh]| | |]; cbn [ebind] in H; try discriminate.
  destruct (fold_left (ec_corner_tr c2v opp hid) (seq 0 (NC c2v)) (EOk (init_est (NF c2v) nv vh, [], [], []))) as [[[[s bits] inits] tr0]| | |] eqn:Ef;
    cbn [ebind] in H; try discriminate.
  inversion H; subst o tr. clear H. cbn [o_syms o_events] in *. rewrite rev_length in Bd.
  assert (R : goodw4 c2v opp (EOk (s, bits, inits, tr0))).
  { rewrite <- Ef. apply ec_fold_tr_goodw. intros s0 b0 i0 t0 X _. inversion X; subst. left. split; auto. repeat split; reflexivity. }
  right. exists s. rewrite rev_involutive. split; [exact (R s bits inits tr0 eq_refl Bd)|]. split; reflexivity.
Qed.

(** * the FULL small-step relation across runs: inside a run [SSTEP]; at a run boundary [RSTEP]: after the step of the older
    configuration EVERY stack entry is dead (all are popped), the newer configuration starts with a one-entry stack on a
    state that agrees on the event-relevant members *)
Definition RSTEP (opp : list (option nat)) (cf cf' : cfg) : Prop :=
  exists y s1, SPEC opp (cf_st cf) (cf_corner cf) y s1 /\ (y = 7%Z \/ y = 1%Z) /\ Forall (dead_at (vf s1)) (stack s1) /\ REL s1 (cf_st cf') /\
               stack (cf_st cf') = [Some (cf_corner cf')].
Definition MSTEP (opp : list (option nat)) (cf cf' : cfg) : Prop := SSTEP opp cf cf' \/ RSTEP opp cf cf'.

Lemma MSTEP_WSTEP opp cf cf' : MSTEP opp cf cf' -> WSTEP opp cf cf'.
Proof. intros [H|(y & s1 & Sp & _ & _ & Re & _)]; [apply SSTEP_WSTEP; exact H|exists y, s1; auto]. Qed.

Section StepMS.
Variables (c2v : list nat) (opp : list (option nat)) (hid : list (option nat)).

Definition POSTM (tr : list cfg) (s : est) : Prop :=
  exists cf r y s1, tr = cf :: r /\ SPEC opp (cf_st cf) (cf_corner cf) y s1 /\ Forall (dead_at (vf s1)) (stack s1) /\ REL s1 s /\
    ((y = 7%Z \/ y = 1%Z) \/ NF c2v <= length tr).
Definition GOODM (tr : list cfg) (s : est) : Prop :=
  (tr = [] /\ PRISTINE s) \/ (gadj (MSTEP opp) tr /\ LASTF tr /\ POSTM tr s).
Definition goodm4 (st : eres (est * list bool * list nat * list cfg)) : Prop :=
  forall s bits inits tr, st = EOk (s, bits, inits, tr) -> length tr <= NF c2v -> GOODM tr s.

Lemma GOODM_REL tr s s' : GOODM tr s -> REL s s' -> GOODM tr s'.
Proof.
  intros [(E & P)|(A & B & (cf & r & y & s1 & E & Sp & Dd & R & F))] Re; [left; split; auto; eapply PRISTINE_REL; eauto|right].
  split; auto. split; auto. exists cf, r, y, s1. split; auto. split; auto. split; auto. split; [eapply REL_trans; eauto|exact F].
Qed.

Lemma GOODM_call tr s c s2 tr1 : GOODM tr s -> from_corner_tr c2v opp hid s (Some c) tr = EOk (s2, tr1) -> length tr1 <= NF c2v ->
  GOODM tr1 s2.
Proof.
  intros G H Bd. destruct (from_corner_tr_app _ _ _ _ _ _ _ _ H) as (p & Hp & ->).
  rewrite app_length in Bd.
  destruct p as [|a p'] eqn:Ep.
  { cbn [app]. apply (GOODM_REL tr s); auto. unfold from_corner_tr in Hp.
    eapply REL_trans; [apply (REL_stack s [Some c])|]. eapply outer_tr_nil. exact Hp. }
  rewrite <- Ep in *. assert (Np : p <> []) by (rewrite Ep; discriminate). clear Ep a p'.
  destruct (from_corner_tr_sstep c2v opp hid s c s2 p Hp ltac:(lia)) as (A & Fi & Po).
  destruct Fi as [X|(pre & cf0 & Epre & Es0 & Ec0)]; [congruence|]. destruct Po as [X|Po]; [congruence|].
  assert (SF : stack s2 = []).
  { destruct (from_corner_tr_ladj c2v opp hid s c s2 p Hp) as (_ & _ & X & _). exact X. }
  assert (A' : gadj (MSTEP opp) p) by (apply (gadj_impl (SSTEP opp)); [intros a b X; left; exact X|exact A]).
  assert (PW : POSTM (p ++ tr) s2).
  { destruct Po as (cf & r & E & y & s1 & dead & Sp & B & C & D & F). exists cf, (r ++ tr), y, s1. rewrite E. split; [reflexivity|]. split; auto.
    split; [rewrite B, SF, app_nil_r; exact D|]. split; [rewrite C; apply REL_stack|].
    destruct F as [F|F]; [left; exact F|right]. rewrite <- E, app_length. lia. }
  right. destruct G as [(-> & Pr)|(G1 & G2 & (cf & r & y & s1 & E & Sp & Dd & R & F))].
  - rewrite app_nil_r in *. split; auto. split; auto. exists pre, cf0. split; auto. rewrite Es0. cbn [with_stack stack]. rewrite Ec0. split; auto.
  - split; [|split; auto].
    + rewrite Epre, E. apply gadj_app_link; [rewrite <- Epre; exact A'|rewrite <- E; exact G1|].
      assert (Lp : 0 < length p) by (destruct p; [congruence|cbn; lia]).
      right. exists y, s1. split; auto. split; [destruct F as [F|F]; [exact F|lia]|]. split; auto. rewrite Es0. split; [eapply REL_trans; [exact R|apply REL_stack]|].
      cbn [with_stack stack]. rewrite Ec0. reflexivity.
    + destruct G2 as (pre0 & cfz & E0 & P0 & S0). exists (p ++ pre0), cfz. rewrite E0, app_assoc. auto.
Qed.

Lemma ec_corner_tr_goodm st c_id : goodm4 st -> goodm4 (ec_corner_tr c2v opp hid st c_id).
Proof.
  intros Co s' bits' inits' tr' H Bd. unfold ec_corner_tr in H.
  destruct st as [[[[s bits] inits] tr]| | |]; cbn [ebind] in H; try discriminate. specialize (Co s bits inits tr eq_refl).
  hstep H. hstep H. { inversion H; subst; auto. }
  destruct (is_degenerated c2v (c_id / 3)). { inversion H; subst; auto. }
  hstep H. match goal with X : find_init _ _ _ _ = EOk ?p |- _ => destruct p as [start interior] end.
  destruct interior.
  - repeat hstep H.
    match goal with X : eset (vf s) _ true = EOk ?l |- _ => apply eset_upd in X; destruct X as (Evf & Lvf); subst l end.
    match type of H with context [with_vf (with_vv s ?vvl) ?vfl] => set (sn := with_vf (with_vv s vvl) vfl) in * end.
    assert (Rn : REL s sn).
    { unfold REL, sn. cbn [with_vf with_vv syms pcc evs f2s last_id vf]. repeat (split; [reflexivity|]). split; [apply upd_length|].
      intros f Hf. rewrite nth_upd. destruct ((f =? c_id / 3) && (c_id / 3 <? length (vf s))); auto. }
    match type of H with match ?o with Some _ => _ | None => _ end = _ => destruct o as [oc|] end.
    + hstep H. hstep H. { inversion H; subst. intros. eapply GOODM_REL; [apply Co; auto|exact Rn]. }
      hstep H. match goal with X : from_corner_tr _ _ _ _ _ _ = EOk ?p |- _ => destruct p as [s2 tr1]; cbn [fst snd] in H; inversion H; subst;
        eapply GOODM_call; [|exact X|exact Bd] end.
      eapply GOODM_REL; [apply Co|exact Rn].
      match goal with X : from_corner_tr _ _ _ _ _ _ = EOk _ |- _ => destruct (from_corner_tr_app _ _ _ _ _ _ _ _ X) as (p & _ & Ep) end.
      rewrite Ep, app_length in Bd. lia.
    + inversion H; subst. eapply GOODM_REL; [apply Co; auto|exact Rn].
  - hstep H. hstep H.
    match goal with X : from_corner_tr _ _ _ ?sa _ _ = EOk ?p, X2 : encode_hole _ _ _ _ _ _ = EOk _ |- _ =>
      destruct p as [s2 tr1]; cbn [fst snd] in H; inversion H; subst;
      apply encode_hole_all in X2; destruct X2 as (Z1 & Z2 & Z3 & Z4 & Z5 & Z6 & Z7);
      assert (Rn : REL s sa) by (unfold REL; rewrite Z1, Z2, Z4, Z5, Z6, Z7; auto 10);
      eapply GOODM_call; [|exact X|exact Bd];
      eapply GOODM_REL; [apply Co|exact Rn];
      destruct (from_corner_tr_app _ _ _ _ _ _ _ _ X) as (p & _ & Ep); rewrite Ep, app_length in Bd; lia end.
Qed.

Lemma ec_fold_tr_goodm l : forall st, goodm4 st -> goodm4 (fold_left (ec_corner_tr c2v opp hid) l st).
Proof. induction l as [|a l IH]; intros st Co; cbn [fold_left]; auto. apply IH. apply ec_corner_tr_goodm. auto. Qed.
End StepMS.

Theorem trace_msteps c2v opp nv niso ndeg o tr : eb_encode_tr c2v opp nv niso ndeg = EOk (o, tr) -> length tr <= NF c2v ->
  tr = [] \/ exists sF, GOODM c2v opp (rev tr) sF /\ o_syms o = rev (syms sF) /\ o_events o = rev (evs sF).
Proof.
  unfold eb_encode_tr. intros H Bd. destruct (NF c2v =? ndeg); [discriminate|].
  destruct (find_holes c2v opp nv) as [[hid vh]| | |]; cbn [ebind] in H; try discriminate.
  destruct (fold_left (ec_corner_tr c2v opp hid) (seq 0 (NC c2v)) (EOk (init_est (NF c2v) nv vh, [], [], []))) as [[[[s bits] inits] tr0]| | |] eqn:Ef;
    cbn [ebind] in H; try discriminate.
  inversion H; subst o tr. clear H. cbn [o_syms o_events] in *. rewrite rev_length in Bd.
  assert (R : goodm4 c2v opp (EOk (s, bits, inits, tr0))).
  { rewrite <- Ef. apply ec_fold_tr_goodm. intros s0 b0 i0 t0 X _. inversion X; subst. left. split; auto. repeat split; reflexivity. }
  right. exists s. rewrite rev_involutive. split; [exact (R s bits inits tr0 eq_refl Bd)|]. split; reflexivity.
Qed.
