From Coq Require Import ZifyBool.
From Draco Require Import Base.Codec Base.Bits Model.Varint.
Local Open Scope Z_scope.

Definition width_ok (w : Z) : Prop := w = 8 \/ w = 16 \/ w = 32 \/ w = 64.

Lemma max_depth_val w : width_ok w -> 7 * Z.of_nat (varint_max_depth w) >= w.
Proof. intros [ -> | [ -> | [ -> | -> ]]]; vm_compute; congruence. Qed.

(** One encoder step, arithmetically. *)
Lemma enc_byte_hi v : 0 <= v -> Z.lor (Z.land v 127) 128 = v mod 128 + 128.
Proof.
  intros. change 127 with (2^7 - 1). rewrite land_ones_mod by lia. change (2^7) with 128.
  rewrite Z.lor_comm. change 128 with (1 * 2^7) at 1. rewrite lor_mul_add; [lia|lia|].
  change (2^7) with 128. apply Z.mod_pos_bound; lia.
Qed.

(** Encoder output: for v < 2^(7n) and n <= fuel the encoder succeeds with at most n bytes. *)
Lemma enc_fuel_ok : forall n fuel v, (n <= fuel)%nat -> (0 < n)%nat -> 0 <= v < 2 ^ (7 * Z.of_nat n) ->
  exists bs, enc_varint_u_fuel fuel v = Some bs /\ (0 < length bs <= n)%nat /\ wf_bytes bs.
Proof.
  induction n as [|n IH]; intros fuel v Hle Hn Hv; [lia|].
  destruct fuel as [|fuel]; [lia|]. cbn [enc_varint_u_fuel].
  destruct (v >=? 128) eqn:E.
  - destruct n as [|n'].
    { exfalso. change (2 ^ (7 * Z.of_nat 1)) with 128 in Hv. lia. }
    destruct (IH fuel (Z.shiftr v 7)) as (r & Hr & Hlen & Hwf); try lia.
    { rewrite Z.shiftr_div_pow2 by lia. split; [apply Z.div_pos; lia|].
      apply Z.div_lt_upper_bound; [lia|]. rewrite <- Z.pow_add_r by lia.
      replace (7 + 7 * Z.of_nat (S n')) with (7 * Z.of_nat (S (S n'))) by lia. lia. }
    rewrite Hr. eexists; split; [reflexivity|]. split; [cbn [length]; lia|].
    constructor; [|exact Hwf]. rewrite enc_byte_hi by lia. unfold is_byte.
    pose proof (Z.mod_pos_bound v 128). lia.
  - eexists; split; [reflexivity|]. split; [cbn; lia|].
    constructor; [|constructor]. change 127 with (2^7-1). rewrite land_ones_mod by lia.
    unfold is_byte. pose proof (Z.mod_pos_bound v (2^7)). lia.
Qed.

(** The core inversion lemma, generalised over both fuels. *)
Lemma dec_enc_fuel w : 8 <= w -> forall fe v bs rest fd,
  0 <= v < 2 ^ w -> enc_varint_u_fuel fe v = Some bs -> (length bs <= fd)%nat ->
  dec_varint_u_fuel w fd (bs ++ rest) = Some (v, rest).
Proof.
  intros Hw. induction fe as [|fe IH]; intros v bs rest fd Hv Henc Hfd; [discriminate|].
  cbn [enc_varint_u_fuel] in Henc. destruct (v >=? 128) eqn:E.
  - destruct (enc_varint_u_fuel fe (Z.shiftr v 7)) as [r|] eqn:Er; [|discriminate].
    injection Henc as <-. cbn [length] in Hfd. destruct fd as [|fd]; [lia|].
    cbn [app dec_varint_u_fuel]. rewrite enc_byte_hi by lia.
    pose proof (Z.mod_pos_bound v 128 ltac:(lia)) as Hm.
    rewrite land_hi128 by lia.
    assert (Hs: 0 <= Z.shiftr v 7 < 2 ^ (w - 7)).
    { rewrite Z.shiftr_div_pow2 by lia. split; [apply Z.div_pos; lia|].
      apply Z.div_lt_upper_bound; [lia|]. rewrite <- Z.pow_add_r by lia.
      replace (7 + (w - 7)) with w by lia. lia. }
    rewrite (IH (Z.shiftr v 7) r rest fd); [|split; [lia|]|exact Er|lia].
    2:{ apply Z.lt_le_trans with (2^(w-7)); [lia|]. apply Z.pow_le_mono_r; lia. }
    f_equal. f_equal.
    rewrite Z.shiftl_mul_pow2 by lia.
    rewrite Z.mod_small.
    2:{ split; [lia|]. replace w with ((w - 7) + 7) at 1 by lia. rewrite Z.pow_add_r by lia. nia. }
    rewrite land_lo127 by lia.
    rewrite lor_mul_add; [|lia|apply Z.mod_pos_bound; lia].
    rewrite Z.shiftr_div_pow2 by lia. change (2^7) with 128.
    pose proof (Z.div_mod v 128). lia.
  - injection Henc as <-. destruct fd as [|fd]; [cbn in Hfd; lia|].
    cbn [app dec_varint_u_fuel].
    assert (Hv': 0 <= v < 128) by lia.
    change 127 with (2^7-1). rewrite land_ones_mod by lia. rewrite Z.mod_small by lia.
    rewrite land_small128 by lia. reflexivity.
Qed.

Lemma enc_varint_u_total w v : width_ok w -> 0 <= v < 2 ^ w ->
  exists bs, enc_varint_u v = Some bs /\ (0 < length bs <= varint_max_depth w)%nat /\ wf_bytes bs.
Proof.
  intros Hw Hv. unfold enc_varint_u.
  assert (Hd: (varint_max_depth w <= 11)%nat /\ (0 < varint_max_depth w)%nat)
    by (destruct Hw as [ -> | [ -> | [ -> | -> ]]]; vm_compute; lia).
  apply enc_fuel_ok; try lia.
  pose proof (max_depth_val w Hw).
  split; [lia|]. apply Z.lt_le_trans with (2 ^ w); [lia|]. apply Z.pow_le_mono_r; lia.
Qed.

Lemma varint_u_roundtrips w : width_ok w ->
  roundtrips enc_varint_u (dec_varint_u w) (fun v => 0 <= v < 2 ^ w).
Proof.
  intros Hw v bs rest Hv Henc. unfold dec_varint_u.
  destruct (enc_varint_u_total w v Hw Hv) as (bs' & Hbs' & Hlen & _).
  rewrite Henc in Hbs'. injection Hbs' as <-.
  apply dec_enc_fuel with (fe := 11%nat); try assumption; try lia.
  destruct Hw as [ -> | [ -> | [ -> | -> ]]]; lia.
Qed.

(** zig-zag *)
Lemma zigzag_enc_val w v : 1 <= w -> - 2 ^ (w - 1) <= v < 2 ^ (w - 1) ->
  zigzag_enc w v = if v >=? 0 then 2 * v else 2 * (- (v + 1)) + 1.
Proof.
  intros Hw Hv. unfold zigzag_enc.
  assert (Hp: 2 ^ w = 2 * 2 ^ (w - 1)).
  { replace w with (1 + (w - 1)) at 1 by lia. rewrite Z.pow_add_r by lia. reflexivity. }
  assert (Hpos: 0 < 2 ^ (w - 1)) by (apply Z.pow_pos_nonneg; lia).
  set (h := 2 ^ (w - 1)) in *. set (W := 2 ^ w) in *. clearbody h W.
  destruct (v >=? 0) eqn:E.
  - rewrite (Z.mod_small v) by lia. rewrite Z.shiftl_mul_pow2 by lia. rewrite Z.mod_small by lia. lia.
  - rewrite (Z.mod_small (- (v + 1))) by lia. rewrite Z.shiftl_mul_pow2 by lia.
    rewrite Z.mod_small by lia. change (2^1) with 2.
    replace (- (v + 1) * 2) with ((-(v+1)) * 2^1) by lia.
    rewrite lor_mul_add by lia. lia.
Qed.

Lemma zigzag_range w v : 1 <= w -> - 2 ^ (w - 1) <= v < 2 ^ (w - 1) -> 0 <= zigzag_enc w v < 2 ^ w.
Proof.
  intros Hw Hv. rewrite zigzag_enc_val by lia.
  assert (Hp: 2 ^ w = 2 * 2 ^ (w - 1)).
  { replace w with (1 + (w - 1)) at 1 by lia. rewrite Z.pow_add_r by lia. reflexivity. }
  assert (Hpos: 0 < 2 ^ (w - 1)) by (apply Z.pow_pos_nonneg; lia).
  destruct (v >=? 0) eqn:E; lia.
Qed.

Lemma zigzag_inverse w v : 1 <= w -> - 2 ^ (w - 1) <= v < 2 ^ (w - 1) ->
  zigzag_dec w (zigzag_enc w v) = v.
Proof.
  intros Hw Hv. rewrite zigzag_enc_val by lia. unfold zigzag_dec, to_signed.
  rewrite land1_mod2, shiftr1_div2.
  assert (Hpos: 0 < 2 ^ (w - 1)) by (apply Z.pow_pos_nonneg; lia).
  set (h := 2 ^ (w - 1)) in *. clearbody h.
  destruct (v >=? 0) eqn:E.
  - replace (2 * v) with (v * 2) by lia. rewrite Z.mod_mul, Z.div_mul by lia.
    cbn [Z.eqb]. destruct (v <? h) eqn:E2; lia.
  - replace (2 * - (v + 1) + 1) with (1 + (-(v+1)) * 2) by lia.
    rewrite Z.mod_add, Z.div_add by lia. change (1 mod 2) with 1. change (1 / 2) with 0.
    cbn [Z.eqb]. destruct (0 + - (v + 1) <? h) eqn:E2; lia.
Qed.

Lemma varint_s_roundtrips w : width_ok w ->
  roundtrips (enc_varint_s w) (dec_varint_s w) (fun v => - 2 ^ (w - 1) <= v < 2 ^ (w - 1)).
Proof.
  intros Hw v bs rest Hv Henc. unfold dec_varint_s, enc_varint_s in *.
  assert (1 <= w) by (destruct Hw as [ -> | [ -> | [ -> | -> ]]]; lia).
  rewrite (varint_u_roundtrips w Hw _ _ rest (zigzag_range w v H Hv) Henc).
  rewrite zigzag_inverse by lia. reflexivity.
Qed.

(** little-endian scalars *)
Lemma le_roundtrips n : roundtrips (fun v => Some (enc_le n v)) (dec_le n)
  (fun v => 0 <= v < 256 ^ Z.of_nat n).
Proof.
  induction n as [|n IH]; intros v bs rest Hv Henc; injection Henc as <-.
  - cbn. change (256 ^ Z.of_nat 0) with 1 in Hv. f_equal. f_equal. lia.
  - cbn [enc_le app dec_le].
    rewrite (IH (v / 256) _ rest); [| |reflexivity].
    + f_equal. f_equal. pose proof (Z.div_mod v 256). lia.
    + rewrite Nat2Z.inj_succ, Z.pow_succ_r in Hv by lia.
      split; [apply Z.div_pos; lia|]. apply Z.div_lt_upper_bound; lia.
Qed.
