(** Edgebreaker connectivity decoder: on the corner table of an ACCEPTED run the boundary test of the attribute traversers is exact.

    DepthFirstTraverser::TraverseFromCorner (compression/mesh/traverser/depth_first_traverser.h), on a vertex it visits for the first
    time at corner c:   if (!corner_table()->IsOnBoundary(vert_id)) { corner_id = GetRightCorner(corner_id); face_id = corner_id / 3; continue; }
    with no test for kInvalidCornerIndex; the next iteration does MarkFaceVisited(0xFFFFFFFF / 3).  It is safe exactly when
        GetRightCorner(c) = kInvalidCornerIndex   implies   IsOnBoundary(Vertex(c)),
    where GetRightCorner(c) = Opposite(Next(c)) and IsOnBoundary(v) = (SwingLeft(LeftMostCorner(v)) == kInvalidCornerIndex)
    (mesh/corner_table.h).  [eb_full_right_corner]: every table returned by DecodeConnectivity() has this property - whatever the
    stream declared, whatever symbols / split events / start-face bits it carried (degenerate faces, interior start faces glued to
    non-matching edges included): a corner without right corner IS the left-most corner of its vertex.
    The proof is the fan invariant [FJ] of Edgebreaker_compact_proofs.v carried to the final state ([start_loop_FJ], [compact_spec])
    and its corollary [dead_end_lmc_J]. *)
From Coq Require Import ZArith List Bool Lia ZifyBool.
From Draco Require Import Model.Edgebreaker Proofs.Edgebreaker_proofs Proofs.Edgebreaker_fan_proofs Proofs.Edgebreaker_oob_proofs
  Proofs.Edgebreaker_compact_proofs.
Import ListNotations.
Local Open Scope Z_scope.

Lemma eb_core_final_FJ : forall nf maxv rm syms events bits n sf, 0 <= nf -> 0 <= maxv -> Z.of_nat (length syms) <= nf ->
  eb_core (3 * nf) maxv nf rm syms events bits = Ok (n, sf) -> FJ nf sf.
Proof.
  intros nf maxv rm syms events bits n sf Hnf Hmv Hns H. unfold eb_core in H.
  set (NC := 3 * nf) in *. set (s0 := init_st events) in *.
  assert (HW0 : W NC maxv (nfaces s0) s0) by (apply W_init; unfold NC; lia).
  assert (HF0 : FI (nfaces s0) s0) by apply FI_init.
  assert (HN0 : 3 * (nfaces s0 + Z.of_nat (length syms)) <= NC) by (unfold NC, s0; cbn [nfaces init_st]; lia).
  mstep H. rename a into s1. mstep H. mstep H. rename a into s2. mstep H. mstep H. destruct a as (k, s3). cbn [fst snd] in H.
  apply Ok_inj in H. apply pair_equal_spec in H. destruct H as (<- & <-).
  destruct (sym_loop_W NC maxv rm _ syms 0 s0 s1 HW0 HN0 E) as (HW1 & _).
  pose proof (sym_loop_FI NC maxv rm _ syms 0 s0 s1 HW0 HF0 HN0 E) as HF1.
  destruct (start_loop_W NC maxv nf bits (stack s1) O s1 s2 eq_refl HW1 (w_stack _ _ _ _ HW1) E1) as (HW2 & Einv & Env & Hfl).
  pose proof (start_loop_FJ NC maxv nf bits (stack s1) O s1 s2 eq_refl HW1 (FI_FJ _ _ HF1) (w_stack _ _ _ _ HW1) E1) as HJ2.
  destruct (start_loop_tail NC maxv nf bits (stack s1) O s1 eq_refl HW1 (FI_NI _ _ HF1) (w_stack _ _ _ _ HW1)) as (_ & T2).
  destruct (T2 s2 E1) as (_ & Evc).
  assert (Enf : nfaces s2 = nf) by lia. rewrite Enf in *.
  pose proof (w_nv _ _ _ _ HW2) as Hnv2.
  destruct (compact_spec NC maxv False (rev (invalid s2)) (Z.to_nat (nv s2)) s2 nf HW2 HJ2) as (_ & CS).
  - intros c Hc. pose proof (w_vr _ _ _ _ HW2 c Hc). lia.
  - destruct (f_iso _ _ HF1) as (A & _). pose proof (w_invalid _ _ _ _ HW1) as B.
    rewrite Einv, Evc, Env. apply Forall_rev. rewrite Forall_forall in *. intros v Hv. split; [apply B; exact Hv|apply A; exact Hv].
  - rewrite Einv. apply NoDup_rev. apply (f_iso _ _ HF1).
  - lia.
  - destruct (f_inv _ _ HF1) as [Q|Q]; [left; rewrite Einv, Q; reflexivity|right].
    destruct (Z.eq_dec nf 0) as [Z0|Z0]; [|lia]. exfalso.
    destruct (sym_loop_W NC maxv rm _ syms 0 s0 s1 HW0 HN0 E) as (_ & X). cbn [nfaces init_st s0] in X. unfold s0 in X. cbn [nfaces init_st] in X. lia.
  - intros [].
  - destruct (CS k s3 E3) as (_ & J2 & _). exact J2.
Qed.

(** GetRightCorner(c) = kInvalidCornerIndex  ->  c = LeftMostCorner(Vertex(c))  and  IsOnBoundary(Vertex(c)) *)
Theorem eb_core_right_corner : forall nf maxv rm syms events bits n sf, 0 <= nf -> 0 <= maxv -> Z.of_nat (length syms) <= nf ->
  eb_core (3 * nf) maxv nf rm syms events bits = Ok (n, sf) ->
  forall c, 0 <= c < 3 * nf -> copp sf (next_c c) = -1 ->
    vc sf (c2v sf c) = c /\ copp sf (next_c (vc sf (c2v sf c))) = -1.
Proof.
  intros nf maxv rm syms events bits n sf Hnf Hmv Hns H c Hc Ho.
  pose proof (eb_core_final_FJ _ _ _ _ _ _ _ _ Hnf Hmv Hns H) as HJ.
  assert (Hs : slf sf c = -1).
  { unfold slf, oppf. pose proof (next_c_rng c nf Hc) as Hn.
    destruct (next_c c =? -1) eqn:E; [lia|]. rewrite Ho. reflexivity. }
  pose proof (dead_end_lmc_J sf nf c HJ Hc Hs) as Hl. split; [exact Hl|]. rewrite Hl. exact Ho.
Qed.

Theorem eb_full_right_corner : forall nev nf nsplit rm syms events bits n sf,
  eb_full nev nf nsplit rm syms events bits = Ok (n, sf) ->
  forall c, 0 <= c < 3 * nf -> copp sf (next_c c) = -1 ->
    vc sf (c2v sf c) = c /\ copp sf (next_c (vc sf (c2v sf c))) = -1.
Proof.
  intros nev nf nsplit rm syms events bits n sf H. unfold eb_full in H.
  repeat match type of H with (if ?b then _ else _) = _ => destruct b eqn:?; [discriminate|] end.
  apply (eb_core_right_corner nf ((nev + nsplit) mod 4294967296) rm syms events bits n sf); try lia; [apply Z.mod_pos_bound; lia|exact H].
Qed.

(** * Interior start faces are glued to MATCHING edges (since the guard Vertex(Previous(corner_a)) == vert_p, /repo a3a73f7)

    [EE s m]: every pair of opposite corners among the first m corners faces the same edge with reversed orientation.
    [start_loop_EE]: the start-face phase preserves it - for every accepted stream, whatever its start-face bits.  (Before the
    guard it did not: symbols E,L + one interior start face were accepted with Opposite(6) = 3 on different edges.) *)
Definition EE (s : st) (m : Z) : Prop := forall x, 0 <= x < m -> copp s x <> -1 ->
  c2v s (next_c x) = c2v s (prev_c (copp s x)) /\ c2v s (prev_c x) = c2v s (next_c (copp s x)).

Lemma prev_next : forall c, 0 <= c -> prev_c (next_c c) = c.
Proof. intros c Hc. apply (next_c_spec c Hc). Qed.

Section StartEE.
Variables NC maxv : Z.

Lemma start_face_EE : forall nf s a s', NC = 3 * nf -> W NC maxv (nfaces s) s -> FJ (nfaces s) s -> 0 <= a < 3 * nfaces s ->
  start_face NC maxv nf s a = Ok s' -> EE s (3 * nfaces s) -> EE s' (3 * nfaces s').
Proof.
  intros nf s a s' HNC HW HJ Ha H HE.
  assert (HN : NI (nfaces s) s) by (intros c Hc; apply (j_reach _ _ HJ c Hc)).
  pose proof (start_face_W NC maxv nf s a s' HNC HW Ha H) as (HW' & Enf & _).
  destruct (start_face_shape NC maxv nf s a s' HNC HW HN Ha H)
    as (b & c & Hb & Hc & Fa & Fb & Fc & Ec & Ev & El & En & _ & Eg & Eb & Ecc & Dab & Dac & Dbc).
  rewrite Enf. set (f := nfaces s) in *.
  pose proof (w_nf _ _ _ _ HW) as Hnf.
  pose proof (next_c_rng a f Ha) as Hna. pose proof (next_c_rng b f Hb) as Hnb. pose proof (next_c_rng c f Hc) as Hnc.
  pose proof (prev_c_rng a f Ha) as Hpa. pose proof (prev_c_rng b f Hb) as Hpb. pose proof (prev_c_rng c f Hc) as Hpc.
  destruct (new_face_corners f ltac:(lia)) as (N0 & N1 & N2 & P0 & P1 & P2).
  assert (Gc : forall x, 0 <= x < 3 * f -> c2v s' x = c2v s x) by (intros x Hx; rewrite Ev; rewrite !upd_other by lia; reflexivity).
  assert (V0 : c2v s' (3 * f) = c2v s (next_c b)) by (rewrite Ev; rewrite !upd_other by lia; apply upd_same).
  assert (V1 : c2v s' (3 * f + 1) = c2v s (next_c c)) by (rewrite Ev; rewrite upd_other by lia; apply upd_same).
  assert (V2 : c2v s' (3 * f + 2) = c2v s (next_c a)) by (rewrite Ev; apply upd_same).
  (* the left-most corners that led to b and c belong to the vertices they were looked up for *)
  pose proof (w_vr _ _ _ _ HW _ Hna) as Hvn. pose proof (w_vr _ _ _ _ HW _ Hnb) as Hvx.
  assert (Ln : vc s (c2v s (next_c a)) <> -1) by (apply (HN _ Hna)).
  assert (Lx : vc s (c2v s (next_c b)) <> -1) by (apply (HN _ Hnb)).
  assert (Lnr : 0 <= vc s (c2v s (next_c a)) < 3 * f) by (destruct (w_lr _ _ _ _ HW _ Hvn); [congruence|assumption]).
  assert (Lxr : 0 <= vc s (c2v s (next_c b)) < 3 * f) by (destruct (w_lr _ _ _ _ HW _ Hvx); [congruence|assumption]).
  assert (Pb : c2v s (prev_c b) = c2v s (next_c a)).
  { rewrite Eb, prev_next by lia. apply (j_vc _ _ HJ); [exact Hvn|exact Ln]. }
  assert (Pc : c2v s (prev_c c) = c2v s (next_c b)).
  { rewrite Ecc, prev_next by lia. apply (j_vc _ _ HJ); [exact Hvx|exact Lx]. }
  intros x Hx Ho.
  destruct (Z_lt_dec x (3 * f)) as [Lo|Hi].
  - (* an old corner *)
    pose proof (next_c_rng x f ltac:(lia)) as Hnx. pose proof (prev_c_rng x f ltac:(lia)) as Hpx.
    rewrite (Gc (next_c x)), (Gc (prev_c x)) by lia.
    destruct (Z.eq_dec x c) as [->|Nc].
    { rewrite Ec, upd_same, P2, N2, V1, V0. split; [reflexivity|exact Pc]. }
    destruct (Z.eq_dec x b) as [->|Nb].
    { assert (Q : copp s' b = 3 * f + 1) by (rewrite Ec; rewrite !upd_other by lia; apply upd_same).
      rewrite Q, P1, N1, V0, V2. split; [reflexivity|exact Pb]. }
    destruct (Z.eq_dec x a) as [->|Na].
    { assert (Q : copp s' a = 3 * f) by (rewrite Ec; rewrite !upd_other by lia; apply upd_same).
      rewrite Q, P0, N0, V2, V1. split; [reflexivity|exact Eg]. }
    assert (Q : copp s' x = copp s x) by (rewrite Ec; rewrite !upd_other by lia; reflexivity).
    rewrite Q in *. destruct (w_pi _ _ _ _ HW x ltac:(lia)) as [Z|(R & _)]; [congruence|].
    pose proof (next_c_rng _ f R). pose proof (prev_c_rng _ f R).
    rewrite !Gc by lia. apply HE; [lia|exact Ho].
  - assert (x = 3 * f \/ x = 3 * f + 1 \/ x = 3 * f + 2) as [-> | [-> | ->]] by lia.
    + assert (Q : copp s' (3 * f) = a) by (rewrite Ec; rewrite !upd_other by lia; apply upd_same).
      rewrite Q, N0, P0, V1, V2, !Gc by lia. split; [symmetry; exact Eg|reflexivity].
    + assert (Q : copp s' (3 * f + 1) = b) by (rewrite Ec; rewrite !upd_other by lia; apply upd_same).
      rewrite Q, N1, P1, V2, V0, !Gc by lia. split; [symmetry; exact Pb|reflexivity].
    + assert (Q : copp s' (3 * f + 2) = c) by (rewrite Ec; rewrite upd_other by lia; apply upd_same).
      rewrite Q, N2, P2, V0, V1, !Gc by lia. split; [symmetry; exact Pc|reflexivity].
Qed.

Lemma start_loop_EE : forall nf bits stk k s s', NC = 3 * nf -> W NC maxv (nfaces s) s -> FJ (nfaces s) s ->
  Forall (fun c => 0 <= c < 3 * nfaces s) stk ->
  start_loop NC maxv nf bits k stk s = Ok s' -> EE s (3 * nfaces s) -> EE s' (3 * nfaces s').
Proof.
  induction stk as [|a r IH]; intros k s s' HNC HW HJ Hstk H HE; cbn [start_loop] in H.
  - apply Ok_inj in H. subst s'. exact HE.
  - inversion Hstk as [|x y Ha Hr]; subst x y. destruct (bits k).
    + mstep H. pose proof (start_face_W NC maxv nf s a a0 HNC HW Ha E) as (A & B & _).
      pose proof (start_face_FJ NC maxv nf s a a0 HNC HW HJ Ha E) as C.
      pose proof (start_face_EE nf s a a0 HNC HW HJ Ha E HE) as D.
      eapply IH; [exact HNC|exact A|exact C| |exact H|exact D]. eapply Forall_mono3; [|exact Hr]. lia.
    + eapply IH; [exact HNC|apply W_with_inits; exact HW| |exact Hr|exact H|exact HE].
      destruct HJ. constructor; sproj; assumption.
Qed.
End StartEE.

(** from the initial state: whatever the symbol phase built, the start-face phase keeps opposite corners on shared edges *)
Theorem eb_start_faces_share_edges : forall nf maxv rm syms events bits s1 s2, 0 <= nf -> 0 <= maxv -> Z.of_nat (length syms) <= nf ->
  sym_loop (3 * nf) maxv rm (Z.of_nat (length syms)) syms 0 (init_st events) = Ok s1 ->
  start_loop (3 * nf) maxv nf bits O (stack s1) s1 = Ok s2 ->
  EE s1 (3 * nfaces s1) -> EE s2 (3 * nfaces s2).
Proof.
  intros nf maxv rm syms events bits s1 s2 Hnf Hmv Hns E E1 HE.
  set (NC := 3 * nf) in *. set (s0 := init_st events) in *.
  assert (HW0 : W NC maxv (nfaces s0) s0) by (apply W_init; unfold NC; lia).
  assert (HF0 : FI (nfaces s0) s0) by apply FI_init.
  assert (HN0 : 3 * (nfaces s0 + Z.of_nat (length syms)) <= NC) by (unfold NC, s0; cbn [nfaces init_st]; lia).
  destruct (sym_loop_W NC maxv rm _ syms 0 s0 s1 HW0 HN0 E) as (HW1 & _).
  pose proof (sym_loop_FI NC maxv rm _ syms 0 s0 s1 HW0 HF0 HN0 E) as HF1.
  exact (start_loop_EE NC maxv nf bits (stack s1) O s1 s2 eq_refl HW1 (FI_FJ _ _ HF1) (w_stack _ _ _ _ HW1) E1 HE).
Qed.
