(** Edgebreaker connectivity decoder: on the corner table of an ACCEPTED run the boundary test of the attribute traversers is exact.

    DepthFirstTraverser::TraverseFromCorner (compression/mesh/traverser/depth_first_traverser.h), on a vertex it visits for the first
    time at corner c:   if (!corner_table()->IsOnBoundary(vert_id)) { corner_id = GetRightCorner(corner_id); face_id = corner_id / 3; continue; }
    with no test for kInvalidCornerIndex; the next iteration does MarkFaceVisited(0xFFFFFFFF / 3).  It is safe exactly when
        GetRightCorner(c) = kInvalidCornerIndex   implies   IsOnBoundary(Vertex(c)),
    where GetRightCorner(c) = Opposite(Next(c)) and IsOnBoundary(v) = (SwingLeft(LeftMostCorner(v)) == kInvalidCornerIndex)
    (mesh/corner_table.h).  [eb_full_right_corner]: every table returned by DecodeConnectivity() has this property - whatever the
    stream declared, whatever symbols / split events / start-face bits it carried (degenerate faces, interior start faces glued to
    non-matching edges included): a corner without right corner IS the left-most corner of its vertex.
    The proof is the fan invariant [FJ] of Edgebreaker_compact_proofs.v carried to the final state ([start_loop_FJ], [compact_spec])
    and its corollary [dead_end_lmc_J]. *)
From Coq Require Import ZArith List Bool Lia ZifyBool.
From Draco Require Import Model.Edgebreaker Proofs.Edgebreaker_proofs Proofs.Edgebreaker_fan_proofs Proofs.Edgebreaker_oob_proofs
  Proofs.Edgebreaker_compact_proofs.
Import ListNotations.
Local Open Scope Z_scope.

Lemma eb_core_final_FJ : forall nf maxv rm syms events bits n sf, 0 <= nf -> 0 <= maxv -> Z.of_nat (length syms) <= nf ->
  eb_core (3 * nf) maxv nf rm syms events bits = Ok (n, sf) -> FJ nf sf.
Proof.
  intros nf maxv rm syms events bits n sf Hnf Hmv Hns H. unfold eb_core in H.
  set (NC := 3 * nf) in *. set (s0 := init_st events) in *.
  assert (HW0 : W NC maxv (nfaces s0) s0) by (apply W_init; unfold NC; lia).
  assert (HF0 : FI (nfaces s0) s0) by apply FI_init.
  assert (HN0 : 3 * (nfaces s0 + Z.of_nat (length syms)) <= NC) by (unfold NC, s0; cbn [nfaces init_st]; lia).
  mstep H. rename a into s1. mstep H. mstep H. rename a into s2. mstep H. mstep H. destruct a as (k, s3). cbn [fst snd] in H.
  apply Ok_inj in H. apply pair_equal_spec in H. destruct H as (<- & <-).
  destruct (sym_loop_W NC maxv rm _ syms 0 s0 s1 HW0 HN0 E) as (HW1 & _).
  pose proof (sym_loop_FI NC maxv rm _ syms 0 s0 s1 HW0 HF0 HN0 E) as HF1.
  destruct (start_loop_W NC maxv nf bits (stack s1) O s1 s2 eq_refl HW1 (w_stack _ _ _ _ HW1) E1) as (HW2 & Einv & Env & Hfl).
  pose proof (start_loop_FJ NC maxv nf bits (stack s1) O s1 s2 eq_refl HW1 (FI_FJ _ _ HF1) (w_stack _ _ _ _ HW1) E1) as HJ2.
  destruct (start_loop_tail NC maxv nf bits (stack s1) O s1 eq_refl HW1 (FI_NI _ _ HF1) (w_stack _ _ _ _ HW1)) as (_ & T2).
  destruct (T2 s2 E1) as (_ & Evc).
  assert (Enf : nfaces s2 = nf) by lia. rewrite Enf in *.
  pose proof (w_nv _ _ _ _ HW2) as Hnv2.
  destruct (compact_spec NC maxv False (rev (invalid s2)) (Z.to_nat (nv s2)) s2 nf HW2 HJ2) as (_ & CS).
  - intros c Hc. pose proof (w_vr _ _ _ _ HW2 c Hc). lia.
  - destruct (f_iso _ _ HF1) as (A & _). pose proof (w_invalid _ _ _ _ HW1) as B.
    rewrite Einv, Evc, Env. apply Forall_rev. rewrite Forall_forall in *. intros v Hv. split; [apply B; exact Hv|apply A; exact Hv].
  - rewrite Einv. apply NoDup_rev. apply (f_iso _ _ HF1).
  - lia.
  - destruct (f_inv _ _ HF1) as [Q|Q]; [left; rewrite Einv, Q; reflexivity|right].
    destruct (Z.eq_dec nf 0) as [Z0|Z0]; [|lia]. exfalso.
    destruct (sym_loop_W NC maxv rm _ syms 0 s0 s1 HW0 HN0 E) as (_ & X). cbn [nfaces init_st s0] in X. unfold s0 in X. cbn [nfaces init_st] in X. lia.
  - intros [].
  - destruct (CS k s3 E3) as (_ & J2 & _). exact J2.
Qed.

(** GetRightCorner(c) = kInvalidCornerIndex  ->  c = LeftMostCorner(Vertex(c))  and  IsOnBoundary(Vertex(c)) *)
Theorem eb_core_right_corner : forall nf maxv rm syms events bits n sf, 0 <= nf -> 0 <= maxv -> Z.of_nat (length syms) <= nf ->
  eb_core (3 * nf) maxv nf rm syms events bits = Ok (n, sf) ->
  forall c, 0 <= c < 3 * nf -> copp sf (next_c c) = -1 ->
    vc sf (c2v sf c) = c /\ copp sf (next_c (vc sf (c2v sf c))) = -1.
Proof.
  intros nf maxv rm syms events bits n sf Hnf Hmv Hns H c Hc Ho.
  pose proof (eb_core_final_FJ _ _ _ _ _ _ _ _ Hnf Hmv Hns H) as HJ.
  assert (Hs : slf sf c = -1).
  { unfold slf, oppf. pose proof (next_c_rng c nf Hc) as Hn.
    destruct (next_c c =? -1) eqn:E; [lia|]. rewrite Ho. reflexivity. }
  pose proof (dead_end_lmc_J sf nf c HJ Hc Hs) as Hl. split; [exact Hl|]. rewrite Hl. exact Ho.
Qed.

Theorem eb_full_right_corner : forall nev nf nsplit rm syms events bits n sf,
  eb_full nev nf nsplit rm syms events bits = Ok (n, sf) ->
  forall c, 0 <= c < 3 * nf -> copp sf (next_c c) = -1 ->
    vc sf (c2v sf c) = c /\ copp sf (next_c (vc sf (c2v sf c))) = -1.
Proof.
  intros nev nf nsplit rm syms events bits n sf H. unfold eb_full in H.
  repeat match type of H with (if ?b then _ else _) = _ => destruct b eqn:?; [discriminate|] end.
  apply (eb_core_right_corner nf ((nev + nsplit) mod 4294967296) rm syms events bits n sf); try lia; [apply Z.mod_pos_bound; lia|exact H].
Qed.
