(** Proofs about Model/Normals.v (property C07).
    Part 1 (integers, closed under the global context): the repair makes |i0|+|i1|+|i2| = c, the
    (s,t) pair is in the square and canonical — for EVERY centre value c >= 1.
    Part 2 (binary64, Flocq): for every finite float32 input whose L1 norm passes the `> 1e-6`
    test the two rounded integers satisfy |i0|,|i1| <= c (so part 1 applies) and no conversion is
    undefined; zero / denormal / tiny / NaN input takes the fallback branch and yields the centre
    of the square; together: the encoder is total on finite input and emits canonical coordinates.
    Part 3 (binary32, Flocq): the decoder on the square: finite result, the `norm_squared < 1e-6`
    branch is unreachable. *)
From Coq Require Import ZArith Reals Lra Lia Psatz Bool ZifyBool List.
From Flocq Require Import Core BinarySingleNaN Binary Bits Relative.
From Draco Require Import Base.Bits Base.Float32 Base.Float64 Model.Quantize Model.Octahedron Model.Normals
  Proofs.Octahedron_proofs Proofs.Quantize_error.
Import ListNotations.
Local Open Scope Z_scope.



Definition l1 (v : ivec3) : Z := let '(a, b, c) := v in Z.abs a + Z.abs b + Z.abs c.

(** the repair: whatever int_vec[1] is, |int_vec[0]| <= c suffices for abs sum = c *)
Lemma repair_abs_sum c i0 i1 neg : Z.abs i0 <= c -> l1 (nv_repair c i0 i1 neg) = c.
Proof.
  intros H. unfold nv_repair, l1.
  destruct (c - Z.abs i0 - Z.abs i1 <? 0) eqn:E; destruct (i1 >? 0) eqn:E1; destruct neg; lia.
Qed.

Lemma repair_keeps_first c i0 i1 neg : fst (fst (nv_repair c i0 i1 neg)) = i0.
Proof. unfold nv_repair. destruct (c - Z.abs i0 - Z.abs i1 <? 0); reflexivity. Qed.

Lemma repair_sign_third c i0 i1 neg : Z.abs i0 <= c ->
  let t := snd (nv_repair c i0 i1 neg) in (neg = true -> t <= 0) /\ (neg = false -> 0 <= t).
Proof.
  intros H. unfold nv_repair.
  destruct (c - Z.abs i0 - Z.abs i1 <? 0) eqn:E; destruct neg; cbv beta iota zeta; cbn [snd]; (split; intros HH; [try discriminate HH | try discriminate HH]); lia.
Qed.

(** every signed int32 intermediate of the repair is representable (no UB) for q <= 30 *)
Lemma repair_no_overflow c i0 i1 : 1 <= c <= cmax -> Z.abs i0 <= c -> Z.abs i1 <= c ->
  forallb Float32.in_i32 (nv_repair_trace c i0 i1) = true.
Proof.
  intros Hc H0 H1. unfold nv_repair_trace, cmax in *.
  cbv zeta. cbn [forallb]. unfold Float32.in_i32. change (2 ^ 31) with 2147483648.
  destruct (i1 >? 0) eqn:E; lia.
Qed.

Lemma st_in_square c v : 0 <= c -> l1 v = c -> in_square c (int_vec_to_st (obox_of_center c) v).
Proof.
  destruct v as [[i0 i1] i2]. unfold l1, int_vec_to_st, in_square. cbn [ob_center ob_maxv obox_of_center].
  intros Hc H.
  destruct (i0 >=? 0) eqn:E0; cbn [fst snd]; [lia|].
  destruct (i1 <? 0) eqn:E1; destruct (i2 <? 0) eqn:E2; cbn [fst snd]; lia.
Qed.

Lemma int_vec_to_oct_eq b v : int_vec_to_oct b v = canonicalize b (int_vec_to_st b v).
Proof. destruct v as [[i0 i1] i2]. reflexivity. Qed.

Theorem oct_coords_canonical c v : 1 <= c -> l1 v = c ->
  canonical c (int_vec_to_oct (obox_of_center c) v).
Proof.
  intros Hc H. rewrite int_vec_to_oct_eq. apply canonicalize_canonical; [exact Hc|].
  apply st_in_square; [lia | exact H].
Qed.

Theorem oct_coords_in_square c v : 1 <= c -> l1 v = c ->
  in_square c (int_vec_to_oct (obox_of_center c) v).
Proof. intros Hc H. exact (proj1 (oct_coords_canonical c v Hc H)). Qed.

(** the integer half of the encoder, for EVERY centre value c >= 1 (every q >= 2) and every pair
    the rounding step can produce *)
Theorem encoder_emits_canonical c i0 i1 neg : 1 <= c -> Z.abs i0 <= c ->
  let iv := nv_repair c i0 i1 neg in
  l1 iv = c /\ canonical c (int_vec_to_oct (obox_of_center c) iv).
Proof.
  intros Hc H0 iv. assert (E := repair_abs_sum c i0 i1 neg H0). split; [exact E|].
  apply oct_coords_canonical; assumption.
Qed.

(** CanonicalizeIntegerVector<int32_t>: abs sum = c for every int32 vector (c <= 2^29-1) *)
Theorem canonicalize_int_vector_abs_sum c v : 1 <= c <= cmax ->
  (let '(a, b, d) := v in Z.abs a < 2 ^ 31 /\ Z.abs b < 2 ^ 31 /\ Z.abs d < 2 ^ 31) ->
  l1 (canonicalize_int_vector (obox_of_center c) v) = c.
Proof.
  destruct v as [[v0 v1] v2]. intros Hc (A0 & A1 & A2). unfold canonicalize_int_vector, l1.
  cbn [ob_center obox_of_center].
  destruct (Z.abs v0 + Z.abs v1 + Z.abs v2 =? 0) eqn:E; [lia|].
  set (S := Z.abs v0 + Z.abs v1 + Z.abs v2) in *.
  assert (HS : 0 < S) by lia.
  assert (Q : forall x, Z.abs (Z.quot (x * c) S) = Z.abs x * c / S).
  { intros x. rewrite <- Z.quot_abs by lia. rewrite Z.abs_mul, (Z.abs_eq c), (Z.abs_eq S) by lia.
    apply Z.quot_div_nonneg; [apply Z.mul_nonneg_nonneg; lia | lia]. }
  assert (B : forall x, 0 <= x <= S -> 0 <= x * c / S <= c).
  { intros x Hx. split; [apply Z.div_pos; nia|]. apply Z.div_le_upper_bound; nia. }
  assert (B0 := B (Z.abs v0) ltac:(lia)). assert (B1 := B (Z.abs v1) ltac:(lia)).
  assert (B01 : Z.abs v0 * c / S + Z.abs v1 * c / S <= c).
  { assert (Z.abs v0 * c / S + Z.abs v1 * c / S <= (Z.abs v0 * c + Z.abs v1 * c) / S).
    { apply Z.div_le_lower_bound; [lia|].
      pose proof (Z.mul_div_le (Z.abs v0 * c) S HS). pose proof (Z.mul_div_le (Z.abs v1 * c) S HS). lia. }
    assert ((Z.abs v0 * c + Z.abs v1 * c) / S <= c) by (apply Z.div_le_upper_bound; nia). lia. }
  unfold cmax in Hc.
  assert (T : forall x, Z.abs x <= c -> Float32.to_i32 x = x).
  { intros x Hx. unfold Float32.to_i32. change (2 ^ 32) with 4294967296. change (2 ^ 31) with 2147483648.
    destruct (Z_le_gt_dec 0 x).
    - rewrite Z.mod_small by lia. destruct (x <? 2147483648) eqn:EE; lia.
    - replace (x mod 4294967296) with (x + 4294967296).
      + destruct (x + 4294967296 <? 2147483648) eqn:EE; lia.
      + apply Z.mod_unique with (-1); lia. }
  rewrite (T (Z.quot (v0 * c) S)) by (rewrite Q; lia).
  rewrite (T (Z.quot (v1 * c) S)) by (rewrite Q; lia).
  rewrite !Q. destruct (v2 >=? 0); lia.
Qed.


Local Open Scope R_scope.
Notation fexp64 := (FLT_exp (-1074) 53).
Definition rnd64 (x : R) : R := round radix2 fexp64 ZnearestE x.
Notation R64 := (B2R 53 1024).
Notation fin64 x := (is_finite 53 1024 x = true).
Definition BIG64 : R := bpow radix2 1000.

Global Instance fexp64_valid : Valid_exp fexp64.
Proof. apply FLT_exp_valid. unfold Prec_gt_0. lia. Qed.

Lemma BIG64_format : generic_format radix2 fexp64 BIG64.
Proof. apply generic_format_bpow. unfold FLT_exp. lia. Qed.

Lemma rnd64_abs_le_BIG y : Rabs y <= BIG64 -> Rabs (rnd64 y) <= BIG64.
Proof. intros H. apply abs_round_le_generic; [apply fexp64_valid | apply valid_rnd_N | apply BIG64_format | exact H]. Qed.

Lemma no_overflow64 y : Rabs y <= BIG64 ->
  Rlt_bool (Rabs (round radix2 (SpecFloat.fexp 53 1024) (round_mode mode_NE) y)) (bpow radix2 1024) = true.
Proof.
  intros H. apply Rlt_bool_true. change (SpecFloat.fexp 53 1024) with fexp64. cbn [round_mode].
  apply Rle_lt_trans with BIG64; [apply (rnd64_abs_le_BIG y H)|]. unfold BIG64. apply bpow_lt. lia.
Qed.

Lemma dadd_ok a b : fin64 a -> fin64 b -> Rabs (R64 a + R64 b) <= BIG64 ->
  fin64 (dadd a b) /\ R64 (dadd a b) = rnd64 (R64 a + R64 b).
Proof.
  intros Ha Hb H. pose proof (Bplus_correct 53 1024 eq_refl eq_refl binop_nan_pl64 mode_NE a b Ha Hb) as C.
  rewrite (no_overflow64 _ H) in C. destruct C as (C1 & C2 & _). split; [exact C2 | exact C1].
Qed.

Lemma dmul_ok a b : fin64 a -> fin64 b -> Rabs (R64 a * R64 b) <= BIG64 ->
  fin64 (dmul a b) /\ R64 (dmul a b) = rnd64 (R64 a * R64 b).
Proof.
  intros Ha Hb H. pose proof (Bmult_correct 53 1024 eq_refl eq_refl binop_nan_pl64 mode_NE a b) as C.
  rewrite (no_overflow64 _ H) in C. destruct C as (C1 & C2 & _). split; [|exact C1].
  unfold dmul, b64_mult. rewrite C2, Ha, Hb. reflexivity.
Qed.

Lemma ddiv_ok a b : fin64 a -> R64 b <> 0 -> Rabs (R64 a / R64 b) <= BIG64 ->
  fin64 (ddiv a b) /\ R64 (ddiv a b) = rnd64 (R64 a / R64 b).
Proof.
  intros Ha Hb H. pose proof (Bdiv_correct 53 1024 eq_refl eq_refl binop_nan_pl64 mode_NE a b Hb) as C.
  rewrite (no_overflow64 _ H) in C. destruct C as (C1 & C2 & _). split; [|exact C1].
  unfold ddiv, b64_div. rewrite C2. exact Ha.
Qed.

Lemma dabs_ok a : R64 (dabs a) = Rabs (R64 a) /\ is_finite 53 1024 (dabs a) = is_finite 53 1024 a.
Proof.
  destruct a as [s|s|s pl H|s m e H]; cbn [dabs B2R is_finite]; split; try reflexivity; try (symmetry; apply Rabs_R0).
  rewrite <- F2R_Zabs. destruct s; reflexivity.
Qed.

(** dyadic numbers with a 53-bit numerator are binary64 numbers *)
Lemma format64_dyadic n e : (Z.abs n < 2 ^ 53)%Z -> (-1074 <= e)%Z -> generic_format radix2 fexp64 (IZR n * bpow radix2 e).
Proof.
  intros Hn He. apply generic_format_FLT. exists (Float radix2 n e); [reflexivity | exact Hn | exact He].
Qed.

Lemma rnd64_le a b : a <= b -> rnd64 a <= rnd64 b.
Proof. intros H. apply round_le; [apply fexp64_valid | apply valid_rnd_N | exact H]. Qed.
Lemma rnd64_id x : generic_format radix2 fexp64 x -> rnd64 x = x.
Proof. intros H. apply round_generic; [apply valid_rnd_N | exact H]. Qed.

(** float -> double is exact *)
Lemma format32_in_64 x : generic_format radix2 fexp32 x -> generic_format radix2 fexp64 x.
Proof.
  apply generic_inclusion_mag. intros _. unfold FLT_exp. lia.
Qed.

Lemma d_of_f32_ok x : fin x -> fin64 (d_of_f32 x) /\ R64 (d_of_f32 x) = R_of x.
Proof.
  destruct x as [s|s|s pl H|s m e H]; intros F; try discriminate.
  - split; reflexivity.
  - unfold d_of_f32.
    pose proof (binary_normalize_correct 53 1024 eq_refl eq_refl mode_NE (cond_Zopp s (Z.pos m)) e s) as C.
    assert (E : F2R (Float radix2 (cond_Zopp s (Z.pos m)) e) = R_of (B754_finite 24 128 s m e H)) by reflexivity.
    rewrite E in C.
    assert (G : generic_format radix2 fexp64 (R_of (B754_finite 24 128 s m e H))).
    { apply format32_in_64. apply (generic_format_B2R 24 128). }
    change (SpecFloat.fexp 53 1024) with fexp64 in C. cbn [round_mode] in C.
    rewrite (round_generic radix2 fexp64 ZnearestE _ G) in C.
    rewrite Rlt_bool_true in C.
    + destruct C as (C1 & C2 & _). split; [exact C2 | exact C1].
    + apply Rlt_trans with (bpow radix2 128); [apply (abs_B2R_lt_emax 24 128) | apply bpow_lt; lia].
Qed.

Lemma d_of_Z_ok k : (Z.abs k < 2 ^ 53)%Z -> fin64 (d_of_Z k) /\ R64 (d_of_Z k) = IZR k.
Proof.
  intros Hk. unfold d_of_Z.
  pose proof (binary_normalize_correct 53 1024 eq_refl eq_refl mode_NE k 0 false) as C.
  assert (E : F2R (Float radix2 k 0) = IZR k) by (unfold F2R; simpl; ring).
  rewrite E in C.
  assert (G : generic_format radix2 fexp64 (IZR k)).
  { replace (IZR k) with (IZR k * bpow radix2 0) by (simpl; ring). apply format64_dyadic; [exact Hk | lia]. }
  change (SpecFloat.fexp 53 1024) with fexp64 in C. cbn [round_mode] in C.
  rewrite (round_generic radix2 fexp64 ZnearestE _ G) in C.
  rewrite Rlt_bool_true in C.
  - destruct C as (C1 & C2 & _). split; [exact C2 | exact C1].
  - apply Rlt_le_trans with (bpow radix2 53).
    + rewrite <- abs_IZR. change (bpow radix2 53) with (IZR (2 ^ 53)). apply IZR_lt. exact Hk.
    + apply bpow_le. lia.
Qed.

Lemma d_floorZ_ok x : fin64 x -> d_floorZ x = Some (Zfloor (R64 x)).
Proof.
  destruct x as [s|s|s pl H|s m e H]; intros F; try discriminate.
  - cbn. change 0 with (IZR 0). rewrite Zfloor_IZR. reflexivity.
  - unfold d_floorZ, B2R. f_equal.
    set (v := if s then Z.neg m else Z.pos m).
    assert (Ev : cond_Zopp s (Z.pos m) = v) by (destruct s; reflexivity). rewrite Ev.
    destruct (0 <=? e)%Z eqn:Ee.
    + apply Z.leb_le in Ee. unfold F2R. cbn [Fnum Fexp].
      rewrite <- IZR_Zpower by exact Ee. rewrite <- mult_IZR. rewrite Zfloor_IZR. reflexivity.
    + apply Z.leb_gt in Ee. unfold F2R. cbn [Fnum Fexp].
      replace e with (- (- e))%Z by lia. rewrite bpow_opp. rewrite <- IZR_Zpower by lia.
      change (radix_val radix2) with 2%Z.
      replace (- - - e)%Z with (- e)%Z by lia.
      change (IZR v * / IZR (2 ^ (- e))) with (IZR v / IZR (2 ^ (- e))).
      rewrite Zfloor_div; [reflexivity|]. apply Z.pow_nonzero; lia.
Qed.

Lemma compare64_fin a b : fin64 a -> fin64 b -> b64_compare a b = Some (Rcompare (R64 a) (R64 b)).
Proof. intros Ha Hb. apply (Bcompare_correct 53 1024); assumption. Qed.
Lemma d_gt_true a b : fin64 a -> fin64 b -> d_gt a b = true -> R64 b < R64 a.
Proof.
  intros Ha Hb. unfold d_gt. rewrite (compare64_fin a b Ha Hb).
  destruct (Rcompare_spec (R64 a) (R64 b)); intros; try discriminate. assumption.
Qed.
Lemma d_gt_false a b : fin64 a -> fin64 b -> R64 a <= R64 b -> d_gt a b = false.
Proof.
  intros Ha Hb H. unfold d_gt. rewrite (compare64_fin a b Ha Hb).
  destruct (Rcompare_spec (R64 a) (R64 b)); try reflexivity. lra.
Qed.
Lemma d_lt_spec a b : fin64 a -> fin64 b -> d_lt a b = Rlt_bool (R64 a) (R64 b).
Proof.
  intros Ha Hb. unfold d_lt, Rlt_bool. rewrite (compare64_fin a b Ha Hb). destruct (Rcompare (R64 a) (R64 b)); reflexivity.
Qed.

(** * The rounding step  static_cast<int32_t>(floor(x * center + 0.5))  for |x| <= 1 + 2^-52 *)
Definition slack1 : R := 1 + bpow radix2 (-52).

Lemma cmax_val : cmax = 536870911%Z. Proof. reflexivity. Qed.

Lemma round_step c x : (1 <= c <= cmax)%Z -> fin64 x -> Rabs (R64 x) <= slack1 ->
  exists k, nv_round c x = Ok k /\ (Z.abs k <= c)%Z.
Proof.
  intros Hc Fx Hx. rewrite cmax_val in Hc. unfold nv_round.
  destruct (d_of_Z_ok c) as (Fc & Rc); [change (2 ^ 53)%Z with 9007199254740992%Z; lia|].
  assert (Hc1 : 1 <= IZR c <= 536870911) by (split; apply IZR_le; lia).
  set (M := IZR (c * 8388608 + 1) * bpow radix2 (-23)).
  assert (EM : M = IZR c + bpow radix2 (-23)).
  { unfold M. rewrite plus_IZR, mult_IZR. change (bpow radix2 (-23)) with (/ 8388608). field. }
  assert (FM : generic_format radix2 fexp64 M).
  { apply format64_dyadic; [change (2 ^ 53)%Z with 9007199254740992%Z; lia | lia]. }
  assert (HP : Rabs (R64 x * R64 (d_of_Z c)) <= M).
  { rewrite Rc, Rabs_mult, (Rabs_pos_eq (IZR c)) by lra. rewrite EM.
    apply Rle_trans with (slack1 * IZR c); [apply Rmult_le_compat_r; lra|].
    unfold slack1. change (bpow radix2 (-52)) with (/ 4503599627370496). change (bpow radix2 (-23)) with (/ 8388608). lra. }
  assert (MB : M <= 536870912).
  { rewrite EM. change (bpow radix2 (-23)) with (/ 8388608). lra. }
  destruct (dmul_ok x (d_of_Z c) Fx Fc) as (Fp & Rp).
  { eapply Rle_trans; [exact HP|]. eapply Rle_trans; [exact MB|]. unfold BIG64.
    change 536870912 with (bpow radix2 29). apply bpow_le. lia. }
  assert (HP2 : Rabs (R64 (dmul x (d_of_Z c))) <= M).
  { rewrite Rp. apply abs_round_le_generic; [apply fexp64_valid | apply valid_rnd_N | exact FM | exact HP]. }
  assert (Fh : fin64 d_half) by reflexivity.
  assert (Rh : R64 d_half = / 2) by (unfold d_half; vm_compute; lra).
  destruct (dadd_ok (dmul x (d_of_Z c)) d_half Fp Fh) as (Fs & Rs).
  { rewrite Rh. apply Rabs_le_inv in HP2. apply Rabs_le. unfold BIG64.
    assert (bpow radix2 30 <= bpow radix2 1000) by (apply bpow_le; lia). change (bpow radix2 30) with 1073741824 in H. lra. }
  rewrite (d_floorZ_ok _ Fs). rewrite Rs, Rh.
  set (P := R64 (dmul x (d_of_Z c))) in *.
  apply Rabs_le_inv in HP2.
  (* upper and lower representable bounds of P + 1/2 *)
  set (U := IZR (c * 8388608 + 1 + 4194304) * bpow radix2 (-23)).
  set (L := IZR (- (c * 8388608 + 1) + 4194304) * bpow radix2 (-23)).
  assert (EU : U = M + / 2).
  { unfold U. rewrite EM. rewrite !plus_IZR, mult_IZR. change (bpow radix2 (-23)) with (/ 8388608). field. }
  assert (EL : L = - M + / 2).
  { unfold L. rewrite EM. rewrite !plus_IZR, opp_IZR, plus_IZR, mult_IZR. change (bpow radix2 (-23)) with (/ 8388608). field. }
  assert (FU : generic_format radix2 fexp64 U) by (apply format64_dyadic; [change (2 ^ 53)%Z with 9007199254740992%Z; lia | lia]).
  assert (FL : generic_format radix2 fexp64 L) by (apply format64_dyadic; [change (2 ^ 53)%Z with 9007199254740992%Z; lia | lia]).
  assert (B1 : rnd64 (P + / 2) <= U).
  { rewrite <- (rnd64_id U FU). apply rnd64_le. lra. }
  assert (B2 : L <= rnd64 (P + / 2)).
  { rewrite <- (rnd64_id L FL). apply rnd64_le. lra. }
  set (V := rnd64 (P + / 2)) in *.
  assert (K1 : (Zfloor V <= c)%Z).
  { apply Z.lt_succ_r. apply lt_IZR. unfold Z.succ. rewrite plus_IZR.
    apply Rle_lt_trans with V; [apply Zfloor_lb|]. apply Rle_lt_trans with U; [exact B1|].
    rewrite EU, EM. change (bpow radix2 (-23)) with (/ 8388608). lra. }
  assert (K2 : (- c <= Zfloor V)%Z).
  { apply Zfloor_lub. rewrite opp_IZR. apply Rle_trans with L; [|exact B2].
    rewrite EL, EM. change (bpow radix2 (-23)) with (/ 8388608). lra. }
  exists (Zfloor V). split; [|lia].
  assert (E : Float32.in_i32 (Zfloor V) = true).
  { unfold Float32.in_i32. apply andb_true_intro. change (2 ^ 31)%Z with 2147483648%Z.
    split; [apply Z.leb_le | apply Z.ltb_lt]; lia. }
  rewrite E. reflexivity.
Qed.

(** * abs_sum and the scaled vector for finite input *)
Definition fin3 (v : vec3) : Prop := let '(v0, v1, v2) := v in fin v0 /\ fin v1 /\ fin v2.
Definition T1em6 : R := R64 d_1em6.

Lemma T1em6_bounds : bpow radix2 (-20) <= T1em6 /\ T1em6 <= bpow radix2 (-19).
Proof.
  unfold T1em6, d_1em6. change (bpow radix2 (-20)) with (/ 1048576). change (bpow radix2 (-19)) with (/ 524288).
  vm_compute. lra.
Qed.

Lemma dabs_of_f32 x : fin x ->
  fin64 (dabs (d_of_f32 x)) /\ R64 (dabs (d_of_f32 x)) = Rabs (R_of x) /\ Rabs (R_of x) < bpow radix2 128.
Proof.
  intros F. destruct (d_of_f32_ok x F) as (F1 & R1). destruct (dabs_ok (d_of_f32 x)) as (R2 & F2).
  split; [rewrite F2; exact F1|]. split; [rewrite R2, R1; reflexivity|]. apply (abs_B2R_lt_emax 24 128).
Qed.

Lemma bpow_format64 e : (-1074 <= e)%Z -> generic_format radix2 fexp64 (bpow radix2 e).
Proof. intros H. apply generic_format_bpow. unfold FLT_exp. lia. Qed.

Lemma abs_sum_ok v : fin3 v ->
  let '(v0, v1, v2) := v in
  let A := nv_abs_sum v in
  fin64 A /\ Rabs (R_of v0) <= R64 A /\ Rabs (R_of v1) <= R64 A /\ Rabs (R_of v2) <= R64 A /\ R64 A <= bpow radix2 130 /\
  R64 A <= rnd64 (rnd64 (Rabs (R_of v0) + Rabs (R_of v1)) + Rabs (R_of v2)).
Proof.
  destruct v as [[v0 v1] v2]. intros (F0 & F1 & F2). unfold nv_abs_sum.
  destruct (dabs_of_f32 v0 F0) as (G0 & E0 & L0). destruct (dabs_of_f32 v1 F1) as (G1 & E1 & L1).
  destruct (dabs_of_f32 v2 F2) as (G2 & E2 & L2).
  set (a0 := dabs (d_of_f32 v0)) in *. set (a1 := dabs (d_of_f32 v1)) in *. set (a2 := dabs (d_of_f32 v2)) in *.
  set (r0 := Rabs (R_of v0)) in *. set (r1 := Rabs (R_of v1)) in *. set (r2 := Rabs (R_of v2)) in *.
  assert (P0 : 0 <= r0) by apply Rabs_pos. assert (P1 : 0 <= r1) by apply Rabs_pos. assert (P2 : 0 <= r2) by apply Rabs_pos.
  assert (W : bpow radix2 128 + bpow radix2 128 = bpow radix2 129) by (change 129%Z with (128 + 1)%Z; rewrite bpow_plus; simpl; lra).
  assert (W2 : bpow radix2 129 + bpow radix2 128 <= bpow radix2 130).
  { change 130%Z with (129 + 1)%Z. rewrite (bpow_plus radix2 129 1). rewrite <- W. simpl. pose proof (bpow_gt_0 radix2 128). lra. }
  assert (BB : bpow radix2 130 <= BIG64) by (apply bpow_le; lia).
  destruct (dadd_ok a0 a1 G0 G1) as (Fs & Rs).
  { rewrite E0, E1, Rabs_pos_eq by lra. lra. }
  rewrite E0, E1 in Rs.
  assert (Fr0 : generic_format radix2 fexp64 r0) by (rewrite <- E0; apply (generic_format_B2R 53 1024)).
  assert (Fr1 : generic_format radix2 fexp64 r1) by (rewrite <- E1; apply (generic_format_B2R 53 1024)).
  assert (Fr2 : generic_format radix2 fexp64 r2) by (rewrite <- E2; apply (generic_format_B2R 53 1024)).
  assert (S0 : r0 <= rnd64 (r0 + r1)) by (rewrite <- (rnd64_id r0 Fr0) at 1; apply rnd64_le; lra).
  assert (S1 : r1 <= rnd64 (r0 + r1)) by (rewrite <- (rnd64_id r1 Fr1) at 1; apply rnd64_le; lra).
  assert (SU : rnd64 (r0 + r1) <= bpow radix2 129).
  { rewrite <- (rnd64_id _ (bpow_format64 129 ltac:(lia))). apply rnd64_le. lra. }
  destruct (dadd_ok (dadd a0 a1) a2 Fs G2) as (Fa & Ra).
  { rewrite Rs, E2, Rabs_pos_eq by lra. lra. }
  rewrite Rs, E2 in Ra.
  assert (FS : generic_format radix2 fexp64 (rnd64 (r0 + r1))) by (apply generic_format_round; [apply fexp64_valid | apply valid_rnd_N]).
  assert (A0 : rnd64 (r0 + r1) <= rnd64 (rnd64 (r0 + r1) + r2)) by (rewrite <- (rnd64_id _ FS) at 1; apply rnd64_le; lra).
  assert (A2 : r2 <= rnd64 (rnd64 (r0 + r1) + r2)) by (rewrite <- (rnd64_id r2 Fr2) at 1; apply rnd64_le; lra).
  assert (AU : rnd64 (rnd64 (r0 + r1) + r2) <= bpow radix2 130).
  { rewrite <- (rnd64_id _ (bpow_format64 130 ltac:(lia))). apply rnd64_le. lra. }
  cbv zeta. rewrite Ra. repeat split; try lra. exact Fa.
Qed.

Definition slack1_format : generic_format radix2 fexp64 slack1.
Proof.
  replace slack1 with (IZR 4503599627370497 * bpow radix2 (-52)).
  - apply format64_dyadic; [change (2 ^ 53)%Z with 9007199254740992%Z; lia | lia].
  - unfold slack1. change (bpow radix2 (-52)) with (/ 4503599627370496). field.
Qed.

Lemma scaled_ok v : fin3 v -> d_gt (nv_abs_sum v) d_1em6 = true ->
  let '(s0, s1, s2) := nv_scaled v in
  (fin64 s0 /\ Rabs (R64 s0) <= slack1) /\ (fin64 s1 /\ Rabs (R64 s1) <= slack1) /\ (fin64 s2 /\ Rabs (R64 s2) <= slack1).
Proof.
  intros Fv G. pose proof (abs_sum_ok v Fv) as HA. destruct v as [[v0 v1] v2]. destruct Fv as (F0 & F1 & F2).
  cbv zeta in HA. destruct HA as (FA & L0 & L1 & L2 & UA & _).
  unfold nv_scaled. rewrite G.
  set (A := nv_abs_sum (v0, v1, v2)) in *.
  assert (F6 : fin64 d_1em6) by reflexivity.
  assert (GT := d_gt_true A d_1em6 FA F6 G). fold T1em6 in GT. destruct T1em6_bounds as (TL & TU).
  assert (TLv : / 1048576 <= T1em6) by exact TL.
  assert (Apos : 0 < R64 A) by lra.
  assert (F1' : fin64 d_one) by reflexivity.
  assert (R1' : R64 d_one = 1) by (unfold d_one; vm_compute; lra).
  assert (IA : / R64 A <= 1048576).
  { rewrite <- (Rinv_inv 1048576). apply Rinv_le_contravar; lra. }
  assert (IApos : 0 < / R64 A) by (apply Rinv_0_lt_compat; exact Apos).
  assert (BB20 : 1048576 <= BIG64) by (change 1048576 with (bpow radix2 20); apply bpow_le; lia).
  destruct (ddiv_ok d_one A F1') as (Fsc & Rsc).
  { lra. }
  { rewrite R1'. unfold Rdiv. rewrite Rmult_1_l, Rabs_pos_eq by lra. lra. }
  rewrite R1' in Rsc. unfold Rdiv in Rsc. rewrite Rmult_1_l in Rsc.
  (* relative error of the reciprocal *)
  assert (NR : bpow radix2 (-1074 + 53 - 1) <= Rabs (/ R64 A)).
  { rewrite Rabs_pos_eq by lra. apply Rle_trans with (bpow radix2 (-130)); [apply bpow_le; lia|].
    change (bpow radix2 (-130)) with (/ bpow radix2 130). apply Rinv_le_contravar; [exact Apos | exact UA]. }
  destruct (relative_error_N_FLT_ex radix2 (-1074) 53 ltac:(lia) (fun x => negb (Z.even x)) (/ R64 A) NR) as (eps & Heps & Eeps).
  change (round radix2 (FLT_exp (-1074) 53) (Znearest (fun x : Z => negb (Z.even x))) (/ R64 A)) with (rnd64 (/ R64 A)) in Eeps.
  assert (U53 : / 2 * bpow radix2 (- (53) + 1) = / 9007199254740992).
  { change (bpow radix2 (- (53) + 1)) with (/ 4503599627370496). lra. }
  rewrite U53 in Heps. apply Rabs_le_inv in Heps.
  set (sc := ddiv d_one A) in *.
  assert (KEY : forall x, fin x -> Rabs (R_of x) <= R64 A ->
            fin64 (dmul (d_of_f32 x) sc) /\ Rabs (R64 (dmul (d_of_f32 x) sc)) <= slack1).
  { intros x Fx Lx. destruct (d_of_f32_ok x Fx) as (Fd & Rd).
    assert (PB : Rabs (R64 (d_of_f32 x) * R64 sc) <= slack1).
    { rewrite Rd, Rsc, Eeps, Rabs_mult. rewrite (Rabs_pos_eq (/ R64 A * (1 + eps))) by (apply Rmult_le_pos; lra).
      replace (Rabs (R_of x) * (/ R64 A * (1 + eps))) with ((Rabs (R_of x) * / R64 A) * (1 + eps)) by ring.
      assert (Q1 : Rabs (R_of x) * / R64 A <= 1).
      { apply Rmult_le_reg_r with (R64 A); [exact Apos|]. rewrite Rmult_assoc, Rinv_l by lra. lra. }
      assert (Q0 : 0 <= Rabs (R_of x) * / R64 A) by (apply Rmult_le_pos; [apply Rabs_pos | lra]).
      unfold slack1. change (bpow radix2 (-52)) with (/ 4503599627370496). nra. }
    destruct (dmul_ok (d_of_f32 x) sc Fd Fsc) as (Fm & Rm).
    { eapply Rle_trans; [exact PB|]. unfold slack1. change (bpow radix2 (-52)) with (/ 4503599627370496). lra. }
    split; [exact Fm|]. rewrite Rm.
    apply abs_round_le_generic; [apply fexp64_valid | apply valid_rnd_N | apply slack1_format | exact PB]. }
  repeat split; try (apply KEY; assumption).
Qed.

(** * The float step feeds the integer half *)
Local Open Scope Z_scope.

Lemma set_qb_inv q b : set_quantization_bits q = Some b ->
  2 <= q <= 30 /\ b = obox_of_center (2 ^ (q - 1) - 1) /\ 1 <= 2 ^ (q - 1) - 1 <= cmax.
Proof.
  intros Hb.
  assert (Hq : 2 <= q <= 30).
  { unfold set_quantization_bits in Hb. destruct ((q <? 2) || (q >? 30)) eqn:E; [discriminate|lia]. }
  rewrite (set_quantization_bits_center q Hq) in Hb. injection Hb as <-.
  split; [exact Hq|]. split; [reflexivity | apply center_bounds; exact Hq].
Qed.

Theorem finite_input_reachable c v : 1 <= c <= cmax -> fin3 v -> d_gt (nv_abs_sum v) d_1em6 = true ->
  exists i0 i1 neg, float_vector_to_int_vec (obox_of_center c) v = Ok (nv_repair c i0 i1 neg) /\
                    Z.abs i0 <= c /\ Z.abs i1 <= c.
Proof.
  intros Hc Fv G. pose proof (scaled_ok v Fv G) as S. unfold float_vector_to_int_vec.
  destruct (nv_scaled v) as [[s0 s1] s2]. destruct S as ((F0 & B0) & (F1 & B1) & _).
  cbn [ob_center obox_of_center].
  destruct (round_step c s0 Hc F0 B0) as (i0 & E0 & K0). destruct (round_step c s1 Hc F1 B1) as (i1 & E1 & K1).
  rewrite E0, E1. cbn [rbind]. exists i0, i1, (d_lt s2 d_zero). auto.
Qed.

(** the fallback branch: scaled_vector = (1.0, 0, 0) gives the centre of the square, for each of the
    29 tool-box states (finite domain, by computation; the bound is in the statement) *)
Definition fallback_oct (b : obox) : res pt :=
  rdo i0 <- nv_round (ob_center b) d_one;
  rdo i1 <- nv_round (ob_center b) d_zero;
  Ok (int_vec_to_oct b (nv_repair (ob_center b) i0 i1 (d_lt d_zero d_zero))).
Definition fallback_ok_q (q : Z) : bool :=
  match set_quantization_bits q with
  | Some b => match fallback_oct b with
              | Ok (s, t) => (s =? ob_center b) && (t =? ob_center b)
              | _ => false
              end
  | None => false
  end.
Lemma fallback_sweep q : 2 <= q <= 30 -> fallback_ok_q q = true.
Proof.
  intros Hq. replace q with ((q - 2) + 2) by lia.
  apply (range_forallb (fun x => fallback_ok_q (x + 2)) 29); [vm_compute; reflexivity | lia].
Qed.

Theorem fallback_is_x_axis q b v : set_quantization_bits q = Some b ->
  d_gt (nv_abs_sum v) d_1em6 = false -> float_vector_to_oct b v = Ok (ob_center b, ob_center b).
Proof.
  intros Hb G. destruct (set_qb_inv q b Hb) as (Hq & _).
  pose proof (fallback_sweep q Hq) as S. unfold fallback_ok_q in S. rewrite Hb in S.
  unfold float_vector_to_oct, float_vector_to_int_vec, nv_scaled. destruct v as [[v0 v1] v2]. rewrite G.
  unfold fallback_oct in S.
  destruct (nv_round (ob_center b) d_one) as [i0| |]; cbn [rbind] in *; try discriminate.
  destruct (nv_round (ob_center b) d_zero) as [i1| |]; cbn [rbind] in *; try discriminate.
  destruct (int_vec_to_oct b (nv_repair (ob_center b) i0 i1 (d_lt d_zero d_zero))) as [s t].
  f_equal. f_equal; lia.
Qed.

(** zero, denormal and tiny input: every component of magnitude <= 2^-22 (2.38e-7) *)
Local Open Scope R_scope.
Lemma tiny_takes_fallback v : fin3 v ->
  (let '(v0, v1, v2) := v in Rabs (R_of v0) <= bpow radix2 (-22) /\ Rabs (R_of v1) <= bpow radix2 (-22) /\ Rabs (R_of v2) <= bpow radix2 (-22)) ->
  d_gt (nv_abs_sum v) d_1em6 = false.
Proof.
  intros Fv Hs. pose proof (abs_sum_ok v Fv) as HA. destruct v as [[v0 v1] v2]. destruct Hs as (H0 & H1 & H2).
  cbv zeta in HA. destruct HA as (FA & _ & _ & _ & _ & UA).
  apply d_gt_false; [exact FA | reflexivity|]. fold T1em6. destruct T1em6_bounds as (TL & _).
  eapply Rle_trans; [exact UA|]. eapply Rle_trans; [|exact TL].
  assert (W1 : bpow radix2 (-22) + bpow radix2 (-22) = bpow radix2 (-21)) by (simpl; lra).
  assert (W2 : bpow radix2 (-21) + bpow radix2 (-22) <= bpow radix2 (-20)) by (simpl; lra).
  assert (S1 : rnd64 (Rabs (R_of v0) + Rabs (R_of v1)) <= bpow radix2 (-21)).
  { rewrite <- (rnd64_id _ (bpow_format64 (-21) ltac:(lia))). apply rnd64_le. lra. }
  rewrite <- (rnd64_id _ (bpow_format64 (-20) ltac:(lia))). apply rnd64_le. lra.
Qed.

(** a NaN component makes abs_sum a NaN: the test fails, fallback *)
Lemma dadd_nan_l a b : d_isnan a = true -> d_isnan (dadd a b) = true.
Proof.
  destruct a as [s|s|s pl H|s m e H]; intros N; try discriminate.
  destruct b; unfold dadd, b64_plus, Bplus; cbn; try reflexivity.
Qed.
Lemma dadd_nan_r a b : d_isnan b = true -> d_isnan (dadd a b) = true.
Proof.
  destruct b as [s|s|s pl H|s m e H]; intros N; try discriminate.
  destruct a; unfold dadd, b64_plus, Bplus; cbn; try reflexivity.
Qed.
Lemma dabs_of_nan x : f_isnan x = true -> d_isnan (dabs (d_of_f32 x)) = true.
Proof. destruct x; intros N; try discriminate. reflexivity. Qed.
Lemma d_gt_nan a b : d_isnan a = true -> d_gt a b = false.
Proof. destruct a; intros N; try discriminate. destruct b; reflexivity. Qed.

Lemma nan_takes_fallback v :
  (let '(v0, v1, v2) := v in f_isnan v0 = true \/ f_isnan v1 = true \/ f_isnan v2 = true) ->
  d_gt (nv_abs_sum v) d_1em6 = false.
Proof.
  destruct v as [[v0 v1] v2]. intros H. apply d_gt_nan. unfold nv_abs_sum.
  destruct H as [H | [H | H]].
  - apply dadd_nan_l, dadd_nan_l, dabs_of_nan, H.
  - apply dadd_nan_l, dadd_nan_r, dabs_of_nan, H.
  - apply dadd_nan_r, dabs_of_nan, H.
Qed.

(** * The encoder on every finite input and every q the library accepts *)
Theorem encoder_total q b v : set_quantization_bits q = Some b -> fin3 v ->
  exists p, float_vector_to_oct b v = Ok p /\ canonical (ob_center b) p.
Proof.
  intros Hb Fv. destruct (set_qb_inv q b Hb) as (Hq & Eb & Hc).
  destruct (d_gt (nv_abs_sum v) d_1em6) eqn:G.
  - subst b. cbn [ob_center obox_of_center]. set (c := (2 ^ (q - 1) - 1)%Z) in *.
    destruct (finite_input_reachable c v Hc Fv G) as (i0 & i1 & neg & E & K0 & K1).
    unfold float_vector_to_oct. rewrite E. cbn [rbind]. eexists. split; [reflexivity|].
    apply encoder_emits_canonical; lia.
  - exists (ob_center b, ob_center b). split; [apply (fallback_is_x_axis q b v Hb G)|].
    subst b. cbn [ob_center obox_of_center]. set (c := (2 ^ (q - 1) - 1)%Z) in *.
    split.
    + unfold in_square. cbn [fst snd]. lia.
    + unfold canonicalize. cbn [ob_maxv ob_center obox_of_center].
      assert ((c =? 0)%Z = false) by lia. assert ((c =? 2 * c)%Z = false) by lia. rewrite H, H0. reflexivity.
Qed.

Local Open Scope R_scope.
(** * Part 3: the decoder *)
Lemma fmt32 n e r : (Z.abs n < 2 ^ 24)%Z -> (-149 <= e)%Z -> r = IZR n * bpow radix2 e -> generic_format radix2 fexp32 r.
Proof.
  intros Hn He ->. apply generic_format_FLT. exists (Float radix2 n e); [reflexivity | exact Hn | exact He].
Qed.
Lemma rnd_id x : generic_format radix2 fexp32 x -> rnd x = x.
Proof. intros H. apply round_generic; [apply valid_rnd_N | exact H]. Qed.
Lemma rnd_ge lo u : generic_format radix2 fexp32 lo -> lo <= u -> lo <= rnd u.
Proof. intros F H. rewrite <- (rnd_id lo F). apply rnd_le. exact H. Qed.
Lemma rnd_ub hi u : generic_format radix2 fexp32 hi -> u <= hi -> rnd u <= hi.
Proof. intros F H. rewrite <- (rnd_id hi F). apply rnd_le. exact H. Qed.
Lemma rnd_lt_inv hi u : generic_format radix2 fexp32 hi -> rnd u < hi -> u < hi.
Proof. intros F H. destruct (Rlt_or_le u hi) as [L|L]; [exact L|]. pose proof (rnd_ge hi u F L). lra. Qed.
Lemma rnd_gt_inv lo u : generic_format radix2 fexp32 lo -> lo < rnd u -> lo < u.
Proof. intros F H. destruct (Rlt_or_le lo u) as [L|L]; [exact L|]. pose proof (rnd_ub lo u F L). lra. Qed.

Ltac fmtc n e := apply (fmt32 n e); [change (2 ^ 24)%Z with 16777216%Z; lia | lia | simpl; lra].

(** the real-number core: one of the three un-normalised components is bounded away from 0 *)
Lemma core_lower A B x1 x xo y z :
  x1 = rnd (1 - Rabs A) -> x = rnd (x1 - Rabs B) -> xo = Rmax 0 (- x) ->
  y = rnd (A + (if Rlt_bool A 0 then xo else - xo)) -> z = rnd (B + (if Rlt_bool B 0 then xo else - xo)) ->
  / 4 <= Rabs x \/ / 16 <= Rabs y \/ / 16 <= Rabs z.
Proof.
  intros E1 Ex Eo Ey Ez.
  assert (F4 : generic_format radix2 fexp32 (/ 4)) by fmtc 1%Z (-2)%Z.
  assert (F4n : generic_format radix2 fexp32 (- / 4)) by fmtc (-1)%Z (-2)%Z.
  assert (F16 : generic_format radix2 fexp32 (/ 16)) by fmtc 1%Z (-4)%Z.
  assert (F16n : generic_format radix2 fexp32 (- / 16)) by fmtc (-1)%Z (-4)%Z.
  assert (F1116 : generic_format radix2 fexp32 (11 / 16)) by fmtc 11%Z (-4)%Z.
  destruct (Rle_or_lt (/ 4) (Rabs x)) as [Hx|Hx]; [left; exact Hx|]. right.
  apply Rabs_def2 in Hx. destruct Hx as (Hx1 & Hx2).
  assert (Ho : 0 <= xo < / 4).
  { rewrite Eo. unfold Rmax. destruct (Rle_dec 0 (- x)); lra. }
  assert (KEY : forall C w, w = rnd (C + (if Rlt_bool C 0 then xo else - xo)) -> 5 / 16 <= Rabs C -> / 16 <= Rabs w).
  { intros C w Ew HC. unfold Rlt_bool in Ew. destruct (Rcompare_spec C 0) as [Lt|Eq|Gt].
    - rewrite Rabs_left in HC by lra. assert (w <= - / 16) by (rewrite Ew; apply rnd_ub; [exact F16n | lra]).
      rewrite Rabs_left by lra. lra.
    - subst C. rewrite Rabs_R0 in HC. lra.
    - rewrite Rabs_pos_eq in HC by lra. assert (/ 16 <= w) by (rewrite Ew; apply rnd_ge; [exact F16 | lra]).
      rewrite Rabs_pos_eq by lra. lra. }
  destruct (Rle_or_lt (5 / 16) (Rabs A)) as [HA|HA]; [left; apply (KEY A y Ey HA)|].
  destruct (Rle_or_lt (5 / 16) (Rabs B)) as [HB|HB]; [right; apply (KEY B z Ez HB)|].
  exfalso.
  assert (11 / 16 <= x1) by (rewrite E1; apply rnd_ge; [exact F1116 | lra]).
  assert (x1 - Rabs B < / 4) by (apply rnd_lt_inv; [exact F4 | rewrite <- Ex; exact Hx1]).
  lra.
Qed.

Lemma f32_abs_ok x : fin x -> fin (f32_abs x) /\ R_of (f32_abs x) = Rabs (R_of x).
Proof.
  destruct x as [s|s|s pl H|s m e H]; intros F; try discriminate; cbn [f32_abs B2R is_finite]; split; try reflexivity.
  - symmetry; apply Rabs_R0.
  - rewrite <- F2R_Zabs. destruct s; reflexivity.
Qed.
Lemma f32_neg_ok x : fin x -> fin (f32_neg x) /\ R_of (f32_neg x) = - R_of x.
Proof.
  destruct x as [s|s|s pl H|s m e H]; intros F; try discriminate; cbn [f32_neg B2R is_finite]; split; try reflexivity.
  - lra.
  - rewrite <- F2R_Zopp. destruct s; reflexivity.
Qed.

Lemma le256_BIG u : Rabs u <= 256 -> Rabs u <= BIG.
Proof. intros H. eapply Rle_trans; [exact H|]. unfold BIG. change 256 with (bpow radix2 8). apply bpow_le. lia. Qed.

Lemma fadd_bd a b lo hi : fin a -> fin b -> generic_format radix2 fexp32 lo -> generic_format radix2 fexp32 hi ->
  lo <= R_of a + R_of b <= hi -> -256 <= lo -> hi <= 256 ->
  fin (fadd a b) /\ R_of (fadd a b) = rnd (R_of a + R_of b) /\ lo <= R_of (fadd a b) <= hi.
Proof.
  intros Fa Fb Fl Fh H L U. destruct (fadd_ok a b Fa Fb) as (F & E); [apply le256_BIG, Rabs_le; lra|].
  split; [exact F|]. split; [exact E|]. rewrite E. split; [apply rnd_ge | apply rnd_ub]; tauto.
Qed.
Lemma fsub_bd a b lo hi : fin a -> fin b -> generic_format radix2 fexp32 lo -> generic_format radix2 fexp32 hi ->
  lo <= R_of a - R_of b <= hi -> -256 <= lo -> hi <= 256 ->
  fin (fsub a b) /\ R_of (fsub a b) = rnd (R_of a - R_of b) /\ lo <= R_of (fsub a b) <= hi.
Proof.
  intros Fa Fb Fl Fh H L U. destruct (fsub_ok a b Fa Fb) as (F & E); [apply le256_BIG, Rabs_le; lra|].
  split; [exact F|]. split; [exact E|]. rewrite E. split; [apply rnd_ge | apply rnd_ub]; tauto.
Qed.
Lemma fmul_bd a b lo hi : fin a -> fin b -> generic_format radix2 fexp32 lo -> generic_format radix2 fexp32 hi ->
  lo <= R_of a * R_of b <= hi -> -256 <= lo -> hi <= 256 ->
  fin (fmul a b) /\ R_of (fmul a b) = rnd (R_of a * R_of b) /\ lo <= R_of (fmul a b) <= hi.
Proof.
  intros Fa Fb Fl Fh H L U. destruct (fmul_ok a b Fa Fb) as (F & E); [apply le256_BIG, Rabs_le; lra|].
  split; [exact F|]. split; [exact E|]. rewrite E. split; [apply rnd_ge | apply rnd_ub]; tauto.
Qed.

Lemma rnd_abs_ge lo u : generic_format radix2 fexp32 lo -> lo <= Rabs u -> lo <= Rabs (rnd u).
Proof. intros F H. apply abs_round_ge_generic; [apply fexp32_valid | apply valid_rnd_N | exact F | exact H]. Qed.

Lemma f32_sqrt_ok x : fin x -> 0 < R_of x -> fin (f32_sqrt x) /\ R_of (f32_sqrt x) = rnd (sqrt (R_of x)).
Proof.
  intros F P. pose proof (Bsqrt_correct 24 128 eq_refl eq_refl unop_nan_pl32 mode_NE x) as (C1 & C2 & _).
  split; [|exact C1]. unfold f32_sqrt, b32_sqrt. rewrite C2.
  destruct x as [s|s|s pl H|s m e H]; try discriminate; [cbn in P; lra|].
  destruct s; [|reflexivity]. exfalso. change (0 < F2R (Float radix2 (Z.neg m) e)) in P.
  assert (F2R (Float radix2 (Z.neg m) e) < 0) by (apply F2R_lt_0; unfold Fnum; apply Pos2Z.neg_is_neg). lra.
Qed.

(** the pieces of OctahedralCoordsToUnitVector, named *)
Definition ov_x (ys zs : f32) : f32 := fsub (fsub f_one (f32_abs ys)) (f32_abs zs).
Definition ov_xo (ys zs : f32) : f32 :=
  let x_offset := f32_neg (ov_x ys zs) in if f_lt x_offset f_zero then f_zero else x_offset.
Definition ov_y (ys zs : f32) : f32 := fadd ys (if f_lt ys f_zero then ov_xo ys zs else f32_neg (ov_xo ys zs)).
Definition ov_z (ys zs : f32) : f32 := fadd zs (if f_lt zs f_zero then ov_xo ys zs else f32_neg (ov_xo ys zs)).
Definition ov_norm_squared (ys zs : f32) : f32 :=
  let x := ov_x ys zs in let y := ov_y ys zs in let z := ov_z ys zs in
  fadd (fadd (fmul x x) (fmul y y)) (fmul z z).
Lemma oct_to_unit_vector_unfold ys zs :
  oct_to_unit_vector ys zs =
  if d_lt (d_of_f32 (ov_norm_squared ys zs)) d_1em6 then (f_zero, f_zero, f_zero)
  else let d := fdiv f_one (f32_sqrt (ov_norm_squared ys zs)) in
       (fmul (ov_x ys zs) d, fmul (ov_y ys zs) d, fmul (ov_z ys zs) d).
Proof. unfold oct_to_unit_vector, ov_norm_squared, ov_y, ov_z, ov_xo, ov_x. cbv zeta. reflexivity. Qed.

Lemma f_zero_ok : fin f_zero /\ R_of f_zero = 0. Proof. split; reflexivity. Qed.
Lemma f_one_ok : fin f_one /\ R_of f_one = 1. Proof. split; [reflexivity | unfold f_one; vm_compute; lra]. Qed.
Lemma Rlt_bool_f_lt a b : fin a -> fin b -> f_lt a b = Rlt_bool (R_of a) (R_of b).
Proof.
  intros Fa Fb. unfold f_lt, Rlt_bool. rewrite (compare_fin a b Fa Fb). destruct (Rcompare (R_of a) (R_of b)); reflexivity.
Qed.

Theorem oct_to_unit_vector_ok ys zs : fin ys -> fin zs -> Rabs (R_of ys) <= 2 -> Rabs (R_of zs) <= 2 ->
  d_lt (d_of_f32 (ov_norm_squared ys zs)) d_1em6 = false /\
  let '(X, Y, Z) := oct_to_unit_vector ys zs in
  fin X /\ fin Y /\ fin Z /\
  (/ 256 <= Rabs (R_of X) \/ / 256 <= Rabs (R_of Y) \/ / 256 <= Rabs (R_of Z)).
Proof.
  intros Fy Fz By Bz.
  assert (Fm1 : generic_format radix2 fexp32 (-1)) by fmtc (-1)%Z 0%Z.
  assert (Fp1 : generic_format radix2 fexp32 1) by fmtc 1%Z 0%Z.
  assert (Fm3 : generic_format radix2 fexp32 (-3)) by fmtc (-3)%Z 0%Z.
  assert (Fm5 : generic_format radix2 fexp32 (-5)) by fmtc (-5)%Z 0%Z.
  assert (Fp5 : generic_format radix2 fexp32 5) by fmtc 5%Z 0%Z.
  assert (F0 : generic_format radix2 fexp32 0) by apply generic_format_0.
  assert (F9 : generic_format radix2 fexp32 9) by fmtc 9%Z 0%Z.
  assert (F25 : generic_format radix2 fexp32 25) by fmtc 25%Z 0%Z.
  assert (F34 : generic_format radix2 fexp32 34) by fmtc 34%Z 0%Z.
  assert (F59 : generic_format radix2 fexp32 59) by fmtc 59%Z 0%Z.
  assert (F16i : generic_format radix2 fexp32 (/ 16)) by fmtc 1%Z (-4)%Z.
  assert (F256i : generic_format radix2 fexp32 (/ 256)) by fmtc 1%Z (-8)%Z.
  assert (F8 : generic_format radix2 fexp32 8) by fmtc 8%Z 0%Z.
  assert (F8i : generic_format radix2 fexp32 (/ 8)) by fmtc 1%Z (-3)%Z.
  assert (F16 : generic_format radix2 fexp32 16) by fmtc 16%Z 0%Z.
  destruct f_one_ok as (F1 & R1). destruct f_zero_ok as (Fz0 & Rz0).
  destruct (f32_abs_ok ys Fy) as (Fa & Ra). destruct (f32_abs_ok zs Fz) as (Fb & Rb).
  assert (Pa := Rabs_pos (R_of ys)). assert (Pb := Rabs_pos (R_of zs)).
  (* x *)
  destruct (fsub_bd f_one (f32_abs ys) (-1) 1 F1 Fa Fm1 Fp1) as (Fx1 & Ex1 & Bx1); [rewrite R1, Ra; lra | lra | lra|].
  destruct (fsub_bd (fsub f_one (f32_abs ys)) (f32_abs zs) (-3) 1 Fx1 Fb Fm3 Fp1) as (Fx & Ex & Bx); [rewrite Rb; lra | lra | lra|].
  fold (ov_x ys zs) in Fx, Ex, Bx. rewrite Ex1, R1, Ra, Rb in Ex.
  (* x_offset *)
  destruct (f32_neg_ok (ov_x ys zs) Fx) as (Fnx & Rnx).
  assert (Hxo : fin (ov_xo ys zs) /\ R_of (ov_xo ys zs) = Rmax 0 (- R_of (ov_x ys zs))).
  { unfold ov_xo. rewrite (Rlt_bool_f_lt _ _ Fnx Fz0), Rnx, Rz0. unfold Rmax.
    destruct (Rlt_bool_spec (- R_of (ov_x ys zs)) 0) as [L|L]; destruct (Rle_dec 0 (- R_of (ov_x ys zs))) as [G|G]; split;
      try exact Fz0; try exact Fnx; try rewrite Rnx; try rewrite Rz0; lra. }
  destruct Hxo as (Fxo & Rxo).
  assert (Bxo : 0 <= R_of (ov_xo ys zs) <= 3).
  { rewrite Rxo. unfold Rmax. destruct (Rle_dec 0 (- R_of (ov_x ys zs))); lra. }
  destruct (f32_neg_ok (ov_xo ys zs) Fxo) as (Fnxo & Rnxo).
  assert (OFF : forall w, fin w -> fin (if f_lt w f_zero then ov_xo ys zs else f32_neg (ov_xo ys zs)) /\
            R_of (if f_lt w f_zero then ov_xo ys zs else f32_neg (ov_xo ys zs)) =
            (if Rlt_bool (R_of w) 0 then R_of (ov_xo ys zs) else - R_of (ov_xo ys zs))).
  { intros w Fw. rewrite (Rlt_bool_f_lt _ _ Fw Fz0), Rz0. destruct (Rlt_bool (R_of w) 0); split; first [assumption | reflexivity]. }
  destruct (OFF ys Fy) as (Foy & Roy). destruct (OFF zs Fz) as (Foz & Roz).
  assert (Boy : -3 <= R_of (if f_lt ys f_zero then ov_xo ys zs else f32_neg (ov_xo ys zs)) <= 3)
    by (rewrite Roy; destruct (Rlt_bool (R_of ys) 0); lra).
  assert (Boz : -3 <= R_of (if f_lt zs f_zero then ov_xo ys zs else f32_neg (ov_xo ys zs)) <= 3)
    by (rewrite Roz; destruct (Rlt_bool (R_of zs) 0); lra).
  apply Rabs_le_inv in By. apply Rabs_le_inv in Bz.
  destruct (fadd_bd ys _ (-5) 5 Fy Foy Fm5 Fp5) as (FY & EY & BY); [lra | lra | lra|]. fold (ov_y ys zs) in FY, EY, BY.
  destruct (fadd_bd zs _ (-5) 5 Fz Foz Fm5 Fp5) as (FZ & EZ & BZ); [lra | lra | lra|]. fold (ov_z ys zs) in FZ, EZ, BZ.
  rewrite Roy in EY. rewrite Roz in EZ.
  (* lower bound on one component *)
  pose proof (core_lower (R_of ys) (R_of zs) _ (R_of (ov_x ys zs)) (R_of (ov_xo ys zs)) (R_of (ov_y ys zs)) (R_of (ov_z ys zs))
                eq_refl Ex Rxo EY EZ) as LOW.
  set (x := ov_x ys zs) in *. set (y := ov_y ys zs) in *. set (z := ov_z ys zs) in *.
  (* squares *)
  assert (SQ : forall w lo, fin w -> -5 <= R_of w <= 5 -> 
            fin (fmul w w) /\ 0 <= R_of (fmul w w) <= 25 /\ (generic_format radix2 fexp32 (lo * lo) -> 0 <= lo -> lo <= Rabs (R_of w) -> lo * lo <= R_of (fmul w w))).
  { intros w lo Fw Bw. destruct (fmul_bd w w 0 25 Fw Fw F0 F25) as (Fm & Em & Bm); [nra | lra | lra|].
    split; [exact Fm|]. split; [exact Bm|]. intros Fl Hl Hw. rewrite Em. apply rnd_ge; [exact Fl|].
    rewrite <- (Rabs_mult (R_of w) (R_of w)) || idtac.
    assert (R_of w * R_of w = Rabs (R_of w) * Rabs (R_of w)) by (rewrite <- Rabs_mult; symmetry; apply Rabs_pos_eq; nra).
    rewrite H. nra. }
  assert (Bx5 : -5 <= R_of x <= 5) by lra.
  destruct (SQ x (/ 4) Fx Bx5) as (Fxx & Bxx & Lxx). destruct (SQ y (/ 16) FY BY) as (Fyy & Byy & Lyy). destruct (SQ z (/ 16) FZ BZ) as (Fzz & Bzz & Lzz).
  assert (Fq16 : generic_format radix2 fexp32 (/ 4 * / 4)) by fmtc 1%Z (-4)%Z.
  assert (Fq256 : generic_format radix2 fexp32 (/ 16 * / 16)) by fmtc 1%Z (-8)%Z.
  assert (F50 : generic_format radix2 fexp32 50) by fmtc 50%Z 0%Z.
  assert (F75 : generic_format radix2 fexp32 75) by fmtc 75%Z 0%Z.
  destruct (fadd_bd (fmul x x) (fmul y y) 0 50 Fxx Fyy F0 F50) as (Fs1 & Es1 & Bs1); [lra | lra | lra|].
  destruct (fadd_bd (fadd (fmul x x) (fmul y y)) (fmul z z) 0 75 Fs1 Fzz F0 F75) as (Fns & Ens & Bns); [lra | lra | lra|].
  set (ns := fadd (fadd (fmul x x) (fmul y y)) (fmul z z)) in *.
  assert (Lns : / 256 <= R_of ns).
  { rewrite Ens. apply rnd_ge; [exact F256i|].
    assert (S1 : forall lo, generic_format radix2 fexp32 lo -> lo <= R_of (fmul x x) + R_of (fmul y y) -> lo <= R_of (fadd (fmul x x) (fmul y y))).
    { intros lo Fl H. rewrite Es1. apply rnd_ge; assumption. }
    destruct LOW as [L | [L | L]].
    - pose proof (Lxx Fq16 ltac:(lra) L). pose proof (S1 (/ 4 * / 4) Fq16 ltac:(lra)). lra.
    - pose proof (Lyy Fq256 ltac:(lra) L). pose proof (S1 (/ 16 * / 16) Fq256 ltac:(lra)). lra.
    - pose proof (Lzz Fq256 ltac:(lra) L). lra. }
  (* the branch *)
  assert (BR : d_lt (d_of_f32 ns) d_1em6 = false).
  { destruct (d_of_f32_ok ns Fns) as (Fd & Rd). rewrite (d_lt_spec (d_of_f32 ns) d_1em6 Fd (eq_refl true)), Rd. apply Rlt_bool_false.
    fold T1em6. destruct T1em6_bounds as (_ & TU). eapply Rle_trans; [exact TU|]. change (bpow radix2 (-19)) with (/ 524288). lra. }
  split; [exact BR|]. rewrite oct_to_unit_vector_unfold. change (ov_norm_squared ys zs) with ns. rewrite BR. cbv zeta.
  change (ov_x ys zs) with x; change (ov_y ys zs) with y; change (ov_z ys zs) with z.
  (* sqrt and reciprocal *)
  destruct (f32_sqrt_ok ns Fns ltac:(lra)) as (Fsq & Esq).
  assert (Bsq : / 16 <= R_of (f32_sqrt ns) <= 16).
  { rewrite Esq. split; [apply rnd_ge | apply rnd_ub]; try assumption.
    - replace (/ 16) with (sqrt (/ 16 * / 16)) by (apply sqrt_square; lra). apply sqrt_le_1_alt. lra.
    - replace 16 with (sqrt (16 * 16)) by (apply sqrt_square; lra). apply sqrt_le_1_alt. lra. }
  destruct (fdiv_ok f_one (f32_sqrt ns) F1) as (Fd & Ed).
  { lra. }
  { rewrite R1. unfold Rdiv. rewrite Rmult_1_l. apply le256_BIG. rewrite Rabs_pos_eq by (apply Rlt_le, Rinv_0_lt_compat; lra).
    apply Rle_trans with (/ / 16); [apply Rinv_le_contravar; lra | rewrite Rinv_inv; lra]. }
  rewrite R1 in Ed. unfold Rdiv in Ed. rewrite Rmult_1_l in Ed.
  assert (Bd : / 16 <= R_of (fdiv f_one (f32_sqrt ns)) <= 16).
  { rewrite Ed. split; [apply rnd_ge | apply rnd_ub]; try assumption.
    - apply Rinv_le_contravar; lra.
    - rewrite <- (Rinv_inv 16). apply Rinv_le_contravar; lra. }
  set (d := fdiv f_one (f32_sqrt ns)) in *.
  assert (OUT : forall w lo, fin w -> -5 <= R_of w <= 5 -> fin (fmul w d) /\
            (generic_format radix2 fexp32 (lo * / 16) -> 0 <= lo -> lo <= Rabs (R_of w) -> lo * / 16 <= Rabs (R_of (fmul w d)))).
  { intros w lo Fw Bw. destruct (fmul_ok w d Fw Fd) as (Fm & Em).
    { apply le256_BIG. rewrite Rabs_mult. rewrite (Rabs_pos_eq (R_of d)) by lra.
      assert (Rabs (R_of w) <= 5) by (apply Rabs_le; lra). pose proof (Rabs_pos (R_of w)). nra. }
    split; [exact Fm|]. intros Fl Hl Hw. rewrite Em. apply rnd_abs_ge; [exact Fl|].
    rewrite Rabs_mult, (Rabs_pos_eq (R_of d)) by lra. nra. }
  destruct (OUT x (/ 4) Fx Bx5) as (FX & LX). destruct (OUT y (/ 16) FY BY) as (FYY & LY). destruct (OUT z (/ 16) FZ BZ) as (FZZ & LZ).
  split; [exact FX|]. split; [exact FYY|]. split; [exact FZZ|].
  assert (Fo64 : generic_format radix2 fexp32 (/ 4 * / 16)) by fmtc 1%Z (-6)%Z.
  assert (Fo256 : generic_format radix2 fexp32 (/ 16 * / 16)) by fmtc 1%Z (-8)%Z.
  destruct LOW as [L | [L | L]].
  - left. pose proof (LX Fo64 ltac:(lra) L). lra.
  - right; left. pose proof (LY Fo256 ltac:(lra) L). lra.
  - right; right. pose proof (LZ Fo256 ltac:(lra) L). lra.
Qed.

(** in_s * dequantization_scale_ - 1.f for a coordinate of the square *)
Definition oct_scaled (b : obox) (s : Z) : f32 := fsub (fmul (f32_of_Z s) (dequant_scale b)) f_one.

Lemma oct_scaled_ok c s : (1 <= c <= cmax)%Z -> (0 <= s <= 2 * c)%Z ->
  fin (oct_scaled (obox_of_center c) s) /\ Rabs (R_of (oct_scaled (obox_of_center c) s)) <= 2.
Proof.
  intros Hc Hs. rewrite cmax_val in Hc. unfold oct_scaled, dequant_scale. cbn [ob_maxv obox_of_center].
  assert (F2 : generic_format radix2 fexp32 2) by fmtc 2%Z 0%Z.
  assert (F0 : generic_format radix2 fexp32 0) by apply generic_format_0.
  assert (F3 : generic_format radix2 fexp32 3) by fmtc 3%Z 0%Z.
  assert (Fm1 : generic_format radix2 fexp32 (-1)) by fmtc (-1)%Z 0%Z.
  assert (FP : generic_format radix2 fexp32 1073741824) by fmtc 1%Z 30%Z.
  assert (BB : 1073741824 <= BIG) by (unfold BIG; change 1073741824 with (bpow radix2 30); apply bpow_le; lia).
  assert (Hm : 2 <= IZR (2 * c) <= 1073741824) by (split; apply IZR_le; lia).
  destruct (f32_of_Z_ok (2 * c)) as (FF & RF); [rewrite Rabs_pos_eq by lra; lra|].
  assert (BF : 2 <= R_of (f32_of_Z (2 * c)) <= 1073741824) by (rewrite RF; split; [apply rnd_ge | apply rnd_ub]; try assumption; lra).
  set (F := f32_of_Z (2 * c)) in *.
  assert (Ft : fin f_two) by reflexivity. assert (Rt : R_of f_two = 2) by (unfold f_two; vm_compute; lra).
  assert (Q0 : 0 < 2 / R_of F <= 1).
  { split; [apply Rdiv_lt_0_compat; lra|]. apply Rmult_le_reg_r with (R_of F); [lra|]. unfold Rdiv. rewrite Rmult_assoc, Rinv_l by lra. lra. }
  destruct (fdiv_ok f_two F Ft) as (Fsc & Rsc); [lra | rewrite Rt, Rabs_pos_eq by lra; unfold BIG; pose proof (bpow_ge_0 radix2 100) as P; change (bpow radix2 100) with 1267650600228229401496703205376 in *; lra|].
  rewrite Rt in Rsc.
  assert (NR : bpow radix2 (-126) <= Rabs (2 / R_of F)).
  { rewrite Rabs_pos_eq by lra. apply Rle_trans with (bpow radix2 (-29)); [apply bpow_le; lia|].
    change (bpow radix2 (-29)) with (/ 536870912). unfold Rdiv.
    apply Rmult_le_reg_r with (R_of F); [lra|]. rewrite Rmult_assoc, Rinv_l by lra. lra. }
  destruct (rnd_rel _ NR) as (e & He & Ee). unfold u32r in He. apply Rabs_le_inv in He.
  assert (Hs' : 0 <= IZR s <= IZR (2 * c)) by (split; apply IZR_le; lia).
  destruct (f32_of_Z_ok s) as (Fs & Rs); [rewrite Rabs_pos_eq by lra; lra|].
  assert (Bs : 0 <= R_of (f32_of_Z s) <= R_of F).
  { rewrite Rs, RF. split; [apply rnd_ge; [exact F0 | lra] | apply rnd_le; lra]. }
  set (sc := fdiv f_two F) in *.
  assert (Bsc : 0 <= R_of sc) by (rewrite Rsc; apply rnd_ge; [exact F0 | lra]).
  destruct (fmul_bd (f32_of_Z s) sc 0 3 Fs Fsc F0 F3) as (Fp & _ & Bp); [|lra|lra|].
  { split; [apply Rmult_le_pos; lra|]. rewrite Rsc, Ee.
    apply Rle_trans with (R_of F * (2 / R_of F * (1 + e))); [apply Rmult_le_compat_r; [apply Rmult_le_pos; lra | lra]|].
    replace (R_of F * (2 / R_of F * (1 + e))) with (2 * (1 + e)) by (field; lra). lra. }
  destruct f_one_ok as (F1 & R1).
  destruct (fsub_bd (fmul (f32_of_Z s) sc) f_one (-1) 2 Fp F1 Fm1 F2) as (Fy & _ & By); [rewrite R1; lra | lra | lra|].
  split; [exact Fy|]. apply Rabs_le. lra.
Qed.

(** unit_vector_finite_nonzero: every q in 2..30, every (s,t) of the square *)
Theorem unit_vector_finite_nonzero q b s t : set_quantization_bits q = Some b ->
  in_square (ob_center b) (s, t) ->
  d_lt (d_of_f32 (ov_norm_squared (oct_scaled b s) (oct_scaled b t))) d_1em6 = false /\
  let '(X, Y, Z) := quantized_oct_to_unit_vector b s t in
  fin X /\ fin Y /\ fin Z /\ (/ 256 <= Rabs (R_of X) \/ / 256 <= Rabs (R_of Y) \/ / 256 <= Rabs (R_of Z)).
Proof.
  intros Hb (Hs & Ht). cbn [fst snd] in Hs, Ht. destruct (set_qb_inv q b Hb) as (Hq & Eb & Hc). subst b.
  cbn [ob_center obox_of_center] in Hs, Ht. set (c := (2 ^ (q - 1) - 1)%Z) in *.
  destruct (oct_scaled_ok c s Hc Hs) as (Fy & By). destruct (oct_scaled_ok c t Hc Ht) as (Fz & Bz).
  exact (oct_to_unit_vector_ok _ _ Fy Fz By Bz).
Qed.

(** * What is proved of the property as a whole: encoder total + canonical + in the square, decoder
    result finite and not the zero vector (length and angle clauses missing). *)
Theorem normals_partial q b v : set_quantization_bits q = Some b -> fin3 v ->
  exists p X Y Z,
    float_vector_to_oct b v = Ok p /\ canonical (ob_center b) p /\
    requant_normal q v = Ok (X, Y, Z) /\ (X, Y, Z) = quantized_oct_to_unit_vector b (fst p) (snd p) /\
    fin X /\ fin Y /\ fin Z /\
    (/ 256 <= Rabs (R_of X) \/ / 256 <= Rabs (R_of Y) \/ / 256 <= Rabs (R_of Z)).
Proof.
  intros Hb Fv. destruct (encoder_total q b v Hb Fv) as (p & Ep & Cp).
  assert (Sq : in_square (ob_center b) (fst p, snd p)) by (destruct p; exact (proj1 Cp)).
  pose proof (unit_vector_finite_nonzero q b (fst p) (snd p) Hb Sq) as (_ & U).
  destruct (quantized_oct_to_unit_vector b (fst p) (snd p)) as [[X Y] Z] eqn:E.
  exists p, X, Y, Z. split; [exact Ep|]. split; [exact Cp|].
  split; [unfold requant_normal; rewrite Hb, Ep; cbn [rbind]; rewrite E; reflexivity|].
  split; [symmetry; exact E | exact U].
Qed.

(** The angle clause is false as literally stated for finite, non-zero, NORMAL-range input whose
    L1 norm does not exceed 1e-6: (0, 1e-7f, 0) at q = 3 decodes to exactly (1, 0, 0), orthogonal to
    the input (angle pi/2 > 3*(2/6) + 2e-6). *)
Theorem tiny_input_refuted :
  exists v : vec3, fin3 v /\ (let '(v0, v1, v2) := v in R_of v0 = 0 /\ bpow radix2 (-126) <= R_of v1 /\ R_of v2 = 0) /\
    match requant_normal 3 v with Ok d => obs_vec3 d | _ => nil end = [1065353216; 0; 0]%Z.   (* bit patterns of (1.0f, +0, +0) *)
Proof.
  exists (vec3_of_bits 0 869711765 0). split; [repeat split|]. split.
  - split; [reflexivity|]. split; [|reflexivity].
    change (bpow radix2 (-126)) with (/ 85070591730234615865843651857942052864). vm_compute. lra.
  - vm_compute. reflexivity.
Qed.
