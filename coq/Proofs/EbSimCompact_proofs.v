(** The vertex COMPACTION of the Edgebreaker connectivity decoder (the loop `for (invalid_vert : invalid_vertices)` after
    the start-face phase, remove_invalid_vertices = true), forward form for the round trip:

      [vcit_norej]    one VertexCornersIterator walk over src_vert does not reject when SwingLeft keeps the vertex label
                      (the clause f_lab of the decoder's fan invariant): the corners it visits are pairwise different, so
                      each still carries src_vert when it is reached;
      [compact_full]  the compaction ACCEPTS, keeps Opposite and the face count, and renames the vertices injectively on the
                      created corners:  c2v s' x = c2v s' y  <->  c2v s x = c2v s y.

    [Proofs/Edgebreaker_compact_proofs.v] has the conditional statements (what holds IF the compaction returns); here the
    premise f_lab makes it total.  Used by [EbSimLoop_proofs.dec_roundtrip_rm]: [eb_iso] is up to a bijection of the
    vertices, so the compaction only composes a bijection. *)
From Coq Require Import ZArith List Bool Lia ZifyBool.
From Draco Require Import Model.Edgebreaker Proofs.Edgebreaker_proofs Proofs.Edgebreaker_fan_proofs Proofs.Edgebreaker_oob_proofs
  Proofs.Edgebreaker_compact_proofs.
Import ListNotations.
Local Open Scope Z_scope.

Section NoReject.
Variables NC maxv : Z.

Definition LABZ (f : Z) (s : st) : Prop := forall c, 0 <= c < 3 * f -> slf s c <> -1 -> c2v s (slf s c) = c2v s c.

Lemma lab_iter : forall s f, W NC maxv f s -> LABZ f s -> forall (j : nat) c, 0 <= c < 3 * f -> Nat.iter j (slf s) c <> -1 ->
  c2v s (Nat.iter j (slf s) c) = c2v s c.
Proof.
  intros s f HW HL. induction j as [|j IH]; intros c Hc N; [reflexivity|].
  rewrite iter_S in *. assert (N0 : Nat.iter j (slf s) c <> -1) by (intro Z; rewrite Z in N; cbn in N; congruence).
  rewrite (HL _ (iter_created NC maxv s f HW j c Hc N0) N). apply IH; assumption.
Qed.

Lemma lab_iter_r : forall s f, W NC maxv f s -> LABZ f s -> forall (j : nat) c, 0 <= c < 3 * f -> Nat.iter j (srf s) c <> -1 ->
  c2v s (Nat.iter j (srf s) c) = c2v s c.
Proof.
  intros s f HW HL. induction j as [|j IH]; intros c Hc N; [reflexivity|].
  rewrite iter_S in *. assert (N0 : Nat.iter j (srf s) c <> -1) by (intro Z; rewrite Z in N; cbn in N; congruence).
  pose proof (iter_created_r NC maxv s f HW j c Hc N0) as R0. set (y := Nat.iter j (srf s) c) in *.
  pose proof (slf_srf NC maxv s f y HW R0 N) as Sl.
  destruct (srf_created NC maxv s f y HW R0) as [D|D]; [congruence|].
  assert (Nl : slf s (srf s y) <> -1) by (rewrite Sl; lia).
  pose proof (HL _ D Nl) as E. rewrite Sl in E. rewrite <- E. apply IH; assumption.
Qed.

Lemma vcit_R_norej : forall fuel s f x start src iv, W NC maxv f s -> (x = -1 \/ 0 <= x < 3 * f) -> 0 <= iv < nv s -> iv <> src ->
  (x <> -1 -> exists m : nat, Nat.iter m (slf s) x = -1) ->
  (forall j : nat, Nat.iter j (srf s) x <> -1 -> c2v s (Nat.iter j (srf s) x) = src) ->
  vcit_loop NC fuel s x start false src iv <> Reject.
Proof.
  induction fuel as [|fuel IH]; intros s f x start src iv HW Hx Hiv Hne Hd Hl; cbn [vcit_loop]; [discriminate|].
  destruct (x =? -1) eqn:E; [discriminate|].
  destruct Hx as [?|Hx]; [lia|].
  pose proof (w_nf _ _ _ _ HW) as Hnf.
  unfold vertex. rewrite E. assert (in_rng x NC = true) as R by (apply in_rng_true; lia). rewrite R. cbn [bind].
  assert (L0 : c2v s x = src) by (apply (Hl O); cbn; lia).
  rewrite L0, Z.eqb_refl. cbn [negb].
  unfold map_cv. rewrite R. cbn [bind].
  pose proof (W_map_cv NC maxv f s x iv HW Hiv) as HW1. set (s1 := with_c2v s (upd (c2v s) x iv)) in *.
  destruct (swing_right_created NC maxv _ f x HW1 Hx) as (Q & Rg). rewrite Q. cbn [bind].
  change (srf s1 x) with (srf s x) in *.
  destruct (Hd ltac:(lia)) as (m & Hm).
  apply IH with (f := f); try assumption.
  - intros N. exists (S m). rewrite iter_succ_r. change (slf s1) with (slf s). rewrite (slf_srf NC maxv s f x HW Hx N). exact Hm.
  - intros j Nj. change (srf s1) with (srf s) in *. rewrite <- iter_succ_r in *.
    unfold s1. sproj. rewrite upd_other.
    + apply Hl. exact Nj.
    + intro Eq.
      pose proof (inv_path_r NC maxv s f HW (S j) x _ Hx eq_refl Nj) as Per. rewrite Eq in Per.
      apply (periodic_alive (slf s) (S j) x (slf_m1 s) ltac:(lia) Per ltac:(lia) m). exact Hm.
Qed.

Lemma vcit_L_norej : forall fuel s f start src iv (n : nat), W NC maxv f s -> 0 <= start < 3 * f -> 0 <= iv < nv s -> iv <> src ->
  (forall i : nat, (i <= n)%nat -> Nat.iter i (slf s) start <> -1) ->
  (forall t : nat, (1 <= t <= n)%nat -> Nat.iter t (slf s) start <> start) ->
  (forall j : nat, (n <= j)%nat -> (forall i : nat, (i <= j)%nat -> Nat.iter i (slf s) start <> -1) ->
      (forall t : nat, (1 <= t <= j)%nat -> Nat.iter t (slf s) start <> start) -> c2v s (Nat.iter j (slf s) start) = src) ->
  ((exists m : nat, Nat.iter (S m) (slf s) start = -1) ->
      forall j : nat, Nat.iter (S j) (srf s) start <> -1 -> c2v s (Nat.iter (S j) (srf s) start) = src) ->
  vcit_loop NC fuel s (Nat.iter n (slf s) start) start true src iv <> Reject.
Proof.
  induction fuel as [|fuel IH]; intros s f start src iv n HW Hs Hiv Hne Al Ns LabL LabR; cbn [vcit_loop]; [discriminate|].
  set (x := Nat.iter n (slf s) start).
  assert (Nx : x <> -1) by (apply Al; lia).
  destruct (x =? -1) eqn:E; [lia|].
  assert (Hx : 0 <= x < 3 * f) by (apply (iter_created NC maxv s f HW); [exact Hs|exact Nx]).
  pose proof (w_nf _ _ _ _ HW) as Hnf.
  unfold vertex. rewrite E. assert (in_rng x NC = true) as R by (apply in_rng_true; lia). rewrite R. cbn [bind].
  assert (L0 : c2v s x = src) by (apply LabL; [lia|exact Al|exact Ns]).
  rewrite L0, Z.eqb_refl. cbn [negb].
  unfold map_cv. rewrite R. cbn [bind].
  pose proof (W_map_cv NC maxv f s x iv HW Hiv) as HW1. set (s1 := with_c2v s (upd (c2v s) x iv)) in *.
  assert (Hiv1 : 0 <= iv < nv s1) by (unfold s1; sproj; exact Hiv).
  destruct (swing_left_created NC maxv _ f x HW1 Hx) as (Q & _). rewrite Q. cbn [bind].
  change (slf s1 x) with (Nat.iter (S n) (slf s) start).
  (* no corner of the right traversal is [x] once the left one has died *)
  assert (DR : forall m j : nat, Nat.iter (S m) (slf s) start = -1 -> Nat.iter (S j) (srf s) start <> -1 ->
                 Nat.iter (S j) (srf s) start <> x).
  { intros m j Hm Nj Eq.
    pose proof (inv_path_r NC maxv s f HW (S j) start _ Hs eq_refl Nj) as Per. rewrite Eq in Per. unfold x in Per.
    rewrite <- iter_add in Per.
    apply (periodic_alive (slf s) (S j + n) start (slf_m1 s) ltac:(lia) Per ltac:(lia) (S m)). exact Hm. }
  destruct (Nat.iter (S n) (slf s) start =? -1) eqn:E1.
  - destruct (swing_right_created NC maxv _ f start HW1 Hs) as (Q2 & Rg2). rewrite Q2. cbn [bind].
    change (srf s1 start) with (srf s start) in *.
    apply vcit_R_norej with (f := f); try assumption.
    + intros N. exists (S (S n)). rewrite iter_succ_r. change (slf s1) with (slf s).
      rewrite (slf_srf NC maxv s f start HW Hs N). lia.
    + intros j Nj. change (srf s1) with (srf s) in *. rewrite <- iter_succ_r in *.
      unfold s1. sproj. rewrite upd_other.
      * apply LabR; [exists n; lia|exact Nj].
      * apply (DR n j); [lia|exact Nj].
  - destruct (Nat.iter (S n) (slf s) start =? start) eqn:E2.
    + destruct fuel; cbn [vcit_loop]; discriminate.
    + change (Nat.iter (S n) (slf s) start) with (Nat.iter (S n) (slf s1) start).
      apply IH with (f := f); try assumption.
      * intros i Hi. change (slf s1) with (slf s). destruct (Nat.eq_dec i (S n)) as [->|Ne]; [lia|apply Al; lia].
      * intros t Ht. change (slf s1) with (slf s). destruct (Nat.eq_dec t (S n)) as [->|Ne]; [lia|apply Ns; lia].
      * intros j Hj Alj Nsj. change (slf s1) with (slf s) in *. unfold s1. sproj. rewrite upd_other.
        { apply LabL; [lia|exact Alj|exact Nsj]. }
        { intro Eq. unfold x in Eq.
          assert (E3 : Nat.iter n (slf s) (Nat.iter (j - n) (slf s) start) = Nat.iter n (slf s) start).
          { rewrite <- iter_add. replace (n + (j - n))%nat with j by lia. exact Eq. }
          apply (iter_inj NC maxv s f HW) in E3;
            [|apply (iter_created NC maxv s f HW); [exact Hs|apply Alj; lia]|exact Hs|rewrite E3; apply Al; lia].
          apply (Nsj (j - n)%nat); [lia|exact E3]. }
      * intros (m & Hm) j Nj. change (slf s1) with (slf s) in *. change (srf s1) with (srf s) in *.
        unfold s1. sproj. rewrite upd_other.
        { apply LabR; [exists m; exact Hm|exact Nj]. }
        { apply (DR m j); assumption. }
Qed.

Lemma vcit_norej : forall s f src iv, W NC maxv f s -> LABZ f s -> 0 <= src < nv s -> vc s src <> -1 -> c2v s (vc s src) = src ->
  0 <= iv < nv s -> iv <> src ->
  vcit_loop NC (vcit_fuel NC) s (vc s src) (vc s src) true src iv <> Reject.
Proof.
  intros s f src iv HW HL Hsrc Nl Ev Hiv Hne.
  assert (Hl : 0 <= vc s src < 3 * f) by (destruct (w_lr _ _ _ _ HW _ Hsrc) as [Q|Q]; [congruence|exact Q]).
  set (l := vc s src) in *.
  change l with (Nat.iter 0 (slf s) l) at 1. apply vcit_L_norej with (f := f); try assumption.
  - intros i Hi. assert (i = O) by lia. subst i. cbn. lia.
  - intros t Ht. lia.
  - intros j _ Alj _. rewrite (lab_iter s f HW HL j l Hl); [exact Ev|apply Alj; lia].
  - intros _ j Nj. rewrite (lab_iter_r s f HW HL (S j) l Hl Nj). exact Ev.
Qed.
End NoReject.

Section CompactFull.
Variables NC maxv : Z.

Lemma compact_full : forall ivs k s f, W NC maxv f s -> FJ f s -> LABZ f s ->
  (forall c, 0 <= c < 3 * f -> 0 <= c2v s c < Z.of_nat k) ->
  Forall (fun v => 0 <= v < nv s /\ vc s v = -1) ivs -> NoDup ivs -> Z.of_nat k <= nv s -> (ivs = [] \/ 0 < f) ->
  exists k' s', compact NC maxv ivs k s = Ok (k', s') /\ copp s' = copp s /\ nfaces s' = nfaces s /\
    forall x y, 0 <= x < 3 * f -> 0 <= y < 3 * f -> (c2v s' x = c2v s' y <-> c2v s x = c2v s y).
Proof.
  induction ivs as [|iv r IH]; intros k s f HW HJ HLb HL Hiv ND Hk Hf; cbn [compact].
  { exists k, s. split; [reflexivity|]. split; [reflexivity|]. split; [reflexivity|]. intros; tauto. }
  destruct Hf as [?|Hf]; [discriminate|].
  pose proof (w_nv _ _ _ _ HW) as Hnv. pose proof (w_nf _ _ _ _ HW) as Hnf.
  assert (Hw : exists v, 0 <= v < Z.of_nat k /\ vc s v <> -1).
  { exists (c2v s 0). split; [apply HL; lia|apply (j_reach _ _ HJ 0); lia]. }
  destruct (find_src_spec k s Hk Hw) as (k1 & A & B & C & D). rewrite A. cbn [bind].
  inversion Hiv as [|x0 y0 (Hivr & Hivi) Hr]; subst x0 y0. inversion ND as [|x0 y0 Nin ND']; subst x0 y0.
  set (src := Z.of_nat k1 - 1) in *.
  assert (Hsrc : 0 <= src < nv s) by (unfold src; lia).
  assert (HL1 : forall c, 0 <= c < 3 * f -> 0 <= c2v s c < Z.of_nat k1).
  { intros c Hc. pose proof (HL c Hc). destruct (j_reach _ _ HJ c Hc) as (N & _).
    destruct (Z_lt_dec (c2v s c) (Z.of_nat k1)); [lia|]. exfalso. apply N. apply D. lia. }
  destruct (src <? iv) eqn:E.
  { apply (IH k1 s f HW HJ HLb HL1 Hr ND' ltac:(lia) (or_intror Hf)). }
  assert (Hne : iv <> src) by congruence. assert (Hlt : iv < src) by lia.
  assert (Hl : 0 <= vc s src < 3 * f) by (destruct (w_lr _ _ _ _ HW _ Hsrc) as [X|X]; [congruence|exact X]).
  assert (in_rng src (nv s) = true) as R by (apply in_rng_true; lia).
  assert (Elmc : lmc s src = Ok (vc s src)) by (unfold lmc; rewrite R; reflexivity). rewrite Elmc. cbn [bind].
  pose proof (vcit_nofuel NC maxv s f (vc s src) src iv HW Hl Hivr) as NF.
  pose proof (vcit_norej NC maxv s f src iv HW HLb Hsrc C (j_vc _ _ HJ src Hsrc C) Hivr Hne) as NR.
  destruct (vcit_loop_ok NC maxv (vcit_fuel NC) s (vc s src) (vc s src) true src iv f HW (or_intror Hl) Hl Hivr) as (V1 & V2).
  match goal with |- context[vcit_loop ?p1 ?p2 ?p3 ?p4 ?p5 ?p6 ?p7 ?p8] => remember (vcit_loop p1 p2 p3 p4 p5 p6 p7 p8) as rv eqn:EV end.
  symmetry in EV. destruct rv as [a| | |]; cbn [bind];
    [|exfalso; apply NR; reflexivity|exfalso; apply V1; reflexivity|exfalso; apply NF; reflexivity].
  destruct (V2 a eq_refl) as (HWa & SBa). unfold same_but_c2v in SBa. destruct SBa as (S1 & S2 & S3 & S4 & _ & _ & _ & _ & S9 & _).
  destruct (vcit_mono NC _ _ _ _ _ _ _ _ Hne EV) as (Mono & _).
  pose proof (vcit_covers NC maxv s f src iv a HW HJ Hsrc C Hivr Hne EV) as Cov.
  assert (Lab : forall c, 0 <= c < 3 * f -> c2v a c = if c2v s c =? src then iv else c2v s c).
  { intros c Hc. destruct (c2v s c =? src) eqn:X; [apply Cov; [exact Hc|lia]|].
    destruct (Mono c) as [M|(M & _)]; [exact M|lia]. }
  unfold lmc. rewrite S3, R. cbn [bind].
  unfold set_lmc. destruct (iv =? -1) eqn:E1; [lia|]. rewrite S3.
  assert (in_rng iv (nv s) = true) as R2 by (apply in_rng_true; lia). rewrite R2. cbn [bind].
  unfold make_isolated. sproj. rewrite S3, R. cbn [bind].
  unfold get_hole, set_hole. sproj.
  assert (in_rng src maxv = true) as R3 by (apply in_rng_true; lia). assert (in_rng iv maxv = true) as R4 by (apply in_rng_true; lia).
  rewrite R3. cbn [bind]. sproj. rewrite R4. cbn [bind]. sproj.
  match goal with |- exists k' s', compact _ _ _ _ ?t5 = _ /\ _ => set (s5 := t5) end.
  assert (E5c : c2v s5 = c2v a) by reflexivity. assert (E5o : copp s5 = copp s) by (unfold s5; sproj; exact S1).
  assert (E5v : vc s5 = upd (upd (vc s) iv (vc s src)) src (-1)) by (unfold s5; sproj; rewrite S2; reflexivity).
  assert (E5n : nv s5 = nv s) by (unfold s5; sproj; exact S3).
  assert (E5f : nfaces s5 = nfaces s) by (unfold s5; sproj; exact S9).
  assert (NoIv : forall c, 0 <= c < 3 * f -> c2v s c <> iv).
  { intros c Hc X. destruct (j_reach _ _ HJ c Hc) as (N & _). rewrite X in N. congruence. }
  assert (EQ5 : forall x y, 0 <= x < 3 * f -> 0 <= y < 3 * f -> (c2v s5 x = c2v s5 y <-> c2v s x = c2v s y)).
  { intros x y Hx Hy. rewrite E5c, (Lab x Hx), (Lab y Hy). pose proof (NoIv x Hx). pose proof (NoIv y Hy).
    destruct (c2v s x =? src) eqn:X1; destruct (c2v s y =? src) eqn:X2; split; intros; lia. }
  destruct (IH (Nat.pred k1) s5 f) as (k' & s' & I1 & I2 & I3 & I4).
  - destruct HWa. constructor; unfold s5; sproj; try assumption.
    apply LR_upd; [|left; reflexivity]. apply LR_upd; [assumption|right; rewrite S2; exact Hl].
  - constructor.
    + intros c Hc. rewrite E5c, E5v, (Lab c Hc). destruct (j_reach _ _ HJ c Hc) as (N & Rc).
      destruct (c2v s c =? src) eqn:X.
      * rewrite upd_other by lia. rewrite upd_same. split; [lia|]. apply (reach_same s s5 E5o).
        replace (c2v s c) with src in Rc by lia. exact Rc.
      * rewrite !upd_other; [|pose proof (NoIv c Hc); lia|lia]. split; [exact N|apply (reach_same s s5 E5o); exact Rc].
    + intros v Hv N. rewrite E5n in Hv. rewrite E5c, E5v in *. unfold upd in *.
      destruct (v =? src) eqn:X1; [congruence|]. destruct (v =? iv) eqn:X2.
      * rewrite (Lab _ Hl). rewrite (j_vc _ _ HJ src Hsrc C). rewrite Z.eqb_refl. lia.
      * destruct (w_lr _ _ _ _ HW v Hv) as [Z|Z]; [congruence|]. rewrite (Lab _ Z). rewrite (j_vc _ _ HJ v Hv N).
        rewrite X1. reflexivity.
  - (* SwingLeft keeps the vertex label in the renamed table *)
    intros c Hc Nc. assert (Esl : slf s5 c = slf s c) by (unfold slf, oppf; rewrite E5o; reflexivity). rewrite Esl in *.
    destruct (slf_created NC maxv s f c HW Hc) as [Z|Z]; [congruence|].
    apply (EQ5 _ _ Z Hc). apply HLb; assumption.
  - intros c Hc. rewrite E5c, (Lab c Hc). pose proof (HL1 c Hc). destruct (c2v s c =? src) eqn:X; unfold src in *; lia.
  - rewrite E5n, E5v. rewrite Forall_forall in *. intros v Hv. destruct (Hr v Hv) as (P1 & P2). split; [exact P1|].
    unfold upd. destruct (v =? src); [reflexivity|]. destruct (v =? iv) eqn:X; [exfalso; apply Nin; replace iv with v by lia; exact Hv|exact P2].
  - exact ND'.
  - rewrite E5n. lia.
  - right. exact Hf.
  - exists k', s'. split; [exact I1|]. split; [congruence|]. split; [congruence|].
    intros x y Hx Hy. rewrite (I4 x y Hx Hy). apply EQ5; assumption.
Qed.
End CompactFull.
