From Coq Require Import ZifyBool.
From Draco Require Import Base.Codec Base.Bits Model.Varint Model.BitBuffer Proofs.Varint_proofs.
Local Open Scope Z_scope.

Lemma le_val_app a b : le_val (a ++ b) = le_val a + 256 ^ Z.of_nat (length a) * le_val b.
Proof.
  induction a as [|x a IH]; cbn [app le_val length].
  - change (256 ^ Z.of_nat 0) with 1. lia.
  - rewrite IH, Nat2Z.inj_succ, Z.pow_succ_r by lia. lia.
Qed.

Lemma enc_le_length n v : length (enc_le n v) = n.
Proof. revert v; induction n as [|n IH]; intros v; cbn [enc_le length]; [reflexivity|]. rewrite IH. reflexivity. Qed.

Lemma le_val_enc_le n v : 0 <= v < 256 ^ Z.of_nat n -> le_val (enc_le n v) = v.
Proof.
  revert v; induction n as [|n IH]; intros v Hv; cbn [enc_le le_val].
  - change (256 ^ Z.of_nat 0) with 1 in Hv. lia.
  - rewrite Nat2Z.inj_succ, Z.pow_succ_r in Hv by lia.
    rewrite IH.
    + pose proof (Z.div_mod v 256). lia.
    + split; [apply Z.div_pos; lia|]. apply Z.div_lt_upper_bound; lia.
Qed.

Definition be_wf (s : bitenc) : Prop := 0 <= be_n s /\ 0 <= be_acc s < 2 ^ be_n s.

Lemma put_bits_wf s n v : be_wf s -> 0 <= n -> be_wf (put_bits s (n, v)).
Proof.
  intros [Hn Ha] Hn0. unfold be_wf, put_bits; cbn [be_acc be_n].
  split; [lia|].
  pose proof (Z.mod_pos_bound v (2 ^ n) ltac:(apply Z.pow_pos_nonneg; lia)) as Hm.
  rewrite Z.pow_add_r by lia.
  assert (0 < 2 ^ be_n s) by (apply Z.pow_pos_nonneg; lia).
  nia.
Qed.

(** Later writes never change the bits already written. *)
Lemma fold_put_prefix ps : forall s, be_wf s -> Forall (fun nv => 0 <= fst nv) ps ->
  be_wf (fold_left put_bits ps s) /\ be_n s <= be_n (fold_left put_bits ps s) /\
  be_acc (fold_left put_bits ps s) mod 2 ^ be_n s = be_acc s.
Proof.
  induction ps as [|[n v] ps IH]; intros s Hs Hf; cbn [fold_left].
  - split; [exact Hs|]. split; [lia|]. apply Z.mod_small. apply Hs.
  - inversion Hf as [|? ? Hn Hf']; subst. cbn [fst] in Hn.
    pose proof (put_bits_wf s n v Hs Hn) as Hs'.
    destruct (IH _ Hs' Hf') as (Hwf & Hle & Hmod).
    split; [exact Hwf|]. cbn [put_bits be_n be_acc] in Hle, Hmod |- *.
    split; [lia|].
    destruct Hs as [Hn0 Ha].
    match goal with |- be_acc ?X mod _ = _ => set (sf := X) in * end.
    (* acc_f = acc' + 2^(off+n) * q ; acc' = acc + m * 2^off *)
    pose proof (Z.div_mod (be_acc sf) (2 ^ (be_n s + n)) ltac:(apply Z.pow_nonzero; lia)) as Hdm.
    rewrite Hmod in Hdm. rewrite Hdm.
    rewrite Z.pow_add_r by lia.
    replace (2 ^ be_n s * 2 ^ n * (be_acc sf / (2 ^ be_n s * 2 ^ n)) + (be_acc s + v mod 2 ^ n * 2 ^ be_n s))
      with (be_acc s + (2 ^ n * (be_acc sf / (2 ^ be_n s * 2 ^ n)) + v mod 2 ^ n) * 2 ^ be_n s) by ring.
    rewrite Z.mod_add by (apply Z.pow_nonzero; lia).
    apply Z.mod_small. lia.
Qed.

Lemma bits_extract D acc off n m : 0 <= off -> 0 <= n -> 0 <= acc < 2 ^ off -> 0 <= m < 2 ^ n ->
  D mod 2 ^ (off + n) = acc + m * 2 ^ off -> (D / 2 ^ off) mod 2 ^ n = m.
Proof.
  intros Hoff Hn Hacc Hm HD.
  pose proof (Z.div_mod D (2 ^ (off + n)) ltac:(apply Z.pow_nonzero; lia)) as Hdm.
  rewrite HD in Hdm. rewrite Z.pow_add_r in Hdm by lia.
  set (q := D / (2 ^ off * 2 ^ n)) in *. clearbody q.
  assert (H2: 0 < 2 ^ off) by (apply Z.pow_pos_nonneg; lia).
  assert (Hdiv: D / 2 ^ off = 2 ^ n * q + m).
  { symmetry. apply Z.div_unique with (r := acc); [lia|]. rewrite Hdm. ring. }
  rewrite Hdiv. rewrite Z.add_comm, Z.mul_comm, Z.mod_add by (apply Z.pow_nonzero; lia).
  apply Z.mod_small. lia.
Qed.

Lemma mod_mod_pow D a b : 0 <= a <= b -> (D mod 2 ^ b) mod 2 ^ a = D mod 2 ^ a.
Proof.
  intros H. replace b with (a + (b - a)) by lia. rewrite Z.pow_add_r by lia.
  assert (0 < 2 ^ a) by (apply Z.pow_pos_nonneg; lia).
  assert (0 < 2 ^ (b - a)) by (apply Z.pow_pos_nonneg; lia).
  rewrite Z.rem_mul_r by lia.
  rewrite (Z.mul_comm (2 ^ a)), Z.mod_add by lia.
  apply Z.mod_mod; lia.
Qed.

Lemma get_all_correct D L ps : forall s vals, be_wf s ->
  Forall (fun nv => 0 <= fst nv <= 32) ps ->
  D mod 2 ^ be_n (fold_left put_bits ps s) = be_acc (fold_left put_bits ps s) ->
  be_n (fold_left put_bits ps s) <= L ->
  get_all D L (be_n s, vals) (map fst ps) =
    Some (be_n (fold_left put_bits ps s), vals ++ map (fun nv => snd nv mod 2 ^ fst nv) ps).
Proof.
  induction ps as [|[n v] ps IH]; intros s vals Hs Hf; cbn [fold_left map get_all].
  - intros _ _. rewrite app_nil_r. reflexivity.
  - intros HD HL. inversion Hf as [|? ? Hn Hf']; subst. cbn [fst snd] in *.
    pose proof (put_bits_wf s n v Hs ltac:(lia)) as Hs'.
    assert (Hf0: Forall (fun nv : Z * Z => 0 <= fst nv) ps).
    { eapply Forall_impl; [|exact Hf']. cbn. intros; lia. }
    destruct (fold_put_prefix ps _ Hs' Hf0) as (Hwf & Hle & Hmod).
    set (sf := fold_left put_bits ps (put_bits s (n, v))) in *.
    change (be_n (put_bits s (n, v))) with (be_n s + n) in Hle, Hmod.
    change (be_acc (put_bits s (n, v))) with (be_acc s + v mod 2 ^ n * 2 ^ be_n s) in Hmod.
    unfold get_bits.
    replace ((n <? 0) || (n >? 32)) with false by lia.
    replace (Z.min (be_n s + n) L) with (be_n s + n) by lia.
    assert (Hx: (D / 2 ^ be_n s) mod 2 ^ n = v mod 2 ^ n).
    { destruct Hs as [Hn0 Ha].
      apply bits_extract with (acc := be_acc s); try lia.
      - apply Z.mod_pos_bound. apply Z.pow_pos_nonneg; lia.
      - rewrite <- Hmod. rewrite <- HD. symmetry. apply mod_mod_pow. lia. }
    rewrite Hx.
    specialize (IH (put_bits s (n, v)) (vals ++ [v mod 2 ^ n]) Hs' Hf' HD HL).
    cbn [put_bits be_n] in IH. rewrite IH. rewrite <- app_assoc. reflexivity.
Qed.

Lemma bitenc_empty_wf : be_wf bitenc_empty.
Proof. unfold be_wf, bitenc_empty; cbn. lia. Qed.

Definition puts_ok (puts : list (Z * Z)) : Prop := Forall (fun nv => 0 <= fst nv <= 32) puts.

Lemma block_roundtrips ver req ws puts bs rest :
  514 <= ver -> req < 2 ^ 62 -> puts_ok puts ->
  enc_block req ws puts = Some bs ->
  dec_block ver ws (map fst puts) (bs ++ rest) =
    Some (if ws then Some ((be_n (put_all puts) + 7) / 8) else None,
          map (fun nv => snd nv mod 2 ^ fst nv) puts, rest).
Proof.
  intros Hver Hreq Hp Henc. unfold enc_block in Henc.
  destruct (req <=? 0) eqn:Ereq; [discriminate|].
  set (s := put_all puts) in *.
  destruct (be_n s >? (req + 7) / 8 * 8) eqn:Efit; [discriminate|].
  assert (Hf0: Forall (fun nv : Z * Z => 0 <= fst nv) puts).
  { eapply Forall_impl; [|exact Hp]. cbn. intros; lia. }
  destruct (fold_put_prefix puts _ bitenc_empty_wf Hf0) as (Hwf & Hle & _).
  fold (put_all puts) in Hwf, Hle. fold s in Hwf, Hle. cbn [bitenc_empty be_n] in Hle.
  destruct Hwf as [Hn Hacc].
  set (nbytes := (be_n s + 7) / 8) in *.
  assert (Hnb: 0 <= nbytes /\ be_n s <= 8 * nbytes /\ nbytes <= (req + 7) / 8).
  { unfold nbytes. clear Henc. Z.div_mod_to_equations. lia. }
  set (data := enc_le (Z.to_nat nbytes) (be_acc s)) in *.
  assert (Hlen: length data = Z.to_nat nbytes) by apply enc_le_length.
  assert (Hacc8: 0 <= be_acc s < 256 ^ Z.of_nat (Z.to_nat nbytes)).
  { rewrite Z2Nat.id by lia. change 256 with (2 ^ 8). rewrite <- Z.pow_mul_r by lia.
    split; [lia|]. apply Z.lt_le_trans with (2 ^ be_n s); [lia|]. apply Z.pow_le_mono_r; lia. }
  assert (Hval: le_val data = be_acc s) by (apply le_val_enc_le; exact Hacc8).
  (* the decoder's view of the data followed by anything *)
  assert (Hcore: forall sz : option Z,
     match get_all (le_val (data ++ rest)) (8 * Z.of_nat (length (data ++ rest))) (0, []) (map fst puts) with
     | Some (off, vals) => Some (sz, vals, skipn (Z.to_nat ((off + 7) / 8)) (data ++ rest))
     | None => None
     end = Some (sz, map (fun nv => snd nv mod 2 ^ fst nv) puts, rest)).
  { intros sz.
    pose proof (get_all_correct (le_val (data ++ rest)) (8 * Z.of_nat (length (data ++ rest))) puts
                  bitenc_empty [] bitenc_empty_wf Hp) as Hg.
    fold (put_all puts) in Hg. fold s in Hg. cbn [bitenc_empty be_n app] in Hg.
    rewrite Hg.
    - fold nbytes. rewrite skipn_app, <- Hlen, skipn_all, Nat.sub_diag. reflexivity.
    - rewrite le_val_app, Hval, Hlen, Z2Nat.id by lia.
      change 256 with (2 ^ 8). rewrite <- Z.pow_mul_r by lia.
      replace (8 * nbytes) with (be_n s + (8 * nbytes - be_n s)) by lia.
      rewrite Z.pow_add_r by lia.
      rewrite <- Z.mul_assoc, Z.mul_comm, Z.mod_add by (apply Z.pow_nonzero; lia).
      apply Z.mod_small; lia.
    - rewrite app_length, Hlen. lia. }
  destruct ws.
  - destruct (enc_varint_u nbytes) as [szb|] eqn:Esz; [|discriminate].
    injection Henc as <-. unfold dec_block.
    replace (ver <? 514) with false by lia.
    rewrite <- app_assoc.
    rewrite (varint_u_roundtrips 64 ltac:(right; right; right; reflexivity) nbytes szb (data ++ rest));
      [| |exact Esz].
    + apply Hcore.
    + split; [lia|]. apply Z.le_lt_trans with ((req + 7) / 8); [lia|].
      apply Z.div_lt_upper_bound; [lia|]. change (2^64) with (4 * 2^62). lia.
  - injection Henc as <-. unfold dec_block. apply Hcore.
Qed.

Definition item_ok (it : item) : Prop :=
  match it with
  | IBytes _ => True
  | IBlock req _ puts => req < 2 ^ 62 /\ puts_ok puts
  end.

Theorem items_roundtrip ver : 514 <= ver -> forall its bs rest,
  Forall item_ok its -> enc_items its = Some bs ->
  dec_items ver (map shape_of its) (bs ++ rest) = Some (map expect_of its, rest).
Proof.
  intros Hver. induction its as [|it its IH]; intros bs rest Hok Henc.
  - injection Henc as <-. reflexivity.
  - inversion Hok as [|? ? Hit Hok']; subst.
    destruct it as [b|req ws puts]; cbn [enc_items] in Henc.
    + destruct (enc_items its) as [t|] eqn:Et; [|discriminate]. injection Henc as <-.
      cbn [map shape_of expect_of dec_items].
      rewrite <- app_assoc.
      replace (length (b ++ t ++ rest) <? length b)%nat with false
        by (rewrite app_length; symmetry; apply Nat.ltb_ge; lia).
      rewrite skipn_app, skipn_all, Nat.sub_diag. cbn [app skipn].
      rewrite (IH t rest Hok' eq_refl).
      rewrite firstn_app, firstn_all, Nat.sub_diag. cbn [firstn]. rewrite app_nil_r. reflexivity.
    + destruct (enc_block req ws puts) as [b|] eqn:Eb; [|discriminate].
      destruct (enc_items its) as [t|] eqn:Et; [|discriminate]. injection Henc as <-.
      cbn [map shape_of expect_of dec_items]. destruct Hit as [Hreq Hp].
      rewrite <- app_assoc.
      rewrite (block_roundtrips ver req ws puts b (t ++ rest) Hver Hreq Hp Eb).
      rewrite (IH t rest Hok' eq_refl). reflexivity.
Qed.
