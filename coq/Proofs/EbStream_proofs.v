(** Composition of the Edgebreaker layers at the level of BYTES (standard traversal):
    MeshEdgebreakerEncoderImpl::EncodeConnectivity (EBENC model) -> EncodeConnectivity's framing + traversal buffer +
    split-event block (TRAV model) -> DecodeConnectivity's framing (TRAV) -> the symbols / start-face bits the decoder
    drains -> MeshEdgebreakerDecoderImpl::DecodeConnectivity's state machine (EB model): accepted, table isomorphic.
    Uses only the headline theorems of the layers ([ebsim_roundtrip_ct], [conn_standard_roundtrip],
    [eb_encode_ct_trav_premises], [events_countM]). *)
From Coq Require Import ZArith List Bool Lia Arith.
From Draco Require Import Model.CornerTable Model.EbEncoder Model.EbTrace Model.RansSymbol Model.EbTraversal.
From Draco Require Import Proofs.CornerTable_proofs Proofs.EbEncoder_proofs Proofs.EbTrace_proofs Proofs.EbTraversal_proofs.
From Draco Require Import Proofs.EbSimEvEncM_proofs.
From Draco Require Model.Edgebreaker.
Import ListNotations.
Local Open Scope Z_scope.

(** ---- at most one start-face bit per corner of the input: the bit-sequence bound of TRAV holds for the encoder's bits ---- *)
Section BitsBound.
Local Open Scope nat_scope.

Lemma ebind_ok {A B} (e : eres A) (k : A -> eres B) r : ebind e k = EOk r -> exists a, e = EOk a /\ k a = EOk r.
Proof. destruct e; cbn; intros H; try discriminate H. eauto. Qed.

Lemma ec_corner_bits c2v opp hid st c s' bits' inits' :
  ec_corner c2v opp hid st c = EOk (s', bits', inits') ->
  exists s bits inits, st = EOk (s, bits, inits) /\ length bits' <= S (length bits).
Proof.
  unfold ec_corner. intros H.
  apply ebind_ok in H. destruct H as ([[s bits] inits] & -> & H).
  exists s, bits, inits. split; [reflexivity|].
  apply ebind_ok in H. destruct H as (b & _ & H).
  destruct b; [injection H as _ <- _; lia|].
  destruct (is_degenerated c2v (c / 3)); [injection H as _ <- _; lia|].
  apply ebind_ok in H. destruct H as ([start interior] & _ & H).
  destruct interior.
  - repeat (apply ebind_ok in H; destruct H as (? & _ & H)).
    match type of H with match ?o with _ => _ end = _ => destruct o end.
    + apply ebind_ok in H; destruct H as (b2 & _ & H). destruct b2.
      * injection H as _ <- _. cbn. lia.
      * apply ebind_ok in H; destruct H as (? & _ & H). injection H as _ <- _. cbn. lia.
    + injection H as _ <- _. cbn. lia.
  - repeat (apply ebind_ok in H; destruct H as (? & _ & H)). injection H as _ <- _. cbn. lia.
Qed.

Lemma ec_fold_bits c2v opp hid l : forall st s' bits' inits',
  fold_left (ec_corner c2v opp hid) l st = EOk (s', bits', inits') ->
  exists s bits inits, st = EOk (s, bits, inits) /\ length bits' <= length l + length bits.
Proof.
  induction l as [|c l IH]; cbn [fold_left]; intros st s' bits' inits' H.
  - exists s', bits', inits'. split; [exact H|cbn; lia].
  - destruct (IH _ _ _ _ H) as (s1 & b1 & i1 & E1 & L1).
    destruct (ec_corner_bits _ _ _ _ _ _ _ _ E1) as (s & bits & inits & -> & L).
    exists s, bits, inits. split; [reflexivity|cbn; lia].
Qed.

Theorem eb_encode_bits_le c2v opp nv niso ndeg o : eb_encode c2v opp nv niso ndeg = EOk o ->
  length (o_bits o) <= length c2v.
Proof.
  unfold eb_encode. destruct (NF c2v =? ndeg); [discriminate|]. intros H.
  apply ebind_ok in H. destruct H as ([hid vh] & _ & H).
  apply ebind_ok in H. destruct H as ([[s bits] inits] & F & H).
  injection H as <-. cbn [o_bits]. rewrite rev_length.
  destruct (ec_fold_bits _ _ _ _ _ _ _ _ F) as (s0 & b0 & i0 & E0 & L).
  injection E0 as _ <- _. rewrite seq_length in L. cbn in L. unfold NC in L. lia.
Qed.
End BitsBound.

(** the header EncodeConnectivity writes for an encoder result (standard method) *)
Definition hdr_of (o : enc_out) (nattr : Z) : conn_hdr :=
  {| ch_method := 0; ch_nv := o_nverts o; ch_nf := o_nfaces o; ch_nattr := nattr;
     ch_nsym := o_nsyms o; ch_nsplit := o_nsplit o |}.

Lemma events_le_faces faces t o : ct_create faces = Some t -> eb_encode_ct t = EOk o ->
  zlen (o_events o) <= o_nfaces o.
Proof.
  intros H E.
  destruct (ct_create_wf _ _ H) as (L & OK & Hv & FAN & _).
  destruct (eb_encode_ct_counts faces t o H E) as (Ns & _ & _ & Lp & _ & Nf & _).
  pose proof E as E0. unfold eb_encode_ct in E0. destruct (big_step_has_trace _ _ _ _ _ _ E0) as (tr & Et).
  pose proof (events_countM (ct_c2v t) (ct_opp t) (length faces) (length (ct_vcorn t)) (ct_niso t) (ct_ndeg t) o tr L OK Hv FAN Et) as Ec.
  unfold zlen. lia.
Qed.

Theorem eb_connectivity_stream_roundtrip faces t o rm seams trav bs rest :
  ct_create faces = Some t -> eb_encode_ct t = EOk o ->
  Z.of_nat (3 * length faces + length (ct_vcorn t)) < 2147483648 ->
  (3 * o_nfaces o) / 2 <= (o_nverts o * (o_nverts o - 1)) / 2 ->
  bits_len_ok (o_bits o) -> Forall bits_len_ok seams ->
  enc_trav_std (o_nfaces o) (o_syms o) (o_bits o) seams = Some trav ->
  enc_conn (hdr_of o (zlen seams)) (o_events o) trav = Some bs ->
  exists d syms' bits' seams',
    dec_conn (bs ++ rest) = VOk (hdr_of o (zlen seams), o_events o, TStd d, rest) /\
    drain_std (length (o_syms o)) (length (o_bits o)) (map (@length bool) seams) d = (syms', bits', seams') /\
    seams' = seams /\
    exists n s,
      Edgebreaker.eb_full (o_nverts o) (o_nfaces o) (o_nsplit o) rm syms' (o_events o) (Edgebreaker.bits_of_list bits')
        = Edgebreaker.Ok (n, s) /\
      eb_iso (ct_c2v t) (ct_opp t) (o_pcc o) (Edgebreaker.c2v s) (Edgebreaker.copp s).
Proof.
  intros H E Sz G3 Hb Hs Et Ec.
  destruct (eb_encode_ct_trav_premises faces t o H E Sz G3) as (Gd & (Rv & Rf & Rs & Rp) & Fev & Fsy).
  pose proof (events_le_faces faces t o H E) as Hev.
  assert (Hin : hdr_in_range (hdr_of o (zlen seams))).
  { unfold hdr_in_range, hdr_of; cbn. unfold zlen. repeat split; lia. }
  assert (Hpl : hdr_plausible (hdr_of o (zlen seams))) by (unfold hdr_plausible, hdr_of; cbn; exact Gd).
  assert (Fev' : Forall ev_ok (o_events o)).
  { eapply Forall_impl; [|exact Fev]. intros [[src spl] ed] He. unfold ev_ok, ev_spl, ev_src, ev_edge; cbn. exact He. }
  assert (Fsy' : Forall topo (o_syms o)).
  { eapply Forall_impl; [|exact Fsy]. intros x Hx. unfold topo, is_topo.
    cbn in Hx. destruct Hx as [<-|[<-|[<-|[<-|[<-|[]]]]]]; reflexivity. }
  destruct (conn_standard_roundtrip (hdr_of o (zlen seams)) (o_events o) (o_nfaces o) (o_syms o) (o_bits o) seams trav bs rest
              Hin Hpl eq_refl eq_refl Fev' Hev Fsy' Hb Hs Et Ec) as (d & Hd & Hdr).
  destruct (ebsim_roundtrip_ct faces t o rm H E Sz G3) as (n & s & Hdec & Hiso).
  exists d, (rev (o_syms o)), (o_bits o), seams.
  split; [exact Hd|]. split; [exact Hdr|]. split; [reflexivity|].
  exists n, s. split; [exact Hdec|exact Hiso].
Qed.

Lemma bits_len_ok_ct faces t o : ct_create faces = Some t -> eb_encode_ct t = EOk o ->
  Z.of_nat (3 * length faces + length (ct_vcorn t)) < 2147483648 -> bits_len_ok (o_bits o).
Proof.
  intros H E Sz. destruct (ct_create_wf _ _ H) as (L & _).
  pose proof (eb_encode_bits_le _ _ _ _ _ _ E) as Hb. unfold bits_len_ok, zlen. lia.
Qed.

(** the same without the premise on the start-face bits *)
Theorem eb_connectivity_stream_roundtrip' faces t o rm seams trav bs rest :
  ct_create faces = Some t -> eb_encode_ct t = EOk o ->
  Z.of_nat (3 * length faces + length (ct_vcorn t)) < 2147483648 ->
  (3 * o_nfaces o) / 2 <= (o_nverts o * (o_nverts o - 1)) / 2 ->
  Forall bits_len_ok seams ->
  enc_trav_std (o_nfaces o) (o_syms o) (o_bits o) seams = Some trav ->
  enc_conn (hdr_of o (zlen seams)) (o_events o) trav = Some bs ->
  exists d syms' bits' seams',
    dec_conn (bs ++ rest) = VOk (hdr_of o (zlen seams), o_events o, TStd d, rest) /\
    drain_std (length (o_syms o)) (length (o_bits o)) (map (@length bool) seams) d = (syms', bits', seams') /\
    seams' = seams /\
    exists n s,
      Edgebreaker.eb_full (o_nverts o) (o_nfaces o) (o_nsplit o) rm syms' (o_events o) (Edgebreaker.bits_of_list bits')
        = Edgebreaker.Ok (n, s) /\
      eb_iso (ct_c2v t) (ct_opp t) (o_pcc o) (Edgebreaker.c2v s) (Edgebreaker.copp s).
Proof.
  intros H E Sz G3 Hs. apply (eb_connectivity_stream_roundtrip faces t o rm seams trav bs rest H E Sz G3); [|exact Hs].
  exact (bits_len_ok_ct faces t o H E Sz).
Qed.
