(** Composition of the Edgebreaker layers at the level of BYTES (standard traversal):
    MeshEdgebreakerEncoderImpl::EncodeConnectivity (EBENC model) -> EncodeConnectivity's framing + traversal buffer +
    split-event block (TRAV model) -> DecodeConnectivity's framing (TRAV) -> the symbols / start-face bits the decoder
    drains -> MeshEdgebreakerDecoderImpl::DecodeConnectivity's state machine (EB model): accepted, table isomorphic.
    Uses only the headline theorems of the layers ([ebsim_roundtrip_ct], [conn_standard_roundtrip],
    [eb_encode_ct_trav_premises], [events_countM]). *)
From Coq Require Import ZArith List Bool Lia.
From Draco Require Import Model.CornerTable Model.EbEncoder Model.EbTrace Model.RansSymbol Model.EbTraversal.
From Draco Require Import Proofs.CornerTable_proofs Proofs.EbEncoder_proofs Proofs.EbTrace_proofs Proofs.EbTraversal_proofs.
From Draco Require Import Proofs.EbSimEvEncM_proofs.
From Draco Require Model.Edgebreaker.
Import ListNotations.
Local Open Scope Z_scope.

(** the header EncodeConnectivity writes for an encoder result (standard method) *)
Definition hdr_of (o : enc_out) (nattr : Z) : conn_hdr :=
  {| ch_method := 0; ch_nv := o_nverts o; ch_nf := o_nfaces o; ch_nattr := nattr;
     ch_nsym := o_nsyms o; ch_nsplit := o_nsplit o |}.

Lemma events_le_faces faces t o : ct_create faces = Some t -> eb_encode_ct t = EOk o ->
  zlen (o_events o) <= o_nfaces o.
Proof.
  intros H E.
  destruct (ct_create_wf _ _ H) as (L & OK & Hv & FAN & _).
  destruct (eb_encode_ct_counts faces t o H E) as (Ns & _ & _ & Lp & _ & Nf & _).
  pose proof E as E0. unfold eb_encode_ct in E0. destruct (big_step_has_trace _ _ _ _ _ _ E0) as (tr & Et).
  pose proof (events_countM (ct_c2v t) (ct_opp t) (length faces) (length (ct_vcorn t)) (ct_niso t) (ct_ndeg t) o tr L OK Hv FAN Et) as Ec.
  unfold zlen. lia.
Qed.

Theorem eb_connectivity_stream_roundtrip faces t o rm seams trav bs rest :
  ct_create faces = Some t -> eb_encode_ct t = EOk o ->
  Z.of_nat (3 * length faces + length (ct_vcorn t)) < 2147483648 ->
  (3 * o_nfaces o) / 2 <= (o_nverts o * (o_nverts o - 1)) / 2 ->
  bits_len_ok (o_bits o) -> Forall bits_len_ok seams ->
  enc_trav_std (o_nfaces o) (o_syms o) (o_bits o) seams = Some trav ->
  enc_conn (hdr_of o (zlen seams)) (o_events o) trav = Some bs ->
  exists d syms' bits' seams',
    dec_conn (bs ++ rest) = VOk (hdr_of o (zlen seams), o_events o, TStd d, rest) /\
    drain_std (length (o_syms o)) (length (o_bits o)) (map (@length bool) seams) d = (syms', bits', seams') /\
    seams' = seams /\
    exists n s,
      Edgebreaker.eb_full (o_nverts o) (o_nfaces o) (o_nsplit o) rm syms' (o_events o) (Edgebreaker.bits_of_list bits')
        = Edgebreaker.Ok (n, s) /\
      eb_iso (ct_c2v t) (ct_opp t) (o_pcc o) (Edgebreaker.c2v s) (Edgebreaker.copp s).
Proof.
  intros H E Sz G3 Hb Hs Et Ec.
  destruct (eb_encode_ct_trav_premises faces t o H E Sz G3) as (Gd & (Rv & Rf & Rs & Rp) & Fev & Fsy).
  pose proof (events_le_faces faces t o H E) as Hev.
  assert (Hin : hdr_in_range (hdr_of o (zlen seams))).
  { unfold hdr_in_range, hdr_of; cbn. unfold zlen. repeat split; lia. }
  assert (Hpl : hdr_plausible (hdr_of o (zlen seams))) by (unfold hdr_plausible, hdr_of; cbn; exact Gd).
  assert (Fev' : Forall ev_ok (o_events o)).
  { eapply Forall_impl; [|exact Fev]. intros [[src spl] ed] He. unfold ev_ok, ev_spl, ev_src, ev_edge; cbn. exact He. }
  assert (Fsy' : Forall topo (o_syms o)).
  { eapply Forall_impl; [|exact Fsy]. intros x Hx. unfold topo, is_topo.
    cbn in Hx. destruct Hx as [<-|[<-|[<-|[<-|[<-|[]]]]]]; reflexivity. }
  destruct (conn_standard_roundtrip (hdr_of o (zlen seams)) (o_events o) (o_nfaces o) (o_syms o) (o_bits o) seams trav bs rest
              Hin Hpl eq_refl eq_refl Fev' Hev Fsy' Hb Hs Et Ec) as (d & Hd & Hdr).
  destruct (ebsim_roundtrip_ct faces t o rm H E Sz G3) as (n & s & Hdec & Hiso).
  exists d, (rev (o_syms o)), (o_bits o), seams.
  split; [exact Hd|]. split; [exact Hdr|]. split; [reflexivity|].
  exists n, s. split; [exact Hdec|exact Hiso].
Qed.
