(** C15 — the composed OBJ round trip on the tokenised-line model: ObjDecoder (ObjEncoder m), both passes. *)
From Coq Require Import List ZArith Bool Arith Lia ZifyBool.
From Draco Require Import Base.Codec Model.Varint Model.Dedup Model.IoText Model.PlyModel Model.ObjModel
  Proofs.Varint_proofs Proofs.Dedup_proofs Proofs.IoText_proofs Proofs.ObjPlyStl_proofs Proofs.PlyRoundtrip_proofs.
Import ListNotations.
Local Open Scope Z_scope.

Lemma comps_length k v : length (comps k v) = k.
Proof.
  unfold comps. rewrite app_length, repeat_length. pose proof (firstn_le_length k (chunks4 v)). lia.
Qed.

(** the attributes the writer uses, in the order of the records it writes *)
Definition obj_tex (m : obj_in) : option attr := eff_att (oi_tex m).
Definition obj_nrm (m : obj_in) : option attr := eff_att (oi_nrm m).
Definition ovals (o : option attr) : list bytes := match o with Some a => a_vals a | None => [] end.

(** every number the writer prints *)
Definition obj_numbers (m : obj_in) : list bytes :=
  concat (map (comps 3) (a_vals (oi_pos m))) ++ concat (map (comps 2) (ovals (obj_tex m))) ++
  concat (map (comps 3) (ovals (obj_nrm m))).

Section ObjRT.
Variable fmt : bytes -> bytes.
Variable parse : bytes -> option bytes.
Variable rt : bytes -> bytes.

(** a value after printing and parsing each of its [k] numbers *)
Definition rtv (k : nat) (v : bytes) : bytes := concat (map rt (comps k v)).

Lemma parse_nums_written k v : (forall x, In x (comps k v) -> parse (fmt x) = Some (rt x)) ->
  parse_nums parse k (num_tokens fmt k v) = Ok (rtv k v).
Proof.
  intros H. unfold parse_nums, num_tokens. rewrite map_length, comps_length.
  rewrite Nat.ltb_irrefl. rewrite firstn_all2 by (rewrite map_length, comps_length; lia).
  rewrite map_map. rewrite (opt_all_map_some _ rt) by exact H. reflexivity.
Qed.

(* --------------------------------------------------------------------------------------- first pass: counting *)
Lemma count_v (F : bytes -> list bytes) l : forall r np nt nn nf,
  obj_count (map (fun v => OV (F v)) l ++ r) np nt nn nf = obj_count r (length l + np) nt nn nf.
Proof.
  induction l as [|v l IH]; intros; [reflexivity|]. cbn [map app obj_count length]. rewrite IH. f_equal. lia.
Qed.
Lemma count_vt (F : bytes -> list bytes) l : forall r np nt nn nf,
  obj_count (map (fun v => OVT (F v)) l ++ r) np nt nn nf = obj_count r np (length l + nt) nn nf.
Proof.
  induction l as [|v l IH]; intros; [reflexivity|]. cbn [map app obj_count length]. rewrite IH. f_equal. lia.
Qed.
Lemma count_vn (F : bytes -> list bytes) l : forall r np nt nn nf,
  obj_count (map (fun v => OVN (F v)) l ++ r) np nt nn nf = obj_count r np nt (length l + nn) nf.
Proof.
  induction l as [|v l IH]; intros; [reflexivity|]. cbn [map app obj_count length]. rewrite IH. f_equal. lia.
Qed.
Lemma count_f m fs : forall r np nt nn nf,
  obj_count (map (obj_face_line m) fs ++ r) np nt nn nf = obj_count r np nt nn (nf + length fs).
Proof.
  induction fs as [|[[a b] c] fs IH]; intros; [cbn [map app length]; f_equal; lia|].
  cbn [map app obj_count length obj_face_line]. change ((3 <? 3)%nat || (8 <? 3)%nat) with false. cbn iota.
  rewrite IH. f_equal. lia.
Qed.

(* ------------------------------------------------------------------------------------ second pass: the records *)
Definition st_p (st : ostate) (l : list bytes) : ostate := mkOS (os_p st ++ l) (os_t st) (os_n st) (os_mp st) (os_mt st) (os_mn st).
Definition st_t (st : ostate) (l : list bytes) : ostate := mkOS (os_p st) (os_t st ++ l) (os_n st) (os_mp st) (os_mt st) (os_mn st).
Definition st_n (st : ostate) (l : list bytes) : ostate := mkOS (os_p st) (os_t st) (os_n st ++ l) (os_mp st) (os_mt st) (os_mn st).

Lemma os_eta st : mkOS (os_p st) (os_t st) (os_n st) (os_mp st) (os_mt st) (os_mn st) = st.
Proof. destruct st; reflexivity. Qed.

Lemma fill_v l : forall r tp tx tn st,
  (forall x, In x (concat (map (comps 3) l)) -> parse (fmt x) = Some (rt x)) ->
  obj_fill parse (map (fun v => OV (num_tokens fmt 3 v)) l ++ r) tp tx tn st =
  obj_fill parse r tp tx tn (st_p st (map (rtv 3) l)).
Proof.
  induction l as [|v l IH]; intros r tp tx tn st H.
  - unfold st_p. cbn [map app]. rewrite app_nil_r, os_eta. reflexivity.
  - cbn [map app obj_fill]. rewrite parse_nums_written by (intros x Hx; apply H; cbn [map concat]; apply in_or_app; left; exact Hx).
    cbn [rbind]. rewrite IH by (intros x Hx; apply H; cbn [map concat]; apply in_or_app; right; exact Hx).
    unfold st_p. cbn [os_p os_t os_n os_mp os_mt os_mn]. rewrite <- app_assoc. reflexivity.
Qed.
Lemma fill_vt l : forall r tp tx tn st,
  (forall x, In x (concat (map (comps 2) l)) -> parse (fmt x) = Some (rt x)) ->
  obj_fill parse (map (fun v => OVT (num_tokens fmt 2 v)) l ++ r) tp tx tn st =
  obj_fill parse r tp tx tn (st_t st (map (rtv 2) l)).
Proof.
  induction l as [|v l IH]; intros r tp tx tn st H.
  - unfold st_t. cbn [map app]. rewrite app_nil_r, os_eta. reflexivity.
  - cbn [map app obj_fill]. rewrite parse_nums_written by (intros x Hx; apply H; cbn [map concat]; apply in_or_app; left; exact Hx).
    cbn [rbind]. rewrite IH by (intros x Hx; apply H; cbn [map concat]; apply in_or_app; right; exact Hx).
    unfold st_t. cbn [os_p os_t os_n os_mp os_mt os_mn]. rewrite <- app_assoc. reflexivity.
Qed.
Lemma fill_vn l : forall r tp tx tn st,
  (forall x, In x (concat (map (comps 3) l)) -> parse (fmt x) = Some (rt x)) ->
  obj_fill parse (map (fun v => OVN (num_tokens fmt 3 v)) l ++ r) tp tx tn st =
  obj_fill parse r tp tx tn (st_n st (map (rtv 3) l)).
Proof.
  induction l as [|v l IH]; intros r tp tx tn st H.
  - unfold st_n. cbn [map app]. rewrite app_nil_r, os_eta. reflexivity.
  - cbn [map app obj_fill]. rewrite parse_nums_written by (intros x Hx; apply H; cbn [map concat]; apply in_or_app; left; exact Hx).
    cbn [rbind]. rewrite IH by (intros x Hx; apply H; cbn [map concat]; apply in_or_app; right; exact Hx).
    unfold st_n. cbn [os_p os_t os_n os_mp os_mt os_mn]. rewrite <- app_assoc. reflexivity.
Qed.

(* -------------------------------------------------------------------------------------- second pass: the faces *)
(** the value index of each of the three corners of a face in attribute [a] *)
Definition cmap (a : attr) (f : face) : list nat := map (mapped_index a) (corners f).
Definition omap (o : option attr) (f : face) : list nat := match o with Some a => cmap a f | None => [] end.

Definition attr_ok (np : nat) (a : attr) : Prop := wf_attr np a = true /\ Z.of_nat (length (a_vals a)) < 2 ^ 31.
Definition oattr_ok (np : nat) (o : option attr) : Prop := forall a, o = Some a -> attr_ok np a.

Lemma attr_idx np a p : attr_ok np a -> (p < np)%nat ->
  (mapped_index a p < length (a_vals a))%nat /\ idx_ok (mapped_index a p).
Proof.
  intros [W L] Hp. pose proof (wf_attr_value_index np a p W Hp). split; [assumption|]. unfold idx_ok. lia.
Qed.

Lemma fan3 {A} (d x0 x1 x2 : A) : fan_corners d [x0; x1; x2] = [x0; x1; x2].
Proof. reflexivity. Qed.

Lemma resolve_all_written (sel : Z * Z * Z -> Z) cur tot ok xs vs :
  Forall2 (fun x v => sel x = Z.of_nat v + 1 /\ (v < tot)%nat) xs vs ->
  opt_all (map (fun x => resolve_index (sel x) cur tot ok) xs) = Some vs.
Proof.
  induction 1 as [|x v xs vs [E B] _ IH]; [reflexivity|].
  unfold opt_all in *. cbn [map fold_right]. rewrite IH, E, resolve_index_written by exact B. reflexivity.
Qed.

Lemma resolve_opt_written o np (sel : Z * Z * Z -> Z) cur xs f :
  oattr_ok np o -> face_ok np f = true ->
  Forall2 (fun x p => sel x = opt_idx (option_map (fun a => mapped_index a p) o)) xs (corners f) ->
  (if (0 <? length (ovals o))%nat
   then opt_all (map (fun x => resolve_index (sel x) cur (length (ovals o)) true) xs) else Some []) = Some (omap o f).
Proof.
  intros Ho Hf HX. destruct f as [[a b] c]. apply face_ok_lt in Hf. destruct Hf as (Ha & Hb & Hc).
  destruct o as [x|]; cbn [ovals omap]; [|reflexivity].
  pose proof (attr_idx np x a (Ho x eq_refl) Ha) as [Ba _]. pose proof (attr_idx np x b (Ho x eq_refl) Hb) as [Bb _].
  pose proof (attr_idx np x c (Ho x eq_refl) Hc) as [Bc _].
  unfold bytes, value in *.
  match goal with |- context [Nat.ltb 0 ?n] => destruct (Nat.ltb_spec 0 n) as [_|L]; [|lia] end.
  apply resolve_all_written. unfold cmap. cbn [corners map option_map opt_idx] in *.
  inversion HX as [|? ? ? ? E1 HX1]; subst. inversion HX1 as [|? ? ? ? E2 HX2]; subst. inversion HX2 as [|? ? ? ? E3 HX3]; subst.
  inversion HX3; subst. repeat constructor; assumption.
Qed.

Lemma fill_face m np tp tx tn st f r :
  attr_ok np (oi_pos m) -> oattr_ok np (obj_tex m) -> oattr_ok np (obj_nrm m) -> face_ok np f = true ->
  tp = length (a_vals (oi_pos m)) -> tx = length (ovals (obj_tex m)) -> tn = length (ovals (obj_nrm m)) ->
  obj_fill parse (obj_face_line m f :: r) tp tx tn st =
  obj_fill parse r tp tx tn (mkOS (os_p st) (os_t st) (os_n st) (os_mp st ++ cmap (oi_pos m) f)
                              (os_mt st ++ omap (obj_tex m) f) (os_mn st ++ omap (obj_nrm m) f)).
Proof.
  intros Hp Ht Hn Hf -> -> ->. pose proof Hf as Hf'. destruct f as [[a b] c]. apply face_ok_lt in Hf. destruct Hf as (Ha & Hb & Hc).
  cbn [obj_face_line obj_fill]. fold (obj_tex m). fold (obj_nrm m).
  assert (PC : forall p, (p < np)%nat -> parse_corner (obj_corner m p) =
            Some (Z.of_nat (mapped_index (oi_pos m) p) + 1,
                  opt_idx (option_map (fun x => mapped_index x p) (obj_tex m)),
                  opt_idx (option_map (fun x => mapped_index x p) (obj_nrm m)), [])).
  { intros p Hp'. unfold obj_corner. fold (obj_tex m). fold (obj_nrm m). apply parse_corner_text.
    - apply (attr_idx np _ p Hp Hp').
    - intros v E. destruct (obj_tex m) as [x|] eqn:Ex; [|discriminate]. injection E as <-. apply (attr_idx np x p (Ht x eq_refl) Hp').
    - intros v E. destruct (obj_nrm m) as [x|] eqn:Ex; [|discriminate]. injection E as <-. apply (attr_idx np x p (Hn x eq_refl) Hp'). }
  cbn [parse_corners]. rewrite !PC by assumption. cbn [rbind]. rewrite fan3.
  rewrite (resolve_all_written (fun x => fst (fst x)) _ _ false _ (cmap (oi_pos m) (a, b, c))).
  2:{ unfold cmap. cbn [corners map fst]. repeat constructor; apply (attr_idx np); assumption. }
  rewrite (resolve_opt_written (obj_tex m) np (fun x => snd (fst x)) _ _ (a, b, c) Ht Hf') by (repeat constructor).
  rewrite (resolve_opt_written (obj_nrm m) np (fun x => snd x) _ _ (a, b, c) Hn Hf') by (repeat constructor).
  reflexivity.
Qed.

Lemma fill_faces m np tp tx tn :
  attr_ok np (oi_pos m) -> oattr_ok np (obj_tex m) -> oattr_ok np (obj_nrm m) ->
  tp = length (a_vals (oi_pos m)) -> tx = length (ovals (obj_tex m)) -> tn = length (ovals (obj_nrm m)) ->
  forall fs, forallb (face_ok np) fs = true -> forall st r,
  obj_fill parse (map (obj_face_line m) fs ++ r) tp tx tn st =
  obj_fill parse r tp tx tn (mkOS (os_p st) (os_t st) (os_n st) (os_mp st ++ concat (map (cmap (oi_pos m)) fs))
                              (os_mt st ++ concat (map (omap (obj_tex m)) fs)) (os_mn st ++ concat (map (omap (obj_nrm m)) fs))).
Proof.
  intros Hp Ht Hn Etp Etx Etn. induction fs as [|f fs IH]; intros Hfs st r.
  - cbn [map concat app]. rewrite !app_nil_r, os_eta. reflexivity.
  - cbn [forallb] in Hfs. apply andb_true_iff in Hfs. destruct Hfs as [Hf Hfs].
    cbn [map app]. rewrite (fill_face m np tp tx tn st f _ Hp Ht Hn Hf Etp Etx Etn).
    rewrite IH by exact Hfs. cbn [os_p os_t os_n os_mp os_mt os_mn concat]. rewrite <- !app_assoc. reflexivity.
Qed.

(* ------------------------------------------------------------------------------------------- the whole reader *)
(** what ObjEncoder must be given: a mesh (written through the Mesh entry) with at least one face, float32
    attributes, structurally valid point -> value maps, fewer than 2^31 values per attribute, face corners < number of
    points.  Materials, sub-objects, "added_edges" polygons and metadata are outside the model. *)
Definition obj_ok (m : obj_in) (fs : list face) : Prop :=
  oi_faces m = Some fs /\ fs <> [] /\ all_f32 m = true /\
  attr_ok (oi_np m) (oi_pos m) /\ oattr_ok (oi_np m) (oi_tex m) /\ oattr_ok (oi_np m) (oi_nrm m) /\
  forallb (face_ok (oi_np m)) fs = true.

Definition raw_attr (k : nat) (nc : Z) (a : attr) (fs : list face) : attr :=
  mkAttr nc DT_FLOAT32 (map (rtv k) (a_vals a)) false (concat (map (cmap a) fs)).

(** what ObjDecoder has built before its final deduplication: the value tables in record order (each number printed
    and parsed), one point per face corner, and per attribute the corner -> value map of the input mesh *)
Definition obj_raw (m : obj_in) (fs : list face) (mesh : bool) : geo :=
  mkGeo (3 * length fs)
    ([raw_attr 3 3 (oi_pos m) fs] ++
     match obj_tex m with Some a => [raw_attr 2 2 a fs] | None => [] end ++
     match obj_nrm m with Some a => [raw_attr 3 3 a fs] | None => [] end)
    (if mesh then soup_faces (length fs) else []).

Lemma eff_att_some o a : eff_att o = Some a -> o = Some a /\ a_vals a <> [].
Proof.
  unfold eff_att. destruct o as [x|]; [|discriminate]. destruct (a_vals x) eqn:E; cbn [nilb]; [discriminate|].
  intros [= <-]. rewrite E. split; [reflexivity|discriminate].
Qed.

Lemma concat_len3 {A B} (F : A -> list B) l : (forall x, length (F x) = 3%nat) -> length (concat (map F l)) = (3 * length l)%nat.
Proof.
  intros H. rewrite (concat_len_const _ 3); [rewrite map_length; reflexivity|].
  apply Forall_forall. intros x Hx. apply in_map_iff in Hx. destruct Hx as (y & <- & _). apply H.
Qed.
Lemma cmap_len a f : length (cmap a f) = 3%nat.
Proof. destruct f as [[? ?] ?]. reflexivity. Qed.

Theorem obj_raw_roundtrip m fs : obj_ok m fs ->
  (forall x, In x (obj_numbers m) -> parse (fmt x) = Some (rt x)) ->
  exists ls, obj_write fmt m = Some ls /\ forall mesh, obj_decode_raw parse mesh ls = Ok (obj_raw m fs mesh).
Proof.
  intros (Ef & Hne & Hf32 & Hp & Ht & Hn & Hfs) ORA.
  assert (Ht' : oattr_ok (oi_np m) (obj_tex m)).
  { intros a E. apply eff_att_some in E. destruct E as [E _]. apply Ht. exact E. }
  assert (Hn' : oattr_ok (oi_np m) (obj_nrm m)).
  { intros a E. apply eff_att_some in E. destruct E as [E _]. apply Hn. exact E. }
  (* there is a point, hence a position value *)
  assert (NP : (0 < oi_np m)%nat).
  { destruct fs as [|[[a b] c] fs']; [congruence|]. cbn [forallb] in Hfs. apply andb_true_iff in Hfs. destruct Hfs as [H _].
    apply face_ok_lt in H. lia. }
  assert (PV : (0 < length (a_vals (oi_pos m)))%nat).
  { destruct (attr_idx _ _ 0%nat Hp NP) as [B _]. lia. }
  assert (NB : nilb (a_vals (oi_pos m)) = false) by (destruct (a_vals (oi_pos m)); [cbn in PV; lia|reflexivity]).
  unfold obj_write. rewrite Hf32. cbn [negb]. rewrite NB. rewrite Ef. eexists. split; [reflexivity|]. intros mesh.
  fold (obj_tex m). fold (obj_nrm m).
  set (tv := ovals (obj_tex m)). set (nv := ovals (obj_nrm m)).
  assert (TL : match obj_tex m with Some a => map (fun v => OVT (num_tokens fmt 2 v)) (a_vals a) | None => [] end =
               map (fun v => OVT (num_tokens fmt 2 v)) tv) by (unfold tv; destruct (obj_tex m); reflexivity).
  assert (NL : match obj_nrm m with Some a => map (fun v => OVN (num_tokens fmt 3 v)) (a_vals a) | None => [] end =
               map (fun v => OVN (num_tokens fmt 3 v)) nv) by (unfold nv; destruct (obj_nrm m); reflexivity).
  rewrite TL, NL. clear TL NL.
  unfold obj_decode_raw.
  rewrite count_v, count_vt, count_vn. rewrite <- (app_nil_r (map (obj_face_line m) fs)). rewrite count_f.
  cbn [obj_count]. rewrite !Nat.add_0_r. cbn [Nat.add].
  assert (NF : (length fs =? 0)%nat = false) by (destruct fs; [congruence|reflexivity]). rewrite NF.
  match goal with |- context [Nat.eqb ?n 0] =>
    replace (Nat.eqb n 0) with false by (symmetry; apply Nat.eqb_neq; unfold bytes, value in *; lia) end.
  rewrite fill_v by (intros x Hx; apply ORA; unfold obj_numbers; apply in_or_app; left; exact Hx).
  rewrite fill_vt by (intros x Hx; apply ORA; unfold obj_numbers; apply in_or_app; right; apply in_or_app; left; exact Hx).
  rewrite fill_vn by (intros x Hx; apply ORA; unfold obj_numbers; apply in_or_app; right; apply in_or_app; right; exact Hx).
  rewrite (fill_faces m (oi_np m) _ _ _ Hp Ht' Hn' eq_refl eq_refl eq_refl fs Hfs).
  cbn [obj_fill rbind st_p st_t st_n os_p os_t os_n os_mp os_mt os_mn app].
  unfold obj_raw, raw_attr. cbn [app]. f_equal. f_equal. f_equal. f_equal.
  - unfold tv. destruct (obj_tex m) as [a|] eqn:Et; cbn [ovals length]; [|reflexivity].
    apply eff_att_some in Et. destruct Et as [_ Hv]. destruct (a_vals a) eqn:Ev; [congruence|]. reflexivity.
  - unfold nv. destruct (obj_nrm m) as [a|] eqn:En; cbn [ovals length]; [|reflexivity].
    apply eff_att_some in En. destruct En as [_ Hv]. destruct (a_vals a) eqn:Ev; [congruence|]. reflexivity.
Qed.

(* ------------------------------------------------------------------------ what the decoded mesh describes *)
(** the tuple of attribute values of input point p, every number printed and parsed *)
Definition otuple (m : obj_in) (p : nat) : list bytes :=
  [rtv 3 (att_value (oi_pos m) p)] ++
  match obj_tex m with Some a => [rtv 2 (att_value a p)] | None => [] end ++
  match obj_nrm m with Some a => [rtv 3 (att_value a p)] | None => [] end.

Lemma cmap_nth a fs i c : (i < length fs)%nat -> (c < 3)%nat ->
  nth (3 * i + c) (concat (map (cmap a) fs)) invalid_index = mapped_index a (nth c (corners (nth i fs (0, 0, 0)%nat)) 0%nat).
Proof.
  intros Hi Hc. rewrite <- (map_nth_seq' fs (0, 0, 0)%nat) at 1. rewrite map_map.
  rewrite (nth_concat3 invalid_index (fun k => cmap a (nth k fs (0, 0, 0)%nat))) by (auto using cmap_len).
  unfold cmap. apply nth_map_lt. destruct (nth i fs (0, 0, 0)%nat) as [[? ?] ?]. exact Hc.
Qed.

Lemma corner_lt np fs i c : forallb (face_ok np) fs = true -> (i < length fs)%nat -> (c < 3)%nat ->
  (nth c (corners (nth i fs (0, 0, 0)%nat)) 0 < np)%nat.
Proof.
  intros Hfs Hi Hc. rewrite forallb_forall in Hfs. specialize (Hfs _ (nth_In fs (0, 0, 0)%nat Hi)).
  destruct (nth i fs (0, 0, 0)%nat) as [[x y] z]. apply face_ok_lt in Hfs. destruct Hfs as (? & ? & ?).
  destruct c as [|[|[|c]]]; cbn [corners nth]; lia.
Qed.

Lemma raw_attr_value np a k nc fs i c : attr_ok np a -> forallb (face_ok np) fs = true ->
  (i < length fs)%nat -> (c < 3)%nat ->
  att_value (raw_attr k nc a fs) (3 * i + c) = rtv k (att_value a (nth c (corners (nth i fs (0, 0, 0)%nat)) 0%nat)).
Proof.
  intros Ha Hfs Hi Hc. unfold att_value at 1. unfold mapped_index at 1. cbn [raw_attr a_ident a_map a_vals].
  rewrite cmap_nth by assumption.
  destruct (attr_idx np a _ Ha (corner_lt np fs i c Hfs Hi Hc)) as [B _].
  rewrite (nth_map_lt (rtv k) _ _ []) by exact B. reflexivity.
Qed.

Lemma obj_raw_tuple m fs i c mesh : obj_ok m fs -> (i < length fs)%nat -> (c < 3)%nat ->
  point_tuple (g_atts (obj_raw m fs mesh)) (3 * i + c) = otuple m (nth c (corners (nth i fs (0, 0, 0)%nat)) 0%nat).
Proof.
  intros (Ef & Hne & Hf32 & Hp & Ht & Hn & Hfs) Hi Hc.
  unfold obj_raw, otuple, point_tuple. cbn [g_atts]. rewrite !map_app. cbn [map].
  rewrite (raw_attr_value (oi_np m)) by assumption. f_equal. f_equal.
  - destruct (obj_tex m) as [a|] eqn:E; [|reflexivity]. cbn [map]. apply eff_att_some in E. destruct E as [E _].
    rewrite (raw_attr_value (oi_np m)) by (try apply Ht; assumption). reflexivity.
  - destruct (obj_nrm m) as [a|] eqn:E; [|reflexivity]. cbn [map]. apply eff_att_some in E. destruct E as [E _].
    rewrite (raw_attr_value (oi_np m)) by (try apply Hn; assumption). reflexivity.
Qed.

Definition oface (m : obj_in) (f : face) : list bytes * list bytes * list bytes :=
  let '(a, b, c) := f in (otuple m a, otuple m b, otuple m c).

Lemma obj_raw_geom m fs : obj_ok m fs -> geom (obj_raw m fs true) = map (oface m) fs.
Proof.
  intros Hok. unfold geom. change (g_faces (obj_raw m fs true)) with (soup_faces (length fs)).
  set (atts := g_atts (obj_raw m fs true)). unfold soup_faces. rewrite map_map.
  transitivity (map (oface m) (map (fun k => nth k fs (0, 0, 0)%nat) (seq 0 (length fs)))); [|rewrite map_nth_seq'; reflexivity].
  rewrite map_map. apply map_ext_in. intros i Hi. apply in_seq in Hi.
  unfold face_geom.
  pose proof (obj_raw_tuple m fs i 0 true Hok ltac:(lia) ltac:(lia)) as T0.
  pose proof (obj_raw_tuple m fs i 1 true Hok ltac:(lia) ltac:(lia)) as T1.
  pose proof (obj_raw_tuple m fs i 2 true Hok ltac:(lia) ltac:(lia)) as T2.
  fold atts in T0, T1, T2. replace (3 * i + 0)%nat with (3 * i)%nat in T0 by lia. rewrite T0, T1, T2.
  destruct (nth i fs (0, 0, 0)%nat) as [[a b] c]. reflexivity.
Qed.

Lemma obj_raw_wf m fs mesh : obj_ok m fs -> wf_geo (obj_raw m fs mesh) = true.
Proof.
  intros (Ef & Hne & Hf32 & Hp & Ht & Hn & Hfs). unfold wf_geo. apply andb_true_iff. split.
  - assert (W : forall k nc a, attr_ok (oi_np m) a -> wf_attr (3 * length fs) (raw_attr k nc a fs) = true).
    { intros k nc a Ha. unfold wf_attr, raw_attr. cbn [a_ident a_map a_vals]. apply andb_true_iff. split.
      - apply Nat.leb_le. rewrite (concat_len3 (cmap a)) by apply cmap_len. lia.
      - apply forallb_forall. intros v Hv. apply in_concat in Hv. destruct Hv as (l & Hl & Hv).
        apply in_map_iff in Hl. destruct Hl as (f & <- & Hf). unfold cmap in Hv. apply in_map_iff in Hv. destruct Hv as (p & <- & Hp').
        rewrite map_length. apply Nat.ltb_lt. apply (attr_idx (oi_np m)); [exact Ha|].
        rewrite forallb_forall in Hfs. specialize (Hfs f Hf). destruct f as [[x y] z]. apply face_ok_lt in Hfs.
        cbn [corners] in Hp'. destruct Hfs as (? & ? & ?). destruct Hp' as [<- | [<- | [<- | []]]]; assumption. }
    cbn [obj_raw g_np g_atts]. apply forallb_forall. intros a Ha.
    repeat (apply in_app_or in Ha; destruct Ha as [Ha | Ha]).
    + destruct Ha as [<- | []]. apply W. exact Hp.
    + destruct (obj_tex m) as [x|] eqn:E; [|destruct Ha]. destruct Ha as [<- | []]. apply W. apply Ht.
      apply eff_att_some in E. apply E.
    + destruct (obj_nrm m) as [x|] eqn:E; [|destruct Ha]. destruct Ha as [<- | []]. apply W. apply Hn.
      apply eff_att_some in E. apply E.
  - cbn [obj_raw g_np g_faces]. destruct mesh; [|reflexivity]. apply forallb_forall. intros f Hf. unfold soup_faces in Hf.
    apply in_map_iff in Hf. destruct Hf as (i & <- & Hi). apply in_seq in Hi. unfold face_ok.
    apply andb_true_iff. split; [apply andb_true_iff; split|]; apply Nat.ltb_lt; lia.
Qed.

(** THEOREM obj_roundtrip: the decoder as called (DeduplicateAttributeValues, DeduplicatePointIds composed through C14) *)
Theorem obj_roundtrip m fs : obj_ok m fs ->
  (forall x, In x (obj_numbers m) -> parse (fmt x) = Some (rt x)) ->
  exists ls, obj_write fmt m = Some ls /\
    obj_decode_raw parse true ls = Ok (obj_raw m fs true) /\
    exists g, obj_decode parse true ls = Ok g /\
      geom g = map (oface m) fs /\ length (g_faces g) = length fs /\
      wf_geo g = true /\ NoDup (keys (g_atts g) (seq 0 (g_np g))).
Proof.
  intros Hok ORA. destruct (obj_raw_roundtrip m fs Hok ORA) as (ls & Hls & RAW). exists ls. split; [exact Hls|].
  split; [apply RAW|]. unfold obj_decode. rewrite RAW. cbn [rbind].
  pose proof (obj_raw_wf m fs true Hok) as W0. rewrite W0.
  set (g0 := obj_raw m fs true) in *.
  destruct (dav_preserves g0 W0) as (G1 & _ & _). pose proof (dav_wf g0 W0) as W1.
  set (g1 := fst (dedup_attribute_values g0)) in *.
  destruct (dedup_points_preserves g1 W1) as (G2 & _).
  eexists. split; [reflexivity|]. split; [rewrite G2, G1; unfold g0; apply obj_raw_geom; exact Hok|].
  split; [|split; [apply dpi_wf; exact W1|apply dedup_points_nodup; exact W1]].
  assert (L : length (geom (dedup_point_ids g1)) = length fs) by (rewrite G2, G1; unfold g0; rewrite obj_raw_geom by exact Hok; apply map_length).
  unfold geom in L. rewrite map_length in L. exact L.
Qed.
End ObjRT.

(* ------------------------------------------------------------- the oracle instantiated by "parse (print x) = x" *)
Lemma chunks4_exact k : forall v, length v = (4 * k)%nat -> length (chunks4 v) = k /\ concat (chunks4 v) = v.
Proof.
  induction k as [|k IH]; intros v Hv.
  - destruct v; [split; reflexivity|cbn in Hv; lia].
  - destruct v as [|b0 [|b1 [|b2 [|b3 v]]]]; cbn [length] in Hv; try lia.
    destruct (IH v ltac:(lia)) as [L C]. cbn [chunks4 length concat app]. rewrite L, C. split; reflexivity.
Qed.

Lemma rtv_id k v : length v = (4 * k)%nat -> rtv (fun x => x) k v = v.
Proof.
  intros Hv. destruct (chunks4_exact k v Hv) as [L C]. unfold rtv, comps.
  rewrite firstn_all2 by lia. rewrite L, Nat.sub_diag. cbn [repeat]. rewrite app_nil_r, map_id. exact C.
Qed.

Definition sized (k : nat) (a : attr) : Prop := Forall (fun v => length v = (4 * k)%nat) (a_vals a).
Definition obj_sized (m : obj_in) : Prop :=
  sized 3 (oi_pos m) /\ (forall a, obj_tex m = Some a -> sized 2 a) /\ (forall a, obj_nrm m = Some a -> sized 3 a).
Definition obj_in_atts (m : obj_in) : list attr :=
  [oi_pos m] ++ match obj_tex m with Some a => [a] | None => [] end ++ match obj_nrm m with Some a => [a] | None => [] end.

Lemma sized_value np k a p : attr_ok np a -> sized k a -> (p < np)%nat -> length (att_value a p) = (4 * k)%nat.
Proof.
  intros Ha S Hp. destruct (attr_idx np a p Ha Hp) as [B _]. unfold att_value. unfold sized in S. rewrite Forall_forall in S.
  apply S. apply nth_In. exact B.
Qed.

(** COROLLARY: when the number text is read back to the very float that was printed, the decoded mesh describes
    exactly the input mesh: same faces in the same order, per corner bit-identical position / tex-coord / normal *)
Theorem obj_roundtrip_exact fmt parse m fs : obj_ok m fs -> obj_sized m ->
  (forall x, In x (obj_numbers m) -> parse (fmt x) = Some x) ->
  exists ls, obj_write fmt m = Some ls /\
    exists g, obj_decode parse true ls = Ok g /\
      geom g = geom (mkGeo (oi_np m) (obj_in_atts m) fs) /\ length (g_faces g) = length fs /\
      wf_geo g = true /\ NoDup (keys (g_atts g) (seq 0 (g_np g))).
Proof.
  intros Hok (SP & ST & SN) ORA. destruct (obj_roundtrip fmt parse (fun x => x) m fs Hok ORA) as (ls & Hls & _ & g & Hg & G & L & W & ND).
  exists ls. split; [exact Hls|]. exists g. split; [exact Hg|]. split; [|auto].
  rewrite G. unfold geom. cbn [g_atts g_faces]. apply map_ext_in. intros [[a b] c] Hin.
  destruct Hok as (_ & _ & _ & Hp & Ht & Hn & Hfs). rewrite forallb_forall in Hfs. specialize (Hfs _ Hin).
  apply face_ok_lt in Hfs. destruct Hfs as (Ha & Hb & Hc).
  assert (T : forall p, (p < oi_np m)%nat -> otuple (fun x => x) m p = point_tuple (obj_in_atts m) p).
  { intros p Hp'. unfold otuple, obj_in_atts, point_tuple. rewrite !map_app. cbn [map].
    rewrite rtv_id by (apply (sized_value (oi_np m)); assumption). f_equal. f_equal.
    - destruct (obj_tex m) as [x|] eqn:E; [|reflexivity]. cbn [map]. rewrite rtv_id; [reflexivity|].
      apply (sized_value (oi_np m)); [|apply ST; reflexivity|exact Hp']. apply Ht. apply eff_att_some in E. apply E.
    - destruct (obj_nrm m) as [x|] eqn:E; [|reflexivity]. cbn [map]. rewrite rtv_id; [reflexivity|].
      apply (sized_value (oi_np m)); [|apply SN; reflexivity|exact Hp']. apply Hn. apply eff_att_some in E. apply E. }
  unfold oface, face_geom. rewrite !T by assumption. reflexivity.
Qed.
