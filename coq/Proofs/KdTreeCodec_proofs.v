(** Proofs for the attribute layer and the whole stream of the kd-tree codec (Model/KdTree.v, second half):
    the signed-minimum transform, the parameter blocks, the cut of decoded rows into attributes, and the two
    compositions kd_attributes_roundtrip and kd_pc_roundtrips. *)
From Coq Require Import ZifyBool Permutation.
From Draco Require Import Base.Codec Base.Bits Base.Float32 Gen.Constants Model.Varint Model.Ans Model.BitCoders Model.Quantize
  Model.SeqAttr Model.SeqCodec Model.KdTree
  Proofs.Varint_proofs Proofs.BitCoders_proofs Proofs.Quantize_proofs Proofs.SeqCodec_proofs Proofs.KdTree_proofs.
Local Open Scope Z_scope.

(** * list helpers *)
Lemma Forall2_nth_intro {A B} (P : A -> B -> Prop) da db : forall l l', length l = length l' ->
  (forall c, (c < length l)%nat -> P (nth c l da) (nth c l' db)) -> Forall2 P l l'.
Proof.
  induction l as [|a l IH]; intros [|b l'] Hl H; try (cbn in Hl; lia); constructor.
  - apply (H 0%nat). cbn; lia.
  - apply IH; [cbn in Hl; lia|]. intros c Hc. apply (H (S c)). cbn; lia.
Qed.
Lemma Forall2_nth_elim {A B} (P : A -> B -> Prop) da db l l' : Forall2 P l l' ->
  forall c, (c < length l)%nat -> P (nth c l da) (nth c l' db).
Proof. induction 1 as [|a b l l' Hab _ IH]; intros c Hc; [cbn in Hc; lia|]. destruct c; [exact Hab|]. apply IH. cbn in Hc; lia. Qed.
Lemma map2_length {A B C} (f : A -> B -> C) : forall a b, length a = length b -> length (map2 f a b) = length a.
Proof. induction a as [|x a IH]; intros [|y b] H; cbn in *; try lia. rewrite IH; lia. Qed.
Lemma map2_nth {A B C} (f : A -> B -> C) da db dc : forall a b c, length a = length b -> (c < length a)%nat ->
  nth c (map2 f a b) dc = f (nth c a da) (nth c b db).
Proof.
  induction a as [|x a IH]; intros [|y b] c H Hc; cbn in *; try lia. destruct c; [reflexivity|]. apply IH; lia.
Qed.
Lemma map2_Forall2 {A B C} (f : A -> B -> C) (P : C -> A -> Prop) (Q : C -> B -> Prop) : forall a b, length a = length b ->
  (forall x y, P (f x y) x /\ Q (f x y) y) -> Forall2 P (map2 f a b) a /\ Forall2 Q (map2 f a b) b.
Proof.
  induction a as [|x a IH]; intros [|y b] H Hf; cbn in *; try lia; [split; constructor|].
  destruct (IH b ltac:(lia) Hf) as (H1 & H2). destruct (Hf x y). split; constructor; assumption.
Qed.
Lemma Forall2_trans_le l1 l2 l3 : Forall2 Z.le l1 l2 -> Forall2 Z.le l2 l3 -> Forall2 Z.le l1 l3.
Proof. intros H. revert l3. induction H; intros l3 H3; inversion H3; subst; constructor; [lia|auto]. Qed.
Lemma map2_pick {A} (P : A -> Prop) (f : A -> A -> A) : (forall x y, f x y = x \/ f x y = y) ->
  forall a b, Forall P a -> Forall P b -> Forall P (map2 f a b).
Proof.
  intros Hf. induction a as [|x a IH]; intros [|y b] Ha Hb; cbn; try constructor.
  - inversion Ha; inversion Hb; subst. destruct (Hf x y) as [-> | ->]; assumption.
  - inversion Ha; inversion Hb; subst. apply IH; assumption.
Qed.

(** * per-component minimum / maximum *)
Lemma col_min_spec nc : forall rows mins, length mins = nc -> Forall (fun r => length r = nc) rows ->
  length (col_min mins rows) = nc /\ Forall2 Z.le (col_min mins rows) mins /\
  Forall (fun row => Forall2 Z.le (col_min mins rows) row) rows.
Proof.
  induction rows as [|r rows IH]; intros mins Hm Hr; cbn [col_min].
  - split; [exact Hm|]. split; [|constructor]. apply (Forall2_nth_intro _ 0 0); [reflexivity|]. intros; lia.
  - inversion Hr as [|? ? Hr0 Hr']; subst.
    set (m' := map2 (fun m v => if m >? v then v else m) mins r).
    assert (Hl': length m' = length mins) by (apply map2_length; lia).
    destruct (map2_Forall2 (fun m v => if m >? v then v else m) Z.le Z.le mins r ltac:(lia)) as (A1 & A2).
    { intros x y. destruct (x >? y) eqn:E; lia. }
    destruct (IH m' ltac:(lia) Hr') as (L & B1 & B2). split; [exact L|]. split.
    + eapply Forall2_trans_le; [exact B1|exact A1].
    + constructor; [eapply Forall2_trans_le; [exact B1|exact A2]|exact B2].
Qed.
Lemma col_max_spec nc : forall rows maxs, length maxs = nc -> Forall (fun r => length r = nc) rows ->
  length (col_max maxs rows) = nc /\ Forall2 Z.le maxs (col_max maxs rows) /\
  Forall (fun row => Forall2 Z.le row (col_max maxs rows)) rows.
Proof.
  induction rows as [|r rows IH]; intros maxs Hm Hr; cbn [col_max].
  - split; [exact Hm|]. split; [|constructor]. apply (Forall2_nth_intro _ 0 0); [reflexivity|]. intros; lia.
  - inversion Hr as [|? ? Hr0 Hr']; subst.
    set (m' := map2 (fun m v => if m <? v then v else m) maxs r).
    assert (Hl': length m' = length maxs) by (apply map2_length; lia).
    destruct (map2_Forall2 (fun m v => if m <? v then v else m) (fun c a => a <= c) (fun c b => b <= c) maxs r ltac:(lia)) as (A1 & A2).
    { intros x y. destruct (x <? y) eqn:E; lia. }
    destruct (IH m' ltac:(lia) Hr') as (L & B1 & B2). split; [exact L|].
    assert (T: forall l, Forall2 (fun c a => a <= c) m' l -> Forall2 Z.le l (col_max m' rows)).
    { intros l Hl. eapply Forall2_trans_le; [|exact B1]. clear -Hl. induction Hl; constructor; assumption. }
    split; [apply T; exact A1|]. constructor; [apply T; exact A2|exact B2].
Qed.
Lemma col_min_pick (P : Z -> Prop) : forall rows mins, Forall P mins -> Forall (Forall P) rows -> Forall P (col_min mins rows).
Proof.
  induction rows as [|r rows IH]; intros mins Hm Hr; cbn [col_min]; [exact Hm|].
  inversion Hr; subst. apply IH; [|assumption]. apply map2_pick; [|assumption|assumption].
  intros x y. destruct (x >? y); auto.
Qed.

(** * well-formed input attributes *)
Definition kd_nc (a : kd_att) : nat := Z.to_nat (ad_nc (k_desc a)).
Definition kd_sw (d : att_desc) : Z := if ad_dt d =? DT_FLOAT32_ then 4 else dt_len (ad_dt d).
(** [np] rows of [nc] component bit patterns of the attribute's data type; explicit origins one per component *)
Definition kd_att_ok (np : nat) (a : kd_att) : Prop :=
  kd_desc_ok (k_desc a) /\ length (k_rows a) = np /\
  Forall (fun r => length r = kd_nc a /\ Forall (fun v => 0 <= v < 2 ^ (8 * dt_len (ad_dt (k_desc a)))) r) (k_rows a) /\
  match k_explicit a with Some (org, _) => length org = kd_nc a | None => True end.

Definition qp_of (a : kd_att) : option qparams := if ad_dt (k_desc a) =? DT_FLOAT32_ then kd_quant_params a else None.
Definition mins_of (a : kd_att) : list Z := if kd_dt_signed (ad_dt (k_desc a)) then kd_min_signed a else [].
(** what the decoder is expected to return for the attribute, in the ORIGINAL point order *)
Definition kd_expected_rows (a : kd_att) : list (list Z) :=
  if ad_dt (k_desc a) =? DT_FLOAT32_ then
    match kd_quant_params a, kd_portable a with
    | Some p, Some words => match kd_inverse_transform p words with Ok fr => map (map bits_of_f32) fr | _ => [] end
    | _, _ => []
    end
  else k_rows a.

Lemma kd_quant_params_ok np a p : kd_att_ok np a -> kd_quant_params a = Some p ->
  quantization_valid (qp_bits p) = true /\ length (qp_min p) = kd_nc a.
Proof.
  intros (_ & _ & Hrows & Hex) H. unfold kd_quant_params in H. destruct (k_q a <? 1); [discriminate|].
  destruct (k_explicit a) as [[org rg]|].
  - unfold set_parameters in H. destruct (quantization_valid (k_q a)) eqn:V; [|discriminate]. injection H as <-.
    cbn [qp_bits qp_min]. rewrite map_length. split; [exact V|exact Hex].
  - unfold compute_parameters in H. destruct (quantization_valid (k_q a)) eqn:V; [|discriminate].
    destruct (map (map f32_of_bits) (k_rows a)) as [|r0 rest] eqn:Er; [discriminate|].
    destruct (scan_rows r0 r0 rest) as [[mins maxs]| |] eqn:Es; cbn [rbind] in H; try discriminate.
    destruct (range_of f_zero mins maxs) as [range| |]; cbn [rbind] in H; try discriminate.
    injection H as <-. cbn [qp_bits qp_min]. split; [exact V|].
    assert (HF : Forall (fun r => length r = kd_nc a) (r0 :: rest)).
    { rewrite <- Er. apply Forall_forall. intros r Hr. apply in_map_iff in Hr. destruct Hr as (r' & <- & Hr').
      rewrite map_length. apply (proj1 (Forall_forall _ _) Hrows r' Hr'). }
    inversion HF; subst. eapply scan_rows_len; eauto.
Qed.

(** * signed attributes *)
Lemma existsb_combine_false (f : Z * Z -> bool) : forall l l', length l = length l' ->
  existsb f (combine l l') = false -> Forall2 (fun x y => f (x, y) = false) l l'.
Proof.
  induction l as [|x l IH]; intros [|y l'] Hl H; cbn in *; try lia; constructor.
  - apply orb_false_iff in H. tauto.
  - apply IH; [lia|]. apply orb_false_iff in H. tauto.
Qed.
Lemma dt_len_signed dt : kd_dt_signed dt = true -> dt_len dt = 4 \/ dt_len dt = 2 \/ dt_len dt = 1.
Proof.
  unfold kd_dt_signed. intros H. assert (Hdt: dt = DT_INT32_ \/ dt = DT_INT16_ \/ dt = DT_INT8_) by lia.
  destruct Hdt as [-> | [-> | ->]]; vm_compute; auto.
Qed.
Lemma signed_value_range dt v : kd_dt_signed dt = true -> 0 <= v < 2 ^ (8 * dt_len dt) ->
  - 2 ^ (8 * dt_len dt - 1) <= kd_signed_value dt v < 2 ^ (8 * dt_len dt - 1).
Proof.
  intros Hs Hv. pose proof (dt_len_signed dt Hs) as Hl. unfold kd_signed_value. set (w := 8 * dt_len dt) in *.
  assert (Hp: 2 ^ w = 2 * 2 ^ (w - 1)) by (replace w with (Z.succ (w - 1)) at 1 by lia; rewrite Z.pow_succ_r by lia; reflexivity).
  assert (0 < 2 ^ (w - 1)) by (apply Z.pow_pos_nonneg; lia).
  destruct (v <? 2 ^ (w - 1)) eqn:E; lia.
Qed.

Lemma signed_facts np a : kd_att_ok np a -> kd_dt_signed (ad_dt (k_desc a)) = true -> kd_span_too_large a = false ->
  let dt := ad_dt (k_desc a) in
  length (kd_min_signed a) = kd_nc a /\ Forall (fun m => - 2 ^ 31 <= m < 2 ^ 31) (kd_min_signed a) /\
  Forall (fun row => Forall2 (fun v m => 0 <= v < 2 ^ (8 * dt_len dt) /\
             - 2 ^ 31 <= m <= kd_signed_value dt v /\ kd_signed_value dt v - m < 2 ^ 31 /\
             kd_signed_value dt v - m < 2 ^ (8 * dt_len dt)) row (kd_min_signed a)) (k_rows a).
Proof.
  intros (_ & _ & Hrows & _) Hs Hg dt. fold dt in Hs.
  pose proof (dt_len_signed dt Hs) as Hlen. set (w := 8 * dt_len dt) in *.
  assert (Hp: 2 ^ w = 2 * 2 ^ (w - 1)) by (replace w with (Z.succ (w - 1)) at 1 by lia; rewrite Z.pow_succ_r by lia; reflexivity).
  assert (Hp0: 0 < 2 ^ (w - 1)) by (apply Z.pow_pos_nonneg; lia).
  assert (H31: 2 ^ (w - 1) <= 2 ^ 31) by (apply Z.pow_le_mono_r; lia).
  set (sv := kd_signed_value dt). set (srows := map (map sv) (k_rows a)).
  assert (Hw: Forall (fun r => length r = kd_nc a) srows).
  { apply Forall_forall. intros r Hr. apply in_map_iff in Hr. destruct Hr as (r' & <- & Hr'). rewrite map_length.
    apply (proj1 (Forall_forall _ _) Hrows r' Hr'). }
  assert (Hsr: Forall (Forall (fun x => - 2 ^ (w - 1) <= x < 2 ^ 31)) srows).
  { apply Forall_forall. intros r Hr. apply in_map_iff in Hr. destruct Hr as (r' & <- & Hr').
    apply Forall_forall. intros x Hx. apply in_map_iff in Hx. destruct Hx as (v & <- & Hv).
    destruct (proj1 (Forall_forall _ _) Hrows r' Hr') as (_ & Hvals).
    pose proof (signed_value_range dt v Hs (proj1 (Forall_forall _ _) Hvals v Hv)). fold w in H. unfold sv. lia. }
  unfold kd_min_signed, kd_max_signed, kd_span_too_large in *. fold dt sv srows in Hg |- *. fold (kd_nc a) in Hg |- *.
  set (mins := col_min (repeat (2 ^ 31 - 1) (kd_nc a)) srows) in *.
  set (maxs := col_max (repeat (- 2 ^ 31) (kd_nc a)) srows) in *.
  destruct (col_min_spec (kd_nc a) srows (repeat (2 ^ 31 - 1) (kd_nc a)) (repeat_length _ _) Hw) as (Lm & _ & Hmin).
  destruct (col_max_spec (kd_nc a) srows (repeat (- 2 ^ 31) (kd_nc a)) (repeat_length _ _) Hw) as (LM & _ & Hmax).
  fold mins in Lm, Hmin. fold maxs in LM, Hmax.
  assert (Hpick: Forall (fun x => - 2 ^ (w - 1) <= x < 2 ^ 31) mins).
  { apply col_min_pick; [|exact Hsr]. apply Forall_forall. intros x Hx. apply repeat_spec in Hx. subst x. lia. }
  assert (Hlm: length maxs = length mins) by lia.
  pose proof (existsb_combine_false _ maxs mins Hlm Hg) as Hspan. cbn [fst snd] in Hspan.
  split; [exact Lm|]. split; [eapply Forall_impl; [|exact Hpick]; cbv beta; intros; lia|].
  apply Forall_forall. intros row Hrow.
  destruct (proj1 (Forall_forall _ _) Hrows row Hrow) as (Hrl & Hvals).
  assert (Hin: In (map sv row) srows) by (apply in_map; exact Hrow).
  pose proof (proj1 (Forall_forall _ _) Hmin _ Hin) as Hle. pose proof (proj1 (Forall_forall _ _) Hmax _ Hin) as Hge.
  apply (Forall2_nth_intro _ 0 0); [lia|]. intros c Hc.
  pose proof (Forall2_nth_elim _ 0 (sv 0) _ _ Hle c ltac:(lia)) as H1. rewrite map_nth in H1.
  pose proof (Forall2_nth_elim _ (sv 0) 0 _ _ Hge c ltac:(rewrite map_length; lia)) as H2. rewrite map_nth in H2.
  pose proof (Forall2_nth_elim _ 0 0 _ _ Hspan c ltac:(lia)) as H3. cbv beta in H3.
  pose proof (proj1 (Forall_forall _ _) Hpick (nth c mins 0) ltac:(apply nth_In; lia)) as H4.
  pose proof (proj1 (Forall_forall _ _) Hvals (nth c row 0) ltac:(apply nth_In; lia)) as H5.
  pose proof (signed_value_range dt _ Hs H5) as H6. fold w sv in H6. fold sv.
  cbv beta in H4. split; [exact H5|]. lia.
Qed.

Lemma back_row dt : kd_dt_signed dt = true -> forall row mins,
  Forall2 (fun v m => 0 <= v < 2 ^ (8 * dt_len dt) /\ - 2 ^ 31 <= m <= kd_signed_value dt v /\
                      kd_signed_value dt v - m < 2 ^ 31 /\ kd_signed_value dt v - m < 2 ^ (8 * dt_len dt)) row mins ->
  kmap2 (kd_back_signed dt) (map (fun x => x mod 2 ^ (8 * dt_len dt)) (map2 (fun v m => (kd_signed_value dt v - m) mod 2 ^ 32) row mins)) mins
    = KOk row.
Proof.
  intros Hs row mins H. induction H as [|v m row mins (Hv & Hm & H31 & Hw) _ IH]; [reflexivity|].
  cbn [map2 map kmap2]. rewrite (kd_back_signed_roundtrip dt v m Hs Hv Hm H31 Hw), IH. reflexivity.
Qed.

Definition sel {A} (J : list nat) (c : list (list A)) : list (list A) := map (fun j => nth j c []) J.
Definition trunc_row (d : att_desc) (r : list Z) : list Z := map (fun v => v mod 2 ^ (8 * kd_sw d)) r.

Lemma dt_cases dt : (kd_dt_unsigned dt = true /\ kd_dt_signed dt = false /\ (dt =? DT_FLOAT32_) = false) \/
                    (kd_dt_unsigned dt = false /\ kd_dt_signed dt = true /\ (dt =? DT_FLOAT32_) = false) \/
                    (kd_dt_unsigned dt = false /\ kd_dt_signed dt = false /\ (dt =? DT_FLOAT32_) = true) \/
                    (kd_dt_unsigned dt = false /\ kd_dt_signed dt = false /\ (dt =? DT_FLOAT32_) = false).
Proof. unfold kd_dt_unsigned, kd_dt_signed, DT_UINT32_, DT_UINT16_, DT_UINT8_, DT_INT32_, DT_INT16_, DT_INT8_, DT_FLOAT32_. lia. Qed.

(** shape of the portable column of an attribute *)
Lemma col_shape np a c : kd_att_ok np a -> kd_portable a = Some c ->
  length c = np /\ Forall (fun r => length r = kd_nc a /\ Forall (fun v => 0 <= v < 2 ^ 32) r) c.
Proof.
  intros Hok Hp. pose proof Hok as (Hd & Hlen & Hrows & Hex). unfold kd_portable in Hp. cbv zeta in Hp.
  destruct (dt_cases (ad_dt (k_desc a))) as [(E1 & E2 & E3)|[(E1 & E2 & E3)|[(E1 & E2 & E3)|(E1 & E2 & E3)]]];
    rewrite E1 in Hp; try rewrite E2 in Hp; try rewrite E3 in Hp; try discriminate.
  - injection Hp as <-. split; [exact Hlen|]. eapply Forall_impl; [|exact Hrows]. cbv beta. intros r (Hl & Hv). split; [exact Hl|].
    eapply Forall_impl; [|exact Hv]. cbv beta. intros v Hvv.
    assert (2 ^ (8 * dt_len (ad_dt (k_desc a))) <= 2 ^ 32).
    { apply Z.pow_le_mono_r; [lia|]. unfold kd_dt_unsigned in E1.
      assert (Hdt: ad_dt (k_desc a) = DT_UINT32_ \/ ad_dt (k_desc a) = DT_UINT16_ \/ ad_dt (k_desc a) = DT_UINT8_) by lia.
      destruct Hdt as [-> | [-> | ->]]; vm_compute; discriminate. }
    lia.
  - destruct (kd_span_too_large a) eqn:Eg; [discriminate|]. injection Hp as <-.
    destruct (signed_facts np a Hok E2 Eg) as (Lm & _ & _).
    split; [rewrite map_length; exact Hlen|]. apply Forall_forall. intros r Hr. apply in_map_iff in Hr. destruct Hr as (row & <- & Hrow).
    destruct (proj1 (Forall_forall _ _) Hrows row Hrow) as (Hl & _). split; [rewrite map2_length; lia|].
    clear. generalize (kd_min_signed a). induction row as [|v row IH]; intros [|m mins]; cbn [map2]; try constructor.
    + apply Z.mod_pos_bound. lia.
    + apply IH.
  - destruct (kd_quant_params a) as [p|] eqn:Ep; [|discriminate].
    destruct (generate_portable p (map (map f32_of_bits) (k_rows a))) as [w| |] eqn:Eg; try discriminate. injection Hp as <-.
    pose proof (generate_portable_shape _ _ _ Eg) as Hs. pose proof (Forall2_len _ _ _ Hs) as Hl2. rewrite map_length in Hl2.
    split; [lia|]. apply Forall_forall. intros r Hr.
    destruct (In_nth _ _ [] Hr) as (i & Hi & <-).
    pose proof (Forall2_nth_elim _ [] [] _ _ Hs i ltac:(rewrite map_length; lia)) as (H1 & _ & H3). cbv beta in H1.
    split; [|exact H3]. rewrite H1. change [] with (map f32_of_bits []) at 1. rewrite map_nth, map_length.
    apply (proj1 (Forall_forall _ _) Hrows). apply nth_In. lia.
Qed.

Lemma kmap_all {A B I} (f : A -> kres B) (g : I -> A) (h : I -> B) : forall J, (forall j, In j J -> f (g j) = KOk (h j)) ->
  kmap f (map g J) = KOk (map h J).
Proof.
  induction J as [|j J IH]; intros H; [reflexivity|]. cbn [map kmap]. rewrite (H j (or_introl eq_refl)), IH; [reflexivity|].
  intros x Hx. apply H. right; exact Hx.
Qed.
Lemma trunc_noop d r : Forall (fun v => 0 <= v < 2 ^ (8 * kd_sw d)) r -> trunc_row d r = r.
Proof. unfold trunc_row. induction 1 as [|v r Hv _ IH]; [reflexivity|]. cbn [map]. rewrite IH, Z.mod_small by lia. reflexivity. Qed.

Lemma rmap_select {A B} (f : list A -> res (list B)) l l' : rmap f l = Ok l' -> f [] = Ok [] ->
  forall J, rmap f (sel J l) = Ok (sel J l').
Proof.
  intros H Hnil. destruct (rmap_nth f l l' H) as (Hlen & Hn). induction J as [|j J IH]; [reflexivity|].
  unfold sel in *. cbn [map rmap]. rewrite IH. cbn [rbind].
  destruct (nth_error l j) as [a|] eqn:E.
  - destruct (Hn j a E) as (b & Hb & Hf). rewrite (nth_error_nth _ _ [] E), (nth_error_nth _ _ [] Hb), Hf. reflexivity.
  - apply nth_error_None in E. rewrite !nth_overflow by lia. rewrite Hnil. reflexivity.
Qed.

(** ** TransformAttributesToOriginalFormat for one attribute, on ANY selection [J] of the encoder's rows *)
Definition dec_of (J : list nat) (a : kd_att) : kd_dec_att :=
  {| kda_desc := k_desc a; kda_rows := sel J (kd_expected_rows a); kda_tdata := None |}.

Lemma finish_one np a c J : kd_att_ok np a -> kd_portable a = Some c -> Forall (fun j => (j < np)%nat) J ->
  kd_finish_att (fun _ => false) (k_desc a) (map (fun j => trunc_row (k_desc a) (nth j c [])) J) (qp_of a) (mins_of a) = KOk (dec_of J a).
Proof.
  intros Hok Hp HJ. pose proof Hok as (Hd & Hlen & Hrows & Hex). destruct (col_shape np a c Hok Hp) as (Hcl & Hcs).
  unfold kd_finish_att, dec_of, qp_of, mins_of, kd_expected_rows. cbv zeta. pose proof Hp as Hp0. unfold kd_portable in Hp. cbv zeta in Hp.
  destruct (dt_cases (ad_dt (k_desc a))) as [(E1 & E2 & E3)|[(E1 & E2 & E3)|[(E1 & E2 & E3)|(E1 & E2 & E3)]]];
    rewrite E1 in Hp; rewrite ?E2, ?E3 in Hp; rewrite ?E2, ?E3; try discriminate.
  - (* unsigned *) injection Hp as <-. f_equal. f_equal. unfold sel. apply map_ext_in. intros j Hj. apply trunc_noop.
    pose proof (proj1 (Forall_forall _ _) HJ j Hj) as Hjn; cbv beta in Hjn.
    destruct (proj1 (Forall_forall _ _) Hrows (nth j (k_rows a) []) ltac:(apply nth_In; lia)) as (_ & Hv).
    unfold kd_sw. rewrite E3. exact Hv.
  - (* signed *) destruct (kd_span_too_large a) eqn:Eg; [discriminate|]. injection Hp as <-.
    destruct (signed_facts np a Hok E2 Eg) as (Lm & _ & Hall).
    rewrite (kmap_all _ _ (fun j => nth j (k_rows a) []) J); [reflexivity|].
    intros j Hj. pose proof (proj1 (Forall_forall _ _) HJ j Hj) as Hjn; cbv beta in Hjn.
    set (f := fun row => map2 (fun v m => (kd_signed_value (ad_dt (k_desc a)) v - m) mod 2 ^ 32) row (kd_min_signed a)).
    change (@nil Z) with (f []) at 1. rewrite map_nth. unfold trunc_row, kd_sw. rewrite E3. unfold f.
    apply back_row; [exact E2|]. apply (proj1 (Forall_forall _ _) Hall). apply nth_In. lia.
  - (* float *) destruct (kd_quant_params a) as [p|] eqn:Ep; [|discriminate].
    destruct (generate_portable p (map (map f32_of_bits) (k_rows a))) as [w| |] eqn:Eg; try discriminate. injection Hp as <-.
    rewrite Hp0. destruct (kd_quant_params_ok np a p Hok Ep) as (V & Lq).
    destruct (inverse_transform_ok p _ _ V Eg) as (fr & Hinv & _). rewrite <- kd_inverse_eq_inverse in Hinv. rewrite Hinv.
    assert (Hrows': map (fun j => trunc_row (k_desc a) (nth j w [])) J = sel J w).
    { unfold sel. apply map_ext_in. intros j Hj. apply trunc_noop. pose proof (proj1 (Forall_forall _ _) HJ j Hj) as Hjn; cbv beta in Hjn.
      destruct (proj1 (Forall_forall _ _) Hcs (nth j w []) ltac:(apply nth_In; lia)) as (_ & Hv). unfold kd_sw. rewrite E3. exact Hv. }
    rewrite Hrows'. unfold kd_inverse_transform, inverse_with in Hinv |- *.
    destruct (inv_max_q (qp_bits p)) as [mq| |]; cbn [rbind] in Hinv |- *; try discriminate.
    destruct (dequantizer_init (qp_range p) mq) as [delta| |]; cbn [rbind] in Hinv |- *; try discriminate.
    rewrite (rmap_select _ _ _ Hinv eq_refl J). f_equal. f_equal. unfold sel. rewrite map_map. apply map_ext. intros j.
    change (@nil Z) with (map bits_of_f32 []) at 1. rewrite map_nth. reflexivity.
Qed.

(** * the point vector: row j is the concatenation of row j of every column *)
Definition zrow (cols : list (list (list Z))) (j : nat) : point := concat (map (fun c => nth j c []) cols).
Lemma zip_rows_zrow : forall n cols, zip_rows cols n = map (zrow cols) (seq 0 n).
Proof.
  induction n as [|n IH]; intros cols; [reflexivity|]. cbn [zip_rows seq map]. f_equal.
  - unfold zrow. f_equal. apply map_ext. intros [|r c]; reflexivity.
  - rewrite IH, <- seq_shift, map_map. apply map_ext. intros j. unfold zrow. rewrite map_map. f_equal. apply map_ext.
    intros [|r c]; [destruct j; reflexivity|reflexivity].
Qed.

(** the decoder's cut of the decoded rows into attributes, column by column *)
Fixpoint att_slices (ds : list att_desc) (pts : list point) : list (list (list Z)) :=
  match ds with
  | [] => []
  | d :: r => map (fun p => trunc_row d (firstn (Z.to_nat (ad_nc d)) p)) pts :: att_slices r (map (skipn (Z.to_nat (ad_nc d))) pts)
  end.
Lemma transpose_split : forall ds pts, transpose_atts (length ds) (map (split_row ds) pts) = att_slices ds pts.
Proof.
  induction ds as [|d r IH]; intros pts; [reflexivity|]. cbn [length transpose_atts att_slices]. f_equal.
  - rewrite map_map. apply map_ext. intros p. reflexivity.
  - rewrite map_map. rewrite <- IH, map_map. f_equal.
Qed.

Lemma att_slices_zrow np : forall atts cols J, Forall (kd_att_ok np) atts -> omap kd_portable atts = Some cols ->
  Forall (fun j => (j < np)%nat) J ->
  att_slices (map k_desc atts) (map (zrow cols) J) =
    map (fun ac => map (fun j => trunc_row (k_desc (fst ac)) (nth j (snd ac) [])) J) (combine atts cols).
Proof.
  induction atts as [|a atts IH]; intros cols J Hok Hc HJ; [reflexivity|].
  cbn [omap] in Hc. destruct (kd_portable a) as [c|] eqn:Ea; [|discriminate].
  destruct (omap kd_portable atts) as [cs|] eqn:Er; [|discriminate]. injection Hc as <-.
  inversion Hok as [|? ? Ha Hok']; subst. destruct (col_shape np a c Ha Ea) as (Hcl & Hcs).
  cbn [map att_slices combine fst snd]. f_equal.
  - rewrite map_map. apply map_ext_in. intros j Hj. pose proof (proj1 (Forall_forall _ _) HJ j Hj) as Hjn; cbv beta in Hjn.
    unfold zrow. cbn [map concat]. destruct (proj1 (Forall_forall _ _) Hcs (nth j c []) ltac:(apply nth_In; lia)) as (Hl & _).
    fold (kd_nc a). rewrite <- Hl, firstn_app_exact. reflexivity.
  - rewrite map_map. rewrite <- (IH cs J Hok' eq_refl HJ). f_equal. apply map_ext_in. intros j Hj.
    pose proof (proj1 (Forall_forall _ _) HJ j Hj) as Hjn; cbv beta in Hjn.
    unfold zrow. cbn [map concat]. destruct (proj1 (Forall_forall _ _) Hcs (nth j c []) ltac:(apply nth_In; lia)) as (Hl & _).
    fold (kd_nc a). rewrite <- Hl, skipn_app_exact. reflexivity.
Qed.

Lemma finish_all_ok np : forall atts cols J, Forall (kd_att_ok np) atts -> omap kd_portable atts = Some cols ->
  Forall (fun j => (j < np)%nat) J ->
  kd_finish_all (fun _ => false) (map k_desc atts)
     (map (fun ac => map (fun j => trunc_row (k_desc (fst ac)) (nth j (snd ac) [])) J) (combine atts cols))
     (map qp_of atts) (map mins_of atts) = KOk (map (dec_of J) atts).
Proof.
  induction atts as [|a atts IH]; intros cols J Hok Hc HJ; [reflexivity|].
  cbn [omap] in Hc. destruct (kd_portable a) as [c|] eqn:Ea; [|discriminate].
  destruct (omap kd_portable atts) as [cs|] eqn:Er; [|discriminate]. injection Hc as <-.
  inversion Hok as [|? ? Ha Hok']; subst.
  cbn [map combine fst snd kd_finish_all]. rewrite (finish_one np a c J Ha Ea HJ), (IH cs J Hok' eq_refl HJ). reflexivity.
Qed.

(** * the parameter blocks *)
Lemma dec_qparams_ok np : forall atts cols qd rest, Forall (kd_att_ok np) atts -> omap kd_portable atts = Some cols ->
  ocat kd_transform_data atts = Some qd ->
  kd_dec_qparams (map k_desc atts) (qd ++ rest) = Some (map qp_of atts, rest).
Proof.
  induction atts as [|a atts IH]; intros cols qd rest Hok Hc Hq.
  - cbn [ocat] in Hq. injection Hq as <-. reflexivity.
  - cbn [omap] in Hc. destruct (kd_portable a) as [c|] eqn:Ea; [|discriminate].
    destruct (omap kd_portable atts) as [cs|] eqn:Er; [|discriminate].
    inversion Hok as [|? ? Ha Hok']; subst.
    cbn [ocat] in Hq. destruct (kd_transform_data a) as [x|] eqn:Ex; [|discriminate].
    destruct (ocat kd_transform_data atts) as [y|] eqn:Ey; [|discriminate]. injection Hq as <-.
    cbn [map kd_dec_qparams]. unfold qp_of at 1. unfold kd_transform_data in Ex.
    destruct (ad_dt (k_desc a) =? DT_FLOAT32_) eqn:Ef.
    + destruct (kd_quant_params a) as [p|] eqn:Ep; [|discriminate].
      destruct (kd_quant_params_ok np a p Ha Ep) as (V & Lq).
      rewrite <- app_assoc, kd_decode_parameters_eq. fold (kd_nc a). rewrite <- Lq.
      rewrite (params_roundtrip p x (y ++ rest) V Ex), (IH cs y rest Hok' eq_refl eq_refl). reflexivity.
    + injection Ex as <-. cbn [app]. rewrite (IH cs y rest Hok' eq_refl eq_refl). reflexivity.
Qed.

Lemma dec_varints_ok : forall l x rest, Forall (fun m => - 2 ^ 31 <= m < 2 ^ 31) l -> ocat (enc_varint_s 32) l = Some x ->
  dec_varints_s (length l) (x ++ rest) = Some (l, rest).
Proof.
  induction l as [|m l IH]; intros x rest Hl Hx; cbn [ocat] in Hx.
  - injection Hx as <-. reflexivity.
  - inversion Hl as [|? ? Hm Hl']; subst. destruct (enc_varint_s 32 m) as [a|] eqn:Ea; [|discriminate].
    destruct (ocat (enc_varint_s 32) l) as [b|] eqn:Eb; [|discriminate]. injection Hx as <-.
    cbn [length dec_varints_s]. rewrite <- app_assoc.
    assert (Hdom: (fun v => - 2 ^ (32 - 1) <= v < 2 ^ (32 - 1)) m) by (cbv beta; change (32 - 1) with 31; lia).
    rewrite (varint_s_roundtrips 32 width32 m a (b ++ rest) Hdom Ea).
    rewrite (IH b rest Hl' eq_refl). reflexivity.
Qed.
Lemma dec_mins_ok np : forall atts cols md rest, Forall (kd_att_ok np) atts -> omap kd_portable atts = Some cols ->
  ocat kd_min_data atts = Some md ->
  kd_dec_mins (map k_desc atts) (md ++ rest) = Some (map mins_of atts, rest).
Proof.
  induction atts as [|a atts IH]; intros cols md rest Hok Hc Hm.
  - cbn [ocat] in Hm. injection Hm as <-. reflexivity.
  - cbn [omap] in Hc. destruct (kd_portable a) as [c|] eqn:Ea; [|discriminate].
    destruct (omap kd_portable atts) as [cs|] eqn:Er; [|discriminate].
    inversion Hok as [|? ? Ha Hok']; subst.
    cbn [ocat] in Hm. destruct (kd_min_data a) as [x|] eqn:Ex; [|discriminate].
    destruct (ocat kd_min_data atts) as [y|] eqn:Ey; [|discriminate]. injection Hm as <-.
    cbn [map kd_dec_mins]. unfold mins_of at 1. unfold kd_min_data in Ex.
    destruct (kd_dt_signed (ad_dt (k_desc a))) eqn:Es.
    + assert (Eg: kd_span_too_large a = false).
      { unfold kd_portable in Ea. cbv zeta in Ea. destruct (dt_cases (ad_dt (k_desc a))) as [(E1 & E2 & E3)|[(E1 & E2 & E3)|[(E1 & E2 & E3)|(E1 & E2 & E3)]]]; try congruence.
        rewrite E1, E2 in Ea. destruct (kd_span_too_large a); [discriminate|reflexivity]. }
      destruct (signed_facts np a Ha Es Eg) as (Lm & Hr & _).
      rewrite <- app_assoc. fold (kd_nc a). rewrite <- Lm, (dec_varints_ok _ x (y ++ rest) Hr Ex), (IH cs y rest Hok' eq_refl eq_refl). reflexivity.
    + injection Ex as <-. cbn [dec_varints_s app]. rewrite (IH cs y rest Hok' eq_refl eq_refl). reflexivity.
Qed.

Definition kd_ncomp (atts : list kd_att) : Z := fold_left (fun acc a => acc + ad_nc (k_desc a)) atts 0.
Lemma fold_ncomp : forall atts acc, fold_left (fun acc a => acc + ad_nc (k_desc a)) atts acc = acc + kd_ncomp atts.
Proof.
  unfold kd_ncomp. induction atts as [|a atts IH]; intros acc; cbn [fold_left]; [lia|]. rewrite IH, (IH (0 + _)). lia.
Qed.
Lemma ncomp_cons a atts : kd_ncomp (a :: atts) = ad_nc (k_desc a) + kd_ncomp atts.
Proof. unfold kd_ncomp at 1. cbn [fold_left]. rewrite fold_ncomp. lia. Qed.
Lemma ncomp_nonneg np atts : Forall (kd_att_ok np) atts -> 0 <= kd_ncomp atts /\ (atts <> [] -> 1 <= kd_ncomp atts).
Proof.
  induction 1 as [|a atts Ha _ IH]; [split; [reflexivity|congruence]|]. rewrite ncomp_cons.
  destruct Ha as ((_ & _ & Hnc & _) & _). split; [lia|intros _; lia].
Qed.

Lemma zrow_shape np : forall atts cols j, Forall (kd_att_ok np) atts -> omap kd_portable atts = Some cols -> (j < np)%nat ->
  length (zrow cols j) = Z.to_nat (kd_ncomp atts) /\ Forall (fun v => 0 <= v < 2 ^ 32) (zrow cols j).
Proof.
  induction atts as [|a atts IH]; intros cols j Hok Hc Hj.
  - cbn [omap] in Hc. injection Hc as <-. split; [reflexivity|constructor].
  - cbn [omap] in Hc. destruct (kd_portable a) as [c|] eqn:Ea; [|discriminate].
    destruct (omap kd_portable atts) as [cs|] eqn:Er; [|discriminate]. injection Hc as <-.
    inversion Hok as [|? ? Ha Hok']; subst. destruct (col_shape np a c Ha Ea) as (Hcl & Hcs).
    destruct (IH cs j Hok' eq_refl Hj) as (L & V). destruct (ncomp_nonneg np atts Hok') as (Hn0 & _).
    destruct (proj1 (Forall_forall _ _) Hcs (nth j c []) ltac:(apply nth_In; lia)) as (Hl & Hv).
    unfold zrow in *. cbn [map concat]. split; [|apply Forall_app; split; assumption].
    rewrite app_length, L, Hl, ncomp_cons. unfold kd_nc. destruct Ha as ((_ & _ & Hnc & _) & _). lia.
Qed.

Lemma portable_supported : forall atts cols, omap kd_portable atts = Some cols ->
  forallb (fun d => kd_dt_unsigned (ad_dt d) || kd_dt_signed (ad_dt d) || (ad_dt d =? DT_FLOAT32_)) (map k_desc atts) = true.
Proof.
  induction atts as [|a atts IH]; intros cols Hc; [reflexivity|].
  cbn [omap] in Hc. destruct (kd_portable a) as [c|] eqn:Ea; [|discriminate].
  destruct (omap kd_portable atts) as [cs|] eqn:Er; [|discriminate].
  cbn [map forallb]. apply andb_true_iff. split; [|apply (IH cs eq_refl)]. cbv zeta. unfold kd_portable in Ea. cbv zeta in Ea.
  destruct (kd_dt_unsigned (ad_dt (k_desc a))); [reflexivity|]. destruct (kd_dt_signed (ad_dt (k_desc a))); [reflexivity|].
  destruct (ad_dt (k_desc a) =? DT_FLOAT32_); [reflexivity|discriminate].
Qed.

Lemma ncomp_descs : forall atts z, fold_left (fun acc d => acc + ad_nc d) (map k_desc atts) z = fold_left (fun acc a => acc + ad_nc (k_desc a)) atts z.
Proof. induction atts as [|a r IHr]; intros z; [reflexivity|]. cbn [map fold_left]. apply IHr. Qed.

(** * kd_attributes_roundtrip: KdTreeAttributesEncoder::EncodeAttributes then KdTreeAttributesDecoder::DecodeAttributes *)
Theorem kd_attributes_roundtrip part speed np atts body rest :
  part_ok part -> atts <> [] -> Forall (kd_att_ok np) atts -> Z.of_nat np < 2 ^ 32 ->
  (forall cols o ord, omap kd_portable atts = Some cols ->
     let pts := zip_rows cols np in
     enc_tree (level_sel (kd_level speed (kd_ncomp atts))) (Z.to_nat (kd_ncomp atts)) (kd_bit_length pts) part pts = Some (o, ord) -> ops_small o) ->
  kd_enc_attributes_with part speed np atts = Some body ->
  exists cols J, omap kd_portable atts = Some cols /\ Permutation (seq 0 np) J /\
    kd_dec_attributes (fun _ => false) 515 (Z.of_nat np) (map k_desc atts) (body ++ rest)
      = KOk (map (dec_of J) atts, map (zrow cols) J, rest).
Proof.
  intros Hpart Hne Hok Hnp Hsmall He.
  destruct (omap kd_portable atts) as [cols|] eqn:Ec; [|unfold kd_enc_attributes_with in He; rewrite Ec in He; discriminate].
  destruct (ncomp_nonneg np atts Hok) as (Hn0 & Hn1). specialize (Hn1 Hne).
  assert (Hshape: Forall (fun p => length p = Z.to_nat (kd_ncomp atts) /\ Forall (fun v => 0 <= v < 2 ^ 32) p) (zip_rows cols np)).
  { rewrite zip_rows_zrow. apply Forall_forall. intros p Hp. apply in_map_iff in Hp. destruct Hp as (j & <- & Hj).
    apply in_seq in Hj. apply (zrow_shape np atts cols j Hok Ec). lia. }
  destruct (kd_attributes_points_roundtrip part speed np atts body rest cols Hpart Ec ltac:(fold (kd_ncomp atts); lia) Hshape Hnp
              (fun o ord => Hsmall cols o ord eq_refl) He) as (tree & qd & md & out & Hbody & Hlv & Hq & Hm & Hdec & Hperm).
  fold (kd_ncomp atts) in Hbody, Hlv, Hdec.
  rewrite zip_rows_zrow in Hperm. destruct (Permutation_map_inv _ _ Hperm) as (J & Hout & HJ).
  assert (HJlt: Forall (fun j => (j < np)%nat) J).
  { apply Forall_forall. intros j Hj. apply (Permutation_in _ (Permutation_sym HJ)) in Hj. apply in_seq in Hj. lia. }
  exists cols, J. split; [reflexivity|]. split; [exact HJ|].
  rewrite Hbody. cbn [app]. unfold kd_dec_attributes. rewrite (portable_supported atts cols Ec).
  replace (kd_level speed (kd_ncomp atts) >? 6) with false by lia.
  assert (Hnc: fold_left (fun acc d => acc + ad_nc d) (map k_desc atts) 0 = kd_ncomp atts) by apply ncomp_descs.
  rewrite Hnc, <- !app_assoc, Hdec.
  assert (Hlen: length out = np). { rewrite Hout, map_length, <- (Permutation_length HJ), seq_length. reflexivity. }
  rewrite Hlen, Z.eqb_refl. cbn [negb].
  replace (length (map k_desc atts)) with (length (map k_desc atts)) by reflexivity.
  rewrite transpose_split, Hout, (att_slices_zrow np atts cols J Hok Ec HJlt).
  rewrite (dec_qparams_ok np atts cols qd (md ++ rest) Hok Ec Hq), (dec_mins_ok np atts cols md rest Hok Ec Hm).
  rewrite (finish_all_ok np atts cols J Hok Ec HJlt). reflexivity.
Qed.

(** the premise of the C17 theorems for the four bit sequences of the cloud's tree *)
Definition kd_streams_small part (speed : Z) (np : nat) (atts : list kd_att) : Prop :=
  forall cols o ord, omap kd_portable atts = Some cols ->
    let pts := zip_rows cols np in
    enc_tree (level_sel (kd_level speed (kd_ncomp atts))) (Z.to_nat (kd_ncomp atts)) (kd_bit_length pts) part pts = Some (o, ord) ->
    ops_small o.

(** * kd_pc_roundtrips: Encoder (POINT_CLOUD_KD_TREE_ENCODING) then Decoder::DecodePointCloudFromBuffer *)
Theorem kd_pc_roundtrips part speed np atts bs rest :
  part_ok part -> atts <> [] -> 0 <= np < 2 ^ 31 -> Z.of_nat (length atts) < 2 ^ 32 ->
  Forall (kd_att_ok (Z.to_nat np)) atts -> kd_streams_small part speed (Z.to_nat np) atts ->
  kd_enc_pc_with part speed np atts = Some bs ->
  exists cols J, omap kd_portable atts = Some cols /\ Permutation (seq 0 (Z.to_nat np)) J /\
    kd_dec_pc_stream (fun _ => false) (bs ++ rest) =
      KOk ({| kp_npoints := np; kp_atts := map (dec_of J) atts; kp_points := [map (zrow cols) J] |}, rest).
Proof.
  intros Hpart Hne Hnp Hna Hok Hsmall He.
  assert (Hdesc: Forall (fun a => kd_desc_ok (k_desc a)) atts) by (eapply Forall_impl; [|exact Hok]; intros a (H & _); exact H).
  destruct (kd_pc_framing_roundtrip part speed np atts bs rest Hne Hnp Hna Hdesc He) as
    (body & r0 & r2 & Hbody & Hhdr & Hver & Hv515 & Hle & Hblk).
  destruct (kd_attributes_roundtrip part speed (Z.to_nat np) atts body rest Hpart Hne Hok ltac:(lia) Hsmall Hbody) as
    (cols & J & Hc & HJ & Hdec).
  exists cols, J. split; [exact Hc|]. split; [exact HJ|].
  unfold kd_dec_pc_stream. rewrite Hhdr.
  change (h_type kd_header =? POINT_CLOUD_) with true. change (h_method kd_header =? POINT_CLOUD_KD_TREE_ENCODING_) with true.
  rewrite Hver, Hv515, Z.eqb_refl. cbn [negb].
  change (0 <? Z.land (h_flags kd_header) METADATA_FLAG_MASK_) with false. cbv iota.
  rewrite Hle. replace (np >=? 2 ^ 31) with false by lia.
  change (Z.to_nat 1) with 1%nat. rewrite Hblk. cbn [kd_dec_all].
  change kDracoPointCloudBitstreamVersion with 515. rewrite Z2Nat.id in Hdec by lia. rewrite Hdec. rewrite app_nil_r. reflexivity.
Qed.

Corollary kd_pc_roundtrips_std speed np atts bs rest :
  atts <> [] -> 0 <= np < 2 ^ 31 -> Z.of_nat (length atts) < 2 ^ 32 ->
  Forall (kd_att_ok (Z.to_nat np)) atts -> kd_streams_small (@std_partition point) speed (Z.to_nat np) atts ->
  kd_enc_pc speed np atts = Some bs ->
  exists cols J, omap kd_portable atts = Some cols /\ Permutation (seq 0 (Z.to_nat np)) J /\
    kd_dec_pc_stream (fun _ => false) (bs ++ rest) =
      KOk ({| kp_npoints := np; kp_atts := map (dec_of J) atts; kp_points := [map (zrow cols) J] |}, rest).
Proof. apply kd_pc_roundtrips. intros f l a b. apply std_partition_spec. Qed.

(** what [dec_of] says, attribute by attribute: descriptors unchanged, integer attributes bit-identical, float attributes
    = kd_inverse_transform of the quantized values, all read through the same index list [J] *)
Lemma dec_of_int J a : (ad_dt (k_desc a) =? DT_FLOAT32_) = false ->
  kda_rows (dec_of J a) = map (fun j => nth j (k_rows a) []) J.
Proof. intros H. unfold dec_of, kd_expected_rows, sel. cbn [kda_rows]. rewrite H. reflexivity. Qed.
Lemma dec_of_float J a p words fr : (ad_dt (k_desc a) =? DT_FLOAT32_) = true ->
  kd_quant_params a = Some p -> generate_portable p (map (map f32_of_bits) (k_rows a)) = Ok words ->
  kd_inverse_transform p words = Ok fr ->
  kda_rows (dec_of J a) = map (fun j => map bits_of_f32 (nth j fr [])) J.
Proof.
  intros H Hp Hg Hi. unfold dec_of, kd_expected_rows, sel. cbn [kda_rows]. rewrite H, Hp.
  assert (Hport: kd_portable a = Some words).
  { unfold kd_portable. cbv zeta. destruct (dt_cases (ad_dt (k_desc a))) as [(E1 & E2 & E3)|[(E1 & E2 & E3)|[(E1 & E2 & E3)|(E1 & E2 & E3)]]]; try congruence.
    rewrite E1, E2, E3, Hp, Hg. reflexivity. }
  rewrite Hport, Hi. apply map_ext. intros j. change (@nil Z) with (map bits_of_f32 []) at 1. rewrite map_nth. reflexivity.
Qed.

(** signed attributes, without any premise on the span: whatever signed column the encoder ACCEPTS (kd_portable = Some:
    the guard of fix e50b8ba passed) comes back bit-identical through the low-bytes cut and TransformAttributeBackToSignedType *)
Theorem kd_signed_attribute_roundtrip np a c : kd_att_ok np a -> kd_dt_signed (ad_dt (k_desc a)) = true ->
  kd_portable a = Some c ->
  forall j, (j < np)%nat ->
    kmap2 (kd_back_signed (ad_dt (k_desc a))) (trunc_row (k_desc a) (nth j c [])) (kd_min_signed a) = KOk (nth j (k_rows a) []).
Proof.
  intros Hok Hs Hp j Hj. pose proof Hok as (_ & Hlen & _ & _). unfold kd_portable in Hp. cbv zeta in Hp.
  destruct (dt_cases (ad_dt (k_desc a))) as [(E1 & E2 & E3)|[(E1 & E2 & E3)|[(E1 & E2 & E3)|(E1 & E2 & E3)]]]; try congruence.
  rewrite E1, E2 in Hp. destruct (kd_span_too_large a) eqn:Eg; [discriminate|]. injection Hp as <-.
  destruct (signed_facts np a Hok E2 Eg) as (_ & _ & Hall).
  set (f := fun row => map2 (fun v m => (kd_signed_value (ad_dt (k_desc a)) v - m) mod 2 ^ 32) row (kd_min_signed a)).
  change (@nil Z) with (f []) at 1. rewrite map_nth. unfold trunc_row, kd_sw. rewrite E3. unfold f.
  apply back_row; [exact E2|]. apply (proj1 (Forall_forall _ _) Hall). apply nth_In. lia.
Qed.

(** a cloud without attributes: header, number of points, zero attribute decoders *)
Theorem kd_pc_roundtrips_no_attributes part speed np bs rest : 0 <= np < 2 ^ 31 ->
  kd_enc_pc_with part speed np [] = Some bs ->
  kd_dec_pc_stream (fun _ => false) (bs ++ rest) = KOk ({| kp_npoints := np; kp_atts := []; kp_points := [] |}, rest).
Proof.
  intros Hnp He. unfold kd_enc_pc_with in He. cbv zeta in He.
  assert (Hbs: bs = (enc_header POINT_CLOUD_ POINT_CLOUD_KD_TREE_ENCODING_ false ++ enc_le 4 (np mod 2 ^ 32)) ++ [0]) by congruence.
  rewrite Hbs, <- !app_assoc. unfold kd_dec_pc_stream.
  change (dec_header (enc_header POINT_CLOUD_ POINT_CLOUD_KD_TREE_ENCODING_ false ++ enc_le 4 (np mod 2 ^ 32) ++ [0] ++ rest))
    with (@inl (option (header * bytes)) dstatus (Some (kd_header, enc_le 4 (np mod 2 ^ 32) ++ [0] ++ rest))).
  change (h_type kd_header =? POINT_CLOUD_) with true. change (h_method kd_header =? POINT_CLOUD_KD_TREE_ENCODING_) with true.
  change (version_ok kd_header) with true. change (h_maj kd_header * 256 + h_min kd_header =? kDracoPointCloudBitstreamVersion) with true.
  change (0 <? Z.land (h_flags kd_header) METADATA_FLAG_MASK_) with false. cbn [negb]. cbv iota.
  rewrite Z.mod_small by lia.
  rewrite (le_roundtrips 4 np _ ([0] ++ rest)); [| change (256 ^ Z.of_nat 4) with (2 ^ 32); lia | reflexivity].
  replace (np >=? 2 ^ 31) with false by lia. reflexivity.
Qed.

(** * skipping attribute transforms (C10 for the kd-tree decoder), on ARBITRARY streams *)
(** [das]: an attribute decoded with its transform skipped; [da]: the same attribute of the normal decode *)
Definition kd_skip_rel (das da : kd_dec_att) : Prop :=
  das = da \/
  exists p fr, kda_tdata das = Some p /\ kd_inverse_transform p (kda_rows das) = Ok fr /\
    kda_rows da = map (map bits_of_f32) fr /\ kda_tdata da = None /\
    ad_dt (kda_desc da) = DT_FLOAT32_ /\
    kda_desc das = {| ad_type := ad_type (kda_desc da); ad_dt := DT_UINT32_; ad_nc := ad_nc (kda_desc da); ad_norm := false;
                      ad_uid := ad_uid (kda_desc da) |}.

Lemma finish_att_skip skip d rows qp mins das da :
  kd_finish_att skip d rows qp mins = KOk das -> kd_finish_att (fun _ => false) d rows qp mins = KOk da -> kd_skip_rel das da.
Proof.
  unfold kd_finish_att. cbv zeta. destruct (kd_dt_signed (ad_dt d)).
  - intros H1 H2. left. congruence.
  - destruct (ad_dt d =? DT_FLOAT32_) eqn:Ef; [|intros H1 H2; left; congruence].
    destruct qp as [p|]; [|discriminate]. destruct (skip (ad_type d)).
    + intros H1 H2. injection H1 as <-. destruct (kd_inverse_transform p rows) as [fr| |] eqn:Ei; try discriminate.
      injection H2 as <-. right. exists p, fr. cbn [kda_tdata kda_rows kda_desc ad_type ad_nc ad_uid ad_dt].
      repeat split; try reflexivity; try assumption. lia.
    + intros H1 H2. left. congruence.
Qed.
Lemma finish_all_skip skip : forall ds rowss qps minss l1 l2,
  kd_finish_all skip ds rowss qps minss = KOk l1 -> kd_finish_all (fun _ => false) ds rowss qps minss = KOk l2 ->
  Forall2 kd_skip_rel l1 l2.
Proof.
  induction ds as [|d ds IH]; intros rowss qps minss l1 l2 H1 H2.
  - cbn in H1, H2. injection H1 as <-. injection H2 as <-. constructor.
  - destruct rowss as [|rows rowss]; [cbn in H1, H2; injection H1 as <-; injection H2 as <-; constructor|].
    destruct qps as [|qp qps]; [cbn in H1, H2; injection H1 as <-; injection H2 as <-; constructor|].
    destruct minss as [|mins minss]; [cbn in H1, H2; injection H1 as <-; injection H2 as <-; constructor|].
    cbn [kd_finish_all] in H1, H2.
    destruct (kd_finish_att skip d rows qp mins) as [a1| |] eqn:E1; try discriminate.
    destruct (kd_finish_all skip ds rowss qps minss) as [r1| |] eqn:F1; try discriminate.
    destruct (kd_finish_att (fun _ => false) d rows qp mins) as [a2| |] eqn:E2; try discriminate.
    destruct (kd_finish_all (fun _ => false) ds rowss qps minss) as [r2| |] eqn:F2; try discriminate.
    injection H1 as <-. injection H2 as <-. constructor; [eapply finish_att_skip; eassumption|eapply IH; eassumption].
Qed.

Lemma dec_attributes_skip skip ver np ds bs a1 p1 r1 a2 p2 r2 :
  kd_dec_attributes skip ver np ds bs = KOk (a1, p1, r1) -> kd_dec_attributes (fun _ => false) ver np ds bs = KOk (a2, p2, r2) ->
  p1 = p2 /\ r1 = r2 /\ Forall2 kd_skip_rel a1 a2.
Proof.
  unfold kd_dec_attributes. destruct bs as [|level r0]; [discriminate|].
  destruct (forallb _ ds); [|discriminate]. destruct (level >? 6); [discriminate|].
  destruct (kd_decode_points _ _ _ _ _) as [[pts r]|]; [|discriminate].
  destruct (negb _); [discriminate|]. destruct (kd_dec_qparams ds r) as [[qps rq]|]; [|discriminate].
  destruct (kd_dec_mins ds rq) as [[minss rm]|]; [|discriminate].
  destruct (kd_finish_all skip ds _ qps minss) as [l1| |] eqn:F1; try discriminate.
  destruct (kd_finish_all (fun _ => false) ds _ qps minss) as [l2| |] eqn:F2; try discriminate.
  intros H1 H2. injection H1 as <- <- <-. injection H2 as <- <- <-. split; [reflexivity|]. split; [reflexivity|].
  eapply finish_all_skip; eassumption.
Qed.
Lemma dec_all_skip skip ver np : forall dss bs a1 p1 r1 a2 p2 r2,
  kd_dec_all skip ver np dss bs = KOk (a1, p1, r1) -> kd_dec_all (fun _ => false) ver np dss bs = KOk (a2, p2, r2) ->
  p1 = p2 /\ r1 = r2 /\ Forall2 kd_skip_rel a1 a2.
Proof.
  induction dss as [|ds dss IH]; intros bs a1 p1 r1 a2 p2 r2 H1 H2; cbn [kd_dec_all] in H1, H2.
  - injection H1 as <- <- <-. injection H2 as <- <- <-. repeat split; constructor.
  - destruct (kd_dec_attributes skip ver np ds bs) as [[[x1 y1] z1]| |] eqn:E1; try discriminate.
    destruct (kd_dec_attributes (fun _ => false) ver np ds bs) as [[[x2 y2] z2]| |] eqn:E2; try discriminate.
    destruct (dec_attributes_skip _ _ _ _ _ _ _ _ _ _ _ E1 E2) as (-> & -> & Hx).
    destruct (kd_dec_all skip ver np dss z2) as [[[u1 v1] w1]| |] eqn:G1; try discriminate.
    destruct (kd_dec_all (fun _ => false) ver np dss z2) as [[[u2 v2] w2]| |] eqn:G2; try discriminate.
    destruct (IH _ _ _ _ _ _ _ G1 G2) as (-> & -> & Hu).
    injection H1 as <- <- <-. injection H2 as <- <- <-. split; [reflexivity|]. split; [reflexivity|]. apply Forall2_app; assumption.
Qed.

(** Decoding ANY byte string with SetSkipAttributeTransform for any set of attribute types and decoding it normally: when
    both succeed they consume the same bytes, report the same points, and the attributes are equal except the skipped
    quantized ones, which are the uint32 portable values carrying the parameters [p] (same type, components, unique id)
    whose dequantization kd_inverse_transform p is exactly the normal decode's float attribute. *)
Theorem kd_skip_consistent skip bs pcs rs pc r :
  kd_dec_pc_stream skip bs = KOk (pcs, rs) -> kd_dec_pc_stream (fun _ => false) bs = KOk (pc, r) ->
  rs = r /\ kp_npoints pcs = kp_npoints pc /\ kp_points pcs = kp_points pc /\ Forall2 kd_skip_rel (kp_atts pcs) (kp_atts pc).
Proof.
  unfold kd_dec_pc_stream. destruct (dec_header bs) as [[[h r0]|]|]; try discriminate.
  destruct (negb (h_type h =? POINT_CLOUD_)); [discriminate|]. destruct (negb (h_method h =? POINT_CLOUD_KD_TREE_ENCODING_)); [discriminate|].
  destruct (negb (version_ok h)); [discriminate|]. destruct (negb (_ =? kDracoPointCloudBitstreamVersion)); [discriminate|].
  destruct (0 <? Z.land (h_flags h) METADATA_FLAG_MASK_); [discriminate|].
  destruct (dec_le 4 r0) as [[npu r1]|]; [|discriminate]. destruct (npu >=? 2 ^ 31); [discriminate|].
  destruct r1 as [|nd r2]; [discriminate|]. destruct (dec_desc_blocks (Z.to_nat nd) r2) as [[dss r3]|]; [|discriminate].
  destruct (kd_dec_all skip _ npu dss r3) as [[[u1 v1] w1]| |] eqn:G1; try discriminate.
  destruct (kd_dec_all (fun _ => false) _ npu dss r3) as [[[u2 v2] w2]| |] eqn:G2; try discriminate.
  destruct (dec_all_skip _ _ _ _ _ _ _ _ _ _ _ G1 G2) as (-> & -> & Hu).
  intros H1 H2. injection H1 as <- <-. injection H2 as <- <-. cbn. repeat split; try reflexivity. exact Hu.
Qed.

(** a stream that decodes with transforms skipped also decodes normally: the parameters the decoder accepted always allow
    the dequantization *)
Lemma dec_le32s_length : forall n bs vs r, dec_le32s n bs = Some (vs, r) -> length vs = n.
Proof.
  induction n as [|n IH]; intros bs vs r H; cbn [dec_le32s] in H; [injection H as <- <-; reflexivity|].
  destruct bs as [|b0 [|b1 [|b2 [|b3 bs']]]]; try discriminate.
  destruct (dec_le32s n bs') as [[vs' r']|] eqn:E; [|discriminate]. injection H as <- <-. cbn [length]. f_equal. eapply IH; exact E.
Qed.
Lemma kd_decode_parameters_shape nc bs p r : kd_decode_parameters nc bs = Some (p, r) ->
  quantization_valid (qp_bits p) = true /\ length (qp_min p) = nc.
Proof.
  unfold kd_decode_parameters. destruct (dec_le32s nc bs) as [[ms r1]|] eqn:E; [|discriminate].
  destruct (dec_le32s 1 r1) as [[[|rg [|? ?]] r2]|]; try discriminate. destruct r2 as [|q r3]; [discriminate|].
  destruct (q >? 31); [discriminate|]. unfold set_parameters. destruct (quantization_valid q) eqn:V; [|discriminate].
  intros H. injection H as <- <-. cbn [qp_bits qp_min]. rewrite map_length. split; [exact V|]. eapply dec_le32s_length; exact E.
Qed.
Definition qp_fits (d : att_desc) (qp : option qparams) : Prop :=
  match qp with Some p => quantization_valid (qp_bits p) = true /\ length (qp_min p) = Z.to_nat (ad_nc d) | None => True end.
Lemma dec_qparams_shape : forall ds bs qps r, kd_dec_qparams ds bs = Some (qps, r) -> Forall2 qp_fits ds qps.
Proof.
  induction ds as [|d ds IH]; intros bs qps r H; cbn [kd_dec_qparams] in H; [injection H as <- <-; constructor|].
  destruct (ad_dt d =? DT_FLOAT32_).
  - destruct (kd_decode_parameters (Z.to_nat (ad_nc d)) bs) as [[p r1]|] eqn:E; [|discriminate].
    destruct (kd_dec_qparams ds r1) as [[l r2]|] eqn:E2; [|discriminate]. injection H as <- <-.
    constructor; [exact (kd_decode_parameters_shape _ _ _ _ E)|eapply IH; exact E2].
  - destruct (kd_dec_qparams ds bs) as [[l r2]|] eqn:E2; [|discriminate]. injection H as <- <-.
    constructor; [exact I|eapply IH; exact E2].
Qed.
Lemma att_slices_widths : forall ds pts, Forall2 (fun d rows => Forall (fun r => (length r <= Z.to_nat (ad_nc d))%nat) rows) ds (att_slices ds pts).
Proof.
  induction ds as [|d ds IH]; intros pts; cbn [att_slices]; constructor; [|apply IH].
  apply Forall_forall. intros r Hr. apply in_map_iff in Hr. destruct Hr as (p & <- & _). unfold trunc_row. rewrite map_length. apply firstn_le_length.
Qed.

Lemma finish_att_total skip d rows qp mins das : kd_finish_att skip d rows qp mins = KOk das ->
  qp_fits d qp -> Forall (fun r => (length r <= Z.to_nat (ad_nc d))%nat) rows ->
  exists da, kd_finish_att (fun _ => false) d rows qp mins = KOk da.
Proof.
  unfold kd_finish_att. cbv zeta. destruct (kd_dt_signed (ad_dt d)); [intros H _ _; eexists; exact H|].
  destruct (ad_dt d =? DT_FLOAT32_); [|intros H _ _; eexists; exact H].
  destruct qp as [p|]; [|discriminate]. intros _ (V & L) Hw.
  destruct (valid_max_q _ V) as (_ & Iq & Hm).
  assert (Hi: exists fr, kd_inverse_transform p rows = Ok fr).
  { unfold kd_inverse_transform, inverse_with. rewrite Iq. cbn [rbind]. unfold dequantizer_init.
    replace (2 ^ qp_bits p - 1 <=? 0) with false by lia. cbn [rbind].
    destruct (rmap_ok (dequantize_row kd_read (fdiv (qp_range p) (f32_of_Z (2 ^ qp_bits p - 1))) (qp_min p)) (fun _ _ => True) rows) as (fr & E & _).
    { eapply Forall_impl; [|exact Hw]. cbv beta. intros r Hr. destruct (dequantize_row_ok kd_read (fdiv (qp_range p) (f32_of_Z (2 ^ qp_bits p - 1))) r (qp_min p) ltac:(lia)) as (vs & Ev & _).
      exists vs. split; [exact Ev|exact I]. }
    exists fr. exact E. }
  destruct Hi as (fr & ->). eexists; reflexivity.
Qed.
Lemma finish_all_total skip : forall ds rowss qps minss l1, kd_finish_all skip ds rowss qps minss = KOk l1 ->
  Forall2 qp_fits ds qps -> Forall2 (fun d rows => Forall (fun r => (length r <= Z.to_nat (ad_nc d))%nat) rows) ds rowss ->
  exists l2, kd_finish_all (fun _ => false) ds rowss qps minss = KOk l2.
Proof.
  induction ds as [|d ds IH]; intros rowss qps minss l1 H Hq Hw; [exists []; reflexivity|].
  inversion Hq as [|? qp ? qps' Hq0 Hq']; subst. inversion Hw as [|? rows ? rowss' Hw0 Hw']; subst.
  destruct minss as [|mins minss]; [exists []; reflexivity|]. cbn [kd_finish_all] in H |- *.
  destruct (kd_finish_att skip d rows qp mins) as [a1| |] eqn:E1; try discriminate.
  destruct (kd_finish_all skip ds rowss' qps' minss) as [r1| |] eqn:F1; try discriminate.
  destruct (finish_att_total _ _ _ _ _ _ E1 Hq0 Hw0) as (a2 & ->).
  destruct (IH _ _ _ _ F1 Hq' Hw') as (r2 & ->). eexists; reflexivity.
Qed.
Lemma dec_attributes_total skip ver np ds bs a1 p1 r1 : kd_dec_attributes skip ver np ds bs = KOk (a1, p1, r1) ->
  exists a2, kd_dec_attributes (fun _ => false) ver np ds bs = KOk (a2, p1, r1).
Proof.
  unfold kd_dec_attributes. destruct bs as [|level r0]; [discriminate|].
  destruct (forallb _ ds); [|discriminate]. destruct (level >? 6); [discriminate|].
  destruct (kd_decode_points _ _ _ _ _) as [[pts r]|]; [|discriminate].
  destruct (negb _); [discriminate|]. destruct (kd_dec_qparams ds r) as [[qps rq]|] eqn:Eq; [|discriminate].
  destruct (kd_dec_mins ds rq) as [[minss rm]|]; [|discriminate].
  rewrite transpose_split.
  destruct (kd_finish_all skip ds _ qps minss) as [l1| |] eqn:F1; try discriminate.
  destruct (finish_all_total _ _ _ _ _ _ F1 (dec_qparams_shape _ _ _ _ Eq) (att_slices_widths ds pts)) as (l2 & ->).
  intros H. injection H as <- <- <-. eexists; reflexivity.
Qed.
Lemma dec_all_total skip ver np : forall dss bs a1 p1 r1, kd_dec_all skip ver np dss bs = KOk (a1, p1, r1) ->
  exists a2, kd_dec_all (fun _ => false) ver np dss bs = KOk (a2, p1, r1).
Proof.
  induction dss as [|ds dss IH]; intros bs a1 p1 r1 H; cbn [kd_dec_all] in H |- *; [eexists; exact H|].
  destruct (kd_dec_attributes skip ver np ds bs) as [[[x1 y1] z1]| |] eqn:E1; try discriminate.
  destruct (dec_attributes_total _ _ _ _ _ _ _ _ E1) as (x2 & ->).
  destruct (kd_dec_all skip ver np dss z1) as [[[u1 v1] w1]| |] eqn:G1; try discriminate.
  destruct (IH _ _ _ _ G1) as (u2 & ->). injection H as <- <- <-. eexists; reflexivity.
Qed.
Theorem kd_skip_decodes_normally skip bs pcs rs : kd_dec_pc_stream skip bs = KOk (pcs, rs) ->
  exists pc, kd_dec_pc_stream (fun _ => false) bs = KOk (pc, rs).
Proof.
  unfold kd_dec_pc_stream. destruct (dec_header bs) as [[[h r0]|]|]; try discriminate.
  destruct (negb (h_type h =? POINT_CLOUD_)); [discriminate|]. destruct (negb (h_method h =? POINT_CLOUD_KD_TREE_ENCODING_)); [discriminate|].
  destruct (negb (version_ok h)); [discriminate|]. destruct (negb (_ =? kDracoPointCloudBitstreamVersion)); [discriminate|].
  destruct (0 <? Z.land (h_flags h) METADATA_FLAG_MASK_); [discriminate|].
  destruct (dec_le 4 r0) as [[npu r1]|]; [|discriminate]. destruct (npu >=? 2 ^ 31); [discriminate|].
  destruct r1 as [|nd r2]; [discriminate|]. destruct (dec_desc_blocks (Z.to_nat nd) r2) as [[dss r3]|]; [|discriminate].
  destruct (kd_dec_all skip _ npu dss r3) as [[[u1 v1] w1]| |] eqn:G1; try discriminate.
  destruct (dec_all_total _ _ _ _ _ _ _ _ G1) as (u2 & ->). intros H. injection H as <- <-. eexists; reflexivity.
Qed.
