(** Proofs for Model/Predict.v (property C01, mesh prediction schemes).
    1. [causal_prediction_roundtrip]: the two loops (encoder descending over the original data, decoder ascending
       over the decoded data) meet, for ANY causal predictor with policy bits and ANY transform that inverts on a
       domain closed under the predictor's outputs.
    2. Instances: parallelogram, constrained multi-parallelogram (every crease assignment), tex coords portable
       (every orientation assignment), including the prediction-data bytes. *)
From Coq Require Import ZArith List Bool Arith Lia ZifyBool.
From Draco Require Import Base.Codec Model.Varint Model.Wrap Model.CornerTable Model.SeqAttr Model.BitCoders Model.Predict
  Proofs.Varint_proofs Proofs.Wrap_proofs Proofs.SeqAttr_proofs Proofs.BitCoders_proofs.
Import ListNotations.

(** * 1. The generic theorem *)


Section CausalProofs.
  Context {E Pr C A W St : Type}.
  Variable tenc : E -> Pr -> C.
  Variable tdec : Pr -> C -> E.
  Variable Pe : list E -> nat -> A -> option (Pr * W).
  Variable Pd : list E -> nat -> St -> option (Pr * St).
  Variable D : E -> Prop.
  Variable PD : Pr -> Prop.
  Variable Rep : list W -> St -> Prop.
  Hypothesis law : forall o p, D o -> PD p -> tdec p (tenc o p) = o.
  Hypothesis Pe_dom : forall pre i a p w, length pre = i -> Forall D pre -> Pe pre i a = Some (p, w) -> PD p.
  Hypothesis step : forall pre i a p w ws st, length pre = i -> Forall D pre ->
    Pe pre i a = Some (p, w) -> Rep (w :: ws) st ->
    exists st', Pd pre i st = Some (p, st') /\ Rep ws st'.

  Lemma Forall_firstn' {X} (P : X -> Prop) : forall n l, Forall P l -> Forall P (firstn n l).
  Proof. induction n as [|n IH]; intros [|x l] H; cbn; try constructor; inversion H; subst; auto. Qed.
  Lemma firstn_snoc {X} : forall (l : list X) i x, nth_error l i = Some x -> firstn i l ++ [x] = firstn (S i) l.
  Proof.
    induction l as [|y l IH]; intros [|i] x H; cbn in *; try discriminate.
    - injection H as ->. reflexivity.
    - f_equal. apply IH. exact H.
  Qed.

  Lemma dec_up_app : forall a b i out st,
    dec_up tdec Pd (a ++ b) i out st =
    match dec_up tdec Pd a i out st with
    | Some (out', st') => dec_up tdec Pd b (i + length a) out' st'
    | None => None
    end.
  Proof.
    induction a as [|c a IH]; intros b i out st; cbn [app dec_up length].
    - rewrite Nat.add_0_r. reflexivity.
    - destruct (Pd out i st) as [[p st']|]; [|reflexivity].
      rewrite IH. destruct (dec_up tdec Pd a (S i) (out ++ [tdec p c]) st') as [[o' s']|]; [|reflexivity].
      f_equal. lia.
  Qed.

  Lemma enc_down_dec data choice : Forall D data -> forall k out ws corr wsf,
    (k <= length data)%nat ->
    enc_down tenc Pe data choice k out ws = Some (corr, wsf) ->
    exists cs wl, corr = cs ++ out /\ wsf = wl ++ ws /\ length cs = k /\ length wl = k /\
      forall ws' st, Rep (wl ++ ws') st ->
        exists st', dec_up tdec Pd cs 0 [] st = Some (firstn k data, st') /\ Rep ws' st'.
  Proof.
    intros HD. induction k as [|i IH]; intros out ws corr wsf Hk Henc; cbn [enc_down] in Henc.
    - injection Henc as <- <-. exists [], []. split; [reflexivity|]. split; [reflexivity|].
      split; [reflexivity|]. split; [reflexivity|].
      intros ws' st HR. exists st. split; [reflexivity|exact HR].
    - destruct (nth_error data i) as [o|] eqn:Eo; [|discriminate].
      destruct (Pe (firstn i data) i (choice i)) as [[p w]|] eqn:EP; [|discriminate].
      destruct (IH _ _ _ _ ltac:(lia) Henc) as (cs & wl & -> & -> & Hlen & Hlw & Hdec).
      exists (cs ++ [tenc o p]), (wl ++ [w]). rewrite <- !app_assoc. cbn [app].
      split; [reflexivity|]. split; [reflexivity|]. split; [rewrite app_length; cbn; lia|].
      split; [rewrite app_length; cbn; lia|].
      intros ws' st HR. rewrite <- app_assoc in HR. cbn [app] in HR.
      destruct (Hdec _ _ HR) as (st1 & Hd1 & HR1).
      assert (Hpl: length (firstn i data) = i) by (rewrite firstn_length; lia).
      assert (HpD: Forall D (firstn i data)) by (apply Forall_firstn'; exact HD).
      destruct (step _ _ _ _ _ _ _ Hpl HpD EP HR1) as (st2 & Hd2 & HR2).
      exists st2. split; [|exact HR2].
      rewrite dec_up_app, Hd1. cbn [dec_up]. rewrite Hlen, Nat.add_0_l, Hd2. f_equal. f_equal.
      rewrite law.
      + apply firstn_snoc. exact Eo.
      + eapply Forall_forall; [exact HD|]. eapply nth_error_In; exact Eo.
      + eapply Pe_dom; eassumption.
  Qed.

  Theorem causal_prediction_roundtrip data choice corr ws st0 :
    Forall D data -> causal_enc tenc Pe data choice = Some (corr, ws) -> Rep ws st0 ->
    length corr = length data /\ length ws = length data /\
    exists st', causal_dec tdec Pd corr st0 = Some (data, st') /\ Rep [] st'.
  Proof.
    intros HD Henc HR. unfold causal_enc in Henc.
    destruct (enc_down_dec data choice HD _ _ _ _ _ (le_n _) Henc) as (cs & wl & -> & -> & Hlen & Hlw & Hdec).
    rewrite !app_nil_r in *. split; [exact Hlen|]. split; [exact Hlw|].
    destruct (Hdec [] st0 ltac:(rewrite app_nil_r; exact HR)) as (st' & Hd & HR').
    exists st'. split; [|exact HR']. unfold causal_dec. rewrite Hd, firstn_all. reflexivity.
  Qed.

  (** every record satisfies what the encoder-side predictor guarantees for its records *)
  Lemma enc_down_records (Q : W -> Prop) data choice :
    (forall pre i a p w, Pe pre i a = Some (p, w) -> Q w) ->
    forall k out ws corr wsf, Forall Q ws -> enc_down tenc Pe data choice k out ws = Some (corr, wsf) -> Forall Q wsf.
  Proof.
    intros HQ. induction k as [|i IH]; intros out ws corr wsf HF Henc; cbn [enc_down] in Henc.
    - injection Henc as <- <-. exact HF.
    - destruct (nth_error data i) as [o|]; [|discriminate].
      destruct (Pe (firstn i data) i (choice i)) as [[p w]|] eqn:EP; [|discriminate].
      eapply IH; [|exact Henc]. constructor; [eapply HQ; exact EP|exact HF].
  Qed.
  Lemma causal_enc_records (Q : W -> Prop) data choice corr ws :
    (forall pre i a p w, Pe pre i a = Some (p, w) -> Q w) ->
    causal_enc tenc Pe data choice = Some (corr, ws) -> Forall Q ws.
  Proof. intros HQ H. eapply enc_down_records; [exact HQ| |exact H]. constructor. Qed.
End CausalProofs.


Local Open Scope Z_scope.

(** * 2. Rows, the wrap transform on rows, the parallelogram scheme *)


(** rows *)
Definition row_in (nc : nat) (mn mx : Z) (r : row) : Prop := length r = nc /\ Forall (fun v => mn <= v <= mx) r.
Definition row_i32 (nc : nat) (r : row) : Prop := length r = nc /\ Forall i32 r.

Lemma map3_length f : forall a b c, length (map3 f a b c) = Nat.min (length a) (Nat.min (length b) (length c)).
Proof. induction a as [|x a IH]; intros [|y b] [|z c]; cbn [map3 length]; try reflexivity. rewrite IH. reflexivity. Qed.
Lemma map3_par_i32 : forall a b c, Forall i32 (map3 par_val a b c).
Proof. induction a as [|x a IH]; intros [|y b] [|z c]; cbn [map3]; constructor; [apply to_i32_range|apply IH]. Qed.
Lemma data_at_in pre e r : data_at pre e = Some r -> In r pre.
Proof. unfold data_at. destruct (e <? 0); [discriminate|]. apply nth_error_In. Qed.

Lemma row_in_i32 nc mn mx r : i32 mn -> i32 mx -> row_in nc mn mx r -> row_i32 nc r.
Proof. intros Hmn Hmx [Hl HF]. split; [exact Hl|]. eapply Forall_impl; [|exact HF]. unfold i32 in *. cbv beta. lia. Qed.

Lemma par_prediction_dom md nc mn mx pre p ci r : i32 mn -> i32 mx ->
  Forall (row_in nc mn mx) pre -> par_prediction md pre p ci = Some (Some r) -> row_i32 nc r.
Proof.
  intros Hmn Hmx HF. unfold par_prediction.
  destruct (md_opposite md ci) as [[oci|]|]; try discriminate.
  destruct (md_entry_of_corner md oci) as [vo|]; [|discriminate].
  destruct (md_entry_of_corner md (next_c oci)) as [vn|]; [|discriminate].
  destruct (md_entry_of_corner md (prev_c oci)) as [vp|]; [|discriminate].
  destruct ((vo <? p) && (vn <? p) && (vp <? p)); [|discriminate].
  destruct (data_at pre vn) as [rn|] eqn:En; [|discriminate].
  destruct (data_at pre vp) as [rp|] eqn:Ep; [|discriminate].
  destruct (data_at pre vo) as [ro|] eqn:Eo; [|discriminate].
  intros H. injection H as <-.
  pose proof (proj1 (Forall_forall _ _) HF _ (data_at_in _ _ _ En)) as [L1 _].
  pose proof (proj1 (Forall_forall _ _) HF _ (data_at_in _ _ _ Ep)) as [L2 _].
  pose proof (proj1 (Forall_forall _ _) HF _ (data_at_in _ _ _ Eo)) as [L3 _].
  split; [rewrite map3_length; lia|apply map3_par_i32].
Qed.

Lemma zeros_i32 nc : row_i32 nc (repeat 0 nc).
Proof. split; [apply repeat_length|]. apply Forall_repeat. unfold i32; lia. Qed.

Lemma par_predict_dom md nc mn mx pre i r : i32 mn -> i32 mx ->
  Forall (row_in nc mn mx) pre -> par_predict md nc pre i = Some r -> row_i32 nc r.
Proof.
  intros Hmn Hmx HF. unfold par_predict. destruct i as [|j].
  - intros H; injection H as <-. apply zeros_i32.
  - destruct (nth_error (md_d2c md) (S j)) as [ci|]; [|discriminate].
    destruct (par_prediction md pre (Z.of_nat (S j)) ci) as [[r'|]|] eqn:E; [| |discriminate].
    + intros H; injection H as <-. eapply (par_prediction_dom md nc mn mx); eassumption.
    + intros H. apply nth_error_In in H. eapply (row_in_i32 nc mn mx); try assumption.
      exact (proj1 (Forall_forall _ _) HF _ H).
Qed.

Lemma row_law mn mx b nc o p : i32 mn -> i32 mx -> 0 <= mx - mn < 2147483647 -> wrap_init mn mx = Some b ->
  row_in nc mn mx o -> row_i32 nc p -> row_dec b p (row_enc b o p) = o.
Proof.
  intros Hmn Hmx Hd Hb [Lo Fo] [Lp Fp]. unfold row_dec, row_enc.
  apply (row_roundtrip mn mx b Hmn Hmx Hd Hb); [exact Fo|exact Fp|lia].
Qed.

Lemma wrap_data_roundtrip b rest : i32 (wb_min b) -> i32 (wb_max b) -> wrap_dec_init (wb_min b) (wb_max b) = Some b ->
  wrap_data_dec (wrap_data_enc b ++ rest) = Some (b, rest).
Proof.
  intros Hmn Hmx Hi. unfold wrap_data_dec, wrap_data_enc. rewrite <- app_assoc.
  rewrite (le_roundtrips 4 (wb_min b mod 2 ^ 32) _ _ (u32_range _) eq_refl).
  rewrite (le_roundtrips 4 (wb_max b mod 2 ^ 32) _ _ (u32_range _) eq_refl).
  rewrite !i32_of_u32_mod by assumption. rewrite Hi. reflexivity.
Qed.

(** what Init establishes from the data *)
Lemma bounds_of_data nc data b : (nc <> 0)%nat -> data <> [] ->
  Forall (fun r => length r = nc /\ Forall i32 r) data -> wrap_bounds_enc (concat data) = Some b ->
  i32 (wb_min b) /\ i32 (wb_max b) /\ 0 <= wb_max b - wb_min b < 2147483647 /\
  wrap_init (wb_min b) (wb_max b) = Some b /\ wrap_dec_init (wb_min b) (wb_max b) = Some b /\
  Forall (row_in nc (wb_min b) (wb_max b)) data.
Proof.
  intros Hnc Hne HF Hb.
  assert (Hi : Forall i32 (concat data)).
  { apply Forall_concat. eapply Forall_impl; [|exact HF]. cbv beta; tauto. }
  assert (Hcne : concat data <> []).
  { destruct data as [|r0 rs]; [congruence|]. apply Forall_cons_iff in HF. destruct HF as [[Hl _] _].
    destruct r0; [cbn in Hl; lia|]. cbn. congruence. }
  destruct (wrap_bounds_enc_ok (concat data) b Hcne Hi Hb) as (H1 & H2 & H3 & H4 & H5 & H6).
  repeat (split; [assumption|]).
  apply Forall_forall. intros r Hr. split; [exact (proj1 (proj1 (Forall_forall _ _) HF r Hr))|].
  apply Forall_forall. intros v Hv. apply (proj1 (Forall_forall _ _) H6 v). apply in_concat. exists r. split; assumption.
Qed.

Lemma sizes_ok_spec md nc n : sizes_ok md nc n = true -> length (md_d2c md) = n /\ n <> 0%nat /\ nc <> 0%nat.
Proof.
  unfold sizes_ok. intros H. apply andb_true_iff in H. destruct H as [H H3]. apply andb_true_iff in H. destruct H as [H1 H2].
  apply Nat.eqb_eq in H1. apply negb_true_iff in H2, H3. apply Nat.eqb_neq in H2, H3. tauto.
Qed.

Theorem par_roundtrip md nc data corr bs rest :
  Forall (fun r => length r = nc /\ Forall i32 r) data ->
  par_encode md nc data = Some (corr, bs) ->
  par_decode md nc corr (bs ++ rest) = Some (data, rest) /\ length corr = length data.
Proof.
  intros HF. unfold par_encode.
  destruct (sizes_ok _ _ _) eqn:Es; cbn [negb]; [|discriminate].
  destruct (sizes_ok_spec _ _ _ Es) as (Hd2c & Hn & Hnc).
  destruct (wrap_bounds_enc (concat data)) as [b|] eqn:Eb; [|discriminate].
  match goal with |- context [causal_enc ?a ?b ?c ?d] => destruct (causal_enc a b c d) as [[corr' ws]|] eqn:Ee; [|discriminate] end.
  intros H; injection H as <- <-.
  assert (Hne : data <> []) by (destruct data; [cbn in Hn; congruence|congruence]).
  destruct (bounds_of_data nc data b Hnc Hne HF Eb) as (Hmn & Hmx & Hrange & Hinit & Hdinit & HD).
  pose proof (causal_prediction_roundtrip (row_enc b) (row_dec b)
    (fun pre i (_ : unit) => stateless (par_predict md nc pre i) tt tt)
    (fun pre i (_ : unit) => stateless (par_predict md nc pre i) tt tt)
    (row_in nc (wb_min b) (wb_max b)) (row_i32 nc) (fun _ _ => True)) as G.
  destruct (G) with (data := data) (choice := fun _ : nat => tt) (corr := corr') (ws := ws) (st0 := tt)
    as (Hlen & _ & st' & Hdec & _); try assumption; try exact I.
  - intros o p Ho Hp. eapply (row_law (wb_min b) (wb_max b)); eassumption.
  - intros pre i a p w Hl Hpre. unfold stateless. destruct (par_predict md nc pre i) eqn:E; [|discriminate].
    intros H; injection H as <- _. eapply (par_predict_dom md nc (wb_min b) (wb_max b)); eassumption.
  - intros pre i a p w ws0 st Hl Hpre HP _. exists tt. split; [|exact I].
    unfold stateless in *. destruct (par_predict md nc pre i); [|discriminate]. injection HP as <- _. reflexivity.
  - split; [|exact Hlen]. unfold par_decode. rewrite Hlen, Es. cbn [negb].
    rewrite wrap_data_roundtrip by assumption. rewrite Hdec. reflexivity.
Qed.

(** * 3. Constrained multi-parallelogram *)


Lemma upd_len {A} (l : list A) i x : length (upd l i x) = length l.
Proof. revert i; induction l; intros [|i]; cbn; auto. Qed.
Lemma nth_upd_same {A} (l : list A) i x d : (i < length l)%nat -> nth i (upd l i x) d = x.
Proof. revert i; induction l; intros [|i] H; cbn in *; try lia; auto. apply IHl. lia. Qed.
Lemma nth_upd_other {A} (l : list A) i j x d : i <> j -> nth j (upd l i x) d = nth j l d.
Proof. revert i j; induction l; intros [|i] [|j] H; cbn; auto; try congruence. Qed.

(** ** the parallelograms found are int32 rows, at most four *)
Lemma mp_collect_dom md nc mn mx pre p start : i32 mn -> i32 mx -> Forall (row_in nc mn mx) pre ->
  forall fuel corner fp acc res, Forall (row_i32 nc) acc -> (length acc < 4)%nat ->
  mp_collect fuel md pre p start corner fp acc = Some res ->
  Forall (row_i32 nc) res /\ (length res <= 4)%nat.
Proof.
  intros Hmn Hmx HF. induction fuel as [|f IH]; intros corner fp acc res Hacc Hlen; cbn [mp_collect].
  - destruct corner; [discriminate|]. intros H; injection H as <-. split; [assumption|lia].
  - destruct corner as [c|]; [|intros H; injection H as <-; split; [assumption|lia]].
    destruct (par_prediction md pre p c) as [r|] eqn:Er; [|discriminate].
    set (acc' := match r with Some v => acc ++ [v] | None => acc end).
    assert (Hacc' : Forall (row_i32 nc) acc').
    { unfold acc'. destruct r as [v|]; [|assumption]. apply Forall_app. split; [assumption|]. constructor; [|constructor].
      eapply (par_prediction_dom md nc mn mx); eassumption. }
    assert (Hlen' : (length acc' <= 4)%nat).
    { unfold acc'. destruct r; [rewrite app_length; cbn; lia|lia]. }
    destruct ((match r with Some _ => true | None => false end) && (length acc' =? kMaxNumParallelograms)%nat) eqn:Efull.
    { intros H; injection H as <-. split; assumption. }
    assert (Hlt : (length acc' < 4)%nat).
    { apply andb_false_iff in Efull. destruct Efull as [E|E].
      - destruct r; [discriminate|]. unfold acc'. exact Hlen.
      - apply Nat.eqb_neq in E. unfold kMaxNumParallelograms in E. lia. }
    destruct (if fp then md_swing_left md c else md_swing_right md c) as [nxt|]; [|discriminate].
    destruct nxt as [c'|].
    + destruct (c' =? start)%nat; [intros H; injection H as <-; split; [assumption|lia]|].
      apply IH; assumption.
    + destruct fp; [|intros H; injection H as <-; split; [assumption|lia]].
      destruct (md_swing_right md start) as [nxt2|]; [|discriminate]. apply IH; assumption.
Qed.

Lemma mp_parallelograms_dom md nc mn mx pre i preds : i32 mn -> i32 mx -> Forall (row_in nc mn mx) pre ->
  mp_parallelograms md pre i = Some preds -> Forall (row_i32 nc) preds /\ (length preds <= 4)%nat.
Proof.
  intros Hmn Hmx HF. unfold mp_parallelograms. destruct (nth_error (md_d2c md) i); [|discriminate].
  apply (mp_collect_dom md nc mn mx); try assumption; [constructor|cbn; lia].
Qed.

Lemma mp_used_dom nc : forall preds crease, Forall (row_i32 nc) preds -> Forall (row_i32 nc) (mp_used preds crease).
Proof.
  induction preds as [|r preds IH]; intros [|f crease] HF; cbn [mp_used]; try constructor.
  inversion HF; subst. destruct f; [apply IH; assumption|constructor; [assumption|apply IH; assumption]].
Qed.

Lemma map2_add32_dom nc a r : row_i32 nc a -> row_i32 nc r -> row_i32 nc (map2 add32 a r).
Proof.
  intros [La Fa] [Lr Fr]. split; [rewrite map2_length; lia|].
  clear. revert r. induction a as [|x a IH]; intros [|y r]; cbn [map2]; constructor; [apply to_i32_range|apply IH].
Qed.
Lemma mp_sum_dom nc used : Forall (row_i32 nc) used -> row_i32 nc (mp_sum nc used).
Proof.
  unfold mp_sum. generalize (zeros_i32 nc). generalize (repeat 0 nc). induction used as [|r used IH]; intros acc Hacc HF; cbn [fold_left]; [assumption|].
  inversion HF; subst. apply IH; [apply map2_add32_dom; assumption|assumption].
Qed.
Lemma quot_i32 s k : i32 s -> 1 <= k -> i32 (Z.quot s k).
Proof.
  unfold i32. intros Hs Hk.
  assert (Hpos : forall a, 0 <= a -> 0 <= Z.quot a k <= a).
  { intros a Ha. split; [apply Z.quot_pos; lia|]. apply Z.quot_le_upper_bound; [lia|]. nia. }
  destruct (Z.le_gt_cases 0 s).
  - pose proof (Hpos s ltac:(lia)). lia.
  - assert (E : Z.quot s k = - Z.quot (- s) k) by (rewrite Z.quot_opp_l by lia; lia).
    pose proof (Hpos (- s) ltac:(lia)). lia.
Qed.

Lemma mp_combine_dom nc mn mx preds crease delta r : i32 mn -> i32 mx ->
  Forall (row_i32 nc) preds -> (forall d, delta = Some d -> row_i32 nc d) ->
  mp_combine nc preds crease delta = Some r -> row_i32 nc r.
Proof.
  intros Hmn Hmx HF Hd. unfold mp_combine.
  pose proof (mp_used_dom nc preds crease HF) as HU.
  destruct (mp_used preds crease) as [|u used] eqn:Eu; [apply Hd|].
  intros H; injection H as <-.
  destruct (mp_sum_dom nc (u :: used) HU) as [Ls Fs].
  split; [rewrite map_length; exact Ls|].
  apply Forall_forall. intros v Hv. apply in_map_iff in Hv. destruct Hv as (s & <- & Hs).
  apply quot_i32; [exact (proj1 (Forall_forall _ _) Fs s Hs)|]. cbn [length]. lia.
Qed.

Lemma mp_predict_enc_dom md nc mn mx pre i a p w : i32 mn -> i32 mx -> Forall (row_in nc mn mx) pre ->
  mp_predict_enc md nc pre i a = Some (p, w) -> row_i32 nc p.
Proof.
  intros Hmn Hmx HF. unfold mp_predict_enc. destruct i as [|j].
  - intros H; injection H as <- _. apply zeros_i32.
  - destruct (mp_parallelograms md pre (S j)) as [preds|] eqn:Ep; [|discriminate].
    destruct (mp_parallelograms_dom md nc mn mx pre (S j) preds Hmn Hmx HF Ep) as [Hp _].
    destruct (mp_combine nc preds _ (nth_error pre j)) as [r|] eqn:Ec; [|discriminate].
    intros H; injection H as <- _.
    eapply (mp_combine_dom nc mn mx); try eassumption.
    intros d Hd. apply nth_error_In in Hd. apply (row_in_i32 nc mn mx); try assumption.
    exact (proj1 (Forall_forall _ _) HF _ Hd).
Qed.

(** ** the reader state represents the records of the entries still to come *)
Definition mp_ctx (ws : list (list bool)) (k : nat) : list bool :=
  concat (filter (fun w => (length w =? S k)%nat) ws).
Definition mp_rep (ws : list (list bool)) (st : list (list bool)) : Prop :=
  length st = 4%nat /\ forall k, (k < 4)%nat -> nth k st [] = mp_ctx ws k.

Lemma mp_ctx_nil ws k : mp_ctx ([] :: ws) k = mp_ctx ws k.
Proof. reflexivity. Qed.
Lemma mp_ctx_same w ws k : length w = S k -> mp_ctx (w :: ws) k = w ++ mp_ctx ws k.
Proof. intros H. unfold mp_ctx. cbn [filter]. rewrite H, Nat.eqb_refl. reflexivity. Qed.
Lemma mp_ctx_other w ws k : length w <> S k -> mp_ctx (w :: ws) k = mp_ctx ws k.
Proof. intros H. unfold mp_ctx. cbn [filter]. apply Nat.eqb_neq in H. rewrite H. reflexivity. Qed.

Lemma mp_step md nc mn mx pre i a p w ws st : i32 mn -> i32 mx -> Forall (row_in nc mn mx) pre ->
  mp_predict_enc md nc pre i a = Some (p, w) -> mp_rep (w :: ws) st ->
  exists st', mp_predict_dec md nc pre i st = Some (p, st') /\ mp_rep ws st'.
Proof.
  intros Hmn Hmx HF. unfold mp_predict_enc, mp_predict_dec. destruct i as [|j].
  - intros H; injection H as <- <-. intros HR. exists st. split; [reflexivity|]. exact HR.
  - destruct (mp_parallelograms md pre (S j)) as [preds|] eqn:Ep; [|discriminate].
    destruct (mp_parallelograms_dom md nc mn mx pre (S j) preds Hmn Hmx HF Ep) as [_ Hle].
    set (flags := map a (seq 0 (length preds))).
    assert (Hfl : length flags = length preds) by (unfold flags; rewrite map_length, seq_length; reflexivity).
    destruct (mp_combine nc preds flags (nth_error pre j)) as [r|] eqn:Ec; [|discriminate].
    intros H; injection H as <- <-. intros [Hl4 HR].
    destruct (length preds) as [|ctx] eqn:Enp.
    + destruct flags; [|discriminate]. unfold mp_combine in Ec.
      replace (mp_used preds []) with (@nil row) in Ec by (destruct preds; reflexivity).
      rewrite Ec. exists st. split; [reflexivity|]. split; [exact Hl4|]. intros k Hk. rewrite (HR k Hk). reflexivity.
    + assert (Hctx : (ctx < 4)%nat) by lia.
      pose proof (HR ctx Hctx) as Hs. rewrite (mp_ctx_same flags ws ctx Hfl) in Hs.
      destruct (nth_error st ctx) as [stream|] eqn:Est; [|apply nth_error_None in Est; lia].
      assert (stream = flags ++ mp_ctx ws ctx) by (rewrite <- Hs; symmetry; apply nth_error_nth; exact Est). subst stream.
      replace (length (flags ++ mp_ctx ws ctx) <? S ctx)%nat with false
        by (symmetry; apply Nat.ltb_ge; rewrite app_length; lia).
      rewrite <- Hfl, firstn_app_exact, skipn_app_exact, Ec.
      eexists. split; [reflexivity|]. split; [rewrite upd_len; exact Hl4|].
      intros k Hk. destruct (Nat.eq_dec k ctx) as [->|Hne].
      * rewrite nth_upd_same by lia. reflexivity.
      * rewrite nth_upd_other by congruence. rewrite (HR k Hk). apply mp_ctx_other. lia.
Qed.

(** ** EncodePredictionData regroups the encoder's vectors into decoder order *)
Lemma mp_regroup_groups (m : nat) : (0 < m)%nat -> forall gs suffix fuel,
  Forall (fun g : list bool => length g = m) gs -> (length gs < fuel)%nat ->
  mp_regroup_from fuel m (concat (rev gs) ++ suffix) (Z.of_nat (length (concat (rev gs))) - Z.of_nat m) = concat gs.
Proof.
  intros Hm. induction gs as [|g gs IH]; intros suffix fuel HF Hfuel.
  - destruct fuel; [cbn in Hfuel; lia|]. cbn [mp_regroup_from rev concat length].
    assert (E : Z.of_nat 0 - Z.of_nat m <? 0 = true) by (apply Z.ltb_lt; lia). rewrite E. reflexivity.
  - inversion HF; subst. destruct fuel as [|f]; [cbn in Hfuel; lia|]. cbn [length] in Hfuel.
    cbn [rev]. rewrite concat_app. cbn [concat]. rewrite app_nil_r. set (A := concat (rev gs)).
    rewrite app_length. cbn [mp_regroup_from].
    replace (Z.of_nat (length A + length g) - Z.of_nat (length g)) with (Z.of_nat (length A)) by lia.
    assert (E : Z.of_nat (length A) <? 0 = false) by (apply Z.ltb_ge; lia). rewrite E.
    rewrite Nat2Z.id, <- !app_assoc, skipn_app_exact, firstn_app_exact.
    cbn [concat]. f_equal. unfold A. apply IH; [assumption|lia].
Qed.

Lemma filter_len_groups (k : nat) (ws : list (list bool)) :
  Forall (fun g : list bool => length g = S k) (filter (fun w => (length w =? S k)%nat) ws).
Proof. apply Forall_forall. intros g Hg. apply filter_In in Hg. apply Nat.eqb_eq. tauto. Qed.

Lemma concat_groups_length (m : nat) (gs : list (list bool)) : (0 < m)%nat ->
  Forall (fun g : list bool => length g = m) gs -> (length gs <= length (concat gs))%nat.
Proof. intros Hm HF. induction HF; cbn; [lia|]. rewrite app_length. lia. Qed.

Lemma mp_regroup_vector ws k : mp_regroup (S k) (mp_enc_vector ws k) = mp_ctx ws k.
Proof.
  unfold mp_regroup, mp_enc_vector, mp_ctx. set (gs := filter _ ws).
  pose proof (filter_len_groups k ws) as HF. fold gs in HF.
  pose proof (mp_regroup_groups (S k) ltac:(lia) gs [] (S (length (concat (rev gs)))) HF) as H.
  rewrite app_nil_r in H. apply H.
  assert (Hr : Forall (fun g : list bool => length g = S k) (rev gs)) by (apply Forall_rev; exact HF).
  pose proof (concat_groups_length (S k) (rev gs) ltac:(lia) Hr). rewrite rev_length in *. lia.
Qed.
Lemma mp_vector_length ws k : length (mp_enc_vector ws k) = length (mp_ctx ws k).
Proof.
  unfold mp_enc_vector, mp_ctx. generalize (filter (fun w : list bool => (length w =? S k)%nat) ws). intros gs.
  induction gs as [|g gs IH]; [reflexivity|]. cbn [rev concat]. rewrite concat_app, !app_length, IH. cbn [concat]. rewrite app_nil_r. lia.
Qed.

(** one context through the bytes *)
Lemma mp_context_roundtrip ver numc ws k bs rest :
  514 <= ver -> numc + 3 < 2 ^ 32 -> Z.of_nat (length (mp_enc_vector ws k)) <= numc ->
  mp_enc_context k (mp_enc_vector ws k) = Some bs ->
  mp_dec_context ver numc (bs ++ rest) = Some (mp_ctx ws k, rest).
Proof.
  intros Hver Hnumc Hlen. unfold mp_enc_context, mp_dec_context.
  set (vec := mp_enc_vector ws k) in *.
  assert (Hsmall : Z.of_nat (length vec) mod 2 ^ 32 = Z.of_nat (length vec)) by (apply Z.mod_small; lia).
  rewrite Hsmall.
  destruct (enc_varint_u (Z.of_nat (length vec))) as [hd|] eqn:Eh; [|discriminate].
  destruct (length vec =? 0)%nat eqn:E0.
  - intros H; injection H as <-. apply Nat.eqb_eq in E0.
    rewrite (varint_u_roundtrips 32 ltac:(right; right; left; reflexivity) (Z.of_nat (length vec)) hd rest); [| |exact Eh].
    2:{ lia. }
    replace (Z.of_nat (length vec) >? numc) with false by lia.
    replace (Z.of_nat (length vec) =? 0) with true by lia.
    unfold vec in E0. rewrite mp_vector_length in E0. destruct (mp_ctx ws k); [reflexivity|discriminate].
  - apply Nat.eqb_neq in E0.
    destruct (ransbit_encode (mp_regroup (S k) vec)) as [body|] eqn:Eb; [|discriminate].
    intros H; injection H as <-. rewrite <- app_assoc.
    rewrite (varint_u_roundtrips 32 ltac:(right; right; left; reflexivity) (Z.of_nat (length vec)) hd (body ++ rest)); [| |exact Eh].
    2:{ lia. }
    replace (Z.of_nat (length vec) >? numc) with false by lia.
    replace (Z.of_nat (length vec) =? 0) with false by lia.
    unfold vec in Eb. rewrite mp_regroup_vector in Eb.
    assert (Hl : length vec = length (mp_ctx ws k)) by apply mp_vector_length.
    destruct (ransbit_roundtrip ver (mp_ctx ws k) body rest Hver ltac:(lia) Eb) as (st & Hst & Hrd).
    rewrite Hst, Nat2Z.id, Hl, Hrd. reflexivity.
Qed.

Lemma mp_contexts_roundtrip ver numc ws : 514 <= ver -> numc + 3 < 2 ^ 32 ->
  forall n k bs rest,
  (forall j, (k <= j < k + n)%nat -> Z.of_nat (length (mp_enc_vector ws j)) <= numc) ->
  mp_enc_contexts (map (mp_enc_vector ws) (seq k n)) k = Some bs ->
  mp_dec_contexts n ver numc (bs ++ rest) = Some (map (mp_ctx ws) (seq k n), rest).
Proof.
  intros Hver Hnumc. induction n as [|n IH]; intros k bs rest Hlen; cbn [seq map mp_enc_contexts mp_dec_contexts].
  - intros H; injection H as <-. reflexivity.
  - destruct (mp_enc_context k (mp_enc_vector ws k)) as [a|] eqn:Ea; [|discriminate].
    destruct (mp_enc_contexts (map (mp_enc_vector ws) (seq (S k) n)) (S k)) as [b|] eqn:Eb; [|discriminate].
    intros H; injection H as <-. rewrite <- app_assoc.
    rewrite (mp_context_roundtrip ver numc ws k a (b ++ rest) Hver Hnumc (Hlen k ltac:(lia)) Ea).
    rewrite (IH (S k) b rest ltac:(intros j Hj; apply Hlen; lia) Eb). reflexivity.
Qed.

Lemma mp_rep_init ws : mp_rep ws (map (mp_ctx ws) (seq 0 4)).
Proof.
  split; [reflexivity|]. intros k Hk.
  destruct k as [|[|[|[|k]]]]; try reflexivity. lia.
Qed.

Theorem mp_roundtrip ver md nc data crease corr bs rest :
  514 <= ver -> md_num_corners md + 3 < 2 ^ 32 ->
  Forall (fun r => length r = nc /\ Forall i32 r) data ->
  mp_guard_ok md nc data crease ->
  mp_encode md nc data crease = Some (corr, bs) ->
  mp_decode ver md nc corr (bs ++ rest) = Some (data, rest) /\ length corr = length data.
Proof.
  intros Hver Hnumc HF Hguard. unfold mp_encode.
  destruct (sizes_ok _ _ _) eqn:Es; cbn [negb]; [|discriminate].
  destruct (sizes_ok_spec _ _ _ Es) as (Hd2c & Hn & Hnc).
  destruct (wrap_bounds_enc (concat data)) as [b|] eqn:Eb; [|discriminate].
  destruct (causal_enc (row_enc b) (mp_predict_enc md nc) data crease) as [[corr' ws]|] eqn:Ee; [|discriminate].
  destruct (mp_enc_contexts _ 0) as [fb|] eqn:Efb; [|discriminate].
  intros H; injection H as <- <-.
  assert (Hne : data <> []) by (destruct data; [cbn in Hn; congruence|congruence]).
  destruct (bounds_of_data nc data b Hnc Hne HF Eb) as (Hmn & Hmx & Hrange & Hinit & Hdinit & HD).
  assert (Hrec : mp_records md nc data crease = Some ws) by (unfold mp_records; rewrite Eb, Ee; reflexivity).
  pose proof (causal_prediction_roundtrip (row_enc b) (row_dec b) (mp_predict_enc md nc) (mp_predict_dec md nc)
    (row_in nc (wb_min b) (wb_max b)) (row_i32 nc) mp_rep) as G.
  destruct G with (data := data) (choice := crease) (corr := corr') (ws := ws) (st0 := map (mp_ctx ws) (seq 0 4))
    as (Hlen & _ & st' & Hdec & _); try assumption.
  - intros o p Ho Hp. eapply (row_law (wb_min b) (wb_max b)); eassumption.
  - intros pre i a p w Hl Hpre HP. eapply (mp_predict_enc_dom md nc (wb_min b) (wb_max b)); eassumption.
  - intros pre i a p w ws0 st Hl Hpre HP HR. eapply (mp_step md nc (wb_min b) (wb_max b)); eassumption.
  - apply mp_rep_init.
  - split; [|exact Hlen]. unfold mp_decode. rewrite Hlen, Es. cbn [negb].
    rewrite <- app_assoc.
    rewrite (mp_contexts_roundtrip ver (md_num_corners md) ws Hver Hnumc 4 0 fb _
               ltac:(intros j Hj; apply (Hguard ws Hrec); lia) Efb).
    rewrite wrap_data_roundtrip by assumption. rewrite Hdec. reflexivity.
Qed.

(** * 4. Tex coords portable *)


Lemma tc_uv_at_dom nc mn mx pre e u v : Forall (row_in nc mn mx) pre -> tc_uv_at pre e = Some (u, v) ->
  nc = 2%nat /\ mn <= u <= mx /\ mn <= v <= mx.
Proof.
  intros HF. unfold tc_uv_at. destruct (data_at pre e) as [r|] eqn:E; [|discriminate].
  destruct r as [|a [|b [|c r]]]; try discriminate. intros H; injection H as <- <-.
  destruct (proj1 (Forall_forall _ _) HF _ (data_at_in _ _ _ E)) as [L F].
  apply Forall_cons_iff in F. destruct F as [Ha F]. apply Forall_cons_iff in F. destruct F as [Hb _].
  cbn in L. repeat split; try lia.
Qed.

Definition tc_res_dom (r : tc_res) : Prop :=
  match r with TcPlain r => row_i32 2 r | TcOri a b => row_i32 2 a /\ row_i32 2 b end.

Lemma row2_i32 a b : i32 a -> i32 b -> row_i32 2 [a; b].
Proof. intros. split; [reflexivity|]. constructor; [assumption|]. constructor; [assumption|constructor]. Qed.

Lemma tc_oriented_dom n_uv p_uv tip nxt prv pn pn2 r : tc_oriented n_uv p_uv tip nxt prv pn pn2 = Some r -> tc_res_dom r.
Proof.
  unfold tc_oriented. destruct (_ >? _); [discriminate|]. destruct (_ >? _); [discriminate|].
  destruct pn as [[pn0 pn1] pn2']. destruct (_ >? _); [discriminate|]. destruct nxt as [[n0 n1] n2].
  destruct (int_sqrt _) as [norm|]; [|discriminate]. intros H; injection H as <-.
  split; apply row2_i32; apply to_i32_range.
Qed.

Lemma tc_compute_dom md mn mx pos pre i r : i32 mn -> i32 mx -> Forall (row_in 2 mn mx) pre ->
  tc_compute md pos pre i = Some r -> tc_res_dom r.
Proof.
  intros Hmn Hmx HF. unfold tc_compute.
  destruct (nth_error (md_d2c md) i) as [ci|]; [|discriminate].
  destruct (md_entry_of_corner md (next_c ci)) as [next_id|]; [|discriminate].
  destruct (md_entry_of_corner md (prev_c ci)) as [prev_id|]; [|discriminate].
  assert (Huv : forall e u v, tc_uv_at pre e = Some (u, v) -> row_i32 2 [u; v]).
  { intros e u v E. destruct (tc_uv_at_dom 2 mn mx pre e u v HF E) as (_ & Hu & Hv).
    unfold i32 in *. apply row2_i32; unfold i32; lia. }
  set (fallback := if next_id <? Z.of_nat i then _ else _).
  assert (Hfb : forall r, fallback = Some r -> tc_res_dom r).
  { unfold fallback. intros r0. destruct (next_id <? Z.of_nat i).
    - destruct (tc_uv_at pre next_id) as [[u v]|] eqn:E; [|discriminate]. intros H; injection H as <-. eapply Huv; exact E.
    - destruct (Z.of_nat i >? 0).
      + destruct (tc_uv_at pre (Z.of_nat i - 1)) as [[u v]|] eqn:E; [|discriminate]. intros H; injection H as <-. eapply Huv; exact E.
      + intros H; injection H as <-. apply row2_i32; unfold i32; lia. }
  destruct ((prev_id <? Z.of_nat i) && (next_id <? Z.of_nat i)); [|apply Hfb].
  destruct (tc_uv_at pre next_id) as [[nu nv]|] eqn:En; [|discriminate].
  destruct (tc_uv_at pre prev_id) as [[pu pv]|] eqn:Ep; [|discriminate].
  cbn [fst snd]. destruct ((pu =? nu) && (pv =? nv)).
  - intros H; injection H as <-. eapply Huv; exact Ep.
  - destruct (tc_pos_at pos (Z.of_nat i)) as [tip|]; [|discriminate].
    destruct (tc_pos_at pos next_id) as [nxt|]; [|discriminate].
    destruct (tc_pos_at pos prev_id) as [prv|]; [|discriminate].
    destruct (_ =? 0); [apply Hfb|apply tc_oriented_dom].
Qed.

Lemma tc_predict_enc_dom md mn mx pos pre i a p w : i32 mn -> i32 mx -> Forall (row_in 2 mn mx) pre ->
  tc_predict_enc md pos pre i a = Some (p, w) -> row_i32 2 p /\ (length w <= 1)%nat.
Proof.
  intros Hmn Hmx HF. unfold tc_predict_enc. destruct (tc_compute md pos pre i) as [r|] eqn:E; [|discriminate].
  pose proof (tc_compute_dom md mn mx pos pre i r Hmn Hmx HF E) as Hd.
  destruct r as [r|rt rf]; intros H; injection H as <- <-; cbn in *.
  - split; [assumption|lia].
  - destruct Hd. destruct a; split; try assumption; lia.
Qed.
Lemma tc_records_short md pos pre i a p w : tc_predict_enc md pos pre i a = Some (p, w) -> (length w <= 1)%nat.
Proof.
  unfold tc_predict_enc. destruct (tc_compute md pos pre i) as [[r|rt rf]|]; [| |discriminate];
  intros H; injection H as <- <-; cbn; lia.
Qed.

Definition tc_rep (ws : list (list bool)) (st : list bool) : Prop := st = concat ws.

Lemma tc_step md pos pre i a p w ws st :
  tc_predict_enc md pos pre i a = Some (p, w) -> tc_rep (w :: ws) st ->
  exists st', tc_predict_dec md pos pre i st = Some (p, st') /\ tc_rep ws st'.
Proof.
  unfold tc_predict_enc, tc_predict_dec, tc_rep. destruct (tc_compute md pos pre i) as [[r|rt rf]|]; [| |discriminate].
  - intros H; injection H as <- <-. cbn [concat app]. intros ->. eexists; split; reflexivity.
  - intros H; injection H as <- <-. cbn [concat app]. intros ->. eexists; split; reflexivity.
Qed.

Lemma tc_delta_roundtrip : forall v last, tc_delta_dec last (tc_delta_enc last v) = v.
Proof.
  induction v as [|o v IH]; intros last; [reflexivity|]. cbn [tc_delta_enc tc_delta_dec].
  assert (E : (if Bool.eqb o last then last else negb last) = o) by (destruct o, last; reflexivity).
  rewrite E, IH. reflexivity.
Qed.
Lemma tc_delta_length : forall v last, length (tc_delta_enc last v) = length v.
Proof. induction v; intros; cbn; auto. Qed.

Lemma tc_orientations_roundtrip ver numc vec ob rest :
  514 <= ver -> numc < 2 ^ 31 - 3 -> Z.of_nat (length vec) <= numc ->
  tc_enc_orientations vec = Some ob -> tc_dec_orientations ver numc (ob ++ rest) = Some (vec, rest).
Proof.
  intros Hver Hnumc Hlen. unfold tc_enc_orientations, tc_dec_orientations.
  destruct (ransbit_encode (tc_delta_enc true vec)) as [body|] eqn:Eb; [|discriminate].
  assert (Hsmall : Z.of_nat (length vec) mod 2 ^ 32 = Z.of_nat (length vec)) by (apply Z.mod_small; lia).
  remember (enc_le 4 (Z.of_nat (length vec) mod 2 ^ 32)) as hd eqn:Ehd.
  intros H; injection H as <-. subst hd. rewrite <- app_assoc.
  rewrite (le_roundtrips 4 (Z.of_nat (length vec) mod 2 ^ 32) _ _ (u32_range _) eq_refl). rewrite Hsmall.
  assert (Hi : i32_of_u32 (Z.of_nat (length vec)) = Z.of_nat (length vec)).
  { unfold i32_of_u32. destruct (Z.of_nat (length vec) <? 2 ^ 31) eqn:E; [reflexivity|]. apply Z.ltb_ge in E. lia. }
  rewrite Hi.
  assert (E1 : Z.of_nat (length vec) <? 0 = false) by (apply Z.ltb_ge; lia). rewrite E1.
  assert (E2 : Z.of_nat (length vec) >? numc = false) by (rewrite Z.gtb_ltb; apply Z.ltb_ge; lia). rewrite E2.
  destruct (ransbit_roundtrip ver (tc_delta_enc true vec) body rest Hver
              ltac:(rewrite tc_delta_length; lia) Eb) as (st & Hst & Hrd).
  rewrite Hst, Nat2Z.id. rewrite <- (tc_delta_length vec true), Hrd, tc_delta_roundtrip. reflexivity.
Qed.

Lemma concat_short_length (ws : list (list bool)) : Forall (fun w => (length w <= 1)%nat) ws ->
  (length (concat ws) <= length ws)%nat.
Proof. induction 1; cbn; [lia|]. rewrite app_length. lia. Qed.

Theorem tc_roundtrip ver md pos (data : list row) ori corr bs rest :
  514 <= ver -> md_num_corners md < 2 ^ 31 - 3 ->
  Z.of_nat (length data) <= md_num_corners md ->
  Forall (fun r => length r = 2%nat /\ Forall i32 r) data ->
  tc_encode md pos data ori = Some (corr, bs) ->
  tc_decode ver md pos corr (bs ++ rest) = Some (data, rest) /\ length corr = length data.
Proof.
  intros Hver Hnumc Hn HF. unfold tc_encode.
  destruct (sizes_ok _ _ _) eqn:Es; cbn [negb]; [|discriminate].
  destruct (sizes_ok_spec _ _ _ Es) as (Hd2c & Hn0 & Hnc).
  destruct (wrap_bounds_enc (concat data)) as [b|] eqn:Eb; [|discriminate].
  destruct (causal_enc (row_enc b) (tc_predict_enc md pos) data ori) as [[corr' ws]|] eqn:Ee; [|discriminate].
  destruct (tc_enc_orientations _) as [ob|] eqn:Eob; [|discriminate].
  intros H; injection H as <- <-.
  assert (Hne : data <> []) by (destruct data; [cbn in Hn0; congruence|congruence]).
  destruct (bounds_of_data 2 data b Hnc Hne HF Eb) as (Hmn & Hmx & Hrange & Hinit & Hdinit & HD).
  pose proof (causal_prediction_roundtrip (row_enc b) (row_dec b) (tc_predict_enc md pos) (tc_predict_dec md pos)
    (row_in 2 (wb_min b) (wb_max b)) (row_i32 2) tc_rep) as G.
  destruct G with (data := data) (choice := ori) (corr := corr') (ws := ws) (st0 := concat ws)
    as (Hlen & Hlw & st' & Hdec & _); try assumption.
  - intros o p Ho Hp. eapply (row_law (wb_min b) (wb_max b)); eassumption.
  - intros pre i a p w Hl Hpre HP. eapply (tc_predict_enc_dom md (wb_min b) (wb_max b)); eassumption.
  - intros pre i a p w ws0 st Hl Hpre HP HR. eapply tc_step; eassumption.
  - reflexivity.
  - split; [|exact Hlen]. unfold tc_decode. rewrite Hlen, Es. cbn [negb].
    pose proof (causal_enc_records (row_enc b) (tc_predict_enc md pos) (fun w => (length w <= 1)%nat) data ori corr' ws
                  (tc_records_short md pos) Ee) as Hshort.
    pose proof (concat_short_length ws Hshort) as Hcl.
    rewrite <- app_assoc.
    rewrite (tc_orientations_roundtrip ver (md_num_corners md) (rev (concat ws)) ob _ Hver Hnumc
               ltac:(rewrite rev_length; lia) Eob).
    rewrite wrap_data_roundtrip by assumption. rewrite rev_involutive, Hdec. reflexivity.
Qed.

(** * 5. The well-formedness the C++ assumes, and: under it the parallelogram encoder reads in bounds *)
Section Total.
  Context {E Pr C A W : Type}.
  Variable tenc : E -> Pr -> C.
  Variable Pe : list E -> nat -> A -> option (Pr * W).
  Lemma enc_down_total data choice :
    (forall i, (i < length data)%nat -> Pe (firstn i data) i (choice i) <> None) ->
    forall k out ws, (k <= length data)%nat -> enc_down tenc Pe data choice k out ws <> None.
  Proof.
    intros HP. induction k as [|i IH]; intros out ws Hk; cbn [enc_down]; [discriminate|].
    destruct (nth_error data i) as [o|] eqn:Eo; [|apply nth_error_None in Eo; lia].
    specialize (HP i ltac:(lia)). destruct (Pe (firstn i data) i (choice i)) as [[p w]|]; [|congruence].
    apply IH. lia.
  Qed.
End Total.

Lemma next_c_lt c nf : (c < 3 * nf -> next_c c < 3 * nf)%nat.
Proof.
  unfold next_c. intros H. destruct (Nat.eqb_spec (S c mod 3) 0) as [e|ne]; [lia|].
  destruct (Nat.eq_dec (S c) (3 * nf)) as [E|E]; [|lia].
  exfalso. apply ne. rewrite E, Nat.mul_comm. apply Nat.mod_mul. lia.
Qed.
Lemma prev_c_lt c nf : (c < 3 * nf -> prev_c c < 3 * nf)%nat.
Proof.
  unfold prev_c. intros H. destruct (Nat.eqb_spec (c mod 3) 0) as [e|ne]; [|lia].
  apply Nat.mod_divides in e; [|lia]. destruct e as [q ->]. lia.
Qed.

Lemma wf_entry md n c : md_wf md n -> (c < length (md_c2v md))%nat ->
  exists e, md_entry_of_corner md c = Some e /\ 0 <= e.
Proof.
  intros (_ & _ & _ & Hv & _) Hc. unfold md_entry_of_corner.
  destruct (nth_error (md_c2v md) c) as [v|] eqn:E; [|apply nth_error_None in E; lia].
  exact (proj1 (Forall_forall _ _) Hv v (nth_error_In _ _ E)).
Qed.

Lemma par_prediction_total md n (pre : list row) i ci : md_wf md n -> (ci < length (md_c2v md))%nat ->
  length pre = i -> par_prediction md pre (Z.of_nat i) ci <> None.
Proof.
  intros Hwf Hci Hl. pose proof Hwf as (Hlo & (nf & Hnf) & Ho & _).
  unfold par_prediction, md_opposite.
  destruct (nth_error (md_opp md) ci) as [o|] eqn:Eo; [|apply nth_error_None in Eo; lia].
  destruct o as [oci|]; [|discriminate].
  pose proof (proj1 (Forall_forall _ _) Ho _ (nth_error_In _ _ Eo)) as Hoci. cbn in Hoci.
  destruct (wf_entry md n oci Hwf Hoci) as (vo & -> & Hvo).
  destruct (wf_entry md n (next_c oci) Hwf ltac:(rewrite Hnf in *; apply next_c_lt; assumption)) as (vn & -> & Hvn).
  destruct (wf_entry md n (prev_c oci) Hwf ltac:(rewrite Hnf in *; apply prev_c_lt; assumption)) as (vp & -> & Hvp).
  destruct ((vo <? Z.of_nat i) && (vn <? Z.of_nat i) && (vp <? Z.of_nat i)) eqn:Et; [|discriminate].
  apply andb_true_iff in Et. destruct Et as [Et E3]. apply andb_true_iff in Et. destruct Et as [E1 E2].
  apply Z.ltb_lt in E1, E2, E3.
  assert (Hd : forall e, 0 <= e < Z.of_nat i -> data_at pre e <> None).
  { intros e He. unfold data_at. destruct (e <? 0) eqn:E; [apply Z.ltb_lt in E; lia|].
    intros Hn. apply nth_error_None in Hn. lia. }
  destruct (data_at pre vn) eqn:Dn; [|exfalso; apply (Hd vn); [lia|assumption]].
  destruct (data_at pre vp) eqn:Dp; [|exfalso; apply (Hd vp); [lia|assumption]].
  destruct (data_at pre vo) eqn:Do; [|exfalso; apply (Hd vo); [lia|assumption]].
  discriminate.
Qed.

Lemma par_predict_total md nc n (pre : list row) i : md_wf md n -> (i < n)%nat -> length pre = i ->
  par_predict md nc pre i <> None.
Proof.
  intros Hwf Hi Hl. unfold par_predict. destruct i as [|j]; [discriminate|].
  pose proof Hwf as (_ & _ & _ & _ & Hd & Hn).
  destruct (nth_error (md_d2c md) (S j)) as [ci|] eqn:Ec; [|apply nth_error_None in Ec; lia].
  pose proof (proj1 (Forall_forall _ _) Hd _ (nth_error_In _ _ Ec)) as Hci. cbn in Hci.
  pose proof (par_prediction_total md n pre (S j) ci Hwf Hci Hl) as Hp.
  destruct (par_prediction md pre (Z.of_nat (S j)) ci) as [[r|]|]; [discriminate| |congruence].
  intros Hn'. apply nth_error_None in Hn'. lia.
Qed.

(** Under [md_wf] (and the size contract), the parallelogram encoder fails only when the value range is too wide
    for the wrap transform: every array read of ComputeCorrectionValues is in bounds. *)
Theorem par_encode_total md nc (data : list row) :
  md_wf md (length data) -> data <> [] -> nc <> 0%nat ->
  wrap_bounds_enc (concat data) <> None -> par_encode md nc data <> None.
Proof.
  intros Hwf Hne Hnc Hb. unfold par_encode.
  assert (Es : sizes_ok md nc (length data) = true).
  { unfold sizes_ok. destruct Hwf as (_ & _ & _ & _ & _ & ->). rewrite Nat.eqb_refl.
    destruct data; [congruence|]. cbn [length]. destruct nc; [congruence|]. reflexivity. }
  rewrite Es. cbn [negb]. destruct (wrap_bounds_enc (concat data)) as [b|]; [|congruence].
  match goal with |- context [causal_enc ?a ?b ?c ?d] => destruct (causal_enc a b c d) as [[corr ws]|] eqn:Ee end; [discriminate|].
  exfalso. revert Ee. unfold causal_enc. apply enc_down_total; [|lia].
  intros i Hi. unfold stateless.
  pose proof (par_predict_total md nc (length data) (firstn i data) i Hwf Hi ltac:(rewrite firstn_length; lia)) as Hp.
  destruct (par_predict md nc (firstn i data) i); [discriminate|congruence].
Qed.

(** * 6. Signed overflow in the encoder's accumulation is reachable inside the 30-bit value range *)
Lemma mp_encoder_overflow_witness :
  exists md (data : list row) i preds,
    Forall (Forall (fun v => - 2 ^ 29 <= v < 2 ^ 29)) data /\
    mp_parallelograms md (firstn i data) i = Some preds /\ mp_sum_no_ub 1 preds = false.
Proof.
  exists (match ct_create [(0, 1, 2); (0, 2, 3); (0, 3, 4); (0, 4, 1); (5, 2, 1); (5, 3, 2); (5, 4, 3); (5, 1, 4)]%nat with
          | Some t => mk_md (ct_c2v t) (ct_opp t) [0; 1; 2; 5; 8; 12]%nat [0; 1; 2; 3; 4; 5]
          | None => mk_md [] [] [] []
          end),
         [[-268435456]; [268435456]; [268435456]; [268435456]; [268435456]; [268435451]], 5%nat,
         [[805306368]; [805306368]; [805306368]; [805306368]].
  split; [|split; vm_compute; reflexivity].
  repeat (constructor; [constructor; [lia|constructor]|]). constructor.
Qed.
