(** Proofs for Model/Predict.v (property C01, mesh prediction schemes).
    1. [causal_prediction_roundtrip]: the two loops (encoder descending over the original data, decoder ascending
       over the decoded data) meet, for ANY causal predictor with policy bits and ANY transform that inverts on a
       domain closed under the predictor's outputs.
    2. Instances: parallelogram, constrained multi-parallelogram (every crease assignment), tex coords portable
       (every orientation assignment), including the prediction-data bytes. *)
From Coq Require Import ZArith List Bool Arith Lia ZifyBool.
From Draco Require Import Base.Bits Base.Codec Model.Varint Model.Wrap Model.Octahedron Model.CornerTable Model.SeqAttr Model.BitCoders Model.Predict
  Proofs.Varint_proofs Proofs.Wrap_proofs Proofs.Octahedron_proofs Proofs.SeqAttr_proofs Proofs.BitCoders_proofs.
Import ListNotations.

(** * 1. The generic theorem *)


Section CausalProofs.
  Context {E Pr C A W St : Type}.
  Variable tenc : E -> Pr -> C.
  Variable tdec : Pr -> C -> E.
  Variable Pe : list E -> nat -> A -> option (Pr * W).
  Variable Pd : list E -> nat -> St -> option (Pr * St).
  Variable D : E -> Prop.
  Variable PD : Pr -> Prop.
  Variable Rep : list W -> St -> Prop.
  Hypothesis law : forall o p, D o -> PD p -> tdec p (tenc o p) = o.
  Hypothesis Pe_dom : forall pre i a p w, length pre = i -> Forall D pre -> Pe pre i a = Some (p, w) -> PD p.
  Hypothesis step : forall pre i a p w ws st, length pre = i -> Forall D pre ->
    Pe pre i a = Some (p, w) -> Rep (w :: ws) st ->
    exists st', Pd pre i st = Some (p, st') /\ Rep ws st'.

  Lemma Forall_firstn' {X} (P : X -> Prop) : forall n l, Forall P l -> Forall P (firstn n l).
  Proof. induction n as [|n IH]; intros [|x l] H; cbn; try constructor; inversion H; subst; auto. Qed.
  Lemma firstn_snoc {X} : forall (l : list X) i x, nth_error l i = Some x -> firstn i l ++ [x] = firstn (S i) l.
  Proof.
    induction l as [|y l IH]; intros [|i] x H; cbn in *; try discriminate.
    - injection H as ->. reflexivity.
    - f_equal. apply IH. exact H.
  Qed.

  Lemma dec_up_app : forall a b i out st,
    dec_up tdec Pd (a ++ b) i out st =
    match dec_up tdec Pd a i out st with
    | Some (out', st') => dec_up tdec Pd b (i + length a) out' st'
    | None => None
    end.
  Proof.
    induction a as [|c a IH]; intros b i out st; cbn [app dec_up length].
    - rewrite Nat.add_0_r. reflexivity.
    - destruct (Pd out i st) as [[p st']|]; [|reflexivity].
      rewrite IH. destruct (dec_up tdec Pd a (S i) (out ++ [tdec p c]) st') as [[o' s']|]; [|reflexivity].
      f_equal. lia.
  Qed.

  Lemma enc_down_dec data choice : Forall D data -> forall k out ws corr wsf,
    (k <= length data)%nat ->
    enc_down tenc Pe data choice k out ws = Some (corr, wsf) ->
    exists cs wl, corr = cs ++ out /\ wsf = wl ++ ws /\ length cs = k /\ length wl = k /\
      forall ws' st, Rep (wl ++ ws') st ->
        exists st', dec_up tdec Pd cs 0 [] st = Some (firstn k data, st') /\ Rep ws' st'.
  Proof.
    intros HD. induction k as [|i IH]; intros out ws corr wsf Hk Henc; cbn [enc_down] in Henc.
    - injection Henc as <- <-. exists [], []. split; [reflexivity|]. split; [reflexivity|].
      split; [reflexivity|]. split; [reflexivity|].
      intros ws' st HR. exists st. split; [reflexivity|exact HR].
    - destruct (nth_error data i) as [o|] eqn:Eo; [|discriminate].
      destruct (Pe (firstn i data) i (choice i)) as [[p w]|] eqn:EP; [|discriminate].
      destruct (IH _ _ _ _ ltac:(lia) Henc) as (cs & wl & -> & -> & Hlen & Hlw & Hdec).
      exists (cs ++ [tenc o p]), (wl ++ [w]). rewrite <- !app_assoc. cbn [app].
      split; [reflexivity|]. split; [reflexivity|]. split; [rewrite app_length; cbn; lia|].
      split; [rewrite app_length; cbn; lia|].
      intros ws' st HR. rewrite <- app_assoc in HR. cbn [app] in HR.
      destruct (Hdec _ _ HR) as (st1 & Hd1 & HR1).
      assert (Hpl: length (firstn i data) = i) by (rewrite firstn_length; lia).
      assert (HpD: Forall D (firstn i data)) by (apply Forall_firstn'; exact HD).
      destruct (step _ _ _ _ _ _ _ Hpl HpD EP HR1) as (st2 & Hd2 & HR2).
      exists st2. split; [|exact HR2].
      rewrite dec_up_app, Hd1. cbn [dec_up]. rewrite Hlen, Nat.add_0_l, Hd2. f_equal. f_equal.
      rewrite law.
      + apply firstn_snoc. exact Eo.
      + eapply Forall_forall; [exact HD|]. eapply nth_error_In; exact Eo.
      + eapply Pe_dom; eassumption.
  Qed.

  Theorem causal_prediction_roundtrip data choice corr ws st0 :
    Forall D data -> causal_enc tenc Pe data choice = Some (corr, ws) -> Rep ws st0 ->
    length corr = length data /\ length ws = length data /\
    exists st', causal_dec tdec Pd corr st0 = Some (data, st') /\ Rep [] st'.
  Proof.
    intros HD Henc HR. unfold causal_enc in Henc.
    destruct (enc_down_dec data choice HD _ _ _ _ _ (le_n _) Henc) as (cs & wl & -> & -> & Hlen & Hlw & Hdec).
    rewrite !app_nil_r in *. split; [exact Hlen|]. split; [exact Hlw|].
    destruct (Hdec [] st0 ltac:(rewrite app_nil_r; exact HR)) as (st' & Hd & HR').
    exists st'. split; [|exact HR']. unfold causal_dec. rewrite Hd, firstn_all. reflexivity.
  Qed.

  (** every record satisfies what the encoder-side predictor guarantees for its records *)
  Lemma enc_down_records (Q : W -> Prop) data choice :
    (forall pre i a p w, Pe pre i a = Some (p, w) -> Q w) ->
    forall k out ws corr wsf, Forall Q ws -> enc_down tenc Pe data choice k out ws = Some (corr, wsf) -> Forall Q wsf.
  Proof.
    intros HQ. induction k as [|i IH]; intros out ws corr wsf HF Henc; cbn [enc_down] in Henc.
    - injection Henc as <- <-. exact HF.
    - destruct (nth_error data i) as [o|]; [|discriminate].
      destruct (Pe (firstn i data) i (choice i)) as [[p w]|] eqn:EP; [|discriminate].
      eapply IH; [|exact Henc]. constructor; [eapply HQ; exact EP|exact HF].
  Qed.
  Lemma causal_enc_records (Q : W -> Prop) data choice corr ws :
    (forall pre i a p w, Pe pre i a = Some (p, w) -> Q w) ->
    causal_enc tenc Pe data choice = Some (corr, ws) -> Forall Q ws.
  Proof. intros HQ H. eapply enc_down_records; [exact HQ| |exact H]. constructor. Qed.
End CausalProofs.


Local Open Scope Z_scope.

(** * 2. Rows, the wrap transform on rows, the parallelogram scheme *)


(** rows *)
Definition row_in (nc : nat) (mn mx : Z) (r : row) : Prop := length r = nc /\ Forall (fun v => mn <= v <= mx) r.
Definition row_i32 (nc : nat) (r : row) : Prop := length r = nc /\ Forall i32 r.

Lemma map3_length f : forall a b c, length (map3 f a b c) = Nat.min (length a) (Nat.min (length b) (length c)).
Proof. induction a as [|x a IH]; intros [|y b] [|z c]; cbn [map3 length]; try reflexivity. rewrite IH. reflexivity. Qed.
Lemma map3_par_i32 : forall a b c, Forall i32 (map3 par_val a b c).
Proof. induction a as [|x a IH]; intros [|y b] [|z c]; cbn [map3]; constructor; [apply to_i32_range|apply IH]. Qed.
Lemma data_at_in pre e r : data_at pre e = Some r -> In r pre.
Proof. unfold data_at. destruct (e <? 0); [discriminate|]. apply nth_error_In. Qed.

Lemma row_in_i32 nc mn mx r : i32 mn -> i32 mx -> row_in nc mn mx r -> row_i32 nc r.
Proof. intros Hmn Hmx [Hl HF]. split; [exact Hl|]. eapply Forall_impl; [|exact HF]. unfold i32 in *. cbv beta. lia. Qed.

Lemma par_prediction_dom md nc mn mx pre p ci r : i32 mn -> i32 mx ->
  Forall (row_in nc mn mx) pre -> par_prediction md pre p ci = Some (Some r) -> row_i32 nc r.
Proof.
  intros Hmn Hmx HF. unfold par_prediction.
  destruct (md_opposite md ci) as [[oci|]|]; try discriminate.
  destruct (md_entry_of_corner md oci) as [vo|]; [|discriminate].
  destruct (md_entry_of_corner md (next_c oci)) as [vn|]; [|discriminate].
  destruct (md_entry_of_corner md (prev_c oci)) as [vp|]; [|discriminate].
  destruct ((vo <? p) && (vn <? p) && (vp <? p)); [|discriminate].
  destruct (data_at pre vn) as [rn|] eqn:En; [|discriminate].
  destruct (data_at pre vp) as [rp|] eqn:Ep; [|discriminate].
  destruct (data_at pre vo) as [ro|] eqn:Eo; [|discriminate].
  intros H. injection H as <-.
  pose proof (proj1 (Forall_forall _ _) HF _ (data_at_in _ _ _ En)) as [L1 _].
  pose proof (proj1 (Forall_forall _ _) HF _ (data_at_in _ _ _ Ep)) as [L2 _].
  pose proof (proj1 (Forall_forall _ _) HF _ (data_at_in _ _ _ Eo)) as [L3 _].
  split; [rewrite map3_length; lia|apply map3_par_i32].
Qed.

Lemma zeros_i32 nc : row_i32 nc (repeat 0 nc).
Proof. split; [apply repeat_length|]. apply Forall_repeat. unfold i32; lia. Qed.

Lemma par_predict_dom md nc mn mx pre i r : i32 mn -> i32 mx ->
  Forall (row_in nc mn mx) pre -> par_predict md nc pre i = Some r -> row_i32 nc r.
Proof.
  intros Hmn Hmx HF. unfold par_predict. destruct i as [|j].
  - intros H; injection H as <-. apply zeros_i32.
  - destruct (nth_error (md_d2c md) (S j)) as [ci|]; [|discriminate].
    destruct (par_prediction md pre (Z.of_nat (S j)) ci) as [[r'|]|] eqn:E; [| |discriminate].
    + intros H; injection H as <-. eapply (par_prediction_dom md nc mn mx); eassumption.
    + intros H. apply nth_error_In in H. eapply (row_in_i32 nc mn mx); try assumption.
      exact (proj1 (Forall_forall _ _) HF _ H).
Qed.

Lemma row_law mn mx b nc o p : i32 mn -> i32 mx -> 0 <= mx - mn < 2147483647 -> wrap_init mn mx = Some b ->
  row_in nc mn mx o -> row_i32 nc p -> row_dec b p (row_enc b o p) = o.
Proof.
  intros Hmn Hmx Hd Hb [Lo Fo] [Lp Fp]. unfold row_dec, row_enc.
  apply (row_roundtrip mn mx b Hmn Hmx Hd Hb); [exact Fo|exact Fp|lia].
Qed.

Lemma wrap_data_roundtrip b rest : i32 (wb_min b) -> i32 (wb_max b) -> wrap_dec_init (wb_min b) (wb_max b) = Some b ->
  wrap_data_dec (wrap_data_enc b ++ rest) = Some (b, rest).
Proof.
  intros Hmn Hmx Hi. unfold wrap_data_dec, wrap_data_enc. rewrite <- app_assoc.
  rewrite (le_roundtrips 4 (wb_min b mod 2 ^ 32) _ _ (u32_range _) eq_refl).
  rewrite (le_roundtrips 4 (wb_max b mod 2 ^ 32) _ _ (u32_range _) eq_refl).
  rewrite !i32_of_u32_mod by assumption. rewrite Hi. reflexivity.
Qed.

(** what Init establishes from the data *)
Lemma bounds_of_data nc data b : (nc <> 0)%nat -> data <> [] ->
  Forall (fun r => length r = nc /\ Forall i32 r) data -> wrap_bounds_enc (concat data) = Some b ->
  i32 (wb_min b) /\ i32 (wb_max b) /\ 0 <= wb_max b - wb_min b < 2147483647 /\
  wrap_init (wb_min b) (wb_max b) = Some b /\ wrap_dec_init (wb_min b) (wb_max b) = Some b /\
  Forall (row_in nc (wb_min b) (wb_max b)) data.
Proof.
  intros Hnc Hne HF Hb.
  assert (Hi : Forall i32 (concat data)).
  { apply Forall_concat. eapply Forall_impl; [|exact HF]. cbv beta; tauto. }
  assert (Hcne : concat data <> []).
  { destruct data as [|r0 rs]; [congruence|]. apply Forall_cons_iff in HF. destruct HF as [[Hl _] _].
    destruct r0; [cbn in Hl; lia|]. cbn. congruence. }
  destruct (wrap_bounds_enc_ok (concat data) b Hcne Hi Hb) as (H1 & H2 & H3 & H4 & H5 & H6).
  repeat (split; [assumption|]).
  apply Forall_forall. intros r Hr. split; [exact (proj1 (proj1 (Forall_forall _ _) HF r Hr))|].
  apply Forall_forall. intros v Hv. apply (proj1 (Forall_forall _ _) H6 v). apply in_concat. exists r. split; assumption.
Qed.

Lemma sizes_ok_spec md nc n : sizes_ok md nc n = true -> length (md_d2c md) = n /\ n <> 0%nat /\ nc <> 0%nat.
Proof.
  unfold sizes_ok. intros H. apply andb_true_iff in H. destruct H as [H H3]. apply andb_true_iff in H. destruct H as [H1 H2].
  apply Nat.eqb_eq in H1. apply negb_true_iff in H2, H3. apply Nat.eqb_neq in H2, H3. tauto.
Qed.

Theorem par_roundtrip md nc data corr bs rest :
  Forall (fun r => length r = nc /\ Forall i32 r) data ->
  par_encode md nc data = Some (corr, bs) ->
  par_decode md nc corr (bs ++ rest) = Some (data, rest) /\ length corr = length data.
Proof.
  intros HF. unfold par_encode.
  destruct (sizes_ok _ _ _) eqn:Es; cbn [negb]; [|discriminate].
  destruct (sizes_ok_spec _ _ _ Es) as (Hd2c & Hn & Hnc).
  destruct (wrap_bounds_enc (concat data)) as [b|] eqn:Eb; [|discriminate].
  match goal with |- context [causal_enc ?a ?b ?c ?d] => destruct (causal_enc a b c d) as [[corr' ws]|] eqn:Ee; [|discriminate] end.
  intros H; injection H as <- <-.
  assert (Hne : data <> []) by (destruct data; [cbn in Hn; congruence|congruence]).
  destruct (bounds_of_data nc data b Hnc Hne HF Eb) as (Hmn & Hmx & Hrange & Hinit & Hdinit & HD).
  pose proof (causal_prediction_roundtrip (row_enc b) (row_dec b)
    (fun pre i (_ : unit) => stateless (par_predict md nc pre i) tt tt)
    (fun pre i (_ : unit) => stateless (par_predict md nc pre i) tt tt)
    (row_in nc (wb_min b) (wb_max b)) (row_i32 nc) (fun _ _ => True)) as G.
  destruct (G) with (data := data) (choice := fun _ : nat => tt) (corr := corr') (ws := ws) (st0 := tt)
    as (Hlen & _ & st' & Hdec & _); try assumption; try exact I.
  - intros o p Ho Hp. eapply (row_law (wb_min b) (wb_max b)); eassumption.
  - intros pre i a p w Hl Hpre. unfold stateless. destruct (par_predict md nc pre i) eqn:E; [|discriminate].
    intros H; injection H as <- _. eapply (par_predict_dom md nc (wb_min b) (wb_max b)); eassumption.
  - intros pre i a p w ws0 st Hl Hpre HP _. exists tt. split; [|exact I].
    unfold stateless in *. destruct (par_predict md nc pre i); [|discriminate]. injection HP as <- _. reflexivity.
  - split; [|exact Hlen]. unfold par_decode. rewrite Hlen, Es. cbn [negb].
    rewrite wrap_data_roundtrip by assumption. rewrite Hdec. reflexivity.
Qed.

(** * 3. Constrained multi-parallelogram *)


Lemma upd_len {A} (l : list A) i x : length (upd l i x) = length l.
Proof. revert i; induction l; intros [|i]; cbn; auto. Qed.
Lemma nth_upd_same {A} (l : list A) i x d : (i < length l)%nat -> nth i (upd l i x) d = x.
Proof. revert i; induction l; intros [|i] H; cbn in *; try lia; auto. apply IHl. lia. Qed.
Lemma nth_upd_other {A} (l : list A) i j x d : i <> j -> nth j (upd l i x) d = nth j l d.
Proof. revert i j; induction l; intros [|i] [|j] H; cbn; auto; try congruence. Qed.

(** ** the parallelograms found are int32 rows, at most four *)
Lemma mp_collect_dom md nc mn mx pre p start : i32 mn -> i32 mx -> Forall (row_in nc mn mx) pre ->
  forall fuel corner fp acc res, Forall (row_i32 nc) acc -> (length acc < 4)%nat ->
  mp_collect fuel md pre p start corner fp acc = Some res ->
  Forall (row_i32 nc) res /\ (length res <= 4)%nat.
Proof.
  intros Hmn Hmx HF. induction fuel as [|f IH]; intros corner fp acc res Hacc Hlen; cbn [mp_collect].
  - destruct corner; [discriminate|]. intros H; injection H as <-. split; [assumption|lia].
  - destruct corner as [c|]; [|intros H; injection H as <-; split; [assumption|lia]].
    destruct (par_prediction md pre p c) as [r|] eqn:Er; [|discriminate].
    set (acc' := match r with Some v => acc ++ [v] | None => acc end).
    assert (Hacc' : Forall (row_i32 nc) acc').
    { unfold acc'. destruct r as [v|]; [|assumption]. apply Forall_app. split; [assumption|]. constructor; [|constructor].
      eapply (par_prediction_dom md nc mn mx); eassumption. }
    assert (Hlen' : (length acc' <= 4)%nat).
    { unfold acc'. destruct r; [rewrite app_length; cbn; lia|lia]. }
    destruct ((match r with Some _ => true | None => false end) && (length acc' =? kMaxNumParallelograms)%nat) eqn:Efull.
    { intros H; injection H as <-. split; assumption. }
    assert (Hlt : (length acc' < 4)%nat).
    { apply andb_false_iff in Efull. destruct Efull as [E|E].
      - destruct r; [discriminate|]. unfold acc'. exact Hlen.
      - apply Nat.eqb_neq in E. unfold kMaxNumParallelograms in E. lia. }
    destruct (if fp then md_swing_left md c else md_swing_right md c) as [nxt|]; [|discriminate].
    destruct nxt as [c'|].
    + destruct (c' =? start)%nat; [intros H; injection H as <-; split; [assumption|lia]|].
      apply IH; assumption.
    + destruct fp; [|intros H; injection H as <-; split; [assumption|lia]].
      destruct (md_swing_right md start) as [nxt2|]; [|discriminate]. apply IH; assumption.
Qed.

Lemma mp_parallelograms_dom md nc mn mx pre i preds : i32 mn -> i32 mx -> Forall (row_in nc mn mx) pre ->
  mp_parallelograms md pre i = Some preds -> Forall (row_i32 nc) preds /\ (length preds <= 4)%nat.
Proof.
  intros Hmn Hmx HF. unfold mp_parallelograms. destruct (nth_error (md_d2c md) i); [|discriminate].
  apply (mp_collect_dom md nc mn mx); try assumption; [constructor|cbn; lia].
Qed.

Lemma mp_used_dom nc : forall preds crease, Forall (row_i32 nc) preds -> Forall (row_i32 nc) (mp_used preds crease).
Proof.
  induction preds as [|r preds IH]; intros [|f crease] HF; cbn [mp_used]; try constructor.
  inversion HF; subst. destruct f; [apply IH; assumption|constructor; [assumption|apply IH; assumption]].
Qed.

Lemma map2_add32_dom nc a r : row_i32 nc a -> row_i32 nc r -> row_i32 nc (map2 add32 a r).
Proof.
  intros [La Fa] [Lr Fr]. split; [rewrite map2_length; lia|].
  clear. revert r. induction a as [|x a IH]; intros [|y r]; cbn [map2]; constructor; [apply to_i32_range|apply IH].
Qed.
Lemma mp_sum_dom nc used : Forall (row_i32 nc) used -> row_i32 nc (mp_sum nc used).
Proof.
  unfold mp_sum. generalize (zeros_i32 nc). generalize (repeat 0 nc). induction used as [|r used IH]; intros acc Hacc HF; cbn [fold_left]; [assumption|].
  inversion HF; subst. apply IH; [apply map2_add32_dom; assumption|assumption].
Qed.
Lemma quot_i32 s k : i32 s -> 1 <= k -> i32 (Z.quot s k).
Proof.
  unfold i32. intros Hs Hk.
  assert (Hpos : forall a, 0 <= a -> 0 <= Z.quot a k <= a).
  { intros a Ha. split; [apply Z.quot_pos; lia|]. apply Z.quot_le_upper_bound; [lia|]. nia. }
  destruct (Z.le_gt_cases 0 s).
  - pose proof (Hpos s ltac:(lia)). lia.
  - assert (E : Z.quot s k = - Z.quot (- s) k) by (rewrite Z.quot_opp_l by lia; lia).
    pose proof (Hpos (- s) ltac:(lia)). lia.
Qed.

Lemma mp_combine_dom nc mn mx preds crease delta r : i32 mn -> i32 mx ->
  Forall (row_i32 nc) preds -> (forall d, delta = Some d -> row_i32 nc d) ->
  mp_combine nc preds crease delta = Some r -> row_i32 nc r.
Proof.
  intros Hmn Hmx HF Hd. unfold mp_combine.
  pose proof (mp_used_dom nc preds crease HF) as HU.
  destruct (mp_used preds crease) as [|u used] eqn:Eu; [apply Hd|].
  intros H; injection H as <-.
  destruct (mp_sum_dom nc (u :: used) HU) as [Ls Fs].
  split; [rewrite map_length; exact Ls|].
  apply Forall_forall. intros v Hv. apply in_map_iff in Hv. destruct Hv as (s & <- & Hs).
  apply quot_i32; [exact (proj1 (Forall_forall _ _) Fs s Hs)|]. cbn [length]. lia.
Qed.

Lemma mp_predict_enc_dom md nc mn mx pre i a p w : i32 mn -> i32 mx -> Forall (row_in nc mn mx) pre ->
  mp_predict_enc md nc pre i a = Some (p, w) -> row_i32 nc p.
Proof.
  intros Hmn Hmx HF. unfold mp_predict_enc. destruct i as [|j].
  - intros H; injection H as <- _. apply zeros_i32.
  - destruct (mp_parallelograms md pre (S j)) as [preds|] eqn:Ep; [|discriminate].
    destruct (mp_parallelograms_dom md nc mn mx pre (S j) preds Hmn Hmx HF Ep) as [Hp _].
    destruct (mp_combine nc preds _ (nth_error pre j)) as [r|] eqn:Ec; [|discriminate].
    intros H; injection H as <- _.
    eapply (mp_combine_dom nc mn mx); try eassumption.
    intros d Hd. apply nth_error_In in Hd. apply (row_in_i32 nc mn mx); try assumption.
    exact (proj1 (Forall_forall _ _) HF _ Hd).
Qed.

(** ** the reader state represents the records of the entries still to come *)
Definition mp_ctx (ws : list (list bool)) (k : nat) : list bool :=
  concat (filter (fun w => (length w =? S k)%nat) ws).
Definition mp_rep (ws : list (list bool)) (st : list (list bool)) : Prop :=
  length st = 4%nat /\ forall k, (k < 4)%nat -> nth k st [] = mp_ctx ws k.

Lemma mp_ctx_nil ws k : mp_ctx ([] :: ws) k = mp_ctx ws k.
Proof. reflexivity. Qed.
Lemma mp_ctx_same w ws k : length w = S k -> mp_ctx (w :: ws) k = w ++ mp_ctx ws k.
Proof. intros H. unfold mp_ctx. cbn [filter]. rewrite H, Nat.eqb_refl. reflexivity. Qed.
Lemma mp_ctx_other w ws k : length w <> S k -> mp_ctx (w :: ws) k = mp_ctx ws k.
Proof. intros H. unfold mp_ctx. cbn [filter]. apply Nat.eqb_neq in H. rewrite H. reflexivity. Qed.

Lemma mp_step md nc mn mx pre i a p w ws st : i32 mn -> i32 mx -> Forall (row_in nc mn mx) pre ->
  mp_predict_enc md nc pre i a = Some (p, w) -> mp_rep (w :: ws) st ->
  exists st', mp_predict_dec md nc pre i st = Some (p, st') /\ mp_rep ws st'.
Proof.
  intros Hmn Hmx HF. unfold mp_predict_enc, mp_predict_dec. destruct i as [|j].
  - intros H; injection H as <- <-. intros HR. exists st. split; [reflexivity|]. exact HR.
  - destruct (mp_parallelograms md pre (S j)) as [preds|] eqn:Ep; [|discriminate].
    destruct (mp_parallelograms_dom md nc mn mx pre (S j) preds Hmn Hmx HF Ep) as [_ Hle].
    set (flags := map a (seq 0 (length preds))).
    assert (Hfl : length flags = length preds) by (unfold flags; rewrite map_length, seq_length; reflexivity).
    destruct (mp_combine nc preds flags (nth_error pre j)) as [r|] eqn:Ec; [|discriminate].
    intros H; injection H as <- <-. intros [Hl4 HR].
    destruct (length preds) as [|ctx] eqn:Enp.
    + destruct flags; [|discriminate]. unfold mp_combine in Ec.
      replace (mp_used preds []) with (@nil row) in Ec by (destruct preds; reflexivity).
      rewrite Ec. exists st. split; [reflexivity|]. split; [exact Hl4|]. intros k Hk. rewrite (HR k Hk). reflexivity.
    + assert (Hctx : (ctx < 4)%nat) by lia.
      pose proof (HR ctx Hctx) as Hs. rewrite (mp_ctx_same flags ws ctx Hfl) in Hs.
      destruct (nth_error st ctx) as [stream|] eqn:Est; [|apply nth_error_None in Est; lia].
      assert (stream = flags ++ mp_ctx ws ctx) by (rewrite <- Hs; symmetry; apply nth_error_nth; exact Est). subst stream.
      replace (length (flags ++ mp_ctx ws ctx) <? S ctx)%nat with false
        by (symmetry; apply Nat.ltb_ge; rewrite app_length; lia).
      rewrite <- Hfl, firstn_app_exact, skipn_app_exact, Ec.
      eexists. split; [reflexivity|]. split; [rewrite upd_len; exact Hl4|].
      intros k Hk. destruct (Nat.eq_dec k ctx) as [->|Hne].
      * rewrite nth_upd_same by lia. reflexivity.
      * rewrite nth_upd_other by congruence. rewrite (HR k Hk). apply mp_ctx_other. lia.
Qed.

(** ** EncodePredictionData regroups the encoder's vectors into decoder order *)
Lemma mp_regroup_groups (m : nat) : (0 < m)%nat -> forall gs suffix fuel,
  Forall (fun g : list bool => length g = m) gs -> (length gs < fuel)%nat ->
  mp_regroup_from fuel m (concat (rev gs) ++ suffix) (Z.of_nat (length (concat (rev gs))) - Z.of_nat m) = concat gs.
Proof.
  intros Hm. induction gs as [|g gs IH]; intros suffix fuel HF Hfuel.
  - destruct fuel; [cbn in Hfuel; lia|]. cbn [mp_regroup_from rev concat length].
    assert (E : Z.of_nat 0 - Z.of_nat m <? 0 = true) by (apply Z.ltb_lt; lia). rewrite E. reflexivity.
  - inversion HF; subst. destruct fuel as [|f]; [cbn in Hfuel; lia|]. cbn [length] in Hfuel.
    cbn [rev]. rewrite concat_app. cbn [concat]. rewrite app_nil_r. set (A := concat (rev gs)).
    rewrite app_length. cbn [mp_regroup_from].
    replace (Z.of_nat (length A + length g) - Z.of_nat (length g)) with (Z.of_nat (length A)) by lia.
    assert (E : Z.of_nat (length A) <? 0 = false) by (apply Z.ltb_ge; lia). rewrite E.
    rewrite Nat2Z.id, <- !app_assoc, skipn_app_exact, firstn_app_exact.
    cbn [concat]. f_equal. unfold A. apply IH; [assumption|lia].
Qed.

Lemma filter_len_groups (k : nat) (ws : list (list bool)) :
  Forall (fun g : list bool => length g = S k) (filter (fun w => (length w =? S k)%nat) ws).
Proof. apply Forall_forall. intros g Hg. apply filter_In in Hg. apply Nat.eqb_eq. tauto. Qed.

Lemma concat_groups_length (m : nat) (gs : list (list bool)) : (0 < m)%nat ->
  Forall (fun g : list bool => length g = m) gs -> (length gs <= length (concat gs))%nat.
Proof. intros Hm HF. induction HF; cbn; [lia|]. rewrite app_length. lia. Qed.

Lemma mp_regroup_vector ws k : mp_regroup (S k) (mp_enc_vector ws k) = mp_ctx ws k.
Proof.
  unfold mp_regroup, mp_enc_vector, mp_ctx. set (gs := filter _ ws).
  pose proof (filter_len_groups k ws) as HF. fold gs in HF.
  pose proof (mp_regroup_groups (S k) ltac:(lia) gs [] (S (length (concat (rev gs)))) HF) as H.
  rewrite app_nil_r in H. apply H.
  assert (Hr : Forall (fun g : list bool => length g = S k) (rev gs)) by (apply Forall_rev; exact HF).
  pose proof (concat_groups_length (S k) (rev gs) ltac:(lia) Hr). rewrite rev_length in *. lia.
Qed.
Lemma mp_vector_length ws k : length (mp_enc_vector ws k) = length (mp_ctx ws k).
Proof.
  unfold mp_enc_vector, mp_ctx. generalize (filter (fun w : list bool => (length w =? S k)%nat) ws). intros gs.
  induction gs as [|g gs IH]; [reflexivity|]. cbn [rev concat]. rewrite concat_app, !app_length, IH. cbn [concat]. rewrite app_nil_r. lia.
Qed.

(** one context through the bytes *)
Lemma mp_context_roundtrip ver numc ws k bs rest :
  514 <= ver -> numc + 3 < 2 ^ 32 -> Z.of_nat (length (mp_enc_vector ws k)) <= numc ->
  mp_enc_context k (mp_enc_vector ws k) = Some bs ->
  mp_dec_context ver numc (bs ++ rest) = Some (mp_ctx ws k, rest).
Proof.
  intros Hver Hnumc Hlen. unfold mp_enc_context, mp_dec_context.
  set (vec := mp_enc_vector ws k) in *.
  assert (Hsmall : Z.of_nat (length vec) mod 2 ^ 32 = Z.of_nat (length vec)) by (apply Z.mod_small; lia).
  rewrite Hsmall.
  destruct (enc_varint_u (Z.of_nat (length vec))) as [hd|] eqn:Eh; [|discriminate].
  destruct (length vec =? 0)%nat eqn:E0.
  - intros H; injection H as <-. apply Nat.eqb_eq in E0.
    rewrite (varint_u_roundtrips 32 ltac:(right; right; left; reflexivity) (Z.of_nat (length vec)) hd rest); [| |exact Eh].
    2:{ lia. }
    replace (Z.of_nat (length vec) >? numc) with false by lia.
    replace (Z.of_nat (length vec) =? 0) with true by lia.
    unfold vec in E0. rewrite mp_vector_length in E0. destruct (mp_ctx ws k); [reflexivity|discriminate].
  - apply Nat.eqb_neq in E0.
    destruct (ransbit_encode (mp_regroup (S k) vec)) as [body|] eqn:Eb; [|discriminate].
    intros H; injection H as <-. rewrite <- app_assoc.
    rewrite (varint_u_roundtrips 32 ltac:(right; right; left; reflexivity) (Z.of_nat (length vec)) hd (body ++ rest)); [| |exact Eh].
    2:{ lia. }
    replace (Z.of_nat (length vec) >? numc) with false by lia.
    replace (Z.of_nat (length vec) =? 0) with false by lia.
    unfold vec in Eb. rewrite mp_regroup_vector in Eb.
    assert (Hl : length vec = length (mp_ctx ws k)) by apply mp_vector_length.
    destruct (ransbit_roundtrip ver (mp_ctx ws k) body rest Hver ltac:(lia) Eb) as (st & Hst & Hrd).
    rewrite Hst, Nat2Z.id, Hl, Hrd. reflexivity.
Qed.

Lemma mp_contexts_roundtrip ver numc ws : 514 <= ver -> numc + 3 < 2 ^ 32 ->
  forall n k bs rest,
  (forall j, (k <= j < k + n)%nat -> Z.of_nat (length (mp_enc_vector ws j)) <= numc) ->
  mp_enc_contexts (map (mp_enc_vector ws) (seq k n)) k = Some bs ->
  mp_dec_contexts n ver numc (bs ++ rest) = Some (map (mp_ctx ws) (seq k n), rest).
Proof.
  intros Hver Hnumc. induction n as [|n IH]; intros k bs rest Hlen; cbn [seq map mp_enc_contexts mp_dec_contexts].
  - intros H; injection H as <-. reflexivity.
  - destruct (mp_enc_context k (mp_enc_vector ws k)) as [a|] eqn:Ea; [|discriminate].
    destruct (mp_enc_contexts (map (mp_enc_vector ws) (seq (S k) n)) (S k)) as [b|] eqn:Eb; [|discriminate].
    intros H; injection H as <-. rewrite <- app_assoc.
    rewrite (mp_context_roundtrip ver numc ws k a (b ++ rest) Hver Hnumc (Hlen k ltac:(lia)) Ea).
    rewrite (IH (S k) b rest ltac:(intros j Hj; apply Hlen; lia) Eb). reflexivity.
Qed.

Lemma mp_rep_init ws : mp_rep ws (map (mp_ctx ws) (seq 0 4)).
Proof.
  split; [reflexivity|]. intros k Hk.
  destruct k as [|[|[|[|k]]]]; try reflexivity. lia.
Qed.

Theorem mp_roundtrip ver md nc data crease corr bs rest :
  514 <= ver -> md_num_corners md + 3 < 2 ^ 32 ->
  Forall (fun r => length r = nc /\ Forall i32 r) data ->
  mp_guard_ok md nc data crease ->
  mp_encode md nc data crease = Some (corr, bs) ->
  mp_decode ver md nc corr (bs ++ rest) = Some (data, rest) /\ length corr = length data.
Proof.
  intros Hver Hnumc HF Hguard. unfold mp_encode.
  destruct (sizes_ok _ _ _) eqn:Es; cbn [negb]; [|discriminate].
  destruct (sizes_ok_spec _ _ _ Es) as (Hd2c & Hn & Hnc).
  destruct (wrap_bounds_enc (concat data)) as [b|] eqn:Eb; [|discriminate].
  destruct (causal_enc (row_enc b) (mp_predict_enc md nc) data crease) as [[corr' ws]|] eqn:Ee; [|discriminate].
  destruct (mp_enc_contexts _ 0) as [fb|] eqn:Efb; [|discriminate].
  intros H; injection H as <- <-.
  assert (Hne : data <> []) by (destruct data; [cbn in Hn; congruence|congruence]).
  destruct (bounds_of_data nc data b Hnc Hne HF Eb) as (Hmn & Hmx & Hrange & Hinit & Hdinit & HD).
  assert (Hrec : mp_records md nc data crease = Some ws) by (unfold mp_records; rewrite Eb, Ee; reflexivity).
  pose proof (causal_prediction_roundtrip (row_enc b) (row_dec b) (mp_predict_enc md nc) (mp_predict_dec md nc)
    (row_in nc (wb_min b) (wb_max b)) (row_i32 nc) mp_rep) as G.
  destruct G with (data := data) (choice := crease) (corr := corr') (ws := ws) (st0 := map (mp_ctx ws) (seq 0 4))
    as (Hlen & _ & st' & Hdec & _); try assumption.
  - intros o p Ho Hp. eapply (row_law (wb_min b) (wb_max b)); eassumption.
  - intros pre i a p w Hl Hpre HP. eapply (mp_predict_enc_dom md nc (wb_min b) (wb_max b)); eassumption.
  - intros pre i a p w ws0 st Hl Hpre HP HR. eapply (mp_step md nc (wb_min b) (wb_max b)); eassumption.
  - apply mp_rep_init.
  - split; [|exact Hlen]. unfold mp_decode. rewrite Hlen, Es. cbn [negb].
    rewrite <- app_assoc.
    rewrite (mp_contexts_roundtrip ver (md_num_corners md) ws Hver Hnumc 4 0 fb _
               ltac:(intros j Hj; apply (Hguard ws Hrec); lia) Efb).
    rewrite wrap_data_roundtrip by assumption. rewrite Hdec. reflexivity.
Qed.

(** * 4. Tex coords portable *)


Lemma tc_uv_at_dom nc mn mx pre e u v : Forall (row_in nc mn mx) pre -> tc_uv_at pre e = Some (u, v) ->
  nc = 2%nat /\ mn <= u <= mx /\ mn <= v <= mx.
Proof.
  intros HF. unfold tc_uv_at. destruct (data_at pre e) as [r|] eqn:E; [|discriminate].
  destruct r as [|a [|b [|c r]]]; try discriminate. intros H; injection H as <- <-.
  destruct (proj1 (Forall_forall _ _) HF _ (data_at_in _ _ _ E)) as [L F].
  apply Forall_cons_iff in F. destruct F as [Ha F]. apply Forall_cons_iff in F. destruct F as [Hb _].
  cbn in L. repeat split; try lia.
Qed.

Definition tc_res_dom (r : tc_res) : Prop :=
  match r with TcPlain r => row_i32 2 r | TcOri a b => row_i32 2 a /\ row_i32 2 b end.

Lemma row2_i32 a b : i32 a -> i32 b -> row_i32 2 [a; b].
Proof. intros. split; [reflexivity|]. constructor; [assumption|]. constructor; [assumption|constructor]. Qed.

Lemma tc_oriented_dom n_uv p_uv tip nxt prv pn pn2 r : tc_oriented n_uv p_uv tip nxt prv pn pn2 = Some r -> tc_res_dom r.
Proof.
  unfold tc_oriented. destruct (_ >? _); [discriminate|]. destruct (_ >? _); [discriminate|].
  destruct pn as [[pn0 pn1] pn2']. destruct (_ >? _); [discriminate|]. destruct nxt as [[n0 n1] n2].
  destruct (int_sqrt _) as [norm|]; [|discriminate]. intros H; injection H as <-.
  split; apply row2_i32; apply to_i32_range.
Qed.

Lemma tc_compute_dom md mn mx pos pre i r : i32 mn -> i32 mx -> Forall (row_in 2 mn mx) pre ->
  tc_compute md pos pre i = Some r -> tc_res_dom r.
Proof.
  intros Hmn Hmx HF. unfold tc_compute.
  destruct (nth_error (md_d2c md) i) as [ci|]; [|discriminate].
  destruct (md_entry_of_corner md (next_c ci)) as [next_id|]; [|discriminate].
  destruct (md_entry_of_corner md (prev_c ci)) as [prev_id|]; [|discriminate].
  assert (Huv : forall e u v, tc_uv_at pre e = Some (u, v) -> row_i32 2 [u; v]).
  { intros e u v E. destruct (tc_uv_at_dom 2 mn mx pre e u v HF E) as (_ & Hu & Hv).
    unfold i32 in *. apply row2_i32; unfold i32; lia. }
  set (fallback := if next_id <? Z.of_nat i then _ else _).
  assert (Hfb : forall r, fallback = Some r -> tc_res_dom r).
  { unfold fallback. intros r0. destruct (next_id <? Z.of_nat i).
    - destruct (tc_uv_at pre next_id) as [[u v]|] eqn:E; [|discriminate]. intros H; injection H as <-. eapply Huv; exact E.
    - destruct (Z.of_nat i >? 0).
      + destruct (tc_uv_at pre (Z.of_nat i - 1)) as [[u v]|] eqn:E; [|discriminate]. intros H; injection H as <-. eapply Huv; exact E.
      + intros H; injection H as <-. apply row2_i32; unfold i32; lia. }
  destruct ((prev_id <? Z.of_nat i) && (next_id <? Z.of_nat i)); [|apply Hfb].
  destruct (tc_uv_at pre next_id) as [[nu nv]|] eqn:En; [|discriminate].
  destruct (tc_uv_at pre prev_id) as [[pu pv]|] eqn:Ep; [|discriminate].
  cbn [fst snd]. destruct ((pu =? nu) && (pv =? nv)).
  - intros H; injection H as <-. eapply Huv; exact Ep.
  - destruct (tc_pos_at pos (Z.of_nat i)) as [tip|]; [|discriminate].
    destruct (tc_pos_at pos next_id) as [nxt|]; [|discriminate].
    destruct (tc_pos_at pos prev_id) as [prv|]; [|discriminate].
    destruct (_ =? 0); [apply Hfb|apply tc_oriented_dom].
Qed.

Lemma tc_predict_enc_dom md mn mx pos pre i a p w : i32 mn -> i32 mx -> Forall (row_in 2 mn mx) pre ->
  tc_predict_enc md pos pre i a = Some (p, w) -> row_i32 2 p /\ (length w <= 1)%nat.
Proof.
  intros Hmn Hmx HF. unfold tc_predict_enc. destruct (tc_compute md pos pre i) as [r|] eqn:E; [|discriminate].
  pose proof (tc_compute_dom md mn mx pos pre i r Hmn Hmx HF E) as Hd.
  destruct r as [r|rt rf]; intros H; injection H as <- <-; cbn in *.
  - split; [assumption|lia].
  - destruct Hd. destruct a; split; try assumption; lia.
Qed.
Lemma tc_records_short md pos pre i a p w : tc_predict_enc md pos pre i a = Some (p, w) -> (length w <= 1)%nat.
Proof.
  unfold tc_predict_enc. destruct (tc_compute md pos pre i) as [[r|rt rf]|]; [| |discriminate];
  intros H; injection H as <- <-; cbn; lia.
Qed.

Definition tc_rep (ws : list (list bool)) (st : list bool) : Prop := st = concat ws.

Lemma tc_step md pos pre i a p w ws st :
  tc_predict_enc md pos pre i a = Some (p, w) -> tc_rep (w :: ws) st ->
  exists st', tc_predict_dec md pos pre i st = Some (p, st') /\ tc_rep ws st'.
Proof.
  unfold tc_predict_enc, tc_predict_dec, tc_rep. destruct (tc_compute md pos pre i) as [[r|rt rf]|]; [| |discriminate].
  - intros H; injection H as <- <-. cbn [concat app]. intros ->. eexists; split; reflexivity.
  - intros H; injection H as <- <-. cbn [concat app]. intros ->. eexists; split; reflexivity.
Qed.

Lemma tc_delta_roundtrip : forall v last, tc_delta_dec last (tc_delta_enc last v) = v.
Proof.
  induction v as [|o v IH]; intros last; [reflexivity|]. cbn [tc_delta_enc tc_delta_dec].
  assert (E : (if Bool.eqb o last then last else negb last) = o) by (destruct o, last; reflexivity).
  rewrite E, IH. reflexivity.
Qed.
Lemma tc_delta_length : forall v last, length (tc_delta_enc last v) = length v.
Proof. induction v; intros; cbn; auto. Qed.

Lemma tc_orientations_roundtrip ver numc vec ob rest :
  514 <= ver -> numc < 2 ^ 31 - 3 -> Z.of_nat (length vec) <= numc ->
  tc_enc_orientations vec = Some ob -> tc_dec_orientations ver numc (ob ++ rest) = Some (vec, rest).
Proof.
  intros Hver Hnumc Hlen. unfold tc_enc_orientations, tc_dec_orientations.
  destruct (ransbit_encode (tc_delta_enc true vec)) as [body|] eqn:Eb; [|discriminate].
  assert (Hsmall : Z.of_nat (length vec) mod 2 ^ 32 = Z.of_nat (length vec)) by (apply Z.mod_small; lia).
  remember (enc_le 4 (Z.of_nat (length vec) mod 2 ^ 32)) as hd eqn:Ehd.
  intros H; injection H as <-. subst hd. rewrite <- app_assoc.
  rewrite (le_roundtrips 4 (Z.of_nat (length vec) mod 2 ^ 32) _ _ (u32_range _) eq_refl). rewrite Hsmall.
  assert (Hi : i32_of_u32 (Z.of_nat (length vec)) = Z.of_nat (length vec)).
  { unfold i32_of_u32. destruct (Z.of_nat (length vec) <? 2 ^ 31) eqn:E; [reflexivity|]. apply Z.ltb_ge in E. lia. }
  rewrite Hi.
  assert (E1 : Z.of_nat (length vec) <? 0 = false) by (apply Z.ltb_ge; lia). rewrite E1.
  assert (E2 : Z.of_nat (length vec) >? numc = false) by (rewrite Z.gtb_ltb; apply Z.ltb_ge; lia). rewrite E2.
  destruct (ransbit_roundtrip ver (tc_delta_enc true vec) body rest Hver
              ltac:(rewrite tc_delta_length; lia) Eb) as (st & Hst & Hrd).
  rewrite Hst, Nat2Z.id. rewrite <- (tc_delta_length vec true), Hrd, tc_delta_roundtrip. reflexivity.
Qed.

Lemma concat_short_length (ws : list (list bool)) : Forall (fun w => (length w <= 1)%nat) ws ->
  (length (concat ws) <= length ws)%nat.
Proof. induction 1; cbn; [lia|]. rewrite app_length. lia. Qed.

Theorem tc_roundtrip ver md pos (data : list row) ori corr bs rest :
  514 <= ver -> md_num_corners md < 2 ^ 31 - 3 ->
  Z.of_nat (length data) <= md_num_corners md ->
  Forall (fun r => length r = 2%nat /\ Forall i32 r) data ->
  tc_encode md pos data ori = Some (corr, bs) ->
  tc_decode ver md pos corr (bs ++ rest) = Some (data, rest) /\ length corr = length data.
Proof.
  intros Hver Hnumc Hn HF. unfold tc_encode.
  destruct (sizes_ok _ _ _) eqn:Es; cbn [negb]; [|discriminate].
  destruct (sizes_ok_spec _ _ _ Es) as (Hd2c & Hn0 & Hnc).
  destruct (wrap_bounds_enc (concat data)) as [b|] eqn:Eb; [|discriminate].
  destruct (causal_enc (row_enc b) (tc_predict_enc md pos) data ori) as [[corr' ws]|] eqn:Ee; [|discriminate].
  destruct (tc_enc_orientations _) as [ob|] eqn:Eob; [|discriminate].
  intros H; injection H as <- <-.
  assert (Hne : data <> []) by (destruct data; [cbn in Hn0; congruence|congruence]).
  destruct (bounds_of_data 2 data b Hnc Hne HF Eb) as (Hmn & Hmx & Hrange & Hinit & Hdinit & HD).
  pose proof (causal_prediction_roundtrip (row_enc b) (row_dec b) (tc_predict_enc md pos) (tc_predict_dec md pos)
    (row_in 2 (wb_min b) (wb_max b)) (row_i32 2) tc_rep) as G.
  destruct G with (data := data) (choice := ori) (corr := corr') (ws := ws) (st0 := concat ws)
    as (Hlen & Hlw & st' & Hdec & _); try assumption.
  - intros o p Ho Hp. eapply (row_law (wb_min b) (wb_max b)); eassumption.
  - intros pre i a p w Hl Hpre HP. eapply (tc_predict_enc_dom md (wb_min b) (wb_max b)); eassumption.
  - intros pre i a p w ws0 st Hl Hpre HP HR. eapply tc_step; eassumption.
  - reflexivity.
  - split; [|exact Hlen]. unfold tc_decode. rewrite Hlen, Es. cbn [negb].
    pose proof (causal_enc_records (row_enc b) (tc_predict_enc md pos) (fun w => (length w <= 1)%nat) data ori corr' ws
                  (tc_records_short md pos) Ee) as Hshort.
    pose proof (concat_short_length ws Hshort) as Hcl.
    rewrite <- app_assoc.
    rewrite (tc_orientations_roundtrip ver (md_num_corners md) (rev (concat ws)) ob _ Hver Hnumc
               ltac:(rewrite rev_length; lia) Eob).
    rewrite wrap_data_roundtrip by assumption. rewrite rev_involutive, Hdec. reflexivity.
Qed.

(** * 5. The well-formedness the C++ assumes, and: under it the parallelogram encoder reads in bounds *)
Section Total.
  Context {E Pr C A W : Type}.
  Variable tenc : E -> Pr -> C.
  Variable Pe : list E -> nat -> A -> option (Pr * W).
  Lemma enc_down_total data choice :
    (forall i, (i < length data)%nat -> Pe (firstn i data) i (choice i) <> None) ->
    forall k out ws, (k <= length data)%nat -> enc_down tenc Pe data choice k out ws <> None.
  Proof.
    intros HP. induction k as [|i IH]; intros out ws Hk; cbn [enc_down]; [discriminate|].
    destruct (nth_error data i) as [o|] eqn:Eo; [|apply nth_error_None in Eo; lia].
    specialize (HP i ltac:(lia)). destruct (Pe (firstn i data) i (choice i)) as [[p w]|]; [|congruence].
    apply IH. lia.
  Qed.
End Total.

Lemma next_c_lt c nf : (c < 3 * nf -> next_c c < 3 * nf)%nat.
Proof.
  unfold next_c. intros H. destruct (Nat.eqb_spec (S c mod 3) 0) as [e|ne]; [lia|].
  destruct (Nat.eq_dec (S c) (3 * nf)) as [E|E]; [|lia].
  exfalso. apply ne. rewrite E, Nat.mul_comm. apply Nat.mod_mul. lia.
Qed.
Lemma prev_c_lt c nf : (c < 3 * nf -> prev_c c < 3 * nf)%nat.
Proof.
  unfold prev_c. intros H. destruct (Nat.eqb_spec (c mod 3) 0) as [e|ne]; [|lia].
  apply Nat.mod_divides in e; [|lia]. destruct e as [q ->]. lia.
Qed.

Lemma wf_entry md n c : md_wf md n -> (c < length (md_c2v md))%nat ->
  exists e, md_entry_of_corner md c = Some e /\ 0 <= e.
Proof.
  intros (_ & _ & _ & Hv & _) Hc. unfold md_entry_of_corner.
  destruct (nth_error (md_c2v md) c) as [v|] eqn:E; [|apply nth_error_None in E; lia].
  exact (proj1 (Forall_forall _ _) Hv v (nth_error_In _ _ E)).
Qed.

Lemma par_prediction_total md n (pre : list row) i ci : md_wf md n -> (ci < length (md_c2v md))%nat ->
  length pre = i -> par_prediction md pre (Z.of_nat i) ci <> None.
Proof.
  intros Hwf Hci Hl. pose proof Hwf as (Hlo & (nf & Hnf) & Ho & _).
  unfold par_prediction, md_opposite.
  destruct (nth_error (md_opp md) ci) as [o|] eqn:Eo; [|apply nth_error_None in Eo; lia].
  destruct o as [oci|]; [|discriminate].
  pose proof (proj1 (Forall_forall _ _) Ho _ (nth_error_In _ _ Eo)) as Hoci. cbn in Hoci.
  destruct (wf_entry md n oci Hwf Hoci) as (vo & -> & Hvo).
  destruct (wf_entry md n (next_c oci) Hwf ltac:(rewrite Hnf in *; apply next_c_lt; assumption)) as (vn & -> & Hvn).
  destruct (wf_entry md n (prev_c oci) Hwf ltac:(rewrite Hnf in *; apply prev_c_lt; assumption)) as (vp & -> & Hvp).
  destruct ((vo <? Z.of_nat i) && (vn <? Z.of_nat i) && (vp <? Z.of_nat i)) eqn:Et; [|discriminate].
  apply andb_true_iff in Et. destruct Et as [Et E3]. apply andb_true_iff in Et. destruct Et as [E1 E2].
  apply Z.ltb_lt in E1, E2, E3.
  assert (Hd : forall e, 0 <= e < Z.of_nat i -> data_at pre e <> None).
  { intros e He. unfold data_at. destruct (e <? 0) eqn:E; [apply Z.ltb_lt in E; lia|].
    intros Hn. apply nth_error_None in Hn. lia. }
  destruct (data_at pre vn) eqn:Dn; [|exfalso; apply (Hd vn); [lia|assumption]].
  destruct (data_at pre vp) eqn:Dp; [|exfalso; apply (Hd vp); [lia|assumption]].
  destruct (data_at pre vo) eqn:Do; [|exfalso; apply (Hd vo); [lia|assumption]].
  discriminate.
Qed.

Lemma par_predict_total md nc n (pre : list row) i : md_wf md n -> (i < n)%nat -> length pre = i ->
  par_predict md nc pre i <> None.
Proof.
  intros Hwf Hi Hl. unfold par_predict. destruct i as [|j]; [discriminate|].
  pose proof Hwf as (_ & _ & _ & _ & Hd & Hn).
  destruct (nth_error (md_d2c md) (S j)) as [ci|] eqn:Ec; [|apply nth_error_None in Ec; lia].
  pose proof (proj1 (Forall_forall _ _) Hd _ (nth_error_In _ _ Ec)) as Hci. cbn in Hci.
  pose proof (par_prediction_total md n pre (S j) ci Hwf Hci Hl) as Hp.
  destruct (par_prediction md pre (Z.of_nat (S j)) ci) as [[r|]|]; [discriminate| |congruence].
  intros Hn'. apply nth_error_None in Hn'. lia.
Qed.

(** Under [md_wf] (and the size contract), the parallelogram encoder fails only when the value range is too wide
    for the wrap transform: every array read of ComputeCorrectionValues is in bounds. *)
Theorem par_encode_total md nc (data : list row) :
  md_wf md (length data) -> data <> [] -> nc <> 0%nat ->
  wrap_bounds_enc (concat data) <> None -> par_encode md nc data <> None.
Proof.
  intros Hwf Hne Hnc Hb. unfold par_encode.
  assert (Es : sizes_ok md nc (length data) = true).
  { unfold sizes_ok. destruct Hwf as (_ & _ & _ & _ & _ & ->). rewrite Nat.eqb_refl.
    destruct data; [congruence|]. cbn [length]. destruct nc; [congruence|]. reflexivity. }
  rewrite Es. cbn [negb]. destruct (wrap_bounds_enc (concat data)) as [b|]; [|congruence].
  match goal with |- context [causal_enc ?a ?b ?c ?d] => destruct (causal_enc a b c d) as [[corr ws]|] eqn:Ee end; [discriminate|].
  exfalso. revert Ee. unfold causal_enc. apply enc_down_total; [|lia].
  intros i Hi. unfold stateless.
  pose proof (par_predict_total md nc (length data) (firstn i data) i Hwf Hi ltac:(rewrite firstn_length; lia)) as Hp.
  destruct (par_predict md nc (firstn i data) i); [discriminate|congruence].
Qed.

(** * 6. Signed overflow in the encoder's accumulation is reachable inside the 30-bit value range *)
Lemma mp_encoder_overflow_witness :
  exists md (data : list row) i preds,
    Forall (Forall (fun v => - 2 ^ 29 <= v < 2 ^ 29)) data /\
    mp_parallelograms md (firstn i data) i = Some preds /\ mp_sum_no_ub 1 preds = false.
Proof.
  exists (match ct_create [(0, 1, 2); (0, 2, 3); (0, 3, 4); (0, 4, 1); (5, 2, 1); (5, 3, 2); (5, 4, 3); (5, 1, 4)]%nat with
          | Some t => mk_md (ct_c2v t) (ct_opp t) [0; 1; 2; 5; 8; 12]%nat [0; 1; 2; 3; 4; 5]
          | None => mk_md [] [] [] []
          end),
         [[-268435456]; [268435456]; [268435456]; [268435456]; [268435456]; [268435451]], 5%nat,
         [[805306368]; [805306368]; [805306368]; [805306368]].
  split; [|split; vm_compute; reflexivity].
  repeat (constructor; [constructor; [lia|constructor]|]). constructor.
Qed.

(** * 7. The ascending encoder loop meets the decoder loop (same hypotheses as the descending one) *)
Section CausalUpProofs.
  Context {E Pr C A W St : Type}.
  Variable tenc : E -> Pr -> C.
  Variable tdec : Pr -> C -> E.
  Variable Pe : list E -> nat -> A -> option (Pr * W).
  Variable Pd : list E -> nat -> St -> option (Pr * St).
  Variable D : E -> Prop.
  Variable PD : Pr -> Prop.
  Variable Rep : list W -> St -> Prop.
  Hypothesis law : forall o p, D o -> PD p -> tdec p (tenc o p) = o.
  Hypothesis Pe_dom : forall pre i a p w, length pre = i -> Forall D pre -> Pe pre i a = Some (p, w) -> PD p.
  Hypothesis step : forall pre i a p w ws st, length pre = i -> Forall D pre ->
    Pe pre i a = Some (p, w) -> Rep (w :: ws) st ->
    exists st', Pd pre i st = Some (p, st') /\ Rep ws st'.

  Lemma enc_up_dec data choice : Forall D data -> forall todo pre i out ws corr wsf,
    data = pre ++ todo -> length pre = i ->
    enc_up tenc Pe data choice i todo out ws = Some (corr, wsf) ->
    exists cs wl, corr = out ++ cs /\ wsf = ws ++ wl /\ length cs = length todo /\ length wl = length todo /\
      forall ws' st, Rep (wl ++ ws') st ->
        exists st', dec_up tdec Pd cs i pre st = Some (data, st') /\ Rep ws' st'.
  Proof.
    intros HD. induction todo as [|o rest IH]; intros pre i out ws corr wsf Hdata Hlen Henc; cbn [enc_up] in Henc.
    - injection Henc as <- <-. exists [], []. rewrite !app_nil_r. repeat (split; [reflexivity|]).
      intros ws' st HR. exists st. cbn [dec_up app] in *. rewrite app_nil_r in Hdata. subst pre. split; [reflexivity|exact HR].
    - assert (Hfn : firstn i data = pre).
      { subst data. rewrite <- Hlen. rewrite firstn_app, Nat.sub_diag, firstn_all. cbn. apply app_nil_r. }
      rewrite Hfn in Henc.
      destruct (Pe pre i (choice i)) as [[p w]|] eqn:EP; [|discriminate].
      assert (HDpre : Forall D pre) by (subst data; apply Forall_app in HD; tauto).
      assert (HDo : D o) by (subst data; apply Forall_app in HD; destruct HD as [_ H]; inversion H; assumption).
      destruct (IH (pre ++ [o]) (S i) _ _ _ _ ltac:(rewrite <- app_assoc; exact Hdata)
                   ltac:(rewrite app_length; cbn; lia) Henc) as (cs & wl & -> & -> & Hlc & Hlw & Hdec).
      exists (tenc o p :: cs), (w :: wl). rewrite <- !app_assoc. cbn [app length].
      split; [reflexivity|]. split; [reflexivity|]. split; [lia|]. split; [lia|].
      intros ws' st HR.
      destruct (step _ _ _ _ _ _ _ Hlen HDpre EP HR) as (st1 & Hd1 & HR1).
      cbn [dec_up]. rewrite Hd1, law; [|exact HDo|eapply Pe_dom; eassumption].
      apply Hdec. exact HR1.
  Qed.

  Theorem causal_prediction_roundtrip_up data choice corr ws st0 :
    Forall D data -> causal_enc_up tenc Pe data choice = Some (corr, ws) -> Rep ws st0 ->
    length corr = length data /\ length ws = length data /\
    exists st', causal_dec tdec Pd corr st0 = Some (data, st') /\ Rep [] st'.
  Proof.
    intros HD Henc HR. unfold causal_enc_up in Henc.
    destruct (enc_up_dec data choice HD data [] 0%nat [] [] corr ws eq_refl eq_refl Henc)
      as (cs & wl & -> & -> & Hlc & Hlw & Hdec).
    cbn [app] in *. split; [exact Hlc|]. split; [exact Hlw|].
    destruct (Hdec [] st0 ltac:(rewrite app_nil_r; exact HR)) as (st' & Hd & HR').
    exists st'. split; [exact Hd|exact HR'].
  Qed.
End CausalUpProofs.

(** * 8. Geometric normal *)
Lemma quot_share a b A c : 0 <= a -> 0 <= b -> 0 <= c -> 0 < A -> a + b <= A -> (a * c) / A + (b * c) / A <= c.
Proof.
  intros Ha Hb Hc HA Hab.
  pose proof (Z.mul_div_le (a * c) A HA). pose proof (Z.mul_div_le (b * c) A HA).
  pose proof (Z.div_pos (a * c) A ltac:(nia) HA). pose proof (Z.div_pos (b * c) A ltac:(nia) HA).
  nia.
Qed.
Lemma abs_quot x c A : 0 <= c -> 0 < A -> Z.abs (Z.quot (x * c) A) = (Z.abs x * c) / A.
Proof.
  intros Hc HA. rewrite <- (Z.quot_abs (x * c) A) by lia. rewrite Z.abs_mul, (Z.abs_eq c), (Z.abs_eq A) by lia.
  apply Z.quot_div_nonneg; [|lia]. pose proof (Z.abs_nonneg x). nia.
Qed.

(** CanonicalizeIntegerVector returns a vector of L1 norm center (so every int32 store is exact) *)
Lemma canonicalize_int_vec_bounds b v : 0 <= ob_center b ->
  let '(x, y, z) := canonicalize_int_vec b v in Z.abs x + Z.abs y + Z.abs z = ob_center b.
Proof.
  intros Hc. destruct v as [[x y] z]. unfold canonicalize_int_vec.
  destruct (Z.abs x + Z.abs y + Z.abs z =? 0) eqn:E0.
  - apply Z.eqb_eq in E0. lia.
  - apply Z.eqb_neq in E0. set (A := Z.abs x + Z.abs y + Z.abs z) in *.
    assert (HA : 0 < A) by (unfold A; lia).
    pose proof (quot_share (Z.abs x) (Z.abs y) A (ob_center b) ltac:(lia) ltac:(lia) Hc HA ltac:(unfold A; lia)) as Hs.
    rewrite <- !abs_quot in Hs by assumption.
    destruct (z >=? 0); lia.
Qed.

Lemma int_vec_to_oct_square c v : 1 <= c ->
  (let '(x, y, z) := v in Z.abs x + Z.abs y + Z.abs z = c) ->
  in_square c (int_vec_to_oct (obox_of_center c) v).
Proof.
  intros Hc. destruct v as [[x y] z]. intros Hn. unfold int_vec_to_oct. cbn [ob_center ob_maxv obox_of_center].
  apply canonicalize_canonical; [exact Hc|].
  unfold in_square. destruct (x >=? 0); [cbn [fst snd]; lia|].
  destruct (y <? 0); destruct (z <? 0); cbn [fst snd]; lia.
Qed.

Lemma gn_predict_square c md pos i flip p : 1 <= c ->
  gn_predict (obox_of_center c) md pos i flip = Some p -> in_square c p.
Proof.
  intros Hc. unfold gn_predict. destruct (nth_error (md_d2c md) i); [|discriminate].
  destruct (gn_normal md pos n) as [n3|]; [|discriminate]. intros H; injection H as <-.
  pose proof (canonicalize_int_vec_bounds (obox_of_center c) n3 ltac:(cbn; lia)) as Hb.
  destruct (canonicalize_int_vec (obox_of_center c) n3) as [[x y] z]. cbn [ob_center obox_of_center] in Hb.
  apply int_vec_to_oct_square; [exact Hc|]. destruct flip; cbn [v3_neg]; lia.
Qed.

(** ModMax then MakePositive is the identity on what ComputeCorrection returns *)
Lemma gn_corr_is_enc c orig pred : 1 <= c <= cmax -> canonical c orig -> in_square c pred ->
  gn_corr (obox_of_center c) orig pred = oct_canon_enc (obox_of_center c) orig pred.
Proof.
  intros Hc Ho Hp. destruct (oct_canon_roundtrip_machine c orig pred Hc Ho Hp) as [_ [H1 H2]].
  unfold gn_corr. destruct (oct_canon_enc (obox_of_center c) orig pred) as [s t]. cbn [fst snd] in *.
  unfold make_positive, mod_max. cbn [ob_center ob_mqv obox_of_center].
  f_equal.
  - destruct (s >? c) eqn:E1; [destruct (s - (2 * c + 1) <? 0) eqn:E2; lia|].
    destruct (s <? - c) eqn:E3; [lia|]. destruct (s <? 0) eqn:E4; lia.
  - destruct (t >? c) eqn:E1; [destruct (t - (2 * c + 1) <? 0) eqn:E2; lia|].
    destruct (t <? - c) eqn:E3; [lia|]. destruct (t <? 0) eqn:E4; lia.
Qed.

(** DecodeTransformData accepts what EncodeTransformData wrote, q = 2..30 (finite domain, by computation) *)
Definition obox_eqb (a b : obox) : bool :=
  (ob_q a =? ob_q b) && (ob_mqv a =? ob_mqv b) && (ob_maxv a =? ob_maxv b) && (ob_center a =? ob_center b).
Lemma oct_transform_data_accepts q b : set_quantization_bits q = Some b -> oct_canon_dec_init (ob_mqv b) = Some b.
Proof.
  intros Hb.
  assert (Hq : 2 <= q <= 30).
  { unfold set_quantization_bits in Hb. destruct ((q <? 2) || (q >? 30)) eqn:E; [discriminate|lia]. }
  pose (f := fun q => match set_quantization_bits (q + 2) with
                      | Some b => match oct_canon_dec_init (ob_mqv b) with Some b' => obox_eqb b' b | None => false end
                      | None => false end).
  assert (H : f (q - 2) = true) by (apply (range_forallb f 29); [vm_compute; reflexivity|lia]).
  unfold f in H. replace (q - 2 + 2) with q in H by lia. rewrite Hb in H.
  destruct (oct_canon_dec_init (ob_mqv b)) as [b'|]; [|discriminate].
  unfold obox_eqb in H. destruct b, b'. simpl in H. f_equal. f_equal; lia.
Qed.

Theorem gn_roundtrip ver q md pos (data : list pt) flip corr bs rest :
  514 <= ver -> Z.of_nat (length data) + 3 < 2 ^ 32 ->
  (forall b, set_quantization_bits q = Some b -> Forall (canonical (ob_center b)) data) ->
  gn_encode q md pos data flip = Some (corr, bs) ->
  gn_decode ver md pos corr (bs ++ rest) = Some (data, rest) /\ length corr = length data.
Proof.
  intros Hver Hn Hcan. unfold gn_encode.
  destruct (length (md_d2c md) =? length data)%nat eqn:Es; cbn [negb]; [|discriminate].
  destruct (set_quantization_bits q) as [b|] eqn:Eb; [|discriminate].
  assert (Hq : 2 <= q <= 30).
  { unfold set_quantization_bits in Eb. destruct ((q <? 2) || (q >? 30)) eqn:E; [discriminate|lia]. }
  pose proof (Hcan b eq_refl) as HD. pose proof (oct_transform_data_accepts q b Eb) as Hacc.
  rewrite (set_quantization_bits_center q Hq) in Eb. injection Eb as <-.
  set (c := 2 ^ (q - 1) - 1) in *. pose proof (center_bounds q Hq) as Hc. fold c in Hc.
  cbn [ob_center obox_of_center] in HD.
  destruct (causal_enc_up _ _ data flip) as [[corr' ws]|] eqn:Ee; [|discriminate].
  destruct (ransbit_encode ws) as [fb|] eqn:Ef; [|discriminate].
  remember (enc_le 4 (ob_mqv (obox_of_center c) mod 2 ^ 32)) as h1 eqn:Eh1.
  remember (enc_le 4 (ob_center (obox_of_center c) mod 2 ^ 32)) as h2 eqn:Eh2.
  intros H; injection H as <- <-. subst h1 h2.
  pose proof (causal_prediction_roundtrip_up (gn_corr (obox_of_center c)) (oct_canon_dec (obox_of_center c))
    (gn_predict_enc (obox_of_center c) md pos) (gn_predict_dec (obox_of_center c) md pos)
    (canonical c) (in_square c) (fun ws st => st = ws)) as G.
  destruct G with (data := data) (choice := flip) (corr := corr') (ws := ws) (st0 := ws)
    as (Hlen & Hlw & st' & Hdec & _); try assumption; try reflexivity.
  - intros o p Ho Hp. rewrite gn_corr_is_enc by assumption. apply (oct_canon_roundtrip_machine c o p Hc Ho Hp).
  - intros pre i a p w _ _. unfold gn_predict_enc.
    destruct (gn_predict (obox_of_center c) md pos i a) as [p'|] eqn:E; [|discriminate].
    intros H; injection H as <- _. eapply gn_predict_square; [lia|exact E].
  - intros pre i a p w ws0 st _ _. unfold gn_predict_enc, gn_predict_dec.
    destruct (gn_predict (obox_of_center c) md pos i a) as [p'|] eqn:E; [|discriminate].
    intros H; injection H as <- <-. intros ->. rewrite E. eexists; split; reflexivity.
  - split; [|exact Hlen]. unfold gn_decode. rewrite Hlen, Es. cbn [negb]. rewrite <- !app_assoc.
    rewrite (le_roundtrips 4 (ob_mqv (obox_of_center c) mod 2 ^ 32) _ _ (u32_range _) eq_refl).
    rewrite (le_roundtrips 4 (ob_center (obox_of_center c) mod 2 ^ 32) _ _ (u32_range _) eq_refl).
    rewrite i32_of_u32_mod by (cbn [ob_mqv obox_of_center]; unfold cmax in Hc; unfold i32; lia).
    rewrite Hacc.
    destruct (ransbit_roundtrip ver ws fb rest Hver ltac:(lia) Ef) as (st & Hst & Hrd).
    rewrite Hst. rewrite <- Hlw at 1. rewrite Hrd, Hdec. reflexivity.
Qed.

(** * 9. IntSqrt stays below 2^32 *)
Lemma div_lt2 n b : 0 <= n -> 0 < b -> n / b < 2 -> n < 2 * b.
Proof. intros Hn Hb H. pose proof (Z.div_mod n b ltac:(lia)). pose proof (Z.mod_pos_bound n b Hb). nia. Qed.

Lemma isqrt_estimate_spec n : 0 <= n -> forall fuel sr (k : nat) r,
  1 <= sr -> n / (sr * sr) < 2 * 4 ^ Z.of_nat k -> sr * 2 ^ Z.of_nat k = 2 ^ 32 ->
  isqrt_estimate fuel (n / (sr * sr)) sr = Some r ->
  1 <= r /\ n / (r * r) < 2 /\ (r <= 2 ^ 31 \/ r = 2 ^ 32).
Proof.
  intros Hn. induction fuel as [|f IH]; intros sr k r Hsr Hact Hpow; cbn [isqrt_estimate]; [discriminate|].
  destruct (n / (sr * sr) >=? 2) eqn:E.
  - destruct k as [|k]; [cbn in Hact; lia|].
    assert (Hu : to_u64 (sr * 2) = sr * 2).
    { unfold to_u64. apply Z.mod_small. rewrite Nat2Z.inj_succ, Z.pow_succ_r in Hpow by lia.
      assert (0 < 2 ^ Z.of_nat k) by (apply Z.pow_pos_nonneg; lia). nia. }
    rewrite Hu. replace (n / (sr * sr) / 4) with (n / (sr * 2 * (sr * 2))).
    2:{ rewrite Z.div_div by nia. f_equal. ring. }
    apply (IH (sr * 2) k r); [lia| |].
    + replace (n / (sr * 2 * (sr * 2))) with (n / (sr * sr) / 4) by (rewrite Z.div_div by nia; f_equal; ring).
      rewrite Nat2Z.inj_succ, Z.pow_succ_r in Hact by lia. apply Z.div_lt_upper_bound; lia.
    + rewrite Nat2Z.inj_succ, Z.pow_succ_r in Hpow by lia. lia.
  - intros H; injection H as <-. split; [lia|]. split; [lia|].
    destruct k as [|k]; [right; cbn in Hpow; lia|left].
    rewrite Nat2Z.inj_succ, Z.pow_succ_r in Hpow by lia.
    assert (1 <= 2 ^ Z.of_nat k) by (assert (0 < 2 ^ Z.of_nat k) by (apply Z.pow_pos_nonneg; lia); lia).
    change (2 ^ 32) with (2 * 2 ^ 31) in Hpow. nia.
Qed.

Lemma isqrt_newton_bound n : 1 <= n < 2 ^ 64 -> forall fuel sr r,
  1 <= sr -> sr + n / sr < 2 ^ 33 -> isqrt_newton fuel n sr = Some r -> 1 <= r < 2 ^ 32.
Proof.
  intros Hn. induction fuel as [|f IH]; intros sr r Hsr Hsum; cbn [isqrt_newton]; [discriminate|].
  assert (Hq : 0 <= n / sr) by (apply Z.div_pos; lia).
  assert (Hu : to_u64 (sr + n / sr) = sr + n / sr).
  { unfold to_u64. apply Z.mod_small. change (2 ^ 33) with 8589934592 in Hsum. lia. }
  rewrite Hu. set (s := (sr + n / sr) / 2).
  assert (Hs2 : 2 <= sr + n / sr).
  { destruct (Z.le_gt_cases sr n); [|lia]. assert (1 <= n / sr) by (apply Z.div_le_lower_bound; lia). lia. }
  assert (Hs : 1 <= s < 2 ^ 32).
  { unfold s. split; [apply Z.div_le_lower_bound; lia|apply Z.div_lt_upper_bound; [lia|]]. change (2 ^ 33) with (2 * 2 ^ 32) in Hsum. lia. }
  assert (Hss : to_u64 (s * s) = s * s).
  { unfold to_u64. apply Z.mod_small. change (2 ^ 32) with 4294967296 in Hs. nia. }
  rewrite Hss. destruct (s * s >? n) eqn:E.
  - apply IH; [lia|]. assert (n / s < s) by (apply Z.div_lt_upper_bound; lia).
    change (2 ^ 33) with (2 * 2 ^ 32). lia.
  - intros H; injection H as <-. exact Hs.
Qed.

Lemma int_sqrt_bound n r : 0 <= n < 2 ^ 64 -> int_sqrt n = Some r -> 0 <= r < 2 ^ 32.
Proof.
  intros Hn. unfold int_sqrt. destruct (n =? 0) eqn:E0; [intros H; injection H as <-; lia|].
  destruct (isqrt_estimate 66 n 1) as [sr|] eqn:Ee; [|discriminate].
  replace n with (n / (1 * 1)) in Ee at 1 by (rewrite Z.mul_1_l, Z.div_1_r; reflexivity).
  destruct (isqrt_estimate_spec n ltac:(lia) 66 1 32%nat sr ltac:(lia)
              ltac:(rewrite Z.mul_1_l, Z.div_1_r; change (2 * 4 ^ Z.of_nat 32) with (2 ^ 65); change (2 ^ 64) with 18446744073709551616 in Hn; change (2 ^ 65) with 36893488147419103232; lia)
              ltac:(reflexivity) Ee) as (H1 & H2 & H3).
  intros Hnw. assert (Hb : 1 <= r < 2 ^ 32); [|lia].
  apply (isqrt_newton_bound n ltac:(lia) 200 sr r H1); [|exact Hnw].
  destruct H3 as [H3 | ->].
  - pose proof (div_lt2 n (sr * sr) ltac:(lia) ltac:(nia) H2).
    assert (n / sr < 2 * sr) by (apply Z.div_lt_upper_bound; nia).
    change (2 ^ 31) with 2147483648 in H3. change (2 ^ 33) with 8589934592. lia.
  - assert (n / 2 ^ 32 < 2 ^ 32) by (apply Z.div_lt_upper_bound; [lia|]; change (2 ^ 32 * 2 ^ 32) with (2 ^ 64); lia).
    change (2 ^ 33) with (2 ^ 32 + 2 ^ 32). lia.
Qed.

(** * 10. No signed overflow in the tex-coords predictor on bounded operands *)
Definition i64b (x : Z) : Prop := - i64_max <= x <= i64_max.
Lemma in_i64_of x : i64b x -> in_i64 x = true.
Proof. unfold i64b, in_i64, i64_max. lia. Qed.
Lemma mul_bound x y P Q : - P <= x <= P -> - Q <= y <= Q -> - (P * Q) <= x * y <= P * Q.
Proof. intros. nia. Qed.
Lemma abs_quot_le x N M : 0 < N -> Z.abs x <= M * N -> Z.abs (Z.quot x N) <= M.
Proof.
  intros HN H. rewrite <- Z.quot_abs by lia. rewrite (Z.abs_eq N) by lia.
  pose proof (Z.abs_nonneg x). rewrite Z.quot_div_nonneg by lia.
  apply Z.div_le_upper_bound; [lia|]. lia.
Qed.
Lemma quot_small x N M : 0 < N -> - M <= x <= M -> - M <= Z.quot x N <= M.
Proof.
  intros HN H. assert (Z.abs (Z.quot x N) <= M); [|lia].
  apply abs_quot_le; [exact HN|]. assert (Z.abs x <= M) by lia. nia.
Qed.
Lemma forallb_app' {X} (f : X -> bool) a b : forallb f a = true -> forallb f b = true -> forallb f (a ++ b) = true.
Proof. intros. rewrite forallb_app. rewrite H, H0. reflexivity. Qed.

Lemma dot_trace_ok P a0 a1 a2 b0 b1 b2 : 0 <= P -> 3 * (P * P) <= i64_max ->
  - P <= a0 <= P -> - P <= a1 <= P -> - P <= a2 <= P -> - P <= b0 <= P -> - P <= b1 <= P -> - P <= b2 <= P ->
  forallb in_i64 (dot_trace (a0, a1, a2) (b0, b1, b2)) = true.
Proof.
  intros HP H3 A0 A1 A2 B0 B1 B2.
  pose proof (mul_bound a0 b0 P P A0 B0). pose proof (mul_bound a1 b1 P P A1 B1). pose proof (mul_bound a2 b2 P P A2 B2).
  unfold dot_trace. cbn [forallb]. rewrite !andb_true_iff. repeat split; apply in_i64_of; unfold i64b; lia.
Qed.

(** what a guard that did not fire gives *)
Lemma guard_div n N : 0 < N -> (Z.abs n >? i64_max / N) = false -> i64b (n * N).
Proof.
  intros HN G. pose proof (Z.mul_div_le i64_max N HN). assert (Z.abs n <= i64_max / N) by lia.
  assert (Z.abs (n * N) <= i64_max); [|unfold i64b; lia]. rewrite Z.abs_mul, (Z.abs_eq N) by lia. pose proof (Z.abs_nonneg n). nia.
Qed.
Lemma guard_quot d m x : 0 <= m -> (Z.abs d >? Z.quot i64_max m) = false -> Z.abs x <= m -> i64b (d * x).
Proof.
  intros Hm G Hx. assert (Z.abs (d * x) <= i64_max); [|unfold i64b; lia].
  rewrite Z.abs_mul. pose proof (Z.abs_nonneg x). pose proof (Z.abs_nonneg d).
  destruct (Z.eq_dec m 0) as [E|E]; [assert (Z.abs x = 0) by lia; unfold i64_max; nia|].
  rewrite Z.quot_div_nonneg in G by (unfold i64_max; lia).
  pose proof (Z.mul_div_le i64_max m ltac:(lia)). assert (Z.abs d <= i64_max / m) by lia. nia.
Qed.

(** the projection quotients are at most 3P in magnitude *)
Lemma proj_quot_bound P a0 a1 a2 c0 c1 c2 x : 0 <= P ->
  - P <= c0 <= P -> - P <= c1 <= P -> - P <= c2 <= P -> (x = a0 \/ x = a1 \/ x = a2) ->
  0 < a0 * a0 + a1 * a1 + a2 * a2 ->
  - (3 * P) <= Z.quot ((a0 * c0 + a1 * c1 + a2 * c2) * x) (a0 * a0 + a1 * a1 + a2 * a2) <= 3 * P.
Proof.
  intros HP C0 C1 C2 Hx HN. set (N := a0 * a0 + a1 * a1 + a2 * a2) in *. set (d := a0 * c0 + a1 * c1 + a2 * c2).
  assert (Z.abs (Z.quot (d * x) N) <= 3 * P); [|lia]. apply abs_quot_le; [exact HN|].
  rewrite Z.abs_mul.
  set (A0 := Z.abs a0). set (A1 := Z.abs a1). set (A2 := Z.abs a2).
  assert (HNA : N = A0 * A0 + A1 * A1 + A2 * A2) by (unfold N, A0, A1, A2; rewrite (Z.abs_square a0), (Z.abs_square a1), (Z.abs_square a2); reflexivity).
  assert (H0 : 0 <= A0) by apply Z.abs_nonneg. assert (H1 : 0 <= A1) by apply Z.abs_nonneg. assert (H2 : 0 <= A2) by apply Z.abs_nonneg.
  assert (Hdd : Z.abs d <= P * (A0 + A1 + A2)).
  { unfold d. pose proof (Z.abs_triangle (a0 * c0 + a1 * c1) (a2 * c2)) as T1. pose proof (Z.abs_triangle (a0 * c0) (a1 * c1)) as T2.
    rewrite !Z.abs_mul in T1, T2. fold A0 A1 A2 in T1, T2.
    assert (Z.abs c0 <= P) by lia. assert (Z.abs c1 <= P) by lia. assert (Z.abs c2 <= P) by lia.
    pose proof (Z.abs_nonneg c0). pose proof (Z.abs_nonneg c1). pose proof (Z.abs_nonneg c2).
    assert (A0 * Z.abs c0 <= A0 * P) by (apply Z.mul_le_mono_nonneg_l; lia).
    assert (A1 * Z.abs c1 <= A1 * P) by (apply Z.mul_le_mono_nonneg_l; lia).
    assert (A2 * Z.abs c2 <= A2 * P) by (apply Z.mul_le_mono_nonneg_l; lia).
    lia. }
  assert (HX : (A0 + A1 + A2) * Z.abs x <= 3 * N).
  { pose proof (Z.square_nonneg (A0 - A1)). pose proof (Z.square_nonneg (A0 - A2)). pose proof (Z.square_nonneg (A1 - A2)).
    destruct Hx as [-> | [-> | ->]]; fold A0 A1 A2; rewrite HNA; clearbody A0 A1 A2; timeout 20 nia. }
  pose proof (Z.abs_nonneg x). pose proof (Z.abs_nonneg d).
  generalize dependent (Z.abs x). generalize dependent (Z.abs d). clearbody A0 A1 A2 N. intros. timeout 20 nia.
Qed.

Ltac i64s := cbn [forallb]; rewrite ?andb_true_iff; repeat split; apply in_i64_of; unfold i64b; timeout 30 lia.

Section NoUB.
  Variables P U : Z.
  Hypothesis HP : 0 < P.
  Hypothesis HU : 0 < U.
  Hypothesis Hdec1 : 48 * (P * P) <= i64_max.
  Hypothesis Hdec2 : U * 2 ^ 32 <= i64_max.
  Definition pos_ok (v : v3) : Prop := let '(x, y, z) := v in 0 <= x < P /\ 0 <= y < P /\ 0 <= z < P.
  Definition uv_ok (u : Z * Z) : Prop := 0 <= fst u < U /\ 0 <= snd u < U.

  Lemma tc_no_ub_bounded enc n_uv p_uv tip nxt prv :
    (enc = true -> 6 * (U * (P * P)) + U * 2 ^ 32 <= i64_max) ->
    pos_ok tip -> pos_ok nxt -> pos_ok prv -> uv_ok n_uv -> uv_ok p_uv ->
    tc_no_ub enc n_uv p_uv tip nxt prv = true.
  Proof.
    intros Henc. destruct tip as [[t0 t1] t2], nxt as [[n0 n1] n2], prv as [[p0 p1] p2], n_uv as [nu nv], p_uv as [pu pv].
    intros (T0 & T1 & T2) (N0 & N1 & N2) (P0 & P1 & P2) [Hnu Hnv] [Hpu Hpv]. cbn [fst snd] in *.
    unfold tc_no_ub, tc_signed_trace. cbn [fst snd].
    assert (HPP : 0 <= P * P) by nia.
    assert (H3P : 3 * (P * P) <= i64_max) by lia.
    assert (HPm : 4 * P <= i64_max) by (unfold i64_max in *; nia).
    assert (HUm : U <= i64_max) by (change (2 ^ 32) with 4294967296 in Hdec2; lia).
    remember (p0 - n0) as a0 eqn:Ea0. remember (p1 - n1) as a1 eqn:Ea1. remember (p2 - n2) as a2 eqn:Ea2.
    remember (t0 - n0) as c0 eqn:Ec0. remember (t1 - n1) as c1 eqn:Ec1. remember (t2 - n2) as c2 eqn:Ec2.
    remember (pu - nu) as u0 eqn:Eu0. remember (pv - nv) as u1 eqn:Eu1.
    assert (Aa0 : - P <= a0 <= P) by lia. assert (Aa1 : - P <= a1 <= P) by lia. assert (Aa2 : - P <= a2 <= P) by lia.
    assert (Ac0 : - P <= c0 <= P) by lia. assert (Ac1 : - P <= c1 <= P) by lia. assert (Ac2 : - P <= c2 <= P) by lia.
    assert (Au0 : - U <= u0 <= U) by lia. assert (Au1 : - U <= u1 <= U) by lia.
    apply forallb_app'; [i64s|].
    apply forallb_app'; [apply (dot_trace_ok P); assumption || lia|].
    pose proof (mul_bound a0 a0 P P Aa0 Aa0) as M00. pose proof (mul_bound a1 a1 P P Aa1 Aa1) as M11.
    pose proof (mul_bound a2 a2 P P Aa2 Aa2) as M22.
    pose proof (mul_bound a0 c0 P P Aa0 Ac0) as D0. pose proof (mul_bound a1 c1 P P Aa1 Ac1) as D1.
    pose proof (mul_bound a2 c2 P P Aa2 Ac2) as D2.
    pose proof (Z.square_nonneg a0) as S0. pose proof (Z.square_nonneg a1) as S1. pose proof (Z.square_nonneg a2) as S2.
    remember (a0 * a0 + a1 * a1 + a2 * a2) as N eqn:EN'.
    remember (a0 * c0 + a1 * c1 + a2 * c2) as d eqn:Ed.
    destruct (N =? 0) eqn:EN; [reflexivity|]. apply Z.eqb_neq in EN.
    assert (HN : 0 < N <= 3 * (P * P)) by lia.
    assert (Hd : - (3 * (P * P)) <= d <= 3 * (P * P)) by lia.
    apply forallb_app'; [i64s|].
    apply forallb_app'; [apply (dot_trace_ok P); assumption || lia|].
    apply forallb_app'; [i64s|].
    destruct (Z.max (Z.abs nu) (Z.abs nv) >? i64_max / N) eqn:G1; [reflexivity|].
    assert (Gnu : i64b (nu * N)) by (apply guard_div; lia).
    assert (Gnv : i64b (nv * N)) by (apply guard_div; lia).
    clear G1.
    apply forallb_app'; [i64s|].
    destruct (Z.abs d >? Z.quot i64_max (Z.max (Z.abs u0) (Z.abs u1))) eqn:G2; [reflexivity|].
    assert (Gu0 : i64b (d * u0)) by (eapply guard_quot; [|exact G2|]; lia).
    assert (Gu1 : i64b (d * u1)) by (eapply guard_quot; [|exact G2|]; lia).
    clear G2.
    apply forallb_app'; [unfold i64b in *; i64s|].
    destruct (Z.abs d >? Z.quot i64_max (Z.max (Z.max (Z.abs a0) (Z.abs a1)) (Z.abs a2))) eqn:G3; [reflexivity|].
    assert (Ga0 : i64b (d * a0)) by (eapply guard_quot; [|exact G3|]; lia).
    assert (Ga1 : i64b (d * a1)) by (eapply guard_quot; [|exact G3|]; lia).
    assert (Ga2 : i64b (d * a2)) by (eapply guard_quot; [|exact G3|]; lia).
    clear G3.
    assert (Q0 : - (3 * P) <= Z.quot (d * a0) N <= 3 * P)
      by (subst d N; apply proj_quot_bound; try assumption; try lia; tauto).
    assert (Q1 : - (3 * P) <= Z.quot (d * a1) N <= 3 * P)
      by (subst d N; apply proj_quot_bound; try assumption; try lia; tauto).
    assert (Q2 : - (3 * P) <= Z.quot (d * a2) N <= 3 * P)
      by (subst d N; apply proj_quot_bound; try assumption; try lia; tauto).
    remember (Z.quot (d * a0) N) as q0 eqn:Eq0. remember (Z.quot (d * a1) N) as q1 eqn:Eq1. remember (Z.quot (d * a2) N) as q2 eqn:Eq2.
    apply forallb_app'; [unfold i64b in *; i64s|].
    apply forallb_app'; [apply (dot_trace_ok (4 * P)); try lia; nia|].
    destruct (int_sqrt _) as [norm|] eqn:Esq; [|reflexivity].
    assert (Hnorm : 0 <= norm < 2 ^ 32).
    { eapply int_sqrt_bound; [|exact Esq]. unfold to_u64. apply Z.mod_pos_bound. reflexivity. }
    clear Esq.
    pose proof (mul_bound u1 norm U (2 ^ 32) Au1 ltac:(lia)) as C0.
    pose proof (mul_bound (- u0) norm U (2 ^ 32) ltac:(lia) ltac:(lia)) as C1.
    remember (u1 * norm) as cx0 eqn:Ecx0. remember (- u0 * norm) as cx1 eqn:Ecx1.
    apply forallb_app'; [i64s|].
    destruct enc; [|reflexivity]. specialize (Henc eq_refl).
    pose proof (mul_bound nu N U (3 * (P * P)) ltac:(lia) ltac:(lia)) as X0a.
    pose proof (mul_bound nv N U (3 * (P * P)) ltac:(lia) ltac:(lia)) as X1a.
    pose proof (mul_bound d u0 (3 * (P * P)) U Hd Au0) as X0b.
    pose proof (mul_bound d u1 (3 * (P * P)) U Hd Au1) as X1b.
    remember (nu * N + d * u0) as xu0 eqn:Exu0. remember (nv * N + d * u1) as xu1 eqn:Exu1.
    assert (B0 : - (6 * (U * (P * P))) <= xu0 <= 6 * (U * (P * P))) by lia.
    assert (B1 : - (6 * (U * (P * P))) <= xu1 <= 6 * (U * (P * P))) by lia.
    clear X0a X1a X0b X1b Exu0 Exu1.
    pose proof (quot_small (xu0 + cx0) N i64_max ltac:(lia) ltac:(lia)).
    pose proof (quot_small (xu1 + cx1) N i64_max ltac:(lia) ltac:(lia)).
    pose proof (quot_small (xu0 - cx0) N i64_max ltac:(lia) ltac:(lia)).
    pose proof (quot_small (xu1 - cx1) N i64_max ltac:(lia) ltac:(lia)).
    i64s.
  Qed.
End NoUB.

(** instances and witnesses *)
Lemma tc_no_ub_decoder_21 n_uv p_uv tip nxt prv :
  pos_ok (2 ^ 21) tip -> pos_ok (2 ^ 21) nxt -> pos_ok (2 ^ 21) prv -> uv_ok (2 ^ 21) n_uv -> uv_ok (2 ^ 21) p_uv ->
  tc_no_ub false n_uv p_uv tip nxt prv = true.
Proof.
  apply (tc_no_ub_bounded (2 ^ 21) (2 ^ 21)); try (unfold i64_max; cbv; congruence); try reflexivity.
Qed.
Lemma tc_no_ub_encoder_20 n_uv p_uv tip nxt prv :
  pos_ok (2 ^ 20) tip -> pos_ok (2 ^ 20) nxt -> pos_ok (2 ^ 20) prv -> uv_ok (2 ^ 20) n_uv -> uv_ok (2 ^ 20) p_uv ->
  tc_no_ub true n_uv p_uv tip nxt prv = true.
Proof.
  apply (tc_no_ub_bounded (2 ^ 20) (2 ^ 20)); try (unfold i64_max; cbv; congruence); try reflexivity.
Qed.
Lemma tc_no_ub_encoder_21_witness :
  exists n_uv p_uv tip nxt prv,
    pos_ok (2 ^ 21) tip /\ pos_ok (2 ^ 21) nxt /\ pos_ok (2 ^ 21) prv /\ uv_ok (2 ^ 21) n_uv /\ uv_ok (2 ^ 21) p_uv /\
    tc_no_ub true n_uv p_uv tip nxt prv = false /\ tc_no_ub false n_uv p_uv tip nxt prv = true.
Proof.
  exists (1048576, 0), (2097151, 2097151), (2097151, 4, 0), (0, 0, 0), (2097151, 0, 0).
  unfold pos_ok, uv_ok. cbn [fst snd]. change (2 ^ 21) with 2097152.
  repeat (split; [lia|]). split; vm_compute; reflexivity.
Qed.
Lemma tc_no_ub_int32_witness :
  tc_no_ub false (0, 0) (1, 0) (5, 4, 0) (-2147483648, 0, 0) (2147483647, 0, 0) = false.
Proof. vm_compute. reflexivity. Qed.
