(** The FULL small-step relation of the encoder's trace (Model/EbTrace.v): what ONE iteration of the loop of
    EncodeConnectivityFromCorner does to the members ([SPEC]: visited_faces_, the symbols, the processed corners,
    last_encoded_symbol_id_, the corner stack, the split events recorded by CheckAndStoreTopologySplitEvent,
    face_to_split_symbol_map_, and the branch conditions), and how two consecutive configurations of one run are related
    ([SSTEP]: after C / L / R the loop goes on with the right / left corner on the same state; after E / S entries whose face
    is already visited are popped and the first entry with an unvisited face starts the next strip). *)
From Coq Require Import List Arith Bool PeanoNat ZArith Lia.
Import ListNotations.
From Draco Require Import Model.CornerTable Model.EbEncoder Model.EbTrace Proofs.EbTrace_proofs.

Definition vis_at (vfl : list bool) (o : option nat) : Prop := match o with None => True | Some x => nth (x / 3) vfl false = true end.
Definition unv_at (vfl : list bool) (o : option nat) : Prop := exists x, o = Some x /\ nth (x / 3) vfl false = false.
(** CheckAndStoreTopologySplitEvent *)
Definition chk_ev (m : list (nat * Z)) (id : Z) (ev : list (Z * Z * Z)) (o : option nat) (edge : Z) : list (Z * Z * Z) :=
  match o with
  | Some x => match split_symbol_on_face m (x / 3) with Some sp => (id, sp, edge) :: ev | None => ev end
  | None => ev
  end.

Definition SPEC (opp : list (option nat)) (s : est) (c : nat) (y : Z) (s1 : est) : Prop :=
  syms s1 = y :: syms s /\ pcc s1 = c :: pcc s /\ vf s1 = upd (vf s) (c / 3) true /\ c / 3 < length (vf s) /\
  last_id s1 = (last_id s + 1)%Z /\
  let rc := oat opp (next_c c) in let lc := oat opp (prev_c c) in
  ( (y = 0%Z /\ stack s1 = stack s /\ evs s1 = evs s /\ f2s s1 = f2s s)
  \/ (y = 5%Z /\ vis_at (vf s1) rc /\ unv_at (vf s1) lc /\ stack s1 = stack s /\
        evs s1 = chk_ev (f2s s) (last_id s1) (evs s) rc 1%Z /\ f2s s1 = f2s s)
  \/ (y = 3%Z /\ unv_at (vf s1) rc /\ vis_at (vf s1) lc /\ stack s1 = stack s /\
        evs s1 = chk_ev (f2s s) (last_id s1) (evs s) lc 0%Z /\ f2s s1 = f2s s)
  \/ (y = 7%Z /\ vis_at (vf s1) rc /\ vis_at (vf s1) lc /\ stack s <> [] /\ stack s1 = tl (stack s) /\
        evs s1 = chk_ev (f2s s) (last_id s1) (chk_ev (f2s s) (last_id s1) (evs s) rc 1%Z) lc 0%Z /\ f2s s1 = f2s s)
  \/ (y = 1%Z /\ unv_at (vf s1) rc /\ unv_at (vf s1) lc /\ stack s <> [] /\ stack s1 = rc :: lc :: tl (stack s) /\
        evs s1 = evs s /\ f2s s1 = (c / 3, last_id s1) :: f2s s) ).

Definition dead_at (vfl : list bool) (e : option nat) : Prop := match e with None => True | Some x => nth (x / 3) vfl false = true end.

Definition SSTEP (opp : list (option nat)) (cf cf' : cfg) : Prop :=
  exists y s1, SPEC opp (cf_st cf) (cf_corner cf) y s1 /\
   ( ((y = 0%Z \/ y = 3%Z) /\ cf_st cf' = s1 /\ oat opp (next_c (cf_corner cf)) = Some (cf_corner cf'))
   \/ (y = 5%Z /\ cf_st cf' = s1 /\ oat opp (prev_c (cf_corner cf)) = Some (cf_corner cf'))
   \/ ((y = 7%Z \/ y = 1%Z) /\ exists dead rest, stack s1 = dead ++ Some (cf_corner cf') :: rest /\
          cf_st cf' = with_stack s1 (Some (cf_corner cf') :: rest) /\ nth (cf_corner cf' / 3) (vf s1) false = false /\
          Forall (dead_at (vf s1)) dead) ).

Lemma eget_nth {A} (l : list A) i x d : eget l i = EOk x -> nth i l d = x.
Proof. unfold eget. destruct (nth_error l i) eqn:E; intros H; inversion H; subst. apply nth_error_nth. auto. Qed.
Lemma eset_upd {A} (l : list A) i x l' : eset l i x = EOk l' -> l' = upd l i x /\ i < length l.
Proof. unfold eset. destruct (i <? length l) eqn:E; intros H; inversion H; subst. split; auto. apply Nat.ltb_lt. auto. Qed.
Lemma fvo_vis vfl o : face_visited_opt vfl o = EOk true -> vis_at vfl o.
Proof. destruct o as [x|]; cbn; auto. intros H. apply (eget_nth _ _ _ false) in H. auto. Qed.
Lemma fvo_unv vfl o : face_visited_opt vfl o = EOk false -> unv_at vfl o.
Proof. destruct o as [x|]; cbn; [|discriminate]. intros H. apply (eget_nth _ _ _ false) in H. exists x. auto. Qed.

Lemma check_split_eq s e o : check_split s e o = with_evs s (chk_ev (f2s s) (last_id s) (evs s) o e).
Proof. unfold check_split, chk_ev. destruct o; [|destruct s; reflexivity]. destruct (split_symbol_on_face _ _); destruct s; reflexivity. Qed.

Lemma mark_all (b : bool) sa v s1 :
  (if b then EOk sa else vvl <-- eset (vv sa) v true ;; EOk (with_vv sa vvl)) = EOk s1 ->
  pcc s1 = pcc sa /\ syms s1 = syms sa /\ stack s1 = stack sa /\ vf s1 = vf sa /\ evs s1 = evs sa /\ f2s s1 = f2s sa /\ last_id s1 = last_id sa.
Proof.
  destruct b; intros X. inversion X; subst; auto 10.
  destruct (eset (vv sa) v true); cbn [ebind] in X; try discriminate. inversion X; subst; auto 10.
Qed.
Lemma encode_hole_all c2v opp hid s c first s' : encode_hole c2v opp hid s c first = EOk s' ->
  pcc s' = pcc s /\ syms s' = syms s /\ stack s' = stack s /\ vf s' = vf s /\ evs s' = evs s /\ f2s s' = f2s s /\ last_id s' = last_id s.
Proof.
  unfold encode_hole. intros H.
  repeat match type of H with
  | ebind ?e _ = EOk _ => destruct e; cbn [ebind] in H; try discriminate
  | match ?h with Some _ => _ | None => _ end = EOk _ => destruct h; try discriminate
  end.
  inversion H; subst. auto 10.
Qed.

Section Step.
Variables (c2v : list nat) (opp : list (option nat)) (hid : list (option nat)).

(** the newest configuration has emitted its symbol: [s] is its [SPEC] state after some pops of visited entries; [K]: if the
    symbol was C / L / R the loop ran out of its iteration bound, and the trace has at least [K] configurations *)
Definition POSTS (K : nat) (tr : list cfg) (s : est) : Prop :=
  exists cf r, tr = cf :: r /\ exists y s1 dead, SPEC opp (cf_st cf) (cf_corner cf) y s1 /\ stack s1 = dead ++ stack s /\
    s = with_stack s1 (stack s) /\ Forall (dead_at (vf s1)) dead /\ ((y = 7%Z \/ y = 1%Z) \/ K <= length tr).
Definition PRES (tr : list cfg) (c : nat) (s : est) : Prop :=
  match tr with [] => True | cf :: _ => SSTEP opp cf (mk_cfg c s) end.

Lemma with_stack_id s : with_stack s (stack s) = s.
Proof. destruct s; reflexivity. Qed.

Lemma inner_tr_sstep : forall k s c tr s' tr', inner_tr c2v opp hid k s (Some c) tr = EOk (s', tr') ->
  gadj (SSTEP opp) tr -> PRES tr c s ->
  gadj (SSTEP opp) tr' /\ ((k = 0 /\ tr' = tr /\ s' = s) \/ (k <> 0 /\ POSTS (length tr + k) tr' s' /\ length tr < length tr')).
Proof.
  induction k as [|k IH]; intros s c tr s' tr' H A P; cbn [inner_tr] in H.
  - inversion H; subst. auto.
  - cbv zeta in H.
    assert (A1 : gadj (SSTEP opp) (mk_cfg c s :: tr)).
    { destruct tr as [|cf r]; cbn [gadj]; auto. }
    (* after a C / L / R: the loop goes on with the corner [o] on the state [s3] *)
    assert (Step : forall s3 o y0, inner_tr c2v opp hid k s3 o (mk_cfg c s :: tr) = EOk (s', tr') -> SPEC opp s c y0 s3 ->
              ((y0 = 0 \/ y0 = 3)%Z /\ o = oat opp (next_c c) \/ y0 = 5%Z /\ o = oat opp (prev_c c)) ->
              gadj (SSTEP opp) tr' /\ ((S k = 0 /\ tr' = tr /\ s' = s) \/ (S k <> 0 /\ POSTS (length tr + S k) tr' s' /\ length tr < length tr'))).
    { intros s3 o y0 E3 Sp Hy.
      assert (Ex : k = 0 -> tr' = mk_cfg c s :: tr /\ s' = s3).
      { intros ->. cbn in E3. inversion E3; subst. auto. }
      assert (Pex : k = 0 -> gadj (SSTEP opp) tr' /\ POSTS (length tr + 1) tr' s' /\ length tr < length tr').
      { intros K0. destruct (Ex K0) as (-> & ->). split; auto. split; [|cbn [length]; lia].
        exists (mk_cfg c s), tr. split; auto. exists y0, s3, []. cbn [cf_st cf_corner app]. split; auto. split; auto.
        split; [symmetry; apply with_stack_id|]. split; [constructor|]. right. cbn [length]. lia. }
      destruct o as [nx|].
      - destruct (Nat.eq_dec k 0) as [K0|K0].
        + destruct (Pex K0) as (B1 & B2 & B3). subst k. split; [exact B1|]. right. split; [lia|]. split; [exact B2|exact B3].
        + assert (PR : PRES (mk_cfg c s :: tr) nx s3).
          { cbn [PRES]. exists y0, s3. split; auto. cbn [cf_st cf_corner].
            destruct Hy as [(Hy & Eo)|(Hy & Eo)]; [left|right; left]; split; auto. }
          destruct (IH s3 nx _ _ _ E3 A1 PR) as (B1 & [(B2 & _)|(_ & B2 & B3)]); [lia|].
          split; [exact B1|]. right. split; [lia|]. cbn [length] in B2, B3. replace (length tr + S k) with (S (length tr) + k) by lia. split; [exact B2|lia].
      - destruct k; cbn in E3; [|discriminate]. destruct (Pex eq_refl) as (B1 & B2 & B3). split; [exact B1|]. right. split; [lia|]. split; [exact B2|exact B3]. }
    hstep H. match goal with X : eset _ _ true = EOk _ |- _ => apply eset_upd in X; cbn [vf with_last_id] in X; destruct X as (Evf & Lvf) end.
    hstep H. hstep H. hstep H. hstep H.
    match goal with X : (if _ then EOk _ else _) = EOk _ |- _ => apply mark_all in X; cbn in X; destruct X as (P1 & Y1 & St1 & Vf1 & Ev1 & Fs1 & Li1) end.
    unfold TOPOLOGY_C, TOPOLOGY_S, TOPOLOGY_L, TOPOLOGY_R, TOPOLOGY_E, RIGHT_FACE_EDGE, LEFT_FACE_EDGE in *.
    Ltac get_rc := match goal with X : right_corner ?o ?c = EOk ?r |- _ =>
                     let E := fresh "Erc" in assert (E : oat o (next_c c) = r) by (apply eget_oat; exact X); clear X end.
    Ltac get_lc := match goal with X : left_corner ?o ?c = EOk ?r |- _ =>
                     let E := fresh "Elc" in assert (E : oat o (prev_c c) = r) by (apply eget_oat; exact X); clear X end.
    hstep H.
    + (* C *)
      hstep H. get_rc. apply (Step _ _ 0%Z H).
      * unfold SPEC. cbv zeta. refine (conj _ (conj _ (conj _ (conj Lvf (conj _ _))))); cbn [emit with_syms syms pcc vf last_id]; try congruence.
        left. cbn [emit with_syms stack evs f2s]. auto.
      * left. split; auto.
    + hstep H. get_rc. hstep H. get_lc. hstep H. hstep H.
      * (* right visited *)
        match goal with X : face_visited_opt _ _ = EOk true |- _ => apply fvo_vis in X; rename X into Vr end.
        hstep H. hstep H.
        -- (* E *)
           match goal with X : face_visited_opt _ _ = EOk true |- _ => apply fvo_vis in X; rename X into Vl end.
           hstep H. inversion H; subst s' tr'. split; auto. right. split; [lia|]. split; [|cbn [length]; lia].
           rewrite !check_split_eq in *. cbn [with_evs emit with_syms with_stack syms pcc vf last_id stack evs f2s] in *.
           match goal with |- POSTS _ _ ?sN => set (sF := sN) end.
           exists (mk_cfg c s), tr. split; auto.
           exists 7%Z, sF, []. cbn [cf_st cf_corner app]. split; [|split; [reflexivity|split; [symmetry; apply with_stack_id|split; [constructor|left; auto]]]].
           unfold sF, SPEC. cbv zeta. cbn [with_evs emit with_syms with_stack syms pcc vf last_id stack evs f2s].
           refine (conj _ (conj _ (conj _ (conj Lvf (conj _ _))))); try congruence.
           right. right. right. left. rewrite Erc, Elc. split; auto. split; [exact Vr|]. split; [exact Vl|].
           split; [rewrite <- St1, Est; discriminate|]. split; [rewrite <- St1, Est; reflexivity|]. rewrite Ev1, Fs1, Li1. auto.
        -- (* R *)
           match goal with X : face_visited_opt _ _ = EOk false |- _ => apply fvo_unv in X; rename X into Ul end.
           rewrite check_split_eq in *. cbn [with_evs vf] in Ul.
           apply (Step _ _ 5%Z H).
           ++ unfold SPEC. cbv zeta. cbn [with_evs emit with_syms syms pcc vf last_id stack evs f2s].
              refine (conj _ (conj _ (conj _ (conj Lvf (conj _ _))))); try congruence.
              right. left. rewrite Erc, Elc. split; auto. split; [exact Vr|]. split; [exact Ul|].
              split; [congruence|]. rewrite Ev1, Fs1, Li1. auto.
           ++ right. split; auto.
      * match goal with X : face_visited_opt _ _ = EOk false |- _ => apply fvo_unv in X; rename X into Ur end.
        hstep H. hstep H.
        -- (* L *)
           match goal with X : face_visited_opt _ _ = EOk true |- _ => apply fvo_vis in X; rename X into Vl end.
           rewrite check_split_eq in *.
           apply (Step _ _ 3%Z H).
           ++ unfold SPEC. cbv zeta. cbn [with_evs emit with_syms syms pcc vf last_id stack evs f2s].
              refine (conj _ (conj _ (conj _ (conj Lvf (conj _ _))))); try congruence.
              right. right. left. rewrite Erc, Elc. split; auto. split; [exact Ur|]. split; [exact Vl|].
              split; [congruence|]. rewrite Ev1, Fs1, Li1. auto.
           ++ left. split; auto.
        -- (* S *)
           match goal with X : face_visited_opt _ _ = EOk false |- _ => apply fvo_unv in X; rename X into Ul end.
           hstep H.
           match goal with X : match ?h with Some _ => _ | None => _ end = EOk ?sx |- _ =>
             assert (P6 : pcc sx = c :: pcc s /\ syms sx = 1%Z :: syms s /\ stack sx = stack s /\ vf sx = upd (vf s) (c / 3) true /\
                          evs sx = evs s /\ f2s sx = f2s s /\ last_id sx = (last_id s + 1)%Z);
             [ destruct h as [hole|];
               [ hstep X; hstep X;
                 [ injection X as <-; cbn [pcc syms stack vf evs f2s last_id with_nsplit emit with_syms]; repeat split; congruence
                 | apply encode_hole_all in X; cbn [pcc syms stack vf evs f2s last_id with_nsplit emit with_syms] in X;
                   destruct X as (Q1 & Q2 & Q3 & Q4 & Q5 & Q6 & Q7); repeat split; congruence ]
               | injection X as <-; cbn [pcc syms stack vf evs f2s last_id with_nsplit emit with_syms]; repeat split; congruence ] | ] end.
           destruct P6 as (Q1 & Q2 & Q3 & Q4 & Q5 & Q6 & Q7). hstep H. inversion H; subst s' tr'. split; auto. right. split; [lia|]. split; [|cbn [length]; lia].
           match goal with |- POSTS _ _ ?sN => set (sF := sN) end.
           exists (mk_cfg c s), tr. split; auto.
           exists 1%Z, sF, []. cbn [cf_st cf_corner app]. split; [|split; [reflexivity|split; [symmetry; apply with_stack_id|split; [constructor|left; auto]]]].
           unfold sF, SPEC. cbv zeta. cbn [with_f2s with_stack syms pcc vf last_id stack evs f2s].
           refine (conj Q2 (conj Q1 (conj Q4 (conj Lvf (conj Q7 _))))).
           right. right. right. right. rewrite Erc, Elc. split; auto. rewrite Q4.
           rewrite Vf1 in Ur, Ul. cbn [with_vf with_pcc with_last_id vf] in Ur, Ul. rewrite Evf in Ur, Ul.
           split; [exact Ur|]. split; [exact Ul|].
           cbn [stack with_f2s] in Est. rewrite Q3 in Est. split; [rewrite Est; discriminate|]. split; [rewrite Est; reflexivity|]. split; [exact Q5|]. rewrite Q6. reflexivity.
Qed.

Lemma with_stack_twice s a b : with_stack (with_stack s a) b = with_stack s b.
Proof. destruct s; reflexivity. Qed.

Lemma POSTS_weaken K K' tr s : K' <= K -> POSTS K tr s -> POSTS K' tr s.
Proof.
  intros L (cf & r & E & y & s1 & dead & A & B & C & D & F). exists cf, r. split; auto. exists y, s1, dead.
  split; auto. split; auto. split; auto. split; auto. destruct F as [F|F]; [left; auto|right; lia].
Qed.

Lemma POSTS_pop K tr s top r : POSTS K tr s -> stack s = top :: r -> dead_at (vf s) top -> POSTS K tr (with_stack s r).
Proof.
  intros (cf & r0 & E & y & s1 & dead & A & B & C & D & F) St Dt. exists cf, r0. split; auto. exists y, s1, (dead ++ [top]).
  split; auto. cbn [with_stack stack]. split; [rewrite B, St, <- app_assoc; reflexivity|].
  split; [rewrite C, with_stack_twice; reflexivity|]. split; [|exact F].
  apply Forall_app. split; auto. constructor; [|constructor]. rewrite C in Dt. cbn [with_stack vf] in Dt. exact Dt.
Qed.

(** the oldest configuration of a run started with the empty trace: the state of the call, with the stack from its entry on *)
Definition FIRSTS (tr' : list cfg) (s : est) : Prop :=
  tr' = [] \/ exists pre cf d, tr' = pre ++ [cf] /\ cf_st cf = with_stack s (stack (cf_st cf)) /\
                stack s = d ++ stack (cf_st cf) /\ hd None (stack (cf_st cf)) = Some (cf_corner cf).

Lemma inner_tr_grows k s c tr s1 tr1 : inner_tr c2v opp hid k s (Some c) tr = EOk (s1, tr1) ->
  exists p, tr1 = p ++ tr /\ (k <> 0 -> exists p', p = p' ++ [mk_cfg c s]).
Proof.
  intros E1. pose proof (inner_tr_app c2v opp hid k s (Some c) [] tr) as X. cbn [app] in X. rewrite E1 in X.
  destruct (inner_tr c2v opp hid k s (Some c) []) as [[s2 p]| | |] eqn:E0; cbn [emap app_tr fst snd] in X; try discriminate.
  inversion X; subst. exists p. split; auto. intros NZ.
  destruct (inner_tr_ladj c2v opp hid k s c [] s2 p E0 I I) as (_ & _ & pre & Ep & Eq). rewrite app_nil_r in Ep. subst pre. apply Eq. exact NZ.
Qed.

Lemma outer_tr_grows fuel s tr s' tr' : outer_tr c2v opp hid fuel s tr = EOk (s', tr') -> exists p, tr' = p ++ tr.
Proof.
  intros H. pose proof (outer_tr_app c2v opp hid fuel s [] tr) as X. cbn [app] in X. rewrite H in X.
  destruct (outer_tr c2v opp hid fuel s []) as [[s2 p]| | |]; cbn [emap app_tr fst snd] in X; try discriminate.
  inversion X; subst. exists p. auto.
Qed.

Lemma outer_tr_sstep : forall fuel s tr s' tr', outer_tr c2v opp hid fuel s tr = EOk (s', tr') ->
  length tr' <= NF c2v -> gadj (SSTEP opp) tr -> (tr = [] \/ POSTS (NF c2v) tr s) ->
  gadj (SSTEP opp) tr' /\ (tr = [] -> FIRSTS tr' s) /\ (tr' = [] \/ POSTS (NF c2v) tr' s').
Proof.
  induction fuel as [|k IH]; intros s tr s' tr' H Bd A P; cbn [outer_tr] in H; [discriminate|].
  destruct (stack s) as [|top r] eqn:St.
  - inversion H; subst. split; auto. split; auto. intros ->. left. reflexivity.
  - assert (Dead : dead_at (vf s) top -> outer_tr c2v opp hid k (with_stack s r) tr = EOk (s', tr') ->
              gadj (SSTEP opp) tr' /\ (tr = [] -> FIRSTS tr' s) /\ (tr' = [] \/ POSTS (NF c2v) tr' s')).
    { intros Dt H'. destruct (IH _ _ _ _ H' Bd A) as (B1 & B3 & B4).
      { destruct P as [->|P]; [left; auto|right]. eapply POSTS_pop; eauto. }
      split; auto. split; [|exact B4]. intros E. destruct (B3 E) as [X|(pre & cf & d & X1 & X2 & X3 & X4)]; [left; exact X|right].
      cbn [with_stack stack] in X2, X3. exists pre, cf, (top :: d). split; auto. rewrite with_stack_twice in X2. split; auto.
      split; [rewrite St, X3; reflexivity|exact X4]. }
    destruct top as [c|]; [|apply Dead; [exact I|exact H]].
    hstep H. hstep H; [apply Dead; [cbn [dead_at]; apply (eget_nth _ _ _ false) in E; exact E|exact H]|].
    apply (eget_nth _ _ _ false) in E.
    hstep H. match goal with X : inner_tr _ _ _ _ _ _ _ = EOk ?p |- _ => destruct p as [s1 tr1]; rename X into E1 end. cbn [fst snd] in H.
    destruct (Nat.eq_dec (NF c2v) 0) as [Z0|NZ].
    { (* no iteration at all: the state is unchanged *)
      rewrite Z0 in E1. cbn [inner_tr] in E1. inversion E1; subst s1 tr1.
      destruct (IH _ _ _ _ H Bd A P) as (B1 & B3 & B4). split; auto. }
    destruct (inner_tr_grows _ _ _ _ _ _ E1) as (p1 & Ep1 & Gp1).
    destruct (outer_tr_grows _ _ _ _ _ H) as (p2 & Ep2).
    destruct (Gp1 NZ) as (p1' & Ep1').
    assert (PR : PRES tr c s).
    { destruct tr as [|cf t]; cbn [PRES]; auto. destruct P as [P|P]; [discriminate|].
      destruct P as (cf0 & r0 & E0 & y & s0 & dead & Sp & B & C & D & F). inversion E0; subst cf0 r0.
      destruct F as [F|F].
      - exists y, s0. split; auto. right. right. split; auto. exists dead, r. rewrite B, St. split; auto. cbn [cf_st cf_corner].
        split; [rewrite C, St; reflexivity|]. split; [rewrite C in E; cbn [with_stack vf] in E; exact E|exact D].
      - exfalso. subst tr' tr1 p1. rewrite !app_length in Bd. cbn [length] in Bd, F. lia. }
    destruct (inner_tr_sstep _ _ _ _ _ _ E1 A PR) as (A1 & [(K0 & _)|(_ & P1 & _)]); [lia|].
    destruct (IH _ _ _ _ H Bd A1) as (B1 & _ & B4).
    { right. eapply POSTS_weaken; [|exact P1]. lia. }
    split; auto. split; [|exact B4]. intros ->. right. rewrite app_nil_r in Ep1. subst tr' tr1 p1.
    exists (p2 ++ p1'), (mk_cfg c s), []. rewrite <- app_assoc. cbn [cf_st cf_corner app]. rewrite St. cbn [hd].
    split; auto. split; [rewrite <- St; symmetry; apply with_stack_id|auto].
Qed.

Lemma from_corner_tr_sstep s c s' tr' : from_corner_tr c2v opp hid s (Some c) [] = EOk (s', tr') -> length tr' <= NF c2v ->
  gadj (SSTEP opp) tr' /\ (tr' = [] \/ exists pre cf0, tr' = pre ++ [cf0] /\ cf_st cf0 = with_stack s [Some c] /\ cf_corner cf0 = c) /\
  (tr' = [] \/ POSTS (NF c2v) tr' s').
Proof.
  intros H Bd. unfold from_corner_tr in H. destruct (outer_tr_sstep _ _ _ _ _ H Bd I (or_introl eq_refl)) as (A & B & C). split; auto. split; [|exact C].
  destruct (B eq_refl) as [X|(pre & cf0 & d & X1 & X2 & X3 & X4)]; [left; exact X|right]. exists pre, cf0. split; auto.
  cbn [with_stack stack] in X2, X3. rewrite with_stack_twice in X2.
  assert (Es : stack (cf_st cf0) = [Some c] /\ cf_corner cf0 = c).
  { destruct d as [|d0 d]; cbn [app] in X3.
    - rewrite <- X3 in X4 |- *. cbn in X4. inversion X4; subst. auto.
    - inversion X3 as [[Q1 Q2]]. destruct d; cbn in Q2; [|discriminate]. rewrite <- Q2 in X4. cbn in X4. discriminate. }
  destruct Es as (Es & Ec). rewrite Es in X2. auto.
Qed.
End Step.

(** * with ONE start-face bit the whole trace is the trace of one call of EncodeConnectivityFromCorner on a pristine state *)
Definition PRISTINE (s : est) : Prop := syms s = [] /\ pcc s = [] /\ evs s = [] /\ f2s s = [] /\ last_id s = (-1)%Z.

Section OneCall.
Variables (c2v : list nat) (opp : list (option nat)) (hid : list (option nat)).

Definition call1 (st : eres (est * list bool * list nat * list cfg)) : Prop :=
  forall s bits inits tr, st = EOk (s, bits, inits, tr) ->
    (bits = [] /\ tr = [] /\ PRISTINE s) \/
    (length bits = 1 /\ (tr = [] \/ exists s0 c0, PRISTINE s0 /\ from_corner_tr c2v opp hid s0 (Some c0) [] = EOk (s, tr))) \/
    2 <= length bits.

Lemma ec_corner_tr_call1 st c_id : call1 st -> call1 (ec_corner_tr c2v opp hid st c_id).
Proof.
  intros Co s' bits' inits' tr' H. unfold ec_corner_tr in H.
  destruct st as [[[[s bits] inits] tr]| | |]; cbn [ebind] in H; try discriminate. specialize (Co s bits inits tr eq_refl).
  hstep H. hstep H. { inversion H; subst; auto. }
  destruct (is_degenerated c2v (c_id / 3)). { inversion H; subst; auto. }
  hstep H. match goal with X : find_init _ _ _ _ = EOk ?p |- _ => destruct p as [start interior] end.
  destruct Co as [(-> & -> & Pr)|[(L1 & _)|L2]].
  2: { right. right. destruct interior; repeat hstep H;
       repeat match type of H with match ?o with Some _ => _ | None => _ end = _ => destruct o end; repeat hstep H;
       inversion H; subst; cbn [length]; lia. }
  2: { right. right. destruct interior; repeat hstep H;
       repeat match type of H with match ?o with Some _ => _ | None => _ end = _ => destruct o end; repeat hstep H;
       inversion H; subst; cbn [length]; lia. }
  right. left. destruct interior.
  - repeat hstep H.
    match type of H with match ?o with Some _ => _ | None => _ end = _ => destruct o as [oc|] end.
    + hstep H. hstep H. { inversion H; subst. split; [reflexivity|left; reflexivity]. }
      hstep H. match goal with X : from_corner_tr _ _ _ ?s1 _ _ = EOk ?p |- _ => destruct p as [s2 tr1]; cbn [fst snd] in H; inversion H; subst;
        split; [reflexivity|]; right; exists s1, oc; split; [|exact X] end.
      destruct Pr as (Q1 & Q2 & Q3 & Q4 & Q5). repeat split; assumption.
    + inversion H; subst. split; [reflexivity|left; reflexivity].
  - hstep H. hstep H.
    match goal with X : from_corner_tr _ _ _ ?s1 _ _ = EOk ?p, X2 : encode_hole _ _ _ _ _ _ = EOk _ |- _ =>
      destruct p as [s2 tr1]; cbn [fst snd] in H; inversion H; subst; split; [reflexivity|]; right; exists s1, start; split; [|exact X];
      apply encode_hole_all in X2; destruct X2 as (Z1 & Z2 & Z3 & Z4 & Z5 & Z6 & Z7) end.
    destruct Pr as (Q1 & Q2 & Q3 & Q4 & Q5). repeat split; congruence.
Qed.

Lemma ec_fold_tr_call1 l : forall st, call1 st -> call1 (fold_left (ec_corner_tr c2v opp hid) l st).
Proof. induction l as [|a l IH]; intros st Co; cbn [fold_left]; auto. apply IH. apply ec_corner_tr_call1. auto. Qed.
End OneCall.

Theorem trace_one_call c2v opp nv niso ndeg o tr : eb_encode_tr c2v opp nv niso ndeg = EOk (o, tr) -> length (o_bits o) = 1 ->
  tr = [] \/ exists hid s0 c0 sF, PRISTINE s0 /\ from_corner_tr c2v opp hid s0 (Some c0) [] = EOk (sF, rev tr) /\
     o_syms o = rev (syms sF) /\ o_events o = rev (evs sF).
Proof.
  unfold eb_encode_tr. intros H Lb. destruct (NF c2v =? ndeg); [discriminate|].
  destruct (find_holes c2v opp nv) as [[hid vh]| | |]; cbn [ebind] in H; try discriminate.
  destruct (fold_left (ec_corner_tr c2v opp hid) (seq 0 (NC c2v)) (EOk (init_est (NF c2v) nv vh, [], [], []))) as [[[[s bits] inits] tr0]| | |] eqn:Ef;
    cbn [ebind] in H; try discriminate.
  inversion H; subst o tr. clear H. cbn [o_bits o_syms o_events] in *. rewrite rev_length in Lb.
  assert (R : call1 c2v opp hid (EOk (s, bits, inits, tr0))).
  { rewrite <- Ef. apply ec_fold_tr_call1. intros s0 b0 i0 t0 X. inversion X; subst. left. split; auto. split; auto. repeat split; reflexivity. }
  destruct (R s bits inits tr0 eq_refl) as [(-> & _)|[(_ & [->|(s0 & c0 & Pr & Ec)])|L2]]; [cbn in Lb; lia|left; reflexivity| |lia].
  right. exists hid, s0, c0, s. rewrite rev_involutive. auto.
Qed.
