(** The LEDGER of the runs of the encoder's trace: a joint induction over the fold of EncodeConnectivity (the trace fold
    [ec_corner_tr] together with the invariant [EbEncoder_proofs.ECinv] of the erased state at every prefix).  Every
    start-face bit belongs to a call of EncodeConnectivityFromCorner that EMITS a symbol (its start face is not visited:
    [CLOSED], [FANC]); the ledger records per bit the position of the first configuration of the call, its corner, and for an
    interior bit the init corner with Opposite(init corner) = that corner.  The step INTO a ledger position is a run boundary
    [RSTEP], every other step is [SSTEP]. *)
From Coq Require Import List Arith Bool PeanoNat ZArith Lia Sorting.Sorted.
Import ListNotations.
From Draco Require Import Model.CornerTable Model.EbEncoder Model.EbTrace Proofs.CornerTable_proofs Proofs.EbEncoder_proofs Proofs.EbTrace_proofs
  Proofs.EbTraceStep_proofs Proofs.EbTraceStepM_proofs.

Lemma filter_none_all {A} (p : A -> bool) l : (forall e, In e l -> p e = false) -> filter p l = [].
Proof. induction l as [|a l IH]; intros H; [reflexivity|]. cbn [filter]. rewrite (H a (or_introl eq_refl)). apply IH. intros e He. apply H. right. auto. Qed.

Definition lent : Type := (nat * nat * option nat)%type.   (* position, corner, init corner of an interior start *)
Definition lpos (e : lent) : nat := fst (fst e).
Definition lcor (e : lent) : nat := snd (fst e).
Definition lic (e : lent) : option nat := snd e.
Definition lbit (e : lent) : bool := match lic e with Some _ => true | None => false end.
Definition lics (L : list lent) : list nat := flat_map (fun e => match lic e with Some ic => [ic] | None => [] end) L.

Definition PSTEPS (opp : list (option nat)) (tr : list cfg) (P : list nat) : Prop :=
  forall i cf cf', nth_error (rev tr) i = Some cf -> nth_error (rev tr) (S i) = Some cf' ->
    (In (S i) P -> RSTEP opp cf cf') /\ (~ In (S i) P -> SSTEP opp cf cf').

Definition LEDG (opp : list (option nat)) (tr : list cfg) (bits : list bool) (inits : list nat) (L : list lent) : Prop :=
  bits = map lbit L /\ inits = lics L /\
  (forall e ic, In e L -> lic e = Some ic -> oat opp ic = Some (lcor e)) /\
  (forall e, In e L -> exists cf, nth_error (rev tr) (lpos e) = Some cf /\ cf_corner cf = lcor e) /\
  StronglySorted (fun e e' => lpos e' < lpos e) L /\
  (tr <> [] -> In 0 (map lpos L)).

(** ** list facts about positions (a strictly DEcreasing list) and about the ledger read in encoding order *)
Lemma filter_step_nin (PD : list nat) i : ~ In (S i) PD -> filter (fun a => i <? a) PD = filter (fun a => S i <? a) PD.
Proof.
  intros Ni. apply filter_ext_in. intros a Ha. assert (a <> S i) by (intro X; subst; auto).
  destruct (i <? a) eqn:E1; destruct (S i <? a) eqn:E2; auto; [apply Nat.ltb_lt in E1; apply Nat.ltb_ge in E2|apply Nat.ltb_ge in E1; apply Nat.ltb_lt in E2]; lia.
Qed.

Lemma filter_step_in (PD : list nat) i : StronglySorted (fun a b => b < a) PD -> In (S i) PD ->
  filter (fun a => i <? a) PD = filter (fun a => S i <? a) PD ++ [S i].
Proof.
  induction 1 as [|a r Hs IH Hf]; intros Hin; [destruct Hin|]. rewrite Forall_forall in Hf. cbn [filter].
  destruct (Nat.eq_dec a (S i)) as [->|Na].
  - replace (i <? S i) with true by (symmetry; apply Nat.ltb_lt; lia). rewrite Nat.ltb_irrefl.
    assert (F1 : filter (fun a => i <? a) r = []) by (apply filter_none_all; intros e He; specialize (Hf e He); apply Nat.ltb_ge; lia).
    assert (F2 : filter (fun a => S i <? a) r = []) by (apply filter_none_all; intros e He; specialize (Hf e He); apply Nat.ltb_ge; lia).
    rewrite F1, F2. reflexivity.
  - destruct Hin as [X|Hin]; [congruence|]. specialize (Hf _ Hin).
    replace (i <? a) with true by (symmetry; apply Nat.ltb_lt; lia). replace (S i <? a) with true by (symmetry; apply Nat.ltb_lt; lia).
    rewrite (IH Hin). reflexivity.
Qed.

Lemma desc_zero (PD : list nat) : StronglySorted (fun a b => b < a) PD -> In 0 PD -> rev PD = 0 :: rev (filter (fun a => 0 <? a) PD).
Proof.
  induction 1 as [|a r Hs IH Hf]; intros Hin; [destruct Hin|]. rewrite Forall_forall in Hf. cbn [filter rev].
  destruct (Nat.eq_dec a 0) as [->|Na].
  - destruct r as [|b r']; [reflexivity|]. specialize (Hf b (or_introl eq_refl)). lia.
  - destruct Hin as [X|Hin]; [congruence|]. replace (0 <? a) with true by (symmetry; apply Nat.ltb_lt; lia).
    cbn [rev]. rewrite (IH Hin). reflexivity.
Qed.

Lemma sorted_map_lpos (L : list lent) : StronglySorted (fun e e' => lpos e' < lpos e) L -> StronglySorted (fun a b => b < a) (map lpos L).
Proof.
  induction 1 as [|e r Hs IH Hf]; cbn [map]; constructor; auto. apply Forall_forall. intros a Ha. apply in_map_iff in Ha. destruct Ha as (e' & <- & He').
  rewrite Forall_forall in Hf. apply Hf. exact He'.
Qed.

Lemma lics_app L1 L2 : lics (L1 ++ L2) = lics L1 ++ lics L2.
Proof. unfold lics. apply flat_map_app. Qed.
Lemma lics_rev L : lics (rev L) = rev (lics L).
Proof.
  induction L as [|e L IH]; [reflexivity|]. cbn [rev]. rewrite lics_app, IH. unfold lics at 2 3. cbn [flat_map]. rewrite rev_app_distr.
  destruct (lic e); cbn [rev app]; rewrite ?app_nil_r; reflexivity.
Qed.
Lemma lics_length L : length (lics L) = count_occ bool_dec (map lbit L) true.
Proof.
  induction L as [|e L IH]; [reflexivity|]. unfold lics in *. cbn [flat_map map]. rewrite app_length, IH. unfold lbit at 2.
  destruct (lic e); cbn [length count_occ]; destruct (bool_dec _ _); try congruence; lia.
Qed.
Lemma lics_nth : forall LA i e ic, nth_error LA i = Some e -> lic e = Some ic ->
  nth_error (lics LA) (count_occ bool_dec (firstn i (map lbit LA)) true) = Some ic.
Proof.
  induction LA as [|a LA IH]; intros [|i] e ic He Hi; cbn [nth_error] in He; try discriminate.
  - inversion He; subst a. unfold lics. cbn [firstn count_occ flat_map]. rewrite Hi. reflexivity.
  - cbn [map firstn]. unfold lics. cbn [flat_map]. fold (lics LA). unfold lbit at 1. destruct (lic a) as [ia|].
    + cbn [count_occ app]. destruct (bool_dec true true); [|congruence]. cbn [nth_error]. apply (IH i e ic); auto.
    + cbn [count_occ app]. destruct (bool_dec false true); [discriminate|]. apply (IH i e ic); auto.
Qed.

Section LedgerFold.
Variables (c2v : list nat) (opp : list (option nat)) (nf nv nh : nat) (hid : list (option nat)).
Hypothesis Hlen : length c2v = 3 * nf.
Hypothesis OK : opp_ok c2v opp.
Hypothesis Hv : forall c, c < 3 * nf -> vtx c2v c < nv.
Hypothesis FI : forall f, f < nf -> is_degenerated c2v f = false ->
  exists start interior, find_init c2v opp hid f = EOk (start, interior) /\ start < 3 * nf /\
    (interior = true -> start / 3 = f /\
       forall x, x < 3 * nf -> x / 3 = f -> opp_at opp x <> None /\ nth (vtx c2v x) hid None = None) /\
    (interior = false -> nondeg c2v start /\ opp_at opp start = None /\
       exists c y, c / 3 = f /\ c < 3 * nf /\ y < 3 * nf /\ vtx c2v c = vtx c2v y /\ nondeg c2v y /\ start = prev_c y).
Hypothesis FANC : forall vfl a b, CLOSED opp nf vfl -> (forall x, x < 3 * nf -> nth (x / 3) vfl false = true -> nondeg c2v x) ->
  a < 3 * nf -> b < 3 * nf -> nondeg c2v a -> nondeg c2v b -> vtx c2v a = vtx c2v b ->
  nth (a / 3) vfl false = true -> nth (b / 3) vfl false = true.

Definition JGOOD (tr : list cfg) (s : est) (bits : list bool) (inits : list nat) : Prop :=
  (tr = [] /\ PRISTINE s /\ bits = [] /\ inits = []) \/
  (exists L, LEDG opp tr bits inits L /\ PSTEPS opp tr (map lpos L) /\ LASTF tr /\ POSTM c2v opp tr s).
Definition jgood4 (st : eres (est * list bool * list nat * list cfg)) : Prop :=
  forall s bits inits tr, st = EOk (s, bits, inits, tr) -> length tr <= NF c2v -> JGOOD tr s bits inits.

Lemma JGOOD_REL tr s s' bits inits : JGOOD tr s bits inits -> REL s s' -> JGOOD tr s' bits inits.
Proof.
  intros [(E & P & B & I)|(L & A & B & C & (cf & r & y & s1 & E & Sp & Dd & R & F))] Re.
  - left. split; auto. split; [eapply PRISTINE_REL; eauto|auto].
  - right. exists L. split; auto. split; auto. split; auto. exists cf, r, y, s1. split; auto. split; auto. split; auto. split; [eapply REL_trans; eauto|exact F].
Qed.

(** a call on an unvisited face emits a symbol *)
Lemma from_corner_emits s c s2 p : from_corner_tr c2v opp hid s (Some c) [] = EOk (s2, p) ->
  nth (c / 3) (vf s) false = false -> NF c2v <> 0 -> p <> [].
Proof.
  unfold from_corner_tr. intros H Un NZ. destruct (outer_fuel c2v) as [|k]; cbn [outer_tr] in H; [discriminate|].
  cbn [with_stack stack] in H. hstep H.
  match goal with X : eget _ _ = EOk ?b |- _ => apply (eget_nth _ _ _ false) in X; cbn [with_stack vf] in X; rewrite Un in X; subst b end.
  hstep H. match goal with X : inner_tr _ _ _ _ _ _ _ = EOk ?q |- _ => destruct q as [s1 tr1]; rename X into E1 end. cbn [fst snd] in H.
  destruct (inner_tr_grows _ _ _ _ _ _ _ _ _ E1) as (p1 & Ep1 & Gp1). destruct (Gp1 NZ) as (p1' & Ep1'). subst p1.
  destruct (outer_tr_grows _ _ _ _ _ _ _ _ H) as (p2 & Ep2). subst p tr1. rewrite app_nil_r.
  intro X. apply app_eq_nil in X. destruct X as [_ X]. apply app_eq_nil in X. destruct X as [_ X]. discriminate.
Qed.

Lemma JGOOD_call tr s c s2 tr1 (b : bool) bits inits inits' : JGOOD tr s bits inits ->
  from_corner_tr c2v opp hid s (Some c) tr = EOk (s2, tr1) -> length tr1 <= NF c2v ->
  nth (c / 3) (vf s) false = false -> NF c2v <> 0 ->
  (if b then exists ic, inits' = ic :: inits /\ oat opp ic = Some c else inits' = inits) ->
  JGOOD tr1 s2 (b :: bits) inits'.
Proof.
  intros G H Bd Un NZ Hb. destruct (from_corner_tr_app _ _ _ _ _ _ _ _ H) as (p & Hp & ->).
  rewrite app_length in Bd.
  pose proof (from_corner_emits s c s2 p Hp Un NZ) as Np.
  destruct (from_corner_tr_sstep c2v opp hid s c s2 p Hp ltac:(lia)) as (A & Fi & Po).
  destruct Fi as [X|(pre & cf0 & Epre & Es0 & Ec0)]; [congruence|]. destruct Po as [X|Po]; [congruence|].
  assert (SF : stack s2 = []).
  { destruct (from_corner_tr_ladj c2v opp hid s c s2 p Hp) as (_ & _ & X & _). exact X. }
  assert (PW : POSTM c2v opp (p ++ tr) s2).
  { destruct Po as (cf & r & E & y & s1 & dead & Sp & B & C & D & F). exists cf, (r ++ tr), y, s1. rewrite E. split; [reflexivity|]. split; auto.
    split; [rewrite B, SF, app_nil_r; exact D|]. split; [rewrite C; apply REL_stack|].
    destruct F as [F|F]; [left; exact F|right]. rewrite <- E, app_length. lia. }
  assert (Lp : 0 < length p) by (destruct p; [congruence|cbn; lia]).
  set (oic := if b then match inits' with ic :: _ => Some ic | [] => None end else None).
  set (e := (length tr, c, oic) : lent).
  assert (Ebit : lbit e = b).
  { unfold lbit, lic, e, oic. cbn [snd]. destruct b; auto. destruct Hb as (ic & -> & _). reflexivity. }
  assert (Rp : rev (p ++ tr) = rev tr ++ cf0 :: rev pre) by (rewrite rev_app_distr, Epre, rev_app_distr; reflexivity).
  assert (Nnew : nth_error (rev (p ++ tr)) (length tr) = Some cf0).
  { rewrite Rp, nth_error_app2 by (rewrite rev_length; lia). rewrite rev_length, Nat.sub_diag. reflexivity. }
  assert (Nold : forall i, i < length tr -> nth_error (rev (p ++ tr)) i = nth_error (rev tr) i).
  { intros i Hi. rewrite Rp, nth_error_app1 by (rewrite rev_length; lia). reflexivity. }
  assert (Pin : forall i cf cf', length tr <= i -> nth_error (rev (p ++ tr)) i = Some cf -> nth_error (rev (p ++ tr)) (S i) = Some cf' -> SSTEP opp cf cf').
  { intros i cf cf' Hi E1 E2. rewrite Rp in E1, E2. rewrite nth_error_app2 in E1, E2 by (rewrite rev_length; lia). rewrite rev_length in E1, E2.
    replace (S i - length tr) with (S (i - length tr)) in E2 by lia.
    apply (gadj_rev_nth _ _ A (i - length tr)); rewrite Epre, rev_app_distr; cbn [rev app]; assumption. }
  right. destruct G as [(-> & Pr & -> & ->)|(L & (B1 & B2 & B3 & B4 & B5 & B6) & PS & G2 & (cf & r & y & s1 & E & Sp & Dd & R & F))].
  - exists [e]. rewrite app_nil_r in *. cbn [length] in *. split; [|split; [|split; auto]].
    + unfold LEDG. cbn [map lics flat_map app]. rewrite Ebit. split; [reflexivity|]. split.
      { unfold e, oic, lic. cbn [snd]. destruct b; [destruct Hb as (ic & -> & _); reflexivity|subst inits'; reflexivity]. }
      split. { intros e0 ic [<-|[]] Ei. unfold e, oic, lic, lcor in *. cbn [snd fst] in *. destruct b; [|discriminate]. destruct Hb as (ic' & -> & Ho). inversion Ei; subst. exact Ho. }
      split. { intros e0 [<-|[]]. exists cf0. unfold lpos, lcor, e. cbn [fst snd]. split; [exact Nnew|exact Ec0]. }
      split. { constructor; [constructor|constructor]. }
      intros _. left. reflexivity.
    + intros i cf cf' E1 E2. split.
      * intros [X|[]]. unfold lpos, e in X. cbn [fst] in X. lia.
      * intros _. apply (Pin i cf cf'); auto. cbn. lia.
    + exists pre, cf0. split; auto. rewrite Es0. cbn [with_stack stack]. rewrite Ec0. split; auto.
  - exists (e :: L). split; [|split; [|split; auto]].
    + unfold LEDG. cbn [map lics flat_map]. rewrite Ebit, <- B1. split; [reflexivity|]. split.
      { fold (lics L). rewrite <- B2. unfold e, oic, lic. cbn [snd]. destruct b; [destruct Hb as (ic & -> & _); reflexivity|subst inits'; reflexivity]. }
      split. { intros e0 ic [<-|Hin] Ei; [|eapply B3; eauto]. unfold e, oic, lic, lcor in *. cbn [snd fst] in *. destruct b; [|discriminate]. destruct Hb as (ic' & -> & Ho). inversion Ei; subst. exact Ho. }
      split. { intros e0 [<-|Hin].
        - exists cf0. unfold lpos, lcor, e. cbn [fst snd]. split; [exact Nnew|exact Ec0].
        - destruct (B4 e0 Hin) as (cfe & N1 & N2). exists cfe. split; auto. rewrite Nold; auto.
          assert (X : lpos e0 < length (rev tr)) by (apply nth_error_Some; congruence). rewrite rev_length in X. exact X. }
      split. { constructor; auto. apply Forall_forall. intros e0 Hin. destruct (B4 e0 Hin) as (cfe & N1 & _).
        assert (X : lpos e0 < length (rev tr)) by (apply nth_error_Some; congruence). rewrite rev_length in X. unfold lpos at 2, e. cbn [fst]. exact X. }
      intros _. right. apply B6. rewrite E. discriminate.
    + assert (Plt : forall a, In a (map lpos L) -> a < length tr).
      { intros a Ha. apply in_map_iff in Ha. destruct Ha as (e0 & <- & Hin). destruct (B4 e0 Hin) as (cfe & N1 & _).
        assert (X : lpos e0 < length (rev tr)) by (apply nth_error_Some; congruence). rewrite rev_length in X. exact X. }
      intros i cf1 cf1' E1 E2. cbn [map]. unfold lpos at 1 3, e. cbn [fst].
      destruct (Nat.lt_ge_cases (S i) (length tr)) as [Hl|Hl].
      * rewrite Nold in E1, E2 by lia. destruct (PS i cf1 cf1' E1 E2) as [P1 P2]. split.
        -- intros [X|X]; [lia|auto].
        -- intros X. apply P2. intro Y. apply X. right. exact Y.
      * destruct (Nat.eq_dec (S i) (length tr)) as [Eq|Ne].
        -- split; [|intros X; exfalso; apply X; left; auto]. intros _.
           rewrite Eq, Nnew in E2. inversion E2; subst cf1'. rewrite Nold in E1 by lia.
           assert (cf1 = cf).
           { rewrite E in E1. cbn [rev] in E1. rewrite nth_error_app2 in E1 by (rewrite rev_length; rewrite E in Eq; cbn in Eq; lia).
             rewrite rev_length in E1. rewrite E in Eq. cbn [length] in Eq. replace (i - length r) with 0 in E1 by lia. inversion E1. reflexivity. }
           subst cf1. exists y, s1. split; auto. split; [destruct F as [F|F]; [exact F|lia]|]. split; auto. rewrite Es0.
           split; [eapply REL_trans; [exact R|apply REL_stack]|]. cbn [with_stack stack]. rewrite Ec0. reflexivity.
        -- split.
           ++ intros [X|X]; [lia|]. apply Plt in X. lia.
           ++ intros _. apply (Pin i cf1 cf1'); auto. lia.
    + destruct G2 as (pre0 & cfz & E0 & P0 & S0). exists (p ++ pre0), cfz. rewrite E0, app_assoc. auto.
Qed.

Lemma ec_corner_tr_jgood done st c_id : c_id < 3 * nf -> ECinv c2v opp nf nv nh done (emap drop_tr st) ->
  jgood4 st -> jgood4 (ec_corner_tr c2v opp hid st c_id).
Proof.
  intros Hc (s0 & bits0 & inits0 & Eq & I & Fi & Cb & CL & DN & T3) Co s' bits' inits' tr' H Bd. unfold ec_corner_tr in H.
  destruct st as [[[[s bits] inits] tr]| | |]; cbn [ebind] in H; try discriminate. specialize (Co s bits inits tr eq_refl).
  cbn [emap drop_tr] in Eq. inversion Eq; subst s0 bits0 inits0. clear Eq.
  pose proof (i_base _ _ _ _ _ _ I) as B0.
  assert (Hf3 : c_id / 3 < nf) by (apply Nat.div_lt_upper_bound; lia).
  assert (NZ : NF c2v <> 0) by (rewrite (NF_eq c2v nf Hlen); lia).
  hstep H. match goal with X : eget (vf s) _ = EOk ?b |- _ => apply (eget_nth _ _ _ false) in X; rename X into Ef end.
  hstep H. { inversion H; subst; auto. }
  destruct (is_degenerated c2v (c_id / 3)) eqn:Ed. { inversion H; subst; auto. }
  destruct (FI _ Hf3 Ed) as (start & interior & E1 & Hs & HI & HB). rewrite E1 in H. cbn [ebind] in H.
  destruct interior.
  - destruct (HI eq_refl) as (HI1 & HIall). clear HB HI.
    repeat hstep H.
    match goal with X : eset (vf s) _ true = EOk ?l |- _ => apply eset_upd in X; destruct X as (Evf & Lvf); subst l end.
    match type of H with context [with_vf (with_vv s ?vvl) ?vfl] => set (sn := with_vf (with_vv s vvl) vfl) in * end.
    assert (Rn : REL s sn).
    { unfold REL, sn. cbn [with_vf with_vv syms pcc evs f2s last_id vf]. repeat (split; [reflexivity|]). split; [apply upd_length|].
      intros f Hf. rewrite nth_upd. destruct ((f =? c_id / 3) && (c_id / 3 <? length (vf s))); auto. }
    pose proof (e_opp_ok c2v opp nf Hlen OK (next_c start) (next_lt _ _ Hs)) as Eop.
    match goal with X : e_opp opp (next_c start) = EOk ?o |- _ => rewrite Eop in X; injection X as Ea; subst o end.
    destruct (opp_at opp (next_c start)) as [oc|] eqn:Eo.
    2: { exfalso. destruct (HIall (next_c start) (next_lt _ _ Hs) ltac:(rewrite next_face; auto)) as (X & _). congruence. }
    destruct (opp_facts c2v opp nf Hlen OK _ _ Eo) as (Eo' & _ & Lo & _ & _ & Nf & _).
    hstep H. match goal with X : eget (vf sn) _ = EOk ?b |- _ => apply (eget_nth _ _ _ false) in X; rename X into Eov end.
    unfold sn in Eov. cbn [with_vf vf] in Eov. rewrite next_face, HI1 in Nf.
    rewrite nth_upd_neq in Eov by auto.
    hstep H.
    { exfalso. apply (CL oc (next_c start)). split; auto. split; auto. split; auto. rewrite next_face, HI1. exact Ef. }
    hstep H. match goal with X : from_corner_tr _ _ _ _ _ _ = EOk ?q |- _ => destruct q as [s2 tr1]; rename X into Efc end.
    cbn [fst snd] in H. injection H as <- <- <- <-.
    apply (JGOOD_call tr sn oc s2 tr1 true bits inits (next_c start :: inits)); [|exact Efc|exact Bd| |exact NZ|].
    + eapply JGOOD_REL; [apply Co|exact Rn].
      destruct (from_corner_tr_app _ _ _ _ _ _ _ _ Efc) as (p & _ & Ep).
      rewrite Ep, app_length in Bd. lia.
    + unfold sn. cbn [with_vf vf]. rewrite nth_upd_neq by auto. exact Eov.
    + exists (next_c start). split; auto.
  - destruct (HB eq_refl) as (Dn & On & cc & yy & F1 & F2 & F3 & F4 & F5 & F6). clear HI HB.
    hstep H. hstep H.
    match goal with X : from_corner_tr _ _ _ ?sa _ _ = EOk ?q, X2 : encode_hole _ _ _ _ _ _ = EOk _ |- _ =>
      destruct q as [s2 tr1]; rename X into Efc; rename X2 into Eh; set (sa0 := sa) in * end.
    cbn [fst snd] in H. injection H as <- <- <- <-.
    apply encode_hole_all in Eh. destruct Eh as (Z1 & Z2 & Z3 & Z4 & Z5 & Z6 & Z7).
    assert (Rn : REL s sa0) by (unfold REL; rewrite Z1, Z2, Z4, Z5, Z6, Z7; auto 10).
    apply (JGOOD_call tr sa0 start s2 tr1 false bits inits inits); [|exact Efc|exact Bd| |exact NZ|reflexivity].
    + eapply JGOOD_REL; [apply Co|exact Rn].
      destruct (from_corner_tr_app _ _ _ _ _ _ _ _ Efc) as (p & _ & Ep).
      rewrite Ep, app_length in Bd. lia.
    + rewrite Z4. destruct (nth (start / 3) (vf s) false) eqn:Q; auto. exfalso.
      assert (V2 : nth (cc / 3) (vf s) false = true).
      { apply (FANC (vf s) yy cc); auto.
        - intros y0 Hy Hvis. apply (b_vis _ _ _ _ _ _ B0 y0 Hy Hvis).
        - unfold nondeg. rewrite F1. auto.
        - rewrite <- (prev_face yy), <- F6. exact Q. }
      rewrite F1 in V2. congruence.
Qed.

Lemma ec_fold_tr_jgood (Hhl : length hid = nv) (Hhr : forall v h, nth v hid None = Some h -> h < nh)
  (Hhb : forall j, j < 3 * nf -> is_degenerated c2v (j / 3) = false -> opp_at opp j = None ->
     nth (vtx c2v (next_c j)) hid None <> None /\ nth (vtx c2v (prev_c j)) hid None <> None)
  (EH : forall s c first, length (vv s) = nv -> length (vhole s) = nh -> c < 3 * nf ->
     nondeg c2v c -> nth (vtx c2v c) hid None <> None ->
     exists vv' vh', encode_hole c2v opp hid s c first = EOk (with_vhole (with_vv s vv') vh') /\
       vle (vv s) vv' /\ length vh' = nh /\
       (first = true -> nth (vtx c2v c) vv' false = true /\
          (opp_at opp (prev_c c) = None -> nth (vtx c2v (prev_c (prev_c c))) vv' false = true)))
  (ENDH : forall sf cl new vfl, RunP c2v opp nf hid sf None cl new vfl [] -> NoDup (map (fun c => c / 3) new) ->
     (forall x, x < 3 * nf -> nth (x / 3) vfl false = true -> nondeg c2v x) -> length vfl = nf -> CLOSED opp nf vfl) l :
  Forall (fun c => c < 3 * nf) l -> forall done st, ECinv c2v opp nf nv nh done (emap drop_tr st) -> jgood4 st ->
  jgood4 (fold_left (ec_corner_tr c2v opp hid) l st).
Proof.
  induction 1 as [|a l Ha Hl IH]; intros done st I J; cbn [fold_left]; auto.
  apply (IH (a :: done)).
  - rewrite ec_corner_tr_erase. apply (ec_corner_ok c2v opp nf nv nh hid Hlen OK Hv Hhl Hhr Hhb EH FI ENDH FANC); auto.
  - apply (ec_corner_tr_jgood done); auto.
Qed.
End LedgerFold.

(** the ledger of the whole trace of any encoding of a well-formed table *)
Theorem trace_ledger c2v opp nf nv niso ndeg o tr :
  length c2v = 3 * nf -> opp_ok c2v opp -> (forall c, c < 3 * nf -> vtx c2v c < nv) -> one_fan c2v opp ->
  eb_encode_tr c2v opp nv niso ndeg = EOk (o, tr) -> length tr <= NF c2v ->
  exists sF bits inits, o_bits o = rev bits /\ o_pcc o = pcc sF ++ rev inits /\ o_syms o = rev (syms sF) /\ o_events o = rev (evs sF) /\
    JGOOD c2v opp (rev tr) sF bits inits.
Proof.
  intros Hlen OK Hv FAN H Bd.
  assert (FAN' : forall c c', c < 3 * nf -> c' < 3 * nf -> is_degenerated c2v (c / 3) = false ->
     is_degenerated c2v (c' / 3) = false -> vtx c2v c = vtx c2v c' ->
     reach (swing_right opp) c c' \/ reach (swing_right opp) c' c).
  { intros. apply FAN; auto; lia. }
  destruct (find_holes_ok c2v opp nf nv Hlen OK Hv) as (hid & vh & EH & I & B).
  unfold eb_encode_tr in H. destruct (NF c2v =? ndeg); [discriminate|]. rewrite EH in H. cbn [ebind] in H.
  destruct (fold_left (ec_corner_tr c2v opp hid) (seq 0 (NC c2v)) (EOk (init_est (NF c2v) nv vh, [], [], []))) as [[[[s bits] inits] tr0]| | |] eqn:Ef;
    cbn [ebind] in H; try discriminate.
  inversion H; subst o tr. clear H. cbn [o_bits o_pcc o_syms o_events] in *. rewrite rev_length in Bd.
  exists s, bits, inits. rewrite rev_involutive. repeat (split; [reflexivity|]).
  assert (J : jgood4 c2v opp (EOk (s, bits, inits, tr0))).
  { rewrite <- Ef. rewrite (NC_eq c2v nf Hlen), (NF_eq c2v nf Hlen).
    apply (ec_fold_tr_jgood c2v opp nf nv (length vh) hid Hlen OK Hv) with (done := @nil nat).
    - intros f. apply (find_init_ok c2v opp nf nv Hlen OK Hv FAN' hid vh I).
    - intros vfl a b CL VN Ha Hb Da Db Ev Hvis. apply (fan_closed c2v opp nf hid Hlen OK FAN') with (a := a); auto.
      intros j Hj Dj Oj. apply B. split; auto.
    - apply I.
    - apply I.
    - intros j Hj Dj Oj. apply B. split; auto.
    - intros s0 c first. apply (encode_hole_ok c2v opp nf nv Hlen OK Hv FAN' hid vh I).
    - intros sf cl new vfl RP ND VN L. apply (run_end c2v opp nf hid Hlen OK FAN') with (sf := sf) (cl := cl) (new := new); auto.
      intros j Hj Dj Oj. apply B. split; auto.
    - apply Forall_forall. intros x Hx. apply in_seq in Hx. lia.
    - cbn [emap drop_tr]. exists (init_est nf nv vh), [], []. split; auto. split; [apply init_Inv; auto|]. split; auto. split; auto.
      split; [|split; [intros i []|simpl; lia]]. intros x y (_ & Vx & _). cbn [init_est vf] in Vx. rewrite nth_repeat_false in Vx. discriminate.
    - intros s0 b0 i0 t0 X _. inversion X; subst. left. split; auto. split; [repeat split; reflexivity|auto]. }
  apply (J s bits inits tr0 eq_refl Bd).
Qed.
