(** Proofs about Model/EbEncoder.v (the Edgebreaker connectivity encoder state machine).
    1. [eb_iso_b_sound]: the executable isomorphism checker is sound.
    2. Section Core: the traversal (EncodeConnectivityFromCorner and the start-face loop of EncodeConnectivity) on a
       consistent corner table: never out of range, never out of fuel, every face is processed at most once, only
       non-degenerated faces are processed, the counts agree ([encode_from_holes] / [out_ok]).
       Invariants: [Inv] (between two symbols), [Jnv] (between `++last_encoded_symbol_id_` and EncodeSymbol),
       [gate_ok] (both vertices of the gate edge of a pending corner are visited), potential [Phi] for the stack loop.
    3. Section Holes: FindHoles, EncodeHole, FindInitFaceConfiguration (boundary walks) on a table with one fan per vertex. *)
From Coq Require Import List Arith Bool PeanoNat ZArith Lia Sorted.
Import ListNotations.
From Draco Require Import Model.CornerTable Model.EbEncoder Proofs.CornerTable_proofs.
From Draco Require Model.Edgebreaker Model.EbTraversal Model.Ans.

Lemma nodup_b_sound l : nodup_b l = true -> NoDup l.
Proof.
  induction l as [|x r IH]; simpl; intros H. constructor.
  apply andb_prop in H. destruct H as [H1 H2]. constructor; auto.
  intro Hin. apply negb_true_iff in H1.
  assert (existsb (Nat.eqb x) r = true). { apply existsb_exists. exists x. split; auto. apply Nat.eqb_refl. }
  congruence.
Qed.

Theorem eb_iso_b_sound c2v opp pcc dv dopp :
  eb_iso_b c2v opp pcc dv dopp = true -> eb_iso c2v opp pcc dv dopp.
Proof.
  unfold eb_iso_b, eb_iso. intros H.
  apply andb_prop in H. destruct H as [H H5].
  apply andb_prop in H. destruct H as [H H4].
  apply andb_prop in H. destruct H as [H H3].
  apply andb_prop in H. destruct H as [H1 H2].
  rewrite forallb_forall in H1, H3, H4, H5.
  split; [|split; [|split; [|split]]].
  - intros k Hk. specialize (H1 (nth k pcc 0) (nth_In _ _ Hk)).
    apply andb_prop in H1. destruct H1 as [Ha Hb]. apply Nat.ltb_lt in Ha. apply negb_true_iff in Hb. auto.
  - apply nodup_b_sound; auto.
  - intros f Hf Hd. specialize (H3 f). rewrite in_seq in H3. specialize (H3 ltac:(lia)).
    rewrite Hd in H3. simpl in H3. apply existsb_exists in H3. destruct H3 as [x [Hx He]]. apply Nat.eqb_eq in He. subst. auto.
  - intros d Hd. specialize (H4 d). rewrite in_seq in H4. specialize (H4 ltac:(lia)).
    destruct (opp_at opp (cmap pcc d)) as [o|].
    + apply andb_prop in H4. destruct H4 as [H4 Hc]. apply andb_prop in H4. destruct H4 as [Ha Hb].
      apply Z.leb_le in Ha. apply Nat.ltb_lt in Hb. apply Nat.eqb_eq in Hc.
      exists (Z.to_nat (dopp (Z.of_nat d))). split; [auto|]. split; [|auto]. rewrite Z2Nat.id; auto.
    + apply Z.eqb_eq in H4. auto.
  - intros d d' Hd Hd'.
    set (g := fun d => (dv (Z.of_nat d), vtx c2v (cmap pcc d))) in *.
    assert (Ip : In (g d) (map g (seq 0 (3 * length pcc)))). { apply in_map. apply in_seq. lia. }
    assert (Iq : In (g d') (map g (seq 0 (3 * length pcc)))). { apply in_map. apply in_seq. lia. }
    specialize (H5 _ Ip). rewrite forallb_forall in H5. specialize (H5 _ Iq).
    apply eqb_prop in H5. unfold g in H5. simpl in H5.
    split; intro E.
    + apply Nat.eqb_eq. rewrite <- H5. apply Z.eqb_eq. auto.
    + apply Z.eqb_eq. rewrite H5. apply Nat.eqb_eq. auto.
Qed.

(** * vector access *)
Lemma eget_lt {A} (l : list A) i d : i < length l -> eget l i = EOk (nth i l d).
Proof. intros H. unfold eget. rewrite (nth_error_nth' l d H). auto. Qed.
Lemma eset_lt {A} (l : list A) i x : i < length l -> eset l i x = EOk (upd l i x).
Proof. intros H. unfold eset. apply Nat.ltb_lt in H. rewrite H. auto. Qed.

Definition ucnt (l : list bool) : nat := length l - cnt l.   (* number of false entries *)
Lemma ucnt_upd l i : i < length l -> nth i l false = false -> S (ucnt (upd l i true)) = ucnt l.
Proof.
  intros H E. unfold ucnt. rewrite upd_length, cnt_upd, E by auto.
  assert (cnt l < length l).
  { clear - H E. revert i H E. induction l as [|b l]; intros i H E; simpl in *; [lia|].
    unfold cnt in *. destruct i; simpl in *.
    - subst b. simpl. pose proof (cnt_le l). unfold cnt in *. lia.
    - specialize (IHl i ltac:(lia) E). destruct b; simpl; lia. }
  lia.
Qed.

Definition vle (l l' : list bool) : Prop :=
  length l = length l' /\ forall i, nth i l false = true -> nth i l' false = true.
Lemma vle_refl l : vle l l. Proof. split; auto. Qed.
Lemma vle_trans a b c : vle a b -> vle b c -> vle a c.
Proof. intros [L1 H1] [L2 H2]. split; [congruence|auto]. Qed.
Lemma vle_upd l i : vle l (upd l i true).
Proof. split; [rewrite upd_length; auto|]. intros j H. rewrite nth_upd. destruct ((j =? i) && (i <? length l)); auto. Qed.

Lemma face_corners c x : x / 3 = c / 3 -> x = c \/ x = next_c c \/ x = prev_c c.
Proof.
  intros H. destruct (corner_cases c) as [E|[E|E]], (corner_cases x) as [F|[F|F]]; rewrite H in F;
  rewrite E; rewrite ?next_0, ?next_1, ?next_2, ?prev_0, ?prev_1, ?prev_2; lia.
Qed.

Ltac est_simpl := cbn [vf vv vhole last_id nsplit evs f2s pcc syms stack with_vf with_vv with_vhole with_last_id with_nsplit with_evs with_f2s with_pcc with_syms with_stack].

Lemma prev_prev c : prev_c (prev_c c) = next_c c.
Proof. rewrite <- (next_next (prev_c c)), !next_prev. auto. Qed.

Lemma count_occ_rev {A} (dec : forall x y : A, {x = y} + {x <> y}) l a : count_occ dec (rev l) a = count_occ dec l a.
Proof.
  induction l; simpl; auto. rewrite count_occ_app, IHl. simpl. destruct (dec a0 a); lia.
Qed.

Lemma sorted_rev (l : list (Z * Z * Z)) :
  StronglySorted (fun e e' => (fst (fst e') <= fst (fst e))%Z) l ->
  StronglySorted (fun e e' => (fst (fst e) <= fst (fst e'))%Z) (rev l).
Proof.
  induction 1; simpl. constructor.
  assert (G : forall (l1 : list (Z * Z * Z)) (x : Z * Z * Z), StronglySorted (fun e e' => (fst (fst e) <= fst (fst e'))%Z) l1 ->
            Forall (fun y => (fst (fst y) <= fst (fst x))%Z) l1 ->
            StronglySorted (fun e e' => (fst (fst e) <= fst (fst e'))%Z) (l1 ++ [x])).
  { induction 1; intros F; simpl. constructor; constructor. inversion F; subst. constructor; auto.
    apply Forall_app. split; auto. }
  apply G; auto. apply Forall_rev. auto.
Qed.

Section Table.
Variables (c2v : list nat) (opp : list (option nat)) (nf : nat).
Hypothesis Hlen : length c2v = 3 * nf.
Hypothesis OK : opp_ok c2v opp.

Lemma NC_eq : NC c2v = 3 * nf. Proof. unfold NC. auto. Qed.
Lemma NF_eq : NF c2v = nf. Proof. unfold NF. rewrite NC_eq. rewrite Nat.mul_comm. apply Nat.div_mul. lia. Qed.
Lemma opp_len : length opp = 3 * nf. Proof. destruct OK as [L _]. lia. Qed.

Lemma e_vertex_ok c : c < 3 * nf -> e_vertex c2v c = EOk (vtx c2v c).
Proof. intros. unfold e_vertex, vtx. apply eget_lt. lia. Qed.
Lemma e_opp_ok c : c < 3 * nf -> e_opp opp c = EOk (opp_at opp c).
Proof. intros. unfold e_opp, opp_at. apply eget_lt. rewrite opp_len. lia. Qed.

Lemma opp_facts a b : opp_at opp a = Some b ->
  opp_at opp b = Some a /\ a < 3 * nf /\ b < 3 * nf /\ is_degenerated c2v (a / 3) = false /\ is_degenerated c2v (b / 3) = false /\ a / 3 <> b / 3 /\
  vtx c2v (next_c a) = vtx c2v (prev_c b) /\ vtx c2v (prev_c a) = vtx c2v (next_c b).
Proof.
  intros E. destruct OK as [L K]. destruct (K _ _ E) as (Eb & Nab & V1 & V2 & V3 & Da).
  destruct (K _ _ Eb) as (_ & _ & _ & _ & _ & Db).
  pose proof (opp_at_lt _ _ _ E). pose proof (opp_at_lt _ _ _ Eb).
  repeat split; auto; try lia.
  intros F. symmetry in F. destruct (face_corners _ _ F) as [X|[X|X]]; subst b.
  - congruence.
  - rewrite prev_next in V1. destruct (nondeg_corner _ _ Da) as (P & _ & _). congruence.
  - rewrite next_prev in V2. destruct (nondeg_corner _ _ Da) as (_ & P & _). congruence.
Qed.

End Table.

Section Core.
Variables (c2v : list nat) (opp : list (option nat)) (nf nv nh : nat) (hid : list (option nat)).
Hypothesis Hlen : length c2v = 3 * nf.
Hypothesis OK : opp_ok c2v opp.
Hypothesis Hv : forall c, c < 3 * nf -> vtx c2v c < nv.
Hypothesis Hhl : length hid = nv.
Hypothesis Hhr : forall v h, nth v hid None = Some h -> h < nh.
Hypothesis Hhb : forall j, j < 3 * nf -> is_degenerated c2v (j / 3) = false -> opp_at opp j = None ->
  nth (vtx c2v (next_c j)) hid None <> None /\ nth (vtx c2v (prev_c j)) hid None <> None.

Let n := 3 * nf.
Let V := vtx c2v.
Let O := opp_at opp.
Definition nondeg (c : nat) : Prop := is_degenerated c2v (c / 3) = false.

Let NC_eq := NC_eq c2v nf Hlen.
Let NF_eq := NF_eq c2v nf Hlen.
Let opp_len := opp_len c2v opp nf Hlen OK.
Let e_vertex_ok := e_vertex_ok c2v nf Hlen.
Let e_opp_ok := e_opp_ok c2v opp nf Hlen OK.
Let opp_facts := opp_facts c2v opp nf Hlen OK.

Definition Phi (s : est) : nat := 2 * ucnt (vf s) + length (stack s).

Record Base (ifs : list nat) (s : est) : Prop := {
  b_vf : length (vf s) = nf;
  b_vv : length (vv s) = nv;
  b_vh : length (vhole s) = nh;
  b_vis : forall x, x < 3 * nf -> nth (x / 3) (vf s) false = true -> nondeg x /\ nth (vtx c2v x) (vv s) false = true;
  b_pcc : Forall (fun c => c < 3 * nf) (pcc s);
  b_nd : NoDup (map (fun c => c / 3) (pcc s) ++ ifs);
  b_in : forall f, In f (map (fun c => c / 3) (pcc s) ++ ifs) <-> (f < nf /\ nth f (vf s) false = true);
  b_split : nsplit s = count_occ Z.eq_dec (syms s) TOPOLOGY_S;
  b_sym : Forall (fun x => In x [0; 1; 3; 5; 7]%Z) (syms s);
  b_evs : Forall (fun e => match e with (src, spl, ed) => (0 <= spl < src)%Z /\ (src <= last_id s)%Z /\ (ed = 0 \/ ed = 1)%Z end) (evs s);
  b_evsort : StronglySorted (fun e e' => (fst (fst e') <= fst (fst e))%Z) (evs s)
}.

Record Inv (ifs : list nat) (s : est) : Prop := {
  i_base : Base ifs s;
  i_last : last_id s = (Z.of_nat (length (syms s)) - 1)%Z;
  i_len : length (syms s) = length (pcc s);
  i_f2s : Forall (fun p => (0 <= snd p <= last_id s)%Z) (f2s s)
}.

(* between `++last_encoded_symbol_id_` and EncodeSymbol *)
Record Jnv (ifs : list nat) (s : est) : Prop := {
  j_base : Base ifs s;
  j_last : last_id s = Z.of_nat (length (syms s));
  j_len : S (length (syms s)) = length (pcc s);
  j_f2s : Forall (fun p => (0 <= snd p < last_id s)%Z) (f2s s)
}.

Definition gate_ok (vvl : list bool) (c : nat) : Prop :=
  c < 3 * nf /\ nondeg c /\ nth (vtx c2v (next_c c)) vvl false = true /\ nth (vtx c2v (prev_c c)) vvl false = true.
Definition ogate_ok (vvl : list bool) (o : option nat) : Prop := match o with Some c => gate_ok vvl c | None => True end.
Definition stack_ok (s : est) : Prop := Forall (ogate_ok (vv s)) (stack s).

Lemma gate_mono l l' c : vle l l' -> gate_ok l c -> gate_ok l' c.
Proof. intros [_ M] (A & B & C & D). repeat split; auto. Qed.
Lemma ogate_mono l l' o : vle l l' -> ogate_ok l o -> ogate_ok l' o.
Proof. destruct o; simpl; auto. apply gate_mono. Qed.

(* the frame: fields a vv/vhole update does not touch *)
Lemma Base_vv ifs s vv' vh' : Base ifs s -> vle (vv s) vv' -> length vh' = nh ->
  Base ifs (with_vhole (with_vv s vv') vh').
Proof.
  intros B [L M] Lh. destruct B. constructor; simpl; auto.
  - lia.
  - intros x Hx Hf. destruct (b_vis0 x Hx Hf) as [P Q]. split; auto.
Qed.

Lemma check_split_J ifs s e o : (e = 0 \/ e = 1)%Z -> Jnv ifs s -> Jnv ifs (check_split s e o).
Proof.
  intros He J. unfold check_split. destruct o as [oc|]; auto.
  destruct (split_symbol_on_face (f2s s) (oc / 3)) as [id|] eqn:E; auto.
  assert (Hid : (0 <= id < last_id s)%Z).
  { destruct J as [_ _ _ F]. clear -E F. generalize dependent (oc / 3). intros q E.
    induction (f2s s) as [|[f' i'] r IH]; cbn [split_symbol_on_face] in *; [discriminate|].
    inversion F; subst. cbn [snd] in *. destruct (f' =? q). inversion E; subst; auto. auto. }
  destruct J as [B JL JN JF]. destruct B.
  constructor; simpl; auto. constructor; simpl; auto.
  - constructor; auto. repeat split; try lia.
  - constructor; auto. rewrite Forall_forall. intros [[src spl] ed] I. simpl.
    rewrite Forall_forall in b_evs0. specialize (b_evs0 _ I). simpl in b_evs0. lia.
Qed.
Lemma check_split_frame s e o : vf (check_split s e o) = vf s /\ vv (check_split s e o) = vv s /\
  stack (check_split s e o) = stack s /\ vhole (check_split s e o) = vhole s.
Proof. unfold check_split. destruct o; auto. destruct (split_symbol_on_face _ _); auto. Qed.

Lemma emit_Inv ifs s sym : Jnv ifs s -> In sym [0; 1; 3; 5; 7]%Z -> sym <> TOPOLOGY_S -> Inv ifs (emit s sym).
Proof.
  intros [B JL JN JF] Hs Hn. destruct B. constructor; cbn -[Z.of_nat]; auto.
  - constructor; simpl; auto. destruct (Z.eq_dec sym TOPOLOGY_S); [contradiction|auto].
  - rewrite Nat2Z.inj_succ. lia.
  - eapply Forall_impl; [|exact JF]. simpl. intros; lia.
Qed.

Definition mark_state (s : est) (c : nat) : est :=
  let s1 := with_pcc (with_vf (with_last_id s (last_id s + 1)%Z) (upd (vf s) (c / 3) true)) (c :: pcc s) in
  if nth (vtx c2v c) (vv s) false then s1 else with_vv s1 (upd (vv s) (vtx c2v c) true).

Lemma mark_frame s c : vf (mark_state s c) = upd (vf s) (c / 3) true /\ stack (mark_state s c) = stack s /\
  vhole (mark_state s c) = vhole s /\ vle (vv s) (vv (mark_state s c)) /\
  (vtx c2v c < length (vv s) -> nth (vtx c2v c) (vv (mark_state s c)) false = true).
Proof.
  unfold mark_state. destruct (nth (vtx c2v c) (vv s) false) eqn:E; simpl; repeat split; auto.
  - rewrite upd_length; auto.
  - intros i H. rewrite nth_upd. destruct ((i =? vtx c2v c) && _); auto.
  - intros. apply nth_upd_eq; auto.
Qed.

Lemma mark_J ifs s c : Inv ifs s -> gate_ok (vv s) c -> nth (c / 3) (vf s) false = false -> Jnv ifs (mark_state s c).
Proof.
  intros [B IL IN IF] (Hc & Hd & G1 & G2) Hf. destruct B.
  assert (Hf3 : c / 3 < nf) by (apply Nat.div_lt_upper_bound; lia).
  assert (Hvc : vtx c2v c < nv) by (apply Hv; auto).
  destruct (mark_frame s c) as (F1 & F2 & F3 & F4 & F5). specialize (F5 ltac:(lia)).
  assert (Epcc : pcc (mark_state s c) = c :: pcc s) by (unfold mark_state; cbv zeta; destruct (nth (vtx c2v c) (vv s) false); reflexivity).
  assert (Esy : syms (mark_state s c) = syms s) by (unfold mark_state; cbv zeta; destruct (nth (vtx c2v c) (vv s) false); reflexivity).
  assert (Eli : last_id (mark_state s c) = (last_id s + 1)%Z) by (unfold mark_state; cbv zeta; destruct (nth (vtx c2v c) (vv s) false); reflexivity).
  assert (Eev : evs (mark_state s c) = evs s) by (unfold mark_state; cbv zeta; destruct (nth (vtx c2v c) (vv s) false); reflexivity).
  assert (Ef2 : f2s (mark_state s c) = f2s s) by (unfold mark_state; cbv zeta; destruct (nth (vtx c2v c) (vv s) false); reflexivity).
  assert (Ens : nsplit (mark_state s c) = nsplit s) by (unfold mark_state; cbv zeta; destruct (nth (vtx c2v c) (vv s) false); reflexivity).
  constructor; [constructor|..]; rewrite ?F1, ?F3, ?Epcc, ?Esy, ?Eli, ?Eev, ?Ef2, ?Ens; auto.

  - rewrite upd_length; auto.
  - destruct F4; lia.
  - intros x Hx Hvis. rewrite nth_upd in Hvis. destruct (x / 3 =? c / 3) eqn:E.
    + apply Nat.eqb_eq in E. split; [unfold nondeg; rewrite E; auto|].
      destruct F4 as [_ M]. destruct (face_corners _ _ E) as [X|[X|X]]; subst x; auto.
    + simpl in Hvis. destruct (b_vis0 x Hx Hvis) as [P Q]. split; auto. destruct F4 as [_ M]. auto.
  - cbn [map app]. constructor; auto. intro I. apply b_in0 in I. destruct I. congruence.
  - intros f. cbn [map app In]. rewrite b_in0, nth_upd. split.
    + intros [E|[H1 H2]].
      * subst f. rewrite Nat.eqb_refl. split; auto. assert (c / 3 <? length (vf s) = true) by (apply Nat.ltb_lt; lia). rewrite H. auto.
      * split; auto. destruct ((f =? c / 3) && _); auto.
    + intros [H1 H2]. destruct (f =? c / 3) eqn:E; [left; apply Nat.eqb_eq in E; auto|right; split; auto].
  - eapply Forall_impl; [|exact b_evs0]. intros [[a b] d]. lia.
  - rewrite IL. lia.
  - cbn [length]. lia.
  - eapply Forall_impl; [|exact IF]. simpl. intros; lia.
Qed.

Definition is_some {A} (o : option A) : bool := match o with Some _ => true | None => false end.

Lemma inner_eq k' s c : c < 3 * nf -> length (vf s) = nf -> length (vv s) = nv ->
  inner c2v opp hid (S k') s (Some c) =
    let s2 := mark_state s c in
    let h := nth (vtx c2v c) hid None in
    let vis := nth (vtx c2v c) (vv s) false in
    let rc := opp_at opp (next_c c) in
    let lc := opp_at opp (prev_c c) in
    if negb vis && negb (is_some h) then inner c2v opp hid k' (emit s2 TOPOLOGY_C) rc
    else
      rfv <-- face_visited_opt (vf s2) rc ;;
      if rfv then
        let s3 := check_split s2 RIGHT_FACE_EDGE rc in
        lfv <-- face_visited_opt (vf s3) lc ;;
        if lfv then
          let s4 := emit (check_split s3 LEFT_FACE_EDGE lc) TOPOLOGY_E in
          match stack s4 with [] => EOob | _ :: r => EOk (with_stack s4 r) end
        else inner c2v opp hid k' (emit s3 TOPOLOGY_R) lc
      else
        lfv <-- face_visited_opt (vf s2) lc ;;
        if lfv then inner c2v opp hid k' (emit (check_split s2 LEFT_FACE_EDGE lc) TOPOLOGY_L) rc
        else
          let s3 := with_nsplit (emit s2 TOPOLOGY_S) (S (nsplit (emit s2 TOPOLOGY_S))) in
          s4 <-- (match h with
                  | Some hole => b <-- eget (vhole s3) hole ;; if b then EOk s3 else encode_hole c2v opp hid s3 c false
                  | None => EOk s3
                  end) ;;
          let s5 := with_f2s s4 ((c / 3, last_id s4) :: f2s s4) in
          match stack s5 with [] => EOob | _ :: r => EOk (with_stack s5 (rc :: lc :: r)) end.
Proof.
  intros Hc Lf Lv.
  assert (Hf3 : c / 3 < nf) by (apply Nat.div_lt_upper_bound; lia).
  assert (Hvc : vtx c2v c < nv) by (apply Hv; auto).
  cbn [inner]. cbn [with_last_id vf].
  rewrite (eset_lt (vf s) (c / 3) true) by lia. cbn [ebind].
  rewrite (e_vertex_ok c Hc). cbn [ebind].
  rewrite (eget_lt hid (vtx c2v c) None) by lia. cbn [ebind].
  est_simpl.
  rewrite (eget_lt (vv s) (vtx c2v c) false) by lia. cbn [ebind].
  unfold right_corner, left_corner.
  rewrite (e_opp_ok (next_c c)) by (apply next_lt; auto).
  rewrite (e_opp_ok (prev_c c)) by (apply prev_lt; auto).
  unfold mark_state. cbv zeta.
  destruct (nth (vtx c2v c) (vv s) false) eqn:Evis; cbn [ebind negb andb].
  - destruct (nth (vtx c2v c) hid None); reflexivity.
  - rewrite (eset_lt (vv s) (vtx c2v c) true) by lia. cbn [ebind].
    destruct (nth (vtx c2v c) hid None); reflexivity.
Qed.


Lemma fvo_some vfl oc : length vfl = nf -> oc < 3 * nf -> face_visited_opt vfl (Some oc) = EOk (nth (oc / 3) vfl false).
Proof. intros L H. unfold face_visited_opt. apply eget_lt. rewrite L. apply Nat.div_lt_upper_bound; lia. Qed.

Lemma right_gate vvl c r0 : c < 3 * nf -> opp_at opp (next_c c) = Some r0 ->
  nth (vtx c2v c) vvl false = true -> nth (vtx c2v (prev_c c)) vvl false = true ->
  gate_ok vvl r0 /\ r0 / 3 <> c / 3 /\ vtx c2v (next_c r0) = vtx c2v c.
Proof.
  intros Hc E A B. destruct (opp_facts _ _ E) as (_ & _ & Hr & _ & Dr & Nf & V1 & V2).
  rewrite next_next in V1. rewrite prev_next in V2. rewrite next_face in Nf.
  repeat split; auto; congruence.
Qed.
Lemma left_gate vvl c l0 : c < 3 * nf -> opp_at opp (prev_c c) = Some l0 ->
  nth (vtx c2v c) vvl false = true -> nth (vtx c2v (next_c c)) vvl false = true ->
  gate_ok vvl l0 /\ l0 / 3 <> c / 3.
Proof.
  intros Hc E A B. destruct (opp_facts _ _ E) as (_ & _ & Hr & _ & Dr & Nf & V1 & V2).
  rewrite next_prev in V1. rewrite prev_prev in V2. rewrite prev_face in Nf.
  repeat split; auto; congruence.
Qed.

Hypothesis EH : forall s c first, length (vv s) = nv -> length (vhole s) = nh -> c < 3 * nf ->
  nondeg c -> nth (vtx c2v c) hid None <> None ->
  exists vv' vh', encode_hole c2v opp hid s c first = EOk (with_vhole (with_vv s vv') vh') /\
     vle (vv s) vv' /\ length vh' = nh /\
     (first = true -> nth (vtx c2v c) vv' false = true /\
        (opp_at opp (prev_c c) = None -> nth (vtx c2v (prev_c (prev_c c))) vv' false = true)).

Lemma Jnv_vv ifs s vv' vh' : Jnv ifs s -> vle (vv s) vv' -> length vh' = nh -> Jnv ifs (with_vhole (with_vv s vv') vh').
Proof. intros [B A1 A2 A3] L H. constructor; auto. apply Base_vv; auto. Qed.

Lemma emit_S_Inv ifs s : Jnv ifs s -> Inv ifs (with_nsplit (emit s TOPOLOGY_S) (S (nsplit s))).
Proof.
  intros [B JL JN JF]. destruct B. constructor; cbn -[Z.of_nat]; auto.
  - constructor; simpl; auto.
  - rewrite Nat2Z.inj_succ. lia.
  - eapply Forall_impl; [|exact JF]. simpl. intros; lia.
Qed.
Lemma Inv_vv ifs s vv' vh' : Inv ifs s -> vle (vv s) vv' -> length vh' = nh -> Inv ifs (with_vhole (with_vv s vv') vh').
Proof. intros [B A1 A2 A3] L H. constructor; auto. apply Base_vv; auto. Qed.
Lemma Inv_f2s ifs s f : Inv ifs s -> syms s <> [] -> Inv ifs (with_f2s s ((f, last_id s) :: f2s s)).
Proof.
  intros [B A1 A2 A3] N. constructor; auto.
  - destruct B. constructor; auto.
  - cbn [f2s with_f2s last_id]. constructor; auto. cbn [snd]. rewrite A1. destruct (syms s); [congruence|]. cbn [length]. lia.
Qed.

(** ---- closure of the traversal: the ghost invariant.
    [openc vfl x y]: x is a corner of a visited face whose opposite face (corner y) is not visited.
    During a run (one EncodeConnectivityFromCorner, plus the interior start face if any) every open edge is
      - scheduled: its outer corner is the current corner or lies on the corner stack, or
      - deferred: it is the LEFT edge of a face processed with symbol C in this run ([cl]), or the left / gate edge of the
        interior start face ([sf]).
    [new] = the corners processed in this run, newest first.  FR: the tip vertex of a C face was fresh: every visited face
    containing it was processed at or after that face. *)
Definition gatev (vfl : list bool) (y : nat) : Prop := forall x0, opp_at opp y = Some x0 -> nth (x0 / 3) vfl false = true.
Definition openc (vfl : list bool) (x y : nat) : Prop :=
  x < 3 * nf /\ nth (x / 3) vfl false = true /\ opp_at opp x = Some y /\ nth (y / 3) vfl false = false.
Definition deferred (sf : option nat) (cl : list nat) (x : nat) : Prop :=
  (exists c', In c' cl /\ x = prev_c c') \/ (exists ci, sf = Some ci /\ (x = ci \/ x = prev_c ci)).

Record RunG (D : nat -> nat -> Prop) (sf : option nat) (cl new : list nat) (vfl : list bool) (stk : list (option nat)) : Prop := {
  r_cl : incl cl new;
  r_fr : forall l1 c' l2, new = l1 ++ c' :: l2 -> In c' cl -> forall x, x < 3 * nf -> vtx c2v x = vtx c2v c' ->
           nth (x / 3) vfl false = true -> In (x / 3) (map (fun c => c / 3) (l1 ++ [c']));
  r_sfn : forall ci, sf = Some ci -> ~ In (ci / 3) (map (fun c => c / 3) new);
  r_def : forall x y, openc vfl x y -> D x y \/ In (Some y) stk \/ deferred sf cl x;
  r_cf : forall c', In c' cl -> c' < 3 * nf /\ nondeg c' /\ nth (vtx c2v c') hid None = None;
  r_gv : Forall (fun o => match o with Some y => gatev vfl y | None => True end) stk;
  r_sf : forall ci, sf = Some ci -> ci < 3 * nf /\ nondeg ci /\ nth (ci / 3) vfl false = true /\
           nth (vtx c2v ci) hid None = None /\ nth (vtx c2v (prev_c ci)) hid None = None
}.
Definition Dcur (cur : option nat) : nat -> nat -> Prop := fun _ y => cur = Some y.
Definition Dmark (c : nat) : nat -> nat -> Prop := fun x _ => x = next_c c \/ x = prev_c c.
Definition RunP (sf cur : option nat) := RunG (Dcur cur) sf.

Lemma gatev_mono l l' y : vle l l' -> gatev l y -> gatev l' y.
Proof. intros [_ M] G x0 E. auto. Qed.

Lemma deferred_mono sf cl cl' x : incl cl cl' -> deferred sf cl x -> deferred sf cl' x.
Proof. intros I [(c' & A & B)|H]; [left; exists c'; auto|right; auto]. Qed.

Lemma nth_upd_true (l : list bool) i j : nth j (upd l i true) false = true <-> (j = i /\ i < length l) \/ nth j l false = true.
Proof.
  rewrite nth_upd. destruct (j =? i) eqn:E; [apply Nat.eqb_eq in E|apply Nat.eqb_neq in E]; destruct (i <? length l) eqn:F;
  [apply Nat.ltb_lt in F|apply Nat.ltb_ge in F|apply Nat.ltb_lt in F|apply Nat.ltb_ge in F]; simpl; split; auto; intros [[A B]|H]; auto; try lia.
Qed.

(* the face of the current corner c has just been visited *)
Lemma run_mark sf cl new vfl stk c :
  RunG (Dcur (Some c)) sf cl new vfl stk -> length vfl = nf -> c < 3 * nf -> nth (c / 3) vfl false = false -> gatev vfl c ->
  ~ In (c / 3) (map (fun c => c / 3) new) ->
  RunG (Dmark c) sf cl (c :: new) (upd vfl (c / 3) true) stk.
Proof.
  intros [R1 R2 R3 R4 R5 R6 R7] L Hc Hf Gv Nin.
  assert (Hf3 : c / 3 < nf) by (apply Nat.div_lt_upper_bound; lia).
  assert (M : vle vfl (upd vfl (c / 3) true)) by apply vle_upd.
  constructor.
  - intros a Ha. right. auto.
  - intros l1 c' l2 E Hin x Hx Vx Hvis.
    destruct l1 as [|a l1].
    + simpl in E. inversion E; subst. exfalso. apply Nin. apply (in_map (fun c => c / 3)). auto.
    + simpl in E. inversion E; subst a. apply nth_upd_true in Hvis. destruct Hvis as [[A _]|Hv0].
      * cbn [app map In]. left. auto.
      * cbn [app map In]. right. eapply R2; eauto.
  - intros ci E. cbn [map In]. intros [X|X]; [|eapply R3; eauto].
    destruct (R7 ci E) as (_ & _ & Vi & _). rewrite <- X in Vi. congruence.
  - intros x y (Hx & Vx & Ox & Vy). apply nth_upd_true in Vx.
    assert (Vy0 : nth (y / 3) vfl false = false).
    { destruct (nth (y / 3) vfl false) eqn:Q; auto. destruct M as [_ M]. rewrite (M _ Q) in Vy. discriminate. }
    destruct Vx as [[A _]|Vx0].
    + destruct (face_corners _ _ A) as [X|[X|X]]; subst x.
      * exfalso. specialize (Gv y Ox). congruence.
      * left. left. auto.
      * left. right. auto.
    + destruct (R4 x y) as [X|[X|X]]; [repeat split; auto| | |].
      * unfold Dcur in X. inversion X; subst y. rewrite nth_upd_eq in Vy by lia. discriminate.
      * right. left. auto.
      * right. right. auto.
  - auto.
  - eapply Forall_impl; [|exact R6]. intros [y|]; auto. apply gatev_mono; auto.
  - intros ci E. destruct (R7 ci E) as (A & B & C & D). repeat split; auto; try apply D. apply M; auto.

Qed.

Lemma run_weaken (D D' : nat -> nat -> Prop) sf cl new vfl stk :
  (forall x y, openc vfl x y -> D x y -> D' x y) -> RunG D sf cl new vfl stk -> RunG D' sf cl new vfl stk.
Proof.
  intros H [R1 R2 R3 R4 R5 R6 R7]. constructor; auto.
  intros x y Op. destruct (R4 x y Op) as [X|X]; auto.
Qed.

(* symbol C: continue to the right, the left edge is deferred *)
Lemma run_C sf cl new vfl stk c r0 :
  RunG (Dmark c) sf cl (c :: new) vfl stk -> ~ In (c / 3) (map (fun c => c / 3) new) ->
  (forall x, x < 3 * nf -> vtx c2v x = vtx c2v c -> nth (x / 3) vfl false = true -> x / 3 = c / 3) ->
  c < 3 * nf -> nondeg c -> nth (vtx c2v c) hid None = None -> opp_at opp (next_c c) = Some r0 ->
  RunG (Dcur (Some r0)) sf (c :: cl) (c :: new) vfl stk.
Proof.
  intros [R1 R2 R3 R4 R5 R6 R7] Nin Fresh Hc Hd Hh Er.
  constructor; auto.
  - intros a [X|X]; [left; auto|auto].
  - intros l1 c' l2 E [X|Hin] x Hx Vx Hvis.
    + subst c'. destruct l1 as [|a l1].
      * simpl. left. symmetry. apply Fresh; auto.
      * simpl in E. inversion E; subst a. exfalso. apply Nin. rewrite H1. rewrite map_app. apply in_or_app. right. simpl. auto.
    + eapply R2; eauto.
  - intros x y Op. destruct (R4 x y Op) as [[X|X]|[X|X]].
    + left. destruct Op as (_ & _ & Ox & _). subst x. unfold Dcur. congruence.
    + right. right. left. exists c. split; [left; auto|auto].
    + right. left. auto.
    + right. right. eapply deferred_mono; [|exact X]. intros a; right; auto.
  - intros c' [X|X]; [subst c'; auto|auto].
Qed.

(* symbols R / L: one side is closed already, continue on the other *)
Lemma run_RL sf cl new vfl stk c (xo xc : nat) y0 :
  RunG (Dmark c) sf cl new vfl stk -> ((xo = next_c c /\ xc = prev_c c) \/ (xo = prev_c c /\ xc = next_c c)) ->
  (forall y, opp_at opp xc = Some y -> nth (y / 3) vfl false = true) -> opp_at opp xo = Some y0 ->
  RunG (Dcur (Some y0)) sf cl new vfl stk.
Proof.
  intros R Hx Hcl Eo. eapply run_weaken; [|exact R].
  intros x y (_ & _ & Ox & Vy) [X|X]; unfold Dcur; destruct Hx as [[A B]|[A B]]; subst; try congruence;
  exfalso; specialize (Hcl y Ox); congruence.
Qed.

Lemma run_pop (D : nat -> nat -> Prop) sf cl new vfl top r :
  RunG D sf cl new vfl (top :: r) -> (forall t, top = Some t -> nth (t / 3) vfl false = true) -> RunG D sf cl new vfl r.
Proof.
  intros [R1 R2 R3 R4 R5 R6 R7] Ht. constructor; auto.
  - intros x y Op. destruct (R4 x y Op) as [X|[[X|X]|X]]; auto.
    exfalso. destruct Op as (_ & _ & _ & Vy). specialize (Ht y X). congruence.
  - inversion R6; auto.
Qed.

(* symbol E: both sides closed *)
Lemma run_E sf cl new vfl stk c :
  RunG (Dmark c) sf cl new vfl stk ->
  (forall y, opp_at opp (next_c c) = Some y -> nth (y / 3) vfl false = true) ->
  (forall y, opp_at opp (prev_c c) = Some y -> nth (y / 3) vfl false = true) ->
  RunG (Dcur None) sf cl new vfl stk.
Proof.
  intros R H1 H2. eapply run_weaken; [|exact R].
  intros x y (_ & _ & Ox & Vy) [X|X]; subst x; exfalso; [specialize (H1 y Ox)|specialize (H2 y Ox)]; congruence.
Qed.

(* symbol S: both sides go onto the stack *)
Lemma run_S sf cl new vfl top r c :
  RunG (Dmark c) sf cl new vfl (top :: r) -> (forall t, top = Some t -> nth (t / 3) vfl false = true) ->
  c < 3 * nf -> nth (c / 3) vfl false = true ->
  RunG (Dcur None) sf cl new vfl (opp_at opp (next_c c) :: opp_at opp (prev_c c) :: r).
Proof.
  intros R Ht Hc Vc. apply run_pop in R; auto. destruct R as [R1 R2 R3 R4 R5 R6 R7]. constructor; auto.
  - intros x y Op. destruct (R4 x y Op) as [[X|X]|[X|X]]; auto.
    + right. left. left. destruct Op as (_ & _ & Ox & _). subst x. auto.
    + right. left. right. left. destruct Op as (_ & _ & Ox & _). subst x. auto.
    + right. left. right. right. auto.
  - assert (G : forall x, x = next_c c \/ x = prev_c c -> match opp_at opp x with Some y => gatev vfl y | None => True end).
    { intros x Hx. destruct (opp_at opp x) as [y|] eqn:E; auto. intros x0 E0.
      destruct (opp_facts _ _ E) as (E' & _). rewrite E' in E0. inversion E0; subst x0.
      destruct Hx; subst x; rewrite ?next_face, ?prev_face; auto. }
    constructor; [apply G; auto|]. constructor; [apply G; auto|auto].
Qed.

Lemma ogate_opt vvl o : (forall x, o = Some x -> gate_ok vvl x) -> ogate_ok vvl o.
Proof. destruct o; simpl; auto. Qed.

Lemma inner_ok ifs pcc0 sf : forall k s c top r cl new, Inv ifs s -> stack s = top :: r -> stack_ok s -> gate_ok (vv s) c ->
  nth (c / 3) (vf s) false = false ->
  RunP sf (Some c) cl new (vf s) (stack s) -> pcc s = new ++ pcc0 -> gatev (vf s) c ->
  (forall t, top = Some t -> t / 3 = c / 3 \/ nth (t / 3) (vf s) false = true) -> ucnt (vf s) <= k ->
  exists s' cl' new', inner c2v opp hid k s (Some c) = EOk s' /\ Inv ifs s' /\ stack_ok s' /\
     Phi s' + 1 <= Phi s /\
     RunP sf None cl' new' (vf s') (stack s') /\ pcc s' = new' ++ pcc0 /\ vle (vf s) (vf s') /\
     nth (c / 3) (vf s') false = true.
Proof.
  induction k as [|k' IH]; intros s c top r cl new I St SO G Hf RP Pc Gv Htop Uk.
  { exfalso. destruct G as (Hc & _). pose proof (i_base _ _ I) as B0.
    pose proof (ucnt_upd (vf s) (c / 3) ltac:(rewrite (b_vf _ _ B0); apply Nat.div_lt_upper_bound; lia) Hf). lia. }
  destruct G as (Hc & Hd & G1 & G2).
  pose proof (i_base _ _ I) as B0.
  rewrite inner_eq by (auto; apply B0). cbv zeta.
  assert (Hf3 : c / 3 < nf) by (apply Nat.div_lt_upper_bound; lia).
  assert (Hvc : vtx c2v c < nv) by (apply Hv; auto).
  pose proof (mark_J ifs s c I (conj Hc (conj Hd (conj G1 G2))) Hf) as J2.
  destruct (mark_frame s c) as (F1 & F2 & F3 & F4 & F5). specialize (F5 ltac:(rewrite (b_vv _ _ B0); lia)).
  set (s2 := mark_state s c) in *.
  assert (U2 : S (ucnt (vf s2)) = ucnt (vf s)).
  { rewrite F1. apply ucnt_upd; auto. rewrite (b_vf _ _ B0). auto. }
  assert (Lf2 : length (vf s2) = nf) by apply (j_base _ _ J2).
  assert (Gn : nth (vtx c2v (next_c c)) (vv s2) false = true) by (apply F4; auto).
  assert (Gp : nth (vtx c2v (prev_c c)) (vv s2) false = true) by (apply F4; auto).
  assert (SO2 : Forall (ogate_ok (vv s2)) (stack s)).
  { eapply Forall_impl; [|exact SO]. intros o. apply ogate_mono; auto. }
  assert (Vf2 : forall x, x / 3 <> c / 3 -> nth (x / 3) (vf s2) false = nth (x / 3) (vf s) false).
  { intros x Hx. rewrite F1. apply nth_upd_neq. auto. }
  assert (Lf0 : length (vf s) = nf) by apply B0.
  assert (M2 : vle (vf s) (vf s2)) by (rewrite F1; apply vle_upd).
  assert (Vc2 : nth (c / 3) (vf s2) false = true) by (rewrite F1; apply nth_upd_eq; lia).
  assert (Nin : ~ In (c / 3) (map (fun c => c / 3) new)).
  { intro X. assert (Y : In (c / 3) (map (fun c => c / 3) (pcc s) ++ ifs)).
    { apply in_or_app. left. rewrite Pc, map_app. apply in_or_app. left. auto. }
    apply (b_in _ _ B0) in Y. destruct Y. congruence. }
  assert (RM : RunG (Dmark c) sf cl (c :: new) (vf s2) (stack s)).
  { rewrite F1. apply run_mark; auto. }
  assert (Pc2 : pcc s2 = (c :: new) ++ pcc0).
  { unfold s2, mark_state. cbv zeta. destruct (nth (vtx c2v c) (vv s) false); cbn [pcc with_pcc with_vv]; rewrite Pc; auto. }
  assert (Top2 : forall t, top = Some t -> nth (t / 3) (vf s2) false = true).
  { intros t Et. destruct (Htop t Et) as [X|X]; [rewrite X; auto|apply M2; auto]. }
  assert (Uk2 : ucnt (vf s2) <= k') by lia.
  assert (Gnb : forall x y, opp_at opp x = Some y -> x / 3 = c / 3 -> gatev (vf s2) y).
  { intros x y E Ex x0 E0. destruct (opp_facts _ _ E) as (E' & _). rewrite E' in E0. inversion E0; subst x0. rewrite Ex. auto. }
  destruct (negb (nth (vtx c2v c) (vv s) false) && negb (is_some (nth (vtx c2v c) hid None))) eqn:EC.
  - (* TOPOLOGY_C *)
    apply andb_prop in EC. destruct EC as [E1 E2]. apply negb_true_iff in E1, E2.
    destruct (nth (vtx c2v c) hid None) eqn:Eh; [discriminate|].
    destruct (opp_at opp (next_c c)) as [r0|] eqn:Er.
    2:{ exfalso. destruct (Hhb (next_c c)) as [_ X]; auto. apply next_lt; auto. unfold nondeg in Hd. rewrite next_face; auto.
        rewrite prev_next in X. congruence. }
    destruct (right_gate (vv s2) c r0 Hc Er F5 Gp) as (Gr & Nr & Vr).
    assert (Hr0 : nth (r0 / 3) (vf s2) false = false).
    { rewrite Vf2 by auto. destruct (nth (r0 / 3) (vf s) false) eqn:X; auto.
      destruct Gr as (Hr & _). destruct (b_vis _ _ B0 (next_c r0) (next_lt _ _ Hr)) as [_ Y]. rewrite next_face; auto.
      rewrite Vr in Y. congruence. }
    assert (Fresh : forall x, x < 3 * nf -> vtx c2v x = vtx c2v c -> nth (x / 3) (vf s2) false = true -> x / 3 = c / 3).
    { intros x Hx Vx Hvis. rewrite F1 in Hvis. apply nth_upd_true in Hvis. destruct Hvis as [[A _]|Hv0]; auto.
      destruct (b_vis _ _ B0 x Hx Hv0) as [_ Y]. rewrite Vx in Y. congruence. }
    assert (A1 : Inv ifs (emit s2 TOPOLOGY_C)) by (apply emit_Inv; auto; [cbv; tauto|discriminate]).
    assert (A2 : stack (emit s2 TOPOLOGY_C) = top :: r) by (simpl; rewrite F2; auto).
    assert (A3 : stack_ok (emit s2 TOPOLOGY_C)) by (unfold stack_ok; simpl; rewrite F2; auto).
    assert (A4 : RunP sf (Some r0) (c :: cl) (c :: new) (vf (emit s2 TOPOLOGY_C)) (stack (emit s2 TOPOLOGY_C))).
    { cbn [emit with_syms vf stack]. rewrite F2. apply (run_C sf cl new (vf s2) (stack s) c r0); auto. }
    assert (A5 : gatev (vf (emit s2 TOPOLOGY_C)) r0).
    { cbn [emit with_syms vf]. apply (Gnb (next_c c) r0 Er). apply next_face. }
    assert (A6 : forall t, top = Some t -> t / 3 = r0 / 3 \/ nth (t / 3) (vf (emit s2 TOPOLOGY_C)) false = true).
    { intros t Et. right. cbn [emit with_syms vf]. auto. }
    destruct (IH (emit s2 TOPOLOGY_C) r0 top r (c :: cl) (c :: new) A1 A2 A3 Gr Hr0 A4 Pc2 A5 A6 Uk2) as (s' & cl' & new' & R1 & R2 & R3 & R4 & R5 & R6 & R7 & R8).
    exists s', cl', new'. split; [auto|]. split; [auto|]. split; [auto|].
    split; [unfold Phi in *; simpl in R4; rewrite F2 in R4; lia|].
    split; [auto|]. split; [auto|]. split; [eapply vle_trans; eauto|]. apply R7. auto.
  - (* not C *)
    clear EC.
    set (rc := opp_at opp (next_c c)) in *. set (lc := opp_at opp (prev_c c)) in *.
    assert (Grc : forall x, rc = Some x -> gate_ok (vv s2) x /\ x / 3 <> c / 3).
    { intros x E. destruct (right_gate (vv s2) c x Hc E F5 Gp) as (A & B & _). auto. }
    assert (Glc : forall x, lc = Some x -> gate_ok (vv s2) x /\ x / 3 <> c / 3).
    { intros x E. apply (left_gate (vv s2) c x Hc E F5 Gn). }
    assert (FV : forall vfl o, length vfl = nf -> (forall x, o = Some x -> x < 3 * nf) ->
              exists b, face_visited_opt vfl o = EOk b /\ (b = false -> exists x, o = Some x /\ nth (x / 3) vfl false = false) /\
                        (b = true -> forall x, o = Some x -> nth (x / 3) vfl false = true)).
    { intros vfl o L H. destruct o as [x|].
      - rewrite fvo_some by auto. eexists. split; [reflexivity|]. split; [eauto|]. intros E x' Ex. inversion Ex; subst. auto.
      - exists true. split; auto. split; [discriminate|]. intros _ x Ex. discriminate. }
    assert (Rlt : forall x, rc = Some x -> x < 3 * nf) by (intros x E; apply (Grc x E)).
    assert (Llt : forall x, lc = Some x -> x < 3 * nf) by (intros x E; apply (Glc x E)).
    destruct (FV (vf s2) rc Lf2 Rlt) as (rfv & Erf & Hrf & Hrt). rewrite Erf. cbn [ebind].
    destruct rfv.
    + (* right visited *)
      pose proof (check_split_J ifs s2 RIGHT_FACE_EDGE rc (or_intror eq_refl) J2) as J3.
      destruct (check_split_frame s2 RIGHT_FACE_EDGE rc) as (C1 & C2 & C3 & C4).
      set (s3 := check_split s2 RIGHT_FACE_EDGE rc) in *.
      destruct (FV (vf s3) lc ltac:(rewrite C1; auto) Llt) as (lfv & Elf & Hlf & Hlt). rewrite Elf. cbn [ebind].
      destruct lfv.
      * (* E *)
        pose proof (check_split_J ifs s3 LEFT_FACE_EDGE lc (or_introl eq_refl) J3) as J4.
        destruct (check_split_frame s3 LEFT_FACE_EDGE lc) as (D1 & D2 & D3 & D4).
        set (s4 := check_split s3 LEFT_FACE_EDGE lc) in *.
        pose proof (emit_Inv ifs s4 TOPOLOGY_E J4 ltac:(cbv; tauto) ltac:(discriminate)) as I5.
        cbn [emit with_syms stack]. rewrite D3, C3, F2, St.
        assert (P4 : pcc s4 = pcc s2).
        { unfold s4, s3, check_split. destruct lc, rc; repeat (destruct (split_symbol_on_face _ _)); reflexivity. }
        eexists _, cl, (c :: new). split; [reflexivity|]. split; [|split; [|split; [|split; [|split; [|split]]]]].
        -- destruct I5 as [B5 X1 X2 X3]. destruct B5. constructor; auto. constructor; auto.
        -- unfold stack_ok. cbn [with_stack stack vv emit with_syms]. rewrite D2, C2. rewrite St in SO2. inversion SO2; auto.
        -- unfold Phi. cbn [with_stack stack vf emit with_syms]. rewrite D1, C1, St. simpl. lia.
        -- cbn [with_stack stack vf emit with_syms]. rewrite D1, C1. apply (run_pop _ sf cl (c :: new) (vf s2) top r); auto.
           rewrite <- St. apply (run_E sf cl (c :: new) (vf s2) (stack s) c RM).
           ++ intros y Ey. apply (Hrt eq_refl y Ey).
           ++ intros y Ey. rewrite <- C1. apply (Hlt eq_refl y Ey).
        -- cbn [with_stack pcc emit with_syms]. rewrite P4. auto.
        -- cbn [with_stack vf emit with_syms]. rewrite D1, C1. auto.
        -- cbn [with_stack vf emit with_syms]. rewrite D1, C1. auto.
      * (* R *)
        destruct (Hlf eq_refl) as (l0 & El & Hl0). rewrite El.
        destruct (Glc l0 El) as (Gl & Nl).
        assert (P3 : pcc s3 = pcc s2).
        { unfold s3, check_split. destruct rc; repeat (destruct (split_symbol_on_face _ _)); reflexivity. }
        assert (A1 : Inv ifs (emit s3 TOPOLOGY_R)) by (apply emit_Inv; auto; [cbv; tauto|discriminate]).
        assert (A2 : stack (emit s3 TOPOLOGY_R) = top :: r) by (simpl; rewrite C3, F2; auto).
        assert (A3 : stack_ok (emit s3 TOPOLOGY_R)) by (unfold stack_ok; simpl; rewrite C3, C2, F2; auto).
        assert (A3' : gate_ok (vv (emit s3 TOPOLOGY_R)) l0) by (simpl; rewrite C2; auto).
        assert (A4 : RunP sf (Some l0) cl (c :: new) (vf (emit s3 TOPOLOGY_R)) (stack (emit s3 TOPOLOGY_R))).
        { cbn [emit with_syms vf stack]. rewrite C1, C3, F2.
          apply (run_RL sf cl (c :: new) (vf s2) (stack s) c (prev_c c) (next_c c) l0 RM); auto. }
        assert (A4' : pcc (emit s3 TOPOLOGY_R) = (c :: new) ++ pcc0) by (cbn [emit with_syms pcc]; rewrite P3; auto).
        assert (A5 : gatev (vf (emit s3 TOPOLOGY_R)) l0).
        { cbn [emit with_syms vf]. rewrite C1. apply (Gnb (prev_c c) l0 El). apply prev_face. }
        assert (A6 : forall t, top = Some t -> t / 3 = l0 / 3 \/ nth (t / 3) (vf (emit s3 TOPOLOGY_R)) false = true).
        { intros t Et. right. cbn [emit with_syms vf]. rewrite C1. auto. }
        assert (A7 : ucnt (vf (emit s3 TOPOLOGY_R)) <= k') by (cbn [emit with_syms vf]; rewrite C1; auto).
        assert (A8 : nth (l0 / 3) (vf (emit s3 TOPOLOGY_R)) false = false) by (cbn [emit with_syms vf]; auto).
        destruct (IH (emit s3 TOPOLOGY_R) l0 top r cl (c :: new) A1 A2 A3 A3' A8 A4 A4' A5 A6 A7) as (s' & cl' & new' & R1 & R2 & R3 & R4 & R5 & R6 & R7 & R8).
        exists s', cl', new'. split; [auto|]. split; [auto|]. split; [auto|].
        split; [unfold Phi in *; simpl in R4; rewrite C1, C3, F2 in R4; lia|].
        cbn [emit with_syms vf] in R7. rewrite C1 in R7.
        split; [auto|]. split; [auto|]. split; [eapply vle_trans; eauto|]. apply R7. auto.
    + (* right not visited *)
      destruct (Hrf eq_refl) as (r0 & Er & Hr0).
      destruct (FV (vf s2) lc Lf2 Llt) as (lfv & Elf & Hlf & Hlt). rewrite Elf. cbn [ebind].
      destruct lfv.
      * (* L *)
        pose proof (check_split_J ifs s2 LEFT_FACE_EDGE lc (or_introl eq_refl) J2) as J3.
        destruct (check_split_frame s2 LEFT_FACE_EDGE lc) as (C1 & C2 & C3 & C4).
        set (s3 := check_split s2 LEFT_FACE_EDGE lc) in *.
        rewrite Er. destruct (Grc r0 Er) as (Gr & Nr).
        assert (P3 : pcc s3 = pcc s2).
        { unfold s3, check_split. destruct lc; repeat (destruct (split_symbol_on_face _ _)); reflexivity. }
        assert (A1 : Inv ifs (emit s3 TOPOLOGY_L)) by (apply emit_Inv; auto; [cbv; tauto|discriminate]).
        assert (A2 : stack (emit s3 TOPOLOGY_L) = top :: r) by (simpl; rewrite C3, F2; auto).
        assert (A3 : stack_ok (emit s3 TOPOLOGY_L)) by (unfold stack_ok; simpl; rewrite C3, C2, F2; auto).
        assert (A3' : gate_ok (vv (emit s3 TOPOLOGY_L)) r0) by (simpl; rewrite C2; auto).
        assert (A4 : RunP sf (Some r0) cl (c :: new) (vf (emit s3 TOPOLOGY_L)) (stack (emit s3 TOPOLOGY_L))).
        { cbn [emit with_syms vf stack]. rewrite C1, C3, F2.
          apply (run_RL sf cl (c :: new) (vf s2) (stack s) c (next_c c) (prev_c c) r0 RM); auto. }
        assert (A4' : pcc (emit s3 TOPOLOGY_L) = (c :: new) ++ pcc0) by (cbn [emit with_syms pcc]; rewrite P3; auto).
        assert (A5 : gatev (vf (emit s3 TOPOLOGY_L)) r0).
        { cbn [emit with_syms vf]. rewrite C1. apply (Gnb (next_c c) r0 Er). apply next_face. }
        assert (A6 : forall t, top = Some t -> t / 3 = r0 / 3 \/ nth (t / 3) (vf (emit s3 TOPOLOGY_L)) false = true).
        { intros t Et. right. cbn [emit with_syms vf]. rewrite C1. auto. }
        assert (A7 : ucnt (vf (emit s3 TOPOLOGY_L)) <= k') by (cbn [emit with_syms vf]; rewrite C1; auto).
        assert (A8 : nth (r0 / 3) (vf (emit s3 TOPOLOGY_L)) false = false) by (cbn [emit with_syms vf]; rewrite C1; auto).
        destruct (IH (emit s3 TOPOLOGY_L) r0 top r cl (c :: new) A1 A2 A3 A3' A8 A4 A4' A5 A6 A7) as (s' & cl' & new' & R1 & R2 & R3 & R4 & R5 & R6 & R7 & R8).
        exists s', cl', new'. split; [auto|]. split; [auto|]. split; [auto|].
        split; [unfold Phi in *; simpl in R4; rewrite C1, C3, F2 in R4; lia|].
        cbn [emit with_syms vf] in R7. rewrite C1 in R7.
        split; [auto|]. split; [auto|]. split; [eapply vle_trans; eauto|]. apply R7. auto.
      * (* S *)
        pose proof (emit_S_Inv ifs s2 J2) as I3.
        set (s3 := with_nsplit (emit s2 TOPOLOGY_S) (S (nsplit (emit s2 TOPOLOGY_S)))) in *.
        change (nsplit (emit s2 TOPOLOGY_S)) with (nsplit s2) in *.
        assert (H4 : exists s4, (match nth (vtx c2v c) hid None with
                  | Some hole => b <-- eget (vhole s3) hole ;; if b then EOk s3 else encode_hole c2v opp hid s3 c false
                  | None => EOk s3 end) = EOk s4 /\ Inv ifs s4 /\ vle (vv s3) (vv s4) /\ vf s4 = vf s3 /\ stack s4 = stack s3 /\ syms s4 = syms s3 /\ pcc s4 = pcc s3).
        { assert (Lh3 : length (vhole s3) = nh) by apply (i_base _ _ I3).
          destruct (nth (vtx c2v c) hid None) as [hole|] eqn:Eh.
          - rewrite (eget_lt (vhole s3) hole false) by (rewrite Lh3; eapply Hhr; eauto). cbn [ebind].
            destruct (nth hole (vhole s3) false).
            + exists s3. split; [reflexivity|]. split; [exact I3|]. split; [apply vle_refl|]. auto.
            + destruct (EH s3 c false) as (vv' & vh' & E1 & E2 & E3 & _); auto; try apply (i_base _ _ I3). congruence.
              rewrite E1. eexists. split; [reflexivity|]. split; [apply Inv_vv; auto|]. split; [exact E2|]. auto.
          - exists s3. split; [reflexivity|]. split; [exact I3|]. split; [apply vle_refl|]. auto. }
        destruct H4 as (s4 & E4 & I4 & M4 & Vf4 & St4 & Sy4 & Pc4). rewrite E4. cbn [ebind].
        assert (Ns : syms s4 <> []) by (rewrite Sy4; discriminate).
        pose proof (Inv_f2s ifs s4 (c / 3) I4 Ns) as I5.
        set (s5 := with_f2s s4 ((c / 3, last_id s4) :: f2s s4)) in *.
        assert (St5 : stack s5 = top :: r) by (cbn [s5 with_f2s stack]; rewrite St4; cbn [s3 stack with_nsplit emit with_syms]; rewrite F2; auto).
        rewrite St5. eexists _, cl, (c :: new). split; [reflexivity|]. split; [|split; [|split; [|split; [|split; [|split]]]]].
        -- destruct I5 as [B5 X1 X2 X3]. destruct B5. constructor; auto. constructor; auto.
        -- unfold stack_ok. cbn [with_stack stack vv s5 with_f2s].
           assert (M : vle (vv s2) (vv s4)) by exact M4.
           constructor; [|constructor].
           ++ apply ogate_opt. intros x E. eapply gate_mono; [exact M|apply (Grc x E)].
           ++ apply ogate_opt. intros x E. eapply gate_mono; [exact M|apply (Glc x E)].
           ++ rewrite St in SO2. inversion SO2; subst. eapply Forall_impl; [|eassumption]. intros o. apply ogate_mono; auto.
        -- unfold Phi. cbn [with_stack stack vf s5 with_f2s]. rewrite Vf4. cbn [s3 vf with_nsplit emit with_syms]. rewrite St. simpl. lia.
        -- cbn [with_stack stack vf s5 with_f2s]. rewrite Vf4. cbn [s3 vf with_nsplit emit with_syms].
           apply (run_S sf cl (c :: new) (vf s2) top r c); auto. rewrite <- St. auto.
        -- cbn [with_stack pcc s5 with_f2s]. rewrite Pc4. cbn [s3 pcc with_nsplit emit with_syms]. auto.
        -- cbn [with_stack vf s5 with_f2s]. rewrite Vf4. cbn [s3 vf with_nsplit emit with_syms]. auto.
        -- cbn [with_stack vf s5 with_f2s]. rewrite Vf4. cbn [s3 vf with_nsplit emit with_syms]. auto.
Qed.

Lemma Inv_stack ifs s st : Inv ifs s -> Inv ifs (with_stack s st).
Proof. intros [B A1 A2 A3]. destruct B. constructor; auto. constructor; auto. Qed.

Lemma ucnt_le l : ucnt l <= length l. Proof. unfold ucnt. lia. Qed.

Lemma outer_ok ifs pcc0 sf : forall fuel s cl new, Inv ifs s -> stack_ok s -> Phi s < fuel ->
  RunP sf None cl new (vf s) (stack s) -> pcc s = new ++ pcc0 ->
  exists s' cl' new', outer c2v opp hid fuel s = EOk s' /\ Inv ifs s' /\ stack s' = [] /\
    RunP sf None cl' new' (vf s') [] /\ pcc s' = new' ++ pcc0 /\ vle (vf s) (vf s') /\
    (forall t r0, stack s = Some t :: r0 -> nth (t / 3) (vf s') false = true).
Proof.
  induction fuel as [|k IH]; intros s cl new I SO HP RP Pc; [lia|].
  cbn [outer]. destruct (stack s) as [|top r] eqn:St.
  - exists s, cl, new. split; [auto|]. split; [auto|]. split; [auto|]. split; [auto|]. split; [auto|]. split; [apply vle_refl|].
    intros t r0 E. discriminate.
  - assert (Pop : (forall t, top = Some t -> nth (t / 3) (vf s) false = true) ->
       exists s' cl' new', outer c2v opp hid k (with_stack s r) = EOk s' /\ Inv ifs s' /\ stack s' = [] /\
         RunP sf None cl' new' (vf s') [] /\ pcc s' = new' ++ pcc0 /\ vle (vf s) (vf s') /\
         (forall t r0, top :: r = Some t :: r0 -> nth (t / 3) (vf s') false = true)).
    { intros Ht. destruct (IH (with_stack s r) cl new) as (s' & cl' & new' & A1 & A2 & A3 & A4 & A5 & A6 & A7).
      - apply Inv_stack; auto.
      - unfold stack_ok in *. cbn [with_stack stack vv]. rewrite St in SO. inversion SO; auto.
      - unfold Phi in *. cbn [with_stack stack vf]. rewrite St in HP. simpl in HP. lia.
      - cbn [with_stack stack vf]. eapply run_pop; eauto.
      - auto.
      - exists s', cl', new'. split; [exact A1|]. split; [exact A2|]. split; [exact A3|]. split; [exact A4|]. split; [exact A5|].
        split; [exact A6|]. intros t r0 E. inversion E; subst. apply A6. apply Ht. auto. }
    destruct top as [c|]; [|apply Pop; intros t E; discriminate].
    assert (G : gate_ok (vv s) c). { unfold stack_ok in SO. rewrite St in SO. inversion SO; auto. }
    assert (Hf3 : c / 3 < nf) by (destruct G; apply Nat.div_lt_upper_bound; lia).
    rewrite (eget_lt (vf s) (c / 3) false) by (rewrite (b_vf _ _ (i_base _ _ I)); auto). cbn [ebind].
    destruct (nth (c / 3) (vf s) false) eqn:Ef.
    { apply Pop. intros t E. inversion E; subst. auto. }
    rewrite NF_eq.
    assert (RPc : RunP sf (Some c) cl new (vf s) (Some c :: r)).
    { eapply run_weaken; [|exact RP]. intros x y _ X. unfold Dcur in X. discriminate. }
    rewrite <- St in RPc.
    assert (Gv : gatev (vf s) c). { destruct RP as [_ _ _ _ _ R6 _]. inversion R6; auto. }
    assert (Uk : ucnt (vf s) <= nf). { pose proof (ucnt_le (vf s)). rewrite (b_vf _ _ (i_base _ _ I)) in H. auto. }
    destruct (inner_ok ifs pcc0 sf nf s c (Some c) r cl new I St SO G Ef RPc Pc Gv ltac:(intros t E; inversion E; auto) Uk)
      as (s1 & cl1 & new1 & E1 & I1 & SO1 & P1 & RP1 & Pc1 & M1 & V1). rewrite E1. cbn [ebind].
    destruct (IH s1 cl1 new1 I1 SO1 ltac:(lia) RP1 Pc1) as (s' & cl' & new' & A1 & A2 & A3 & A4 & A5 & A6 & A7).
    exists s', cl', new'. split; [exact A1|]. split; [exact A2|]. split; [exact A3|]. split; [exact A4|]. split; [exact A5|].
    split; [eapply vle_trans; eauto|].
    intros t r0 E. inversion E; subst. apply A6. auto.
Qed.

Lemma from_corner_ok ifs pcc0 sf s c cl new : Inv ifs s -> gate_ok (vv s) c ->
  RunP sf None cl new (vf s) [Some c] -> pcc s = new ++ pcc0 ->
  exists s' cl' new', from_corner c2v opp hid s (Some c) = EOk s' /\ Inv ifs s' /\ stack s' = [] /\
    RunP sf None cl' new' (vf s') [] /\ pcc s' = new' ++ pcc0 /\ vle (vf s) (vf s') /\ nth (c / 3) (vf s') false = true.
Proof.
  intros I G RP Pc. unfold from_corner.
  destruct (outer_ok ifs pcc0 sf (outer_fuel c2v) (with_stack s [Some c]) cl new) as (s' & cl' & new' & A1 & A2 & A3 & A4 & A5 & A6 & A7).
  - apply Inv_stack; auto.
  - unfold stack_ok. cbn [with_stack stack vv]. constructor; auto.
  - unfold Phi, outer_fuel. cbn [with_stack stack vf length]. rewrite NF_eq.
    pose proof (ucnt_le (vf s)). rewrite (b_vf _ _ (i_base _ _ I)) in H. lia.
  - auto.
  - auto.
  - exists s', cl', new'. split; [exact A1|]. split; [exact A2|]. split; [exact A3|]. split; [exact A4|]. split; [exact A5|].
    split; [exact A6|]. apply (A7 c []). auto.
Qed.

Hypothesis FI : forall f, f < nf -> is_degenerated c2v f = false ->
  exists start interior, find_init c2v opp hid f = EOk (start, interior) /\ start < 3 * nf /\
    (interior = true -> start / 3 = f /\
       forall x, x < 3 * nf -> x / 3 = f -> opp_at opp x <> None /\ nth (vtx c2v x) hid None = None) /\
    (interior = false -> nondeg start /\ opp_at opp start = None /\
       exists c y, c / 3 = f /\ c < 3 * nf /\ y < 3 * nf /\ vtx c2v c = vtx c2v y /\ nondeg y /\ start = prev_c y).

(** no visited face has an unvisited neighbour *)
Definition CLOSED (vfl : list bool) : Prop := forall x y, ~ openc vfl x y.

(** closure at the end of a run, and propagation of `visited` around a vertex: proved in Section Closure below from the
    one-fan property (they need walks around vertices) *)
Hypothesis ENDH : forall sf cl new vfl, RunP sf None cl new vfl [] -> NoDup (map (fun c => c / 3) new) ->
  (forall x, x < 3 * nf -> nth (x / 3) vfl false = true -> nondeg x) -> length vfl = nf -> CLOSED vfl.
Hypothesis FANC : forall vfl a b, CLOSED vfl -> (forall x, x < 3 * nf -> nth (x / 3) vfl false = true -> nondeg x) ->
  a < 3 * nf -> b < 3 * nf -> nondeg a -> nondeg b -> vtx c2v a = vtx c2v b ->
  nth (a / 3) vfl false = true -> nth (b / 3) vfl false = true.

Definition ECinv (done : list nat) (st : eres (est * list bool * list nat)) : Prop :=
  exists s bits inits, st = EOk (s, bits, inits) /\ Inv (map (fun c => c / 3) (rev inits)) s /\
    Forall (fun c => c < 3 * nf) inits /\ length inits = count_occ bool_dec bits true /\
    CLOSED (vf s) /\
    (forall i, In i done -> i < 3 * nf -> is_degenerated c2v (i / 3) = false -> nth (i / 3) (vf s) false = true) /\
    3 * length inits <= length (pcc s).

Lemma Inv_init ifs s f vv' : Inv ifs s -> f < nf -> nth f (vf s) false = false -> is_degenerated c2v f = false ->
  vle (vv s) vv' -> (forall x, x < 3 * nf -> x / 3 = f -> nth (vtx c2v x) vv' false = true) ->
  Inv (ifs ++ [f]) (with_vf (with_vv s vv') (upd (vf s) f true)).
Proof.
  intros [B A1 A2 A3] Hf Hn Hd [L M] HV. destruct B. constructor; auto. constructor; cbn [with_vf with_vv vf vv vhole pcc syms nsplit evs last_id]; auto.
  - rewrite upd_length; auto.
  - lia.
  - intros x Hx Hvis. rewrite nth_upd in Hvis. destruct (x / 3 =? f) eqn:E.
    + apply Nat.eqb_eq in E. split; [unfold nondeg; rewrite E; auto|]. auto.
    + simpl in Hvis. destruct (b_vis0 x Hx Hvis) as [P Q]. split; auto.
  - rewrite app_assoc. apply NoDup_snoc; auto. intro I. apply b_in0 in I. destruct I. congruence.
  - intros g. rewrite app_assoc, in_app_iff, b_in0, nth_upd. cbn [In]. split.
    + intros [[H1 H2]|[E|[]]].
      * split; auto. destruct ((g =? f) && _); auto.
      * subst g. rewrite Nat.eqb_refl. split; auto. assert (f <? length (vf s) = true) by (apply Nat.ltb_lt; lia). rewrite H. auto.
    + intros [H1 H2]. destruct (g =? f) eqn:E; [right; left; apply Nat.eqb_eq in E; auto|left; split; auto].
Qed.

Lemma NoDup_app_l {A} (l1 l2 : list A) : NoDup (l1 ++ l2) -> NoDup l1.
Proof. induction l1; simpl; intros H; [constructor|]. inversion H; subst. constructor; auto. intro X. apply H2. apply in_or_app; auto. Qed.

Lemma run_closed ifs pcc0 sf cl new s : Inv ifs s -> RunP sf None cl new (vf s) [] -> pcc s = new ++ pcc0 -> CLOSED (vf s).
Proof.
  intros I RP Pc. pose proof (i_base _ _ I) as B0. apply (ENDH sf cl new); auto.
  - pose proof (b_nd _ _ B0) as N. rewrite Pc, map_app, <- app_assoc in N. apply NoDup_app_l in N. auto.
  - intros x Hx Hvis. apply (b_vis _ _ B0 x Hx Hvis).
  - apply B0.
Qed.

(* the faces across two different edges of a face are different *)
Lemma nbr_next_distinct a o1 o2 : opp_at opp a = Some o1 -> opp_at opp (next_c a) = Some o2 -> o1 / 3 <> o2 / 3.
Proof.
  intros E1 E2 F. destruct (opp_facts _ _ E1) as (E1' & La & Lo1 & Da & Do1 & _ & V1 & V2).
  destruct (opp_facts _ _ E2) as (E2' & _ & Lo2 & _ & Do2 & _ & W1 & W2).
  rewrite next_next in W1. rewrite prev_next in W2.
  pose proof OK as [_ K]. destruct (K _ _ E1) as (_ & _ & _ & _ & Nv & _).
  destruct (nondeg_corner _ _ Do1) as (N1 & N2 & N3).
  symmetry in F. destruct (face_corners _ _ F) as [X|[X|X]]; subst o2.
  - rewrite E1' in E2'. inversion E2'. apply (next_neq a). auto.
  - rewrite prev_next in W1. congruence.
  - rewrite next_prev in W2. congruence.
Qed.

Lemma three_faces (l : list nat) g0 g1 g2 : In g0 l -> In g1 l -> In g2 l -> g0 <> g1 -> g1 <> g2 -> g0 <> g2 -> 3 <= length l.
Proof.
  intros I0 I1 I2 N01 N12 N02.
  assert (ND : NoDup [g0; g1; g2]).
  { constructor; [simpl; intuition|]. constructor; [simpl; intuition|]. constructor; [simpl; intuition|constructor]. }
  assert (Incl : incl [g0; g1; g2] l) by (intros x [X|[X|[X|[]]]]; subst; auto).
  apply (NoDup_incl_length ND Incl).
Qed.

Lemma ec_corner_ok done st c_id : c_id < 3 * nf -> ECinv done st -> ECinv (c_id :: done) (ec_corner c2v opp hid st c_id).
Proof.
  intros Hc (s & bits & inits & -> & I & Fi & Cb & CL & DN & T3). unfold ec_corner. cbn [ebind].
  assert (Hf3 : c_id / 3 < nf) by (apply Nat.div_lt_upper_bound; lia).
  pose proof (i_base _ _ I) as B0.
  rewrite (eget_lt (vf s) (c_id / 3) false) by (rewrite (b_vf _ _ B0); auto). cbn [ebind].
  destruct (nth (c_id / 3) (vf s) false) eqn:Ef.
  { exists s, bits, inits. split; [auto|]. split; [auto|]. split; [auto|]. split; [auto|]. split; [auto|]. split; [|auto].
    intros i [X|X] Hi Di; [subst; auto|auto]. }
  destruct (is_degenerated c2v (c_id / 3)) eqn:Ed.
  { exists s, bits, inits. split; [auto|]. split; [auto|]. split; [auto|]. split; [auto|]. split; [auto|]. split; [|auto].
    intros i [X|X] Hi Di; [subst; congruence|auto]. }
  destruct (FI _ Hf3 Ed) as (start & interior & E1 & Hs & HI & HB). rewrite E1. cbn [ebind].
  destruct interior.
  - destruct (HI eq_refl) as (HI1 & HIall). clear HB HI. rename HI1 into HI.
    destruct (HIall start Hs HI) as (_ & HI3).
    destruct (HIall (prev_c start) (prev_lt _ _ Hs) ltac:(rewrite prev_face; auto)) as (HIp & HI4).
    destruct (HIall (next_c start) (next_lt _ _ Hs) ltac:(rewrite next_face; auto)) as (HI2 & _).
    destruct (HIall start Hs HI) as (HIs & _).
    rewrite (e_vertex_ok start Hs), (e_vertex_ok (next_c start)), (e_vertex_ok (prev_c start)) by (try apply next_lt; try apply prev_lt; auto).
    cbn [ebind].
    pose proof (Hv start Hs) as V1. pose proof (Hv _ (next_lt _ _ Hs)) as V2. pose proof (Hv _ (prev_lt _ _ Hs)) as V3.
    rewrite (eset_lt (vv s)) by (rewrite (b_vv _ _ B0); auto). cbn [ebind].
    rewrite eset_lt by (rewrite upd_length, (b_vv _ _ B0); auto). cbn [ebind].
    rewrite eset_lt by (rewrite !upd_length, (b_vv _ _ B0); auto). cbn [ebind].
    rewrite (eset_lt (vf s)) by (rewrite (b_vf _ _ B0); auto). cbn [ebind].
    set (vv' := upd (upd (upd (vv s) (vtx c2v start) true) (vtx c2v (next_c start)) true) (vtx c2v (prev_c start)) true).
    assert (M : vle (vv s) vv') by (unfold vv'; eapply vle_trans; [eapply vle_trans|]; apply vle_upd).
    assert (Lv : length (vv s) = nv) by apply B0.
    assert (A1 : nth (vtx c2v start) vv' false = true).
    { unfold vv'. rewrite !nth_upd. rewrite !upd_length.
      destruct ((_ =? _) && _); auto. destruct ((_ =? _) && _); auto. rewrite Nat.eqb_refl.
      assert (vtx c2v start <? length (vv s) = true) by (apply Nat.ltb_lt; lia). rewrite H. auto. }
    assert (A2 : nth (vtx c2v (next_c start)) vv' false = true).
    { unfold vv'. rewrite !nth_upd. rewrite !upd_length.
      destruct ((_ =? _) && _); auto. rewrite Nat.eqb_refl.
      assert (vtx c2v (next_c start) <? length (vv s) = true) by (apply Nat.ltb_lt; lia). rewrite H. auto. }
    assert (A3 : nth (vtx c2v (prev_c start)) vv' false = true).
    { unfold vv'. rewrite nth_upd. rewrite !upd_length. rewrite Nat.eqb_refl.
      assert (vtx c2v (prev_c start) <? length (vv s) = true) by (apply Nat.ltb_lt; lia). rewrite H. auto. }
    assert (I1 : Inv (map (fun c => c / 3) (rev (next_c start :: inits))) (with_vf (with_vv s vv') (upd (vf s) (c_id / 3) true))).
    { cbn [rev]. rewrite map_app. cbn [map]. cbv beta. rewrite (next_face start), HI. apply Inv_init; auto.
      intros x Hx Ex. rewrite <- HI in Ex. destruct (face_corners _ _ Ex) as [X|[X|X]]; subst x; auto. }
    set (s1 := with_vf (with_vv s vv') (upd (vf s) (c_id / 3) true)) in *.
    assert (Dd : nondeg start) by (unfold nondeg; rewrite HI; auto).
    assert (Lf : length (vf s) = nf) by apply B0.
    assert (Vf1 : vf s1 = upd (vf s) (c_id / 3) true) by reflexivity.
    assert (M1 : vle (vf s) (vf s1)) by (rewrite Vf1; apply vle_upd).
    assert (Vs1 : nth (c_id / 3) (vf s1) false = true) by (rewrite Vf1; apply nth_upd_eq; lia).
    rewrite (e_opp_ok (next_c start)) by (apply next_lt; auto). cbn [ebind].
    destruct (opp_at opp (next_c start)) as [oc|] eqn:Eo; [|congruence].
    destruct (right_gate vv' start oc Hs Eo A1 A3) as (Go & Nf & _).
    destruct (opp_facts _ _ Eo) as (Eo' & _).
    assert (Ho3 : oc / 3 < nf) by (destruct Go; apply Nat.div_lt_upper_bound; lia).
    cbn [s1 with_vf vf]. rewrite (eget_lt (upd (vf s) (c_id / 3) true) (oc / 3) false) by (rewrite upd_length, (b_vf _ _ B0); auto). cbn [ebind].
    destruct (nth (oc / 3) (upd (vf s) (c_id / 3) true) false) eqn:Eov.
    { exfalso. rewrite nth_upd_neq in Eov by (rewrite <- HI; auto).
      apply (CL oc (next_c start)). destruct Go as (Lo & _). repeat split; auto. rewrite next_face, HI. auto. }
    assert (RP : RunP (Some start) None [] [] (vf s1) [Some oc]).
    { constructor.
      - intros a [].
      - intros l1 c' l2 _ [].
      - intros ci _ [].
      - intros x y (Hx & Vx & Ox & Vy). rewrite Vf1 in Vx, Vy. apply nth_upd_true in Vx. destruct Vx as [[A _]|Vx0].
        + rewrite <- HI in A. destruct (face_corners _ _ A) as [X|[X|X]]; subst x.
          * right. right. right. exists start. auto.
          * right. left. left. congruence.
          * right. right. right. exists start. auto.
        + exfalso. apply (CL x y). repeat split; auto.
          destruct (nth (y / 3) (vf s) false) eqn:Q; auto. rewrite (proj2 (vle_upd (vf s) (c_id / 3)) _ Q) in Vy. discriminate.
      - intros c' [].
      - constructor; [|constructor]. intros x0 E0. rewrite Eo' in E0. inversion E0; subst x0. rewrite next_face, HI. auto.
      - intros ci E. inversion E; subst ci. rewrite HI. repeat split; auto. }
    destruct (from_corner_ok _ (pcc s1) (Some start) s1 oc [] [] I1 Go RP eq_refl) as (s' & cl' & new' & E' & I' & St' & RP' & Pc' & M' & Vo').
    fold s1. rewrite E'. cbn [ebind].
    exists s', (true :: bits), (next_c start :: inits). split; auto. split; auto. split.
    { constructor; auto. apply next_lt; auto. }
    split. { cbn [length count_occ]. destruct (bool_dec true true); [lia|congruence]. }
    assert (CL' : CLOSED (vf s')) by (eapply run_closed; eauto).
    split; [exact CL'|]. split.
    { intros i [X|X] Hi Di.
      + subst i. apply M'. auto.
      + apply M'. apply M1. auto. }
    (* at least three symbols in this run: the three neighbours of the start face *)
    assert (L3 : 3 <= length new').
    { destruct (opp_at opp start) as [o0|] eqn:E0; [|congruence].
      destruct (opp_at opp (prev_c start)) as [o2|] eqn:E2; [|congruence].
      pose proof (i_base _ _ I') as B'.
      assert (InN : forall a o, a / 3 = c_id / 3 -> opp_at opp a = Some o -> In (o / 3) (map (fun c => c / 3) new')).
      { intros a o Fa Ea. destruct (opp_facts _ _ Ea) as (Ea' & La & Lo & _ & _ & Nf' & _).
        assert (Vis' : nth (o / 3) (vf s') false = true).
        { destruct (nth (o / 3) (vf s') false) eqn:Q; auto. exfalso. apply (CL' a o). repeat split; auto. rewrite Fa. apply M'. auto. }
        assert (Nvis : nth (o / 3) (vf s) false = false).
        { destruct (nth (o / 3) (vf s) false) eqn:Q; auto. exfalso. apply (CL o a). repeat split; auto. rewrite Fa. auto. }
        assert (In1 : In (o / 3) (map (fun c => c / 3) (pcc s') ++ map (fun c => c / 3) (rev (next_c start :: inits)))).
        { apply (b_in _ _ B'). split; auto. apply Nat.div_lt_upper_bound; lia. }
        rewrite Pc', map_app in In1. cbn [rev] in In1. rewrite map_app in In1. cbn [map] in In1.
        rewrite next_face, HI in In1.
        apply in_app_or in In1. destruct In1 as [In1|In1].
        - apply in_app_or in In1. destruct In1 as [In1|In1]; auto. exfalso.
          assert (X : In (o / 3) (map (fun c => c / 3) (pcc s) ++ map (fun c => c / 3) (rev inits))) by (apply in_or_app; auto).
          apply (b_in _ _ B0) in X. destruct X. congruence.
        - apply in_app_or in In1. destruct In1 as [In1|[In1|[]]].
          + exfalso. assert (X : In (o / 3) (map (fun c => c / 3) (pcc s) ++ map (fun c => c / 3) (rev inits))) by (apply in_or_app; auto).
            apply (b_in _ _ B0) in X. destruct X. congruence.
          + exfalso. apply Nf'. rewrite Fa. auto. }
      rewrite <- (map_length (fun c => c / 3) new'). apply (three_faces (map (fun c => c / 3) new') (o0 / 3) (oc / 3) (o2 / 3)).
      - apply (InN start); auto.
      - apply (InN (next_c start)); auto. rewrite next_face; auto.
      - apply (InN (prev_c start)); auto. rewrite prev_face; auto.
      - apply (nbr_next_distinct start); auto.
      - intro X. apply (nbr_next_distinct (next_c start) oc o2); auto. rewrite next_next. auto.
      - intro X. apply (nbr_next_distinct (prev_c start) o2 o0); auto. rewrite next_prev. auto. }
    cbn [length]. rewrite Pc', app_length. cbn [s1 with_vf with_vv pcc]. lia.
  - destruct (HB eq_refl) as (Dn & On & cc & yy & F1 & F2 & F3 & F4 & F5 & F6). clear HI HB.
    destruct (Hhb start Hs Dn On) as (Hn1 & Hn2).
    assert (Dn' : nondeg (next_c start)) by (unfold nondeg in *; rewrite next_face; auto).
    destruct (EH s (next_c start) true (b_vv _ _ B0) (b_vh _ _ B0) (next_lt _ _ Hs) Dn' Hn1) as (vv' & vh' & E2 & M & Lh & Fst).
    destruct (Fst eq_refl) as (A1 & A2). rewrite prev_next in A2. specialize (A2 On).
    rewrite E2. cbn [ebind].
    pose proof (Inv_vv _ s vv' vh' I M Lh) as I1.
    set (s1 := with_vhole (with_vv s vv') vh') in *.
    assert (RP : RunP None None [] [] (vf s1) [Some start]).
    { constructor.
      - intros a [].
      - intros l1 c' l2 _ [].
      - intros ci E. discriminate.
      - intros x y Op. exfalso. apply (CL x y). auto.
      - intros c' [].
      - constructor; [|constructor]. intros x0 E0. congruence.
      - intros ci E. discriminate. }
    destruct (from_corner_ok _ (pcc s1) None s1 start [] [] I1 ltac:(repeat split; auto) RP eq_refl)
      as (s' & cl' & new' & E' & I' & St' & RP' & Pc' & M' & Vo').
    rewrite E'. cbn [ebind].
    assert (CL' : CLOSED (vf s')) by (eapply run_closed; eauto).
    exists s', (false :: bits), inits. split; auto. split; auto. split; auto. split; auto. split; auto. split.
    { intros i [X|X] Hi Di.
      + subst i. pose proof (i_base _ _ I') as B'.
        rewrite <- F1. apply (FANC (vf s') yy cc); auto.
        * intros x Hx Hvis. apply (b_vis _ _ B' x Hx Hvis).
        * unfold nondeg. rewrite F1. auto.
        * rewrite <- (prev_face yy), <- F6. auto.
      + apply M'. auto. }
    rewrite Pc', app_length. cbn [s1 with_vhole with_vv pcc]. lia.
Qed.

Lemma ec_fold_ok l : Forall (fun c => c < 3 * nf) l -> forall done st, ECinv done st ->
  ECinv (rev l ++ done) (fold_left (ec_corner c2v opp hid) l st).
Proof.
  induction 1; intros done st I; simpl; auto. rewrite <- app_assoc. simpl. apply IHForall. apply ec_corner_ok; auto.
Qed.

Lemma nth_repeat_false k i : nth i (repeat false k) false = false.
Proof. revert i; induction k; destruct i; simpl; auto. Qed.

Lemma init_Inv vh0 : length vh0 = nh -> Inv [] (init_est nf nv vh0).
Proof.
  intros L. unfold init_est. constructor; cbn; auto. constructor; cbn; auto.
  - apply repeat_length.
  - apply repeat_length.
  - intros x _ H. rewrite nth_repeat_false in H. discriminate.
  - constructor.
  - intros f. rewrite nth_repeat_false. split; [tauto|intros [_ X]; discriminate].
  - constructor.
Qed.

(** what is proved of an output of the encoder *)
Definition out_ok (o : enc_out) : Prop :=
  NoDup (map (fun c => c / 3) (o_pcc o)) /\
  Forall (fun c => c < 3 * nf /\ is_degenerated c2v (c / 3) = false) (o_pcc o) /\
  (forall f, f < nf -> is_degenerated c2v f = false -> In f (map (fun c => c / 3) (o_pcc o))) /\
  o_nsyms o = Z.of_nat (length (o_syms o)) /\
  length (o_pcc o) = length (o_syms o) + count_occ bool_dec (o_bits o) true /\
  3 * count_occ bool_dec (o_bits o) true <= length (o_syms o) /\
  o_nsplit o = Z.of_nat (count_occ Z.eq_dec (o_syms o) TOPOLOGY_S) /\
  Forall (fun x => In x [0; 1; 3; 5; 7]%Z) (o_syms o) /\
  Forall (fun e => match e with (src, spl, ed) => (0 <= spl < src)%Z /\ (src < o_nsyms o)%Z /\ (ed = 0 \/ ed = 1)%Z end) (o_events o) /\
  StronglySorted (fun e e' => (fst (fst e) <= fst (fst e'))%Z) (o_events o).

Theorem encode_from_holes vh niso ndeg : length vh = nh -> nf <> ndeg ->
  find_holes c2v opp nv = EOk (hid, vh) ->
  exists o, eb_encode c2v opp nv niso ndeg = EOk o /\ out_ok o /\
            o_nverts o = (Z.of_nat nv - Z.of_nat niso)%Z /\ o_nfaces o = (Z.of_nat nf - Z.of_nat ndeg)%Z.
Proof.
  intros Lh Nd FH. unfold eb_encode. rewrite NF_eq. apply Nat.eqb_neq in Nd. rewrite Nd. rewrite FH. cbn [ebind].
  rewrite NC_eq.
  destruct (ec_fold_ok (seq 0 (3 * nf))) with (done := @nil nat) (st := EOk (init_est nf nv vh, @nil bool, @nil nat))
    as (s & bits & inits & E & I & Fi & Cb & CL & DN & T3).
  - apply Forall_forall. intros x Hx. apply in_seq in Hx. lia.
  - exists (init_est nf nv vh), [], []. split; auto. split. apply init_Inv; auto. split; auto. split; auto.
    split; [|split; [intros i []|simpl; lia]]. intros x y (_ & Vx & _). cbn [init_est vf] in Vx. rewrite nth_repeat_false in Vx. discriminate.
  - rewrite E. cbn [ebind]. eexists. split; [reflexivity|]. split; [|split; reflexivity].
    destruct I as [B A1 A2 A3]. destruct B.
    unfold out_ok. cbn [o_pcc o_nsyms o_syms o_bits o_nsplit o_events].
    rewrite !rev_length, !count_occ_rev.
    split; [rewrite map_app; auto|].
    split.
    { apply Forall_forall. intros c Hc.
      assert (Hin : In (c / 3) (map (fun c => c / 3) (pcc s) ++ map (fun c => c / 3) (rev inits))).
      { rewrite <- map_app. apply (in_map (fun c => c / 3)). auto. }
      apply b_in0 in Hin. destruct Hin as [H1 H2].
      assert (Hlt : c < 3 * nf).
      { apply in_app_or in Hc. destruct Hc as [Hc|Hc]. rewrite Forall_forall in b_pcc0; auto.
        apply in_rev in Hc. rewrite Forall_forall in Fi; auto. }
      split; auto. apply (b_vis0 c Hlt H2). }
    split.
    { intros f Hf Df. rewrite map_app. apply b_in0. split; auto.
      replace f with ((3 * f) / 3) by (rewrite Nat.mul_comm; apply Nat.div_mul; lia).
      apply DN; try lia. apply in_or_app. left. apply -> in_rev. apply in_seq. lia.
      replace ((3 * f) / 3) with f by (symmetry; rewrite Nat.mul_comm; apply Nat.div_mul; lia). auto. }
    split; auto. split. { rewrite app_length, rev_length. lia. }
    split. { rewrite <- Cb. lia. }
    split. { rewrite b_split0. auto. }
    split. { apply Forall_rev. auto. }
    split. { apply Forall_rev. eapply Forall_impl; [|exact b_evs0]. intros [[a b] d]. lia. }
    apply sorted_rev; auto.
Qed.
End Core.

Lemma oiter_none f k : oiter f k None = None.
Proof. induction k; simpl; auto. rewrite IHk. auto. Qed.
Lemma oiter_add f a b x : oiter f (a + b) x = oiter f b (oiter f a x).
Proof.
  induction b; simpl. rewrite Nat.add_0_r. auto.
  rewrite Nat.add_succ_r. cbn [oiter]. rewrite IHb. auto.
Qed.

Section Holes.
Variables (c2v : list nat) (opp : list (option nat)) (nf nv : nat).
Hypothesis Hlen : length c2v = 3 * nf.
Hypothesis OK : opp_ok c2v opp.
Hypothesis Hv : forall c, c < 3 * nf -> vtx c2v c < nv.
Let n := 3 * nf.
Let sl := swing_left opp.
Let sr := swing_right opp.
Let srng := sr_rng c2v opp nf Hlen OK.
Let sinj := sr_inj c2v opp nf Hlen OK.

Lemma srng' a b : sr a = Some b -> b < 3 * nf.
Proof. intros H. apply srng in H. lia. Qed.

(* path reversal *)
Lemma sr_rev k : forall a b, oiter sr k (Some a) = Some b -> oiter sl k (Some b) = Some a.
Proof.
  induction k; intros a b H. simpl in *. congruence.
  cbn [oiter] in H. destruct (oiter sr k (Some a)) as [y|] eqn:E; [|discriminate].
  pose proof (sr_sl c2v opp nf Hlen OK _ _ H) as S1.
  replace (S k) with (1 + k) by lia. rewrite oiter_add. change (oiter sl 1 (Some b)) with (sl b). unfold sl at 2. rewrite S1. apply IHk. auto.
Qed.

(* a right chain that ends never returns to its start *)
Lemma ends_no_return x m : oiter sr m (Some x) = None -> forall i, 1 <= i -> oiter sr i (Some x) <> Some x.
Proof.
  intros Hm i Hi E. pose proof (sr_rev _ _ _ E) as R.
  exact (open_no_cycle sr sl (sl_sr c2v opp nf Hlen OK) m x Hm i Hi R).
Qed.

Lemma fi_swing_step k c : c < 3 * nf ->
  fi_swing opp (S k) c = match sr c with None => EOk c | Some c' => fi_swing opp k c' end.
Proof.
  intros Hc. cbn [fi_swing]. rewrite (e_opp_ok c2v opp nf Hlen OK (prev_c c)) by (apply prev_lt; auto). cbn [ebind].
  unfold sr, swing_right. destruct (opp_at opp (prev_c c)); auto.
Qed.

Lemma fi_swing_total x : x < 3 * nf -> (exists m, oiter sr m (Some x) = None) ->
  forall fuel k cur, (forall i, i <= k -> oiter sr i (Some x) <> None) -> oiter sr k (Some x) = Some cur -> 3 * nf < fuel + k ->
  exists y, fi_swing opp fuel cur = EOk y /\ reach sr x y /\ sr y = None /\ y < 3 * nf.
Proof.
  intros Hx [m Hm]. pose proof (ends_no_return x m Hm) as NR.
  induction fuel; intros k cur R E F.
  - assert (RR : running sr x k) by (split; auto; intros; apply NR; lia).
    pose proof (running_bound sr (length c2v) srng sinj x k ltac:(lia) RR). lia.
  - assert (Hcur : cur < 3 * nf). { destruct k. simpl in E. congruence. cbn [oiter] in E. destruct (oiter sr k (Some x)); [|discriminate]. eapply srng'; eauto. }
    rewrite fi_swing_step by auto. destruct (sr cur) as [c'|] eqn:Sw.
    + apply (IHfuel (S k)); try lia.
      * intros i Hi. destruct (Nat.eq_dec i (S k)); [subst; cbn [oiter]; rewrite E, Sw; discriminate|apply R; lia].
      * cbn [oiter]. rewrite E. auto.
    + exists cur. repeat split; auto. exists k. auto.
Qed.

Lemma fi_swing_ok x : x < 3 * nf -> (exists m, oiter sr m (Some x) = None) ->
  exists y, fi_swing opp (swing_fuel c2v) x = EOk y /\ reach sr x y /\ sr y = None /\ y < 3 * nf.
Proof.
  intros Hx Hm. apply (fi_swing_total x Hx Hm (swing_fuel c2v) 0 x); auto.
  - intros i Hi. replace i with 0 by lia. simpl. discriminate.
  - unfold swing_fuel, NC. lia.
Qed.

Lemma bnd_fi fuel : forall x, bnd_swing opp fuel (prev_c x) =
  match fi_swing opp fuel x with EOk y => EOk (prev_c y) | EFail => EFail | EOob => EOob | EFuel => EFuel end.
Proof.
  induction fuel; intros x; cbn [bnd_swing fi_swing]; auto.
  destruct (e_opp opp (prev_c x)) as [o| | |]; cbn [ebind]; auto.
  destruct o as [oc|]; auto. rewrite <- IHfuel. rewrite prev_prev. auto.
Qed.

(* vertices and degeneracy along a right chain *)
Lemma reach_same x y : reach sr x y -> vtx c2v y = vtx c2v x /\ (is_degenerated c2v (x / 3) = false -> is_degenerated c2v (y / 3) = false).
Proof.
  intros [k E]. revert y E. induction k; intros y E; simpl in E.
  - inversion E; subst; auto.
  - destruct (oiter sr k (Some x)) as [z|] eqn:Ez; [|discriminate]. destruct (IHk z eq_refl) as [A B].
    destruct (swing_right_ok c2v opp nf Hlen OK _ _ E) as (_ & V1 & D1 & _). split; [congruence|auto].
Qed.

(* a boundary corner j (no opposite): Previous(j) is the left end of its fan *)
Lemma bcorner_left j : opp_at opp j = None -> sl (prev_c j) = None.
Proof. intros H. unfold sl, swing_left. rewrite next_prev, H. auto. Qed.
Lemma left_ends x : x < 3 * nf -> sl x = None -> exists m, oiter sr m (Some x) = None.
Proof.
  intros Hx Hl.
  assert (NR : forall i, 1 <= i -> oiter sr i (Some x) <> Some x).
  { apply (open_no_cycle sl sr (sr_sl c2v opp nf Hlen OK) 1 x). simpl. auto. }
  assert (G : forall fuel k cur, running sr x k -> oiter sr k (Some x) = Some cur -> 3 * nf < fuel + k ->
              exists m, oiter sr m (Some x) = None).
  { induction fuel; intros k cur R E F.
    - pose proof (running_bound sr (length c2v) srng sinj x k ltac:(lia) R). lia.
    - destruct (sr cur) as [c'|] eqn:Sw.
      + apply (IHfuel (S k) c'); try lia.
        * apply (running_S sr (length c2v) srng sinj x k cur c' R E Sw). intro; subst c'.
          apply (NR (S k)); [lia|]. cbn [oiter]. rewrite E. auto.
        * cbn [oiter]. rewrite E. auto.
      + exists (S k). cbn [oiter]. rewrite E. auto. }
  apply (G (S (3 * nf)) 0 x); auto; try lia. apply (running_0 sr (length c2v) srng sinj x).
Qed.

(* the right end of the fan of a boundary corner's Previous corner: the next boundary corner *)
Lemma bnd_next j : j < 3 * nf -> opp_at opp j = None ->
  exists y, bnd_swing opp (swing_fuel c2v) (next_c j) = EOk (prev_c y) /\ reach sr (prev_c j) y /\ sr y = None /\ y < 3 * nf.
Proof.
  intros Hj Hb. rewrite <- (prev_prev j). rewrite bnd_fi.
  destruct (fi_swing_ok (prev_c j)) as (y & E & R & S1 & L).
  - apply prev_lt; auto.
  - apply left_ends. apply prev_lt; auto. apply bcorner_left; auto.
  - rewrite E. exists y. auto.
Qed.
Lemma sr_none_opp y : sr y = None -> opp_at opp (prev_c y) = None.
Proof. unfold sr, swing_right. destruct (opp_at opp (prev_c y)); [discriminate|auto]. Qed.

Definition bc (j : nat) : Prop := j < 3 * nf /\ is_degenerated c2v (j / 3) = false /\ opp_at opp j = None.

Lemma bc_next j : bc j -> exists y, bnd_swing opp (swing_fuel c2v) (next_c j) = EOk (prev_c y) /\ bc (prev_c y) /\
  vtx c2v y = vtx c2v (prev_c j) /\ reach sr (prev_c j) y /\ sr y = None.
Proof.
  intros (Hj & Hd & Ho). destruct (bnd_next j Hj Ho) as (y & E & R & S1 & L).
  exists y. split; auto. destruct (reach_same _ _ R) as [A B]. split; [|auto].
  split; [apply prev_lt; auto|]. split; [|apply sr_none_opp; auto].
  rewrite prev_face. apply B. rewrite prev_face. auto.
Qed.

Definition cntN (l : list (option nat)) : nat := length (filter (fun o => match o with None => true | Some _ => false end) l).
Lemma cntN_upd l i b : i < length l -> nth i l None = None -> S (cntN (upd l i (Some b))) = cntN l.
Proof.
  unfold cntN. revert i; induction l as [|a l]; intros i H E; simpl in *; [lia|].
  destruct i; simpl in *. subst a. simpl. auto.
  destruct a; simpl; auto. rewrite IHl; auto. lia. f_equal. apply IHl; auto. lia.
Qed.

Lemma fh_walk_ok bid : forall fuel hid c bv, length hid = nv -> bc c -> bv = vtx c2v (next_c c) -> cntN hid < fuel ->
  exists hid', fh_walk c2v opp fuel hid bid c bv = EOk hid' /\ length hid' = nv /\
    (forall v, nth v hid None <> None -> nth v hid' None = nth v hid None) /\
    (forall v, nth v hid None = None -> nth v hid' None <> None -> nth v hid' None = Some bid /\ exists j, bc j /\ vtx c2v (next_c j) = v) /\
    (nth bv hid None = None -> nth bv hid' None <> None).
Proof.
  induction fuel; intros hid c bv L B Ebv F; [lia|].
  assert (Hbv : bv < nv). { subst bv. apply Hv. apply next_lt. apply B. }
  cbn [fh_walk]. rewrite (eget_lt hid bv None) by lia. cbn [ebind].
  destruct (nth bv hid None) as [h|] eqn:Eh.
  - exists hid. repeat split; auto; try congruence.
  - rewrite (eset_lt hid bv) by lia. cbn [ebind].
    destruct (bc_next c B) as (y & E1 & B1 & V1 & _). rewrite E1. cbn [ebind].
    assert (Hy : next_c (prev_c y) < 3 * nf) by (apply next_lt; apply B1).
    rewrite (e_vertex_ok c2v nf Hlen _ Hy). cbn [ebind].
    destruct (IHfuel (upd hid bv (Some bid)) (prev_c y) (vtx c2v (next_c (prev_c y)))) as (hid' & R1 & R2 & R3 & R4 & R5); auto.
    { rewrite upd_length; auto. }
    { pose proof (cntN_upd hid bv bid ltac:(lia) Eh). lia. }
    exists hid'. split; auto. split; auto.
    assert (Hup : forall v, nth v (upd hid bv (Some bid)) None = if v =? bv then Some bid else nth v hid None).
    { intros v. rewrite nth_upd. destruct (v =? bv); simpl; auto. assert (bv <? length hid = true) by (apply Nat.ltb_lt; lia). rewrite H. auto. }
    split; [|split].
    + intros v Hn. rewrite R3. rewrite Hup. destruct (v =? bv) eqn:X; auto. apply Nat.eqb_eq in X. subst v. congruence.
      rewrite Hup. destruct (v =? bv); congruence.
    + intros v Hn Hs. destruct (v =? bv) eqn:X.
      * apply Nat.eqb_eq in X. subst v. rewrite R3 by (rewrite Hup, Nat.eqb_refl; discriminate). rewrite Hup, Nat.eqb_refl.
        split; auto. exists c. split; auto.
      * apply R4; auto. rewrite Hup, X. auto.
    + intros _. rewrite R3 by (rewrite Hup, Nat.eqb_refl; discriminate). rewrite Hup, Nat.eqb_refl. discriminate.
Qed.

Definition HI (hid : list (option nat)) (vh : list bool) : Prop :=
  length hid = nv /\ (forall v h, nth v hid None = Some h -> h < length vh) /\
  (forall v, nth v hid None <> None -> exists j, bc j /\ vtx c2v (next_c j) = v).

Lemma cntN_le l : cntN l <= length l.
Proof. unfold cntN. induction l as [|[]]; simpl; lia. Qed.

Lemma fh_corner_ok hid vh i : i < 3 * nf -> HI hid vh ->
  exists hid' vh', fh_corner c2v opp (EOk (hid, vh)) i = EOk (hid', vh') /\ HI hid' vh' /\
    (forall v, nth v hid None <> None -> nth v hid' None <> None) /\
    (bc i -> nth (vtx c2v (next_c i)) hid' None <> None).
Proof.
  intros Hi (L & R & W). unfold fh_corner. cbn [ebind].
  destruct (is_degenerated c2v (i / 3)) eqn:Ed.
  { exists hid, vh. split; auto. split; [split; auto|]. split; auto. intros (_ & X & _). congruence. }
  rewrite (e_opp_ok c2v opp nf Hlen OK i Hi). cbn [ebind].
  destruct (opp_at opp i) as [o|] eqn:Eo.
  { exists hid, vh. split; auto. split; [split; auto|]. split; auto. intros (_ & _ & X). congruence. }
  assert (B : bc i) by (split; auto).
  rewrite (e_vertex_ok c2v nf Hlen _ (next_lt _ _ Hi)). cbn [ebind].
  assert (Hbv : vtx c2v (next_c i) < nv) by (apply Hv; apply next_lt; auto).
  rewrite (eget_lt hid _ None) by lia. cbn [ebind].
  destruct (nth (vtx c2v (next_c i)) hid None) as [h|] eqn:Eh.
  { exists hid, vh. split; auto. split; [split; auto|]. split; auto. intros _. congruence. }
  destruct (fh_walk_ok (length vh) (S (length hid)) hid i (vtx c2v (next_c i)) L B eq_refl) as (hid' & R1 & R2 & R3 & R4 & R5).
  { pose proof (cntN_le hid). lia. }
  rewrite R1. cbn [ebind]. exists hid', (vh ++ [false]). split; auto. split; [|split].
  - split; auto. split.
    + intros v h Hh. rewrite app_length. simpl. destruct (nth v hid None) as [h0|] eqn:E0.
      * rewrite R3 in Hh by congruence. rewrite E0 in Hh. inversion Hh; subst. pose proof (R v h E0). lia.
      * destruct (R4 v E0 ltac:(congruence)) as [X _]. rewrite X in Hh. inversion Hh. lia.
    + intros v Hn. destruct (nth v hid None) as [h0|] eqn:E0.
      * apply W. congruence.
      * apply (R4 v E0 Hn).
  - intros v Hn. rewrite R3; auto.
  - intros _. auto.
Qed.

Lemma fh_fold_ok l : Forall (fun i => i < 3 * nf) l -> forall hid vh, HI hid vh ->
  exists hid' vh', fold_left (fh_corner c2v opp) l (EOk (hid, vh)) = EOk (hid', vh') /\ HI hid' vh' /\
    (forall v, nth v hid None <> None -> nth v hid' None <> None) /\
    (forall i, In i l -> bc i -> nth (vtx c2v (next_c i)) hid' None <> None).
Proof.
  induction 1 as [|i l Hi Hl IH]; intros hid vh I; cbn [fold_left].
  - exists hid, vh. split; [auto|]. split; [auto|]. split; [auto|]. intros i [].
  - destruct (fh_corner_ok hid vh i Hi I) as (h1 & v1 & E1 & I1 & M1 & B1).
    rewrite E1.
    destruct (IH h1 v1 I1) as (h2 & v2 & E2 & I2 & M2 & B2). exists h2, v2. split; auto. split; auto. split; auto.
    intros j [X|X] Bj; [subst j; auto|auto].
Qed.

Lemma nth_repeat_None k i : nth i (repeat (@None nat) k) None = None.
Proof. revert i; induction k; destruct i; simpl; auto. Qed.

Theorem find_holes_ok : exists hid vh, find_holes c2v opp nv = EOk (hid, vh) /\ HI hid vh /\
  (forall j, bc j -> nth (vtx c2v (next_c j)) hid None <> None /\ nth (vtx c2v (prev_c j)) hid None <> None).
Proof.
  unfold find_holes.
  destruct (fh_fold_ok (seq 0 (NC c2v))) with (hid := repeat (@None nat) nv) (vh := @nil bool) as (hid & vh & E & I & _ & B).
  - apply Forall_forall. intros x Hx. apply in_seq in Hx. unfold NC in Hx. lia.
  - split; [apply repeat_length|]. split; intros v; rewrite nth_repeat_None; congruence.
  - exists hid, vh. split; auto. split; auto. intros j Bj.
    assert (Hin : forall i, bc i -> In i (seq 0 (NC c2v))). { intros i (Hi & _). apply in_seq. unfold NC. lia. }
    split. apply B; auto.
    destruct (bc_next j Bj) as (y & _ & By & Vy & _). rewrite <- Vy. rewrite <- (next_prev y). apply B; auto.
Qed.

Hypothesis FAN : forall c c', c < 3 * nf -> c' < 3 * nf -> is_degenerated c2v (c / 3) = false ->
  is_degenerated c2v (c' / 3) = false -> vtx c2v c = vtx c2v c' -> reach sr c c' \/ reach sr c' c.

Lemma open_fan hid vh c : HI hid vh -> c < 3 * nf -> is_degenerated c2v (c / 3) = false ->
  nth (vtx c2v c) hid None <> None -> exists m, oiter sr m (Some c) = None.
Proof.
  intros (_ & _ & W) Hc Hd Hn. destruct (W _ Hn) as (j & (Hj & Dj & Oj) & Vj).
  assert (Sy : sr (next_c j) = None) by (unfold sr, swing_right; rewrite prev_next, Oj; auto).
  destruct (FAN c (next_c j)) as [[k E]|[k E]]; auto.
  - apply next_lt; auto.
  - rewrite next_face; auto.
  - exists (S k). cbn [oiter]. rewrite E. auto.
  - destruct k. simpl in E. inversion E; subst. exists 1. simpl. auto.
    rewrite oiter_shift, Sy, oiter_none in E. discriminate.
Qed.

Variables (hid : list (option nat)) (vh : list bool).
Hypothesis HHI : HI hid vh.

Lemma find_init_ok f : f < nf -> is_degenerated c2v f = false ->
  exists start interior, find_init c2v opp hid f = EOk (start, interior) /\ start < 3 * nf /\
    (interior = true -> start / 3 = f /\
       forall x, x < 3 * nf -> x / 3 = f -> opp_at opp x <> None /\ nth (vtx c2v x) hid None = None) /\
    (interior = false -> is_degenerated c2v (start / 3) = false /\ opp_at opp start = None /\
       exists c y, c / 3 = f /\ c < 3 * nf /\ y < 3 * nf /\ vtx c2v c = vtx c2v y /\
                   is_degenerated c2v (y / 3) = false /\ start = prev_c y).
Proof.
  intros Hf Hd. unfold find_init.
  assert (G : forall k c, c < 3 * nf -> c / 3 = f ->
     exists start interior, fi_loop c2v opp hid k c = EOk (start, interior) /\ start < 3 * nf /\
       (interior = true -> start = Nat.iter k next_c c /\
          forall i, i < k -> opp_at opp (Nat.iter i next_c c) <> None /\ nth (vtx c2v (Nat.iter i next_c c)) hid None = None) /\
       (interior = false -> is_degenerated c2v (start / 3) = false /\ opp_at opp start = None /\
          exists c y, c / 3 = f /\ c < 3 * nf /\ y < 3 * nf /\ vtx c2v c = vtx c2v y /\
                      is_degenerated c2v (y / 3) = false /\ start = prev_c y)).
  { induction k; intros c Hc Hcf.
    - exists c, true. cbn [fi_loop]. split; auto. split; auto. split; [|discriminate]. intros _. split; auto. intros i Hi. lia.
    - cbn [fi_loop]. rewrite (e_opp_ok c2v opp nf Hlen OK c Hc). cbn [ebind].
      destruct (opp_at opp c) as [o|] eqn:Eo.
      2:{ exists c, false. split; auto. split; auto. split; [discriminate|]. intros _. split; [rewrite Hcf; auto|]. split; auto.
          exists (next_c c), (next_c c). rewrite next_face, prev_next. repeat split; auto. apply next_lt; auto. apply next_lt; auto. rewrite Hcf; auto. }
      rewrite (e_vertex_ok c2v nf Hlen c Hc). cbn [ebind].
      rewrite (eget_lt hid _ None) by (destruct HHI as (L & _); rewrite L; apply Hv; auto). cbn [ebind].
      destruct (nth (vtx c2v c) hid None) as [h|] eqn:Eh.
      + destruct (fi_swing_ok c Hc) as (y & E & R & S1 & L).
        { apply (open_fan hid vh); auto. rewrite Hcf; auto. congruence. }
        rewrite E. cbn [ebind]. exists (prev_c y), false. split; auto. split; [apply prev_lt; auto|].
        split; [discriminate|]. intros _. destruct (reach_same _ _ R) as [Vy Dy]. specialize (Dy ltac:(rewrite Hcf; auto)).
        split; [rewrite prev_face; auto|]. split; [apply sr_none_opp; auto|].
        exists c, y. repeat split; auto.
      + destruct (IHk (next_c c)) as (st & it & E & L & A & B).
        * apply next_lt; auto.
        * rewrite next_face; auto.
        * assert (Sh : forall m x, Nat.iter (S m) next_c x = Nat.iter m next_c (next_c x)).
          { clear. induction m; intros; simpl; auto. simpl in IHm. rewrite IHm. auto. }
          exists st, it. split; auto. split; auto. split; auto. intros X. destruct (A X) as [A1 A2]. split.
          -- rewrite Sh. auto.
          -- intros i Hi. destruct i. simpl. split; congruence.
             rewrite Sh. apply A2. lia. }
  destruct (G 3 (3 * f)) as (st & it & E & L & A & B).
  - lia.
  - rewrite Nat.mul_comm. apply Nat.div_mul. lia.
  - exists st, it. split; auto. split; auto. split; auto. intros X. destruct (A X) as [A1 A2].
    assert (S3 : st = 3 * f).
    { rewrite A1. change (Nat.iter 3 next_c (3 * f)) with (next_c (next_c (next_c (3 * f)))). rewrite next_0, next_1, next_2. auto. }
    clear A1. subst st. split; [replace (3 * f) with (f * 3) by lia; apply Nat.div_mul; lia|].
    destruct (A2 0 ltac:(lia)) as [P0 Q0]. destruct (A2 1 ltac:(lia)) as [P1 Q1]. destruct (A2 2 ltac:(lia)) as [P2 Q2].
    change (Nat.iter 0 next_c (3 * f)) with (3 * f) in *.
    change (Nat.iter 1 next_c (3 * f)) with (next_c (3 * f)) in *.
    change (Nat.iter 2 next_c (3 * f)) with (next_c (next_c (3 * f))) in *.
    rewrite next_0 in *. rewrite next_1 in *.
    intros x Hx Fx. destruct (corner_cases x) as [Y|[Y|Y]]; rewrite Fx in Y; rewrite Y; auto.
Qed.

(* ---- the boundary walk of EncodeHole *)
Lemma leftmost_unique x x' y : reach sr x y -> reach sr x' y -> sl x = None -> sl x' = None -> x = x'.
Proof.
  assert (G : forall k d x x', oiter sl k (Some y) = Some x -> oiter sl (k + d) (Some y) = Some x' -> sl x = None -> x = x').
  { intros k d a a' E1 E2 Sa. rewrite oiter_add, E1 in E2. destruct d. simpl in E2. congruence.
    rewrite oiter_shift, Sa, oiter_none in E2. discriminate. }
  intros [k E] [k' E'] S1 S2. apply sr_rev in E. apply sr_rev in E'.
  destruct (le_lt_dec k k').
  - apply (G k (k' - k) x x'); auto. replace (k + (k' - k)) with k' by lia. auto.
  - symmetry. apply (G k' (k - k') x' x); auto. replace (k' + (k - k')) with k by lia. auto.
Qed.

Definition bf (c : nat) : option nat :=
  if c <? 3 * nf then
    match opp_at opp c with
    | Some _ => None
    | None => match bnd_swing opp (swing_fuel c2v) (next_c c) with EOk c' => Some c' | _ => None end
    end
  else None.

Lemma bf_spec a b : bf a = Some b -> a < 3 * nf /\ opp_at opp a = None /\
  exists y, b = prev_c y /\ reach sr (prev_c a) y /\ sr y = None /\ y < 3 * nf.
Proof.
  unfold bf. destruct (a <? 3 * nf) eqn:L; [|discriminate]. apply Nat.ltb_lt in L.
  destruct (opp_at opp a) eqn:Eo; [discriminate|]. destruct (bnd_next a L Eo) as (y & E & R & S1 & Ly).
  rewrite E. intros H; inversion H; subst. repeat split; auto. exists y. auto.
Qed.
Lemma bf_rng a b : bf a = Some b -> b < length c2v.
Proof. intros H. destruct (bf_spec _ _ H) as (_ & _ & y & -> & _ & _ & L). rewrite Hlen. apply prev_lt; auto. Qed.
Lemma bf_inj a a' b : bf a = Some b -> bf a' = Some b -> a = a'.
Proof.
  intros H H'. destruct (bf_spec _ _ H) as (_ & O1 & y & E1 & R1 & _). destruct (bf_spec _ _ H') as (_ & O2 & y' & E2 & R2 & _).
  assert (y = y') by (rewrite <- (next_prev y), <- (next_prev y'); congruence). subst y'.
  assert (prev_c a = prev_c a') by (eapply leftmost_unique; eauto; apply bcorner_left; auto).
  rewrite <- (next_prev a), <- (next_prev a'). congruence.
Qed.

Lemma eh_walk_ok c0 start_v : bc c0 -> start_v = vtx c2v (next_c c0) ->
  forall fuel k c vvl, running bf c0 k -> oiter bf k (Some c0) = Some c -> bc c -> 3 * nf < fuel + k -> length vvl = nv ->
  exists vvl', eh_walk c2v opp fuel vvl c (vtx c2v (prev_c c)) start_v = EOk vvl' /\ vle vvl vvl' /\
    (vtx c2v (prev_c c) <> start_v -> nth (vtx c2v (prev_c c)) vvl' false = true).
Proof.
  intros B0 Es. induction fuel; intros k c vvl R E B F L.
  - pose proof (running_bound bf (length c2v) bf_rng bf_inj c0 k ltac:(destruct B0; lia) R). lia.
  - cbn [eh_walk]. destruct (vtx c2v (prev_c c) =? start_v) eqn:Eq.
    + exists vvl. split; auto. split; [apply vle_refl|]. apply Nat.eqb_eq in Eq. congruence.
    + apply Nat.eqb_neq in Eq.
      assert (Ha : vtx c2v (prev_c c) < nv) by (apply Hv; apply prev_lt; apply B).
      rewrite (eset_lt vvl) by lia. cbn [ebind].
      destruct (bc_next c B) as (y & E1 & B1 & V1 & R1 & S1). rewrite E1. cbn [ebind].
      rewrite (e_vertex_ok c2v nf Hlen (prev_c (prev_c y))) by (apply prev_lt; apply B1). cbn [ebind].
      assert (Bf : bf c = Some (prev_c y)).
      { unfold bf. destruct B as (Lc & _ & Oc). apply Nat.ltb_lt in Lc. rewrite Lc, Oc, E1. auto. }
      assert (Ne : prev_c y <> c0).
      { intro X. apply Eq. rewrite Es, <- X, next_prev. auto. }
      destruct (IHfuel (S k) (prev_c y) (upd vvl (vtx c2v (prev_c c)) true)) as (vvl' & W1 & W2 & W3); auto.
      * apply (running_S bf (length c2v) bf_rng bf_inj c0 k c (prev_c y) R E Bf Ne).
      * cbn [oiter]. rewrite E. auto.
      * lia.
      * rewrite upd_length; auto.
      * exists vvl'. split; auto. split. eapply vle_trans; [apply vle_upd|exact W2].
        intros _. apply W2. apply nth_upd_eq. lia.
Qed.

Theorem encode_hole_ok s c first : length (vv s) = nv -> length (vhole s) = length vh -> c < 3 * nf ->
  is_degenerated c2v (c / 3) = false -> nth (vtx c2v c) hid None <> None ->
  exists vv' vh', encode_hole c2v opp hid s c first = EOk (with_vhole (with_vv s vv') vh') /\
     vle (vv s) vv' /\ length vh' = length vh /\
     (first = true -> nth (vtx c2v c) vv' false = true /\
        (opp_at opp (prev_c c) = None -> nth (vtx c2v (prev_c (prev_c c))) vv' false = true)).
Proof.
  intros Lv Lh Hc Hd Hn. unfold encode_hole.
  destruct (fi_swing_ok c Hc (open_fan hid vh c HHI Hc Hd Hn)) as (y & E & R & S1 & Ly).
  rewrite bnd_fi, E. cbn [ebind].
  destruct (reach_same _ _ R) as [Vy Dy]. specialize (Dy Hd).
  assert (B0 : bc (prev_c y)). { split; [apply prev_lt; auto|]. split; [rewrite prev_face; auto|apply sr_none_opp; auto]. }
  rewrite (e_vertex_ok c2v nf Hlen c Hc). cbn [ebind].
  pose proof (Hv c Hc) as Hvc.
  set (vvl1 := if first then upd (vv s) (vtx c2v c) true else vv s).
  assert (E1 : (if first then eset (vv s) (vtx c2v c) true else EOk (vv s)) = EOk vvl1).
  { unfold vvl1. destruct first; auto. apply eset_lt. lia. }
  rewrite E1. cbn [ebind].
  assert (M1 : vle (vv s) vvl1) by (unfold vvl1; destruct first; [apply vle_upd|apply vle_refl]).
  destruct HHI as (Lhid & Rh & _).
  rewrite (eget_lt hid _ None) by lia. cbn [ebind].
  destruct (nth (vtx c2v c) hid None) as [hole|] eqn:Eh; [|congruence].
  rewrite (eset_lt (vhole s)) by (rewrite Lh; eapply Rh; eauto). cbn [ebind].
  rewrite (e_vertex_ok c2v nf Hlen (next_c (prev_c y))) by (apply next_lt; apply B0). cbn [ebind].
  rewrite (e_vertex_ok c2v nf Hlen (prev_c (prev_c y))) by (apply prev_lt; apply B0). cbn [ebind].
  destruct (eh_walk_ok (prev_c y) (vtx c2v c) B0 ltac:(rewrite next_prev; auto) (swing_fuel c2v) 0 (prev_c y) vvl1) as (vvl2 & W1 & W2 & W3).
  - apply (running_0 bf (length c2v) bf_rng bf_inj).
  - reflexivity.
  - auto.
  - unfold swing_fuel, NC. lia.
  - destruct M1. lia.
  - rewrite W1. cbn [ebind]. eexists _, _. split; [reflexivity|]. split; [eapply vle_trans; eauto|].
    split; [rewrite upd_length; auto|].
    intros ->. split.
    + apply W2. unfold vvl1. apply nth_upd_eq. lia.
    + intros Op. assert (y = c).
      { destruct R as [k Ek]. destruct k. simpl in Ek. congruence.
        rewrite oiter_shift in Ek. unfold sr at 2 in Ek. unfold swing_right in Ek. rewrite Op, oiter_none in Ek. discriminate. }
      subst y. destruct (Nat.eq_dec (vtx c2v (prev_c (prev_c c))) (vtx c2v c)) as [X|X].
      * rewrite X. apply W2. unfold vvl1. apply nth_upd_eq. lia.
      * apply W3. auto.
Qed.
End Holes.

(** * Walks in a closed orbit of a partial injection with inverse *)
Section Cyc.
Variables (f g : nat -> option nat) (n : nat) (P : nat -> Prop).
Hypothesis Hfg : forall a b, f a = Some b -> g b = Some a.
Hypothesis Hgf : forall a b, g a = Some b -> f b = Some a.
Hypothesis Hrng : forall a b, f a = Some b -> b < n.
Hypothesis Pf : forall a, P a -> exists b, f a = Some b /\ P b.
Hypothesis Pg : forall a, P a -> exists b, g a = Some b /\ P b.
Hypothesis Plt : forall a, P a -> a < n.

Lemma cyc_inj a a' b : f a = Some b -> f a' = Some b -> a = a'.
Proof. intros H1 H2. apply Hfg in H1, H2. congruence. Qed.

Lemma cyc_all a i : P a -> exists b, oiter f i (Some a) = Some b /\ P b.
Proof.
  intros Pa. induction i. exists a; auto. destruct IHi as (b & E & Pb). destruct (Pf b Pb) as (b' & E' & Pb').
  exists b'. cbn [oiter]. rewrite E. auto.
Qed.

Lemma cyc_period a : P a -> exists p, 1 <= p /\ oiter f p (Some a) = Some a.
Proof.
  intros Pa.
  assert (G : forall fuel k, running f a k -> n < fuel + k -> exists p, 1 <= p /\ oiter f p (Some a) = Some a).
  { induction fuel; intros k R F.
    - pose proof (running_bound f n Hrng cyc_inj a k (Plt a Pa) R). lia.
    - destruct (cyc_all a k Pa) as (cur & E & Pc). destruct (Pf cur Pc) as (nx & E' & Pn).
      destruct (Nat.eq_dec nx a).
      + subst nx. exists (S k). split; [lia|]. cbn [oiter]. rewrite E. auto.
      + apply (IHfuel (S k)); [|lia]. apply (running_S f n Hrng cyc_inj a k cur nx R E E' n0). }
  apply (G (S n) 0); [apply (running_0 f n Hrng cyc_inj)|lia].
Qed.

Lemma reach_trans (h : nat -> option nat) a b c : reach h a b -> reach h b c -> reach h a c.
Proof. intros [k E] [k' E']. exists (k + k'). rewrite oiter_add, E. auto. Qed.

Lemma cyc_back a z : P a -> g a = Some z -> reach f a z.
Proof.
  intros Pa Ez. destruct (cyc_period a Pa) as (p & Hp & E). destruct p; [lia|].
  cbn [oiter] in E. destruct (oiter f p (Some a)) as [w|] eqn:Ew; [|discriminate].
  pose proof (Hgf _ _ Ez) as Fz. assert (w = z) by (eapply cyc_inj; eauto). subst w. exists p. auto.
Qed.

Lemma cyc_reach a z : P a -> reach g a z -> reach f a z.
Proof.
  intros Pa [k E]. revert z E. induction k; intros z E.
  - simpl in E. inversion E; subst. exists 0. auto.
  - cbn [oiter] in E. destruct (oiter g k (Some a)) as [y|] eqn:Ey; [|discriminate].
    eapply reach_trans; [apply IHk; reflexivity|].
    assert (Py : P y).
    { clear -Ey Pa Pg. revert y Ey. induction k; intros y Ey. simpl in Ey. inversion Ey; subst; auto.
      cbn [oiter] in Ey. destruct (oiter g k (Some a)) as [w|] eqn:Ew; [|discriminate].
      destruct (Pg w (IHk w eq_refl)) as (b & Eb & Pb). congruence. }
    apply cyc_back; auto.
Qed.

(* along a walk from a visited corner to an unvisited one: the last visited corner before the first unvisited one *)
Lemma first_unvisited (vis : nat -> bool) a z : reach f a z -> vis a = true -> vis z = false ->
  exists a' b, reach f a a' /\ vis a' = true /\ f a' = Some b /\ vis b = false.
Proof.
  intros [k E]. revert z E. induction k; intros z E Va Vz.
  - simpl in E. inversion E; subst. congruence.
  - cbn [oiter] in E. destruct (oiter f k (Some a)) as [y|] eqn:Ey; [|discriminate].
    destruct (vis y) eqn:Vy.
    + exists y, z. split; [exists k; auto|auto].
    + apply (IHk y); auto.
Qed.
End Cyc.

Section Closure.
Variables (c2v : list nat) (opp : list (option nat)) (nf : nat) (hid : list (option nat)).
Hypothesis Hlen : length c2v = 3 * nf.
Hypothesis OK : opp_ok c2v opp.
Hypothesis FAN : forall c c', c < 3 * nf -> c' < 3 * nf -> is_degenerated c2v (c / 3) = false ->
  is_degenerated c2v (c' / 3) = false -> vtx c2v c = vtx c2v c' ->
  reach (swing_right opp) c c' \/ reach (swing_right opp) c' c.
Hypothesis Hhb : forall j, j < 3 * nf -> is_degenerated c2v (j / 3) = false -> opp_at opp j = None ->
  nth (vtx c2v (next_c j)) hid None <> None /\ nth (vtx c2v (prev_c j)) hid None <> None.
Let sl := swing_left opp.
Let sr := swing_right opp.
Let nd (c : nat) := is_degenerated c2v (c / 3) = false.

(** ** `visited` propagates around a vertex when no visited face has an unvisited neighbour *)
Lemma closed_sr vfl x x' : CLOSED opp nf vfl -> x < 3 * nf -> sr x = Some x' ->
  (nth (x / 3) vfl false = true <-> nth (x' / 3) vfl false = true).
Proof.
  intros CL Hx E. unfold sr, swing_right in E. destruct (opp_at opp (prev_c x)) as [o|] eqn:Eo; [|discriminate].
  inversion E; subst x'. destruct (opp_facts c2v opp nf Hlen OK _ _ Eo) as (Eo' & L1 & L2 & _).
  rewrite prev_face. split; intros Hvis.
  - destruct (nth (o / 3) vfl false) eqn:Q; auto. exfalso. apply (CL (prev_c x) o). repeat split; auto. rewrite prev_face; auto.
  - destruct (nth (x / 3) vfl false) eqn:Q; auto. exfalso. apply (CL o (prev_c x)). repeat split; auto. rewrite prev_face; auto.
Qed.

Lemma closed_reach vfl a b : CLOSED opp nf vfl -> a < 3 * nf -> reach sr a b ->
  (nth (a / 3) vfl false = true <-> nth (b / 3) vfl false = true).
Proof.
  intros CL Ha [k E]. revert b E. induction k; intros b E.
  - simpl in E. inversion E; subst. tauto.
  - cbn [oiter] in E. destruct (oiter sr k (Some a)) as [y|] eqn:Ey; [|discriminate].
    rewrite (IHk y eq_refl). apply closed_sr; auto.
    destruct k. simpl in Ey. inversion Ey; subst; auto.
    cbn [oiter] in Ey. destruct (oiter sr k (Some a)); [|discriminate]. apply (sr_rng c2v opp nf Hlen OK) in Ey. lia.
Qed.

Theorem fan_closed vfl a b : CLOSED opp nf vfl -> a < 3 * nf -> b < 3 * nf -> nd a -> nd b -> vtx c2v a = vtx c2v b ->
  nth (a / 3) vfl false = true -> nth (b / 3) vfl false = true.
Proof.
  intros CL Ha Hb Da Db Ev Hvis. destruct (FAN a b Ha Hb Da Db Ev) as [R|R].
  - apply (closed_reach vfl a b CL Ha R). auto.
  - apply (closed_reach vfl b a CL Hb R). auto.
Qed.

(** ** the fan of a vertex that is not on a boundary is a closed cycle *)
Definition PV (t : nat) (a : nat) : Prop := a < 3 * nf /\ nd a /\ vtx c2v a = t.

Lemma int_sl t a : nth t hid None = None -> PV t a -> exists b, sl a = Some b /\ PV t b.
Proof.
  intros Ht (Ha & Da & Va). unfold sl, swing_left. destruct (opp_at opp (next_c a)) as [o|] eqn:Eo.
  - exists (next_c o). split; auto.
    assert (S1 : swing_left opp a = Some (next_c o)) by (unfold swing_left; rewrite Eo; auto).
    destruct (swing_left_ok c2v opp nf Hlen OK _ _ S1) as (L & V1 & D1 & _). repeat split; auto; [lia|congruence].
  - exfalso. destruct (Hhb (next_c a)) as [_ X]; auto. apply next_lt; auto. unfold nd in Da. rewrite next_face; auto.
    rewrite prev_next, Va in X. congruence.
Qed.
Lemma int_sr t a : nth t hid None = None -> PV t a -> exists b, sr a = Some b /\ PV t b.
Proof.
  intros Ht (Ha & Da & Va). unfold sr, swing_right. destruct (opp_at opp (prev_c a)) as [o|] eqn:Eo.
  - exists (prev_c o). split; auto.
    assert (S1 : swing_right opp a = Some (prev_c o)) by (unfold swing_right; rewrite Eo; auto).
    destruct (swing_right_ok c2v opp nf Hlen OK _ _ S1) as (L & V1 & D1 & _). repeat split; auto; [lia|congruence].
  - exfalso. destruct (Hhb (prev_c a)) as [X _]; auto. apply prev_lt; auto. unfold nd in Da. rewrite prev_face; auto.
    rewrite next_prev, Va in X. congruence.
Qed.

Lemma sl_rng' a b : sl a = Some b -> b < 3 * nf.
Proof. intros H. apply (sl_rng c2v opp nf Hlen OK) in H. lia. Qed.
Lemma sr_rng' a b : sr a = Some b -> b < 3 * nf.
Proof. intros H. apply (sr_rng c2v opp nf Hlen OK) in H. lia. Qed.

Lemma sr_rev' k : forall a b, oiter sr k (Some a) = Some b -> oiter sl k (Some b) = Some a.
Proof.
  induction k; intros a b H. simpl in *. congruence.
  cbn [oiter] in H. destruct (oiter sr k (Some a)) as [y|] eqn:E; [|discriminate].
  pose proof (sr_sl c2v opp nf Hlen OK _ _ H) as S1.
  replace (S k) with (1 + k) by lia. rewrite oiter_add. change (oiter sl 1 (Some b)) with (sl b). unfold sl at 2. rewrite S1. apply IHk. auto.
Qed.
Lemma fan_reach_sl t a z : nth t hid None = None -> PV t a -> PV t z -> reach sl a z.
Proof.
  intros Ht Pa Pz. destruct Pa as (Ha & Da & Va). destruct Pz as (Hz & Dz & Vz).
  destruct (FAN a z Ha Hz Da Dz ltac:(congruence)) as [R|R].
  - apply (cyc_reach sl sr (3 * nf) (PV t) (sl_sr c2v opp nf Hlen OK) (sr_sl c2v opp nf Hlen OK) sl_rng'
             (fun x => int_sl t x Ht) (fun x => int_sr t x Ht) ltac:(intros x Px; apply Px)); auto. repeat split; auto.
  - destruct R as [k E]. exists k. apply sr_rev'. auto.
Qed.
Lemma sl_rev k : forall a b, oiter sl k (Some a) = Some b -> oiter sr k (Some b) = Some a.
Proof.
  induction k; intros a b H. simpl in *. congruence.
  cbn [oiter] in H. destruct (oiter sl k (Some a)) as [y|] eqn:E; [|discriminate].
  pose proof (sl_sr c2v opp nf Hlen OK _ _ H) as S1.
  replace (S k) with (1 + k) by lia. rewrite oiter_add. change (oiter sr 1 (Some b)) with (sr b). unfold sr at 2. rewrite S1. apply IHk. auto.
Qed.
Lemma fan_reach_sr t a z : nth t hid None = None -> PV t a -> PV t z -> reach sr a z.
Proof.
  intros Ht Pa Pz. destruct Pa as (Ha & Da & Va). destruct Pz as (Hz & Dz & Vz).
  destruct (FAN a z Ha Hz Da Dz ltac:(congruence)) as [R|R]; auto.
  apply (cyc_reach sr sl (3 * nf) (PV t) (sr_sl c2v opp nf Hlen OK) (sl_sr c2v opp nf Hlen OK) sr_rng'
           (fun x => int_sr t x Ht) (fun x => int_sl t x Ht) ltac:(intros x Px; apply Px)); [repeat split; auto|].
  destruct R as [k E]. exists k. apply sr_rev'. auto.
Qed.

Lemma reach_PV_sl t a b : nth t hid None = None -> PV t a -> reach sl a b -> PV t b.
Proof.
  intros Ht Pa [k E]. revert b E. induction k; intros b E. simpl in E. inversion E; subst; auto.
  cbn [oiter] in E. destruct (oiter sl k (Some a)) as [y|] eqn:Ey; [|discriminate].
  destruct (int_sl t y Ht (IHk y eq_refl)) as (b' & E' & Pb). fold sl in E. congruence.
Qed.
Lemma reach_PV_sr t a b : nth t hid None = None -> PV t a -> reach sr a b -> PV t b.
Proof.
  intros Ht Pa [k E]. revert b E. induction k; intros b E. simpl in E. inversion E; subst; auto.
  cbn [oiter] in E. destruct (oiter sr k (Some a)) as [y|] eqn:Ey; [|discriminate].
  destruct (int_sr t y Ht (IHk y eq_refl)) as (b' & E' & Pb). fold sr in E. congruence.
Qed.

Lemma same_face_vertex a b : a / 3 = b / 3 -> vtx c2v a = vtx c2v b -> nd b -> a = b.
Proof.
  intros F Ev D. destruct (nondeg_corner _ _ D) as (N1 & N2 & _).
  destruct (face_corners _ _ F) as [X|[X|X]]; auto; subst a; congruence.
Qed.

Lemma NoDup_map_inj {A} (h : A -> nat) l a b : NoDup (map h l) -> In a l -> In b l -> h a = h b -> a = b.
Proof.
  induction l as [|x l IH]; simpl; intros N Ia Ib E; [tauto|]. inversion N; subst.
  destruct Ia as [Ia|Ia], Ib as [Ib|Ib]; subst; auto.
  - exfalso. apply H1. rewrite E. apply in_map. auto.
  - exfalso. apply H1. rewrite <- E. apply in_map. auto.
Qed.

Section End_of_run.
Variables (sf : option nat) (cl new : list nat) (vfl : list bool).
Hypothesis RP : RunP c2v opp nf hid sf None cl new vfl [].
Hypothesis ND : NoDup (map (fun c => c / 3) new).
Hypothesis VN : forall x, x < 3 * nf -> nth (x / 3) vfl false = true -> nd x.
Let vis (a : nat) : bool := nth (a / 3) vfl false.

(* walking around the interior vertex t from a visited corner towards an unvisited one, to the left / to the right *)
Lemma walk_l t p0 z : nth t hid None = None -> PV t p0 -> vis p0 = true -> PV t z -> vis z = false ->
  exists a' o, PV t a' /\ vis a' = true /\ openc opp nf vfl (next_c a') o.
Proof.
  intros Ht P0 V0 Pz Vz.
  destruct (first_unvisited sl vis p0 z (fan_reach_sl t p0 z Ht P0 Pz) V0 Vz) as (a' & b & R & Va & Sb & Vb).
  pose proof (reach_PV_sl t p0 a' Ht P0 R) as Pa. exists a'.
  unfold sl, swing_left in Sb. destruct (opp_at opp (next_c a')) as [o|] eqn:Eo; [|discriminate]. inversion Sb; subst b.
  exists o. split; auto. split; auto. destruct Pa as (La & _). unfold vis in *. rewrite next_face in Vb.
  repeat split; auto. apply next_lt; auto. rewrite next_face; auto.
Qed.
Lemma walk_r t p0 z : nth t hid None = None -> PV t p0 -> vis p0 = true -> PV t z -> vis z = false ->
  exists a' o, PV t a' /\ vis a' = true /\ openc opp nf vfl (prev_c a') o.
Proof.
  intros Ht P0 V0 Pz Vz.
  destruct (first_unvisited sr vis p0 z (fan_reach_sr t p0 z Ht P0 Pz) V0 Vz) as (a' & b & R & Va & Sb & Vb).
  pose proof (reach_PV_sr t p0 a' Ht P0 R) as Pa. exists a'.
  unfold sr, swing_right in Sb. destruct (opp_at opp (prev_c a')) as [o|] eqn:Eo; [|discriminate]. inversion Sb; subst b.
  exists o. split; auto. split; auto. destruct Pa as (La & _). unfold vis in *. rewrite prev_face in Vb.
  repeat split; auto. apply prev_lt; auto. rewrite prev_face; auto.
Qed.

Lemma def_end x y : openc opp nf vfl x y -> deferred sf cl x.
Proof.
  intros Op. destruct (r_def _ _ _ _ _ _ _ _ _ _ RP x y Op) as [X|[X|X]]; auto. discriminate X. destruct X.
Qed.

(* the left edge of a C face is never open at the end: take the LAST processed C face with an open left edge *)
Lemma no_open_C : forall k l1 c' l2, new = l1 ++ c' :: l2 -> length l1 <= k -> In c' cl -> forall y, ~ openc opp nf vfl (prev_c c') y.
Proof.
  induction k as [k IH] using lt_wf_ind. intros l1 c' l2 En Lk Hin y Op.
  destruct (r_cf _ _ _ _ _ _ _ _ _ _ RP c' Hin) as (Lc & Dc & Hc).
  destruct Op as (Lx & Vx & Ox & Vy). rewrite prev_face in Vx.
  destruct (opp_facts c2v opp nf Hlen OK _ _ Ox) as (_ & _ & Ly & _ & Dy & _ & V1 & _). rewrite next_prev in V1.
  set (t := vtx c2v c') in *.
  assert (Pz : PV t (prev_c y)). { split; [apply prev_lt; auto|]. split; [unfold nd; rewrite prev_face; auto|auto]. }
  assert (P0 : PV t c') by (repeat split; auto).
  destruct (walk_l t c' (prev_c y) Hc P0 Vx Pz ltac:(unfold vis; rewrite prev_face; auto)) as (a' & o & Pa & Va & Op2).
  destruct Pa as (La & Da & Vta).
  assert (FRa : In (a' / 3) (map (fun c => c / 3) (l1 ++ [c']))).
  { apply (r_fr _ _ _ _ _ _ _ _ _ _ RP l1 c' l2 En Hin a'); auto. }
  destruct (def_end _ _ Op2) as [(c'' & Hin2 & E2)|(ci & Es & E2)].
  - assert (Ec : c'' = prev_c a'). { rewrite <- (next_prev c''), <- E2, next_next. auto. }
    assert (Hn1 : In c' new) by (apply (r_cl _ _ _ _ _ _ _ _ _ _ RP); auto).
    assert (Hn2 : In c'' new) by (apply (r_cl _ _ _ _ _ _ _ _ _ _ RP); auto).
    rewrite map_app in FRa. apply in_app_or in FRa. destruct FRa as [F1|F1].
    + (* a later C face: descend *)
      assert (Hl1 : In c'' l1).
      { rewrite En in Hn2. apply in_app_or in Hn2. destruct Hn2 as [X|X]; auto. exfalso.
        rewrite En, map_app in ND. assert (Y : In (c'' / 3) (map (fun c => c / 3) (c' :: l2))) by (apply (in_map (fun c => c / 3)); auto).
        rewrite Ec, prev_face in Y. clear -ND F1 Y. induction (map (fun c => c / 3) l1) as [|h r IHr]; simpl in *; [tauto|].
        inversion ND; subst. destruct F1 as [F1|F1]; [subst; apply H1; apply in_or_app; auto|auto]. }
      destruct (in_split _ _ Hl1) as (m1 & m2 & Em). subst l1.
      apply (IH (length m1)) with (l1 := m1) (c' := c'') (l2 := m2 ++ c' :: l2) (y := o); auto.
      * rewrite app_length in Lk. simpl in Lk. lia.
      * rewrite En, <- app_assoc. auto.
      * rewrite <- E2. auto.
    + simpl in F1. destruct F1 as [F1|[]].
      assert (Hcc : c'' = c'). { apply (NoDup_map_inj (fun c => c / 3) new); auto. rewrite Ec, prev_face. auto. }
      rewrite Hcc in Ec. destruct (nondeg_corner _ _ Da) as (_ & N2 & _). rewrite <- Ec in N2. unfold t in Vta. congruence.
  - (* the interior start face does not contain a fresh vertex *)
    apply (r_sfn _ _ _ _ _ _ _ _ _ _ RP ci Es).
    assert (F : a' / 3 = ci / 3). { destruct E2 as [E2|E2]; rewrite <- (next_face a'), E2; rewrite ?prev_face; auto. }
    rewrite <- F. rewrite En. rewrite map_app in *. apply in_app_or in FRa. apply in_or_app. destruct FRa as [X|X]; auto.
    right. simpl in *. destruct X as [X|[]]; auto.
Qed.

Lemma no_open_C' c' y : In c' cl -> ~ openc opp nf vfl (prev_c c') y.
Proof.
  intros Hin. assert (Hn : In c' new) by (apply (r_cl _ _ _ _ _ _ _ _ _ _ RP); auto).
  destruct (in_split _ _ Hn) as (l1 & l2 & E). apply (no_open_C (length l1) l1 c' l2); auto.
Qed.

Theorem run_end : CLOSED opp nf vfl.
Proof.
  intros x y Op. destruct (def_end _ _ Op) as [(c' & Hin & E)|(ci & Es & E)].
  - subst x. apply (no_open_C' c' y Hin Op).
  - destruct (r_sf _ _ _ _ _ _ _ _ _ _ RP ci Es) as (Lc & Dc & Vc & H1 & H2).
    destruct Op as (Lx & Vx & Ox & Vy).
    destruct (opp_facts c2v opp nf Hlen OK _ _ Ox) as (_ & _ & Ly & _ & Dy & _ & V1 & V2).
    assert (Bad : forall a', a' / 3 = ci / 3 -> forall o, (openc opp nf vfl (next_c a') o -> a' = ci -> False) /\
                                                          (openc opp nf vfl (prev_c a') o -> a' = prev_c ci -> False)).
    { intros a' F o. destruct (nondeg_corner _ _ Dc) as (N1 & N2 & N3). split; intros Op2 Ea; subst a'.
      - destruct (def_end _ _ Op2) as [(c'' & Hin2 & E2)|(ci' & Es' & E2)].
        + apply (no_open_C' c'' o Hin2). rewrite <- E2. auto.
        + rewrite Es in Es'. inversion Es'; subst ci'. destruct E2 as [E2|E2].
          * apply (next_neq ci). auto.
          * apply N3. rewrite E2. auto.
      - destruct (def_end _ _ Op2) as [(c'' & Hin2 & E2)|(ci' & Es' & E2)].
        + apply (no_open_C' c'' o Hin2). rewrite <- E2. auto.
        + rewrite Es in Es'. inversion Es'; subst ci'. rewrite prev_prev in E2. destruct E2 as [E2|E2].
          * apply (next_neq ci). auto.
          * apply N3. rewrite E2. auto. }
    destruct E as [E|E]; subst x.
    + (* gate edge of the start face: walk to the right around V(prev ci) *)
      set (t := vtx c2v (prev_c ci)) in *.
      assert (P0 : PV t (prev_c ci)). { split; [apply prev_lt; auto|]. split; [unfold nd; rewrite prev_face; auto|auto]. }
      assert (Pz : PV t (next_c y)). { split; [apply next_lt; auto|]. split; [unfold nd; rewrite next_face; auto|auto]. }
      destruct (walk_r t (prev_c ci) (next_c y) H2 P0 ltac:(unfold vis; rewrite prev_face; auto) Pz ltac:(unfold vis; rewrite next_face; auto))
        as (a' & o & Pa & Va & Op2).
      destruct Pa as (La & Da & Vta).
      destruct (def_end _ _ Op2) as [(c'' & Hin2 & E2)|(ci' & Es' & E2)].
      * apply (no_open_C' c'' o Hin2). rewrite <- E2. auto.
      * rewrite Es in Es'. inversion Es'; subst ci'.
        assert (F : a' / 3 = ci / 3). { destruct E2 as [E2|E2]; rewrite <- (prev_face a'), E2; rewrite ?prev_face; auto. }
        assert (Ea : a' = prev_c ci). { apply same_face_vertex; auto. rewrite prev_face; auto. unfold nd. rewrite prev_face. auto. }
        apply (proj2 (Bad a' F o) Op2 Ea).
    + (* left edge of the start face: walk to the left around V(ci) *)
      rewrite prev_face in Vx. rewrite next_prev in V1.
      set (t := vtx c2v ci) in *.
      assert (P0 : PV t ci) by (repeat split; auto).
      assert (Pz : PV t (prev_c y)). { split; [apply prev_lt; auto|]. split; [unfold nd; rewrite prev_face; auto|auto]. }
      destruct (walk_l t ci (prev_c y) H1 P0 Vx Pz ltac:(unfold vis; rewrite prev_face; auto)) as (a' & o & Pa & Va & Op2).
      destruct Pa as (La & Da & Vta).
      destruct (def_end _ _ Op2) as [(c'' & Hin2 & E2)|(ci' & Es' & E2)].
      * apply (no_open_C' c'' o Hin2). rewrite <- E2. auto.
      * rewrite Es in Es'. inversion Es'; subst ci'.
        assert (F : a' / 3 = ci / 3). { destruct E2 as [E2|E2]; rewrite <- (next_face a'), E2; rewrite ?prev_face; auto. }
        assert (Ea : a' = ci) by (apply same_face_vertex; auto).
        apply (proj1 (Bad a' F o) Op2 Ea).
Qed.
End End_of_run.
End Closure.

(** * The encoder is total on every consistent table with one fan per vertex *)
Definition one_fan (c2v : list nat) (opp : list (option nat)) : Prop :=
  forall c c', c < length c2v -> c' < length c2v -> is_degenerated c2v (c / 3) = false ->
    is_degenerated c2v (c' / 3) = false -> vtx c2v c = vtx c2v c' ->
    reach (swing_right opp) c c' \/ reach (swing_right opp) c' c.

Theorem eb_encode_total c2v opp nf nv niso ndeg :
  length c2v = 3 * nf -> opp_ok c2v opp -> (forall c, c < 3 * nf -> vtx c2v c < nv) -> one_fan c2v opp ->
  (nf = ndeg -> eb_encode c2v opp nv niso ndeg = EFail) /\
  (nf <> ndeg -> exists o, eb_encode c2v opp nv niso ndeg = EOk o /\ out_ok c2v nf o /\
     o_nverts o = (Z.of_nat nv - Z.of_nat niso)%Z /\ o_nfaces o = (Z.of_nat nf - Z.of_nat ndeg)%Z).
Proof.
  intros Hlen OK Hv FAN. split.
  - intros ->. unfold eb_encode. rewrite (NF_eq c2v ndeg Hlen), Nat.eqb_refl. auto.
  - intros Nd.
    assert (FAN' : forall c c', c < 3 * nf -> c' < 3 * nf -> is_degenerated c2v (c / 3) = false ->
       is_degenerated c2v (c' / 3) = false -> vtx c2v c = vtx c2v c' ->
       reach (swing_right opp) c c' \/ reach (swing_right opp) c' c).
    { intros. apply FAN; auto; lia. }
    destruct (find_holes_ok c2v opp nf nv Hlen OK Hv) as (hid & vh & E & I & B).
    apply (encode_from_holes c2v opp nf nv (length vh) hid Hlen OK Hv) with (vh := vh); auto.
    + apply I.
    + apply I.
    + intros j Hj Dj Oj. apply B. split; auto.
    + intros s c first. apply (encode_hole_ok c2v opp nf nv Hlen OK Hv FAN' hid vh I).
    + intros f. apply (find_init_ok c2v opp nf nv Hlen OK Hv FAN' hid vh I).
    + intros sf cl new vfl RP ND VN L. apply (run_end c2v opp nf hid Hlen OK FAN') with (sf := sf) (cl := cl) (new := new); auto.
      intros j Hj Dj Oj. apply B. split; auto.
    + intros vfl a b CL VN Ha Hb Da Db Ev Hvis. apply (fan_closed c2v opp nf hid Hlen OK FAN') with (a := a); auto.
      intros j Hj Dj Oj. apply B. split; auto.
Qed.

(** * Every table built by CornerTable::Create (the C13 model) qualifies *)
Lemma reach_chain f l a b : reach f l a -> reach f l b -> reach f a b \/ reach f b a.
Proof.
  assert (G : forall k d a b, oiter f k (Some l) = Some a -> oiter f (k + d) (Some l) = Some b -> reach f a b).
  { intros k d x y E1 E2. rewrite oiter_add, E1 in E2. exists d. auto. }
  intros [k E] [k' E']. destruct (le_lt_dec k k').
  - left. apply (G k (k' - k)); auto. replace (k + (k' - k)) with k' by lia. auto.
  - right. apply (G k' (k - k')); auto. replace (k' + (k - k')) with k by lia. auto.
Qed.

Lemma ct_create_wf faces t : ct_create faces = Some t ->
  length (ct_c2v t) = 3 * length faces /\ opp_ok (ct_c2v t) (ct_opp t) /\
  (forall c, c < 3 * length faces -> vtx (ct_c2v t) c < length (ct_vcorn t)) /\ one_fan (ct_c2v t) (ct_opp t) /\
  (forall f, is_degenerated (ct_c2v t) f = is_degenerated (c2v_of_faces faces) f).
Proof.
  intros H.
  destruct (ct_create_vc_inv _ _ H) as (s & I & E1 & E2 & E3 & E4).
  pose proof (ct_create_opp_ok _ _ H) as OK0.
  assert (Dg : forall f, is_degenerated (ct_c2v t) f = is_degenerated (c2v_of_faces faces) f).
  { intros f. rewrite E1. apply (vc_deg_same _ (length faces) _ (c2v_of_faces_length faces) (num_vertices_of_spec _) s f I). }
  assert (L : length (ct_c2v t) = 3 * length faces).
  { rewrite E1, (vi_len_c _ _ _ I). apply c2v_of_faces_length. }
  split; auto. split; [|split; [|split; auto]].
  - split. { destruct OK0 as [L0 _]. rewrite L0, c2v_of_faces_length. lia. }
    intros a o Eo. destruct OK0 as [_ K]. destruct (K _ _ Eo) as (Eb & Nab & _ & _ & _ & Da).
    destruct (opp_shared_edge_final _ _ _ _ H Eo) as (V1 & V2 & V3).
    repeat split; auto. rewrite Dg. auto.
  - intros c Hc. apply (vertex_parent_maps_back _ _ c H Hc).
  - intros c c' Hc Hc' Dc Dc' Ev. rewrite L in *. rewrite Dg in *.
    destruct (single_fan _ _ H) as [F1 _].
    destruct (F1 c Hc Dc) as (l & El & Rl). destruct (F1 c' Hc' Dc') as (l' & El' & Rl').
    rewrite Ev in El. rewrite El in El'. inversion El'; subst l'.
    eapply reach_chain; eauto.
Qed.

Theorem eb_encode_ct_total faces t : ct_create faces = Some t ->
  let nf := length faces in
  (nf = ct_ndeg t -> eb_encode_ct t = EFail) /\
  (nf <> ct_ndeg t -> exists o, eb_encode_ct t = EOk o /\ out_ok (ct_c2v t) nf o /\
     o_nverts o = (Z.of_nat (length (ct_vcorn t)) - Z.of_nat (ct_niso t))%Z /\
     o_nfaces o = (Z.of_nat nf - Z.of_nat (ct_ndeg t))%Z).
Proof.
  intros H nf. destruct (ct_create_wf _ _ H) as (L & OK & Hv & FAN & _).
  unfold eb_encode_ct. apply eb_encode_total; auto.
Qed.

Lemma filter_split_length {A} (p : A -> bool) l : length (filter p l) + length (filter (fun x => negb (p x)) l) = length l.
Proof. induction l; simpl; auto. destruct (p a); simpl; lia. Qed.

Theorem eb_encode_ct_counts faces t o : ct_create faces = Some t -> eb_encode_ct t = EOk o ->
  o_nsyms o = Z.of_nat (length (o_syms o)) /\
  o_nsplit o = Z.of_nat (count_occ Z.eq_dec (o_syms o) TOPOLOGY_S) /\ (0 <= o_nsplit o <= o_nsyms o)%Z /\
  length (o_pcc o) = length (o_syms o) + count_occ bool_dec (o_bits o) true /\
  3 * count_occ bool_dec (o_bits o) true <= length (o_syms o) /\
  Z.of_nat (length (o_pcc o)) = o_nfaces o /\
  o_nverts o = (Z.of_nat (length (ct_vcorn t)) - Z.of_nat (ct_niso t))%Z /\
  o_nfaces o = (Z.of_nat (length faces) - Z.of_nat (ct_ndeg t))%Z /\
  Forall (fun x => In x [0; 1; 3; 5; 7]%Z) (o_syms o) /\
  Forall (fun e => match e with (src, spl, ed) => (0 <= spl < src)%Z /\ (src < o_nsyms o)%Z /\ (ed = 0 \/ ed = 1)%Z end) (o_events o) /\
  StronglySorted (fun e e' => (fst (fst e) <= fst (fst e'))%Z) (o_events o).
Proof.
  intros H E. destruct (eb_encode_ct_total _ _ H) as [T1 T2].
  destruct (Nat.eq_dec (length faces) (ct_ndeg t)) as [X|X]. { rewrite (T1 X) in E. discriminate. }
  destruct (T2 X) as (o' & E' & (O1 & O2 & OC & O3 & O4 & O4b & O5 & O6 & O7 & O8) & V1 & V2). rewrite E in E'. inversion E'; subst o'. clear E'.
  pose proof (count_occ_bound Z.eq_dec TOPOLOGY_S (o_syms o)) as Cb.
  repeat split; auto; try lia.
  (* |pcc| <= number of non-degenerated faces *)
  destruct (ct_create_wf _ _ H) as (_ & _ & _ & _ & Dg).
  destruct (counters _ _ H) as (_ & _ & _ & Nd & _).
  set (nd := filter (fun f => negb (is_degenerated (c2v_of_faces faces) f)) (seq 0 (length faces))).
  assert (Incl : incl (map (fun c => c / 3) (o_pcc o)) nd).
  { intros f Hf. apply in_map_iff in Hf. destruct Hf as (c & <- & Hc). rewrite Forall_forall in O2. destruct (O2 c Hc) as [L D].
    unfold nd. apply filter_In. split. apply in_seq. split; [lia|]. rewrite Nat.add_0_l. apply Nat.div_lt_upper_bound; lia.
    rewrite <- Dg, D. auto. }
  pose proof (NoDup_incl_length O1 Incl) as Le. rewrite map_length in Le.
  assert (Incl2 : incl nd (map (fun c => c / 3) (o_pcc o))).
  { intros f Hf. unfold nd in Hf. apply filter_In in Hf. destruct Hf as [Hs Hd]. apply in_seq in Hs. apply negb_true_iff in Hd.
    apply OC; [lia|]. rewrite Dg. auto. }
  assert (NDn : NoDup nd) by (unfold nd; apply NoDup_filter; apply seq_NoDup).
  pose proof (NoDup_incl_length NDn Incl2) as Ge. rewrite map_length in Ge.
  pose proof (filter_split_length (is_degenerated (c2v_of_faces faces)) (seq 0 (length faces))) as Sp.
  rewrite seq_length in Sp. fold nd in Sp. rewrite V2. lia.
Qed.

(** * The simulation relation between the encoder and the decoder (written down; only its base case is proved).

    The decoder consumes the symbols in reverse, so the encoder's state after it has emitted the first [i] of its [ns]
    symbols is related to the decoder's state after it has consumed the LAST  j = ns - i  symbols:

      - FACES.  The decoder has created exactly the faces the encoder has NOT yet processed: decoder face k (k < j) is
        the face of the corner  P[ns-1-k]  (P = corners in encoding order), decoder corner 3k+r is Next^r of it
        ([ecorner]).  (Interior start faces are marked first by the encoder and created last by the decoder.)
      - OPPOSITE.  An edge is glued in the decoder's table iff both its faces are created; an edge towards a face the
        encoder has already processed (or a mesh boundary) is still open (-1) - it lies on one of the decoder's
        active boundaries.
      - VERTICES.  The decoder never identifies two different encoder vertices, and it has identified two corners
        whenever they are neighbours in a fan of created faces.  (A vertex whose created faces form several fans is,
        at that moment, several decoder vertices: the later S / C symbols merge them - the reverse of the encoder
        seeing the vertex as "already visited".)
      - ACTIVE CORNERS.  The decoder's active_corner_stack is the encoder's current corner followed by the entries of
        corner_traversal_stack_ that the encoder will still PROCESS (entries whose face is visited by another route
        before they are popped - topology splits - are instead found in the decoder's topology_split_active_corners),
        each seen as the tip corner 3k of its decoder face.
      - EVENTS.  The decoder still holds the events whose source symbol the encoder has already emitted (source < i).

    Preservation, symbol by symbol (decoder step on the symbol the encoder emitted at step i-1):
      C: the encoder's tip vertex is unvisited and interior <-> the decoder closes the fan of vertex x between corner a
         and corner b = Next(LeftMostCorner(x));   R / L: right (left) face already processed <-> that edge stays open,
         a new boundary vertex is created;   E: both processed <-> a new isolated triangle, a new stack entry;
      S: both unprocessed <-> two active boundaries (stack entries) are merged, the tip vertices identified.
    This is NOT proved here.  What is proved: the base case below, the executable check of the conclusion
    ([eb_roundtrip_b] on every generated mesh, with [eb_iso_b] sound), and the encoder-side invariants of Section Core. *)
Definition ecorner (P : list nat) (dc : nat) : nat :=
  rot (dc mod 3) (nth (length P - 1 - dc / 3) P 0).

Fixpoint somes {A} (l : list (option A)) : list A :=
  match l with [] => [] | Some x :: r => x :: somes r | None :: r => somes r end.

Definition sim (c2v : list nat) (opp : list (option nat)) (P : list nat) (i : nat)
           (estack : list (option nat)) (eevs : list (Z * Z * Z)) (d : Edgebreaker.st) : Prop :=
  let ns := length P in
  let j := ns - i in
  let created e := exists dc, dc < 3 * j /\ ecorner P dc = e in
  Edgebreaker.nfaces d = Z.of_nat j /\
  (forall dc, dc < 3 * j ->
     match opp_at opp (ecorner P dc) with
     | Some o => (created o -> exists dc', dc' < 3 * j /\ ecorner P dc' = o /\ Edgebreaker.copp d (Z.of_nat dc) = Z.of_nat dc') /\
                 (~ created o -> Edgebreaker.copp d (Z.of_nat dc) = (-1)%Z)
     | None => Edgebreaker.copp d (Z.of_nat dc) = (-1)%Z
     end) /\
  (forall dc dc', dc < 3 * j -> dc' < 3 * j ->
     Edgebreaker.c2v d (Z.of_nat dc) = Edgebreaker.c2v d (Z.of_nat dc') -> vtx c2v (ecorner P dc) = vtx c2v (ecorner P dc')) /\
  (forall dc dc', dc < 3 * j -> dc' < 3 * j -> swing_right opp (ecorner P dc) = Some (ecorner P dc') ->
     Edgebreaker.c2v d (Z.of_nat dc) = Edgebreaker.c2v d (Z.of_nat dc')) /\
  map (fun z => ecorner P (Z.to_nat z)) (Edgebreaker.stack d) =
    match nth_error P i with
    | None => []
    | Some c => c :: filter (fun x => existsb (Nat.eqb x) (skipn i P)) (somes (tl estack))
    end /\
  Edgebreaker.events d = rev (filter (fun e => (fst (fst e) <? Z.of_nat i)%Z) eevs).

(** base case: the encoder has finished (all ns symbols emitted, stack empty), the decoder has not started *)
Lemma sim_base c2v opp P eevs : Forall (fun e => (fst (fst e) < Z.of_nat (length P))%Z) eevs ->
  sim c2v opp P (length P) [] eevs (Edgebreaker.init_st eevs).
Proof.
  intros F. unfold sim. rewrite Nat.sub_diag. cbn [Edgebreaker.init_st Edgebreaker.nfaces Edgebreaker.stack Edgebreaker.events map].
  split; [reflexivity|]. split; [intros dc H; lia|]. split; [intros dc dc' H; lia|]. split; [intros dc dc' H; lia|].
  split.
  - assert (nth_error P (length P) = None) by (apply nth_error_None; lia). rewrite H. auto.
  - f_equal. clear -F. induction F; simpl; auto. apply Z.ltb_lt in H. rewrite H. f_equal. auto.
Qed.

(** * The counts the encoder declares and the decoder's guards *)
Fixpoint osomes {A} (l : list (option A)) : list A :=
  match l with [] => [] | Some x :: r => x :: osomes r | None :: r => osomes r end.

Lemma osomes_length {A} (l : list (option A)) :
  length (osomes l) + length (filter (fun o => match o with None => true | Some _ => false end) l) = length l.
Proof. induction l as [|[x|] l IH]; simpl; lia. Qed.

Lemma osomes_nodup (g : nat -> nat) : forall (l : list (option nat)) off,
  (forall i x, nth i l None = Some x -> g x = off + i) ->
  NoDup (map g (osomes l)) /\ Forall (fun y => off <= y) (map g (osomes l)).
Proof.
  induction l as [|a l IH]; intros off H; simpl. split; constructor.
  destruct (IH (S off)) as [N F]. { intros i x E. rewrite (H (S i) x E). lia. }
  destruct a as [x|]; simpl.
  - pose proof (H 0 x eq_refl) as G0. split.
    + constructor; auto. intro X. rewrite Forall_forall in F. specialize (F _ X). lia.
    + constructor. lia. eapply Forall_impl; [|exact F]. simpl. intros; lia.
  - split; auto. eapply Forall_impl; [|exact F]. simpl. intros; lia.
Qed.

Lemma osomes_in {A} (l : list (option A)) x : In x (osomes l) -> exists i, nth_error l i = Some (Some x).
Proof.
  induction l as [|[y|] l IH]; simpl; intros H; [tauto| |].
  - destruct H as [H|H]. subst. exists 0. auto. destruct (IH H) as (i & E). exists (S i). auto.
  - destruct (IH H) as (i & E). exists (S i). auto.
Qed.

Lemma nondeg_corners_length c2v nf :
  length (filter (fun c => negb (is_degenerated c2v (c / 3))) (seq 0 (3 * nf))) =
  3 * length (filter (fun f => negb (is_degenerated c2v f)) (seq 0 nf)).
Proof.
  induction nf as [|k IH]. reflexivity.
  assert (E3 : 3 * S k = 3 * k + 3) by lia. rewrite E3.
  rewrite seq_app, filter_app, app_length, IH.
  assert (Es : seq (0 + 3 * k) 3 = [3 * k; 3 * k + 1; 3 * k + 2]).
  { simpl. repeat f_equal; lia. }
  rewrite Es. rewrite (seq_S k 0), filter_app, app_length. cbn [filter seq].
  assert (D0 : 3 * k / 3 = k) by (rewrite Nat.mul_comm; apply Nat.div_mul; lia).
  assert (D1 : (3 * k + 1) / 3 = k) by (symmetry; apply Nat.div_unique with 1; lia).
  assert (D2 : (3 * k + 2) / 3 = k) by (symmetry; apply Nat.div_unique with 2; lia).
  rewrite D0, D1, D2. simpl Nat.add.
  destruct (is_degenerated c2v k); simpl; lia.
Qed.

(** G2: at most three encoded vertices per encoded face *)
Lemma ct_vertices_le_corners faces t : ct_create faces = Some t ->
  length (ct_vcorn t) - ct_niso t <= 3 * (length faces - ct_ndeg t).
Proof.
  intros H. destruct (counters _ _ H) as (_ & _ & _ & Nd & Ni).
  destruct (single_fan _ _ H) as [_ F2]. destruct (ct_create_wf _ _ H) as (_ & _ & _ & _ & Dg).
  pose proof (osomes_length (ct_vcorn t)) as L1. rewrite <- Ni in L1.
  set (V := vtx (ct_c2v t)).
  destruct (osomes_nodup V (ct_vcorn t) 0) as [N _].
  { intros i x E. destruct (F2 i x E) as (Vx & _). simpl. auto. }
  apply NoDup_map_inv in N.
  set (ndc := filter (fun c => negb (is_degenerated (c2v_of_faces faces) (c / 3))) (seq 0 (3 * length faces))).
  assert (Incl : incl (osomes (ct_vcorn t)) ndc).
  { intros l Hl. destruct (osomes_in _ _ Hl) as (i & E). apply nth_error_nth with (d := None) in E.
    destruct (F2 i l E) as (_ & Ll & Dl & _). unfold ndc. apply filter_In. split. apply in_seq. lia. rewrite Dl. auto. }
  pose proof (NoDup_incl_length N Incl) as Le. unfold ndc in Le. rewrite nondeg_corners_length in Le.
  pose proof (filter_split_length (is_degenerated (c2v_of_faces faces)) (seq 0 (length faces))) as Sp.
  rewrite seq_length in Sp. lia.
Qed.

Local Open Scope Z_scope.

Lemma to_i32_small x : 0 <= x < 2147483648 -> Edgebreaker.to_i32 x = x.
Proof.
  intros H. unfold Edgebreaker.to_i32. rewrite Z.mod_small by lia. destruct (x <? 2147483648) eqn:E; auto. apply Z.ltb_ge in E. lia.
Qed.

(** The guards of DecodeConnectivity() never reject what the encoder declares.  Two premises are NOT derived here:
    [Hsimple] (the vertex/edge graph of the table is simple: a property of BreakNonManifoldEdges outside C13's theorems)
    and [Hevents] (at most one topology split event per face); both are checked on every generated mesh by the harness. *)
Theorem eb_encode_ct_guards faces t o rm : ct_create faces = Some t -> eb_encode_ct t = EOk o ->
  Z.of_nat (3 * length faces + length (ct_vcorn t)) < 2147483648 ->
  (3 * o_nfaces o) / 2 <= (o_nverts o * (o_nverts o - 1)) / 2 ->
  Z.of_nat (length (o_events o)) <= o_nfaces o ->
  eb_decode_of o rm =
    Edgebreaker.eb_core (3 * o_nfaces o) (o_nverts o + o_nsplit o) (o_nfaces o) rm (rev (o_syms o)) (o_events o)
                        (Edgebreaker.bits_of_list (o_bits o)) /\
  0 <= o_nverts o <= 3 * o_nfaces o /\ o_nsyms o <= o_nfaces o <= o_nsyms o + o_nsyms o / 3 /\
  0 <= o_nsplit o <= o_nsyms o /\ 0 <= o_nverts o + o_nsplit o < 2147483648 /\ 0 <= o_nfaces o <= 1431655765.
Proof.
  intros H E Hsz Hsimple Hevents.
  destruct (eb_encode_ct_counts _ _ _ H E) as (C1 & C2 & C3 & C4 & C4b & C5 & C6 & C7 & _).
  pose proof (ct_vertices_le_corners _ _ H) as G2.
  destruct (counters _ _ H) as (_ & _ & _ & Nd & Ni).
  assert (Hnd : (ct_ndeg t <= length faces)%nat).
  { rewrite Nd. pose proof (filter_split_length (is_degenerated (c2v_of_faces faces)) (seq 0 (length faces))) as Sp.
    rewrite seq_length in Sp. lia. }
  assert (Hni : (ct_niso t <= length (ct_vcorn t))%nat).
  { rewrite Ni. pose proof (osomes_length (ct_vcorn t)). lia. }
  set (nf' := o_nfaces o) in *. set (nev := o_nverts o) in *. set (ns := o_nsyms o) in *. set (nsp := o_nsplit o) in *.
  assert (A1 : 0 <= nev <= 3 * nf') by lia.
  assert (A2 : ns <= nf' <= ns + ns / 3).
  { split; [lia|]. assert (3 * (nf' - ns) <= ns) by lia. Z.div_mod_to_equations. lia. }
  assert (A3 : 0 <= nev + nsp < 2147483648) by lia.
  assert (A4 : 0 <= nf' <= 1431655765) by lia.
  split; [|repeat split; lia].
  unfold eb_decode_of, Edgebreaker.eb_full. fold nf' nev ns nsp.
  rewrite rev_length. rewrite <- C1. fold ns.
  replace (nf' >? 1431655765) with false by (symmetry; rewrite Z.gtb_ltb; apply Z.ltb_ge; lia).
  replace (nev >? nf' * 3) with false by (symmetry; rewrite Z.gtb_ltb; apply Z.ltb_ge; lia).
  rewrite (to_i32_small nev) by lia.
  rewrite (Z.mod_small nev) by lia.
  rewrite (Z.mod_small (nev * (nev - 1))) by nia.
  replace (nev * (nev - 1) / 2 <? 3 * nf' / 2) with false by (symmetry; apply Z.ltb_ge; lia).
  replace (nf' <? ns) with false by (symmetry; apply Z.ltb_ge; lia).
  replace (nf' >? ns + ns / 3) with false by (symmetry; rewrite Z.gtb_ltb; apply Z.ltb_ge; lia).
  replace (nsp >? ns) with false by (symmetry; rewrite Z.gtb_ltb; apply Z.ltb_ge; lia).
  rewrite (Z.mod_small (nev + nsp)) by lia.
  rewrite (to_i32_small (nev + nsp)) by lia.
  replace (nev + nsp <? 0) with false by (symmetry; apply Z.ltb_ge; lia).
  replace (Z.of_nat (length (o_events o)) >? nf') with false by (symmetry; rewrite Z.gtb_ltb; apply Z.ltb_ge; lia).
  reflexivity.
Qed.

(** the same guards as the serialisation layer states them (Model/EbTraversal.v: [conn_guards] = the premise
    hdr_plausible of Properties_TRAV), the header fields in range, and the event premises ev_ok / G8 *)

Lemma trav_to_i32_small x : 0 <= x < 2147483648 -> EbTraversal.to_i32 x = x.
Proof.
  intros H. unfold EbTraversal.to_i32. cbv zeta. rewrite Z.mod_small by lia.
  destruct (x <? 2 ^ 31) eqn:E; auto. apply Z.ltb_ge in E. lia.
Qed.

Theorem eb_encode_ct_trav_premises faces t o : ct_create faces = Some t -> eb_encode_ct t = EOk o ->
  Z.of_nat (3 * length faces + length (ct_vcorn t)) < 2147483648 ->
  (3 * o_nfaces o) / 2 <= (o_nverts o * (o_nverts o - 1)) / 2 ->
  EbTraversal.conn_guards (o_nverts o) (o_nfaces o) (o_nsyms o) (o_nsplit o) = true /\
  (0 <= o_nverts o < 2 ^ 32 /\ 0 <= o_nfaces o < 2 ^ 32 /\ 0 <= o_nsyms o < 2 ^ 32 /\ 0 <= o_nsplit o < 2 ^ 32) /\
  Forall (fun e => match e with (src, spl, ed) => 0 <= spl <= src /\ src < 2 ^ 32 /\ (ed = 0 \/ ed = 1) end) (o_events o) /\
  Forall (fun x => In x [0; 1; 3; 5; 7]) (o_syms o).
Proof.
  intros H E Hsz Hsimple.
  destruct (eb_encode_ct_counts _ _ _ H E) as (C1 & C2 & C3 & C4 & C4b & C5 & C6 & C7 & C8 & C9 & _).
  pose proof (ct_vertices_le_corners _ _ H) as G2.
  destruct (counters _ _ H) as (_ & _ & _ & Nd & Ni).
  assert (Hnd : (ct_ndeg t <= length faces)%nat).
  { rewrite Nd. pose proof (filter_split_length (is_degenerated (c2v_of_faces faces)) (seq 0 (length faces))) as Sp.
    rewrite seq_length in Sp. lia. }
  assert (Hni : (ct_niso t <= length (ct_vcorn t))%nat).
  { rewrite Ni. pose proof (osomes_length (ct_vcorn t)). lia. }
  set (nf' := o_nfaces o) in *. set (nev := o_nverts o) in *. set (ns := o_nsyms o) in *. set (nsp := o_nsplit o) in *.
  assert (A1 : 0 <= nev <= 3 * nf') by lia.
  assert (A2 : ns <= nf' <= ns + ns / 3).
  { split; [lia|]. assert (3 * (nf' - ns) <= ns) by lia. Z.div_mod_to_equations. lia. }
  assert (A3 : 0 <= nev + nsp < 2147483648) by lia.
  assert (A4 : 0 <= nf' <= 1431655765) by lia.
  assert (P32 : 2 ^ 32 = 4294967296) by reflexivity. assert (P64 : 2 ^ 64 = 18446744073709551616) by reflexivity.
  split; [|split; [lia|split]].
  - unfold EbTraversal.conn_guards. cbv zeta. rewrite (trav_to_i32_small nev) by lia.
    unfold Ans.u32. rewrite P32, P64.
    rewrite (Z.mod_small nev 18446744073709551616) by lia.
    rewrite (Z.mod_small (nev * (nev - 1))) by nia.
    rewrite (Z.mod_small nev 4294967296) by lia.
    rewrite (Z.mod_small (nf' * 3)) by lia. rewrite (Z.mod_small (3 * nf')) by lia.
    assert (ns / 3 <= ns) by (Z.div_mod_to_equations; lia).
    rewrite (Z.mod_small (ns + ns / 3)) by lia.
    rewrite (Z.mod_small (nev + nsp)) by lia.
    rewrite (trav_to_i32_small (nev + nsp)) by lia.
    repeat (apply andb_true_intro; split); apply negb_true_iff;
      first [apply Z.ltb_ge; lia | rewrite Z.gtb_ltb; apply Z.ltb_ge; lia].
  - eapply Forall_impl; [|exact C9]. intros [[src spl] ed]. lia.
  - exact C8.
Qed.
