(** Proofs about Model/EbEncoder.v (the Edgebreaker connectivity encoder state machine).
    1. [eb_iso_b_sound]: the executable isomorphism checker is sound.
    2. Section Core: the traversal (EncodeConnectivityFromCorner and the start-face loop of EncodeConnectivity) on a
       consistent corner table: never out of range, never out of fuel, every face is processed at most once, only
       non-degenerated faces are processed, the counts agree ([encode_from_holes] / [out_ok]).
       Invariants: [Inv] (between two symbols), [Jnv] (between `++last_encoded_symbol_id_` and EncodeSymbol),
       [gate_ok] (both vertices of the gate edge of a pending corner are visited), potential [Phi] for the stack loop.
    3. Section Holes: FindHoles, EncodeHole, FindInitFaceConfiguration (boundary walks) on a table with one fan per vertex. *)
From Coq Require Import List Arith Bool PeanoNat ZArith Lia Sorted.
Import ListNotations.
From Draco Require Import Model.CornerTable Model.EbEncoder Proofs.CornerTable_proofs.
From Draco Require Model.Edgebreaker.

Lemma nodup_b_sound l : nodup_b l = true -> NoDup l.
Proof.
  induction l as [|x r IH]; simpl; intros H. constructor.
  apply andb_prop in H. destruct H as [H1 H2]. constructor; auto.
  intro Hin. apply negb_true_iff in H1.
  assert (existsb (Nat.eqb x) r = true). { apply existsb_exists. exists x. split; auto. apply Nat.eqb_refl. }
  congruence.
Qed.

Theorem eb_iso_b_sound c2v opp pcc dv dopp :
  eb_iso_b c2v opp pcc dv dopp = true -> eb_iso c2v opp pcc dv dopp.
Proof.
  unfold eb_iso_b, eb_iso. intros H.
  apply andb_prop in H. destruct H as [H H5].
  apply andb_prop in H. destruct H as [H H4].
  apply andb_prop in H. destruct H as [H H3].
  apply andb_prop in H. destruct H as [H1 H2].
  rewrite forallb_forall in H1, H3, H4, H5.
  split; [|split; [|split; [|split]]].
  - intros k Hk. specialize (H1 (nth k pcc 0) (nth_In _ _ Hk)).
    apply andb_prop in H1. destruct H1 as [Ha Hb]. apply Nat.ltb_lt in Ha. apply negb_true_iff in Hb. auto.
  - apply nodup_b_sound; auto.
  - intros f Hf Hd. specialize (H3 f). rewrite in_seq in H3. specialize (H3 ltac:(lia)).
    rewrite Hd in H3. simpl in H3. apply existsb_exists in H3. destruct H3 as [x [Hx He]]. apply Nat.eqb_eq in He. subst. auto.
  - intros d Hd. specialize (H4 d). rewrite in_seq in H4. specialize (H4 ltac:(lia)).
    destruct (opp_at opp (cmap pcc d)) as [o|].
    + apply andb_prop in H4. destruct H4 as [H4 Hc]. apply andb_prop in H4. destruct H4 as [Ha Hb].
      apply Z.leb_le in Ha. apply Nat.ltb_lt in Hb. apply Nat.eqb_eq in Hc.
      exists (Z.to_nat (dopp (Z.of_nat d))). split; [auto|]. split; [|auto]. rewrite Z2Nat.id; auto.
    + apply Z.eqb_eq in H4. auto.
  - intros d d' Hd Hd'.
    set (g := fun d => (dv (Z.of_nat d), vtx c2v (cmap pcc d))) in *.
    assert (Ip : In (g d) (map g (seq 0 (3 * length pcc)))). { apply in_map. apply in_seq. lia. }
    assert (Iq : In (g d') (map g (seq 0 (3 * length pcc)))). { apply in_map. apply in_seq. lia. }
    specialize (H5 _ Ip). rewrite forallb_forall in H5. specialize (H5 _ Iq).
    apply eqb_prop in H5. unfold g in H5. simpl in H5.
    split; intro E.
    + apply Nat.eqb_eq. rewrite <- H5. apply Z.eqb_eq. auto.
    + apply Z.eqb_eq. rewrite H5. apply Nat.eqb_eq. auto.
Qed.

(** * vector access *)
Lemma eget_lt {A} (l : list A) i d : i < length l -> eget l i = EOk (nth i l d).
Proof. intros H. unfold eget. rewrite (nth_error_nth' l d H). auto. Qed.
Lemma eset_lt {A} (l : list A) i x : i < length l -> eset l i x = EOk (upd l i x).
Proof. intros H. unfold eset. apply Nat.ltb_lt in H. rewrite H. auto. Qed.

Definition ucnt (l : list bool) : nat := length l - cnt l.   (* number of false entries *)
Lemma ucnt_upd l i : i < length l -> nth i l false = false -> S (ucnt (upd l i true)) = ucnt l.
Proof.
  intros H E. unfold ucnt. rewrite upd_length, cnt_upd, E by auto.
  assert (cnt l < length l).
  { clear - H E. revert i H E. induction l as [|b l]; intros i H E; simpl in *; [lia|].
    unfold cnt in *. destruct i; simpl in *.
    - subst b. simpl. pose proof (cnt_le l). unfold cnt in *. lia.
    - specialize (IHl i ltac:(lia) E). destruct b; simpl; lia. }
  lia.
Qed.

Definition vle (l l' : list bool) : Prop :=
  length l = length l' /\ forall i, nth i l false = true -> nth i l' false = true.
Lemma vle_refl l : vle l l. Proof. split; auto. Qed.
Lemma vle_trans a b c : vle a b -> vle b c -> vle a c.
Proof. intros [L1 H1] [L2 H2]. split; [congruence|auto]. Qed.
Lemma vle_upd l i : vle l (upd l i true).
Proof. split; [rewrite upd_length; auto|]. intros j H. rewrite nth_upd. destruct ((j =? i) && (i <? length l)); auto. Qed.

Lemma face_corners c x : x / 3 = c / 3 -> x = c \/ x = next_c c \/ x = prev_c c.
Proof.
  intros H. destruct (corner_cases c) as [E|[E|E]], (corner_cases x) as [F|[F|F]]; rewrite H in F;
  rewrite E; rewrite ?next_0, ?next_1, ?next_2, ?prev_0, ?prev_1, ?prev_2; lia.
Qed.

Ltac est_simpl := cbn [vf vv vhole last_id nsplit evs f2s pcc syms stack with_vf with_vv with_vhole with_last_id with_nsplit with_evs with_f2s with_pcc with_syms with_stack].

Lemma prev_prev c : prev_c (prev_c c) = next_c c.
Proof. rewrite <- (next_next (prev_c c)), !next_prev. auto. Qed.

Lemma count_occ_rev {A} (dec : forall x y : A, {x = y} + {x <> y}) l a : count_occ dec (rev l) a = count_occ dec l a.
Proof.
  induction l; simpl; auto. rewrite count_occ_app, IHl. simpl. destruct (dec a0 a); lia.
Qed.

Lemma sorted_rev (l : list (Z * Z * Z)) :
  StronglySorted (fun e e' => (fst (fst e') <= fst (fst e))%Z) l ->
  StronglySorted (fun e e' => (fst (fst e) <= fst (fst e'))%Z) (rev l).
Proof.
  induction 1; simpl. constructor.
  assert (G : forall (l1 : list (Z * Z * Z)) (x : Z * Z * Z), StronglySorted (fun e e' => (fst (fst e) <= fst (fst e'))%Z) l1 ->
            Forall (fun y => (fst (fst y) <= fst (fst x))%Z) l1 ->
            StronglySorted (fun e e' => (fst (fst e) <= fst (fst e'))%Z) (l1 ++ [x])).
  { induction 1; intros F; simpl. constructor; constructor. inversion F; subst. constructor; auto.
    apply Forall_app. split; auto. }
  apply G; auto. apply Forall_rev. auto.
Qed.

Section Table.
Variables (c2v : list nat) (opp : list (option nat)) (nf : nat).
Hypothesis Hlen : length c2v = 3 * nf.
Hypothesis OK : opp_ok c2v opp.

Lemma NC_eq : NC c2v = 3 * nf. Proof. unfold NC. auto. Qed.
Lemma NF_eq : NF c2v = nf. Proof. unfold NF. rewrite NC_eq. rewrite Nat.mul_comm. apply Nat.div_mul. lia. Qed.
Lemma opp_len : length opp = 3 * nf. Proof. destruct OK as [L _]. lia. Qed.

Lemma e_vertex_ok c : c < 3 * nf -> e_vertex c2v c = EOk (vtx c2v c).
Proof. intros. unfold e_vertex, vtx. apply eget_lt. lia. Qed.
Lemma e_opp_ok c : c < 3 * nf -> e_opp opp c = EOk (opp_at opp c).
Proof. intros. unfold e_opp, opp_at. apply eget_lt. rewrite opp_len. lia. Qed.

Lemma opp_facts a b : opp_at opp a = Some b ->
  opp_at opp b = Some a /\ a < 3 * nf /\ b < 3 * nf /\ is_degenerated c2v (a / 3) = false /\ is_degenerated c2v (b / 3) = false /\ a / 3 <> b / 3 /\
  vtx c2v (next_c a) = vtx c2v (prev_c b) /\ vtx c2v (prev_c a) = vtx c2v (next_c b).
Proof.
  intros E. destruct OK as [L K]. destruct (K _ _ E) as (Eb & Nab & V1 & V2 & V3 & Da).
  destruct (K _ _ Eb) as (_ & _ & _ & _ & _ & Db).
  pose proof (opp_at_lt _ _ _ E). pose proof (opp_at_lt _ _ _ Eb).
  repeat split; auto; try lia.
  intros F. symmetry in F. destruct (face_corners _ _ F) as [X|[X|X]]; subst b.
  - congruence.
  - rewrite prev_next in V1. destruct (nondeg_corner _ _ Da) as (P & _ & _). congruence.
  - rewrite next_prev in V2. destruct (nondeg_corner _ _ Da) as (_ & P & _). congruence.
Qed.

End Table.

Section Core.
Variables (c2v : list nat) (opp : list (option nat)) (nf nv nh : nat) (hid : list (option nat)).
Hypothesis Hlen : length c2v = 3 * nf.
Hypothesis OK : opp_ok c2v opp.
Hypothesis Hv : forall c, c < 3 * nf -> vtx c2v c < nv.
Hypothesis Hhl : length hid = nv.
Hypothesis Hhr : forall v h, nth v hid None = Some h -> h < nh.
Hypothesis Hhb : forall j, j < 3 * nf -> is_degenerated c2v (j / 3) = false -> opp_at opp j = None ->
  nth (vtx c2v (next_c j)) hid None <> None /\ nth (vtx c2v (prev_c j)) hid None <> None.

Let n := 3 * nf.
Let V := vtx c2v.
Let O := opp_at opp.
Definition nondeg (c : nat) : Prop := is_degenerated c2v (c / 3) = false.

Let NC_eq := NC_eq c2v nf Hlen.
Let NF_eq := NF_eq c2v nf Hlen.
Let opp_len := opp_len c2v opp nf Hlen OK.
Let e_vertex_ok := e_vertex_ok c2v nf Hlen.
Let e_opp_ok := e_opp_ok c2v opp nf Hlen OK.
Let opp_facts := opp_facts c2v opp nf Hlen OK.

Definition Phi (s : est) : nat := 2 * ucnt (vf s) + length (stack s).

Record Base (ifs : list nat) (s : est) : Prop := {
  b_vf : length (vf s) = nf;
  b_vv : length (vv s) = nv;
  b_vh : length (vhole s) = nh;
  b_vis : forall x, x < 3 * nf -> nth (x / 3) (vf s) false = true -> nondeg x /\ nth (vtx c2v x) (vv s) false = true;
  b_pcc : Forall (fun c => c < 3 * nf) (pcc s);
  b_nd : NoDup (map (fun c => c / 3) (pcc s) ++ ifs);
  b_in : forall f, In f (map (fun c => c / 3) (pcc s) ++ ifs) <-> (f < nf /\ nth f (vf s) false = true);
  b_split : nsplit s = count_occ Z.eq_dec (syms s) TOPOLOGY_S;
  b_sym : Forall (fun x => In x [0; 1; 3; 5; 7]%Z) (syms s);
  b_evs : Forall (fun e => match e with (src, spl, ed) => (0 <= spl < src)%Z /\ (src <= last_id s)%Z /\ (ed = 0 \/ ed = 1)%Z end) (evs s);
  b_evsort : StronglySorted (fun e e' => (fst (fst e') <= fst (fst e))%Z) (evs s)
}.

Record Inv (ifs : list nat) (s : est) : Prop := {
  i_base : Base ifs s;
  i_last : last_id s = (Z.of_nat (length (syms s)) - 1)%Z;
  i_len : length (syms s) = length (pcc s);
  i_f2s : Forall (fun p => (0 <= snd p <= last_id s)%Z) (f2s s)
}.

(* between `++last_encoded_symbol_id_` and EncodeSymbol *)
Record Jnv (ifs : list nat) (s : est) : Prop := {
  j_base : Base ifs s;
  j_last : last_id s = Z.of_nat (length (syms s));
  j_len : S (length (syms s)) = length (pcc s);
  j_f2s : Forall (fun p => (0 <= snd p < last_id s)%Z) (f2s s)
}.

Definition gate_ok (vvl : list bool) (c : nat) : Prop :=
  c < 3 * nf /\ nondeg c /\ nth (vtx c2v (next_c c)) vvl false = true /\ nth (vtx c2v (prev_c c)) vvl false = true.
Definition ogate_ok (vvl : list bool) (o : option nat) : Prop := match o with Some c => gate_ok vvl c | None => True end.
Definition stack_ok (s : est) : Prop := Forall (ogate_ok (vv s)) (stack s).

Lemma gate_mono l l' c : vle l l' -> gate_ok l c -> gate_ok l' c.
Proof. intros [_ M] (A & B & C & D). repeat split; auto. Qed.
Lemma ogate_mono l l' o : vle l l' -> ogate_ok l o -> ogate_ok l' o.
Proof. destruct o; simpl; auto. apply gate_mono. Qed.

(* the frame: fields a vv/vhole update does not touch *)
Lemma Base_vv ifs s vv' vh' : Base ifs s -> vle (vv s) vv' -> length vh' = nh ->
  Base ifs (with_vhole (with_vv s vv') vh').
Proof.
  intros B [L M] Lh. destruct B. constructor; simpl; auto.
  - lia.
  - intros x Hx Hf. destruct (b_vis0 x Hx Hf) as [P Q]. split; auto.
Qed.

Lemma check_split_J ifs s e o : (e = 0 \/ e = 1)%Z -> Jnv ifs s -> Jnv ifs (check_split s e o).
Proof.
  intros He J. unfold check_split. destruct o as [oc|]; auto.
  destruct (split_symbol_on_face (f2s s) (oc / 3)) as [id|] eqn:E; auto.
  assert (Hid : (0 <= id < last_id s)%Z).
  { destruct J as [_ _ _ F]. clear -E F. generalize dependent (oc / 3). intros q E.
    induction (f2s s) as [|[f' i'] r IH]; cbn [split_symbol_on_face] in *; [discriminate|].
    inversion F; subst. cbn [snd] in *. destruct (f' =? q). inversion E; subst; auto. auto. }
  destruct J as [B JL JN JF]. destruct B.
  constructor; simpl; auto. constructor; simpl; auto.
  - constructor; auto. repeat split; try lia.
  - constructor; auto. rewrite Forall_forall. intros [[src spl] ed] I. simpl.
    rewrite Forall_forall in b_evs0. specialize (b_evs0 _ I). simpl in b_evs0. lia.
Qed.
Lemma check_split_frame s e o : vf (check_split s e o) = vf s /\ vv (check_split s e o) = vv s /\
  stack (check_split s e o) = stack s /\ vhole (check_split s e o) = vhole s.
Proof. unfold check_split. destruct o; auto. destruct (split_symbol_on_face _ _); auto. Qed.

Lemma emit_Inv ifs s sym : Jnv ifs s -> In sym [0; 1; 3; 5; 7]%Z -> sym <> TOPOLOGY_S -> Inv ifs (emit s sym).
Proof.
  intros [B JL JN JF] Hs Hn. destruct B. constructor; cbn -[Z.of_nat]; auto.
  - constructor; simpl; auto. destruct (Z.eq_dec sym TOPOLOGY_S); [contradiction|auto].
  - rewrite Nat2Z.inj_succ. lia.
  - eapply Forall_impl; [|exact JF]. simpl. intros; lia.
Qed.

Definition mark_state (s : est) (c : nat) : est :=
  let s1 := with_pcc (with_vf (with_last_id s (last_id s + 1)%Z) (upd (vf s) (c / 3) true)) (c :: pcc s) in
  if nth (vtx c2v c) (vv s) false then s1 else with_vv s1 (upd (vv s) (vtx c2v c) true).

Lemma mark_frame s c : vf (mark_state s c) = upd (vf s) (c / 3) true /\ stack (mark_state s c) = stack s /\
  vhole (mark_state s c) = vhole s /\ vle (vv s) (vv (mark_state s c)) /\
  (vtx c2v c < length (vv s) -> nth (vtx c2v c) (vv (mark_state s c)) false = true).
Proof.
  unfold mark_state. destruct (nth (vtx c2v c) (vv s) false) eqn:E; simpl; repeat split; auto.
  - rewrite upd_length; auto.
  - intros i H. rewrite nth_upd. destruct ((i =? vtx c2v c) && _); auto.
  - intros. apply nth_upd_eq; auto.
Qed.

Lemma mark_J ifs s c : Inv ifs s -> gate_ok (vv s) c -> nth (c / 3) (vf s) false = false -> Jnv ifs (mark_state s c).
Proof.
  intros [B IL IN IF] (Hc & Hd & G1 & G2) Hf. destruct B.
  assert (Hf3 : c / 3 < nf) by (apply Nat.div_lt_upper_bound; lia).
  assert (Hvc : vtx c2v c < nv) by (apply Hv; auto).
  destruct (mark_frame s c) as (F1 & F2 & F3 & F4 & F5). specialize (F5 ltac:(lia)).
  assert (Epcc : pcc (mark_state s c) = c :: pcc s) by (unfold mark_state; cbv zeta; destruct (nth (vtx c2v c) (vv s) false); reflexivity).
  assert (Esy : syms (mark_state s c) = syms s) by (unfold mark_state; cbv zeta; destruct (nth (vtx c2v c) (vv s) false); reflexivity).
  assert (Eli : last_id (mark_state s c) = (last_id s + 1)%Z) by (unfold mark_state; cbv zeta; destruct (nth (vtx c2v c) (vv s) false); reflexivity).
  assert (Eev : evs (mark_state s c) = evs s) by (unfold mark_state; cbv zeta; destruct (nth (vtx c2v c) (vv s) false); reflexivity).
  assert (Ef2 : f2s (mark_state s c) = f2s s) by (unfold mark_state; cbv zeta; destruct (nth (vtx c2v c) (vv s) false); reflexivity).
  assert (Ens : nsplit (mark_state s c) = nsplit s) by (unfold mark_state; cbv zeta; destruct (nth (vtx c2v c) (vv s) false); reflexivity).
  constructor; [constructor|..]; rewrite ?F1, ?F3, ?Epcc, ?Esy, ?Eli, ?Eev, ?Ef2, ?Ens; auto.

  - rewrite upd_length; auto.
  - destruct F4; lia.
  - intros x Hx Hvis. rewrite nth_upd in Hvis. destruct (x / 3 =? c / 3) eqn:E.
    + apply Nat.eqb_eq in E. split; [unfold nondeg; rewrite E; auto|].
      destruct F4 as [_ M]. destruct (face_corners _ _ E) as [X|[X|X]]; subst x; auto.
    + simpl in Hvis. destruct (b_vis0 x Hx Hvis) as [P Q]. split; auto. destruct F4 as [_ M]. auto.
  - cbn [map app]. constructor; auto. intro I. apply b_in0 in I. destruct I. congruence.
  - intros f. cbn [map app In]. rewrite b_in0, nth_upd. split.
    + intros [E|[H1 H2]].
      * subst f. rewrite Nat.eqb_refl. split; auto. assert (c / 3 <? length (vf s) = true) by (apply Nat.ltb_lt; lia). rewrite H. auto.
      * split; auto. destruct ((f =? c / 3) && _); auto.
    + intros [H1 H2]. destruct (f =? c / 3) eqn:E; [left; apply Nat.eqb_eq in E; auto|right; split; auto].
  - eapply Forall_impl; [|exact b_evs0]. intros [[a b] d]. lia.
  - rewrite IL. lia.
  - cbn [length]. lia.
  - eapply Forall_impl; [|exact IF]. simpl. intros; lia.
Qed.

Definition is_some {A} (o : option A) : bool := match o with Some _ => true | None => false end.

Lemma inner_eq k' s c : c < 3 * nf -> length (vf s) = nf -> length (vv s) = nv ->
  inner c2v opp hid (S k') s (Some c) =
    let s2 := mark_state s c in
    let h := nth (vtx c2v c) hid None in
    let vis := nth (vtx c2v c) (vv s) false in
    let rc := opp_at opp (next_c c) in
    let lc := opp_at opp (prev_c c) in
    if negb vis && negb (is_some h) then inner c2v opp hid k' (emit s2 TOPOLOGY_C) rc
    else
      rfv <-- face_visited_opt (vf s2) rc ;;
      if rfv then
        let s3 := check_split s2 RIGHT_FACE_EDGE rc in
        lfv <-- face_visited_opt (vf s3) lc ;;
        if lfv then
          let s4 := emit (check_split s3 LEFT_FACE_EDGE lc) TOPOLOGY_E in
          match stack s4 with [] => EOob | _ :: r => EOk (with_stack s4 r) end
        else inner c2v opp hid k' (emit s3 TOPOLOGY_R) lc
      else
        lfv <-- face_visited_opt (vf s2) lc ;;
        if lfv then inner c2v opp hid k' (emit (check_split s2 LEFT_FACE_EDGE lc) TOPOLOGY_L) rc
        else
          let s3 := with_nsplit (emit s2 TOPOLOGY_S) (S (nsplit (emit s2 TOPOLOGY_S))) in
          s4 <-- (match h with
                  | Some hole => b <-- eget (vhole s3) hole ;; if b then EOk s3 else encode_hole c2v opp hid s3 c false
                  | None => EOk s3
                  end) ;;
          let s5 := with_f2s s4 ((c / 3, last_id s4) :: f2s s4) in
          match stack s5 with [] => EOob | _ :: r => EOk (with_stack s5 (rc :: lc :: r)) end.
Proof.
  intros Hc Lf Lv.
  assert (Hf3 : c / 3 < nf) by (apply Nat.div_lt_upper_bound; lia).
  assert (Hvc : vtx c2v c < nv) by (apply Hv; auto).
  cbn [inner]. cbn [with_last_id vf].
  rewrite (eset_lt (vf s) (c / 3) true) by lia. cbn [ebind].
  rewrite (e_vertex_ok c Hc). cbn [ebind].
  rewrite (eget_lt hid (vtx c2v c) None) by lia. cbn [ebind].
  est_simpl.
  rewrite (eget_lt (vv s) (vtx c2v c) false) by lia. cbn [ebind].
  unfold right_corner, left_corner.
  rewrite (e_opp_ok (next_c c)) by (apply next_lt; auto).
  rewrite (e_opp_ok (prev_c c)) by (apply prev_lt; auto).
  unfold mark_state. cbv zeta.
  destruct (nth (vtx c2v c) (vv s) false) eqn:Evis; cbn [ebind negb andb].
  - destruct (nth (vtx c2v c) hid None); reflexivity.
  - rewrite (eset_lt (vv s) (vtx c2v c) true) by lia. cbn [ebind].
    destruct (nth (vtx c2v c) hid None); reflexivity.
Qed.


Lemma fvo_some vfl oc : length vfl = nf -> oc < 3 * nf -> face_visited_opt vfl (Some oc) = EOk (nth (oc / 3) vfl false).
Proof. intros L H. unfold face_visited_opt. apply eget_lt. rewrite L. apply Nat.div_lt_upper_bound; lia. Qed.

Lemma right_gate vvl c r0 : c < 3 * nf -> opp_at opp (next_c c) = Some r0 ->
  nth (vtx c2v c) vvl false = true -> nth (vtx c2v (prev_c c)) vvl false = true ->
  gate_ok vvl r0 /\ r0 / 3 <> c / 3 /\ vtx c2v (next_c r0) = vtx c2v c.
Proof.
  intros Hc E A B. destruct (opp_facts _ _ E) as (_ & _ & Hr & _ & Dr & Nf & V1 & V2).
  rewrite next_next in V1. rewrite prev_next in V2. rewrite next_face in Nf.
  repeat split; auto; congruence.
Qed.
Lemma left_gate vvl c l0 : c < 3 * nf -> opp_at opp (prev_c c) = Some l0 ->
  nth (vtx c2v c) vvl false = true -> nth (vtx c2v (next_c c)) vvl false = true ->
  gate_ok vvl l0 /\ l0 / 3 <> c / 3.
Proof.
  intros Hc E A B. destruct (opp_facts _ _ E) as (_ & _ & Hr & _ & Dr & Nf & V1 & V2).
  rewrite next_prev in V1. rewrite prev_prev in V2. rewrite prev_face in Nf.
  repeat split; auto; congruence.
Qed.

Hypothesis EH : forall s c first, length (vv s) = nv -> length (vhole s) = nh -> c < 3 * nf ->
  nondeg c -> nth (vtx c2v c) hid None <> None ->
  exists vv' vh', encode_hole c2v opp hid s c first = EOk (with_vhole (with_vv s vv') vh') /\
     vle (vv s) vv' /\ length vh' = nh /\
     (first = true -> nth (vtx c2v c) vv' false = true /\
        (opp_at opp (prev_c c) = None -> nth (vtx c2v (prev_c (prev_c c))) vv' false = true)).

Lemma Jnv_vv ifs s vv' vh' : Jnv ifs s -> vle (vv s) vv' -> length vh' = nh -> Jnv ifs (with_vhole (with_vv s vv') vh').
Proof. intros [B A1 A2 A3] L H. constructor; auto. apply Base_vv; auto. Qed.

Lemma emit_S_Inv ifs s : Jnv ifs s -> Inv ifs (with_nsplit (emit s TOPOLOGY_S) (S (nsplit s))).
Proof.
  intros [B JL JN JF]. destruct B. constructor; cbn -[Z.of_nat]; auto.
  - constructor; simpl; auto.
  - rewrite Nat2Z.inj_succ. lia.
  - eapply Forall_impl; [|exact JF]. simpl. intros; lia.
Qed.
Lemma Inv_vv ifs s vv' vh' : Inv ifs s -> vle (vv s) vv' -> length vh' = nh -> Inv ifs (with_vhole (with_vv s vv') vh').
Proof. intros [B A1 A2 A3] L H. constructor; auto. apply Base_vv; auto. Qed.
Lemma Inv_f2s ifs s f : Inv ifs s -> syms s <> [] -> Inv ifs (with_f2s s ((f, last_id s) :: f2s s)).
Proof.
  intros [B A1 A2 A3] N. constructor; auto.
  - destruct B. constructor; auto.
  - cbn [f2s with_f2s last_id]. constructor; auto. cbn [snd]. rewrite A1. destruct (syms s); [congruence|]. cbn [length]. lia.
Qed.

Lemma ogate_opt vvl o : (forall x, o = Some x -> gate_ok vvl x) -> ogate_ok vvl o.
Proof. destruct o; simpl; auto. Qed.

Lemma inner_ok ifs : forall k s c top r, Inv ifs s -> stack s = top :: r -> stack_ok s -> gate_ok (vv s) c ->
  nth (c / 3) (vf s) false = false ->
  exists s', inner c2v opp hid k s (Some c) = EOk s' /\ Inv ifs s' /\ stack_ok s' /\
     Phi s' + (match k with 0 => 0 | _ => 1 end) <= Phi s.
Proof.
  induction k as [|k' IH]; intros s c top r I St SO G Hf.
  { exists s. split; [reflexivity|]. split; [auto|]. split; [auto|]. lia. }
  destruct G as (Hc & Hd & G1 & G2).
  pose proof (i_base _ _ I) as B0.
  rewrite inner_eq by (auto; apply B0). cbv zeta.
  assert (Hf3 : c / 3 < nf) by (apply Nat.div_lt_upper_bound; lia).
  assert (Hvc : vtx c2v c < nv) by (apply Hv; auto).
  pose proof (mark_J ifs s c I (conj Hc (conj Hd (conj G1 G2))) Hf) as J2.
  destruct (mark_frame s c) as (F1 & F2 & F3 & F4 & F5). specialize (F5 ltac:(rewrite (b_vv _ _ B0); lia)).
  set (s2 := mark_state s c) in *.
  assert (U2 : S (ucnt (vf s2)) = ucnt (vf s)).
  { rewrite F1. apply ucnt_upd; auto. rewrite (b_vf _ _ B0). auto. }
  assert (Lf2 : length (vf s2) = nf) by apply (j_base _ _ J2).
  assert (Gn : nth (vtx c2v (next_c c)) (vv s2) false = true) by (apply F4; auto).
  assert (Gp : nth (vtx c2v (prev_c c)) (vv s2) false = true) by (apply F4; auto).
  assert (SO2 : Forall (ogate_ok (vv s2)) (stack s)).
  { eapply Forall_impl; [|exact SO]. intros o. apply ogate_mono; auto. }
  assert (Vf2 : forall x, x / 3 <> c / 3 -> nth (x / 3) (vf s2) false = nth (x / 3) (vf s) false).
  { intros x Hx. rewrite F1. apply nth_upd_neq. auto. }
  destruct (negb (nth (vtx c2v c) (vv s) false) && negb (is_some (nth (vtx c2v c) hid None))) eqn:EC.
  - (* TOPOLOGY_C *)
    apply andb_prop in EC. destruct EC as [E1 E2]. apply negb_true_iff in E1, E2.
    destruct (nth (vtx c2v c) hid None) eqn:Eh; [discriminate|].
    destruct (opp_at opp (next_c c)) as [r0|] eqn:Er.
    2:{ exfalso. destruct (Hhb (next_c c)) as [_ X]; auto. apply next_lt; auto. unfold nondeg in Hd. rewrite next_face; auto.
        rewrite prev_next in X. congruence. }
    destruct (right_gate (vv s2) c r0 Hc Er F5 Gp) as (Gr & Nr & Vr).
    assert (Hr0 : nth (r0 / 3) (vf s2) false = false).
    { rewrite Vf2 by auto. destruct (nth (r0 / 3) (vf s) false) eqn:X; auto.
      destruct Gr as (Hr & _). destruct (b_vis _ _ B0 (next_c r0) (next_lt _ _ Hr)) as [_ Y]. rewrite next_face; auto.
      rewrite Vr in Y. congruence. }
    destruct (IH (emit s2 TOPOLOGY_C) r0 top r) as (s' & R1 & R2 & R3 & R4); auto.
    + apply emit_Inv; auto; [cbv; tauto|discriminate].
    + simpl. rewrite F2. auto.
    + unfold stack_ok. simpl. rewrite F2. auto.
    + exists s'. split; [auto|]. split; [auto|]. split; [auto|]. unfold Phi in *. simpl in R4. rewrite F2 in R4. destruct k'; lia.
  - (* not C *)
    clear EC.
    set (rc := opp_at opp (next_c c)) in *. set (lc := opp_at opp (prev_c c)) in *.
    assert (Grc : forall x, rc = Some x -> gate_ok (vv s2) x /\ x / 3 <> c / 3).
    { intros x E. destruct (right_gate (vv s2) c x Hc E F5 Gp) as (A & B & _). auto. }
    assert (Glc : forall x, lc = Some x -> gate_ok (vv s2) x /\ x / 3 <> c / 3).
    { intros x E. apply (left_gate (vv s2) c x Hc E F5 Gn). }
    assert (FV : forall vfl o, length vfl = nf -> (forall x, o = Some x -> x < 3 * nf) ->
              exists b, face_visited_opt vfl o = EOk b /\ (b = false -> exists x, o = Some x /\ nth (x / 3) vfl false = false)).
    { intros vfl o L H. destruct o as [x|].
      - rewrite fvo_some by auto. eexists. split; eauto.
      - exists true. split; auto. discriminate. }
    assert (Rlt : forall x, rc = Some x -> x < 3 * nf) by (intros x E; apply (Grc x E)).
    assert (Llt : forall x, lc = Some x -> x < 3 * nf) by (intros x E; apply (Glc x E)).
    destruct (FV (vf s2) rc Lf2 Rlt) as (rfv & Erf & Hrf). rewrite Erf. cbn [ebind].
    destruct rfv.
    + (* right visited *)
      pose proof (check_split_J ifs s2 RIGHT_FACE_EDGE rc (or_intror eq_refl) J2) as J3.
      destruct (check_split_frame s2 RIGHT_FACE_EDGE rc) as (C1 & C2 & C3 & C4).
      set (s3 := check_split s2 RIGHT_FACE_EDGE rc) in *.
      destruct (FV (vf s3) lc ltac:(rewrite C1; auto) Llt) as (lfv & Elf & Hlf). rewrite Elf. cbn [ebind].
      destruct lfv.
      * (* E *)
        pose proof (check_split_J ifs s3 LEFT_FACE_EDGE lc (or_introl eq_refl) J3) as J4.
        destruct (check_split_frame s3 LEFT_FACE_EDGE lc) as (D1 & D2 & D3 & D4).
        set (s4 := check_split s3 LEFT_FACE_EDGE lc) in *.
        pose proof (emit_Inv ifs s4 TOPOLOGY_E J4 ltac:(cbv; tauto) ltac:(discriminate)) as I5.
        cbn [emit with_syms stack]. rewrite D3, C3, F2, St.
        eexists. split; [reflexivity|]. split; [|split].
        -- destruct I5 as [B5 X1 X2 X3]. destruct B5. constructor; auto. constructor; auto.
        -- unfold stack_ok. cbn [with_stack stack vv emit with_syms]. rewrite D2, C2. rewrite St in SO2. inversion SO2; auto.
        -- unfold Phi. cbn [with_stack stack vf emit with_syms]. rewrite D1, C1, St. simpl. lia.
      * (* R *)
        destruct (Hlf eq_refl) as (l0 & El & Hl0). rewrite El.
        destruct (Glc l0 El) as (Gl & Nl).
        destruct (IH (emit s3 TOPOLOGY_R) l0 top r) as (s' & R1 & R2 & R3 & R4); auto.
        -- apply emit_Inv; auto; [cbv; tauto|discriminate].
        -- simpl. rewrite C3, F2. auto.
        -- unfold stack_ok. simpl. rewrite C3, C2, F2. auto.
        -- simpl. rewrite C2. auto.
        -- exists s'. split; [auto|]. split; [auto|]. split; [auto|]. unfold Phi in *. simpl in R4. rewrite C1, C3, F2 in R4. destruct k'; lia.
    + (* right not visited *)
      destruct (Hrf eq_refl) as (r0 & Er & Hr0).
      destruct (FV (vf s2) lc Lf2 Llt) as (lfv & Elf & Hlf). rewrite Elf. cbn [ebind].
      destruct lfv.
      * (* L *)
        pose proof (check_split_J ifs s2 LEFT_FACE_EDGE lc (or_introl eq_refl) J2) as J3.
        destruct (check_split_frame s2 LEFT_FACE_EDGE lc) as (C1 & C2 & C3 & C4).
        set (s3 := check_split s2 LEFT_FACE_EDGE lc) in *.
        rewrite Er. destruct (Grc r0 Er) as (Gr & Nr).
        destruct (IH (emit s3 TOPOLOGY_L) r0 top r) as (s' & R1 & R2 & R3 & R4); auto.
        -- apply emit_Inv; auto; [cbv; tauto|discriminate].
        -- simpl. rewrite C3, F2. auto.
        -- unfold stack_ok. simpl. rewrite C3, C2, F2. auto.
        -- simpl. rewrite C2. auto.
        -- simpl. rewrite C1. auto.
        -- exists s'. split; [auto|]. split; [auto|]. split; [auto|]. unfold Phi in *. simpl in R4. rewrite C1, C3, F2 in R4. destruct k'; lia.
      * (* S *)
        pose proof (emit_S_Inv ifs s2 J2) as I3.
        set (s3 := with_nsplit (emit s2 TOPOLOGY_S) (S (nsplit (emit s2 TOPOLOGY_S)))) in *.
        change (nsplit (emit s2 TOPOLOGY_S)) with (nsplit s2) in *.
        assert (H4 : exists s4, (match nth (vtx c2v c) hid None with
                  | Some hole => b <-- eget (vhole s3) hole ;; if b then EOk s3 else encode_hole c2v opp hid s3 c false
                  | None => EOk s3 end) = EOk s4 /\ Inv ifs s4 /\ vle (vv s3) (vv s4) /\ vf s4 = vf s3 /\ stack s4 = stack s3 /\ syms s4 = syms s3).
        { assert (Lh3 : length (vhole s3) = nh) by apply (i_base _ _ I3).
          destruct (nth (vtx c2v c) hid None) as [hole|] eqn:Eh.
          - rewrite (eget_lt (vhole s3) hole false) by (rewrite Lh3; eapply Hhr; eauto). cbn [ebind].
            destruct (nth hole (vhole s3) false).
            + exists s3. split; [reflexivity|]. split; [exact I3|]. split; [apply vle_refl|]. auto.
            + destruct (EH s3 c false) as (vv' & vh' & E1 & E2 & E3 & _); auto; try apply (i_base _ _ I3). congruence.
              rewrite E1. eexists. split; [reflexivity|]. split; [apply Inv_vv; auto|]. split; [exact E2|]. auto.
          - exists s3. split; [reflexivity|]. split; [exact I3|]. split; [apply vle_refl|]. auto. }
        destruct H4 as (s4 & E4 & I4 & M4 & Vf4 & St4 & Sy4). rewrite E4. cbn [ebind].
        assert (Ns : syms s4 <> []) by (rewrite Sy4; discriminate).
        pose proof (Inv_f2s ifs s4 (c / 3) I4 Ns) as I5.
        set (s5 := with_f2s s4 ((c / 3, last_id s4) :: f2s s4)) in *.
        assert (St5 : stack s5 = top :: r) by (cbn [s5 with_f2s stack]; rewrite St4; cbn [s3 stack with_nsplit emit with_syms]; rewrite F2; auto).
        rewrite St5. eexists. split; [reflexivity|]. split; [|split].
        -- destruct I5 as [B5 X1 X2 X3]. destruct B5. constructor; auto. constructor; auto.
        -- unfold stack_ok. cbn [with_stack stack vv s5 with_f2s].
           assert (M : vle (vv s2) (vv s4)) by exact M4.
           constructor; [|constructor].
           ++ apply ogate_opt. intros x E. eapply gate_mono; [exact M|apply (Grc x E)].
           ++ apply ogate_opt. intros x E. eapply gate_mono; [exact M|apply (Glc x E)].
           ++ rewrite St in SO2. inversion SO2; subst. eapply Forall_impl; [|eassumption]. intros o. apply ogate_mono; auto.
        -- unfold Phi. cbn [with_stack stack vf s5 with_f2s]. rewrite Vf4. cbn [s3 vf with_nsplit emit with_syms]. rewrite St. simpl. lia.
Qed.

Lemma Inv_stack ifs s st : Inv ifs s -> Inv ifs (with_stack s st).
Proof. intros [B A1 A2 A3]. destruct B. constructor; auto. constructor; auto. Qed.

Lemma ucnt_le l : ucnt l <= length l. Proof. unfold ucnt. lia. Qed.

Lemma outer_ok ifs : forall fuel s, Inv ifs s -> stack_ok s -> Phi s < fuel ->
  exists s', outer c2v opp hid fuel s = EOk s' /\ Inv ifs s' /\ stack s' = [].
Proof.
  induction fuel as [|k IH]; intros s I SO HP; [lia|].
  cbn [outer]. destruct (stack s) as [|top r] eqn:St.
  - exists s. auto.
  - assert (Pop : exists s', outer c2v opp hid k (with_stack s r) = EOk s' /\ Inv ifs s' /\ stack s' = []).
    { apply IH. apply Inv_stack; auto. unfold stack_ok in *. cbn [with_stack stack vv]. rewrite St in SO. inversion SO; auto.
      unfold Phi in *. cbn [with_stack stack vf]. rewrite St in HP. simpl in HP. lia. }
    destruct top as [c|]; auto.
    assert (G : gate_ok (vv s) c). { unfold stack_ok in SO. rewrite St in SO. inversion SO; auto. }
    assert (Hf3 : c / 3 < nf) by (destruct G; apply Nat.div_lt_upper_bound; lia).
    rewrite (eget_lt (vf s) (c / 3) false) by (rewrite (b_vf _ _ (i_base _ _ I)); auto). cbn [ebind].
    destruct (nth (c / 3) (vf s) false) eqn:Ef; auto.
    rewrite NF_eq.
    destruct (inner_ok ifs nf s c (Some c) r I St SO G Ef) as (s1 & E1 & I1 & SO1 & P1). rewrite E1. cbn [ebind].
    apply IH; auto. destruct nf; lia.
Qed.

Lemma from_corner_ok ifs s c : Inv ifs s -> gate_ok (vv s) c ->
  exists s', from_corner c2v opp hid s (Some c) = EOk s' /\ Inv ifs s' /\ stack s' = [].
Proof.
  intros I G. unfold from_corner. apply outer_ok.
  - apply Inv_stack; auto.
  - unfold stack_ok. cbn [with_stack stack vv]. constructor; auto.
  - unfold Phi, outer_fuel. cbn [with_stack stack vf length]. rewrite NF_eq.
    pose proof (ucnt_le (vf s)). rewrite (b_vf _ _ (i_base _ _ I)) in H. lia.
Qed.

Hypothesis FI : forall f, f < nf -> is_degenerated c2v f = false ->
  exists start interior, find_init c2v opp hid f = EOk (start, interior) /\ start < 3 * nf /\
    (interior = true -> start / 3 = f) /\ (interior = false -> nondeg start /\ opp_at opp start = None).

Definition ECinv (st : eres (est * list bool * list nat)) : Prop :=
  exists s bits inits, st = EOk (s, bits, inits) /\ Inv (map (fun c => c / 3) (rev inits)) s /\
    Forall (fun c => c < 3 * nf) inits /\ length inits = count_occ bool_dec bits true.

Lemma Inv_init ifs s f vv' : Inv ifs s -> f < nf -> nth f (vf s) false = false -> is_degenerated c2v f = false ->
  vle (vv s) vv' -> (forall x, x < 3 * nf -> x / 3 = f -> nth (vtx c2v x) vv' false = true) ->
  Inv (ifs ++ [f]) (with_vf (with_vv s vv') (upd (vf s) f true)).
Proof.
  intros [B A1 A2 A3] Hf Hn Hd [L M] HV. destruct B. constructor; auto. constructor; cbn [with_vf with_vv vf vv vhole pcc syms nsplit evs last_id]; auto.
  - rewrite upd_length; auto.
  - lia.
  - intros x Hx Hvis. rewrite nth_upd in Hvis. destruct (x / 3 =? f) eqn:E.
    + apply Nat.eqb_eq in E. split; [unfold nondeg; rewrite E; auto|]. auto.
    + simpl in Hvis. destruct (b_vis0 x Hx Hvis) as [P Q]. split; auto.
  - rewrite app_assoc. apply NoDup_snoc; auto. intro I. apply b_in0 in I. destruct I. congruence.
  - intros g. rewrite app_assoc, in_app_iff, b_in0, nth_upd. cbn [In]. split.
    + intros [[H1 H2]|[E|[]]].
      * split; auto. destruct ((g =? f) && _); auto.
      * subst g. rewrite Nat.eqb_refl. split; auto. assert (f <? length (vf s) = true) by (apply Nat.ltb_lt; lia). rewrite H. auto.
    + intros [H1 H2]. destruct (g =? f) eqn:E; [right; left; apply Nat.eqb_eq in E; auto|left; split; auto].
Qed.

Lemma ec_corner_ok st c_id : c_id < 3 * nf -> ECinv st -> ECinv (ec_corner c2v opp hid st c_id).
Proof.
  intros Hc (s & bits & inits & -> & I & Fi & Cb). unfold ec_corner. cbn [ebind].
  assert (Hf3 : c_id / 3 < nf) by (apply Nat.div_lt_upper_bound; lia).
  pose proof (i_base _ _ I) as B0.
  rewrite (eget_lt (vf s) (c_id / 3) false) by (rewrite (b_vf _ _ B0); auto). cbn [ebind].
  destruct (nth (c_id / 3) (vf s) false) eqn:Ef. { exists s, bits, inits. auto. }
  destruct (is_degenerated c2v (c_id / 3)) eqn:Ed. { exists s, bits, inits. auto. }
  destruct (FI _ Hf3 Ed) as (start & interior & E1 & Hs & HI & HB). rewrite E1. cbn [ebind].
  destruct interior.
  - specialize (HI eq_refl). clear HB.
    rewrite (e_vertex_ok start Hs), (e_vertex_ok (next_c start)), (e_vertex_ok (prev_c start)) by (try apply next_lt; try apply prev_lt; auto).
    cbn [ebind].
    pose proof (Hv start Hs) as V1. pose proof (Hv _ (next_lt _ _ Hs)) as V2. pose proof (Hv _ (prev_lt _ _ Hs)) as V3.
    rewrite (eset_lt (vv s)) by (rewrite (b_vv _ _ B0); auto). cbn [ebind].
    rewrite eset_lt by (rewrite upd_length, (b_vv _ _ B0); auto). cbn [ebind].
    rewrite eset_lt by (rewrite !upd_length, (b_vv _ _ B0); auto). cbn [ebind].
    rewrite (eset_lt (vf s)) by (rewrite (b_vf _ _ B0); auto). cbn [ebind].
    set (vv' := upd (upd (upd (vv s) (vtx c2v start) true) (vtx c2v (next_c start)) true) (vtx c2v (prev_c start)) true).
    assert (M : vle (vv s) vv') by (unfold vv'; eapply vle_trans; [eapply vle_trans|]; apply vle_upd).
    assert (Lv : length (vv s) = nv) by apply B0.
    assert (A1 : nth (vtx c2v start) vv' false = true).
    { unfold vv'. rewrite !nth_upd. rewrite !upd_length.
      destruct ((_ =? _) && _); auto. destruct ((_ =? _) && _); auto. rewrite Nat.eqb_refl.
      assert (vtx c2v start <? length (vv s) = true) by (apply Nat.ltb_lt; lia). rewrite H. auto. }
    assert (A2 : nth (vtx c2v (next_c start)) vv' false = true).
    { unfold vv'. rewrite !nth_upd. rewrite !upd_length.
      destruct ((_ =? _) && _); auto. rewrite Nat.eqb_refl.
      assert (vtx c2v (next_c start) <? length (vv s) = true) by (apply Nat.ltb_lt; lia). rewrite H. auto. }
    assert (A3 : nth (vtx c2v (prev_c start)) vv' false = true).
    { unfold vv'. rewrite nth_upd. rewrite !upd_length. rewrite Nat.eqb_refl.
      assert (vtx c2v (prev_c start) <? length (vv s) = true) by (apply Nat.ltb_lt; lia). rewrite H. auto. }
    assert (I1 : Inv (map (fun c => c / 3) (rev (next_c start :: inits))) (with_vf (with_vv s vv') (upd (vf s) (c_id / 3) true))).
    { cbn [rev]. rewrite map_app. cbn [map]. cbv beta. rewrite (next_face start), HI. apply Inv_init; auto.
      intros x Hx Ex. rewrite <- HI in Ex. destruct (face_corners _ _ Ex) as [X|[X|X]]; subst x; auto. }
    set (s1 := with_vf (with_vv s vv') (upd (vf s) (c_id / 3) true)) in *.
    assert (Done : ECinv (EOk (s1, true :: bits, next_c start :: inits))).
    { exists s1, (true :: bits), (next_c start :: inits). split; auto. split; auto. split.
      constructor; auto. apply next_lt; auto. cbn [length count_occ]. destruct (bool_dec true true); [lia|congruence]. }
    rewrite (e_opp_ok (next_c start)) by (apply next_lt; auto). cbn [ebind].
    destruct (opp_at opp (next_c start)) as [oc|] eqn:Eo; auto.
    destruct (right_gate vv' start oc Hs Eo A1 A3) as (Go & _ & _).
    assert (Ho3 : oc / 3 < nf) by (destruct Go; apply Nat.div_lt_upper_bound; lia).
    cbn [s1 with_vf vf]. rewrite (eget_lt (upd (vf s) (c_id / 3) true) (oc / 3) false) by (rewrite upd_length, (b_vf _ _ B0); auto). cbn [ebind].
    destruct (nth (oc / 3) (upd (vf s) (c_id / 3) true) false); auto.
    destruct (from_corner_ok _ s1 oc I1 Go) as (s' & E' & I' & _). fold s1. rewrite E'. cbn [ebind].
    exists s', (true :: bits), (next_c start :: inits). split; auto. split; auto. split.
    constructor; auto. apply next_lt; auto. cbn [length count_occ]. destruct (bool_dec true true); [lia|congruence].
  - destruct (HB eq_refl) as (Dn & On). clear HI HB.
    destruct (Hhb start Hs Dn On) as (Hn1 & Hn2).
    assert (Dn' : nondeg (next_c start)) by (unfold nondeg in *; rewrite next_face; auto).
    destruct (EH s (next_c start) true (b_vv _ _ B0) (b_vh _ _ B0) (next_lt _ _ Hs) Dn' Hn1) as (vv' & vh' & E2 & M & Lh & Fst).
    destruct (Fst eq_refl) as (A1 & A2). rewrite prev_next in A2. specialize (A2 On).
    rewrite E2. cbn [ebind].
    pose proof (Inv_vv _ s vv' vh' I M Lh) as I1.
    destruct (from_corner_ok _ _ start I1) as (s' & E' & I' & _).
    { repeat split; auto. }
    rewrite E'. cbn [ebind].
    exists s', (false :: bits), inits. split; auto.
Qed.

Lemma ec_fold_ok l : Forall (fun c => c < 3 * nf) l -> forall st, ECinv st -> ECinv (fold_left (ec_corner c2v opp hid) l st).
Proof.
  induction 1; intros st I; simpl; auto. apply IHForall. apply ec_corner_ok; auto.
Qed.

Lemma nth_repeat_false k i : nth i (repeat false k) false = false.
Proof. revert i; induction k; destruct i; simpl; auto. Qed.

Lemma init_Inv vh0 : length vh0 = nh -> Inv [] (init_est nf nv vh0).
Proof.
  intros L. unfold init_est. constructor; cbn; auto. constructor; cbn; auto.
  - apply repeat_length.
  - apply repeat_length.
  - intros x _ H. rewrite nth_repeat_false in H. discriminate.
  - constructor.
  - intros f. rewrite nth_repeat_false. split; [tauto|intros [_ X]; discriminate].
  - constructor.
Qed.

(** what is proved of an output of the encoder *)
Definition out_ok (o : enc_out) : Prop :=
  NoDup (map (fun c => c / 3) (o_pcc o)) /\
  Forall (fun c => c < 3 * nf /\ is_degenerated c2v (c / 3) = false) (o_pcc o) /\
  o_nsyms o = Z.of_nat (length (o_syms o)) /\
  length (o_pcc o) = length (o_syms o) + count_occ bool_dec (o_bits o) true /\
  o_nsplit o = Z.of_nat (count_occ Z.eq_dec (o_syms o) TOPOLOGY_S) /\
  Forall (fun x => In x [0; 1; 3; 5; 7]%Z) (o_syms o) /\
  Forall (fun e => match e with (src, spl, ed) => (0 <= spl < src)%Z /\ (src < o_nsyms o)%Z /\ (ed = 0 \/ ed = 1)%Z end) (o_events o) /\
  StronglySorted (fun e e' => (fst (fst e) <= fst (fst e'))%Z) (o_events o).

Theorem encode_from_holes vh niso ndeg : length vh = nh -> nf <> ndeg ->
  find_holes c2v opp nv = EOk (hid, vh) ->
  exists o, eb_encode c2v opp nv niso ndeg = EOk o /\ out_ok o /\
            o_nverts o = (Z.of_nat nv - Z.of_nat niso)%Z /\ o_nfaces o = (Z.of_nat nf - Z.of_nat ndeg)%Z.
Proof.
  intros Lh Nd FH. unfold eb_encode. rewrite NF_eq. apply Nat.eqb_neq in Nd. rewrite Nd. rewrite FH. cbn [ebind].
  rewrite NC_eq.
  destruct (ec_fold_ok (seq 0 (3 * nf))) with (st := EOk (init_est nf nv vh, @nil bool, @nil nat)) as (s & bits & inits & E & I & Fi & Cb).
  - apply Forall_forall. intros x Hx. apply in_seq in Hx. lia.
  - exists (init_est nf nv vh), [], []. split; auto. split. apply init_Inv; auto. split; auto.
  - rewrite E. cbn [ebind]. eexists. split; [reflexivity|]. split; [|split; reflexivity].
    destruct I as [B A1 A2 A3]. destruct B.
    unfold out_ok. cbn [o_pcc o_nsyms o_syms o_bits o_nsplit o_events].
    rewrite !rev_length, !count_occ_rev.
    split; [rewrite map_app; auto|].
    split.
    { apply Forall_forall. intros c Hc.
      assert (Hin : In (c / 3) (map (fun c => c / 3) (pcc s) ++ map (fun c => c / 3) (rev inits))).
      { rewrite <- map_app. apply (in_map (fun c => c / 3)). auto. }
      apply b_in0 in Hin. destruct Hin as [H1 H2].
      assert (Hlt : c < 3 * nf).
      { apply in_app_or in Hc. destruct Hc as [Hc|Hc]. rewrite Forall_forall in b_pcc0; auto.
        apply in_rev in Hc. rewrite Forall_forall in Fi; auto. }
      split; auto. apply (b_vis0 c Hlt H2). }
    split; auto. split. { rewrite app_length, rev_length. lia. }
    split. { rewrite b_split0. auto. }
    split. { apply Forall_rev. auto. }
    split. { apply Forall_rev. eapply Forall_impl; [|exact b_evs0]. intros [[a b] d]. lia. }
    apply sorted_rev; auto.
Qed.
End Core.

Lemma oiter_none f k : oiter f k None = None.
Proof. induction k; simpl; auto. rewrite IHk. auto. Qed.
Lemma oiter_add f a b x : oiter f (a + b) x = oiter f b (oiter f a x).
Proof.
  induction b; simpl. rewrite Nat.add_0_r. auto.
  rewrite Nat.add_succ_r. cbn [oiter]. rewrite IHb. auto.
Qed.

Section Holes.
Variables (c2v : list nat) (opp : list (option nat)) (nf nv : nat).
Hypothesis Hlen : length c2v = 3 * nf.
Hypothesis OK : opp_ok c2v opp.
Hypothesis Hv : forall c, c < 3 * nf -> vtx c2v c < nv.
Let n := 3 * nf.
Let sl := swing_left opp.
Let sr := swing_right opp.
Let srng := sr_rng c2v opp nf Hlen OK.
Let sinj := sr_inj c2v opp nf Hlen OK.

Lemma srng' a b : sr a = Some b -> b < 3 * nf.
Proof. intros H. apply srng in H. lia. Qed.

(* path reversal *)
Lemma sr_rev k : forall a b, oiter sr k (Some a) = Some b -> oiter sl k (Some b) = Some a.
Proof.
  induction k; intros a b H. simpl in *. congruence.
  cbn [oiter] in H. destruct (oiter sr k (Some a)) as [y|] eqn:E; [|discriminate].
  pose proof (sr_sl c2v opp nf Hlen OK _ _ H) as S1.
  replace (S k) with (1 + k) by lia. rewrite oiter_add. change (oiter sl 1 (Some b)) with (sl b). unfold sl at 2. rewrite S1. apply IHk. auto.
Qed.

(* a right chain that ends never returns to its start *)
Lemma ends_no_return x m : oiter sr m (Some x) = None -> forall i, 1 <= i -> oiter sr i (Some x) <> Some x.
Proof.
  intros Hm i Hi E. pose proof (sr_rev _ _ _ E) as R.
  exact (open_no_cycle sr sl (sl_sr c2v opp nf Hlen OK) m x Hm i Hi R).
Qed.

Lemma fi_swing_step k c : c < 3 * nf ->
  fi_swing opp (S k) c = match sr c with None => EOk c | Some c' => fi_swing opp k c' end.
Proof.
  intros Hc. cbn [fi_swing]. rewrite (e_opp_ok c2v opp nf Hlen OK (prev_c c)) by (apply prev_lt; auto). cbn [ebind].
  unfold sr, swing_right. destruct (opp_at opp (prev_c c)); auto.
Qed.

Lemma fi_swing_total x : x < 3 * nf -> (exists m, oiter sr m (Some x) = None) ->
  forall fuel k cur, (forall i, i <= k -> oiter sr i (Some x) <> None) -> oiter sr k (Some x) = Some cur -> 3 * nf < fuel + k ->
  exists y, fi_swing opp fuel cur = EOk y /\ reach sr x y /\ sr y = None /\ y < 3 * nf.
Proof.
  intros Hx [m Hm]. pose proof (ends_no_return x m Hm) as NR.
  induction fuel; intros k cur R E F.
  - assert (RR : running sr x k) by (split; auto; intros; apply NR; lia).
    pose proof (running_bound sr (length c2v) srng sinj x k ltac:(lia) RR). lia.
  - assert (Hcur : cur < 3 * nf). { destruct k. simpl in E. congruence. cbn [oiter] in E. destruct (oiter sr k (Some x)); [|discriminate]. eapply srng'; eauto. }
    rewrite fi_swing_step by auto. destruct (sr cur) as [c'|] eqn:Sw.
    + apply (IHfuel (S k)); try lia.
      * intros i Hi. destruct (Nat.eq_dec i (S k)); [subst; cbn [oiter]; rewrite E, Sw; discriminate|apply R; lia].
      * cbn [oiter]. rewrite E. auto.
    + exists cur. repeat split; auto. exists k. auto.
Qed.

Lemma fi_swing_ok x : x < 3 * nf -> (exists m, oiter sr m (Some x) = None) ->
  exists y, fi_swing opp (swing_fuel c2v) x = EOk y /\ reach sr x y /\ sr y = None /\ y < 3 * nf.
Proof.
  intros Hx Hm. apply (fi_swing_total x Hx Hm (swing_fuel c2v) 0 x); auto.
  - intros i Hi. replace i with 0 by lia. simpl. discriminate.
  - unfold swing_fuel, NC. lia.
Qed.

Lemma bnd_fi fuel : forall x, bnd_swing opp fuel (prev_c x) =
  match fi_swing opp fuel x with EOk y => EOk (prev_c y) | EFail => EFail | EOob => EOob | EFuel => EFuel end.
Proof.
  induction fuel; intros x; cbn [bnd_swing fi_swing]; auto.
  destruct (e_opp opp (prev_c x)) as [o| | |]; cbn [ebind]; auto.
  destruct o as [oc|]; auto. rewrite <- IHfuel. rewrite prev_prev. auto.
Qed.

(* vertices and degeneracy along a right chain *)
Lemma reach_same x y : reach sr x y -> vtx c2v y = vtx c2v x /\ (is_degenerated c2v (x / 3) = false -> is_degenerated c2v (y / 3) = false).
Proof.
  intros [k E]. revert y E. induction k; intros y E; simpl in E.
  - inversion E; subst; auto.
  - destruct (oiter sr k (Some x)) as [z|] eqn:Ez; [|discriminate]. destruct (IHk z eq_refl) as [A B].
    destruct (swing_right_ok c2v opp nf Hlen OK _ _ E) as (_ & V1 & D1 & _). split; [congruence|auto].
Qed.

(* a boundary corner j (no opposite): Previous(j) is the left end of its fan *)
Lemma bcorner_left j : opp_at opp j = None -> sl (prev_c j) = None.
Proof. intros H. unfold sl, swing_left. rewrite next_prev, H. auto. Qed.
Lemma left_ends x : x < 3 * nf -> sl x = None -> exists m, oiter sr m (Some x) = None.
Proof.
  intros Hx Hl.
  assert (NR : forall i, 1 <= i -> oiter sr i (Some x) <> Some x).
  { apply (open_no_cycle sl sr (sr_sl c2v opp nf Hlen OK) 1 x). simpl. auto. }
  assert (G : forall fuel k cur, running sr x k -> oiter sr k (Some x) = Some cur -> 3 * nf < fuel + k ->
              exists m, oiter sr m (Some x) = None).
  { induction fuel; intros k cur R E F.
    - pose proof (running_bound sr (length c2v) srng sinj x k ltac:(lia) R). lia.
    - destruct (sr cur) as [c'|] eqn:Sw.
      + apply (IHfuel (S k) c'); try lia.
        * apply (running_S sr (length c2v) srng sinj x k cur c' R E Sw). intro; subst c'.
          apply (NR (S k)); [lia|]. cbn [oiter]. rewrite E. auto.
        * cbn [oiter]. rewrite E. auto.
      + exists (S k). cbn [oiter]. rewrite E. auto. }
  apply (G (S (3 * nf)) 0 x); auto; try lia. apply (running_0 sr (length c2v) srng sinj x).
Qed.

(* the right end of the fan of a boundary corner's Previous corner: the next boundary corner *)
Lemma bnd_next j : j < 3 * nf -> opp_at opp j = None ->
  exists y, bnd_swing opp (swing_fuel c2v) (next_c j) = EOk (prev_c y) /\ reach sr (prev_c j) y /\ sr y = None /\ y < 3 * nf.
Proof.
  intros Hj Hb. rewrite <- (prev_prev j). rewrite bnd_fi.
  destruct (fi_swing_ok (prev_c j)) as (y & E & R & S1 & L).
  - apply prev_lt; auto.
  - apply left_ends. apply prev_lt; auto. apply bcorner_left; auto.
  - rewrite E. exists y. auto.
Qed.
Lemma sr_none_opp y : sr y = None -> opp_at opp (prev_c y) = None.
Proof. unfold sr, swing_right. destruct (opp_at opp (prev_c y)); [discriminate|auto]. Qed.

Definition bc (j : nat) : Prop := j < 3 * nf /\ is_degenerated c2v (j / 3) = false /\ opp_at opp j = None.

Lemma bc_next j : bc j -> exists y, bnd_swing opp (swing_fuel c2v) (next_c j) = EOk (prev_c y) /\ bc (prev_c y) /\
  vtx c2v y = vtx c2v (prev_c j) /\ reach sr (prev_c j) y /\ sr y = None.
Proof.
  intros (Hj & Hd & Ho). destruct (bnd_next j Hj Ho) as (y & E & R & S1 & L).
  exists y. split; auto. destruct (reach_same _ _ R) as [A B]. split; [|auto].
  split; [apply prev_lt; auto|]. split; [|apply sr_none_opp; auto].
  rewrite prev_face. apply B. rewrite prev_face. auto.
Qed.

Definition cntN (l : list (option nat)) : nat := length (filter (fun o => match o with None => true | Some _ => false end) l).
Lemma cntN_upd l i b : i < length l -> nth i l None = None -> S (cntN (upd l i (Some b))) = cntN l.
Proof.
  unfold cntN. revert i; induction l as [|a l]; intros i H E; simpl in *; [lia|].
  destruct i; simpl in *. subst a. simpl. auto.
  destruct a; simpl; auto. rewrite IHl; auto. lia. f_equal. apply IHl; auto. lia.
Qed.

Lemma fh_walk_ok bid : forall fuel hid c bv, length hid = nv -> bc c -> bv = vtx c2v (next_c c) -> cntN hid < fuel ->
  exists hid', fh_walk c2v opp fuel hid bid c bv = EOk hid' /\ length hid' = nv /\
    (forall v, nth v hid None <> None -> nth v hid' None = nth v hid None) /\
    (forall v, nth v hid None = None -> nth v hid' None <> None -> nth v hid' None = Some bid /\ exists j, bc j /\ vtx c2v (next_c j) = v) /\
    (nth bv hid None = None -> nth bv hid' None <> None).
Proof.
  induction fuel; intros hid c bv L B Ebv F; [lia|].
  assert (Hbv : bv < nv). { subst bv. apply Hv. apply next_lt. apply B. }
  cbn [fh_walk]. rewrite (eget_lt hid bv None) by lia. cbn [ebind].
  destruct (nth bv hid None) as [h|] eqn:Eh.
  - exists hid. repeat split; auto; try congruence.
  - rewrite (eset_lt hid bv) by lia. cbn [ebind].
    destruct (bc_next c B) as (y & E1 & B1 & V1 & _). rewrite E1. cbn [ebind].
    assert (Hy : next_c (prev_c y) < 3 * nf) by (apply next_lt; apply B1).
    rewrite (e_vertex_ok c2v nf Hlen _ Hy). cbn [ebind].
    destruct (IHfuel (upd hid bv (Some bid)) (prev_c y) (vtx c2v (next_c (prev_c y)))) as (hid' & R1 & R2 & R3 & R4 & R5); auto.
    { rewrite upd_length; auto. }
    { pose proof (cntN_upd hid bv bid ltac:(lia) Eh). lia. }
    exists hid'. split; auto. split; auto.
    assert (Hup : forall v, nth v (upd hid bv (Some bid)) None = if v =? bv then Some bid else nth v hid None).
    { intros v. rewrite nth_upd. destruct (v =? bv); simpl; auto. assert (bv <? length hid = true) by (apply Nat.ltb_lt; lia). rewrite H. auto. }
    split; [|split].
    + intros v Hn. rewrite R3. rewrite Hup. destruct (v =? bv) eqn:X; auto. apply Nat.eqb_eq in X. subst v. congruence.
      rewrite Hup. destruct (v =? bv); congruence.
    + intros v Hn Hs. destruct (v =? bv) eqn:X.
      * apply Nat.eqb_eq in X. subst v. rewrite R3 by (rewrite Hup, Nat.eqb_refl; discriminate). rewrite Hup, Nat.eqb_refl.
        split; auto. exists c. split; auto.
      * apply R4; auto. rewrite Hup, X. auto.
    + intros _. rewrite R3 by (rewrite Hup, Nat.eqb_refl; discriminate). rewrite Hup, Nat.eqb_refl. discriminate.
Qed.

Definition HI (hid : list (option nat)) (vh : list bool) : Prop :=
  length hid = nv /\ (forall v h, nth v hid None = Some h -> h < length vh) /\
  (forall v, nth v hid None <> None -> exists j, bc j /\ vtx c2v (next_c j) = v).

Lemma cntN_le l : cntN l <= length l.
Proof. unfold cntN. induction l as [|[]]; simpl; lia. Qed.

Lemma fh_corner_ok hid vh i : i < 3 * nf -> HI hid vh ->
  exists hid' vh', fh_corner c2v opp (EOk (hid, vh)) i = EOk (hid', vh') /\ HI hid' vh' /\
    (forall v, nth v hid None <> None -> nth v hid' None <> None) /\
    (bc i -> nth (vtx c2v (next_c i)) hid' None <> None).
Proof.
  intros Hi (L & R & W). unfold fh_corner. cbn [ebind].
  destruct (is_degenerated c2v (i / 3)) eqn:Ed.
  { exists hid, vh. split; auto. split; [split; auto|]. split; auto. intros (_ & X & _). congruence. }
  rewrite (e_opp_ok c2v opp nf Hlen OK i Hi). cbn [ebind].
  destruct (opp_at opp i) as [o|] eqn:Eo.
  { exists hid, vh. split; auto. split; [split; auto|]. split; auto. intros (_ & _ & X). congruence. }
  assert (B : bc i) by (split; auto).
  rewrite (e_vertex_ok c2v nf Hlen _ (next_lt _ _ Hi)). cbn [ebind].
  assert (Hbv : vtx c2v (next_c i) < nv) by (apply Hv; apply next_lt; auto).
  rewrite (eget_lt hid _ None) by lia. cbn [ebind].
  destruct (nth (vtx c2v (next_c i)) hid None) as [h|] eqn:Eh.
  { exists hid, vh. split; auto. split; [split; auto|]. split; auto. intros _. congruence. }
  destruct (fh_walk_ok (length vh) (S (length hid)) hid i (vtx c2v (next_c i)) L B eq_refl) as (hid' & R1 & R2 & R3 & R4 & R5).
  { pose proof (cntN_le hid). lia. }
  rewrite R1. cbn [ebind]. exists hid', (vh ++ [false]). split; auto. split; [|split].
  - split; auto. split.
    + intros v h Hh. rewrite app_length. simpl. destruct (nth v hid None) as [h0|] eqn:E0.
      * rewrite R3 in Hh by congruence. rewrite E0 in Hh. inversion Hh; subst. pose proof (R v h E0). lia.
      * destruct (R4 v E0 ltac:(congruence)) as [X _]. rewrite X in Hh. inversion Hh. lia.
    + intros v Hn. destruct (nth v hid None) as [h0|] eqn:E0.
      * apply W. congruence.
      * apply (R4 v E0 Hn).
  - intros v Hn. rewrite R3; auto.
  - intros _. auto.
Qed.

Lemma fh_fold_ok l : Forall (fun i => i < 3 * nf) l -> forall hid vh, HI hid vh ->
  exists hid' vh', fold_left (fh_corner c2v opp) l (EOk (hid, vh)) = EOk (hid', vh') /\ HI hid' vh' /\
    (forall v, nth v hid None <> None -> nth v hid' None <> None) /\
    (forall i, In i l -> bc i -> nth (vtx c2v (next_c i)) hid' None <> None).
Proof.
  induction 1 as [|i l Hi Hl IH]; intros hid vh I; cbn [fold_left].
  - exists hid, vh. split; [auto|]. split; [auto|]. split; [auto|]. intros i [].
  - destruct (fh_corner_ok hid vh i Hi I) as (h1 & v1 & E1 & I1 & M1 & B1).
    rewrite E1.
    destruct (IH h1 v1 I1) as (h2 & v2 & E2 & I2 & M2 & B2). exists h2, v2. split; auto. split; auto. split; auto.
    intros j [X|X] Bj; [subst j; auto|auto].
Qed.

Lemma nth_repeat_None k i : nth i (repeat (@None nat) k) None = None.
Proof. revert i; induction k; destruct i; simpl; auto. Qed.

Theorem find_holes_ok : exists hid vh, find_holes c2v opp nv = EOk (hid, vh) /\ HI hid vh /\
  (forall j, bc j -> nth (vtx c2v (next_c j)) hid None <> None /\ nth (vtx c2v (prev_c j)) hid None <> None).
Proof.
  unfold find_holes.
  destruct (fh_fold_ok (seq 0 (NC c2v))) with (hid := repeat (@None nat) nv) (vh := @nil bool) as (hid & vh & E & I & _ & B).
  - apply Forall_forall. intros x Hx. apply in_seq in Hx. unfold NC in Hx. lia.
  - split; [apply repeat_length|]. split; intros v; rewrite nth_repeat_None; congruence.
  - exists hid, vh. split; auto. split; auto. intros j Bj.
    assert (Hin : forall i, bc i -> In i (seq 0 (NC c2v))). { intros i (Hi & _). apply in_seq. unfold NC. lia. }
    split. apply B; auto.
    destruct (bc_next j Bj) as (y & _ & By & Vy & _). rewrite <- Vy. rewrite <- (next_prev y). apply B; auto.
Qed.

Hypothesis FAN : forall c c', c < 3 * nf -> c' < 3 * nf -> is_degenerated c2v (c / 3) = false ->
  is_degenerated c2v (c' / 3) = false -> vtx c2v c = vtx c2v c' -> reach sr c c' \/ reach sr c' c.

Lemma open_fan hid vh c : HI hid vh -> c < 3 * nf -> is_degenerated c2v (c / 3) = false ->
  nth (vtx c2v c) hid None <> None -> exists m, oiter sr m (Some c) = None.
Proof.
  intros (_ & _ & W) Hc Hd Hn. destruct (W _ Hn) as (j & (Hj & Dj & Oj) & Vj).
  assert (Sy : sr (next_c j) = None) by (unfold sr, swing_right; rewrite prev_next, Oj; auto).
  destruct (FAN c (next_c j)) as [[k E]|[k E]]; auto.
  - apply next_lt; auto.
  - rewrite next_face; auto.
  - exists (S k). cbn [oiter]. rewrite E. auto.
  - destruct k. simpl in E. inversion E; subst. exists 1. simpl. auto.
    rewrite oiter_shift, Sy, oiter_none in E. discriminate.
Qed.

Variables (hid : list (option nat)) (vh : list bool).
Hypothesis HHI : HI hid vh.

Lemma find_init_ok f : f < nf -> is_degenerated c2v f = false ->
  exists start interior, find_init c2v opp hid f = EOk (start, interior) /\ start < 3 * nf /\
    (interior = true -> start / 3 = f) /\
    (interior = false -> is_degenerated c2v (start / 3) = false /\ opp_at opp start = None).
Proof.
  intros Hf Hd. unfold find_init.
  assert (G : forall k c, c < 3 * nf -> c / 3 = f ->
     exists start interior, fi_loop c2v opp hid k c = EOk (start, interior) /\ start < 3 * nf /\
       (interior = true -> start / 3 = f) /\
       (interior = false -> is_degenerated c2v (start / 3) = false /\ opp_at opp start = None)).
  { induction k; intros c Hc Hcf.
    - exists c, true. cbn [fi_loop]. repeat split; auto; discriminate.
    - cbn [fi_loop]. rewrite (e_opp_ok c2v opp nf Hlen OK c Hc). cbn [ebind].
      destruct (opp_at opp c) as [o|] eqn:Eo.
      2:{ exists c, false. repeat split; auto; try discriminate. rewrite Hcf; auto. }
      rewrite (e_vertex_ok c2v nf Hlen c Hc). cbn [ebind].
      rewrite (eget_lt hid _ None) by (destruct HHI as (L & _); rewrite L; apply Hv; auto). cbn [ebind].
      destruct (nth (vtx c2v c) hid None) as [h|] eqn:Eh.
      + destruct (fi_swing_ok c Hc) as (y & E & R & S1 & L).
        { apply (open_fan hid vh); auto. rewrite Hcf; auto. congruence. }
        rewrite E. cbn [ebind]. exists (prev_c y), false. split; auto. split; [apply prev_lt; auto|].
        split; [discriminate|]. intros _. split; [|apply sr_none_opp; auto].
        rewrite prev_face. apply (reach_same _ _ R). rewrite Hcf; auto.
      + apply IHk. apply next_lt; auto. rewrite next_face; auto. }
  apply G. lia. rewrite Nat.mul_comm. apply Nat.div_mul. lia.
Qed.

(* ---- the boundary walk of EncodeHole *)
Lemma leftmost_unique x x' y : reach sr x y -> reach sr x' y -> sl x = None -> sl x' = None -> x = x'.
Proof.
  assert (G : forall k d x x', oiter sl k (Some y) = Some x -> oiter sl (k + d) (Some y) = Some x' -> sl x = None -> x = x').
  { intros k d a a' E1 E2 Sa. rewrite oiter_add, E1 in E2. destruct d. simpl in E2. congruence.
    rewrite oiter_shift, Sa, oiter_none in E2. discriminate. }
  intros [k E] [k' E'] S1 S2. apply sr_rev in E. apply sr_rev in E'.
  destruct (le_lt_dec k k').
  - apply (G k (k' - k) x x'); auto. replace (k + (k' - k)) with k' by lia. auto.
  - symmetry. apply (G k' (k - k') x' x); auto. replace (k' + (k - k')) with k by lia. auto.
Qed.

Definition bf (c : nat) : option nat :=
  if c <? 3 * nf then
    match opp_at opp c with
    | Some _ => None
    | None => match bnd_swing opp (swing_fuel c2v) (next_c c) with EOk c' => Some c' | _ => None end
    end
  else None.

Lemma bf_spec a b : bf a = Some b -> a < 3 * nf /\ opp_at opp a = None /\
  exists y, b = prev_c y /\ reach sr (prev_c a) y /\ sr y = None /\ y < 3 * nf.
Proof.
  unfold bf. destruct (a <? 3 * nf) eqn:L; [|discriminate]. apply Nat.ltb_lt in L.
  destruct (opp_at opp a) eqn:Eo; [discriminate|]. destruct (bnd_next a L Eo) as (y & E & R & S1 & Ly).
  rewrite E. intros H; inversion H; subst. repeat split; auto. exists y. auto.
Qed.
Lemma bf_rng a b : bf a = Some b -> b < length c2v.
Proof. intros H. destruct (bf_spec _ _ H) as (_ & _ & y & -> & _ & _ & L). rewrite Hlen. apply prev_lt; auto. Qed.
Lemma bf_inj a a' b : bf a = Some b -> bf a' = Some b -> a = a'.
Proof.
  intros H H'. destruct (bf_spec _ _ H) as (_ & O1 & y & E1 & R1 & _). destruct (bf_spec _ _ H') as (_ & O2 & y' & E2 & R2 & _).
  assert (y = y') by (rewrite <- (next_prev y), <- (next_prev y'); congruence). subst y'.
  assert (prev_c a = prev_c a') by (eapply leftmost_unique; eauto; apply bcorner_left; auto).
  rewrite <- (next_prev a), <- (next_prev a'). congruence.
Qed.

Lemma eh_walk_ok c0 start_v : bc c0 -> start_v = vtx c2v (next_c c0) ->
  forall fuel k c vvl, running bf c0 k -> oiter bf k (Some c0) = Some c -> bc c -> 3 * nf < fuel + k -> length vvl = nv ->
  exists vvl', eh_walk c2v opp fuel vvl c (vtx c2v (prev_c c)) start_v = EOk vvl' /\ vle vvl vvl' /\
    (vtx c2v (prev_c c) <> start_v -> nth (vtx c2v (prev_c c)) vvl' false = true).
Proof.
  intros B0 Es. induction fuel; intros k c vvl R E B F L.
  - pose proof (running_bound bf (length c2v) bf_rng bf_inj c0 k ltac:(destruct B0; lia) R). lia.
  - cbn [eh_walk]. destruct (vtx c2v (prev_c c) =? start_v) eqn:Eq.
    + exists vvl. split; auto. split; [apply vle_refl|]. apply Nat.eqb_eq in Eq. congruence.
    + apply Nat.eqb_neq in Eq.
      assert (Ha : vtx c2v (prev_c c) < nv) by (apply Hv; apply prev_lt; apply B).
      rewrite (eset_lt vvl) by lia. cbn [ebind].
      destruct (bc_next c B) as (y & E1 & B1 & V1 & R1 & S1). rewrite E1. cbn [ebind].
      rewrite (e_vertex_ok c2v nf Hlen (prev_c (prev_c y))) by (apply prev_lt; apply B1). cbn [ebind].
      assert (Bf : bf c = Some (prev_c y)).
      { unfold bf. destruct B as (Lc & _ & Oc). apply Nat.ltb_lt in Lc. rewrite Lc, Oc, E1. auto. }
      assert (Ne : prev_c y <> c0).
      { intro X. apply Eq. rewrite Es, <- X, next_prev. auto. }
      destruct (IHfuel (S k) (prev_c y) (upd vvl (vtx c2v (prev_c c)) true)) as (vvl' & W1 & W2 & W3); auto.
      * apply (running_S bf (length c2v) bf_rng bf_inj c0 k c (prev_c y) R E Bf Ne).
      * cbn [oiter]. rewrite E. auto.
      * lia.
      * rewrite upd_length; auto.
      * exists vvl'. split; auto. split. eapply vle_trans; [apply vle_upd|exact W2].
        intros _. apply W2. apply nth_upd_eq. lia.
Qed.

Theorem encode_hole_ok s c first : length (vv s) = nv -> length (vhole s) = length vh -> c < 3 * nf ->
  is_degenerated c2v (c / 3) = false -> nth (vtx c2v c) hid None <> None ->
  exists vv' vh', encode_hole c2v opp hid s c first = EOk (with_vhole (with_vv s vv') vh') /\
     vle (vv s) vv' /\ length vh' = length vh /\
     (first = true -> nth (vtx c2v c) vv' false = true /\
        (opp_at opp (prev_c c) = None -> nth (vtx c2v (prev_c (prev_c c))) vv' false = true)).
Proof.
  intros Lv Lh Hc Hd Hn. unfold encode_hole.
  destruct (fi_swing_ok c Hc (open_fan hid vh c HHI Hc Hd Hn)) as (y & E & R & S1 & Ly).
  rewrite bnd_fi, E. cbn [ebind].
  destruct (reach_same _ _ R) as [Vy Dy]. specialize (Dy Hd).
  assert (B0 : bc (prev_c y)). { split; [apply prev_lt; auto|]. split; [rewrite prev_face; auto|apply sr_none_opp; auto]. }
  rewrite (e_vertex_ok c2v nf Hlen c Hc). cbn [ebind].
  pose proof (Hv c Hc) as Hvc.
  set (vvl1 := if first then upd (vv s) (vtx c2v c) true else vv s).
  assert (E1 : (if first then eset (vv s) (vtx c2v c) true else EOk (vv s)) = EOk vvl1).
  { unfold vvl1. destruct first; auto. apply eset_lt. lia. }
  rewrite E1. cbn [ebind].
  assert (M1 : vle (vv s) vvl1) by (unfold vvl1; destruct first; [apply vle_upd|apply vle_refl]).
  destruct HHI as (Lhid & Rh & _).
  rewrite (eget_lt hid _ None) by lia. cbn [ebind].
  destruct (nth (vtx c2v c) hid None) as [hole|] eqn:Eh; [|congruence].
  rewrite (eset_lt (vhole s)) by (rewrite Lh; eapply Rh; eauto). cbn [ebind].
  rewrite (e_vertex_ok c2v nf Hlen (next_c (prev_c y))) by (apply next_lt; apply B0). cbn [ebind].
  rewrite (e_vertex_ok c2v nf Hlen (prev_c (prev_c y))) by (apply prev_lt; apply B0). cbn [ebind].
  destruct (eh_walk_ok (prev_c y) (vtx c2v c) B0 ltac:(rewrite next_prev; auto) (swing_fuel c2v) 0 (prev_c y) vvl1) as (vvl2 & W1 & W2 & W3).
  - apply (running_0 bf (length c2v) bf_rng bf_inj).
  - reflexivity.
  - auto.
  - unfold swing_fuel, NC. lia.
  - destruct M1. lia.
  - rewrite W1. cbn [ebind]. eexists _, _. split; [reflexivity|]. split; [eapply vle_trans; eauto|].
    split; [rewrite upd_length; auto|].
    intros ->. split.
    + apply W2. unfold vvl1. apply nth_upd_eq. lia.
    + intros Op. assert (y = c).
      { destruct R as [k Ek]. destruct k. simpl in Ek. congruence.
        rewrite oiter_shift in Ek. unfold sr at 2 in Ek. unfold swing_right in Ek. rewrite Op, oiter_none in Ek. discriminate. }
      subst y. destruct (Nat.eq_dec (vtx c2v (prev_c (prev_c c))) (vtx c2v c)) as [X|X].
      * rewrite X. apply W2. unfold vvl1. apply nth_upd_eq. lia.
      * apply W3. auto.
Qed.
End Holes.

(** * The encoder is total on every consistent table with one fan per vertex *)
Definition one_fan (c2v : list nat) (opp : list (option nat)) : Prop :=
  forall c c', c < length c2v -> c' < length c2v -> is_degenerated c2v (c / 3) = false ->
    is_degenerated c2v (c' / 3) = false -> vtx c2v c = vtx c2v c' ->
    reach (swing_right opp) c c' \/ reach (swing_right opp) c' c.

Theorem eb_encode_total c2v opp nf nv niso ndeg :
  length c2v = 3 * nf -> opp_ok c2v opp -> (forall c, c < 3 * nf -> vtx c2v c < nv) -> one_fan c2v opp ->
  (nf = ndeg -> eb_encode c2v opp nv niso ndeg = EFail) /\
  (nf <> ndeg -> exists o, eb_encode c2v opp nv niso ndeg = EOk o /\ out_ok c2v nf o /\
     o_nverts o = (Z.of_nat nv - Z.of_nat niso)%Z /\ o_nfaces o = (Z.of_nat nf - Z.of_nat ndeg)%Z).
Proof.
  intros Hlen OK Hv FAN. split.
  - intros ->. unfold eb_encode. rewrite (NF_eq c2v ndeg Hlen), Nat.eqb_refl. auto.
  - intros Nd.
    assert (FAN' : forall c c', c < 3 * nf -> c' < 3 * nf -> is_degenerated c2v (c / 3) = false ->
       is_degenerated c2v (c' / 3) = false -> vtx c2v c = vtx c2v c' ->
       reach (swing_right opp) c c' \/ reach (swing_right opp) c' c).
    { intros. apply FAN; auto; lia. }
    destruct (find_holes_ok c2v opp nf nv Hlen OK Hv) as (hid & vh & E & I & B).
    apply (encode_from_holes c2v opp nf nv (length vh) hid Hlen OK Hv) with (vh := vh); auto.
    + apply I.
    + apply I.
    + intros j Hj Dj Oj. apply B. split; auto.
    + intros s c first. apply (encode_hole_ok c2v opp nf nv Hlen OK Hv FAN' hid vh I).
    + intros f. apply (find_init_ok c2v opp nf nv Hlen OK Hv FAN' hid vh I).
Qed.

(** * Every table built by CornerTable::Create (the C13 model) qualifies *)
Lemma reach_chain f l a b : reach f l a -> reach f l b -> reach f a b \/ reach f b a.
Proof.
  assert (G : forall k d a b, oiter f k (Some l) = Some a -> oiter f (k + d) (Some l) = Some b -> reach f a b).
  { intros k d x y E1 E2. rewrite oiter_add, E1 in E2. exists d. auto. }
  intros [k E] [k' E']. destruct (le_lt_dec k k').
  - left. apply (G k (k' - k)); auto. replace (k + (k' - k)) with k' by lia. auto.
  - right. apply (G k' (k - k')); auto. replace (k' + (k - k')) with k by lia. auto.
Qed.

Lemma ct_create_wf faces t : ct_create faces = Some t ->
  length (ct_c2v t) = 3 * length faces /\ opp_ok (ct_c2v t) (ct_opp t) /\
  (forall c, c < 3 * length faces -> vtx (ct_c2v t) c < length (ct_vcorn t)) /\ one_fan (ct_c2v t) (ct_opp t) /\
  (forall f, is_degenerated (ct_c2v t) f = is_degenerated (c2v_of_faces faces) f).
Proof.
  intros H.
  destruct (ct_create_vc_inv _ _ H) as (s & I & E1 & E2 & E3 & E4).
  pose proof (ct_create_opp_ok _ _ H) as OK0.
  assert (Dg : forall f, is_degenerated (ct_c2v t) f = is_degenerated (c2v_of_faces faces) f).
  { intros f. rewrite E1. apply (vc_deg_same _ (length faces) _ (c2v_of_faces_length faces) (num_vertices_of_spec _) s f I). }
  assert (L : length (ct_c2v t) = 3 * length faces).
  { rewrite E1, (vi_len_c _ _ _ I). apply c2v_of_faces_length. }
  split; auto. split; [|split; [|split; auto]].
  - split. { destruct OK0 as [L0 _]. rewrite L0, c2v_of_faces_length. lia. }
    intros a o Eo. destruct OK0 as [_ K]. destruct (K _ _ Eo) as (Eb & Nab & _ & _ & _ & Da).
    destruct (opp_shared_edge_final _ _ _ _ H Eo) as (V1 & V2 & V3).
    repeat split; auto. rewrite Dg. auto.
  - intros c Hc. apply (vertex_parent_maps_back _ _ c H Hc).
  - intros c c' Hc Hc' Dc Dc' Ev. rewrite L in *. rewrite Dg in *.
    destruct (single_fan _ _ H) as [F1 _].
    destruct (F1 c Hc Dc) as (l & El & Rl). destruct (F1 c' Hc' Dc') as (l' & El' & Rl').
    rewrite Ev in El. rewrite El in El'. inversion El'; subst l'.
    eapply reach_chain; eauto.
Qed.

Theorem eb_encode_ct_total faces t : ct_create faces = Some t ->
  let nf := length faces in
  (nf = ct_ndeg t -> eb_encode_ct t = EFail) /\
  (nf <> ct_ndeg t -> exists o, eb_encode_ct t = EOk o /\ out_ok (ct_c2v t) nf o /\
     o_nverts o = (Z.of_nat (length (ct_vcorn t)) - Z.of_nat (ct_niso t))%Z /\
     o_nfaces o = (Z.of_nat nf - Z.of_nat (ct_ndeg t))%Z).
Proof.
  intros H nf. destruct (ct_create_wf _ _ H) as (L & OK & Hv & FAN & _).
  unfold eb_encode_ct. apply eb_encode_total; auto.
Qed.

Lemma filter_split_length {A} (p : A -> bool) l : length (filter p l) + length (filter (fun x => negb (p x)) l) = length l.
Proof. induction l; simpl; auto. destruct (p a); simpl; lia. Qed.

Theorem eb_encode_ct_counts faces t o : ct_create faces = Some t -> eb_encode_ct t = EOk o ->
  o_nsyms o = Z.of_nat (length (o_syms o)) /\
  o_nsplit o = Z.of_nat (count_occ Z.eq_dec (o_syms o) TOPOLOGY_S) /\ (0 <= o_nsplit o <= o_nsyms o)%Z /\
  length (o_pcc o) = length (o_syms o) + count_occ bool_dec (o_bits o) true /\
  (Z.of_nat (length (o_pcc o)) <= o_nfaces o)%Z /\
  o_nverts o = (Z.of_nat (length (ct_vcorn t)) - Z.of_nat (ct_niso t))%Z /\
  o_nfaces o = (Z.of_nat (length faces) - Z.of_nat (ct_ndeg t))%Z /\
  Forall (fun x => In x [0; 1; 3; 5; 7]%Z) (o_syms o) /\
  Forall (fun e => match e with (src, spl, ed) => (0 <= spl < src)%Z /\ (src < o_nsyms o)%Z /\ (ed = 0 \/ ed = 1)%Z end) (o_events o) /\
  StronglySorted (fun e e' => (fst (fst e) <= fst (fst e'))%Z) (o_events o).
Proof.
  intros H E. destruct (eb_encode_ct_total _ _ H) as [T1 T2].
  destruct (Nat.eq_dec (length faces) (ct_ndeg t)) as [X|X]. { rewrite (T1 X) in E. discriminate. }
  destruct (T2 X) as (o' & E' & (O1 & O2 & O3 & O4 & O5 & O6 & O7 & O8) & V1 & V2). rewrite E in E'. inversion E'; subst o'. clear E'.
  pose proof (count_occ_bound Z.eq_dec TOPOLOGY_S (o_syms o)) as Cb.
  repeat split; auto; try lia.
  (* |pcc| <= number of non-degenerated faces *)
  destruct (ct_create_wf _ _ H) as (_ & _ & _ & _ & Dg).
  destruct (counters _ _ H) as (_ & _ & _ & Nd & _).
  set (nd := filter (fun f => negb (is_degenerated (c2v_of_faces faces) f)) (seq 0 (length faces))).
  assert (Incl : incl (map (fun c => c / 3) (o_pcc o)) nd).
  { intros f Hf. apply in_map_iff in Hf. destruct Hf as (c & <- & Hc). rewrite Forall_forall in O2. destruct (O2 c Hc) as [L D].
    unfold nd. apply filter_In. split. apply in_seq. split; [lia|]. rewrite Nat.add_0_l. apply Nat.div_lt_upper_bound; lia.
    rewrite <- Dg, D. auto. }
  pose proof (NoDup_incl_length O1 Incl) as Le. rewrite map_length in Le.
  pose proof (filter_split_length (is_degenerated (c2v_of_faces faces)) (seq 0 (length faces))) as Sp.
  rewrite seq_length in Sp. fold nd in Sp. rewrite V2. lia.
Qed.

(** * The simulation relation between the encoder and the decoder (written down; only its base case is proved).

    The decoder consumes the symbols in reverse, so the encoder's state after it has emitted the first [i] of its [ns]
    symbols is related to the decoder's state after it has consumed the LAST  j = ns - i  symbols:

      - FACES.  The decoder has created exactly the faces the encoder has NOT yet processed: decoder face k (k < j) is
        the face of the corner  P[ns-1-k]  (P = corners in encoding order), decoder corner 3k+r is Next^r of it
        ([ecorner]).  (Interior start faces are marked first by the encoder and created last by the decoder.)
      - OPPOSITE.  An edge is glued in the decoder's table iff both its faces are created; an edge towards a face the
        encoder has already processed (or a mesh boundary) is still open (-1) - it lies on one of the decoder's
        active boundaries.
      - VERTICES.  The decoder never identifies two different encoder vertices, and it has identified two corners
        whenever they are neighbours in a fan of created faces.  (A vertex whose created faces form several fans is,
        at that moment, several decoder vertices: the later S / C symbols merge them - the reverse of the encoder
        seeing the vertex as "already visited".)
      - ACTIVE CORNERS.  The decoder's active_corner_stack is the encoder's current corner followed by the entries of
        corner_traversal_stack_ that the encoder will still PROCESS (entries whose face is visited by another route
        before they are popped - topology splits - are instead found in the decoder's topology_split_active_corners),
        each seen as the tip corner 3k of its decoder face.
      - EVENTS.  The decoder still holds the events whose source symbol the encoder has already emitted (source < i).

    Preservation, symbol by symbol (decoder step on the symbol the encoder emitted at step i-1):
      C: the encoder's tip vertex is unvisited and interior <-> the decoder closes the fan of vertex x between corner a
         and corner b = Next(LeftMostCorner(x));   R / L: right (left) face already processed <-> that edge stays open,
         a new boundary vertex is created;   E: both processed <-> a new isolated triangle, a new stack entry;
      S: both unprocessed <-> two active boundaries (stack entries) are merged, the tip vertices identified.
    This is NOT proved here.  What is proved: the base case below, the executable check of the conclusion
    ([eb_roundtrip_b] on every generated mesh, with [eb_iso_b] sound), and the encoder-side invariants of Section Core. *)
Definition ecorner (P : list nat) (dc : nat) : nat :=
  rot (dc mod 3) (nth (length P - 1 - dc / 3) P 0).

Fixpoint somes {A} (l : list (option A)) : list A :=
  match l with [] => [] | Some x :: r => x :: somes r | None :: r => somes r end.

Definition sim (c2v : list nat) (opp : list (option nat)) (P : list nat) (i : nat)
           (estack : list (option nat)) (eevs : list (Z * Z * Z)) (d : Edgebreaker.st) : Prop :=
  let ns := length P in
  let j := ns - i in
  let created e := exists dc, dc < 3 * j /\ ecorner P dc = e in
  Edgebreaker.nfaces d = Z.of_nat j /\
  (forall dc, dc < 3 * j ->
     match opp_at opp (ecorner P dc) with
     | Some o => (created o -> exists dc', dc' < 3 * j /\ ecorner P dc' = o /\ Edgebreaker.copp d (Z.of_nat dc) = Z.of_nat dc') /\
                 (~ created o -> Edgebreaker.copp d (Z.of_nat dc) = (-1)%Z)
     | None => Edgebreaker.copp d (Z.of_nat dc) = (-1)%Z
     end) /\
  (forall dc dc', dc < 3 * j -> dc' < 3 * j ->
     Edgebreaker.c2v d (Z.of_nat dc) = Edgebreaker.c2v d (Z.of_nat dc') -> vtx c2v (ecorner P dc) = vtx c2v (ecorner P dc')) /\
  (forall dc dc', dc < 3 * j -> dc' < 3 * j -> swing_right opp (ecorner P dc) = Some (ecorner P dc') ->
     Edgebreaker.c2v d (Z.of_nat dc) = Edgebreaker.c2v d (Z.of_nat dc')) /\
  map (fun z => ecorner P (Z.to_nat z)) (Edgebreaker.stack d) =
    match nth_error P i with
    | None => []
    | Some c => c :: filter (fun x => existsb (Nat.eqb x) (skipn i P)) (somes (tl estack))
    end /\
  Edgebreaker.events d = rev (filter (fun e => (fst (fst e) <? Z.of_nat i)%Z) eevs).

(** base case: the encoder has finished (all ns symbols emitted, stack empty), the decoder has not started *)
Lemma sim_base c2v opp P eevs : Forall (fun e => (fst (fst e) < Z.of_nat (length P))%Z) eevs ->
  sim c2v opp P (length P) [] eevs (Edgebreaker.init_st eevs).
Proof.
  intros F. unfold sim. rewrite Nat.sub_diag. cbn [Edgebreaker.init_st Edgebreaker.nfaces Edgebreaker.stack Edgebreaker.events map].
  split; [reflexivity|]. split; [intros dc H; lia|]. split; [intros dc dc' H; lia|]. split; [intros dc dc' H; lia|].
  split.
  - assert (nth_error P (length P) = None) by (apply nth_error_None; lia). rewrite H. auto.
  - f_equal. clear -F. induction F; simpl; auto. apply Z.ltb_lt in H. rewrite H. f_equal. auto.
Qed.
