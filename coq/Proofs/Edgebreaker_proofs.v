(** Proofs about the Edgebreaker connectivity decoder state machine (Model/Edgebreaker.v).

    What is proved here (all unbounded: every symbol list, every split-event list, every start-face bit function,
    every declared face / vertex count):
      [W]  the weak invariant of the symbol loop and of the start-face phase: every corner of a created face maps to an
           allocated vertex, Opposite is a fixed-point-free partial involution that only links corners of DIFFERENT
           faces and is -1 on all corners of faces not yet created, vertex_corners_ holds -1 or a created corner,
           num_vertices <= max_num_vertices, the active stack / split corners / invalid vertices are in range;
      [s_loop_nofuel]  the S-case SwingLeft relabelling loop never exhausts NC+1 iterations: SwingLeft is injective on
           created corners (from the involution and Next being a bijection), so the visited corners are pairwise
           distinct unless the walk returns to its first corner (which the C++ tests) - pigeonhole;
      [eb_pre_terminates], [eb_accept_partial].
    NOT proved (see Properties_EB.v): unreachability of [OOB] and the fan invariant it needs; the compaction phase. *)
From Coq Require Import ZArith List Bool Lia ZifyBool.
From Draco Require Import Model.Edgebreaker.
Import ListNotations.
Local Open Scope Z_scope.

(** * Next / Previous arithmetic *)
Section Arith.
Local Ltac Zify.zify_post_hook ::= Z.div_mod_to_equations.

Lemma next_c_spec : forall c, 0 <= c ->
  0 <= next_c c /\ next_c c / 3 = c / 3 /\ next_c c <> c /\ prev_c (next_c c) = c.
Proof.
  intros c H. unfold next_c, prev_c.
  destruct (c =? -1) eqn:E1; [lia|].
  destruct ((c + 1) mod 3 =? 0) eqn:E2.
  - destruct (c - 2 =? -1) eqn:E3; [lia|]. destruct ((c - 2) mod 3 =? 0) eqn:E4; lia.
  - destruct (c + 1 =? -1) eqn:E3; [lia|]. destruct ((c + 1) mod 3 =? 0) eqn:E4; lia.
Qed.

Lemma prev_c_spec : forall c, 0 <= c ->
  0 <= prev_c c /\ prev_c c / 3 = c / 3 /\ prev_c c <> c /\ next_c (prev_c c) = c.
Proof.
  intros c H. unfold next_c, prev_c.
  destruct (c =? -1) eqn:E1; [lia|].
  destruct (c mod 3 =? 0) eqn:E2.
  - destruct (c + 2 =? -1) eqn:E3; [lia|]. destruct ((c + 2 + 1) mod 3 =? 0) eqn:E4; lia.
  - destruct (c - 1 =? -1) eqn:E3; [lia|]. destruct ((c - 1 + 1) mod 3 =? 0) eqn:E4; lia.
Qed.

Lemma face_range : forall c m, 0 <= c -> (0 <= c < 3 * m <-> 0 <= c / 3 < m).
Proof. intros. lia. Qed.

Lemma next_prev_distinct : forall c, 0 <= c -> next_c c <> prev_c c.
Proof.
  intros c H. unfold next_c, prev_c. destruct (c =? -1) eqn:E1; [lia|].
  destruct ((c + 1) mod 3 =? 0) eqn:E2; destruct (c mod 3 =? 0) eqn:E3; lia.
Qed.

Lemma new_face_corners : forall f, 0 <= f ->
  next_c (3 * f) = 3 * f + 1 /\ next_c (3 * f + 1) = 3 * f + 2 /\ next_c (3 * f + 2) = 3 * f /\
  prev_c (3 * f) = 3 * f + 2 /\ prev_c (3 * f + 1) = 3 * f /\ prev_c (3 * f + 2) = 3 * f + 1.
Proof.
  intros f H. unfold next_c, prev_c.
  repeat split.
  - destruct (3 * f =? -1) eqn:E1; [lia|]. destruct ((3 * f + 1) mod 3 =? 0) eqn:E2; lia.
  - destruct (3 * f + 1 =? -1) eqn:E1; [lia|]. destruct ((3 * f + 1 + 1) mod 3 =? 0) eqn:E2; lia.
  - destruct (3 * f + 2 =? -1) eqn:E1; [lia|]. destruct ((3 * f + 2 + 1) mod 3 =? 0) eqn:E2; lia.
  - destruct (3 * f =? -1) eqn:E1; [lia|]. destruct ((3 * f) mod 3 =? 0) eqn:E2; lia.
  - destruct (3 * f + 1 =? -1) eqn:E1; [lia|]. destruct ((3 * f + 1) mod 3 =? 0) eqn:E2; lia.
  - destruct (3 * f + 2 =? -1) eqn:E1; [lia|]. destruct ((3 * f + 2) mod 3 =? 0) eqn:E2; lia.
Qed.

Lemma div3_lt : forall c f, 0 <= c < 3 * f -> c / 3 < f.
Proof. intros. lia. Qed.
Lemma div3_new : forall f k, 0 <= k < 3 -> (3 * f + k) / 3 = f.
Proof. intros. lia. Qed.
End Arith.

Lemma next_c_rng : forall c m, 0 <= c < 3 * m -> 0 <= next_c c < 3 * m.
Proof.
  intros c m H. destruct (next_c_spec c) as (A & B & _); [lia|].
  pose proof (proj1 (face_range c m ltac:(lia)) H). apply face_range; [lia|]. rewrite B. lia.
Qed.
Lemma prev_c_rng : forall c m, 0 <= c < 3 * m -> 0 <= prev_c c < 3 * m.
Proof.
  intros c m H. destruct (prev_c_spec c) as (A & B & _); [lia|].
  pose proof (proj1 (face_range c m ltac:(lia)) H). apply face_range; [lia|]. rewrite B. lia.
Qed.
Lemma next_c_inv : next_c (-1) = -1. Proof. reflexivity. Qed.
Lemma prev_c_inv : prev_c (-1) = -1. Proof. reflexivity. Qed.
Lemma next_c_inj : forall a b, 0 <= a -> 0 <= b -> next_c a = next_c b -> a = b.
Proof. intros a b Ha Hb E. rewrite <- (proj2 (proj2 (proj2 (next_c_spec a Ha)))), E. apply next_c_spec; lia. Qed.
Lemma prev_c_inj : forall a b, 0 <= a -> 0 <= b -> prev_c a = prev_c b -> a = b.
Proof. intros a b Ha Hb E. rewrite <- (proj2 (proj2 (proj2 (prev_c_spec a Ha)))), E. apply prev_c_spec; lia. Qed.

(** * Array predicates *)
Definition PI (f : Z -> Z) (m : Z) : Prop :=
  forall c, 0 <= c < m -> f c = -1 \/ (0 <= f c < m /\ f (f c) = c /\ f c / 3 <> c / 3).
Definition Free (f : Z -> Z) (m : Z) : Prop := forall c, m <= c -> f c = -1.
Definition VR (g : Z -> Z) (m n : Z) : Prop := forall c, 0 <= c < m -> 0 <= g c < n.
Definition LR (h : Z -> Z) (n m : Z) : Prop := forall v, 0 <= v < n -> h v = -1 \/ 0 <= h v < m.

Lemma upd_same : forall A (f : Z -> A) i v, upd f i v i = v.
Proof. intros. unfold upd. rewrite Z.eqb_refl. reflexivity. Qed.
Lemma upd_other : forall A (f : Z -> A) i v j, j <> i -> upd f i v j = f j.
Proof. intros. unfold upd. destruct (j =? i) eqn:E; [lia|reflexivity]. Qed.

Lemma PI_extend : forall f m m', PI f m -> Free f m -> m <= m' -> PI f m'.
Proof.
  intros f m m' H F L c Hc. destruct (Z_lt_dec c m).
  - destruct (H c ltac:(lia)) as [E | (A & B & C)]; [left; exact E | right; repeat split; try lia; assumption].
  - left. apply F. lia.
Qed.

Lemma PI_link : forall f m x y, PI f m -> 0 <= x < m -> 0 <= y < m -> f x = -1 -> f y = -1 -> x / 3 <> y / 3 ->
  PI (upd (upd f x y) y x) m.
Proof.
  intros f m x y H Hx Hy Fx Fy D c Hc.
  assert (x <> y) by (intro; subst; lia).
  destruct (Z.eq_dec c y) as [-> | Ny].
  - right. rewrite upd_same. rewrite upd_other by lia. rewrite upd_same. repeat split; lia.
  - rewrite (upd_other _ _ y x c) by lia.
    destruct (Z.eq_dec c x) as [-> | Nx].
    + right. rewrite upd_same. rewrite upd_same. repeat split; lia.
    + rewrite upd_other by lia.
      destruct (H c Hc) as [E | (A & B & C)]; [left; exact E|].
      right. assert (f c <> x) by (intro Q; rewrite Q in B; lia).
      assert (f c <> y) by (intro Q; rewrite Q in B; lia).
      rewrite !upd_other by lia. repeat split; try lia; assumption.
Qed.

Lemma Free_upd : forall f m i v, Free f m -> i < m -> Free (upd f i v) m.
Proof. intros f m i v F L c Hc. rewrite upd_other by lia. apply F; lia. Qed.
Lemma Free_mono : forall f m m', Free f m -> m <= m' -> Free f m'.
Proof. intros f m m' F L c Hc. apply F. lia. Qed.

Lemma VR_upd : forall g m n i v, VR g m n -> 0 <= v < n -> VR (upd g i v) m n.
Proof. intros g m n i v H Hv c Hc. unfold upd. destruct (c =? i); [lia | apply H; lia]. Qed.
Lemma VR_mono : forall g m n n', VR g m n -> n <= n' -> VR g m n'.
Proof. intros g m n n' H L c Hc. specialize (H c Hc). lia. Qed.
Lemma VR_extend3 : forall g f n, VR g (3 * f) n -> 0 <= g (3 * f) < n -> 0 <= g (3 * f + 1) < n -> 0 <= g (3 * f + 2) < n ->
  VR g (3 * f + 3) n.
Proof.
  intros g f n H A B C c Hc. destruct (Z_lt_dec c (3 * f)); [apply H; lia|].
  assert (c = 3 * f \/ c = 3 * f + 1 \/ c = 3 * f + 2) as [-> | [-> | ->]] by lia; assumption.
Qed.

Lemma LR_upd : forall h n m i c, LR h n m -> (c = -1 \/ 0 <= c < m) -> LR (upd h i c) n m.
Proof. intros h n m i c H Hc v Hv. unfold upd. destruct (v =? i); [lia | apply H; lia]. Qed.
Lemma LR_mono : forall h n m m', LR h n m -> m <= m' -> LR h n m'.
Proof. intros h n m m' H L v Hv. destruct (H v Hv); [left | right]; lia. Qed.
Lemma LR_push : forall h n m, LR h n m -> 0 <= n -> LR (upd h n (-1)) (n + 1) m.
Proof.
  intros h n m H Hn v Hv. unfold upd. destruct (v =? n) eqn:E; [left; reflexivity | apply H; lia].
Qed.
(** * Inversion of the primitive operations *)
Section Prims.
Variables NC maxv : Z.

Lemma in_rng_true : forall i n, in_rng i n = true <-> 0 <= i < n.
Proof. intros. unfold in_rng. lia. Qed.

Lemma vertex_ok : forall s c v, vertex NC s c = Ok v -> (c = -1 /\ v = -1) \/ (0 <= c < NC /\ v = c2v s c).
Proof.
  intros s c v H. unfold vertex in H. destruct (c =? -1) eqn:E.
  - left. inversion H. lia.
  - destruct (in_rng c NC) eqn:R; [|discriminate]. apply in_rng_true in R. inversion H. right. lia.
Qed.
Lemma opposite_ok : forall s c v, opposite NC s c = Ok v -> (c = -1 /\ v = -1) \/ (0 <= c < NC /\ v = copp s c).
Proof.
  intros s c v H. unfold opposite in H. destruct (c =? -1) eqn:E.
  - left. inversion H. lia.
  - destruct (in_rng c NC) eqn:R; [|discriminate]. apply in_rng_true in R. inversion H. right. lia.
Qed.
Lemma lmc_ok : forall s v l, lmc s v = Ok l -> 0 <= v < nv s /\ l = vc s v.
Proof. intros s v l H. unfold lmc in H. destruct (in_rng v (nv s)) eqn:R; [|discriminate]. apply in_rng_true in R. inversion H. lia. Qed.
Lemma set_opp_ok : forall s c o s', set_opp NC s c o = Ok s' -> 0 <= c < NC /\ s' = with_opp s (upd (copp s) c o).
Proof. intros s c o s' H. unfold set_opp in H. destruct (in_rng c NC) eqn:R; [|discriminate]. apply in_rng_true in R. inversion H. split; [lia | reflexivity]. Qed.
Lemma set_opps_ok : forall s c0 c1 s', set_opps NC s c0 c1 = Ok s' ->
  0 <= c0 < NC /\ 0 <= c1 < NC /\ s' = with_opp s (upd (upd (copp s) c0 c1) c1 c0).
Proof.
  intros s c0 c1 s' H. unfold set_opps, bind in H. destruct (set_opp NC s c0 c1) eqn:E; try discriminate.
  apply set_opp_ok in E. destruct E as (A & ->). apply set_opp_ok in H. destruct H as (B & ->). cbn in *. repeat split; try lia.
Qed.
Lemma map_cv_ok : forall s c v s', map_cv NC s c v = Ok s' -> 0 <= c < NC /\ s' = with_c2v s (upd (c2v s) c v).
Proof. intros s c v s' H. unfold map_cv in H. destruct (in_rng c NC) eqn:R; [|discriminate]. apply in_rng_true in R. inversion H. split; [lia | reflexivity]. Qed.
Lemma set_lmc_ok : forall s v c s', set_lmc s v c = Ok s' ->
  (v = -1 /\ s' = s) \/ (0 <= v < nv s /\ s' = with_vc s (upd (vc s) v c)).
Proof.
  intros s v c s' H. unfold set_lmc in H. destruct (v =? -1) eqn:E.
  - left. inversion H. split; [lia | reflexivity].
  - destruct (in_rng v (nv s)) eqn:R; [|discriminate]. apply in_rng_true in R. inversion H. right. split; [lia | reflexivity].
Qed.
Lemma make_isolated_ok : forall s v s', make_isolated s v = Ok s' -> 0 <= v < nv s /\ s' = with_vc s (upd (vc s) v (-1)).
Proof. intros s v s' H. unfold make_isolated in H. destruct (in_rng v (nv s)) eqn:R; [|discriminate]. apply in_rng_true in R. inversion H. split; [lia | reflexivity]. Qed.
Lemma set_hole_ok : forall s v b s', set_hole maxv s v b = Ok s' -> 0 <= v < maxv /\ s' = with_hole s (upd (hole s) v b).
Proof. intros s v b s' H. unfold set_hole in H. destruct (in_rng v maxv) eqn:R; [|discriminate]. apply in_rng_true in R. inversion H. split; [lia | reflexivity]. Qed.

Lemma all_free_cons : forall s c r, all_free NC s (c :: r) = Ok true ->
  ((c = -1) \/ (0 <= c < NC /\ copp s c = -1)) /\ all_free NC s r = Ok true.
Proof.
  intros s c r H. unfold all_free in H. unfold bind in H. destruct (opposite NC s c) eqn:E; try discriminate.
  destruct (a =? -1) eqn:E1; [|discriminate].
  apply opposite_ok in E. split; [|exact H]. destruct E as [(A & B) | (A & B)]; [left; lia | right; lia].
Qed.
End Prims.

Lemma Ok_inj : forall A (a b : A), Ok a = Ok b -> a = b.
Proof. intros A a b H. congruence. Qed.

(** generic destructor of a monadic equation [... = Ok _] *)
Ltac mstep H :=
  match type of H with
  | bind ?e _ = Ok _ => let E := fresh "E" in destruct e eqn:E; cbn [bind] in H; try discriminate H
  | (if ?b then _ else _) = Ok _ => let E := fresh "E" in destruct b eqn:E; try discriminate H
  | (let '(_, _) := ?e in _) = Ok _ => let E := fresh "E" in destruct e eqn:E
  | match ?l with [] => _ | _ :: _ => _ end = Ok _ => let E := fresh "E" in destruct l eqn:E; try discriminate H
  | match ?l with Some _ => _ | None => _ end = Ok _ => let E := fresh "E" in destruct l eqn:E; try discriminate H
  end.

(** * The weak invariant W: bounds + Opposite is a fixed-point-free partial involution between different faces *)
Record W (NC maxv f : Z) (s : st) : Prop := {
  w_nf : 0 <= f /\ 3 * f <= NC;
  w_pi : PI (copp s) (3 * f);
  w_free : Free (copp s) (3 * f);
  w_vr : VR (c2v s) (3 * f) (nv s);
  w_lr : LR (vc s) (nv s) (3 * f);
  w_nv : 0 <= nv s <= maxv;
  w_stack : Forall (fun c => 0 <= c < 3 * f) (stack s);
  w_splits : Forall (fun kc => 0 <= snd kc < 3 * f) (splits s);
  w_invalid : Forall (fun v => 0 <= v < nv s) (invalid s)
}.

Lemma Forall_mono3 : forall (l : list Z) f f', f <= f' -> Forall (fun c => 0 <= c < 3 * f) l -> Forall (fun c => 0 <= c < 3 * f') l.
Proof. intros l f f' L H. eapply Forall_impl; [|exact H]. cbv beta. intros. lia. Qed.
Lemma Forall_mono3s : forall (l : list (Z * Z)) f f', f <= f' -> Forall (fun kc => 0 <= snd kc < 3 * f) l -> Forall (fun kc => 0 <= snd kc < 3 * f') l.
Proof. intros l f f' L H. eapply Forall_impl; [|exact H]. cbv beta. intros. lia. Qed.

Ltac sproj := cbn [c2v copp vc nv hole stack splits events invalid nfaces inits with_c2v with_opp with_vc with_vc_nv
                   with_hole with_stack with_splits with_events with_invalid with_nfaces with_inits fst snd] in *.

Ltac prim :=
  repeat match goal with
  | H : lmc _ _ = Ok _ |- _ => apply lmc_ok in H; destruct H as (? & ?)
  | H : set_opps _ _ _ _ = Ok _ |- _ => apply set_opps_ok in H; destruct H as (? & ? & ?)
  | H : map_cv _ _ _ _ = Ok _ |- _ => apply map_cv_ok in H; destruct H as (? & ?)
  | H : set_hole _ _ _ _ = Ok _ |- _ => apply set_hole_ok in H; destruct H as (? & ?)
  | H : make_isolated _ _ = Ok _ |- _ => apply make_isolated_ok in H; destruct H as (? & ?)
  end.

Ltac vtx_created :=
  repeat match goal with
  | H : vertex _ _ ?c = Ok _ |- _ => apply vertex_ok in H; sproj; destruct H as [(? & ?)|(? & ?)]; [exfalso; lia|]
  end.

Ltac simp_upd := repeat (rewrite upd_other in * by lia); repeat (rewrite upd_same in *).
Ltac case_upds :=
  unfold upd; repeat match goal with |- context[?x =? ?y] => destruct (x =? y) eqn:? end.

Section Steps.
Variables NC maxv : Z.

Lemma vertex_created : forall s f c v, W NC maxv f s -> 0 <= c < 3 * f -> vertex NC s c = Ok v ->
  v = c2v s c /\ 0 <= v < nv s.
Proof.
  intros s f c v HW Hc H. apply vertex_ok in H. destruct H as [(A & B) | (A & B)]; [lia|].
  split; [exact B|]. subst v. apply (w_vr _ _ _ _ HW). lia.
Qed.

Lemma step_C_W : forall s f s', W NC maxv f s -> 3 * f + 3 <= NC -> step_C NC maxv s f = Ok s' ->
  W NC maxv (f + 1) s' /\ events s' = events s /\ nfaces s' = nfaces s /\ invalid s' = invalid s /\ stack s' <> [].
Proof.
  intros s f s' HW HN H. unfold step_C in H.
  destruct (stack s) as [|a rest] eqn:Est; [discriminate|].
  pose proof (w_stack _ _ _ _ HW) as Hst. rewrite Est in Hst. inversion Hst as [|? ? Ha Hrest]; subst.
  pose proof (w_nf _ _ _ _ HW) as Hnf.
  pose proof (next_c_rng a f Ha) as Hna. pose proof (prev_c_rng a f Ha) as Hpa.
  mstep H. rename a0 into x. mstep H. rename a0 into l. mstep H. mstep H. mstep H.
  destruct a0; [|discriminate].
  vtx_created. subst x. prim. subst l.
  pose proof (w_vr _ _ _ _ HW _ Hna) as Hx.
  assert (Hl : 0 <= vc s (c2v s (next_c a)) < 3 * f).
  { destruct (w_lr _ _ _ _ HW _ Hx) as [Q|Q]; [|exact Q].
    rewrite Q in *. rewrite next_c_inv in *. mstep H. }
  set (b := next_c (vc s (c2v s (next_c a)))) in *.
  assert (Hb : 0 <= b < 3 * f) by (apply next_c_rng; lia).
  pose proof (next_c_rng b f Hb) as Hnb.
  match goal with Q : all_free _ _ _ = Ok true |- _ => apply all_free_cons in Q; destruct Q as (Fa & Q); apply all_free_cons in Q; destruct Q as (Fb & _) end.
  destruct Fa as [Fa|(_ & Fa)]; [lia|]. destruct Fb as [Fb|(_ & Fb)]; [lia|].
  mstep H. mstep H. prim. subst. mstep H. mstep H. vtx_created. subst.
  mstep H. mstep H. mstep H. mstep H. mstep H. mstep H. prim. subst. sproj.
  pose proof (w_vr _ _ _ _ HW _ Hpa) as Hvap.
  pose proof (w_vr _ _ _ _ HW _ Hnb) as Hvbn.
  match goal with Q : set_lmc _ _ _ = Ok _ |- _ => apply set_lmc_ok in Q; sproj; destruct Q as [(A & _)|(_ & ->)]; [exfalso; lia|] end.
  apply Ok_inj in H. subst s'. sproj.
  assert (Hab : a <> b) by lia.
  split; [|repeat split; sproj; try reflexivity; discriminate].
  constructor; sproj.
  - lia.
  - replace (3 * (f + 1)) with (3 * f + 3) by lia.
    pose proof (w_free _ _ _ _ HW) as HF.
    apply PI_link; [apply PI_link; [eapply PI_extend; [apply (w_pi _ _ _ _ HW) | exact HF | lia] | lia | lia | exact Fa | apply HF; lia |]
                   | lia | lia | rewrite !upd_other by lia; exact Fb | rewrite !upd_other by lia; apply HF; lia |].
    + rewrite (div3_new f 1) by lia. pose proof (div3_lt a f Ha). lia.
    + rewrite (div3_new f 2) by lia. pose proof (div3_lt b f Hb). lia.
  - intros c Hc. rewrite !upd_other by lia. apply (w_free _ _ _ _ HW). lia.
  - replace (3 * (f + 1)) with (3 * f + 3) by lia. intros c Hc. unfold upd.
    destruct (c =? 3 * f + 2) eqn:Q2; [lia|]. destruct (c =? 3 * f + 1) eqn:Q1; [lia|]. destruct (c =? 3 * f) eqn:Q; [lia|].
    apply (w_vr _ _ _ _ HW). lia.
  - apply LR_upd; [|right; lia]. eapply LR_mono; [apply (w_lr _ _ _ _ HW)|lia].
  - apply (w_nv _ _ _ _ HW).
  - constructor; [lia|]. eapply Forall_mono3; [|exact Hrest]. lia.
  - eapply Forall_mono3s; [|apply (w_splits _ _ _ _ HW)]. lia.
  - apply (w_invalid _ _ _ _ HW).
Qed.

Lemma add_vertex_eq : forall s v s1, add_vertex s = (v, s1) -> v = nv s /\ s1 = with_vc_nv s (upd (vc s) (nv s) (-1)) (nv s + 1).
Proof. intros s v s1 H. unfold add_vertex in H. apply pair_equal_spec in H. destruct H as (<- & <-). split; reflexivity. Qed.



Lemma step_RL_W : forall is_r s f s', W NC maxv f s -> 3 * f + 3 <= NC -> step_RL NC maxv is_r s f = Ok s' ->
  W NC maxv (f + 1) s' /\ events s' = events s /\ nfaces s' = nfaces s /\ invalid s' = invalid s /\ stack s' <> [].
Proof.
  intros is_r s f s' HW HN H. unfold step_RL in H.
  destruct (stack s) as [|a rest] eqn:Est; [discriminate|].
  pose proof (w_stack _ _ _ _ HW) as Hst. rewrite Est in Hst. inversion Hst as [|? ? Ha Hrest]; subst.
  pose proof (w_nf _ _ _ _ HW) as Hnf. pose proof (w_nv _ _ _ _ HW) as Hnv.
  pose proof (next_c_rng a f Ha) as Hna. pose proof (prev_c_rng a f Ha) as Hpa.
  pose proof (w_vr _ _ _ _ HW _ Hpa) as Hvr. pose proof (w_vr _ _ _ _ HW _ Hna) as Hvl.
  pose proof (w_free _ _ _ _ HW) as HF.
  pose proof (div3_lt a f Ha) as Hda.
  mstep H. mstep H. destruct a0; [|discriminate].
  match goal with Q : all_free _ _ _ = Ok true |- _ => apply all_free_cons in Q; destruct Q as (Fa & _) end.
  destruct Fa as [Fa|(_ & Fa)]; [lia|].
  destruct is_r.
  - mstep H. prim. subst. mstep H. apply add_vertex_eq in E. destruct E as (-> & ->). sproj.
    mstep H. mstep H. prim. subst.
    mstep H. match goal with Q : set_lmc _ _ _ = Ok _ |- _ => apply set_lmc_ok in Q; sproj; destruct Q as [(A & _)|(_ & ->)]; [exfalso; lia|] end.
    mstep H. vtx_created. subst. simp_upd. mstep H. prim. subst. sproj.
    mstep H. match goal with Q : set_lmc _ _ _ = Ok _ |- _ => apply set_lmc_ok in Q; sproj; destruct Q as [(A & _)|(_ & ->)]; [exfalso; lia|] end.
    mstep H. vtx_created. subst. simp_upd. mstep H. prim. subst. sproj.
    apply Ok_inj in H. subst s'. sproj.
    split; [|repeat split; sproj; try reflexivity; discriminate].
    replace (3 * (f + 1)) with (3 * f + 3) by lia.
    constructor; sproj.
    + lia.
    + apply PI_link; [eapply PI_extend; [apply (w_pi _ _ _ _ HW) | exact HF | lia] | lia | lia | apply HF; lia | exact Fa |].
      rewrite (div3_new f 2) by lia. lia.
    + intros c Hc. rewrite !upd_other by lia. apply HF. lia.
    + intros c Hc. case_upds; try lia. pose proof (w_vr _ _ _ _ HW c). lia.
    + apply LR_upd; [|right; lia]. apply LR_upd; [|right; lia]. apply LR_push; [|lia].
      eapply LR_mono; [apply (w_lr _ _ _ _ HW)|lia].
    + lia.
    + constructor; [lia|]. eapply Forall_mono3; [|exact Hrest]. lia.
    + replace (3 * f + 3) with (3 * (f + 1)) by lia. eapply Forall_mono3s; [|apply (w_splits _ _ _ _ HW)]. lia.
    + eapply Forall_impl; [|apply (w_invalid _ _ _ _ HW)]. cbv beta. intros; lia.
  - mstep H. prim. subst. mstep H. apply add_vertex_eq in E. destruct E as (-> & ->). sproj.
    mstep H. mstep H. prim. subst.
    mstep H. match goal with Q : set_lmc _ _ _ = Ok _ |- _ => apply set_lmc_ok in Q; sproj; destruct Q as [(A & _)|(_ & ->)]; [exfalso; lia|] end.
    mstep H. vtx_created. subst. simp_upd. mstep H. prim. subst. sproj.
    mstep H. match goal with Q : set_lmc _ _ _ = Ok _ |- _ => apply set_lmc_ok in Q; sproj; destruct Q as [(A & _)|(_ & ->)]; [exfalso; lia|] end.
    mstep H. vtx_created. subst. simp_upd. mstep H. prim. subst. sproj.
    apply Ok_inj in H. subst s'. sproj.
    split; [|repeat split; sproj; try reflexivity; discriminate].
    replace (3 * (f + 1)) with (3 * f + 3) by lia.
    constructor; sproj.
    + lia.
    + apply PI_link; [eapply PI_extend; [apply (w_pi _ _ _ _ HW) | exact HF | lia] | lia | lia | apply HF; lia | exact Fa |].
      rewrite (div3_new f 1) by lia. lia.
    + intros c Hc. rewrite !upd_other by lia. apply HF. lia.
    + intros c Hc. case_upds; try lia. pose proof (w_vr _ _ _ _ HW c). lia.
    + apply LR_upd; [|right; lia]. apply LR_upd; [|right; lia]. apply LR_push; [|lia].
      eapply LR_mono; [apply (w_lr _ _ _ _ HW)|lia].
    + lia.
    + constructor; [lia|]. eapply Forall_mono3; [|exact Hrest]. lia.
    + replace (3 * f + 3) with (3 * (f + 1)) by lia. eapply Forall_mono3s; [|apply (w_splits _ _ _ _ HW)]. lia.
    + eapply Forall_impl; [|apply (w_invalid _ _ _ _ HW)]. cbv beta. intros; lia.
Qed.

Lemma step_E_W : forall s f s', W NC maxv f s -> 3 * f + 3 <= NC -> step_E NC maxv s f = Ok s' ->
  W NC maxv (f + 1) s' /\ events s' = events s /\ nfaces s' = nfaces s /\ invalid s' = invalid s /\ stack s' <> [].
Proof.
  intros s f s' HW HN H. unfold step_E in H.
  pose proof (w_nf _ _ _ _ HW) as Hnf. pose proof (w_nv _ _ _ _ HW) as Hnv.
  pose proof (w_free _ _ _ _ HW) as HF.
  mstep H. apply add_vertex_eq in E. destruct E as (-> & ->). sproj. mstep H. prim. subst. sproj.
  mstep H. apply add_vertex_eq in E. destruct E as (-> & ->). sproj. mstep H. prim. subst. sproj.
  mstep H. apply add_vertex_eq in E. destruct E as (-> & ->). sproj. mstep H. prim. subst. sproj.
  mstep H.
  mstep H. match goal with Q : set_lmc _ _ _ = Ok _ |- _ => apply set_lmc_ok in Q; sproj; destruct Q as [(A & _)|(_ & ->)]; [exfalso; lia|] end.
  mstep H. match goal with Q : set_lmc _ _ _ = Ok _ |- _ => apply set_lmc_ok in Q; sproj; destruct Q as [(A & _)|(_ & ->)]; [exfalso; lia|] end.
  mstep H. match goal with Q : set_lmc _ _ _ = Ok _ |- _ => apply set_lmc_ok in Q; sproj; destruct Q as [(A & _)|(_ & ->)]; [exfalso; lia|] end.
  apply Ok_inj in H. subst s'. sproj.
  split; [|repeat split; sproj; try reflexivity; discriminate].
  replace (3 * (f + 1)) with (3 * f + 3) by lia.
  constructor; sproj.
  - lia.
  - eapply PI_extend; [apply (w_pi _ _ _ _ HW) | exact HF | lia].
  - eapply Free_mono; [exact HF|lia].
  - intros c Hc. case_upds; try lia. pose proof (w_vr _ _ _ _ HW c). lia.
  - apply LR_upd; [|right; lia]. apply LR_upd; [|right; lia]. apply LR_upd; [|right; lia].
    apply LR_push; [|lia]. apply LR_push; [|lia]. apply LR_push; [|lia].
    eapply LR_mono; [apply (w_lr _ _ _ _ HW)|lia].
  - lia.
  - constructor; [lia|]. eapply Forall_mono3; [|apply (w_stack _ _ _ _ HW)]. lia.
  - replace (3 * f + 3) with (3 * (f + 1)) by lia. eapply Forall_mono3s; [|apply (w_splits _ _ _ _ HW)]. lia.
  - eapply Forall_impl; [|apply (w_invalid _ _ _ _ HW)]. cbv beta. intros; lia.
Qed.

Lemma W_with_events : forall f s l, W NC maxv f s -> W NC maxv f (with_events s l).
Proof. intros f s l H. destruct H. constructor; sproj; assumption. Qed.
Lemma W_with_nfaces : forall f s k, W NC maxv f s -> W NC maxv f (with_nfaces s k).
Proof. intros f s l H. destruct H. constructor; sproj; assumption. Qed.
Lemma W_with_inits : forall f s k, W NC maxv f s -> W NC maxv f (with_inits s k).
Proof. intros f s l H. destruct H. constructor; sproj; assumption. Qed.
Lemma W_with_hole : forall f s k, W NC maxv f s -> W NC maxv f (with_hole s k).
Proof. intros f s l H. destruct H. constructor; sproj; assumption. Qed.

Lemma split_loop_W : forall evs s ns enc s' f, W NC maxv f s -> split_loop evs s ns enc = Ok s' ->
  W NC maxv f s' /\ nfaces s' = nfaces s /\ invalid s' = invalid s /\ stack s' = stack s.
Proof.
  induction evs as [|((src, spl), edge) r IH]; intros s ns enc s' f HW H; cbn [split_loop] in H.
  - apply Ok_inj in H. subst. split; [apply W_with_events; exact HW|repeat split].
  - mstep H. mstep H.
    + apply Ok_inj in H. subst. split; [apply W_with_events; exact HW|repeat split].
    + mstep H. destruct (stack s) as [|top rest] eqn:Est; [discriminate|].
      apply IH with (f := f) in H.
      * sproj. rewrite Est in H. exact H.
      * pose proof (w_stack _ _ _ _ HW) as Hst. rewrite Est in Hst. inversion Hst; subst.
        destruct HW. constructor; sproj; try assumption.
        constructor; [|assumption]. cbn [snd]. destruct (edge mod 2 =? 1); [apply next_c_rng|apply prev_c_rng]; assumption.
Qed.

Definition oppf (s : st) (c : Z) : Z := if c =? -1 then -1 else copp s c.
Definition slf (s : st) (c : Z) : Z := next_c (oppf s (next_c c)).
Definition srf (s : st) (c : Z) : Z := prev_c (oppf s (prev_c c)).

Lemma oppf_created : forall s f c, W NC maxv f s -> 0 <= c < 3 * f -> oppf s c = copp s c /\ (copp s c = -1 \/ 0 <= copp s c < 3 * f).
Proof.
  intros s f c HW Hc. unfold oppf. destruct (c =? -1) eqn:E; [lia|]. split; [reflexivity|].
  destruct (w_pi _ _ _ _ HW c Hc) as [Q|(Q & _)]; [left|right]; assumption.
Qed.

Lemma swing_left_created : forall s f c, W NC maxv f s -> 0 <= c < 3 * f ->
  swing_left NC s c = Ok (slf s c) /\ (slf s c = -1 \/ 0 <= slf s c < 3 * f).
Proof.
  intros s f c HW Hc. pose proof (next_c_rng c f Hc) as Hn. pose proof (w_nf _ _ _ _ HW) as Hnf.
  destruct (oppf_created s f _ HW Hn) as (E & R).
  unfold swing_left, opposite, slf. rewrite E.
  destruct (next_c c =? -1) eqn:E1; [lia|].
  assert (in_rng (next_c c) NC = true) as -> by (apply in_rng_true; lia).
  cbn [bind]. split; [reflexivity|].
  destruct R as [R|R]; [left; rewrite R; reflexivity|right; apply next_c_rng; exact R].
Qed.
Lemma swing_right_created : forall s f c, W NC maxv f s -> 0 <= c < 3 * f ->
  swing_right NC s c = Ok (srf s c) /\ (srf s c = -1 \/ 0 <= srf s c < 3 * f).
Proof.
  intros s f c HW Hc. pose proof (prev_c_rng c f Hc) as Hn. pose proof (w_nf _ _ _ _ HW) as Hnf.
  destruct (oppf_created s f _ HW Hn) as (E & R).
  unfold swing_right, opposite, srf. rewrite E.
  destruct (prev_c c =? -1) eqn:E1; [lia|].
  assert (in_rng (prev_c c) NC = true) as -> by (apply in_rng_true; lia).
  cbn [bind]. split; [reflexivity|].
  destruct R as [R|R]; [left; rewrite R; reflexivity|right; apply prev_c_rng; exact R].
Qed.

Lemma W_map_cv : forall f s c v, W NC maxv f s -> 0 <= v < nv s -> W NC maxv f (with_c2v s (upd (c2v s) c v)).
Proof. intros f s c v H Hv. destruct H. constructor; sproj; try assumption. apply VR_upd; assumption. Qed.

Definition same_but_c2v (s s' : st) : Prop :=
  copp s' = copp s /\ vc s' = vc s /\ nv s' = nv s /\ hole s' = hole s /\ stack s' = stack s /\ splits s' = splits s /\
  events s' = events s /\ invalid s' = invalid s /\ nfaces s' = nfaces s /\ inits s' = inits s.
Lemma same_but_c2v_refl : forall s, same_but_c2v s s.
Proof. intros. repeat split. Qed.

Lemma s_loop_W : forall fuel s cn first p s' f, W NC maxv f s -> (cn = -1 \/ 0 <= cn < 3 * f) -> 0 <= p < nv s ->
  s_loop NC fuel s cn first p = Ok s' -> W NC maxv f s' /\ same_but_c2v s s'.
Proof.
  induction fuel as [|fuel IH]; intros s cn first p s' f HW Hcn Hp H; cbn [s_loop] in H; [discriminate|].
  mstep H. { apply Ok_inj in H. subst. split; [exact HW|apply same_but_c2v_refl]. }
  destruct Hcn as [Hcn|Hcn]; [lia|].
  mstep H. prim. subst. mstep H.
  pose proof (W_map_cv f s cn p HW Hp) as HW1.
  destruct (swing_left_created _ f cn HW1 Hcn) as (Q & R). rewrite Q in E0. apply Ok_inj in E0. subst.
  mstep H. apply IH with (f := f) in H; [|exact HW1|exact R|sproj; exact Hp].
  destruct H as (A & B). split; [exact A|]. unfold same_but_c2v in *. sproj. exact B.
Qed.

Lemma step_S_W : forall rm s f sid s', W NC maxv f s -> 3 * f + 3 <= NC -> step_S NC rm s f sid = Ok s' ->
  W NC maxv (f + 1) s' /\ events s' = events s /\ nfaces s' = nfaces s /\ stack s' <> [].
Proof.
  intros rm s f sid s' HW HN H. unfold step_S in H.
  destruct (stack s) as [|b rest0] eqn:Est; [discriminate|].
  pose proof (w_stack _ _ _ _ HW) as Hst. rewrite Est in Hst. inversion Hst as [|? ? Hb Hrest0]; subst.
  pose proof (w_nf _ _ _ _ HW) as Hnf. pose proof (w_nv _ _ _ _ HW) as Hnv.
  pose proof (w_free _ _ _ _ HW) as HF.
  assert (Hst1 : Forall (fun c => 0 <= c < 3 * f)
            match find_split sid (splits s) with Some c => c :: rest0 | None => rest0 end).
  { destruct (find_split sid (splits s)) as [c|] eqn:Ef; [|exact Hrest0]. constructor; [|exact Hrest0].
    pose proof (w_splits _ _ _ _ HW) as Hsp. clear - Ef Hsp. induction (splits s) as [|(k, c0) r IH]; [discriminate|].
    cbn [find_split] in Ef. inversion Hsp; subst. destruct (k =? sid); [inversion Ef; subst; assumption|apply IH; assumption]. }
  destruct (match find_split sid (splits s) with Some c => c :: rest0 | None => rest0 end) as [|a rest] eqn:Est1; [discriminate|].
  inversion Hst1 as [|? ? Ha Hrest]; subst. clear Est1 Hst1.
  pose proof (next_c_rng a f Ha) as Hna. pose proof (prev_c_rng a f Ha) as Hpa.
  pose proof (next_c_rng b f Hb) as Hnb. pose proof (prev_c_rng b f Hb) as Hpb.
  pose proof (w_vr _ _ _ _ HW _ Hpa) as Hp. pose proof (w_vr _ _ _ _ HW _ Hna) as Hq.
  pose proof (w_vr _ _ _ _ HW _ Hpb) as Hr. pose proof (w_vr _ _ _ _ HW _ Hnb) as Hn.
  pose proof (div3_lt a f Ha) as Hda. pose proof (div3_lt b f Hb) as Hdb.
  mstep H. mstep H. mstep H. destruct a0; [|discriminate].
  match goal with Q : all_free _ _ _ = Ok true |- _ => apply all_free_cons in Q; destruct Q as (Fa & Q); apply all_free_cons in Q; destruct Q as (Fb & _) end.
  destruct Fa as [Fa|(_ & Fa)]; [lia|]. destruct Fb as [Fb|(_ & Fb)]; [lia|].
  mstep H. mstep H. prim. subst. sproj.
  mstep H. vtx_created. subst. mstep H. prim. subst. sproj.
  mstep H. vtx_created. subst. simp_upd. mstep H. prim. subst. sproj.
  mstep H. vtx_created. subst. simp_upd. mstep H. prim. subst. sproj.
  mstep H. match goal with Q : set_lmc _ _ _ = Ok _ |- _ => apply set_lmc_ok in Q; sproj; destruct Q as [(A & _)|(_ & ->)]; [exfalso; lia|] end.
  mstep H. vtx_created. subst. simp_upd. mstep H. prim. subst. sproj.
  mstep H. match goal with Q : set_lmc _ _ _ = Ok _ |- _ => apply set_lmc_ok in Q; sproj; destruct Q as [(A & _)|(_ & ->)]; [exfalso; lia|] end.
  mstep H.
  match goal with Q : s_loop _ _ ?s0 _ _ _ = Ok _ |- _ => assert (HW1 : W NC maxv (f + 1) s0) end.
  { replace (3 * (f + 1)) with (3 * f + 3) by lia.
    constructor; sproj.
    - lia.
    - replace (3 * (f + 1)) with (3 * f + 3) by lia.
      apply PI_link; [apply PI_link; [eapply PI_extend; [apply (w_pi _ _ _ _ HW) | exact HF | lia] | lia | lia | exact Fa | apply HF; lia |]
                     | lia | lia | rewrite !upd_other by lia; exact Fb | rewrite !upd_other by lia; apply HF; lia |].
      + rewrite (div3_new f 2) by lia. lia.
      + rewrite (div3_new f 1) by lia. lia.
    - replace (3 * (f + 1)) with (3 * f + 3) by lia. intros c Hc. rewrite !upd_other by lia. apply HF. lia.
    - replace (3 * (f + 1)) with (3 * f + 3) by lia. intros c Hc. case_upds; try lia. pose proof (w_vr _ _ _ _ HW c). lia.
    - apply LR_upd.
      + apply LR_upd; [|right; lia]. eapply LR_mono; [apply (w_lr _ _ _ _ HW)|lia].
      + unfold upd. destruct (c2v s (next_c b) =? c2v s (prev_c b)); [right; lia|].
        destruct (w_lr _ _ _ _ HW _ Hn) as [Q|Q]; [left; exact Q|right; lia].
    - lia.
    - rewrite Est. eapply Forall_mono3; [|exact Hst]. lia.
    - eapply Forall_mono3s; [|apply (w_splits _ _ _ _ HW)]. lia.
    - apply (w_invalid _ _ _ _ HW). }
  match goal with Q : s_loop _ _ _ _ _ _ = Ok _ |- _ => apply s_loop_W with (f := f + 1) in Q; [|exact HW1|right; lia|sproj; lia] end.
  destruct E0 as (HW2 & SB). unfold same_but_c2v in SB. sproj. destruct SB as (S1 & S2 & S3 & S4 & S5 & S6 & S7 & S8 & S9 & S10).
  mstep H. prim. subst.
  assert (HW3 : W NC maxv (f + 1) (with_vc a0 (upd (vc a0) (c2v s (next_c b)) (-1)))).
  { destruct HW2. constructor; sproj; try assumption. apply LR_upd; [assumption|left; reflexivity]. }
  apply Ok_inj in H. subst s'.
  destruct rm; sproj.
  - split; [|repeat split; sproj; try congruence; discriminate].
    destruct HW3. constructor; sproj; try assumption.
    + constructor; [lia|]. eapply Forall_mono3; [|exact Hrest]. lia.
    + constructor; [rewrite S3; lia|assumption].
  - split; [|repeat split; sproj; try congruence; discriminate].
    destruct HW3. constructor; sproj; try assumption.
    constructor; [lia|]. eapply Forall_mono3; [|exact Hrest]. lia.
Qed.

Lemma step_W : forall rm ns s sid sym s', W NC maxv (nfaces s) s -> 3 * nfaces s + 3 <= NC ->
  step NC maxv rm ns s sid sym = Ok s' -> W NC maxv (nfaces s') s' /\ nfaces s' = nfaces s + 1 /\ stack s' <> [].
Proof.
  intros rm ns s sid sym s' HW HN H. unfold step in H.
  pose proof (W_with_nfaces _ _ (nfaces s + 1) HW) as HW0.
  destruct (sym =? TOPOLOGY_C).
  { apply step_C_W with (f := nfaces s) in H; [|exact HW0|exact HN]. sproj. destruct H as (A & B & C & D & E).
    rewrite C. split; [exact A | split; [reflexivity | assumption]]. }
  destruct ((sym =? TOPOLOGY_R) || (sym =? TOPOLOGY_L)).
  { mstep H. apply step_RL_W with (f := nfaces s) in E; [|exact HW0|exact HN]. sproj. destruct E as (A & B & C & D & E).
    apply split_loop_W with (f := nfaces s + 1) in H; [|exact A]. destruct H as (A' & B' & C' & D').
    rewrite B', C, D'. split; [exact A' | split; [reflexivity | assumption]]. }
  destruct (sym =? TOPOLOGY_S).
  { apply step_S_W with (f := nfaces s) in H; [|exact HW0|exact HN]. sproj. destruct H as (A & B & C & D).
    rewrite C. split; [exact A | split; [reflexivity | assumption]]. }
  destruct (sym =? TOPOLOGY_E); [|discriminate].
  mstep H. apply step_E_W with (f := nfaces s) in E; [|exact HW0|exact HN]. sproj. destruct E as (A & B & C & D & E).
  apply split_loop_W with (f := nfaces s + 1) in H; [|exact A]. destruct H as (A' & B' & C' & D').
  rewrite B', C, D'. split; [exact A' | split; [reflexivity | assumption]].
Qed.

Lemma sym_loop_W : forall rm ns syms sid s s', W NC maxv (nfaces s) s ->
  3 * (nfaces s + Z.of_nat (length syms)) <= NC ->
  sym_loop NC maxv rm ns syms sid s = Ok s' -> W NC maxv (nfaces s') s' /\ nfaces s' = nfaces s + Z.of_nat (length syms).
Proof.
  induction syms as [|sym r IH]; intros sid s s' HW HN H; cbn [sym_loop] in H.
  - apply Ok_inj in H. subst. split; [exact HW|cbn [length]; lia].
  - cbn [length] in HN. rewrite Nat2Z.inj_succ in HN. mstep H.
    apply step_W in E; [|exact HW|lia]. destruct E as (A & B & _).
    apply IH in H; [|exact A|lia]. destruct H as (A' & B'). split; [exact A'|]. cbn [length]. lia.
Qed.

Lemma W_init : forall evs, 0 <= NC -> 0 <= maxv -> W NC maxv 0 (init_st evs).
Proof.
  intros evs H1 H2. constructor; cbn; try lia.
  - intros c Hc. lia.
  - intros c Hc. reflexivity.
  - intros c Hc. lia.
  - intros v Hv. lia.
  - constructor.
  - constructor.
  - constructor.
Qed.

Ltac lmc_set :=
  match goal with Q : set_lmc _ _ _ = Ok _ |- _ => apply set_lmc_ok in Q; sproj; destruct Q as [(? & ->)|(? & ->)] end.

Lemma start_face_W : forall nf s a s', NC = 3 * nf -> W NC maxv (nfaces s) s -> 0 <= a < 3 * nfaces s ->
  start_face NC maxv nf s a = Ok s' ->
  W NC maxv (nfaces s') s' /\ nfaces s' = nfaces s + 1 /\ stack s' = stack s /\ invalid s' = invalid s /\ nv s' = nv s.
Proof.
  intros nf s a s' HNC HW Ha H. unfold start_face in H. set (f := nfaces s) in *.
  pose proof (w_nf _ _ _ _ HW) as Hnf. pose proof (w_nv _ _ _ _ HW) as Hnv.
  pose proof (w_free _ _ _ _ HW) as HF.
  pose proof (next_c_rng a f Ha) as Hna. pose proof (w_vr _ _ _ _ HW _ Hna) as Hvn.
  mstep H. mstep H. vtx_created. subst. mstep H. prim. subst.
  destruct (w_lr _ _ _ _ HW _ Hvn) as [Q|Hl].
  { rewrite Q in H. rewrite next_c_inv in H. cbn in H. discriminate H. }
  set (b := next_c (vc s (c2v s (next_c a)))) in *.
  assert (Hb : 0 <= b < 3 * f) by (apply next_c_rng; exact Hl).
  pose proof (next_c_rng b f Hb) as Hnb. pose proof (w_vr _ _ _ _ HW _ Hnb) as Hvx.
  mstep H. vtx_created. subst. mstep H. prim. subst.
  destruct (w_lr _ _ _ _ HW _ Hvx) as [Q|Hlx].
  { rewrite Q in H. rewrite next_c_inv in H. repeat (mstep H); prim; lia. }
  set (c := next_c (vc s (c2v s (next_c b)))) in *.
  assert (Hc : 0 <= c < 3 * f) by (apply next_c_rng; exact Hlx).
  pose proof (next_c_rng c f Hc) as Hnc. pose proof (w_vr _ _ _ _ HW _ Hnc) as Hvp.
  pose proof (div3_lt a f Ha) as Hda. pose proof (div3_lt b f Hb) as Hdb. pose proof (div3_lt c f Hc) as Hdc.
  mstep H. mstep H. destruct a0; [|discriminate].
  match goal with Q : all_free _ _ _ = Ok true |- _ => apply all_free_cons in Q; destruct Q as (Fa & Q); apply all_free_cons in Q; destruct Q as (Fb & Q); apply all_free_cons in Q; destruct Q as (Fc & _) end.
  destruct Fa as [Fa|(_ & Fa)]; [lia|]. destruct Fb as [Fb|(_ & Fb)]; [lia|]. destruct Fc as [Fc|(_ & Fc)]; [lia|].
  mstep H. mstep H. vtx_created. subst.
  pose proof (prev_c_rng a f Ha) as Hpa.
  mstep H. vtx_created. subst. mstep H.
  mstep H. mstep H. mstep H. prim. subst. sproj.
  mstep H. mstep H. mstep H. prim. subst. sproj.
  mstep H. vtx_created. mstep H. prim. subst. sproj.
  mstep H. vtx_created. mstep H. prim. subst. sproj.
  mstep H. vtx_created. mstep H. prim. subst. sproj.
  apply Ok_inj in H. subst s'. sproj.
  split; [|repeat split; reflexivity].
  fold f. replace (3 * (f + 1)) with (3 * f + 3) by lia.
  assert (f < nf) by lia.
  constructor; sproj.
  - lia.
  - apply PI_link; [apply PI_link; [apply PI_link; [eapply PI_extend; [apply (w_pi _ _ _ _ HW) | exact HF | lia]
        | lia | lia | apply HF; lia | exact Fa |]
      | lia | lia | rewrite !upd_other by lia; apply HF; lia | rewrite !upd_other by lia; exact Fb |]
    | lia | lia | rewrite !upd_other by lia; apply HF; lia | rewrite !upd_other by lia; exact Fc |].
    + replace (3 * f) with (3 * f + 0) by lia. rewrite (div3_new f 0) by lia. lia.
    + rewrite (div3_new f 1) by lia. lia.
    + rewrite (div3_new f 2) by lia. lia.
  - intros c0 Hc0. rewrite !upd_other by lia. apply HF. lia.
  - intros c0 Hc0. case_upds; try lia. pose proof (w_vr _ _ _ _ HW c0). lia.
  - eapply LR_mono; [apply (w_lr _ _ _ _ HW)|lia].
  - lia.
  - eapply Forall_mono3; [|apply (w_stack _ _ _ _ HW)]. lia.
  - replace (3 * f + 3) with (3 * (f + 1)) by lia. eapply Forall_mono3s; [|apply (w_splits _ _ _ _ HW)]. lia.
  - apply (w_invalid _ _ _ _ HW).
Qed.

Lemma start_loop_W : forall nf bits stk k s s', NC = 3 * nf -> W NC maxv (nfaces s) s ->
  Forall (fun c => 0 <= c < 3 * nfaces s) stk ->
  start_loop NC maxv nf bits k stk s = Ok s' ->
  W NC maxv (nfaces s') s' /\ invalid s' = invalid s /\ nv s' = nv s /\ nfaces s <= nfaces s'.
Proof.
  induction stk as [|a r IH]; intros k s s' HNC HW Hstk H; cbn [start_loop] in H.
  - apply Ok_inj in H. subst s'. sproj. split; [|repeat split; lia].
    destruct HW. constructor; sproj; try assumption; constructor.
  - inversion Hstk as [|x y Ha Hr]; subst x y. destruct (bits k).
    + mstep H. apply start_face_W in E; [|exact HNC|exact HW|exact Ha]. destruct E as (A & B & C & D & E).
      apply IH in H; [|exact HNC|exact A|eapply Forall_mono3; [|exact Hr]; lia].
      destruct H as (A' & B' & C' & D'). split; [exact A'|]. repeat split; try congruence. lia.
    + apply IH in H; [|exact HNC|apply W_with_inits; exact HW|exact Hr]. sproj. exact H.
Qed.
End Steps.

(** * Termination: the fuel of the S-case relabelling loop is never exhausted *)
Section Term.
Variables NC maxv : Z.

Lemma slf_inj : forall s f c d, W NC maxv f s -> 0 <= c < 3 * f -> 0 <= d < 3 * f ->
  slf s c = slf s d -> slf s c <> -1 -> c = d.
Proof.
  intros s f c d HW Hc Hd E N.
  pose proof (next_c_rng c f Hc) as Hnc. pose proof (next_c_rng d f Hd) as Hnd.
  destruct (oppf_created NC maxv s f _ HW Hnc) as (E1 & R1). destruct (oppf_created NC maxv s f _ HW Hnd) as (E2 & R2).
  unfold slf in *. rewrite E1, E2 in *.
  destruct R1 as [R1|R1]; [rewrite R1 in N; cbn in N; congruence|].
  destruct R2 as [R2|R2]; [rewrite R2 in E; rewrite next_c_inv in E; congruence|].
  apply next_c_inj in E; try lia.
  destruct (w_pi _ _ _ _ HW _ Hnc) as [Q|(_ & Q1 & _)]; [lia|].
  destruct (w_pi _ _ _ _ HW _ Hnd) as [Q|(_ & Q2 & _)]; [lia|].
  rewrite E in Q1. rewrite Q1 in Q2. apply next_c_inj in Q2; lia.
Qed.

Inductive chain (g : Z -> Z) (first : Z) : list Z -> Z -> Prop :=
| ch_nil : chain g first [] first
| ch_cons : forall vis c, chain g first vis c -> chain g first (c :: vis) (g c).

Lemma chain_head : forall g first vis cur, chain g first vis cur ->
  (vis = [] /\ cur = first) \/ exists c vis', vis = c :: vis' /\ g c = cur.
Proof. intros g first vis cur H. destruct H; [left; split; reflexivity | right; eauto]. Qed.

Lemma chain_pred : forall g first vis cur, chain g first vis cur ->
  forall x, In x vis -> x = first \/ exists y, In y vis /\ g y = x.
Proof.
  intros g first vis cur H. induction H as [|vis c H IH]; intros x Hx; [destruct Hx|].
  destruct Hx as [<- | Hx].
  - destruct (chain_head _ _ _ _ H) as [(-> & ->) | (c' & vis' & -> & E)]; [left; reflexivity|].
    right. exists c'. split; [right; left; reflexivity | exact E].
  - destruct (IH x Hx) as [-> | (y & Hy & E)]; [left; reflexivity|]. right. exists y. split; [right; exact Hy | exact E].
Qed.

Lemma pigeonhole : forall (l : list Z) m, NoDup l -> Forall (fun c => 0 <= c < m) l -> (length l <= Z.to_nat m)%nat.
Proof.
  intros l m ND F.
  replace (Z.to_nat m) with (length (map Z.of_nat (seq 0 (Z.to_nat m)))) by (rewrite map_length, seq_length; reflexivity).
  apply NoDup_incl_length; [exact ND|].
  intros x Hx. rewrite Forall_forall in F. specialize (F x Hx). apply in_map_iff. exists (Z.to_nat x).
  split; [lia|]. apply in_seq. lia.
Qed.

Lemma s_loop_nofuel_gen : forall fuel s f cn first p vis, W NC maxv f s -> (cn = -1 \/ 0 <= cn < 3 * f) -> 0 <= p < nv s ->
  chain (slf s) first vis cn -> NoDup vis -> Forall (fun c => 0 <= c < 3 * f) vis -> ~ In cn vis ->
  (length vis + fuel > Z.to_nat (3 * f))%nat ->
  s_loop NC fuel s cn first p <> Fuel.
Proof.
  induction fuel as [|fuel IH]; intros s f cn first p vis HW Hcn Hp Hch ND HF Hnin Hlen.
  - exfalso. pose proof (pigeonhole vis (3 * f) ND HF). lia.
  - cbn [s_loop]. destruct (cn =? -1) eqn:E; [discriminate|].
    destruct Hcn as [Hcn|Hcn]; [lia|].
    pose proof (w_nf _ _ _ _ HW) as Hnf.
    unfold map_cv. assert (in_rng cn NC = true) as -> by (apply in_rng_true; lia). cbn [bind].
    pose proof (W_map_cv NC maxv f s cn p HW Hp) as HW1.
    destruct (swing_left_created NC maxv _ f cn HW1 Hcn) as (Q & R). rewrite Q. cbn [bind].
    change (slf (with_c2v s (upd (c2v s) cn p)) cn) with (slf s cn) in *.
    destruct (slf s cn =? first) eqn:E1; [discriminate|].
    apply IH with (f := f) (vis := cn :: vis); try assumption.
    + apply (ch_cons (slf s) first vis cn Hch).
    + constructor; assumption.
    + constructor; assumption.
    + intros [Heq | Hin].
      * (* slf cn = cn *)
        destruct (chain_head _ _ _ _ Hch) as [(Hv & Hc0) | (c' & vis' & Hv & Ec)]; [lia|].
        rewrite Hv in HF. pose proof (Forall_inv HF) as Hc'. cbv beta in Hc'.
        assert (c' = cn). { apply (slf_inj s f c' cn HW Hc' Hcn). - rewrite Ec. exact Heq. - rewrite Ec. lia. }
        apply Hnin. rewrite Hv. left. assumption.
      * destruct (chain_pred _ _ _ _ Hch _ Hin) as [Q1 | (y & Hy & Ey)]; [lia|].
        rewrite Forall_forall in HF. pose proof (HF y Hy) as Hyr. pose proof (HF _ Hin) as Hsr.
        assert (y = cn). { apply (slf_inj s f y cn HW Hyr Hcn). - exact Ey. - rewrite Ey. lia. }
        subst y. apply Hnin. exact Hy.
    + cbn [length]. lia.
Qed.

Lemma s_loop_nofuel : forall s f cn p, W NC maxv f s -> (cn = -1 \/ 0 <= cn < 3 * f) -> 0 <= p < nv s ->
  s_loop NC (loop_fuel NC) s cn cn p <> Fuel.
Proof.
  intros s f cn p HW Hcn Hp. apply s_loop_nofuel_gen with (f := f) (vis := []); try assumption.
  - constructor.
  - constructor.
  - constructor.
  - intros [].
  - pose proof (w_nf _ _ _ _ HW). unfold loop_fuel. cbn [length]. lia.
Qed.
End Term.

(** * No primitive returns [Fuel]; propagation through the state machine *)
Section NoFuel.
Variables NC maxv : Z.

Lemma vertex_nf : forall s c, vertex NC s c <> Fuel.
Proof. intros. unfold vertex. destruct (c =? -1); [discriminate|]. destruct (in_rng c NC); discriminate. Qed.
Lemma opposite_nf : forall s c, opposite NC s c <> Fuel.
Proof. intros. unfold opposite. destruct (c =? -1); [discriminate|]. destruct (in_rng c NC); discriminate. Qed.
Lemma lmc_nf : forall s v, lmc s v <> Fuel.
Proof. intros. unfold lmc. destruct (in_rng v (nv s)); discriminate. Qed.
Lemma set_opp_nf : forall s c o, set_opp NC s c o <> Fuel.
Proof. intros. unfold set_opp. destruct (in_rng c NC); discriminate. Qed.
Lemma set_opps_nf : forall s c o, set_opps NC s c o <> Fuel.
Proof.
  intros. unfold set_opps, bind. destruct (set_opp NC s c o) eqn:E; try discriminate; [apply set_opp_nf|].
  exfalso. eapply set_opp_nf. exact E.
Qed.
Lemma map_cv_nf : forall s c v, map_cv NC s c v <> Fuel.
Proof. intros. unfold map_cv. destruct (in_rng c NC); discriminate. Qed.
Lemma set_lmc_nf : forall s v c, set_lmc s v c <> Fuel.
Proof. intros. unfold set_lmc. destruct (v =? -1); [discriminate|]. destruct (in_rng v (nv s)); discriminate. Qed.
Lemma make_isolated_nf : forall s v, make_isolated s v <> Fuel.
Proof. intros. unfold make_isolated. destruct (in_rng v (nv s)); discriminate. Qed.
Lemma set_hole_nf : forall s v b, set_hole maxv s v b <> Fuel.
Proof. intros. unfold set_hole. destruct (in_rng v maxv); discriminate. Qed.
Lemma get_hole_nf : forall s v, get_hole maxv s v <> Fuel.
Proof. intros. unfold get_hole. destruct (in_rng v maxv); discriminate. Qed.
Lemma all_free_nf : forall s cs, all_free NC s cs <> Fuel.
Proof.
  intros s cs. induction cs as [|c r IH]; [discriminate|].
  unfold all_free in *. unfold bind. destruct (opposite NC s c) eqn:E; try discriminate.
  - destruct (a =? -1); [exact IH|discriminate].
  - exfalso. eapply opposite_nf. exact E.
Qed.
End NoFuel.

Ltac prim_nf E :=
  exfalso; revert E;
  first [ apply vertex_nf | apply opposite_nf | apply lmc_nf | apply set_opps_nf | apply set_opp_nf | apply map_cv_nf
        | apply set_lmc_nf | apply make_isolated_nf | apply set_hole_nf | apply get_hole_nf | apply all_free_nf ].

(** destructor for [... = Fuel]: a primitive cannot be the culprit, so we continue in its Ok branch *)
Ltac mstepF H :=
  match type of H with
  | bind ?e _ = Fuel => let E := fresh "E" in destruct e eqn:E; cbn [bind] in H; [ | discriminate H | discriminate H | try (prim_nf E) ]
  | (if ?b then _ else _) = Fuel => let E := fresh "E" in destruct b eqn:E; try discriminate H
  | (let '(_, _) := ?e in _) = Fuel => let E := fresh "E" in destruct e eqn:E
  | match ?l with [] => _ | _ :: _ => _ end = Fuel => let E := fresh "E" in destruct l eqn:E; try discriminate H
  | match ?l with Some _ => _ | None => _ end = Fuel => let E := fresh "E" in destruct l eqn:E; try discriminate H
  end.
Ltac nofuel_auto H := repeat (first [discriminate H | mstepF H]).

Section NoFuel2.
Variables NC maxv : Z.

Lemma step_C_nofuel : forall s f, step_C NC maxv s f <> Fuel.
Proof. intros s f H. unfold step_C in H. nofuel_auto H. Qed.
Lemma step_RL_nofuel : forall b s f, step_RL NC maxv b s f <> Fuel.
Proof. intros b s f H. unfold step_RL in H. destruct b; nofuel_auto H. Qed.
Lemma step_E_nofuel : forall s f, step_E NC maxv s f <> Fuel.
Proof. intros s f H. unfold step_E in H. nofuel_auto H. Qed.
Lemma start_face_nofuel : forall nf s a, start_face NC maxv nf s a <> Fuel.
Proof. intros nf s a H. unfold start_face in H. nofuel_auto H. Qed.
Lemma split_loop_nofuel : forall evs s ns enc, split_loop evs s ns enc <> Fuel.
Proof.
  induction evs as [|((src, spl), edge) r IH]; intros s ns enc H; cbn [split_loop] in H; [discriminate|].
  nofuel_auto H. eapply IH. exact H.
Qed.
Lemma start_loop_nofuel : forall nf bits stk k s, start_loop NC maxv nf bits k stk s <> Fuel.
Proof.
  induction stk as [|a r IH]; intros k s H; cbn [start_loop] in H; [discriminate|].
  destruct (bits k).
  - unfold bind in H. destruct (start_face NC maxv nf s a) eqn:E; try discriminate.
    + eapply IH. exact H.
    + eapply start_face_nofuel. exact E.
  - eapply IH. exact H.
Qed.

Lemma step_S_nofuel : forall rm s f sid, W NC maxv f s -> 3 * f + 3 <= NC -> step_S NC rm s f sid <> Fuel.
Proof.
  intros rm s f sid HW HN H. unfold step_S in H.
  destruct (stack s) as [|b rest0] eqn:Est; [discriminate|].
  pose proof (w_stack _ _ _ _ HW) as Hst. rewrite Est in Hst. inversion Hst as [|? ? Hb Hrest0]; subst.
  pose proof (w_nf _ _ _ _ HW) as Hnf. pose proof (w_nv _ _ _ _ HW) as Hnv.
  pose proof (w_free _ _ _ _ HW) as HF.
  assert (Hst1 : Forall (fun c => 0 <= c < 3 * f)
            match find_split sid (splits s) with Some c => c :: rest0 | None => rest0 end).
  { destruct (find_split sid (splits s)) as [c|] eqn:Ef; [|exact Hrest0]. constructor; [|exact Hrest0].
    pose proof (w_splits _ _ _ _ HW) as Hsp. clear - Ef Hsp. induction (splits s) as [|(k, c0) r IH]; [discriminate|].
    cbn [find_split] in Ef. inversion Hsp; subst. destruct (k =? sid); [inversion Ef; subst; assumption|apply IH; assumption]. }
  destruct (match find_split sid (splits s) with Some c => c :: rest0 | None => rest0 end) as [|a rest] eqn:Est1; [discriminate|].
  inversion Hst1 as [|? ? Ha Hrest]; subst. clear Est1 Hst1.
  pose proof (next_c_rng a f Ha) as Hna. pose proof (prev_c_rng a f Ha) as Hpa.
  pose proof (next_c_rng b f Hb) as Hnb. pose proof (prev_c_rng b f Hb) as Hpb.
  pose proof (w_vr _ _ _ _ HW _ Hpa) as Hp. pose proof (w_vr _ _ _ _ HW _ Hna) as Hq.
  pose proof (w_vr _ _ _ _ HW _ Hpb) as Hr. pose proof (w_vr _ _ _ _ HW _ Hnb) as Hn.
  pose proof (div3_lt a f Ha) as Hda. pose proof (div3_lt b f Hb) as Hdb.
  mstepF H. mstepF H. mstepF H. destruct a0; [|discriminate].
  match goal with Q : all_free _ _ _ = Ok true |- _ => apply all_free_cons in Q; destruct Q as (Fa & Q); apply all_free_cons in Q; destruct Q as (Fb & _) end.
  destruct Fa as [Fa|(_ & Fa)]; [lia|]. destruct Fb as [Fb|(_ & Fb)]; [lia|].
  mstepF H. mstepF H. prim. subst. sproj.
  mstepF H. vtx_created. subst. mstepF H. prim. subst. sproj.
  mstepF H. vtx_created. subst. simp_upd. mstepF H. prim. subst. sproj.
  mstepF H. vtx_created. subst. simp_upd. mstepF H. prim. subst. sproj.
  mstepF H. match goal with Q : set_lmc _ _ _ = Ok _ |- _ => apply set_lmc_ok in Q; sproj; destruct Q as [(A & _)|(_ & ->)]; [exfalso; lia|] end.
  mstepF H. vtx_created. subst. simp_upd. mstepF H. prim. subst. sproj.
  mstepF H. match goal with Q : set_lmc _ _ _ = Ok _ |- _ => apply set_lmc_ok in Q; sproj; destruct Q as [(A & _)|(_ & ->)]; [exfalso; lia|] end.
  match type of H with bind (s_loop _ _ ?s0 _ _ _) _ = Fuel => assert (HW1 : W NC maxv (f + 1) s0) end.
  { replace (3 * (f + 1)) with (3 * f + 3) by lia.
    constructor; sproj.
    - lia.
    - replace (3 * (f + 1)) with (3 * f + 3) by lia.
      apply PI_link; [apply PI_link; [eapply PI_extend; [apply (w_pi _ _ _ _ HW) | exact HF | lia] | lia | lia | exact Fa | apply HF; lia |]
                     | lia | lia | rewrite !upd_other by lia; exact Fb | rewrite !upd_other by lia; apply HF; lia |].
      + rewrite (div3_new f 2) by lia. lia.
      + rewrite (div3_new f 1) by lia. lia.
    - replace (3 * (f + 1)) with (3 * f + 3) by lia. intros c Hc. rewrite !upd_other by lia. apply HF. lia.
    - replace (3 * (f + 1)) with (3 * f + 3) by lia. intros c Hc. case_upds; try lia. pose proof (w_vr _ _ _ _ HW c). lia.
    - apply LR_upd.
      + apply LR_upd; [|right; lia]. eapply LR_mono; [apply (w_lr _ _ _ _ HW)|lia].
      + unfold upd. destruct (c2v s (next_c b) =? c2v s (prev_c b)); [right; lia|].
        destruct (w_lr _ _ _ _ HW _ Hn) as [Q|Q]; [left; exact Q|right; lia].
    - lia.
    - rewrite Est. eapply Forall_mono3; [|exact Hst]. lia.
    - eapply Forall_mono3s; [|apply (w_splits _ _ _ _ HW)]. lia.
    - apply (w_invalid _ _ _ _ HW). }
  mstepF H.
  - mstepF H. discriminate H.
  - revert E0. apply s_loop_nofuel with (maxv := maxv) (f := f + 1); [exact HW1|right; lia|sproj; lia].
Qed.

Lemma step_nofuel : forall rm ns s sid sym, W NC maxv (nfaces s) s -> 3 * nfaces s + 3 <= NC ->
  step NC maxv rm ns s sid sym <> Fuel.
Proof.
  intros rm ns s sid sym HW HN H. unfold step in H.
  pose proof (W_with_nfaces NC maxv _ _ (nfaces s + 1) HW) as HW0.
  destruct (sym =? TOPOLOGY_C); [eapply step_C_nofuel; exact H|].
  destruct ((sym =? TOPOLOGY_R) || (sym =? TOPOLOGY_L)).
  { unfold bind in H. destruct (step_RL _ _ _ _ _) eqn:E; try discriminate; [eapply split_loop_nofuel; exact H|eapply step_RL_nofuel; exact E]. }
  destruct (sym =? TOPOLOGY_S); [eapply step_S_nofuel; [exact HW0|exact HN|exact H]|].
  destruct (sym =? TOPOLOGY_E); [|discriminate].
  unfold bind in H. destruct (step_E _ _ _ _) eqn:E; try discriminate; [eapply split_loop_nofuel; exact H|eapply step_E_nofuel; exact E].
Qed.

Lemma sym_loop_nofuel : forall rm ns syms sid s, W NC maxv (nfaces s) s ->
  3 * (nfaces s + Z.of_nat (length syms)) <= NC -> sym_loop NC maxv rm ns syms sid s <> Fuel.
Proof.
  induction syms as [|sym r IH]; intros sid s HW HN H; cbn [sym_loop] in H; [discriminate|].
  cbn [length] in HN. rewrite Nat2Z.inj_succ in HN.
  unfold bind in H. destruct (step NC maxv rm ns s sid sym) eqn:E; try discriminate.
  - apply step_W in E; [|exact HW|lia]. destruct E as (A & B & _). eapply IH; [exact A| |exact H]. lia.
  - eapply step_nofuel; [exact HW| |exact E]. lia.
Qed.
End NoFuel2.

(** * Top level *)
Definition eb_pre (NC maxv nf : Z) (rm : bool) (syms : list Z) (events : list (Z * Z * Z)) (bits : nat -> bool) : res st :=
  let ns := Z.of_nat (length syms) in
  s <- sym_loop NC maxv rm ns syms 0 (init_st events) ;;
  if nv s >? maxv then Reject else
  s <- start_loop NC maxv nf bits O (stack s) s ;;
  if negb (nfaces s =? nf) then Reject else Ok s.

(** [eb_core] = [eb_pre] (symbol loop, start faces, face-count test) followed by the vertex compaction *)
Lemma eb_core_pre : forall NC maxv nf rm syms events bits n sf,
  eb_core NC maxv nf rm syms events bits = Ok (n, sf) ->
  exists s0 k, eb_pre NC maxv nf rm syms events bits = Ok s0 /\
    compact NC maxv (rev (invalid s0)) (Z.to_nat (nv s0)) s0 = Ok (k, sf) /\ n = Z.of_nat k.
Proof.
  intros NC maxv nf rm syms events bits n sf H. unfold eb_core in H. unfold eb_pre.
  mstep H. mstep H. mstep H. mstep H. mstep H. destruct a1 as (k, s1). cbn [fst snd] in H.
  apply Ok_inj in H. exists a0, k. cbn [bind]. rewrite E0, E1. cbn [bind]. rewrite E2.
  apply pair_equal_spec in H. destruct H as (<- & <-). repeat split. exact E3.
Qed.

(** the table at the end of the start-face phase of every accepted run *)
Theorem eb_pre_valid : forall nf maxv rm syms events bits s0, 0 <= nf -> 0 <= maxv ->
  Z.of_nat (length syms) <= nf ->
  eb_pre (3 * nf) maxv nf rm syms events bits = Ok s0 ->
  nfaces s0 = nf /\ 0 <= nv s0 <= maxv /\
  (forall c, 0 <= c < 3 * nf -> 0 <= c2v s0 c < nv s0) /\
  (forall c, 0 <= c < 3 * nf -> copp s0 c = -1 \/
       (0 <= copp s0 c < 3 * nf /\ copp s0 (copp s0 c) = c /\ copp s0 c <> c /\ copp s0 c / 3 <> c / 3)) /\
  (forall v, 0 <= v < nv s0 -> vc s0 v = -1 \/ 0 <= vc s0 v < 3 * nf) /\
  Forall (fun v => 0 <= v < nv s0) (invalid s0).
Proof.
  intros nf maxv rm syms events bits s0 Hnf Hmv Hns H. unfold eb_pre in H.
  mstep H. mstep H. mstep H. mstep H. apply Ok_inj in H. subst a0.
  apply sym_loop_W in E; [|apply W_init; lia|cbn [nfaces init_st]; lia].
  destruct E as (HW & Hf). cbn [nfaces init_st] in Hf.
  apply start_loop_W in E1; [|reflexivity|exact HW|apply (w_stack _ _ _ _ HW)].
  destruct E1 as (HW2 & _ & _ & _).
  assert (Hf2 : nfaces s0 = nf) by lia. rewrite Hf2 in HW2.
  split; [exact Hf2|]. split; [apply (w_nv _ _ _ _ HW2)|]. split; [apply (w_vr _ _ _ _ HW2)|].
  split; [|split; [apply (w_lr _ _ _ _ HW2)|apply (w_invalid _ _ _ _ HW2)]].
  intros c Hc. destruct (w_pi _ _ _ _ HW2 c Hc) as [Q|(A & B & C)]; [left; exact Q|right].
  repeat split; try lia; try assumption. intro Q. rewrite Q in C. lia.
Qed.

(** Termination of the symbol loop (incl. the S-case SwingLeft relabelling loop) and of the start-face phase *)
Theorem eb_symbol_phase_terminates : forall nf maxv rm syms events, 0 <= nf -> 0 <= maxv ->
  Z.of_nat (length syms) <= nf ->
  sym_loop (3 * nf) maxv rm (Z.of_nat (length syms)) syms 0 (init_st events) <> Fuel.
Proof.
  intros nf maxv rm syms events Hnf Hmv Hns. apply sym_loop_nofuel; [apply W_init; lia|cbn [nfaces init_st]; lia].
Qed.

Theorem eb_pre_terminates : forall nf maxv rm syms events bits, 0 <= nf -> 0 <= maxv ->
  Z.of_nat (length syms) <= nf -> eb_pre (3 * nf) maxv nf rm syms events bits <> Fuel.
Proof.
  intros nf maxv rm syms events bits Hnf Hmv Hns H. unfold eb_pre in H.
  unfold bind in H. destruct (sym_loop _ _ _ _ _ _ _) eqn:E; try discriminate.
  - destruct (nv a >? maxv); [discriminate|].
    destruct (start_loop _ _ _ _ _ _ _) eqn:E1; try discriminate.
    + destruct (negb (nfaces a0 =? nf)); discriminate.
    + eapply start_loop_nofuel. exact E1.
  - exact (eb_symbol_phase_terminates nf maxv rm syms events Hnf Hmv Hns E).
Qed.

(** the caller's guards: the state machine only ever runs with num_symbols <= num_faces and 0 <= max_num_vertices < 2^31 *)
Lemma eb_full_guard : forall nev nf nsplit rm syms events bits, 0 <= nf ->
  eb_full nev nf nsplit rm syms events bits = Reject \/
  (Z.of_nat (length syms) <= nf /\ 0 <= (nev + nsplit) mod 4294967296 /\
   eb_full nev nf nsplit rm syms events bits = eb_core (3 * nf) ((nev + nsplit) mod 4294967296) nf rm syms events bits).
Proof.
  intros. unfold eb_full.
  repeat match goal with |- context[if ?b then _ else _] => destruct b eqn:?; [left; reflexivity|] end.
  right. split; [lia|]. split; [|reflexivity]. apply Z.mod_pos_bound. lia.
Qed.

Theorem eb_accept_partial : forall nf maxv rm syms events bits n sf, 0 <= nf -> 0 <= maxv ->
  Z.of_nat (length syms) <= nf ->
  eb_core (3 * nf) maxv nf rm syms events bits = Ok (n, sf) ->
  exists s0 k, eb_pre (3 * nf) maxv nf rm syms events bits = Ok s0 /\
    compact (3 * nf) maxv (rev (invalid s0)) (Z.to_nat (nv s0)) s0 = Ok (k, sf) /\ n = Z.of_nat k /\
    nfaces s0 = nf /\ 0 <= nv s0 <= maxv /\
    (forall c, 0 <= c < 3 * nf -> 0 <= c2v s0 c < nv s0) /\
    (forall c, 0 <= c < 3 * nf -> copp s0 c = -1 \/
       (0 <= copp s0 c < 3 * nf /\ copp s0 (copp s0 c) = c /\ copp s0 c <> c /\ copp s0 c / 3 <> c / 3)) /\
    (forall v, 0 <= v < nv s0 -> vc s0 v = -1 \/ 0 <= vc s0 v < 3 * nf) /\
    Forall (fun v => 0 <= v < nv s0) (invalid s0).
Proof.
  intros nf maxv rm syms events bits n sf Hnf Hmv Hns H.
  destruct (eb_core_pre _ _ _ _ _ _ _ _ _ H) as (s0 & k & A & B & C).
  exists s0, k. split; [exact A|]. split; [exact B|]. split; [exact C|].
  exact (eb_pre_valid nf maxv rm syms events bits s0 Hnf Hmv Hns A).
Qed.
