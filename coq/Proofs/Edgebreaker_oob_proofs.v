(** Unreachability of [OOB] in the Edgebreaker connectivity decoder model (Model/Edgebreaker.v), for ALL symbol lists,
    split events, start-face bits and declared counts: every step of the symbol loop under [W] + the fan invariant [FI]
    (Edgebreaker_fan_proofs.v), the start-face phase under [W] + "no corner maps to an isolated vertex" ([NI], which
    interior start faces preserve even when they are glued to non-matching edges), the vertex compaction under [W] +
    "the recorded invalid vertices are isolated, pairwise distinct, and a non-isolated vertex exists below num_vertices". *)
From Coq Require Import ZArith List Bool Lia ZifyBool.
From Draco Require Import Model.Edgebreaker Proofs.Edgebreaker_proofs Proofs.Edgebreaker_fan_proofs.
Import ListNotations.
Local Open Scope Z_scope.

(** * No primitive goes out of range when its index is in range *)
Section OobPrims.
Variables NC maxv : Z.
Lemma in_rng_false : forall i n, in_rng i n = false -> ~ (0 <= i < n).
Proof. intros i n H. unfold in_rng in H. lia. Qed.
Lemma vertex_oob : forall s c, vertex NC s c = OOB -> c <> -1 /\ ~ (0 <= c < NC).
Proof. intros s c H. unfold vertex in H. destruct (c =? -1) eqn:E; [discriminate|]. destruct (in_rng c NC) eqn:R; [discriminate|]. apply in_rng_false in R. lia. Qed.
Lemma opposite_oob : forall s c, opposite NC s c = OOB -> c <> -1 /\ ~ (0 <= c < NC).
Proof. intros s c H. unfold opposite in H. destruct (c =? -1) eqn:E; [discriminate|]. destruct (in_rng c NC) eqn:R; [discriminate|]. apply in_rng_false in R. lia. Qed.
Lemma lmc_oob : forall s v, lmc s v = OOB -> ~ (0 <= v < nv s).
Proof. intros s v H. unfold lmc in H. destruct (in_rng v (nv s)) eqn:R; [discriminate|]. apply in_rng_false in R. exact R. Qed.
Lemma set_opp_oob : forall s c o, set_opp NC s c o = OOB -> ~ (0 <= c < NC).
Proof. intros s c o H. unfold set_opp in H. destruct (in_rng c NC) eqn:R; [discriminate|]. apply in_rng_false in R. exact R. Qed.
Lemma set_opps_oob : forall s c0 c1, set_opps NC s c0 c1 = OOB -> ~ (0 <= c0 < NC) \/ ~ (0 <= c1 < NC).
Proof.
  intros s c0 c1 H. unfold set_opps, bind in H. destruct (set_opp NC s c0 c1) eqn:E; try discriminate.
  - right. eapply set_opp_oob. exact H.
  - left. eapply set_opp_oob. exact E.
Qed.
Lemma map_cv_oob : forall s c v, map_cv NC s c v = OOB -> ~ (0 <= c < NC).
Proof. intros s c v H. unfold map_cv in H. destruct (in_rng c NC) eqn:R; [discriminate|]. apply in_rng_false in R. exact R. Qed.
Lemma set_lmc_oob : forall s v c, set_lmc s v c = OOB -> v <> -1 /\ ~ (0 <= v < nv s).
Proof. intros s v c H. unfold set_lmc in H. destruct (v =? -1) eqn:E; [discriminate|]. destruct (in_rng v (nv s)) eqn:R; [discriminate|]. apply in_rng_false in R. lia. Qed.
Lemma make_isolated_oob : forall s v, make_isolated s v = OOB -> ~ (0 <= v < nv s).
Proof. intros s v H. unfold make_isolated in H. destruct (in_rng v (nv s)) eqn:R; [discriminate|]. apply in_rng_false in R. exact R. Qed.
Lemma set_hole_oob : forall s v b, set_hole maxv s v b = OOB -> ~ (0 <= v < maxv).
Proof. intros s v b H. unfold set_hole in H. destruct (in_rng v maxv) eqn:R; [discriminate|]. apply in_rng_false in R. exact R. Qed.
Lemma get_hole_oob : forall s v, get_hole maxv s v = OOB -> ~ (0 <= v < maxv).
Proof. intros s v H. unfold get_hole in H. destruct (in_rng v maxv) eqn:R; [discriminate|]. apply in_rng_false in R. exact R. Qed.
Lemma all_free_not_oob : forall s cs, Forall (fun c => c = -1 \/ 0 <= c < NC) cs -> all_free NC s cs <> OOB.
Proof.
  intros s cs F. induction F as [|c r Hc F IH]; [discriminate|].
  unfold all_free in *. unfold bind. destruct (opposite NC s c) eqn:E; try discriminate.
  - destruct (a =? -1); [exact IH|discriminate].
  - apply opposite_oob in E. lia.
Qed.
End OobPrims.

Ltac prim_oob E :=
  first [ apply vertex_oob in E | apply opposite_oob in E | apply lmc_oob in E | apply set_opps_oob in E | apply map_cv_oob in E
        | apply set_lmc_oob in E | apply make_isolated_oob in E | apply set_hole_oob in E | apply get_hole_oob in E ].

Ltac mstepO H :=
  match type of H with
  | bind ?e _ = OOB => let E := fresh "E" in destruct e eqn:E; cbn [bind] in H;
      [ | discriminate H | try solve [exfalso; prim_oob E; sproj; lia
                                     | exfalso; revert E; apply all_free_not_oob; repeat constructor; lia] | discriminate H ]
  | (if ?b then _ else _) = OOB => let E := fresh "E" in destruct b eqn:E; try discriminate H
  | (let '(_, _) := ?e in _) = OOB => let E := fresh "E" in destruct e eqn:E
  | match ?l with [] => _ | _ :: _ => _ end = OOB => let E := fresh "E" in destruct l eqn:E; try discriminate H
  | match ?l with Some _ => _ | None => _ end = OOB => let E := fresh "E" in destruct l eqn:E; try discriminate H
  end.
Ltac lmc_set_pos :=
  match goal with Q : set_lmc _ _ _ = Ok _ |- _ => apply set_lmc_ok in Q; sproj; destruct Q as [(? & _)|(_ & ->)]; [exfalso; lia|] end.
Ltac addv := match goal with Q : add_vertex _ = _ |- _ => apply add_vertex_eq in Q; destruct Q as (-> & ->); sproj end.
Ltac norm := vtx_created; prim; subst; sproj; simp_upd.

Section OobSteps.
Variables NC maxv : Z.

Lemma s_loop_no_oob : forall fuel s cn first p f, W NC maxv f s -> (cn = -1 \/ 0 <= cn < 3 * f) -> 0 <= p < nv s ->
  s_loop NC fuel s cn first p <> OOB.
Proof.
  induction fuel as [|fuel IH]; intros s cn first p f HW Hcn Hp H; cbn [s_loop] in H; [discriminate|].
  destruct (cn =? -1) eqn:E; [discriminate|]. destruct Hcn as [?|Hcn]; [lia|].
  pose proof (w_nf _ _ _ _ HW).
  unfold map_cv in H. assert (in_rng cn NC = true) as R by (apply in_rng_true; lia). rewrite R in H. cbn [bind] in H.
  pose proof (W_map_cv NC maxv f s cn p HW Hp) as HW1.
  destruct (swing_left_created NC maxv _ f cn HW1 Hcn) as (Q & Rg). rewrite Q in H. cbn [bind] in H.
  destruct (_ =? first); [discriminate|]. eapply IH; [exact HW1|exact Rg| |exact H]. exact Hp.
Qed.

Lemma step_RL_no_oob : forall is_r s f, W NC maxv f s -> 3 * f + 3 <= NC -> step_RL NC maxv is_r s f <> OOB.
Proof.
  intros is_r s f HW HN H. unfold step_RL in H.
  destruct (stack s) as [|a rest] eqn:Est; [discriminate|].
  pose proof (w_stack _ _ _ _ HW) as Hst. rewrite Est in Hst. inversion Hst as [|? ? Ha Hrest]; subst.
  pose proof (w_nf _ _ _ _ HW) as Hnf. pose proof (w_nv _ _ _ _ HW) as Hnv.
  pose proof (next_c_rng a f Ha) as Hna. pose proof (prev_c_rng a f Ha) as Hpa.
  pose proof (w_vr _ _ _ _ HW _ Hpa) as Hvr. pose proof (w_vr _ _ _ _ HW _ Hna) as Hvl.
  mstepO H. mstepO H.
  destruct is_r.
  - mstepO H. norm. mstepO H. addv.
    mstepO H. mstepO H. norm. mstepO H. lmc_set_pos. mstepO H. norm. mstepO H. norm. mstepO H. lmc_set_pos.
    mstepO H. norm. mstepO H. discriminate H.
  - mstepO H. norm. mstepO H. addv.
    mstepO H. mstepO H. norm. mstepO H. lmc_set_pos. mstepO H. norm. mstepO H. norm. mstepO H. lmc_set_pos.
    mstepO H. norm. mstepO H. discriminate H.
Qed.

Lemma step_E_no_oob : forall s f, W NC maxv f s -> 3 * f + 3 <= NC -> step_E NC maxv s f <> OOB.
Proof.
  intros s f HW HN H. unfold step_E in H.
  pose proof (w_nf _ _ _ _ HW) as Hnf. pose proof (w_nv _ _ _ _ HW) as Hnv.
  mstepO H. addv. mstepO H. norm. mstepO H. addv. mstepO H. norm. mstepO H. addv. mstepO H. norm.
  mstepO H. mstepO H. lmc_set_pos. mstepO H. lmc_set_pos. mstepO H. discriminate H.
Qed.

Lemma step_C_no_oob : forall s f, W NC maxv f s -> FI f s -> 3 * f + 3 <= NC -> step_C NC maxv s f <> OOB.
Proof.
  intros s f HW HF HN H. unfold step_C in H.
  destruct (stack s) as [|a rest] eqn:Est; [discriminate|].
  pose proof (w_stack _ _ _ _ HW) as Hst. rewrite Est in Hst. inversion Hst as [|? ? Ha Hrest]; subst.
  pose proof (w_nf _ _ _ _ HW) as Hnf. pose proof (w_nv _ _ _ _ HW) as Hnv.
  pose proof (next_c_rng a f Ha) as Hna. pose proof (prev_c_rng a f Ha) as Hpa.
  pose proof (w_vr _ _ _ _ HW _ Hna) as Hx. pose proof (w_vr _ _ _ _ HW _ Hpa) as Hvap.
  (* the fan invariant: the vertex of a corner is not isolated, so corner_b is a real corner *)
  destruct (f_reach _ _ HF _ Hna) as (Nl & _).
  assert (Hl : 0 <= vc s (c2v s (next_c a)) < 3 * f) by (destruct (w_lr _ _ _ _ HW _ Hx) as [Q|Q]; [congruence|exact Q]).
  pose proof (next_c_rng _ f Hl) as Hb. pose proof (next_c_rng _ f Hb) as Hnb.
  pose proof (w_vr _ _ _ _ HW _ Hnb) as Hvbn.
  mstepO H. norm. mstepO H. norm. mstepO H. mstepO H. mstepO H.
  mstepO H. norm. mstepO H. norm. mstepO H. norm. mstepO H. norm. mstepO H.
  mstepO H. norm. mstepO H. norm. mstepO H. norm. mstepO H. lmc_set_pos. mstepO H. discriminate H.
Qed.

Lemma step_S_no_oob : forall rm s f sid, W NC maxv f s -> 3 * f + 3 <= NC -> step_S NC rm s f sid <> OOB.
Proof.
  intros rm s f sid HW HN H. unfold step_S in H.
  destruct (stack s) as [|b rest0] eqn:Est; [discriminate|].
  pose proof (w_stack _ _ _ _ HW) as Hst. rewrite Est in Hst. inversion Hst as [|? ? Hb Hrest0]; subst.
  pose proof (w_nf _ _ _ _ HW) as Hnf. pose proof (w_nv _ _ _ _ HW) as Hnv.
  pose proof (w_free _ _ _ _ HW) as HF.
  assert (Hst1 : Forall (fun c => 0 <= c < 3 * f)
            match find_split sid (splits s) with Some c => c :: rest0 | None => rest0 end).
  { destruct (find_split sid (splits s)) as [c|] eqn:Ef; [|exact Hrest0]. constructor; [|exact Hrest0].
    pose proof (w_splits _ _ _ _ HW) as Hsp. clear - Ef Hsp. induction (splits s) as [|(k, c0) r IH]; [discriminate|].
    cbn [find_split] in Ef. inversion Hsp; subst. destruct (k =? sid); [inversion Ef; subst; assumption|apply IH; assumption]. }
  destruct (match find_split sid (splits s) with Some c => c :: rest0 | None => rest0 end) as [|a rest] eqn:Est1; [discriminate|].
  inversion Hst1 as [|? ? Ha Hrest]; subst. clear Est1 Hst1.
  pose proof (next_c_rng a f Ha) as Hna. pose proof (prev_c_rng a f Ha) as Hpa.
  pose proof (next_c_rng b f Hb) as Hnb. pose proof (prev_c_rng b f Hb) as Hpb.
  pose proof (w_vr _ _ _ _ HW _ Hpa) as Hp. pose proof (w_vr _ _ _ _ HW _ Hna) as Hq.
  pose proof (w_vr _ _ _ _ HW _ Hpb) as Hr. pose proof (w_vr _ _ _ _ HW _ Hnb) as Hn.
  pose proof (div3_lt a f Ha) as Hda. pose proof (div3_lt b f Hb) as Hdb.
  mstepO H. mstepO H. mstepO H. destruct a0; [|discriminate].
  match goal with Q : all_free _ _ _ = Ok true |- _ => apply all_free_cons in Q; destruct Q as (Fa & Q); apply all_free_cons in Q; destruct Q as (Fb & _) end.
  destruct Fa as [Fa|(_ & Fa)]; [lia|]. destruct Fb as [Fb|(_ & Fb)]; [lia|].
  mstepO H. norm. mstepO H. norm. mstepO H. norm. mstepO H. norm. mstepO H. norm. mstepO H. norm.
  mstepO H. norm. mstepO H. norm. mstepO H. lmc_set_pos. mstepO H. norm. mstepO H. norm. mstepO H. lmc_set_pos.
  match type of H with bind (s_loop _ _ ?s0 _ _ _) _ = OOB => assert (HW1 : W NC maxv (f + 1) s0) end.
  { replace (3 * (f + 1)) with (3 * f + 3) by lia.
    constructor; sproj.
    - lia.
    - replace (3 * (f + 1)) with (3 * f + 3) by lia.
      apply PI_link; [apply PI_link; [eapply PI_extend; [apply (w_pi _ _ _ _ HW) | exact HF | lia] | lia | lia | exact Fa | apply HF; lia |]
                     | lia | lia | rewrite !upd_other by lia; exact Fb | rewrite !upd_other by lia; apply HF; lia |].
      + rewrite (div3_new f 2) by lia. lia.
      + rewrite (div3_new f 1) by lia. lia.
    - replace (3 * (f + 1)) with (3 * f + 3) by lia. intros c Hc. rewrite !upd_other by lia. apply HF. lia.
    - replace (3 * (f + 1)) with (3 * f + 3) by lia. intros c Hc. case_upds; try lia. pose proof (w_vr _ _ _ _ HW c). lia.
    - apply LR_upd.
      + apply LR_upd; [|right; lia]. eapply LR_mono; [apply (w_lr _ _ _ _ HW)|lia].
      + unfold upd. destruct (c2v s (next_c b) =? c2v s (prev_c b)); [right; lia|].
        destruct (w_lr _ _ _ _ HW _ Hn) as [Q|Q]; [left; exact Q|right; lia].
    - lia.
    - rewrite Est. eapply Forall_mono3; [|exact Hst]. lia.
    - eapply Forall_mono3s; [|apply (w_splits _ _ _ _ HW)]. lia.
    - apply (w_invalid _ _ _ _ HW). }
  mstepO H.
  - apply s_loop_W with (maxv := maxv) (f := f + 1) in E0; [|exact HW1|right; lia|sproj; lia].
    destruct E0 as (_ & SB). unfold same_but_c2v in SB. sproj. destruct SB as (S1 & S2 & S3 & _).
    mstepO H. discriminate H.
  - revert E0. apply s_loop_no_oob with (f := f + 1); [exact HW1|right; lia|sproj; lia].
Qed.

Lemma split_loop_no_oob : forall evs s ns enc, stack s <> [] -> split_loop evs s ns enc <> OOB.
Proof.
  induction evs as [|((src, spl), edge) r IH]; intros s ns enc Hs H; cbn [split_loop] in H; [discriminate|].
  mstepO H. mstepO H. mstepO H. destruct (stack s) as [|top rest] eqn:Est; [congruence|].
  eapply IH; [|exact H]. sproj. rewrite Est. discriminate.
Qed.

Lemma step_no_oob : forall rm ns s sid sym, W NC maxv (nfaces s) s -> FI (nfaces s) s -> 3 * nfaces s + 3 <= NC ->
  step NC maxv rm ns s sid sym <> OOB.
Proof.
  intros rm ns s sid sym HW HF HN H. unfold step in H.
  pose proof (W_with_nfaces NC maxv _ _ (nfaces s + 1) HW) as HW0.
  assert (HF0 : FI (nfaces s) (with_nfaces s (nfaces s + 1))) by (apply (FI_same _ s); try reflexivity; exact HF).
  destruct (sym =? TOPOLOGY_C); [eapply step_C_no_oob; eassumption|].
  destruct ((sym =? TOPOLOGY_R) || (sym =? TOPOLOGY_L)).
  { unfold bind in H. destruct (step_RL _ _ _ _ _) eqn:E; try discriminate.
    - apply step_RL_W with (f := nfaces s) in E; [|exact HW0|exact HN]. eapply split_loop_no_oob; [|exact H]. apply E.
    - eapply step_RL_no_oob; eassumption. }
  destruct (sym =? TOPOLOGY_S); [eapply step_S_no_oob; eassumption|].
  destruct (sym =? TOPOLOGY_E); [|discriminate].
  unfold bind in H. destruct (step_E _ _ _ _) eqn:E; try discriminate.
  - apply step_E_W with (f := nfaces s) in E; [|exact HW0|exact HN]. eapply split_loop_no_oob; [|exact H]. apply E.
  - eapply step_E_no_oob; eassumption.
Qed.

Lemma sym_loop_no_oob : forall rm ns syms sid s, W NC maxv (nfaces s) s -> FI (nfaces s) s ->
  3 * (nfaces s + Z.of_nat (length syms)) <= NC -> sym_loop NC maxv rm ns syms sid s <> OOB.
Proof.
  induction syms as [|sym r IH]; intros sid s HW HF HN H; cbn [sym_loop] in H; [discriminate|].
  cbn [length] in HN. rewrite Nat2Z.inj_succ in HN.
  unfold bind in H. destruct (step NC maxv rm ns s sid sym) eqn:E; try discriminate.
  - pose proof (step_W NC maxv _ _ _ _ _ _ HW ltac:(lia) E) as (A & B & _).
    pose proof (step_FI NC maxv _ _ _ _ _ _ HW HF ltac:(lia) E) as C.
    eapply IH; [exact A|exact C| |exact H]. lia.
  - eapply step_no_oob; [exact HW|exact HF| |exact E]. lia.
Qed.
End OobSteps.

(** * Start-face phase and compaction *)
Definition NI (f : Z) (s : st) : Prop := forall c, 0 <= c < 3 * f -> vc s (c2v s c) <> -1.

Section OobTail.
Variables NC maxv : Z.

Lemma FI_NI : forall f s, FI f s -> NI f s.
Proof. intros f s HF c Hc. apply (f_reach _ _ HF c Hc). Qed.

Lemma start_face_NI : forall nf s a s', NC = 3 * nf -> W NC maxv (nfaces s) s -> NI (nfaces s) s -> 0 <= a < 3 * nfaces s ->
  start_face NC maxv nf s a = Ok s' -> NI (nfaces s') s' /\ vc s' = vc s.
Proof.
  intros nf s a s' HNC HW HN Ha H.
  pose proof (start_face_W NC maxv nf s a s' HNC HW Ha H) as (_ & Enf & _). rewrite Enf. clear Enf.
  unfold start_face in H. set (f := nfaces s) in *.
  pose proof (w_nf _ _ _ _ HW) as Hnf. pose proof (w_nv _ _ _ _ HW) as Hnv.
  pose proof (next_c_rng a f Ha) as Hna. pose proof (w_vr _ _ _ _ HW _ Hna) as Hvn.
  mstep H. mstep H. vtx_created. subst. mstep H. prim. subst.
  destruct (w_lr _ _ _ _ HW _ Hvn) as [Q|Hl]; [exfalso; exact (HN _ Hna Q)|].
  set (b := next_c (vc s (c2v s (next_c a)))) in *.
  assert (Hb : 0 <= b < 3 * f) by (apply next_c_rng; exact Hl).
  pose proof (next_c_rng b f Hb) as Hnb. pose proof (w_vr _ _ _ _ HW _ Hnb) as Hvx.
  mstep H. vtx_created. subst. mstep H. prim. subst.
  destruct (w_lr _ _ _ _ HW _ Hvx) as [Q|Hlx]; [exfalso; exact (HN _ Hnb Q)|].
  set (c := next_c (vc s (c2v s (next_c b)))) in *.
  assert (Hc : 0 <= c < 3 * f) by (apply next_c_rng; exact Hlx).
  pose proof (next_c_rng c f Hc) as Hnc. pose proof (w_vr _ _ _ _ HW _ Hnc) as Hvp.
  mstep H. mstep H. destruct a0; [|discriminate].
  mstep H. mstep H. vtx_created. subst.
  pose proof (prev_c_rng a f Ha) as Hpa.
  mstep H. vtx_created. subst. mstep H.
  mstep H. mstep H. mstep H. prim. subst. sproj.
  mstep H. mstep H. mstep H. prim. subst. sproj.
  mstep H. vtx_created. mstep H. prim. subst. sproj.
  mstep H. vtx_created. mstep H. prim. subst. sproj.
  mstep H. vtx_created. mstep H. prim. subst. sproj.
  apply Ok_inj in H. subst s'. sproj. split; [|reflexivity].
  intros c0 Hc0. sproj. unfold upd.
  destruct (c0 =? 3 * f + 2) eqn:Q2; [apply (HN _ Hna)|]. destruct (c0 =? 3 * f + 1) eqn:Q1; [apply (HN _ Hnc)|].
  destruct (c0 =? 3 * f) eqn:Q; [apply (HN _ Hnb)|]. apply HN. lia.
Qed.

Lemma start_face_no_oob : forall nf s a, NC = 3 * nf -> W NC maxv (nfaces s) s -> NI (nfaces s) s -> 0 <= a < 3 * nfaces s ->
  start_face NC maxv nf s a <> OOB.
Proof.
  intros nf s a HNC HW HN Ha H. unfold start_face in H. set (f := nfaces s) in *.
  pose proof (w_nf _ _ _ _ HW) as Hnf. pose proof (w_nv _ _ _ _ HW) as Hnv.
  pose proof (next_c_rng a f Ha) as Hna. pose proof (w_vr _ _ _ _ HW _ Hna) as Hvn.
  assert (Hl : 0 <= vc s (c2v s (next_c a)) < 3 * f) by (destruct (w_lr _ _ _ _ HW _ Hvn) as [Q|Q]; [exfalso; exact (HN _ Hna Q)|exact Q]).
  pose proof (next_c_rng _ f Hl) as Hb. pose proof (next_c_rng _ f Hb) as Hnb. pose proof (w_vr _ _ _ _ HW _ Hnb) as Hvx.
  assert (Hlx : 0 <= vc s (c2v s (next_c (next_c (vc s (c2v s (next_c a)))))) < 3 * f)
    by (destruct (w_lr _ _ _ _ HW _ Hvx) as [Q|Q]; [exfalso; exact (HN _ Hnb Q)|exact Q]).
  pose proof (next_c_rng _ f Hlx) as Hc. pose proof (next_c_rng _ f Hc) as Hnc. pose proof (w_vr _ _ _ _ HW _ Hnc) as Hvp.
  mstepO H. assert (f < nf) by lia.
  mstepO H. norm. mstepO H. norm. mstepO H. norm. mstepO H. norm. mstepO H. mstepO H. mstepO H.
  pose proof (prev_c_rng a f Ha) as Hpa.
  mstepO H. norm. mstepO H. norm. mstepO H.
  mstepO H. norm. mstepO H. norm. mstepO H. norm.
  mstepO H. norm. mstepO H. norm. mstepO H. norm.
  mstepO H. norm. mstepO H. norm. mstepO H. norm. mstepO H. norm. mstepO H. norm. mstepO H. norm. discriminate H.
Qed.

Lemma start_loop_tail : forall nf bits stk k s, NC = 3 * nf -> W NC maxv (nfaces s) s -> NI (nfaces s) s ->
  Forall (fun c => 0 <= c < 3 * nfaces s) stk ->
  start_loop NC maxv nf bits k stk s <> OOB /\
  forall s', start_loop NC maxv nf bits k stk s = Ok s' -> NI (nfaces s') s' /\ vc s' = vc s.
Proof.
  induction stk as [|a r IH]; intros k s HNC HW HN Hstk; cbn [start_loop].
  - split; [discriminate|]. intros s' H. apply Ok_inj in H. subst s'. split; [exact HN|reflexivity].
  - inversion Hstk as [|x y Ha Hr]; subst x y. destruct (bits k).
    + unfold bind. destruct (start_face NC maxv nf s a) eqn:E.
      * pose proof (start_face_W NC maxv nf s a a0 HNC HW Ha E) as (A & B & _).
        pose proof (start_face_NI nf s a a0 HNC HW HN Ha E) as (C & D).
        destruct (IH (S k) a0 HNC A C) as (I1 & I2); [eapply Forall_mono3; [|exact Hr]; lia|].
        split; [exact I1|]. intros s' H. destruct (I2 s' H) as (J1 & J2). split; [exact J1|congruence].
      * split; [discriminate|discriminate].
      * exfalso. eapply start_face_no_oob; eassumption.
      * split; [discriminate|discriminate].
    + destruct (IH (S k) (with_inits s ((false, a) :: inits s)) HNC) as (I1 & I2).
      * apply W_with_inits. exact HW.
      * exact HN.
      * exact Hr.
      * split; [exact I1|exact I2].
Qed.
End OobTail.

Section OobCompact.
Variables NC maxv : Z.

Lemma vcit_loop_ok : forall fuel s corner start left src iv f, W NC maxv f s -> (corner = -1 \/ 0 <= corner < 3 * f) ->
  0 <= start < 3 * f -> 0 <= iv < nv s ->
  vcit_loop NC fuel s corner start left src iv <> OOB /\
  forall s', vcit_loop NC fuel s corner start left src iv = Ok s' -> W NC maxv f s' /\ same_but_c2v s s'.
Proof.
  induction fuel as [|fuel IH]; intros s corner start left src iv f HW Hc Hs Hiv; cbn [vcit_loop]; [split; discriminate|].
  destruct (corner =? -1) eqn:E.
  { split; [discriminate|]. intros s' H. apply Ok_inj in H. subst. split; [exact HW|apply same_but_c2v_refl]. }
  destruct Hc as [?|Hc]; [lia|]. pose proof (w_nf _ _ _ _ HW) as Hnf.
  unfold vertex. rewrite E. assert (in_rng corner NC = true) as R by (apply in_rng_true; lia). rewrite R. cbn [bind].
  destruct (negb (c2v s corner =? src)); [split; discriminate|].
  unfold map_cv. rewrite R. cbn [bind].
  pose proof (W_map_cv NC maxv f s corner iv HW Hiv) as HW1. set (s1 := with_c2v s (upd (c2v s) corner iv)) in *.
  assert (SB : forall s', same_but_c2v s1 s' -> same_but_c2v s s').
  { intros s' Q. unfold same_but_c2v in *. subst s1. sproj. exact Q. }
  assert (Hiv1 : 0 <= iv < nv s1) by (subst s1; sproj; exact Hiv).
  destruct left.
  - destruct (swing_left_created NC maxv s1 f corner HW1 Hc) as (Q & Rg). rewrite Q. cbn [bind].
    destruct (slf s1 corner =? -1) eqn:E1.
    + destruct (swing_right_created NC maxv s1 f start HW1 Hs) as (Q2 & Rg2). rewrite Q2. cbn [bind].
      destruct (IH s1 (srf s1 start) start false src iv f HW1 Rg2 Hs Hiv1) as (I1 & I2).
      split; [exact I1|]. intros s' H. destruct (I2 s' H) as (J1 & J2). split; [exact J1|apply SB; exact J2].
    + destruct (slf s1 corner =? start).
      * destruct (IH s1 (-1) start true src iv f HW1 (or_introl eq_refl) Hs Hiv1) as (I1 & I2).
        split; [exact I1|]. intros s' H. destruct (I2 s' H) as (J1 & J2). split; [exact J1|apply SB; exact J2].
      * destruct (IH s1 (slf s1 corner) start true src iv f HW1 Rg Hs Hiv1) as (I1 & I2).
        split; [exact I1|]. intros s' H. destruct (I2 s' H) as (J1 & J2). split; [exact J1|apply SB; exact J2].
  - destruct (swing_right_created NC maxv s1 f corner HW1 Hc) as (Q & Rg). rewrite Q. cbn [bind].
    destruct (IH s1 (srf s1 corner) start false src iv f HW1 Rg Hs Hiv1) as (I1 & I2).
    split; [exact I1|]. intros s' H. destruct (I2 s' H) as (J1 & J2). split; [exact J1|apply SB; exact J2].
Qed.

Lemma find_src_ok : forall k s, Z.of_nat k <= nv s -> (exists v, 0 <= v < Z.of_nat k /\ vc s v <> -1) ->
  exists k', find_src k s = Ok k' /\ (0 < k' <= k)%nat /\ vc s (Z.of_nat k' - 1) <> -1.
Proof.
  induction k as [|k IH]; intros s Hk (v & Hv & Nv); [lia|].
  cbn [find_src]. unfold lmc. assert (in_rng (Z.of_nat k) (nv s) = true) as R by (apply in_rng_true; lia). rewrite R. cbn [bind].
  destruct (vc s (Z.of_nat k) =? -1) eqn:E.
  - destruct (IH s ltac:(lia)) as (k' & A & B & C).
    { exists v. split; [|exact Nv]. assert (v <> Z.of_nat k) by (intro Q; subst v; lia). lia. }
    exists k'. split; [exact A|]. split; [lia|exact C].
  - exists (S k). split; [reflexivity|]. split; [lia|]. replace (Z.of_nat (S k) - 1) with (Z.of_nat k) by lia. lia.
Qed.

Lemma compact_no_oob : forall ivs k s f, W NC maxv f s ->
  Forall (fun v => 0 <= v < nv s /\ vc s v = -1) ivs -> NoDup ivs -> Z.of_nat k <= nv s ->
  (ivs = [] \/ exists v, 0 <= v < Z.of_nat k /\ vc s v <> -1) ->
  compact NC maxv ivs k s <> OOB.
Proof.
  induction ivs as [|iv r IH]; intros k s f HW Hiv ND Hk Hw; cbn [compact]; [discriminate|].
  destruct Hw as [?|Hw]; [discriminate|].
  destruct (find_src_ok k s Hk Hw) as (k' & A & B & C). rewrite A. cbn [bind].
  inversion Hiv as [|x y (Hivr & Hivi) Hr]; subst x y. inversion ND as [|x y Nin ND']; subst x y.
  pose proof (w_nv _ _ _ _ HW) as Hnv. pose proof (w_nf _ _ _ _ HW) as Hnf.
  set (src := Z.of_nat k' - 1) in *.
  assert (Hsrc : 0 <= src < nv s) by (unfold src; lia).
  destruct (src <? iv) eqn:E.
  { eapply IH; try eassumption; [lia|]. right. exists src. split; [unfold src; lia|exact C]. }
  intro H. unfold lmc in H at 1. assert (in_rng src (nv s) = true) as R by (apply in_rng_true; lia). rewrite R in H. cbn [bind] in H.
  assert (Hl : 0 <= vc s src < 3 * f) by (destruct (w_lr _ _ _ _ HW _ Hsrc) as [Q|Q]; [congruence|exact Q]).
  destruct (vcit_loop_ok (vcit_fuel NC) s (vc s src) (vc s src) true src iv f HW (or_intror Hl) Hl Hivr) as (V1 & V2).
  destruct (vcit_loop NC (vcit_fuel NC) s (vc s src) (vc s src) true src iv) eqn:EV; cbn [bind] in H; try discriminate; [|exact (V1 eq_refl)].
  destruct (V2 a eq_refl) as (HWa & SBa). unfold same_but_c2v in SBa. destruct SBa as (S1 & S2 & S3 & S4 & _).
  unfold lmc in H. rewrite S3, R in H. cbn [bind] in H.
  unfold set_lmc in H. destruct (iv =? -1) eqn:E1; [lia|]. rewrite S3 in H.
  assert (in_rng iv (nv s) = true) as R2 by (apply in_rng_true; lia). rewrite R2 in H. cbn [bind] in H.
  unfold make_isolated in H. sproj. rewrite S3, R in H. cbn [bind] in H.
  unfold get_hole, set_hole in H. sproj.
  assert (in_rng src maxv = true) as R3 by (apply in_rng_true; lia). assert (in_rng iv maxv = true) as R4 by (apply in_rng_true; lia).
  rewrite R3 in H. cbn [bind] in H. sproj. rewrite R4 in H. cbn [bind] in H. sproj.
  revert H. assert (iv <> src) by congruence. assert (iv < src) by lia.
  apply IH with (f := f).
  - destruct HWa. constructor; sproj; try assumption.
    apply LR_upd; [|left; reflexivity]. apply LR_upd; [assumption|right; rewrite S2; exact Hl].
  - sproj. rewrite S3, S2. rewrite Forall_forall in *. intros v Hv. destruct (Hr v Hv) as (P1 & P2). split; [exact P1|].
    unfold upd. destruct (v =? src); [reflexivity|]. destruct (v =? iv) eqn:Q; [exfalso; apply Nin; replace iv with v by lia; exact Hv|exact P2].
  - exact ND'.
  - sproj. rewrite S3. lia.
  - right. exists iv. sproj. split; [unfold src in *; lia|]. rewrite S2. rewrite upd_other by lia. rewrite upd_same. lia.
Qed.
End OobCompact.

(** * Top level: no index is ever out of range *)
Theorem eb_core_no_oob : forall nf maxv rm syms events bits, 0 <= nf -> 0 <= maxv -> Z.of_nat (length syms) <= nf ->
  eb_core (3 * nf) maxv nf rm syms events bits <> OOB.
Proof.
  intros nf maxv rm syms events bits Hnf Hmv Hns H. unfold eb_core in H.
  set (NC := 3 * nf) in *. set (s0 := init_st events) in *.
  assert (HW0 : W NC maxv (nfaces s0) s0) by (apply W_init; unfold NC; lia).
  assert (HF0 : FI (nfaces s0) s0) by apply FI_init.
  assert (HN0 : 3 * (nfaces s0 + Z.of_nat (length syms)) <= NC) by (unfold NC, s0; cbn [nfaces init_st]; lia).
  unfold bind in H at 1. destruct (sym_loop NC maxv rm _ syms 0 s0) as [s1| | |] eqn:E1; try discriminate.
  2:{ exact (sym_loop_no_oob NC maxv rm _ syms 0 s0 HW0 HF0 HN0 E1). }
  destruct (sym_loop_W NC maxv rm _ syms 0 s0 s1 HW0 HN0 E1) as (HW1 & _).
  pose proof (sym_loop_FI NC maxv rm _ syms 0 s0 s1 HW0 HF0 HN0 E1) as HF1.
  destruct (nv s1 >? maxv); [discriminate|].
  destruct (start_loop_tail NC maxv nf bits (stack s1) O s1 eq_refl HW1 (FI_NI _ _ HF1) (w_stack _ _ _ _ HW1)) as (T1 & T2).
  unfold bind in H at 1. destruct (start_loop NC maxv nf bits 0 (stack s1) s1) as [s2| | |] eqn:E2; try discriminate; [|exact (T1 eq_refl)].
  destruct (T2 s2 eq_refl) as (HN2 & Evc).
  destruct (start_loop_W NC maxv nf bits (stack s1) O s1 s2 eq_refl HW1 (w_stack _ _ _ _ HW1) E2) as (HW2 & Einv & Env & Hfl).
  destruct (negb (nfaces s2 =? nf)); [discriminate|].
  unfold bind in H. destruct (compact NC maxv (rev (invalid s2)) (Z.to_nat (nv s2)) s2) eqn:E3; try discriminate.
  revert E3. pose proof (w_nv _ _ _ _ HW2) as Hnv2.
  apply compact_no_oob with (f := nfaces s2); [exact HW2| | | |].
  - destruct (f_iso _ _ HF1) as (A & _). pose proof (w_invalid _ _ _ _ HW1) as B.
    rewrite Einv, Evc, Env. apply Forall_rev. rewrite Forall_forall in *. intros v Hv. split; [apply B; exact Hv|apply A; exact Hv].
  - rewrite Einv. apply NoDup_rev. apply (f_iso _ _ HF1).
  - lia.
  - destruct (f_inv _ _ HF1) as [Q|Q]; [left; rewrite Einv, Q; reflexivity|right].
    assert (Hc0 : 0 <= 0 < 3 * nfaces s2) by lia.
    exists (c2v s2 0). pose proof (w_vr _ _ _ _ HW2 0 Hc0). split; [lia|apply (HN2 0 Hc0)].
Qed.

Theorem eb_full_no_oob : forall nev nf nsplit rm syms events bits,
  eb_full nev nf nsplit rm syms events bits <> OOB.
Proof.
  intros. unfold eb_full.
  repeat match goal with |- context[if ?b then _ else _] => destruct b eqn:?; [discriminate|] end.
  apply eb_core_no_oob; try lia. apply Z.mod_pos_bound. lia.
Qed.

(** * Two guards of the C case are implied by the invariants (the corresponding mutants are equivalent) *)
Section Guards.
Variables NC maxv : Z.

(** `corner_a == corner_b` implies the later test `vertex_x == vert_a_prev` *)
Lemma guard_C_corner_a_eq_b_redundant : forall s f a, W NC maxv f s -> FI f s -> 0 <= a < 3 * f ->
  let x := c2v s (next_c a) in let b := next_c (vc s x) in
  a = b -> x = c2v s (prev_c a).
Proof.
  intros s f a HW HF Ha x b E.
  pose proof (next_c_rng a f Ha) as Hna. pose proof (w_vr _ _ _ _ HW _ Hna) as Hx. fold x in Hx.
  destruct (f_reach _ _ HF _ Hna) as (N & _). fold x in N.
  assert (Hl : 0 <= vc s x < 3 * f) by (destruct (w_lr _ _ _ _ HW _ Hx) as [Q|Q]; [congruence|exact Q]).
  assert (P : prev_c a = vc s x) by (rewrite E; unfold b; apply next_c_spec; lia).
  rewrite P. symmetry. apply (f_vc _ _ HF); assumption.
Qed.

(** `Opposite(corner_b) != kInvalid` can never fire once `Opposite(corner_a)` is free: the left-most corner of an open
    fan has a free Opposite *)
Lemma guard_C_opposite_b_redundant : forall s f a, W NC maxv f s -> FI f s -> 0 <= a < 3 * f -> copp s a = -1 ->
  let x := c2v s (next_c a) in let b := next_c (vc s x) in copp s b = -1.
Proof.
  intros s f a HW HF Ha Fa x b.
  pose proof (next_c_rng a f Ha) as Hna. pose proof (w_vr _ _ _ _ HW _ Hna) as Hx. fold x in Hx.
  destruct (f_reach _ _ HF _ Hna) as (N & _). fold x in N.
  assert (Hl : 0 <= vc s x < 3 * f) by (destruct (w_lr _ _ _ _ HW _ Hx) as [Q|Q]; [congruence|exact Q]).
  pose proof (sc_no_pred NC maxv s f 0 0 HW a Ha Fa) as NP.
  pose proof (no_pred_lmc_dead NC maxv s f _ HW HF Hna NP) as D. fold x in D.
  rewrite slf_at in D by lia. fold b in D.
  pose proof (next_c_rng _ f Hl) as Hb. fold b in Hb.
  destruct (w_pi _ _ _ _ HW b Hb) as [Q|(Q & _)]; [exact Q|].
  destruct (next_c_spec (copp s b) ltac:(lia)) as (A & _). lia.
Qed.
End Guards.

Theorem eb_fan_invariant : forall nf maxv rm syms events s, 0 <= nf -> 0 <= maxv -> Z.of_nat (length syms) <= nf ->
  sym_loop (3 * nf) maxv rm (Z.of_nat (length syms)) syms 0 (init_st events) = Ok s ->
  let m := 3 * nfaces s in
  (forall c, 0 <= c < m -> slf s c <> -1 -> c2v s (slf s c) = c2v s c) /\
  (forall c, 0 <= c < m -> vc s (c2v s c) <> -1 /\ exists k : nat, Nat.iter k (slf s) c = vc s (c2v s c)) /\
  (forall v, 0 <= v < nv s -> vc s v <> -1 -> c2v s (vc s v) = v) /\
  Forall (fun v => vc s v = -1) (invalid s) /\ NoDup (invalid s).
Proof.
  intros nf maxv rm syms events s Hnf Hmv Hns H.
  assert (HW0 : W (3 * nf) maxv (nfaces (init_st events)) (init_st events)) by (apply W_init; lia).
  pose proof (sym_loop_FI (3 * nf) maxv rm _ syms 0 _ s HW0 (FI_init events) ltac:(cbn [nfaces init_st]; lia) H) as HF.
  cbv zeta. split; [apply (f_lab _ _ HF)|]. split; [apply (f_reach _ _ HF)|]. split; [apply (f_vc _ _ HF)|apply (f_iso _ _ HF)].
Qed.
