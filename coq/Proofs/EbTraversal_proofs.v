From Coq Require Import ZifyBool.
From Draco Require Import Base.Codec Base.Bits Model.Varint Model.BitBuffer Model.Ans Model.BitCoders
  Model.RansSymbol Model.SymbolCoding Model.EbTraversal
  Proofs.Varint_proofs Proofs.BitBuffer_proofs Proofs.BitCoders_proofs.
Local Open Scope Z_scope.

(** * Standard traversal *)
Definition topo (s : Z) : Prop := is_topo s = true.
Lemma topo_cases s : topo s -> s = 0 \/ s = 1 \/ s = 3 \/ s = 5 \/ s = 7.
Proof. unfold topo, is_topo. lia. Qed.

Lemma pattern_length_topo s : topo s -> pattern_length s = Some (if s =? 0 then 1 else 3).
Proof. intros H. destruct (topo_cases s H) as [-> | [-> | [-> | [-> | ->]]]]; reflexivity. Qed.

Lemma sym_puts_topo l : Forall topo l -> sym_puts l = Some (map (fun s => (if s =? 0 then 1 else 3, s)) l).
Proof.
  induction 1 as [|s l Hs Hl IH]; [reflexivity|].
  cbn [sym_puts map]. rewrite (pattern_length_topo s Hs), IH. reflexivity.
Qed.

Lemma split3 X s : 0 <= s < 8 -> X mod 8 = s -> X mod 2 = s mod 2 /\ (X / 2) mod 4 = s / 2.
Proof. intros Hs HX. Z.div_mod_to_equations. lia. Qed.

Lemma div_pow_succ D off : 0 <= off -> D / 2 ^ (off + 1) = D / 2 ^ off / 2.
Proof.
  intros H. rewrite Z.pow_add_r by lia. change (2 ^ 1) with 2.
  rewrite Z.div_div; [reflexivity| |lia]. apply Z.pow_nonzero; lia.
Qed.

Lemma sb_get_spec b n : 0 <= sb_off b -> 0 <= n ->
  sb_get b n = ((sb_D b / 2 ^ sb_off b) mod 2 ^ n,
                {| sb_D := sb_D b; sb_L := sb_L b; sb_off := Z.min (sb_off b + n) (sb_L b) |}).
Proof. intros Ho Hn. unfold sb_get. rewrite Z.shiftr_div_pow2 by lia. rewrite Z.land_ones by lia. reflexivity. Qed.

Lemma sb_get_list_spec D L : 0 <= L -> forall ns off vals, 0 <= off -> Forall (fun n => 0 <= n <= 32) ns ->
  get_all D L (off, vals) ns =
    Some (sb_off (snd (sb_get_list ns {| sb_D := D; sb_L := L; sb_off := off |})),
          vals ++ fst (sb_get_list ns {| sb_D := D; sb_L := L; sb_off := off |})).
Proof.
  intros HL. induction ns as [|n ns IH]; intros off vals Hoff Hns.
  - cbn. rewrite app_nil_r. reflexivity.
  - inversion Hns as [|? ? Hn Hns']; subst.
    cbn [get_all sb_get_list]. rewrite sb_get_spec by (cbn; lia). cbn [sb_D sb_L sb_off].
    unfold get_bits. replace ((n <? 0) || (n >? 32)) with false by lia.
    rewrite (IH (Z.min (off + n) L) (vals ++ [(D / 2 ^ off) mod 2 ^ n]) ltac:(lia) Hns').
    destruct (sb_get_list ns _) as [vs b2]. cbn [fst snd]. rewrite <- app_assoc. reflexivity.
Qed.

Lemma dec_bit_block_spec ver ns bs : Forall (fun n => 0 <= n <= 32) ns ->
  dec_block ver false ns bs = Some (None, fst (dec_bit_block ns bs), snd (dec_bit_block ns bs)).
Proof.
  intros Hns. unfold dec_block, dec_bit_block.
  rewrite (sb_get_list_spec (le_val bs) (8 * Z.of_nat (length bs)) ltac:(lia) ns 0 [] ltac:(lia) Hns).
  unfold zlen. destruct (sb_get_list ns _) as [vs b2]. reflexivity.
Qed.

(** one symbol *)
Lemma dec_symbol_correct D L st s :
  topo s -> be_wf st ->
  let n := if s =? 0 then 1 else 3 in
  D mod 2 ^ (be_n st + n) = be_acc st + s * 2 ^ be_n st -> be_n st + n <= L ->
  dec_symbol {| sb_D := D; sb_L := L; sb_off := be_n st |} = (s, {| sb_D := D; sb_L := L; sb_off := be_n st + n |}).
Proof.
  intros Hs [Hn Hacc] n HD HL.
  assert (Hx: (D / 2 ^ be_n st) mod 2 ^ n = s).
  { apply bits_extract with (acc := be_acc st); try lia.
    - subst n. destruct (s =? 0); lia.
    - subst n. destruct (topo_cases s Hs) as [-> | [-> | [-> | [-> | ->]]]]; cbn; lia. }
  unfold dec_symbol. rewrite sb_get_spec by (cbn [sb_off]; lia). cbn [sb_D sb_L sb_off].
  destruct (topo_cases s Hs) as [-> | Hs'].
  - subst n. cbn [Z.eqb] in *. change (2 ^ 1) with 2 in *. rewrite Hx. cbn [Z.eqb TOPOLOGY_C].
    replace (Z.min (be_n st + 1) L) with (be_n st + 1) by lia. reflexivity.
  - assert (E0: (s =? 0) = false) by lia. subst n. rewrite E0 in *.
    change (2 ^ 3) with 8 in Hx. change (2 ^ 1) with 2.
    destruct (split3 _ s ltac:(lia) Hx) as [H1 H2].
    rewrite H1.
    replace (Z.min (be_n st + 1) L) with (be_n st + 1) by lia.
    replace (s mod 2 =? TOPOLOGY_C) with false
      by (unfold TOPOLOGY_C; destruct Hs' as [-> | [-> | [-> | ->]]]; reflexivity).
    rewrite sb_get_spec by (cbn [sb_off]; lia). cbn [sb_D sb_L sb_off]. change (2 ^ 2) with 4.
    rewrite div_pow_succ by lia. rewrite H2.
    replace (Z.min (be_n st + 1 + 2) L) with (be_n st + 3) by lia.
    destruct Hs' as [-> | [-> | [-> | ->]]]; reflexivity.
Qed.

Definition plen (s : Z) : Z := if s =? 0 then 1 else 3.

Lemma dec_symbols_correct D L : forall l st,
  Forall topo l -> be_wf st ->
  let sf := fold_left BitBuffer.put_bits (map (fun s => (plen s, s)) l) st in
  D mod 2 ^ be_n sf = be_acc sf -> be_n sf <= L ->
  dec_symbols_n (length l) {| sb_D := D; sb_L := L; sb_off := be_n st |} =
    (l, {| sb_D := D; sb_L := L; sb_off := be_n sf |}).
Proof.
  induction l as [|s l IH]; intros st Hl Hst sf HD HL.
  - reflexivity.
  - inversion Hl as [|? ? Hs Hl']; subst.
    cbn [map fold_left] in sf.
    set (st' := BitBuffer.put_bits st (plen s, s)) in *.
    assert (Hpl: 0 <= plen s <= 32) by (unfold plen; destruct (s =? 0); lia).
    assert (Hst': be_wf st') by (apply put_bits_wf; [exact Hst|lia]).
    assert (Hf0: Forall (fun nv : Z * Z => 0 <= fst nv) (map (fun s => (plen s, s)) l)).
    { apply Forall_forall. intros x Hx. apply in_map_iff in Hx. destruct Hx as (y & <- & _). cbn. unfold plen. destruct (y =? 0); lia. }
    destruct (fold_put_prefix _ st' Hst' Hf0) as (Hwf & Hle & Hmod). fold sf in Hwf, Hle, Hmod.
    assert (Hsm: s mod 2 ^ plen s = s).
    { apply Z.mod_small. unfold plen. destruct (topo_cases s Hs) as [-> | [-> | [-> | [-> | ->]]]]; cbn; lia. }
    assert (Hn': be_n st' = be_n st + plen s) by reflexivity.
    assert (Ha': be_acc st' = be_acc st + s * 2 ^ be_n st).
    { unfold st', BitBuffer.put_bits; cbn [be_acc]. rewrite Hsm. reflexivity. }
    cbn [length dec_symbols_n].
    rewrite (dec_symbol_correct D L st s Hs Hst).
    + fold (plen s). rewrite <- Hn'.
      rewrite (IH st' Hl' Hst' HD HL). reflexivity.
    + fold (plen s). rewrite <- Hn', <- Ha', <- Hmod, <- HD. symmetry. apply mod_mod_pow.
      destruct Hst' as [? _]. lia.
    + fold (plen s). lia.
Qed.

(** ** the size-prefixed block as the decoder sees it *)
Lemma enc_block_sized_inv req puts bs :
  puts_ok puts -> req < 2 ^ 62 -> enc_block req true puts = Some bs ->
  exists szb data, bs = szb ++ data /\
    be_wf (put_all puts) /\
    zlen data = (be_n (put_all puts) + 7) / 8 /\ le_val data = be_acc (put_all puts) /\
    forall rest, dec_varint_u 64 (szb ++ data ++ rest) = Some ((be_n (put_all puts) + 7) / 8, data ++ rest).
Proof.
  intros Hp Hreq Henc. unfold enc_block in Henc.
  destruct (req <=? 0) eqn:Ereq; [discriminate|].
  set (s := put_all puts) in *.
  destruct (be_n s >? (req + 7) / 8 * 8) eqn:Efit; [discriminate|].
  assert (Hf0: Forall (fun nv : Z * Z => 0 <= fst nv) puts).
  { eapply Forall_impl; [|exact Hp]. cbn. intros; lia. }
  destruct (fold_put_prefix puts _ bitenc_empty_wf Hf0) as (Hwf & Hle & _).
  fold (put_all puts) in Hwf, Hle. fold s in Hwf, Hle. cbn [bitenc_empty be_n] in Hle.
  pose proof Hwf as [Hn Hacc].
  set (nbytes := (be_n s + 7) / 8) in *.
  assert (Hnb: 0 <= nbytes /\ be_n s <= 8 * nbytes /\ nbytes <= (req + 7) / 8).
  { unfold nbytes. clear Henc. Z.div_mod_to_equations. lia. }
  set (data := enc_le (Z.to_nat nbytes) (be_acc s)) in *.
  assert (Hlen: length data = Z.to_nat nbytes) by apply enc_le_length.
  assert (Hacc8: 0 <= be_acc s < 256 ^ Z.of_nat (Z.to_nat nbytes)).
  { rewrite Z2Nat.id by lia. change 256 with (2 ^ 8). rewrite <- Z.pow_mul_r by lia.
    split; [lia|]. apply Z.lt_le_trans with (2 ^ be_n s); [lia|]. apply Z.pow_le_mono_r; lia. }
  assert (Hval: le_val data = be_acc s) by (apply le_val_enc_le; exact Hacc8).
  destruct (enc_varint_u nbytes) as [szb|] eqn:Esz; [|discriminate].
  injection Henc as <-.
  exists szb, data. split; [reflexivity|]. split; [exact Hwf|].
  split; [unfold zlen; rewrite Hlen; lia|]. split; [exact Hval|].
  intros rest.
  apply (varint_u_roundtrips 64 ltac:(right; right; right; reflexivity) nbytes szb (data ++ rest)); [|exact Esz].
  split; [lia|]. apply Z.le_lt_trans with ((req + 7) / 8); [lia|].
  apply Z.div_lt_upper_bound; [lia|]. change (2^64) with (4 * 2^62). lia.
Qed.

Lemma le_val_prefix_mod data rest n :
  0 <= n <= 8 * zlen data -> 0 <= le_val data < 2 ^ n ->
  le_val (data ++ rest) mod 2 ^ n = le_val data.
Proof.
  intros Hn Hv. rewrite le_val_app.
  change 256 with (2 ^ 8). rewrite <- Z.pow_mul_r by (unfold zlen in *; lia).
  unfold zlen in Hn.
  replace (8 * Z.of_nat (length data)) with (n + (8 * Z.of_nat (length data) - n)) by lia.
  rewrite Z.pow_add_r by lia.
  rewrite <- Z.mul_assoc, Z.mul_comm, Z.mod_add by (apply Z.pow_nonzero; lia).
  apply Z.mod_small; lia.
Qed.

(** ** the rANS bit sequences of the attribute seams *)
Definition bits_len_ok (b : list bool) : Prop := zlen b + 3 < 2 ^ 32.

Lemma cur_ver_ok : 514 <= cur_ver. Proof. unfold cur_ver; lia. Qed.

Lemma bit_seqs_roundtrip : forall seams bs rest,
  Forall bits_len_ok seams -> enc_bit_seqs seams = Some bs ->
  exists sts, start_bit_seqs (length seams) (bs ++ rest) = Some (sts, rest) /\
              read_seams (map (@length bool) seams) sts = seams /\ length sts = length seams.
Proof.
  induction seams as [|b seams IH]; intros bs rest Hok Henc.
  - injection Henc as <-. exists []. repeat split.
  - inversion Hok as [|? ? Hb Hok']; subst. cbn [enc_bit_seqs] in Henc.
    destruct (ransbit_encode b) as [x|] eqn:Ex; [|discriminate].
    destruct (enc_bit_seqs seams) as [y|] eqn:Ey; [|discriminate].
    injection Henc as <-.
    destruct (ransbit_roundtrip cur_ver b x (y ++ rest) cur_ver_ok Hb Ex) as (st & Hst & Hrd).
    destruct (IH y rest Hok' eq_refl) as (sts & Hsts & Hrs & Hl).
    exists (st :: sts). cbn [length start_bit_seqs]. rewrite <- app_assoc, Hst, Hsts.
    split; [reflexivity|]. cbn [map read_seams]. rewrite Hrd, Hrs, Hl. repeat split.
Qed.

(** ** (1) the standard traversal buffer *)
Theorem trav_standard_roundtrip mesh_faces syms start_bits seams bs rest :
  Forall topo syms -> bits_len_ok start_bits -> Forall bits_len_ok seams ->
  enc_trav_std mesh_faces syms start_bits seams = Some bs ->
  exists d, dec_trav_std_start (length seams) (bs ++ rest) = Some (d, rest) /\
    drain_std (length syms) (length start_bits) (map (@length bool) seams) d = (rev syms, start_bits, seams).
Proof.
  intros Hsy Hsb Hse Henc. unfold enc_trav_std in Henc.
  destruct (enc_symbol_block mesh_faces syms) as [a|] eqn:Ea; [|discriminate].
  destruct (ransbit_encode start_bits) as [b|] eqn:Eb; [|discriminate].
  destruct (enc_bit_seqs seams) as [c|] eqn:Ec; [|discriminate].
  injection Henc as <-.
  unfold enc_symbol_block in Ea.
  assert (Hrev: Forall topo (rev syms)).
  { apply Forall_forall. intros x Hx. apply in_rev in Hx. revert x Hx. apply Forall_forall. exact Hsy. }
  rewrite (sym_puts_topo _ Hrev) in Ea.
  set (puts := map (fun s => (if s =? 0 then 1 else 3, s)) (rev syms)) in *.
  assert (Hpo: puts_ok puts).
  { apply Forall_forall. intros x Hx. apply in_map_iff in Hx. destruct Hx as (y & <- & _). cbn. destruct (y =? 0); lia. }
  assert (Hreq: (mesh_faces * 3) mod 2 ^ 32 < 2 ^ 62).
  { pose proof (Z.mod_pos_bound (mesh_faces * 3) (2 ^ 32) ltac:(lia)). lia. }
  destruct (enc_block_sized_inv _ _ _ Hpo Hreq Ea) as (szb & data & -> & Hwf & Hlen & Hval & Hdec).
  unfold dec_trav_std_start.
  repeat rewrite <- app_assoc. rewrite Hdec.
  set (tail := b ++ c ++ rest).
  pose proof Hwf as [Hn Hacc].
  assert (Hnb: 0 <= zlen data /\ be_n (put_all puts) <= 8 * zlen data).
  { rewrite Hlen. Z.div_mod_to_equations. lia. }
  replace ((be_n (put_all puts) + 7) / 8 >? zlen (data ++ tail)) with false.
  2:{ rewrite <- Hlen. unfold zlen. rewrite app_length. lia. }
  rewrite <- Hlen. unfold zlen at 1. rewrite Nat2Z.id, skipn_app_exact.
  unfold tail.
  destruct (ransbit_roundtrip cur_ver start_bits b (c ++ rest) cur_ver_ok Hsb Eb) as (sf & Hsf & Hrd).
  rewrite Hsf.
  destruct (bit_seqs_roundtrip seams c rest Hse Ec) as (sts & Hsts & Hrs & _).
  rewrite Hsts.
  eexists; split; [reflexivity|].
  unfold drain_std; cbn [sd_sym sd_start sd_seams].
  rewrite Hrd, Hrs.
  pose proof (dec_symbols_correct (le_val (data ++ b ++ c ++ rest)) (8 * zlen (data ++ b ++ c ++ rest))
               (rev syms) bitenc_empty Hrev bitenc_empty_wf) as Hds.
  cbn zeta in Hds. unfold plen in Hds. fold puts in Hds. fold (put_all puts) in Hds.
  cbn [bitenc_empty be_n] in Hds. rewrite rev_length in Hds.
  rewrite Hds; [rewrite ?rev_involutive; reflexivity| |].
  - rewrite le_val_prefix_mod; [exact Hval| lia | rewrite Hval; exact Hacc].
  - unfold zlen in *. rewrite app_length. lia.
Qed.

(** * (2) topology split events *)
(** The encoder's invariant the decoder relies on: split_symbol_id <= source_symbol_id (the S symbol was encoded
    before the L/R/E face that detects the split), ids are uint32, source_edge is one bit.  The increasing order of the
    source ids (the comment in EncodeSplitData) is NOT needed: the delta is taken and undone modulo 2^32. *)
Definition ev_ok (e : event) : Prop :=
  0 <= ev_spl e <= ev_src e /\ ev_src e < 2 ^ 32 /\ (ev_edge e = 0 \/ ev_edge e = 1).

Lemma enc_varint_u_fuel_nonempty fuel v b : enc_varint_u_fuel fuel v = Some b -> (1 <= length b)%nat.
Proof.
  destruct fuel as [|f]; cbn [enc_varint_u_fuel]; [intros H; discriminate H|].
  destruct (v >=? 128).
  - destruct (enc_varint_u_fuel f (Z.shiftr v 7)); intros H; [|discriminate H]. injection H as <-. cbn. lia.
  - intros H. injection H as <-. cbn. lia.
Qed.
Lemma enc_varint_u_nonempty v b : enc_varint_u v = Some b -> (1 <= length b)%nat.
Proof. apply enc_varint_u_fuel_nonempty. Qed.

Lemma u32_range x : 0 <= u32 x < 2 ^ 32.
Proof. unfold u32. apply Z.mod_pos_bound. lia. Qed.

Lemma to_i32_range x : - 2 ^ 31 <= to_i32 x < 2 ^ 31.
Proof. unfold to_i32. pose proof (Z.mod_pos_bound x (2 ^ 32) ltac:(lia)). cbn zeta. destruct (x mod 2 ^ 32 <? 2 ^ 31) eqn:E; lia. Qed.

Lemma to_i32_mod x : to_i32 x mod 2 ^ 32 = x mod 2 ^ 32.
Proof.
  unfold to_i32. cbn zeta. pose proof (Z.mod_pos_bound x (2 ^ 32) ltac:(lia)).
  destruct (x mod 2 ^ 32 <? 2 ^ 31).
  - apply Z.mod_mod. lia.
  - replace (x mod 2 ^ 32 - 2 ^ 32) with (x mod 2 ^ 32 + (-1) * 2 ^ 32) by ring.
    rewrite Z.mod_add by lia. apply Z.mod_mod. lia.
Qed.

Lemma u32_sub_i32 a x : u32 (a - to_i32 x) = u32 (a - x).
Proof.
  unfold u32. rewrite Zminus_mod, to_i32_mod, <- Zminus_mod. reflexivity.
Qed.
Lemma u32_add_i32 a x : u32 (a + to_i32 x) = u32 (a + x).
Proof.
  unfold u32. rewrite Zplus_mod, to_i32_mod, <- Zplus_mod. reflexivity.
Qed.

Lemma event_ids_roundtrip : forall evs last bs rest fuel,
  Forall ev_ok evs -> enc_event_ids last evs = Some bs -> (length evs <= fuel)%nat ->
  dec_event_ids fuel (zlen evs) last (bs ++ rest) = Some (map (fun e => (ev_src e, ev_spl e)) evs, rest) /\
  (length evs <= length bs)%nat.
Proof.
  induction evs as [|e evs IH]; intros last bs rest fuel Hok Henc Hfuel.
  - injection Henc as <-. split; [|cbn; lia]. destruct fuel; reflexivity.
  - inversion Hok as [|? ? He Hok']; subst. destruct He as (Hsp & Hsr & Hed).
    cbn [enc_event_ids] in Henc.
    destruct (enc_varint_u (u32 (ev_src e - last))) as [a|] eqn:Ea; [|discriminate].
    destruct (enc_varint_u (u32 (ev_src e - ev_spl e))) as [b|] eqn:Eb; [|discriminate].
    destruct (enc_event_ids (to_i32 (ev_src e)) evs) as [c|] eqn:Ec; [|discriminate].
    injection Henc as <-.
    destruct fuel as [|fuel]; [cbn in Hfuel; lia|].
    destruct (IH (to_i32 (ev_src e)) c rest fuel Hok' Ec ltac:(cbn in Hfuel; lia)) as [IHd IHl].
    split.
    2:{ pose proof (enc_varint_u_nonempty _ _ Ea). rewrite !app_length. cbn [length]. lia. }
    cbn [dec_event_ids].
    replace (zlen (e :: evs) <=? 0) with false by (unfold zlen; cbn [length]; lia).
    repeat rewrite <- app_assoc.
    rewrite (varint_u_roundtrips 32 ltac:(right; right; left; reflexivity) _ a (b ++ c ++ rest) (u32_range _) Ea).
    assert (Hsrc: u32 (u32 (ev_src e - last) + last) = ev_src e).
    { unfold u32. rewrite Zplus_mod_idemp_l. replace (ev_src e - last + last) with (ev_src e) by ring.
      apply Z.mod_small. lia. }
    rewrite Hsrc.
    rewrite (varint_u_roundtrips 32 ltac:(right; right; left; reflexivity) _ b (c ++ rest) (u32_range _) Eb).
    assert (Hd2: u32 (ev_src e - ev_spl e) = ev_src e - ev_spl e) by (unfold u32; apply Z.mod_small; lia).
    rewrite Hd2.
    replace (ev_src e - ev_spl e >? ev_src e) with false by lia.
    rewrite u32_sub_i32.
    replace (ev_src e - (ev_src e - ev_spl e)) with (ev_spl e) by ring.
    replace (u32 (ev_spl e)) with (ev_spl e) by (unfold u32; symmetry; apply Z.mod_small; lia).
    replace (zlen (e :: evs) - 1) with (zlen evs) by (unfold zlen; cbn [length]; lia).
    rewrite IHd. reflexivity.
Qed.

Lemma zip_events_ok : forall evs, Forall ev_ok evs ->
  zip_events (map (fun e => (ev_src e, ev_spl e)) evs) (map (fun nv : Z * Z => snd nv mod 2 ^ fst nv) (map (fun e => (1, ev_edge e)) evs)) = evs.
Proof.
  induction 1 as [|e evs He Hl IH]; [reflexivity|].
  cbn [map zip_events fst snd]. rewrite IH.
  destruct e as [[s p] ed]. destruct He as (_ & _ & Hed). cbn [ev_edge ev_src ev_spl fst snd] in *.
  destruct Hed as [-> | ->]; reflexivity.
Qed.

Lemma map_fst_edges (evs : list event) : map fst (map (fun e => (1, ev_edge e)) evs) = repeat 1 (length evs).
Proof. induction evs as [|e evs IH]; [reflexivity|]. cbn [map length repeat fst]. rewrite IH. reflexivity. Qed.

Theorem split_events_roundtrip nf evs bs rest :
  Forall ev_ok evs -> zlen evs <= nf ->
  enc_events evs = Some bs -> dec_events nf (bs ++ rest) = Some (evs, rest).
Proof.
  intros Hok Hnf Henc. unfold enc_events in Henc.
  destruct (zlen evs >=? 2 ^ 32) eqn:Ebig; [discriminate|].
  destruct (enc_varint_u (zlen evs)) as [nb|] eqn:Enb; [|discriminate].
  unfold dec_events.
  assert (Hn: 0 <= zlen evs < 2 ^ 32) by (unfold zlen in *; lia).
  destruct (zlen evs =? 0) eqn:E0.
  - injection Henc as <-.
    rewrite (varint_u_roundtrips 32 ltac:(right; right; left; reflexivity) _ nb rest Hn Enb).
    rewrite E0. destruct evs; [reflexivity|unfold zlen in E0; cbn [length] in E0; lia].
  - destruct (enc_event_ids 0 evs) as [ids|] eqn:Eids; [|discriminate].
    destruct (enc_block (zlen evs) false (map (fun e => (1, ev_edge e)) evs)) as [blk|] eqn:Eblk; [|discriminate].
    injection Henc as <-.
    repeat rewrite <- app_assoc.
    rewrite (varint_u_roundtrips 32 ltac:(right; right; left; reflexivity) _ nb (ids ++ blk ++ rest) Hn Enb).
    rewrite E0. replace (zlen evs >? nf) with false by lia.
    destruct (event_ids_roundtrip evs 0 ids (blk ++ rest) (length (ids ++ blk ++ rest)) Hok Eids) as [Hd Hl].
    { destruct (event_ids_roundtrip evs 0 ids [] (length evs) Hok Eids (le_n _)) as [_ Hl].
      rewrite app_length. lia. }
    rewrite Hd.
    assert (Hpo: puts_ok (map (fun e => (1, ev_edge e)) evs)).
    { apply Forall_forall. intros x Hx. apply in_map_iff in Hx. destruct Hx as (y & <- & _). cbn. lia. }
    pose proof (block_roundtrips cur_ver (zlen evs) false _ blk rest cur_ver_ok ltac:(lia) Hpo Eblk) as Hb.
    rewrite map_fst_edges in Hb. unfold zlen at 1. rewrite Nat2Z.id.
    rewrite dec_bit_block_spec in Hb by (apply Forall_forall; intros x Hx; apply repeat_spec in Hx; lia).
    destruct (dec_bit_block (repeat 1 (length evs)) (blk ++ rest)) as [edges r2]. cbn [fst snd] in Hb.
    injection Hb as -> ->.
    rewrite (zip_events_ok evs Hok). reflexivity.
Qed.

(** * (3) the framing of EncodeConnectivity / DecodeConnectivity(), standard method *)
Definition hdr_in_range (h : conn_hdr) : Prop :=
  0 <= ch_nv h < 2 ^ 32 /\ 0 <= ch_nf h < 2 ^ 32 /\ 0 <= ch_nattr h /\
  0 <= ch_nsym h < 2 ^ 32 /\ 0 <= ch_nsplit h < 2 ^ 32.
Definition hdr_plausible (h : conn_hdr) : Prop :=
  conn_guards (ch_nv h) (ch_nf h) (ch_nsym h) (ch_nsplit h) = true.

Lemma v32 v b rest : 0 <= v < 2 ^ 32 -> enc_varint_u v = Some b -> dec_varint_u 32 (b ++ rest) = Some (v, rest).
Proof. intros H E. exact (varint_u_roundtrips 32 ltac:(right; right; left; reflexivity) v b rest H E). Qed.

Lemma conn_header_roundtrip h evs trav bs rest :
  hdr_in_range h -> hdr_plausible h -> (ch_method h = 0 \/ ch_method h = 2) ->
  Forall ev_ok evs -> zlen evs <= ch_nf h ->
  enc_conn h evs trav = Some bs ->
  exists tail, bs = ch_method h :: tail /\
  dec_varint_u 32 tail <> None /\
  forall (K : Type) (k : conn_hdr -> list event -> bytes -> K) (dflt : K),
    (match bs ++ rest with
     | [] => dflt
     | method :: r0 =>
       match dec_varint_u 32 r0 with None => dflt | Some (nv, r1) =>
       match dec_varint_u 32 r1 with None => dflt | Some (nf, r2) =>
       match r2 with [] => dflt | nattr :: r3 =>
       match dec_varint_u 32 r3 with None => dflt | Some (nsym, r4) =>
       match dec_varint_u 32 r4 with None => dflt | Some (nsplit, r5) =>
         if negb (conn_guards nv nf nsym nsplit) then dflt else
         match dec_events nf r5 with None => dflt | Some (evs', r6) =>
           k {| ch_method := method; ch_nv := nv; ch_nf := nf; ch_nattr := nattr; ch_nsym := nsym; ch_nsplit := nsplit |} evs' r6
         end end end end end end
     end) = k h evs (trav ++ rest).
Proof.
  intros (Hnv & Hnf & Hna & Hns & Hnp) Hpl Hm Hev Hevn Henc. unfold enc_conn in Henc.
  destruct (ch_nattr h >? 128) eqn:Ena; [discriminate|].
  destruct (enc_varint_u (ch_nv h)) as [a|] eqn:Ea; [|discriminate].
  destruct (enc_varint_u (ch_nf h)) as [b|] eqn:Eb; [|discriminate].
  destruct (enc_varint_u (ch_nsym h)) as [c|] eqn:Ec; [|discriminate].
  destruct (enc_varint_u (ch_nsplit h)) as [d|] eqn:Ed; [|discriminate].
  destruct (enc_events evs) as [e|] eqn:Ee; [|discriminate].
  injection Henc as <-.
  eexists; split; [reflexivity|]. split.
  { rewrite (v32 _ a _ Hnv Ea). discriminate. }
  intros K k dflt.
  cbn [app]. repeat rewrite <- app_assoc.
  rewrite (v32 _ a _ Hnv Ea). rewrite (v32 _ b _ Hnf Eb). cbn [app]. cbv beta iota. repeat rewrite <- app_assoc.
  rewrite (v32 _ c _ Hns Ec). rewrite (v32 _ d _ Hnp Ed).
  unfold hdr_plausible in Hpl. rewrite Hpl. cbn [negb].
  rewrite (split_events_roundtrip (ch_nf h) evs e (trav ++ rest) Hev Hevn Ee).
  destruct h; reflexivity.
Qed.

Theorem conn_standard_roundtrip h evs mesh_faces syms start_bits seams trav bs rest :
  hdr_in_range h -> hdr_plausible h -> ch_method h = 0 ->
  ch_nattr h = zlen seams ->
  Forall ev_ok evs -> zlen evs <= ch_nf h ->
  Forall topo syms -> bits_len_ok start_bits -> Forall bits_len_ok seams ->
  enc_trav_std mesh_faces syms start_bits seams = Some trav ->
  enc_conn h evs trav = Some bs ->
  exists d, dec_conn (bs ++ rest) = VOk (h, evs, TStd d, rest) /\
    drain_std (length syms) (length start_bits) (map (@length bool) seams) d = (rev syms, start_bits, seams).
Proof.
  intros Hr Hp Hm Hna Hev Hevn Hsy Hsb Hse Htr Henc.
  destruct (trav_standard_roundtrip mesh_faces syms start_bits seams trav rest Hsy Hsb Hse Htr) as (d & Hd & Hdr).
  exists d. split; [|exact Hdr].
  destruct (conn_header_roundtrip h evs trav bs rest Hr Hp (or_introl Hm) Hev Hevn Henc) as (tail & Hbs & _ & Hk).
  unfold dec_conn.
  specialize (Hk _ (fun h' evs' r6 =>
     if ch_method h' =? 0 then
       match dec_trav_std_start (Z.to_nat (ch_nattr h')) r6 with
       | None => VReject | Some (d, rest) => VOk (h', evs', TStd d, rest) end
     else match dec_trav_val_start (to_i32 (conn_max_vertices (ch_nv h') (ch_nsplit h'))) (ch_nf h') (Z.to_nat (ch_nattr h')) r6 with
          | VOk (d, rest) => VOk (h', evs', TVal d, rest) | VReject => VReject | VIgnoredFailure => VIgnoredFailure end)
     VReject).
  subst bs. cbn [app] in Hk. cbv beta iota in Hk.
  unfold dec_conn. cbn [app]. cbv beta iota.
  rewrite Hm in *. cbn [Z.eqb orb negb] in *.
  rewrite Hna in Hk. unfold zlen in Hk. rewrite Nat2Z.id in Hk. rewrite Hd in Hk.
  exact Hk.
Qed.

(** * (5) The decoder on arbitrary bytes *)
Definition is_suffix (r bs : bytes) : Prop := exists pre, bs = pre ++ r.
Lemma suffix_refl bs : is_suffix bs bs. Proof. exists []. reflexivity. Qed.
Lemma suffix_trans a b c : is_suffix a b -> is_suffix b c -> is_suffix a c.
Proof. intros [p ->] [q ->]. exists (q ++ p). rewrite app_assoc. reflexivity. Qed.
Lemma suffix_cons x bs : is_suffix bs (x :: bs). Proof. exists [x]. reflexivity. Qed.
Lemma suffix_skipn n (bs : bytes) : is_suffix (skipn n bs) bs.
Proof. exists (firstn n bs). symmetry. apply firstn_skipn. Qed.
Lemma suffix_wf r bs : is_suffix r bs -> wf_bytes bs -> wf_bytes r.
Proof. intros [p ->] H. unfold wf_bytes in *. apply Forall_app in H. apply H. Qed.

Lemma byte_lt128 b : 0 <= b < 256 -> Z.land b 128 =? 0 = true -> b < 128.
Proof.
  intros Hb H. destruct (Z_lt_ge_dec b 128) as [|Hge]; [assumption|].
  pose proof (land_hi128 (b - 128) ltac:(lia)) as Hh. replace (b - 128 + 128) with b in Hh by ring. congruence.
Qed.

Lemma varint32_sound : forall f bs v r, wf_bytes bs -> dec_varint_u_fuel 32 f bs = Some (v, r) ->
  0 <= v < 2 ^ 32 /\ is_suffix r bs.
Proof.
  induction f as [|f IH]; intros bs v r Hb H; [discriminate|]. cbn [dec_varint_u_fuel] in H.
  destruct bs as [|b t]; [discriminate|]. inversion Hb as [|? ? Hb0 Hbt]; subst. unfold is_byte in Hb0.
  destruct (Z.land b 128 =? 0) eqn:E.
  - injection H as <- <-. split; [|apply suffix_cons]. pose proof (byte_lt128 b Hb0 E). lia.
  - destruct (dec_varint_u_fuel 32 f t) as [[v' r']|] eqn:E'; [|discriminate]. injection H as <- <-.
    destruct (IH t v' r' Hbt E') as [Hv Hs]. split; [|eapply suffix_trans; [exact Hs|apply suffix_cons]].
    match goal with |- context [Z.lor (?X mod ?M) ?B] =>
      assert (H1: 0 <= X mod M < M) by (apply Z.mod_pos_bound; lia); set (a := X mod M) in *; set (c := B) in * end.
    assert (H2: 0 <= c < 2 ^ 32).
    { unfold c. change 127 with (Z.ones 7). rewrite Z.land_ones by lia. pose proof (Z.mod_pos_bound b (2 ^ 7) ltac:(lia)). lia. }
    assert (H0: 0 <= Z.lor a c) by (apply (proj2 (Z.lor_nonneg _ _)); split; [apply H1|apply H2]).
    split; [exact H0|].
    destruct (Z.eq_dec (Z.lor a c) 0) as [Hz|Hne]; [rewrite Hz; lia|].
    apply Z.log2_lt_cancel. rewrite Z.log2_lor by lia. rewrite Z.log2_pow2 by lia.
    apply Z.max_lub_lt.
    + destruct (Z.eq_dec a 0) as [Ha|]; [rewrite Ha; cbn; lia|]. apply Z.log2_lt_pow2; lia.
    + destruct (Z.eq_dec c 0) as [Hc|]; [rewrite Hc; cbn; lia|]. apply Z.log2_lt_pow2; lia.
Qed.
Lemma v32_sound bs v r : wf_bytes bs -> dec_varint_u 32 bs = Some (v, r) -> 0 <= v < 2 ^ 32 /\ is_suffix r bs.
Proof. apply varint32_sound. Qed.

Lemma varint_suffix w : forall f bs v r, dec_varint_u_fuel w f bs = Some (v, r) -> is_suffix r bs.
Proof.
  induction f as [|f IH]; intros bs v r H; [discriminate|]. cbn [dec_varint_u_fuel] in H.
  destruct bs as [|b t]; [discriminate|]. destruct (Z.land b 128 =? 0).
  - injection H as _ <-. apply suffix_cons.
  - destruct (dec_varint_u_fuel w f t) as [[v' r']|] eqn:E'; [|discriminate]. injection H as _ <-.
    eapply suffix_trans; [eapply IH; exact E'|apply suffix_cons].
Qed.

Lemma ransbit_start_suffix bs st r : ransbit_start cur_ver bs = Some (st, r) -> is_suffix r bs.
Proof.
  unfold ransbit_start. destruct bs as [|zp t]; [discriminate|].
  replace (cur_ver <? 514) with false by reflexivity.
  destruct (dec_varint_u 32 t) as [[sz r1]|] eqn:E; [|discriminate].
  destruct (sz >? Z.of_nat (length r1)); [discriminate|].
  destruct (ans_read_init _) as [[x stk]|]; [|discriminate]. intros [= _ <-].
  eapply suffix_trans; [apply suffix_skipn|]. eapply suffix_trans; [eapply varint_suffix; exact E|apply suffix_cons].
Qed.

Lemma start_bit_seqs_sound : forall n bs sts r, start_bit_seqs n bs = Some (sts, r) -> length sts = n /\ is_suffix r bs.
Proof.
  induction n as [|n IH]; intros bs sts r H; cbn [start_bit_seqs] in H.
  - injection H as <- <-. split; [reflexivity|apply suffix_refl].
  - destruct (ransbit_start cur_ver bs) as [[st r1]|] eqn:E; [|discriminate].
    destruct (start_bit_seqs n r1) as [[l r2]|] eqn:E2; [|discriminate]. injection H as <- <-.
    destruct (IH r1 l r2 E2) as [Hl Hs]. split; [cbn; lia|].
    eapply suffix_trans; [exact Hs|eapply ransbit_start_suffix; exact E].
Qed.

(** DecodeSymbol of the standard decoder returns one of C S L R E whatever the bits are. *)
Lemma dec_symbol_topo b : 0 <= sb_off b -> 0 <= sb_L b -> topo (fst (dec_symbol b)) /\ 0 <= sb_off (snd (dec_symbol b)) /\ sb_L (snd (dec_symbol b)) = sb_L b.
Proof.
  intros Ho HL. unfold dec_symbol. rewrite sb_get_spec by lia. cbv zeta beta iota.
  change (2 ^ 1) with 2.
  pose proof (Z.mod_pos_bound (sb_D b / 2 ^ sb_off b) 2 ltac:(lia)) as H1.
  set (s := (sb_D b / 2 ^ sb_off b) mod 2) in *.
  destruct (s =? TOPOLOGY_C) eqn:E.
  - cbn [fst snd sb_off sb_L]. unfold TOPOLOGY_C in E. replace s with 0 by lia. split; [reflexivity|]. split; [lia|reflexivity].
  - unfold TOPOLOGY_C in E. assert (s = 1) as -> by lia.
    rewrite sb_get_spec by (cbn [sb_off]; lia). cbn [fst snd sb_off sb_L sb_D].
    change (2 ^ 2) with 4.
    match goal with |- context [Z.shiftl ?X 1] => pose proof (Z.mod_pos_bound (sb_D b / 2 ^ Z.min (sb_off b + 1) (sb_L b)) 4 ltac:(lia)) as H2; set (q := X) in * end.
    split; [|split; [lia|reflexivity]].
    assert (Hq: q = 0 \/ q = 1 \/ q = 2 \/ q = 3) by lia.
    destruct Hq as [-> | [-> | [-> | ->]]]; reflexivity.
Qed.

Lemma dec_symbols_n_sound : forall n b, 0 <= sb_off b -> 0 <= sb_L b ->
  length (fst (dec_symbols_n n b)) = n /\ Forall topo (fst (dec_symbols_n n b)).
Proof.
  induction n as [|n IH]; intros b Ho HL; cbn [dec_symbols_n].
  - split; [reflexivity|constructor].
  - destruct (dec_symbol_topo b Ho HL) as (Ht & Ho' & HL').
    destruct (dec_symbol b) as [s b1]. cbn [fst snd] in *.
    destruct (IH b1 Ho' ltac:(lia)) as [Hl Hf].
    destruct (dec_symbols_n n b1) as [l b2]. cbn [fst] in *. split; [cbn; lia|constructor; assumption].
Qed.

Lemma dec_trav_std_start_sound nattr bs d r : dec_trav_std_start nattr bs = Some (d, r) ->
  is_suffix r bs /\ length (sd_seams d) = nattr /\ 0 <= sb_off (sd_sym d) /\ 0 <= sb_L (sd_sym d).
Proof.
  unfold dec_trav_std_start. destruct (dec_varint_u 64 bs) as [[sz r0]|] eqn:E; [|discriminate].
  destruct (sz >? zlen r0); [discriminate|].
  destruct (ransbit_start cur_ver (skipn (Z.to_nat sz) r0)) as [[sf r2]|] eqn:E2; [|discriminate].
  destruct (start_bit_seqs nattr r2) as [[ss r3]|] eqn:E3; [|discriminate]. intros [= <- <-].
  destruct (start_bit_seqs_sound _ _ _ _ E3) as [Hl Hs]. lazy beta iota delta [sd_seams sd_sym sb_off sb_L].
  split; [|split; [exact Hl|unfold zlen; pose proof (Nat2Z.is_nonneg (length r0)); destruct (Z.of_nat (length r0)); split; lia]].
  eapply suffix_trans; [exact Hs|]. eapply suffix_trans; [eapply ransbit_start_suffix; exact E2|].
  eapply suffix_trans; [apply suffix_skipn|]. eapply varint_suffix; exact E.
Qed.

(** events: what the decoder hands to the state machine *)
Definition ev_dec_ok (e : event) : Prop :=
  0 <= ev_spl e <= ev_src e /\ ev_src e < 2 ^ 32 /\ (ev_edge e = 0 \/ ev_edge e = 1).

Lemma dec_event_ids_sound : forall fuel n last bs ids r, wf_bytes bs -> dec_event_ids fuel n last bs = Some (ids, r) ->
  is_suffix r bs /\ (0 < n -> zlen ids = n) /\ Forall (fun sp => 0 <= snd sp <= fst sp /\ fst sp < 2 ^ 32) ids.
Proof.
  induction fuel as [|f IH]; intros n last bs ids r Hb H.
  - cbn [dec_event_ids] in H. destruct (n <=? 0) eqn:En; [|discriminate]. injection H as <- <-.
    split; [apply suffix_refl|]. split; [lia|constructor].
  - cbn [dec_event_ids] in H. destruct (n <=? 0) eqn:En.
    { injection H as <- <-. split; [apply suffix_refl|]. split; [lia|constructor]. }
    destruct (dec_varint_u 32 bs) as [[d1 r1]|] eqn:E1; [|discriminate].
    destruct (dec_varint_u 32 r1) as [[d2 r2]|] eqn:E2; [|discriminate].
    destruct (v32_sound _ _ _ Hb E1) as [Hd1 Hs1]. pose proof (suffix_wf _ _ Hs1 Hb) as Hb1.
    destruct (v32_sound _ _ _ Hb1 E2) as [Hd2 Hs2]. pose proof (suffix_wf _ _ Hs2 Hb1) as Hb2.
    destruct (d2 >? u32 (d1 + last)) eqn:Eg; [discriminate|].
    destruct (dec_event_ids f (n - 1) (to_i32 (u32 (d1 + last))) r2) as [[l r3]|] eqn:E3; [|discriminate].
    injection H as <- <-.
    destruct (IH _ _ _ _ _ Hb2 E3) as (Hs3 & Hn3 & Hf3).
    split; [eapply suffix_trans; [exact Hs3|eapply suffix_trans; eassumption]|].
    split.
    + intros _. unfold zlen in *. cbn [length]. destruct (Z.eq_dec n 1) as [->|].
      * destruct f; cbn [dec_event_ids] in E3; cbn in E3; injection E3 as <- _; cbn; lia.
      * rewrite Nat2Z.inj_succ. rewrite Hn3 by lia. lia.
    + constructor; [|exact Hf3]. cbn [fst snd]. pose proof (u32_range (d1 + last)) as Hsr.
      rewrite u32_sub_i32. set (src := u32 (d1 + last)) in *.
      assert (Hle: d2 <= src) by lia.
      replace (u32 (src - d2)) with (src - d2) by (unfold u32; symmetry; apply Z.mod_small; lia).
      lia.
Qed.

Lemma sb_get_list_length : forall ns b, length (fst (sb_get_list ns b)) = length ns.
Proof.
  induction ns as [|n ns IH]; intros b; [reflexivity|]. cbn [sb_get_list].
  destruct (sb_get b n) as [v b1]. specialize (IH b1). destruct (sb_get_list ns b1). cbn [fst length] in *. lia.
Qed.

Lemma zip_events_sound : forall ids edges, Forall (fun sp => 0 <= snd sp <= fst sp /\ fst sp < 2 ^ 32) ids ->
  length edges = length ids -> Forall ev_dec_ok (zip_events ids edges) /\ length (zip_events ids edges) = length ids.
Proof.
  induction ids as [|[s p] ids IH]; intros edges Hf Hl; [split; [constructor|reflexivity]|].
  destruct edges as [|e er]; [discriminate|]. inversion Hf as [|? ? H1 Hf']; subst. cbn [zip_events].
  destruct (IH er Hf' ltac:(cbn in Hl; lia)) as [Ha Hb]. split; [|cbn; lia].
  constructor; [|exact Ha]. unfold ev_dec_ok; cbn [ev_src ev_spl ev_edge fst snd] in *.
  split; [lia|]. split; [lia|]. rewrite land1_mod2. pose proof (Z.mod_pos_bound e 2 ltac:(lia)). lia.
Qed.

Lemma dec_events_sound nf bs evs r : wf_bytes bs -> 0 <= nf -> dec_events nf bs = Some (evs, r) ->
  is_suffix r bs /\ zlen evs <= nf /\ Forall ev_dec_ok evs.
Proof.
  intros Hb Hnf. unfold dec_events. destruct (dec_varint_u 32 bs) as [[n r0]|] eqn:E; [|discriminate].
  destruct (v32_sound _ _ _ Hb E) as [Hn Hs0]. pose proof (suffix_wf _ _ Hs0 Hb) as Hb0.
  destruct (n =? 0) eqn:E0.
  { intros [= <- <-]. split; [exact Hs0|]. split; [unfold zlen; cbn; lia|constructor]. }
  destruct (n >? nf) eqn:Eg; [discriminate|].
  destruct (dec_event_ids (length r0) n 0 r0) as [[ids r1]|] eqn:E1; [|discriminate].
  destruct (dec_event_ids_sound _ _ _ _ _ _ Hb0 E1) as (Hs1 & Hl1 & Hf1).
  unfold dec_bit_block.
  pose proof (sb_get_list_length (repeat 1 (Z.to_nat n)) {| sb_D := le_val r1; sb_L := 8 * zlen r1; sb_off := 0 |}) as Hlen.
  destruct (sb_get_list _ _) as [edges b2]. cbn [fst] in Hlen. rewrite repeat_length in Hlen.
  intros [= <- <-].
  destruct (zip_events_sound ids edges Hf1) as [Ha Hb'].
  { rewrite Hlen. unfold zlen in Hl1. specialize (Hl1 ltac:(lia)). lia. }
  split; [eapply suffix_trans; [apply suffix_skipn|eapply suffix_trans; eassumption]|].
  split; [|exact Ha]. unfold zlen in *. rewrite Hb'. specialize (Hl1 ltac:(lia)). lia.
Qed.

(** the valence decoder's Start *)
Lemma dec_contexts_sound : forall k nf bs ls r, dec_contexts k nf bs = VOk (ls, r) -> length ls = k.
Proof.
  induction k as [|k IH]; intros nf bs ls r H; cbn [dec_contexts] in H.
  - injection H as <- _. reflexivity.
  - destruct (dec_varint_u 32 bs) as [[n r0]|]; [|discriminate].
    destruct (n >? nf); [discriminate|]. destruct (n =? 0).
    + destruct (dec_contexts k nf r0) as [[ls' r']| |] eqn:E; try discriminate. injection H as <- _.
      cbn. rewrite (IH _ _ _ _ E). reflexivity.
    + destruct (dec_symbols cur_ver (Z.to_nat n) 1 [] r0) as [[l r1]| | |]; try discriminate.
      destruct (dec_contexts k nf r1) as [[ls' r']| |] eqn:E; try discriminate. injection H as <- _.
      cbn. rewrite (IH _ _ _ _ E). reflexivity.
Qed.

Theorem dec_conn_sound bs h evs t rest : wf_bytes bs -> dec_conn bs = VOk (h, evs, t, rest) ->
  (ch_method h = 0 \/ ch_method h = 2) /\
  0 <= ch_nv h < 2 ^ 32 /\ 0 <= ch_nf h < 2 ^ 32 /\ 0 <= ch_nattr h < 256 /\ 0 <= ch_nsym h < 2 ^ 32 /\ 0 <= ch_nsplit h < 2 ^ 32 /\
  conn_guards (ch_nv h) (ch_nf h) (ch_nsym h) (ch_nsplit h) = true /\
  zlen evs <= ch_nf h /\ Forall ev_dec_ok evs /\
  match t with
  | TStd d => ch_method h = 0 /\ is_suffix rest bs /\ length (sd_seams d) = Z.to_nat (ch_nattr h) /\
              forall n, length (fst (dec_symbols_n n (sd_sym d))) = n /\ Forall topo (fst (dec_symbols_n n (sd_sym d)))
  | TVal d => ch_method h = 2 /\ length (vd_seams d) = Z.to_nat (ch_nattr h) /\
              length (vd_lists d) = num_contexts /\ vd_counters d = map zlen (vd_lists d)
  end.
Proof.
  intros Hb. unfold dec_conn. destruct bs as [|method r0]; [discriminate|].
  inversion Hb as [|? ? Hm Hb0]; subst. unfold is_byte in Hm.
  destruct ((method =? 0) || (method =? 2)) eqn:Em; [|discriminate]. cbn [negb].
  destruct (dec_varint_u 32 r0) as [[nv r1]|] eqn:E1; [|discriminate].
  destruct (v32_sound _ _ _ Hb0 E1) as [Hnv Hs1]. pose proof (suffix_wf _ _ Hs1 Hb0) as Hb1.
  destruct (dec_varint_u 32 r1) as [[nf r2]|] eqn:E2; [|discriminate].
  destruct (v32_sound _ _ _ Hb1 E2) as [Hnf Hs2]. pose proof (suffix_wf _ _ Hs2 Hb1) as Hb2.
  destruct r2 as [|nattr r3]; [discriminate|].
  inversion Hb2 as [|? ? Hna Hb3]; subst. unfold is_byte in Hna.
  destruct (dec_varint_u 32 r3) as [[nsym r4]|] eqn:E4; [|discriminate].
  destruct (v32_sound _ _ _ Hb3 E4) as [Hns Hs4]. pose proof (suffix_wf _ _ Hs4 Hb3) as Hb4.
  destruct (dec_varint_u 32 r4) as [[nsplit r5]|] eqn:E5; [|discriminate].
  destruct (v32_sound _ _ _ Hb4 E5) as [Hnp Hs5]. pose proof (suffix_wf _ _ Hs5 Hb4) as Hb5.
  destruct (conn_guards nv nf nsym nsplit) eqn:Eg; [|discriminate]. cbn [negb].
  destruct (dec_events nf r5) as [[evs' r6]|] eqn:E6; [|discriminate].
  assert (Hnf0: 0 <= nf) by lia.
  destruct (dec_events_sound _ _ _ _ Hb5 Hnf0 E6) as (Hs6 & Hevn & Hev).
  assert (Hsuf6: is_suffix r6 (method :: r0)).
  { eapply suffix_trans; [exact Hs6|]. eapply suffix_trans; [exact Hs5|]. eapply suffix_trans; [exact Hs4|].
    eapply suffix_trans; [apply suffix_cons|]. eapply suffix_trans; [exact Hs2|]. eapply suffix_trans; [exact Hs1|apply suffix_cons]. }
  destruct (method =? 0) eqn:Em0.
  - destruct (dec_trav_std_start (Z.to_nat nattr) r6) as [[d rest']|] eqn:E7; [|discriminate].
    intros [= <- <- <- <-]. cbn [ch_method ch_nv ch_nf ch_nattr ch_nsym ch_nsplit].
    destruct (dec_trav_std_start_sound _ _ _ _ E7) as (Hs7 & Hl7 & Ho & HL).
    repeat (split; [first [lia|assumption]|]).
    split; [eapply suffix_trans; eassumption|]. split; [exact Hl7|].
    intros n. apply dec_symbols_n_sound; assumption.
  - destruct (dec_trav_val_start _ nf (Z.to_nat nattr) r6) as [[d rest']| |] eqn:E7; try discriminate.
    intros [= <- <- <- <-]. cbn [ch_method ch_nv ch_nf ch_nattr ch_nsym ch_nsplit].
    repeat (split; [first [lia|assumption]|]).
    unfold dec_trav_val_start in E7.
    destruct (ransbit_start cur_ver r6) as [[sf q1]|]; [|discriminate].
    destruct (start_bit_seqs (Z.to_nat nattr) q1) as [[ss q2]|] eqn:E8; [|discriminate].
    destruct (_ <? 0); [discriminate|].
    destruct (dec_contexts num_contexts nf q2) as [[ls q3]| |] eqn:E9; try discriminate.
    injection E7 as <- _. cbn [vd_seams vd_lists vd_counters].
    destruct (start_bit_seqs_sound _ _ _ _ E8) as [Hl8 _].
    split; [exact Hl8|]. split; [eapply dec_contexts_sound; exact E9|reflexivity].
Qed.

(** The valence symbol loop never reads outside the context lists (every access is an [nth_error]); it returns at most
    [n] symbols, one recorded context per symbol, and every symbol but possibly the last is one of C S L R E. *)
Lemma vd_run_sound {Env} (step : Env -> Z -> option (Env * Z)) : forall n env ctx last lists counters,
  let '(ss, cs, _) := vd_run step n env ctx last lists counters in
  length ss = length cs /\ (length ss <= n)%nat /\ Forall topo (removelast ss).
Proof.
  induction n as [|n IH]; intros env ctx last lists counters; cbn [vd_run].
  - repeat split; constructor.
  - destruct (vd_decode_symbol ctx last lists counters) as [[s last'] counters'].
    destruct (is_topo s) eqn:Et; cbn [negb].
    + destruct (step env last') as [[env' ctx']|].
      * specialize (IH env' ctx' last' lists counters'). destruct (vd_run step n env' ctx' last' lists counters') as [[ss cs] cf].
        destruct IH as (H1 & H2 & H3). split; [cbn; lia|]. split; [cbn; lia|].
        destruct ss as [|x xs]; [constructor|]. cbn [removelast]. constructor; [exact Et|exact H3].
      * repeat split; cbn; try lia. constructor.
    + repeat split; cbn; try lia. constructor.
Qed.

(** * (4) Valence traversal *)
From Draco Require Import Proofs.SymbolCoding_proofs.

Lemma contexts_roundtrip : forall lists methods bs rest nf,
  enc_contexts methods lists = Some bs -> Forall (fun l => zlen l <= nf) lists -> zlen bs < 2 ^ 31 ->
  dec_contexts (length lists) nf (bs ++ rest) = VOk (lists, rest).
Proof.
  induction lists as [|l lists IH]; intros methods bs rest nf Henc Hnf Hsz.
  - injection Henc as <-. reflexivity.
  - inversion Hnf as [|? ? Hl Hnf']; subst. cbn [enc_contexts] in Henc.
    destruct (zlen l >=? 2 ^ 32) eqn:Ebig; [discriminate|].
    destruct (enc_varint_u (zlen l)) as [a|] eqn:Ea; [|discriminate].
    set (m := match methods with m :: _ => m | [] => 0 end) in *.
    destruct (enc_symbols m 7 1 l) as [b|] eqn:Eb; [|discriminate].
    destruct (enc_contexts (tl methods) lists) as [c|] eqn:Ec; [|discriminate].
    injection Henc as <-.
    assert (Hlens: zlen b < 2 ^ 31 /\ zlen c < 2 ^ 31).
    { unfold zlen in *. rewrite !app_length in Hsz. lia. }
    cbn [length dec_contexts]. repeat rewrite <- app_assoc.
    rewrite (v32 (zlen l) a (b ++ c ++ rest) ltac:(unfold zlen in *; lia) Ea).
    replace (zlen l >? nf) with false by lia.
    destruct (zlen l =? 0) eqn:E0.
    + destruct l; [|unfold zlen in E0; cbn [length] in E0; lia].
      cbn [enc_symbols] in Eb. injection Eb as <-. cbn [app].
      rewrite (IH (tl methods) c rest nf Ec Hnf' (proj2 Hlens)). reflexivity.
    + pose proof (symbols_roundtrips m 7 1 l b (c ++ rest) Eb (proj1 Hlens)) as Hd.
      replace (Z.to_nat (if 1 <=? 0 then 1 else 1)) with 1%nat in Hd by reflexivity.
      unfold zlen at 1. rewrite Nat2Z.id. unfold cur_ver. rewrite Hd.
      rewrite (IH (tl methods) c rest nf Ec Hnf' (proj2 Hlens)). reflexivity.
Qed.

Definition lists_of (pairs : list (Z * Z)) : list (list Z) := map (ctx_list pairs) all_contexts.
Definition counters_of (pairs : list (Z * Z)) : list Z := map zlen (lists_of pairs).

Lemma ctx_list_length_le pairs c : zlen (ctx_list pairs c) <= zlen pairs.
Proof.
  unfold ctx_list, zlen. rewrite map_length.
  pose proof (filter_len (fun p : Z * Z => fst p =? c) pairs). lia.
Qed.

(** the valence traversal buffer: Start() recovers the start-face bits, the seam bits and the six context lists *)
Theorem trav_valence_buffer_roundtrip methods pairs start_bits seams bs rest num_vertices nf :
  bits_len_ok start_bits -> Forall bits_len_ok seams ->
  0 <= num_vertices -> zlen pairs <= nf -> zlen bs < 2 ^ 31 ->
  enc_trav_val methods pairs start_bits seams = Some bs ->
  exists d, dec_trav_val_start num_vertices nf (length seams) (bs ++ rest) = VOk (d, rest) /\
    fst (read_n ransbit_next (length start_bits) (vd_start d)) = start_bits /\
    read_seams (map (@length bool) seams) (vd_seams d) = seams /\
    vd_lists d = lists_of pairs /\ vd_counters d = counters_of pairs.
Proof.
  intros Hsb Hse Hnv Hnf Hsz Henc. unfold enc_trav_val in Henc.
  destruct (ransbit_encode start_bits) as [a|] eqn:Ea; [|discriminate].
  destruct (enc_bit_seqs seams) as [b|] eqn:Eb; [|discriminate].
  destruct (enc_contexts methods (map (ctx_list pairs) all_contexts)) as [c|] eqn:Ec; [|discriminate].
  injection Henc as <-.
  unfold dec_trav_val_start. repeat rewrite <- app_assoc.
  destruct (ransbit_roundtrip cur_ver start_bits a (b ++ c ++ rest) cur_ver_ok Hsb Ea) as (sf & Hsf & Hrd).
  rewrite Hsf.
  destruct (bit_seqs_roundtrip seams b (c ++ rest) Hse Eb) as (sts & Hsts & Hrs & _).
  rewrite Hsts. replace (num_vertices <? 0) with false by lia.
  assert (Hc: zlen c < 2 ^ 31) by (unfold zlen in *; rewrite !app_length in Hsz; lia).
  pose proof (contexts_roundtrip (map (ctx_list pairs) all_contexts) methods c rest nf Ec) as Hd.
  rewrite map_length in Hd. change (length all_contexts) with num_contexts in Hd.
  rewrite Hd; [| |exact Hc].
  - eexists; split; [reflexivity|]. cbn [vd_start vd_seams vd_lists vd_counters].
    repeat split; assumption.
  - apply Forall_forall. intros l Hl. apply in_map_iff in Hl. destruct Hl as (c0 & <- & _).
    pose proof (ctx_list_length_le pairs c0). lia.
Qed.

(** ** the symbol loop *)
Definition topo_of_id (id : Z) : Z := match symbol_to_topology id with Some s => s | None => TOPOLOGY_INVALID end.
Definition pair_ok (p : Z * Z) : Prop := 0 <= fst p < 6 /\ 0 <= snd p <= 4.

Lemma ctx_list_app a b c : ctx_list (a ++ b) c = ctx_list a c ++ ctx_list b c.
Proof. unfold ctx_list. rewrite filter_app, map_app. reflexivity. Qed.

Lemma nth_error_middle {A} (a : list A) x b : nth_error (a ++ x :: b) (length a) = Some x.
Proof. induction a as [|y a IH]; [reflexivity|exact IH]. Qed.

Lemma ctx_cases c : 0 <= c < 6 -> c = 0 \/ c = 1 \/ c = 2 \/ c = 3 \/ c = 4 \/ c = 5.
Proof. lia. Qed.
Lemma id_cases i : 0 <= i <= 4 -> i = 0 \/ i = 1 \/ i = 2 \/ i = 3 \/ i = 4.
Proof. lia. Qed.

(** one DecodeSymbol in context [c] when the last unconsumed pair is (c, id) *)
Lemma vd_decode_pair P2 c id Pdone last :
  pair_ok (c, id) ->
  vd_decode_symbol c last (lists_of ((P2 ++ [(c, id)]) ++ Pdone)) (counters_of (P2 ++ [(c, id)])) =
    (topo_of_id id, topo_of_id id, counters_of P2).
Proof.
  intros [Hc Hid]. cbn [fst snd] in Hc, Hid.
  unfold vd_decode_symbol. replace (c =? -1) with false by lia.
  assert (Hcnt: nth_error (counters_of (P2 ++ [(c, id)])) (Z.to_nat c) = Some (zlen (ctx_list (P2 ++ [(c, id)]) c))).
  { unfold counters_of, lists_of, all_contexts. destruct (ctx_cases c Hc) as [-> | [-> | [-> | [-> | [-> | ->]]]]]; reflexivity. }
  assert (Hlst: nth_error (lists_of ((P2 ++ [(c, id)]) ++ Pdone)) (Z.to_nat c) = Some (ctx_list ((P2 ++ [(c, id)]) ++ Pdone) c)).
  { unfold lists_of, all_contexts. destruct (ctx_cases c Hc) as [-> | [-> | [-> | [-> | [-> | ->]]]]]; reflexivity. }
  rewrite Hcnt, Hlst.
  assert (Hself: ctx_list [(c, id)] c = [id]) by (unfold ctx_list; cbn [filter fst]; rewrite Z.eqb_refl; reflexivity).
  assert (Hc1: zlen (ctx_list (P2 ++ [(c, id)]) c) - 1 = zlen (ctx_list P2 c)).
  { rewrite ctx_list_app, Hself. unfold zlen. rewrite app_length. cbn [length]. lia. }
  rewrite Hc1. replace (zlen (ctx_list P2 c) <? 0) with false by (unfold zlen; lia).
  replace (Z.to_nat (zlen (ctx_list P2 c))) with (length (ctx_list P2 c)) by (unfold zlen; rewrite Nat2Z.id; reflexivity).
  rewrite !ctx_list_app, Hself. rewrite <- app_assoc. cbn [app]. rewrite nth_error_middle.
  replace (id >? 4) with false by lia.
  assert (Hset: list_set (counters_of (P2 ++ [(c, id)])) (Z.to_nat c) (zlen (ctx_list P2 c)) = counters_of P2).
  { unfold counters_of, lists_of, all_contexts. cbn [map].
    assert (Hother: forall c2, c2 <> c -> ctx_list (P2 ++ [(c, id)]) c2 = ctx_list P2 c2).
    { intros c2 Hne. rewrite ctx_list_app. unfold ctx_list at 2. cbn [filter fst].
      replace (c =? c2) with false by lia. cbn. apply app_nil_r. }
    destruct (ctx_cases c Hc) as [-> | [-> | [-> | [-> | [-> | ->]]]]];
      match goal with |- context [Z.to_nat ?k] => let v := eval vm_compute in (Z.to_nat k) in change (Z.to_nat k) with v end;
      cbn [list_set]; rewrite ?Hother by lia; reflexivity. }
  rewrite Hset.
  unfold topo_of_id. destruct (id_cases id Hid) as [-> | [-> | [-> | [-> | ->]]]]; reflexivity.
Qed.

Lemma topo_of_id_topo id : 0 <= id <= 4 -> is_topo (topo_of_id id) = true.
Proof. intros H. destruct (id_cases id H) as [-> | [-> | [-> | [-> | ->]]]]; reflexivity. Qed.

Section Run.
  Context {Env : Type} (step : Env -> Z -> option (Env * Z)).

  (** after the first symbol: [Q] = the unconsumed pairs in DECODING order (last appended first) *)
  Lemma vd_run_tail : forall Q Pdone env ctx last ss cs cf,
    Forall pair_ok Q ->
    vd_run step (length Q) env ctx last (lists_of (rev Q ++ Pdone)) (counters_of (rev Q)) = (ss, cs, cf) ->
    cs = map fst Q ->
    ss = map (fun p => topo_of_id (snd p)) Q /\ cf = counters_of [].
  Proof.
    induction Q as [|[c id] Q IH]; intros Pdone env ctx last ss cs cf Hok Hrun Hcs.
    - cbn in Hrun. injection Hrun as <- <- <-. split; reflexivity.
    - pose proof (Forall_inv Hok) as Hp. pose proof (Forall_inv_tail Hok) as Hok'.
      cbn [length vd_run rev] in Hrun. cbn [map fst] in Hcs.
      (* whatever happens, the first recorded context is [ctx] *)
      assert (Hctx: ctx = c).
      { destruct (vd_decode_symbol ctx last _ _) as [[s0 l0] c0].
        destruct (negb (is_topo s0)); [injection Hrun as _ <- _; congruence|].
        destruct (step env l0) as [[e1 x1]|]; [|injection Hrun as _ <- _; congruence].
        destruct (vd_run step (length Q) e1 x1 l0 _ c0) as [[a1 b1] c1]. injection Hrun as _ <- _. congruence. }
      subst ctx.
      rewrite (vd_decode_pair (rev Q) c id Pdone last Hp) in Hrun.
      rewrite (topo_of_id_topo id (proj2 Hp)) in Hrun. cbn [negb] in Hrun.
      destruct (step env (topo_of_id id)) as [[env' ctx']|].
      + rewrite <- app_assoc in Hrun. cbn [app] in Hrun.
        destruct (vd_run step (length Q) env' ctx' (topo_of_id id) (lists_of (rev Q ++ (c, id) :: Pdone)) (counters_of (rev Q)))
          as [[ss1 cs1] cf1] eqn:Er.
        injection Hrun as <- <- <-. injection Hcs as Hcs.
        destruct (IH ((c, id) :: Pdone) env' ctx' (topo_of_id id) ss1 cs1 cf1 Hok' Er Hcs) as [-> ->].
        split; reflexivity.
      + injection Hrun as <- <- <-. injection Hcs as Hcs.
        destruct Q; [|discriminate]. split; reflexivity.
  Qed.

  (** C01_trav_valence_roundtrip, the loop: [syms] the encoder's symbols in encoding order; [pairs] what its
      EncodeSymbol calls appended.  Premises on the encoder (checked on every harness case): every pair carries the id
      of the symbol encoded one step earlier, the last symbol is E.  [ctx_agree]: the contexts active at the decoder's
      DecodeSymbol calls are -1 (none) followed by the encoder's contexts in reverse order. *)
  Theorem valence_run_roundtrip pairs syms env ss cs cf :
    Forall pair_ok pairs ->
    syms = map (fun p => topo_of_id (snd p)) pairs ++ [TOPOLOGY_E] ->
    vd_run step (length syms) env (-1) (-1) (lists_of pairs) (counters_of pairs) = (ss, cs, cf) ->
    cs = -1 :: rev (map fst pairs) ->
    ss = rev syms /\ cf = [0; 0; 0; 0; 0; 0].
  Proof.
    intros Hok -> Hrun Hcs.
    rewrite app_length, map_length in Hrun. cbn [length] in Hrun. rewrite Nat.add_1_r in Hrun.
    cbn [vd_run] in Hrun. unfold vd_decode_symbol at 1 in Hrun. change (-1 =? -1) with true in Hrun. cbv beta iota zeta in Hrun.
    change (negb (is_topo TOPOLOGY_E)) with false in Hrun. cbv beta iota zeta in Hrun.
    rewrite rev_app_distr. cbn [rev app].
    destruct (step env TOPOLOGY_E) as [[env' ctx']|].
    - pose proof (vd_run_tail (rev pairs) [] env' ctx' TOPOLOGY_E) as Ht.
      rewrite rev_involutive, app_nil_r, rev_length in Ht.
      destruct (vd_run step (length pairs) env' ctx' TOPOLOGY_E (lists_of pairs) (counters_of pairs)) as [[ss1 cs1] cf1].
      injection Hrun as <- <- <-. injection Hcs as Hcs.
      destruct (Ht ss1 cs1 cf1) as [-> ->].
      + apply Forall_forall. intros x Hx. apply in_rev in Hx. revert x Hx. apply Forall_forall. exact Hok.
      + reflexivity.
      + rewrite Hcs. rewrite map_rev. reflexivity.
      + split; [|reflexivity]. rewrite map_rev. reflexivity.
    - injection Hrun as <- <- <-. injection Hcs as Hcs.
      assert (pairs = []) as ->.
      { destruct pairs as [|p ps]; [reflexivity|]. cbn [map rev] in Hcs. destruct (rev (map fst ps)); discriminate. }
      split; reflexivity.
  Qed.
End Run.

(** * The encoder's reservation suffices ("each face will need only up to 3 bits"): no write past the reserved bytes *)
Lemma be_n_fold_le : forall l st, Forall topo l ->
  be_n (fold_left BitBuffer.put_bits (map (fun s => (plen s, s)) l) st) <= be_n st + 3 * zlen l.
Proof.
  induction l as [|s l IH]; intros st Hl; cbn [map fold_left].
  - unfold zlen; cbn; lia.
  - pose proof (Forall_inv Hl) as Hs. pose proof (Forall_inv_tail Hl) as Hl'.
    specialize (IH (BitBuffer.put_bits st (plen s, s)) Hl').
    change (be_n (BitBuffer.put_bits st (plen s, s))) with (be_n st + plen s) in IH.
    assert (Hp: plen s <= 3) by (unfold plen; destruct (s =? 0); lia).
    unfold zlen in *. cbn [length]. rewrite Nat2Z.inj_succ. lia.
Qed.

Theorem enc_symbol_block_total mesh_faces syms :
  Forall topo syms -> 0 < mesh_faces -> 3 * mesh_faces < 2 ^ 32 -> zlen syms <= mesh_faces ->
  exists bs, enc_symbol_block mesh_faces syms = Some bs.
Proof.
  intros Hsy Hmf Hlim Hlen. unfold enc_symbol_block.
  assert (Hrev: Forall topo (rev syms)).
  { apply Forall_forall. intros x Hx. apply in_rev in Hx. revert x Hx. apply Forall_forall. exact Hsy. }
  rewrite (sym_puts_topo _ Hrev). fold plen.
  replace ((mesh_faces * 3) mod 2 ^ 32) with (3 * mesh_faces) by (rewrite Z.mod_small; lia).
  unfold enc_block. replace (3 * mesh_faces <=? 0) with false by lia.
  pose proof (be_n_fold_le (rev syms) bitenc_empty Hrev) as Hn. cbn [bitenc_empty be_n] in Hn.
  unfold zlen in Hn. rewrite rev_length in Hn. fold (put_all (map (fun s => (plen s, s)) (rev syms))) in Hn.
  set (s := put_all _) in *.
  assert (Hf0: Forall (fun nv : Z * Z => 0 <= fst nv) (map (fun s => (plen s, s)) (rev syms))).
  { apply Forall_forall. intros x Hx. apply in_map_iff in Hx. destruct Hx as (y & <- & _). cbn. unfold plen. destruct (y =? 0); lia. }
  destruct (fold_put_prefix _ _ bitenc_empty_wf Hf0) as ((Hn0 & _) & _ & _). fold (put_all (map (fun s => (plen s, s)) (rev syms))) in Hn0. fold s in Hn0.
  replace (be_n s >? (3 * mesh_faces + 7) / 8 * 8) with false
    by (unfold zlen in Hlen; clear - Hn Hlen Hmf; Z.div_mod_to_equations; lia).
  destruct (enc_varint_u_total 64 ((be_n s + 7) / 8) ltac:(right; right; right; reflexivity)) as (szb & Hsz & _).
  { split; [Z.div_mod_to_equations; lia|]. unfold zlen in Hlen. clear - Hn Hlen Hlim Hn0. Z.div_mod_to_equations. lia. }
  rewrite Hsz. eexists; reflexivity.
Qed.
