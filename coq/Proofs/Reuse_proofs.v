From Coq Require Import ZifyBool.
From Draco Require Import Base.Codec Model.Varint Model.BitBuffer Model.BitCoders Model.Reuse.
Local Open Scope Z_scope.

(** After Clear(), an EncoderBuffer behaves like a new one, whatever was done to it before — provided the
    history left it outside bit mode or not (Clear resets the reservation too). *)
Definition ebuf_equiv (a b : ebuf) : Prop :=
  eb_bytes a = eb_bytes b /\ eb_reserved a = eb_reserved b /\ eb_puts a = eb_puts b /\
  (0 < eb_reserved a -> eb_with_size a = eb_with_size b /\ eb_req a = eb_req b).

Ltac fin Hw := repeat split; try assumption; try reflexivity; try (intros; lia); try (intros; apply Hw; lia).

Lemma ebuf_step_equiv a b o : ebuf_equiv a b ->
  ebuf_equiv (fst (ebuf_step a o)) (fst (ebuf_step b o)) /\ snd (ebuf_step a o) = snd (ebuf_step b o).
Proof.
  intros (Hb & Hr & Hp & Hw). unfold ebuf_equiv.
  destruct o as [|bs|req ws|n v|]; cbn [ebuf_step].
  - cbn. fin Hw.
  - rewrite <- Hr. destruct (0 <? eb_reserved a) eqn:E; cbn [fst snd eb_bytes eb_reserved eb_puts eb_with_size eb_req].
    + fin Hw.
    + rewrite Hb. fin Hw.
  - rewrite <- Hr. destruct ((0 <? eb_reserved a) || (req <=? 0)) eqn:E; cbn [fst snd eb_bytes eb_reserved eb_puts eb_with_size eb_req].
    + fin Hw.
    + rewrite Hb. fin Hw.
  - rewrite <- Hr. destruct (0 <? eb_reserved a) eqn:E; cbn [fst snd eb_bytes eb_reserved eb_puts eb_with_size eb_req].
    + rewrite Hb, Hp. fin Hw.
    + fin Hw.
  - rewrite <- Hr. destruct (0 <? eb_reserved a) eqn:E; cbn [fst snd].
    + destruct (Hw ltac:(lia)) as [Hws Hrq]. rewrite <- Hws, <- Hrq, <- Hp.
      destruct (enc_block (eb_req a) (eb_with_size a) (eb_puts a)); cbn [fst snd eb_bytes eb_reserved eb_puts eb_with_size eb_req].
      * rewrite Hb. fin Hw.
      * fin Hw.
    + fin Hw.
Qed.

Lemma ebuf_run_equiv ops : forall a b, ebuf_equiv a b ->
  ebuf_equiv (fst (ebuf_run a ops)) (fst (ebuf_run b ops)) /\ snd (ebuf_run a ops) = snd (ebuf_run b ops).
Proof.
  induction ops as [|o r IH]; intros a b H; cbn [ebuf_run].
  - split; [exact H|reflexivity].
  - destruct (ebuf_step_equiv a b o H) as [H1 H2].
    destruct (ebuf_step a o) as [a1 ba]. destruct (ebuf_step b o) as [b1 bb]. cbn [fst snd] in *.
    destruct (IH a1 b1 H1) as [H3 H4].
    destruct (ebuf_run a1 r) as [a2 la]. destruct (ebuf_run b1 r) as [b2 lb]. cbn [fst snd] in *.
    split; [exact H3|]. congruence.
Qed.

(** History independence: for EVERY sequence of earlier calls [history], clearing the buffer and then running
    [ops] gives the same observable bytes, mode and call results as running [ops] on a fresh buffer. *)
Theorem ebuf_history_independent history ops :
  let used := fst (ebuf_run ebuf_new history) in
  ebuf_obs (fst (ebuf_run used (EClear :: ops))) = ebuf_obs (fst (ebuf_run ebuf_new ops)) /\
  snd (ebuf_run used (EClear :: ops)) = true :: snd (ebuf_run ebuf_new ops).
Proof.
  cbn zeta. set (used := fst (ebuf_run ebuf_new history)).
  cbn [ebuf_run ebuf_step].
  set (c := {| eb_bytes := []; eb_reserved := 0; eb_with_size := eb_with_size used; eb_req := eb_req used; eb_puts := [] |}).
  assert (He: ebuf_equiv c ebuf_new).
  { unfold ebuf_equiv, c, ebuf_new; cbn. repeat split; try reflexivity; intros; lia. }
  destruct (ebuf_run_equiv ops c ebuf_new He) as [(Hb & Hr & _) Hres].
  destruct (ebuf_run c ops) as [s1 l1]. destruct (ebuf_run ebuf_new ops) as [s2 l2]. cbn [fst snd] in *.
  unfold ebuf_obs. rewrite Hb, Hr, Hres. split; reflexivity.
Qed.

(** Bit encoders: StartEncoding discards whatever the object accumulated before; EndEncoding leaves it clear. *)
Theorem bitobj_history_independent enc history ops :
  let used := fst (bitobj_run enc {| bo_bits := [] |} history) in
  snd (bitobj_run enc used (BStart :: ops)) = None :: snd (bitobj_run enc {| bo_bits := [] |} ops).
Proof.
  cbn zeta. cbn [bitobj_run bitobj_step].
  destruct (bitobj_run enc {| bo_bits := [] |} ops). reflexivity.
Qed.
