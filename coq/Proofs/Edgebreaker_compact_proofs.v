(** The vertex compaction of the Edgebreaker connectivity decoder (Model/Edgebreaker.v): the part [FJ] of the fan invariant
    that survives the start-face phase, SwingRight as the inverse of SwingLeft, what one VertexCornersIterator walk does
    ([vcit_mono]: only corners of src_vert change; [vcit_covers]: EVERY corner of src_vert is visited - from the reach clause),
    its termination ([vcit_nofuel]: pairwise different orbit points + pigeonhole, the right traversal cannot cycle because
    the left one died), the loop invariant of the compaction ([compact_spec]) and the statements about the returned table
    ([eb_core_accept], [eb_full_accept]) and about termination of the whole run ([eb_core_terminates], [eb_full_terminates]). *)
From Coq Require Import ZArith List Bool Lia ZifyBool.
From Draco Require Import Model.Edgebreaker Proofs.Edgebreaker_proofs Proofs.Edgebreaker_fan_proofs Proofs.Edgebreaker_oob_proofs.
Import ListNotations.
Local Open Scope Z_scope.

(** * The part of the fan invariant that survives the start-face phase *)
Record FJ (f : Z) (s : st) : Prop := {
  j_reach : forall c, 0 <= c < 3 * f -> vc s (c2v s c) <> -1 /\ reach s c (vc s (c2v s c));
  j_vc : forall v, 0 <= v < nv s -> vc s v <> -1 -> c2v s (vc s v) = v
}.
Lemma FI_FJ : forall f s, FI f s -> FJ f s.
Proof. intros f s H. constructor; [apply (f_reach _ _ H)|apply (f_vc _ _ H)]. Qed.

Section StartFJ.
Variables NC maxv : Z.

Lemma start_face_shape : forall nf s a s', NC = 3 * nf -> W NC maxv (nfaces s) s -> NI (nfaces s) s -> 0 <= a < 3 * nfaces s ->
  start_face NC maxv nf s a = Ok s' ->
  let f := nfaces s in
  exists b c, 0 <= b < 3 * f /\ 0 <= c < 3 * f /\ copp s a = -1 /\ copp s b = -1 /\ copp s c = -1 /\
    copp s' = upd (upd (upd (upd (upd (upd (copp s) (3 * f) a) a (3 * f)) (3 * f + 1) b) b (3 * f + 1)) (3 * f + 2) c) c (3 * f + 2) /\
    c2v s' = upd (upd (upd (c2v s) (3 * f) (c2v s (next_c b))) (3 * f + 1) (c2v s (next_c c))) (3 * f + 2) (c2v s (next_c a)) /\
    vc s' = vc s /\ nv s' = nv s /\ invalid s' = invalid s /\
    c2v s (prev_c a) = c2v s (next_c c) /\                (* the guard Vertex(Previous(corner_a)) == vert_p *)
    b = next_c (vc s (c2v s (next_c a))) /\ c = next_c (vc s (c2v s (next_c b))) /\ a <> b /\ a <> c /\ b <> c.
Proof.
  intros nf s a s' HNC HW HN Ha H. cbv zeta.
  unfold start_face in H. set (f := nfaces s) in *.
  pose proof (w_nf _ _ _ _ HW) as Hnf. pose proof (w_nv _ _ _ _ HW) as Hnv.
  pose proof (next_c_rng a f Ha) as Hna. pose proof (w_vr _ _ _ _ HW _ Hna) as Hvn.
  mstep H. mstep H. vtx_created. subst. mstep H. prim. subst.
  destruct (w_lr _ _ _ _ HW _ Hvn) as [Q|Hl]; [exfalso; exact (HN _ Hna Q)|].
  set (b := next_c (vc s (c2v s (next_c a)))) in *.
  assert (Hb : 0 <= b < 3 * f) by (apply next_c_rng; exact Hl).
  pose proof (next_c_rng b f Hb) as Hnb. pose proof (w_vr _ _ _ _ HW _ Hnb) as Hvx.
  mstep H. vtx_created. subst. mstep H. prim. subst.
  destruct (w_lr _ _ _ _ HW _ Hvx) as [Q|Hlx]; [exfalso; exact (HN _ Hnb Q)|].
  set (c := next_c (vc s (c2v s (next_c b)))) in *.
  assert (Hc : 0 <= c < 3 * f) by (apply next_c_rng; exact Hlx).
  pose proof (next_c_rng c f Hc) as Hnc. pose proof (w_vr _ _ _ _ HW _ Hnc) as Hvp.
  exists b, c.
  mstep H. mstep H. destruct a0; [|discriminate].
  match goal with Q : all_free _ _ _ = Ok true |- _ => apply all_free_cons in Q; destruct Q as (Fa & Q); apply all_free_cons in Q; destruct Q as (Fb & Q); apply all_free_cons in Q; destruct Q as (Fc & _) end.
  destruct Fa as [Fa|(_ & Fa)]; [lia|]. destruct Fb as [Fb|(_ & Fb)]; [lia|]. destruct Fc as [Fc|(_ & Fc)]; [lia|].
  mstep H. mstep H. vtx_created. subst.
  pose proof (prev_c_rng a f Ha) as Hpa.
  mstep H. vtx_created. subst. mstep H.
  match goal with Q : negb (_ =? _) = false |- _ => rename Q into Eguard end.
  mstep H. mstep H. mstep H. prim. subst. sproj.
  mstep H. mstep H. mstep H. prim. subst. sproj.
  mstep H. vtx_created. mstep H. prim. subst. sproj.
  mstep H. vtx_created. mstep H. prim. subst. sproj.
  mstep H. vtx_created. mstep H. prim. subst. sproj.
  apply Ok_inj in H. subst s'. sproj. repeat split; try lia; try assumption; reflexivity.
Qed.

Lemma dead_end_lmc_J : forall s f c, FJ f s -> 0 <= c < 3 * f -> slf s c = -1 -> vc s (c2v s c) = c.
Proof.
  intros s f c HJ Hc D. destruct (j_reach _ _ HJ c Hc) as (N & (k & R)).
  destruct k; [cbn in R; congruence|]. rewrite iter_succ_r, D, iter_dead in R. congruence.
Qed.

Lemma start_face_FJ : forall nf s a s', NC = 3 * nf -> W NC maxv (nfaces s) s -> FJ (nfaces s) s -> 0 <= a < 3 * nfaces s ->
  start_face NC maxv nf s a = Ok s' -> FJ (nfaces s') s'.
Proof.
  intros nf s a s' HNC HW HJ Ha H.
  assert (HN : NI (nfaces s) s) by (intros c Hc; apply (j_reach _ _ HJ c Hc)).
  pose proof (start_face_W NC maxv nf s a s' HNC HW Ha H) as (HW' & Enf & _).
  destruct (start_face_shape nf s a s' HNC HW HN Ha H) as (b & c & Hb & Hc & Fa & Fb & Fc & Ec & Ev & El & En & _).
  rewrite Enf in *. set (f := nfaces s) in *.
  pose proof (w_nf _ _ _ _ HW) as Hnf.
  pose proof (next_c_rng a f Ha) as Hna. pose proof (next_c_rng b f Hb) as Hnb. pose proof (next_c_rng c f Hc) as Hnc.
  destruct (new_face_corners f ltac:(lia)) as (N0 & N1 & N2 & P0 & P1 & P2).
  assert (Gc : forall x, 0 <= x < 3 * f -> c2v s' x = c2v s x) by (intros x Hx; rewrite Ev; rewrite !upd_other by lia; reflexivity).
  assert (Gs : forall x, 0 <= x < 3 * f -> slf s x <> -1 -> slf s' x = slf s x).
  { intros x Hx D. rewrite !slf_at in * by lia. rewrite Ec. pose proof (next_c_rng x f Hx).
    assert (next_c x <> a) by (intro Q; rewrite Q, Fa in D; apply D; reflexivity).
    assert (next_c x <> b) by (intro Q; rewrite Q, Fb in D; apply D; reflexivity).
    assert (next_c x <> c) by (intro Q; rewrite Q, Fc in D; apply D; reflexivity).
    rewrite !upd_other by lia. reflexivity. }
  assert (Old : forall x, 0 <= x < 3 * f -> vc s' (c2v s' x) <> -1 /\ reach s' x (vc s' (c2v s' x))).
  { intros x Hx. rewrite Gc, El by exact Hx. destruct (j_reach _ _ HJ x Hx) as (A & B). split; [exact A|].
    exact (lift_reach NC maxv s s' f HW Gs x _ Hx B A). }
  constructor.
  - intros x Hx. destruct (Z_lt_dec x (3 * f)) as [Lo|Hi]; [apply Old; lia|].
    assert (Step : forall y, 0 <= y < 3 * f -> slf s' x = y -> c2v s' x = c2v s y ->
                   vc s' (c2v s' x) <> -1 /\ reach s' x (vc s' (c2v s' x))).
    { intros y Hy E1 E2. destruct (Old y Hy) as (A & B). rewrite Gc in A, B by exact Hy. rewrite E2.
      split; [exact A|]. apply reach_step. rewrite E1. exact B. }
    assert (x = 3 * f \/ x = 3 * f + 1 \/ x = 3 * f + 2) as [-> | [-> | ->]] by lia.
    + apply (Step (next_c b) Hnb).
      * rewrite slf_at by lia. rewrite N0, Ec. case_upds; try lia; try reflexivity.
      * rewrite Ev. rewrite !upd_other by lia. apply upd_same.
    + apply (Step (next_c c) Hnc).
      * rewrite slf_at by lia. rewrite N1, Ec. case_upds; try lia; try reflexivity.
      * rewrite Ev. rewrite upd_other by lia. apply upd_same.
    + apply (Step (next_c a) Hna).
      * rewrite slf_at by lia. rewrite N2, Ec. case_upds; try lia; try reflexivity.
      * rewrite Ev. apply upd_same.
  - intros v Hv N. rewrite El in *. rewrite En in Hv.
    destruct (w_lr _ _ _ _ HW v Hv) as [Z|Z]; [congruence|]. rewrite Gc by exact Z. apply (j_vc _ _ HJ); assumption.
Qed.

Lemma start_loop_FJ : forall nf bits stk k s s', NC = 3 * nf -> W NC maxv (nfaces s) s -> FJ (nfaces s) s ->
  Forall (fun c => 0 <= c < 3 * nfaces s) stk ->
  start_loop NC maxv nf bits k stk s = Ok s' -> FJ (nfaces s') s'.
Proof.
  induction stk as [|a r IH]; intros k s s' HNC HW HJ Hstk H; cbn [start_loop] in H.
  - apply Ok_inj in H. subst s'. destruct HJ. constructor; sproj; assumption.
  - inversion Hstk as [|x y Ha Hr]; subst x y. destruct (bits k).
    + mstep H. pose proof (start_face_W NC maxv nf s a a0 HNC HW Ha E) as (A & B & _).
      pose proof (start_face_FJ nf s a a0 HNC HW HJ Ha E) as C.
      eapply IH; [exact HNC|exact A|exact C| |exact H]. eapply Forall_mono3; [|exact Hr]. lia.
    + eapply IH; [exact HNC|apply W_with_inits; exact HW| |exact Hr|exact H].
      destruct HJ. constructor; sproj; assumption.
Qed.
End StartFJ.

(** * SwingRight is the inverse of SwingLeft *)
Section Inverse.
Variables NC maxv : Z.

Lemma srf_at : forall s c, 0 <= c -> srf s c = prev_c (copp s (prev_c c)).
Proof.
  intros s c H. unfold srf, oppf. destruct (prev_c_spec c H) as (A & _).
  destruct (prev_c c =? -1) eqn:E; [lia|reflexivity].
Qed.
Lemma srf_m1 : forall s, srf s (-1) = -1. Proof. reflexivity. Qed.
Lemma iter_dead_r : forall s k, Nat.iter k (srf s) (-1) = -1.
Proof. induction k; [reflexivity|]. rewrite iter_S, IHk. reflexivity. Qed.
Lemma srf_created : forall s f c, W NC maxv f s -> 0 <= c < 3 * f -> srf s c = -1 \/ 0 <= srf s c < 3 * f.
Proof. intros s f c HW Hc. exact (proj2 (swing_right_created NC maxv s f c HW Hc)). Qed.

Lemma slf_srf : forall s f c, W NC maxv f s -> 0 <= c < 3 * f -> srf s c <> -1 -> slf s (srf s c) = c.
Proof.
  intros s f c HW Hc N. pose proof (prev_c_rng c f Hc) as Hp.
  rewrite srf_at in * by lia.
  destruct (w_pi _ _ _ _ HW _ Hp) as [Q|(Q1 & Q2 & _)]; [rewrite Q in N; cbn in N; congruence|].
  set (o := copp s (prev_c c)) in *.
  rewrite slf_at by (pose proof (prev_c_rng o f Q1); lia).
  rewrite (proj2 (proj2 (proj2 (prev_c_spec o ltac:(lia))))), Q2. apply prev_c_spec. lia.
Qed.
Lemma srf_slf : forall s f c, W NC maxv f s -> 0 <= c < 3 * f -> slf s c <> -1 -> srf s (slf s c) = c.
Proof.
  intros s f c HW Hc N. pose proof (next_c_rng c f Hc) as Hp.
  rewrite slf_at in * by lia.
  destruct (w_pi _ _ _ _ HW _ Hp) as [Q|(Q1 & Q2 & _)]; [rewrite Q in N; cbn in N; congruence|].
  set (o := copp s (next_c c)) in *.
  rewrite srf_at by (pose proof (next_c_rng o f Q1); lia).
  rewrite (proj2 (proj2 (proj2 (next_c_spec o ltac:(lia))))), Q2. apply next_c_spec. lia.
Qed.

Lemma iter_created_r : forall s f, W NC maxv f s -> forall k c, 0 <= c < 3 * f -> Nat.iter k (srf s) c <> -1 ->
  0 <= Nat.iter k (srf s) c < 3 * f.
Proof.
  intros s f HW. induction k; intros c Hc H; [exact Hc|]. rewrite iter_succ_r in *.
  destruct (srf_created s f c HW Hc) as [D|D]; [rewrite D, iter_dead_r in H; congruence|]. apply IHk; assumption.
Qed.

(** a live SwingLeft path read backwards is a SwingRight path *)
Lemma inv_path : forall s f, W NC maxv f s -> forall k c l, 0 <= c < 3 * f -> Nat.iter k (slf s) c = l -> l <> -1 ->
  Nat.iter k (srf s) l = c.
Proof.
  intros s f HW. induction k; intros c l Hc R N; [cbn in *; congruence|].
  rewrite iter_succ_r in R.
  destruct (slf_created NC maxv s f c HW Hc) as [D|D]; [rewrite D, iter_dead in R; congruence|].
  rewrite iter_S. rewrite (IHk _ _ D R N). apply (srf_slf s f c HW Hc). lia.
Qed.
Lemma inv_path_r : forall s f, W NC maxv f s -> forall k c l, 0 <= c < 3 * f -> Nat.iter k (srf s) c = l -> l <> -1 ->
  Nat.iter k (slf s) l = c.
Proof.
  intros s f HW. induction k; intros c l Hc R N; [cbn in *; congruence|].
  rewrite iter_succ_r in R.
  destruct (srf_created s f c HW Hc) as [D|D]; [rewrite D, iter_dead_r in R; congruence|].
  rewrite iter_S. rewrite (IHk _ _ D R N). apply (slf_srf s f c HW Hc). lia.
Qed.
End Inverse.

(** * What one VertexCornersIterator walk of the compaction does *)
Ltac swr Q := match goal with Q' : swing_right _ _ _ = Ok ?a |- _ => rewrite Q in Q'; apply Ok_inj in Q'; subst a end.
Ltac swl Q := match goal with Q' : swing_left _ _ _ = Ok ?a |- _ => rewrite Q in Q'; apply Ok_inj in Q'; subst a end.

Section Vcit.
Variables NC maxv : Z.

Lemma mono_step : forall s x src iv s', iv <> src -> c2v s x = src ->
  (forall c, c2v s' c = c2v (with_c2v s (upd (c2v s) x iv)) c \/ (c2v (with_c2v s (upd (c2v s) x iv)) c = src /\ c2v s' c = iv)) /\
    same_but_c2v (with_c2v s (upd (c2v s) x iv)) s' ->
  (forall c, c2v s' c = c2v s c \/ (c2v s c = src /\ c2v s' c = iv)) /\ same_but_c2v s s'.
Proof.
  intros s x src iv s' Hne Hx (A & B). split; [|unfold same_but_c2v in *; sproj; exact B].
  intros c. specialize (A c). sproj. unfold upd in A. destruct (c =? x) eqn:E.
  - assert (c = x) by lia. subst c. right. split; [exact Hx|]. destruct A as [A|(A & _)]; [exact A|congruence].
  - exact A.
Qed.

(** only corners labelled [src] change, and they change to [iv] *)
Lemma vcit_mono : forall fuel s x start left src iv s', iv <> src ->
  vcit_loop NC fuel s x start left src iv = Ok s' ->
  (forall c, c2v s' c = c2v s c \/ (c2v s c = src /\ c2v s' c = iv)) /\ same_but_c2v s s'.
Proof.
  induction fuel as [|fuel IH]; intros s x start left src iv s' Hne H; cbn [vcit_loop] in H; [discriminate|].
  destruct (x =? -1) eqn:E.
  { apply Ok_inj in H. subst. split; [intros; left; reflexivity|apply same_but_c2v_refl]. }
  mstep H. mstep H. mstep H. prim. subst.
  apply vertex_ok in E0. destruct E0 as [(? & ?)|(Hx & ->)]; [lia|].
  assert (Hlab : c2v s x = src) by lia.
  destruct left.
  - mstep H. mstep H; [mstep H|mstep H]; apply IH in H; try exact Hne; apply (mono_step s x src iv s' Hne Hlab H).
  - mstep H. apply IH in H; try exact Hne. apply (mono_step s x src iv s' Hne Hlab H).
Qed.

Lemma vcit_right_cover : forall fuel s f x start src iv s', W NC maxv f s -> (x = -1 \/ 0 <= x < 3 * f) ->
  0 <= iv < nv s -> iv <> src ->
  vcit_loop NC fuel s x start false src iv = Ok s' ->
  forall k, Nat.iter k (srf s) x <> -1 -> c2v s' (Nat.iter k (srf s) x) = iv.
Proof.
  induction fuel as [|fuel IH]; intros s f x start src iv s' HW Hx Hiv Hne H k Hk; cbn [vcit_loop] in H; [discriminate|].
  destruct (x =? -1) eqn:E. { assert (x = -1) by lia. subst x. rewrite iter_dead_r in Hk. congruence. }
  destruct Hx as [?|Hx]; [lia|].
  mstep H. mstep H. mstep H. prim. subst.
  pose proof (W_map_cv NC maxv f s x iv HW Hiv) as HW1.
  destruct (swing_right_created NC maxv _ f x HW1 Hx) as (Q & Rg).
  rewrite Q in H; cbn [bind] in H.
  change (srf (with_c2v s (upd (c2v s) x iv)) x) with (srf s x) in *.
  destruct k.
  - change (Nat.iter 0 (srf s) x) with x.
    destruct (vcit_mono _ _ _ _ _ _ _ _ Hne H) as (A & _). destruct (A x) as [A1|(A1 & A2)]; [|exact A2].
    rewrite A1. sproj. apply upd_same.
  - rewrite iter_succ_r in *. 
    exact (IH _ f _ start src iv s' HW1 Rg Hiv Hne H k Hk).
Qed.

Lemma vcit_left_cover : forall fuel s f x start src iv s', W NC maxv f s -> 0 <= x < 3 * f -> 0 <= start < 3 * f ->
  0 <= iv < nv s -> iv <> src ->
  vcit_loop NC fuel s x start true src iv = Ok s' ->
  exists e : nat,
    (forall j : nat, (j <= e)%nat -> Nat.iter j (slf s) x <> -1 /\ c2v s' (Nat.iter j (slf s) x) = iv) /\
    (slf s (Nat.iter e (slf s) x) = start \/
     (slf s (Nat.iter e (slf s) x) = -1 /\
      forall k, Nat.iter k (srf s) (srf s start) <> -1 -> c2v s' (Nat.iter k (srf s) (srf s start)) = iv)).
Proof.
  induction fuel as [|fuel IH]; intros s f x start src iv s' HW Hx Hs Hiv Hne H; cbn [vcit_loop] in H; [discriminate|].
  destruct (x =? -1) eqn:E; [lia|].
  mstep H. mstep H. mstep H. prim. subst.
  pose proof (W_map_cv NC maxv f s x iv HW Hiv) as HW1. set (s1 := with_c2v s (upd (c2v s) x iv)) in *.
  assert (Hx1 : forall s'', (forall c, c2v s'' c = c2v s1 c \/ (c2v s1 c = src /\ c2v s'' c = iv)) -> c2v s'' x = iv).
  { intros s'' A. destruct (A x) as [A1|(A1 & A2)]; [|exact A2]. rewrite A1. unfold s1. sproj. apply upd_same. }
  destruct (swing_left_created NC maxv _ f x HW1 Hx) as (Q & Rg).
  rewrite Q in H; cbn [bind] in H.
  change (slf s1 x) with (slf s x) in *.
  mstep H.
  - (* open: continue to the right of start *)
    destruct (swing_right_created NC maxv _ f start HW1 Hs) as (Q2 & Rg2).
    rewrite Q2 in H; cbn [bind] in H. change (srf s1 start) with (srf s start) in *.
    exists O. split.
    + intros j Hj. assert (j = O) by lia. subst j. change (Nat.iter 0 (slf s) x) with x. split; [lia|].
      apply Hx1. apply (vcit_mono _ _ _ _ _ _ _ _ Hne H).
    + right. change (Nat.iter 0 (slf s) x) with x. split; [lia|].
      intros k Hk. exact (vcit_right_cover _ s1 f _ start src iv s' HW1 Rg2 Hiv Hne H k Hk).
  - mstep H.
    + (* closed *)
      exists O. split.
      * intros j Hj. assert (j = O) by lia. subst j. change (Nat.iter 0 (slf s) x) with x. split; [lia|].
        apply Hx1. apply (vcit_mono _ _ _ _ _ _ _ _ Hne H).
      * left. change (Nat.iter 0 (slf s) x) with x. lia.
    + destruct Rg as [?|Rg]; [lia|].
      destruct (IH s1 f _ start src iv s' HW1 Rg Hs Hiv Hne H) as (e & A & B).
      change (slf s1) with (slf s) in *. change (srf s1) with (srf s) in *.
      exists (S e). split.
      * intros j Hj. destruct j.
        { change (Nat.iter 0 (slf s) x) with x. split; [lia|]. apply Hx1. apply (vcit_mono _ _ _ _ _ _ _ _ Hne H). }
        { rewrite iter_succ_r. apply A. lia. }
      * rewrite iter_succ_r. exact B.
Qed.

(** every corner of [src] is relabelled (this is where the reach clause of the invariant is used) *)
Lemma vcit_covers : forall s f src iv s', W NC maxv f s -> FJ f s -> 0 <= src < nv s -> vc s src <> -1 ->
  0 <= iv < nv s -> iv <> src ->
  vcit_loop NC (vcit_fuel NC) s (vc s src) (vc s src) true src iv = Ok s' ->
  forall c, 0 <= c < 3 * f -> c2v s c = src -> c2v s' c = iv.
Proof.
  intros s f src iv s' HW HJ Hsrc Nl Hiv Hne H c Hc Lc.
  assert (Hl : 0 <= vc s src < 3 * f) by (destruct (w_lr _ _ _ _ HW _ Hsrc) as [Q|Q]; [congruence|exact Q]).
  set (l := vc s src) in *.
  destruct (vcit_left_cover _ s f l l src iv s' HW Hl Hl Hiv Hne H) as (e & A & B).
  destruct (j_reach _ _ HJ c Hc) as (_ & (k & R)). rewrite Lc in R. fold l in R.
  pose proof (inv_path NC maxv s f HW k c l Hc R Nl) as Inv.
  destruct B as [B|(B1 & B2)].
  - (* closed fan: SwingRight from l stays on the visited cycle *)
    assert (Cyc : forall k, Nat.iter k (srf s) l <> -1 -> exists j : nat, (j <= e)%nat /\ Nat.iter k (srf s) l = Nat.iter j (slf s) l).
    { induction k0 as [|k0 IHk]; intros Nk; [exists O; split; [lia|reflexivity]|].
      rewrite iter_S in *. assert (N0 : Nat.iter k0 (srf s) l <> -1) by (intro Z; rewrite Z in Nk; cbn in Nk; congruence).
      destruct (IHk N0) as (j & Lj & Ej). rewrite Ej. destruct j.
      - exists e. split; [lia|]. change (Nat.iter 0 (slf s) l) with l. rewrite <- B at 1.
        apply (srf_slf NC maxv s f _ HW); [apply (iter_created NC maxv s f HW); [exact Hl|apply A; lia]|rewrite B; lia].
      - exists j. split; [lia|]. rewrite iter_S.
        apply (srf_slf NC maxv s f _ HW); [apply (iter_created NC maxv s f HW); [exact Hl|apply A; lia]|].
        rewrite <- iter_S. apply A. lia. }
    destruct (Cyc k) as (j & Lj & Ej); [rewrite Inv; lia|]. rewrite <- Inv, Ej. apply A. exact Lj.
  - destruct k.
    + cbn in Inv. rewrite <- Inv. change l with (Nat.iter 0 (slf s) l). apply A. lia.
    + rewrite iter_succ_r in Inv. rewrite <- Inv. apply B2. rewrite Inv. lia.
Qed.
End Vcit.

(** * The VertexCornersIterator walk terminates *)
Section VcitTerm.
Variables NC maxv : Z.

Lemma iter_inj_r : forall s f, W NC maxv f s -> forall k x y, 0 <= x < 3 * f -> 0 <= y < 3 * f ->
  Nat.iter k (srf s) x = Nat.iter k (srf s) y -> Nat.iter k (srf s) x <> -1 -> x = y.
Proof.
  intros s f HW k x y Hx Hy E N.
  pose proof (inv_path_r NC maxv s f HW k x _ Hx eq_refl N) as A.
  rewrite E in N. pose proof (inv_path_r NC maxv s f HW k y _ Hy eq_refl N) as B. congruence.
Qed.

Lemma NoDup_map_on : forall (A B : Type) (g : A -> B) (l : list A), NoDup l ->
  (forall x y, In x l -> In y l -> g x = g y -> x = y) -> NoDup (map g l).
Proof.
  intros A B g l ND. induction ND as [|a l Ha ND IH]; intros Inj; [constructor|].
  cbn [map]. constructor.
  - intro Q. apply in_map_iff in Q. destruct Q as (y & E & Hy). apply Ha.
    rewrite (Inj a y); [exact Hy|left; reflexivity|right; exact Hy|symmetry; exact E].
  - apply IH. intros x y Hx Hy. apply Inj; right; assumption.
Qed.

(** n+1 pairwise different live orbit points cannot exceed the number of corners *)
Lemma orbit_bound : forall (g : Z -> Z) x m (n : nat),
  (forall i : nat, (i <= n)%nat -> 0 <= Nat.iter i g x < m) ->
  (forall i j : nat, (i < j <= n)%nat -> Nat.iter i g x <> Nat.iter j g x) ->
  (S n <= Z.to_nat m)%nat.
Proof.
  intros g x m n Rg Dist.
  pose proof (pigeonhole (map (fun i => Nat.iter i g x) (seq 0 (S n))) m) as P.
  rewrite map_length, seq_length in P. apply P.
  - apply NoDup_map_on; [apply seq_NoDup|]. intros i j Hi Hj E. apply in_seq in Hi, Hj.
    destruct (Nat.lt_trichotomy i j) as [L|[L|L]]; [|exact L|].
    + exfalso. apply (Dist i j); [lia|exact E].
    + exfalso. apply (Dist j i); [lia|symmetry; exact E].
  - apply Forall_forall. intros y Hy. apply in_map_iff in Hy. destruct Hy as (i & <- & Hi). apply in_seq in Hi. apply Rg. lia.
Qed.

Lemma vcit_right_nofuel : forall fuel s f start src iv (n : nat), W NC maxv f s -> 0 <= start < 3 * f -> 0 <= iv < nv s ->
  (exists m : nat, Nat.iter (S m) (slf s) start = -1) ->
  (forall i : nat, (i <= n)%nat -> Nat.iter i (srf s) start <> -1) ->
  (n + 1 + fuel > Z.to_nat (3 * f))%nat ->
  vcit_loop NC fuel s (Nat.iter (S n) (srf s) start) start false src iv <> Fuel.
Proof.
  induction fuel as [|fuel IH]; intros s f start src iv n HW Hs Hiv (m & Hdead) Al Hf.
  - exfalso.
    assert (B : (S n <= Z.to_nat (3 * f))%nat).
    { apply (orbit_bound (srf s) start (3 * f) n).
      - intros i Hi. apply (iter_created_r NC maxv s f HW); [exact Hs|apply Al; exact Hi].
      - intros i j Hij E.
        (* start = srf^(j-i) start: start would be SwingLeft-periodic, but its left orbit dies *)
        assert (E2 : Nat.iter i (srf s) start = Nat.iter i (srf s) (Nat.iter (j - i) (srf s) start)).
        { rewrite <- iter_add. replace (i + (j - i))%nat with j by lia. exact E. }
        assert (Aj : Nat.iter (j - i) (srf s) start <> -1) by (apply Al; lia).
        apply (iter_inj_r s f HW) in E2; [|exact Hs|apply (iter_created_r NC maxv s f HW); assumption|apply Al; lia].
        pose proof (inv_path_r NC maxv s f HW (j - i) start _ Hs eq_refl Aj) as Per. rewrite <- E2 in Per.
        apply (periodic_alive (slf s) (j - i) start (slf_m1 s) ltac:(lia) Per ltac:(lia) (S m)). exact Hdead. }
    lia.
  - cbn [vcit_loop]. set (x := Nat.iter (S n) (srf s) start).
    destruct (x =? -1) eqn:E; [discriminate|].
    assert (Ax : forall i : nat, (i <= S n)%nat -> Nat.iter i (srf s) start <> -1).
    { intros i Hi. destruct (Nat.eq_dec i (S n)) as [->|Ne]; [fold x; lia|apply Al; lia]. }
    assert (Hx : 0 <= x < 3 * f) by (apply (iter_created_r NC maxv s f HW); [exact Hs|apply Ax; lia]).
    pose proof (w_nf _ _ _ _ HW) as Hnf.
    unfold vertex. rewrite E. assert (in_rng x NC = true) as R by (apply in_rng_true; lia). rewrite R. cbn [bind].
    destruct (negb (c2v s x =? src)); [discriminate|].
    unfold map_cv. rewrite R. cbn [bind].
    pose proof (W_map_cv NC maxv f s x iv HW Hiv) as HW1.
    destruct (swing_right_created NC maxv _ f x HW1 Hx) as (Q & _). rewrite Q. cbn [bind].
    change (srf (with_c2v s (upd (c2v s) x iv)) x) with (Nat.iter (S (S n)) (srf (with_c2v s (upd (c2v s) x iv))) start).
    apply IH with (f := f); try assumption.
    + exists m. exact Hdead.
    + lia.
Qed.

Lemma vcit_left_nofuel : forall fuel s f start src iv (n : nat), W NC maxv f s -> 0 <= start < 3 * f -> 0 <= iv < nv s ->
  (forall i : nat, (i <= n)%nat -> Nat.iter i (slf s) start <> -1) ->
  (forall t : nat, (1 <= t <= n)%nat -> Nat.iter t (slf s) start <> start) ->
  (n + fuel > Z.to_nat (3 * f) + Z.to_nat (3 * f) + 1)%nat ->
  vcit_loop NC fuel s (Nat.iter n (slf s) start) start true src iv <> Fuel.
Proof.
  induction fuel as [|fuel IH]; intros s f start src iv n HW Hs Hiv Al Ns Hf.
  - exfalso.
    assert (B : (S n <= Z.to_nat (3 * f))%nat).
    { apply (orbit_bound (slf s) start (3 * f) n).
      - intros i Hi. apply (iter_created NC maxv s f HW); [exact Hs|apply Al; exact Hi].
      - intros i j Hij E.
        assert (E2 : Nat.iter i (slf s) start = Nat.iter i (slf s) (Nat.iter (j - i) (slf s) start)).
        { rewrite <- iter_add. replace (i + (j - i))%nat with j by lia. exact E. }
        apply (iter_inj NC maxv s f HW) in E2; [|exact Hs|apply (iter_created NC maxv s f HW); [exact Hs|apply Al; lia]|apply Al; lia].
        apply (Ns (j - i)%nat); [lia|symmetry; exact E2]. }
    lia.
  - cbn [vcit_loop]. set (x := Nat.iter n (slf s) start).
    assert (Nx : x <> -1) by (apply Al; lia).
    destruct (x =? -1) eqn:E; [lia|].
    assert (Hx : 0 <= x < 3 * f) by (apply (iter_created NC maxv s f HW); [exact Hs|exact Nx]).
    pose proof (w_nf _ _ _ _ HW) as Hnf.
    unfold vertex. rewrite E. assert (in_rng x NC = true) as R by (apply in_rng_true; lia). rewrite R. cbn [bind].
    destruct (negb (c2v s x =? src)); [discriminate|].
    unfold map_cv. rewrite R. cbn [bind].
    pose proof (W_map_cv NC maxv f s x iv HW Hiv) as HW1. set (s1 := with_c2v s (upd (c2v s) x iv)) in *.
    assert (Hiv1 : 0 <= iv < nv s1) by (unfold s1; sproj; exact Hiv).
    destruct (swing_left_created NC maxv _ f x HW1 Hx) as (Q & _). rewrite Q. cbn [bind].
    change (slf s1 x) with (Nat.iter (S n) (slf s) start).
    assert (B : (S n <= Z.to_nat (3 * f))%nat).
    { apply (orbit_bound (slf s) start (3 * f) n).
      - intros i Hi. apply (iter_created NC maxv s f HW); [exact Hs|apply Al; exact Hi].
      - intros i j Hij E'.
        assert (E2 : Nat.iter i (slf s) start = Nat.iter i (slf s) (Nat.iter (j - i) (slf s) start)).
        { rewrite <- iter_add. replace (i + (j - i))%nat with j by lia. exact E'. }
        apply (iter_inj NC maxv s f HW) in E2; [|exact Hs|apply (iter_created NC maxv s f HW); [exact Hs|apply Al; lia]|apply Al; lia].
        apply (Ns (j - i)%nat); [lia|symmetry; exact E2]. }
    destruct (Nat.iter (S n) (slf s) start =? -1) eqn:E1.
    + destruct (swing_right_created NC maxv _ f start HW1 Hs) as (Q2 & _). rewrite Q2. cbn [bind].
      change (srf s1 start) with (Nat.iter 1 (srf s1) start).
      apply vcit_right_nofuel with (f := f) (n := O); try assumption.
      * exists n. change (slf s1) with (slf s). lia.
      * intros i Hi. assert (i = O) by lia. subst i. cbn. lia.
      * lia.
    + destruct (Nat.iter (S n) (slf s) start =? start) eqn:E2.
      * destruct fuel; [lia|]. cbn [vcit_loop]. discriminate.
      * change (Nat.iter (S n) (slf s) start) with (Nat.iter (S n) (slf s1) start).
        apply IH with (f := f); try assumption.
        { intros i Hi. change (slf s1) with (slf s). destruct (Nat.eq_dec i (S n)) as [->|Ne]; [lia|apply Al; lia]. }
        { intros t Ht. change (slf s1) with (slf s). destruct (Nat.eq_dec t (S n)) as [->|Ne]; [lia|apply Ns; lia]. }
        { lia. }
Qed.

Lemma vcit_nofuel : forall s f l src iv, W NC maxv f s -> 0 <= l < 3 * f -> 0 <= iv < nv s ->
  vcit_loop NC (vcit_fuel NC) s l l true src iv <> Fuel.
Proof.
  intros s f l src iv HW Hl Hiv.
  change l with (Nat.iter 0 (slf s) l) at 1. apply vcit_left_nofuel with (f := f); try assumption.
  - intros i Hi. assert (i = O) by lia. subst i. cbn. lia.
  - intros t Ht. lia.
  - pose proof (w_nf _ _ _ _ HW). unfold vcit_fuel, loop_fuel. lia.
Qed.
End VcitTerm.

(** * With remove_invalid_vertices, the invalid list holds EVERY isolated vertex *)
Definition COV (s : st) : Prop := forall v, 0 <= v < nv s -> vc s v = -1 -> In v (invalid s).

Section Cov.
Variables NC maxv : Z.

Lemma step_COV : forall ns s sid sym s', W NC maxv (nfaces s) s -> FI (nfaces s) s -> COV s -> 3 * nfaces s + 3 <= NC ->
  step NC maxv true ns s sid sym = Ok s' -> COV s'.
Proof.
  intros ns s sid sym s' HW HF HC HN H. unfold step in H.
  pose proof (W_with_nfaces NC maxv _ _ (nfaces s + 1) HW) as HW0.
  assert (HF0 : FI (nfaces s) (with_nfaces s (nfaces s + 1))) by (apply (FI_same _ s); try reflexivity; exact HF).
  set (s0 := with_nfaces s (nfaces s + 1)) in *. set (f := nfaces s) in *.
  assert (HC0 : COV s0) by exact HC.
  pose proof (w_nv _ _ _ _ HW0) as Hnv. pose proof (w_nf _ _ _ _ HW0) as Hnf.
  destruct (sym =? TOPOLOGY_C).
  { destruct (step_C_shape NC maxv s0 f s' HW0 HN H) as (a & rest & _ & Sh). cbv zeta in Sh.
    destruct Sh as (Ha & _ & _ & _ & _ & _ & _ & El & En & Ei).
    intros v Hv Iv. rewrite Ei. rewrite En in Hv. rewrite El in Iv. unfold upd in Iv.
    destruct (v =? c2v s0 (prev_c a)); [lia|]. apply HC0; assumption. }
  destruct ((sym =? TOPOLOGY_R) || (sym =? TOPOLOGY_L)).
  { mstep H. apply split_loop_same in H. destruct H as (_ & _ & C1 & D1 & E1 & _).
    destruct (step_RL_shape NC maxv _ s0 f a HW0 HN E) as (a1 & rest & oc & cl & cr & _ & Eo & Ha & _ & _ & _ & El & En & Ei).
    assert (oc <> -1 /\ cr <> -1).
    { destruct (sym =? TOPOLOGY_R); apply pair_equal_spec in Eo; destruct Eo as (Eo & ->); apply pair_equal_spec in Eo; destruct Eo as (-> & ->); lia. }
    intros v Hv Iv. rewrite E1, Ei. rewrite D1, En in Hv. rewrite C1, El in Iv. unfold upd in Iv.
    destruct (v =? c2v s0 (prev_c a1)); [lia|]. destruct (v =? nv s0) eqn:Q; [lia|]. apply HC0; [lia|exact Iv]. }
  destruct (sym =? TOPOLOGY_S).
  { destruct (step_S_shape NC maxv true s0 f sid s' HW0 HN H) as (a & b & s1 & s2 & Ha & Hb & Hab & Fa & Fb & Sh).
    cbv zeta in Sh. destruct Sh as (Ec1 & Ev1 & El1 & En1 & HW1 & Eloop & Ec' & Ev' & El' & En' & Ei').
    pose proof (step_S_FI NC maxv true s0 f sid s' HW0 HF0 HN H) as HF'.
    pose proof (step_S_W NC maxv true s0 f sid s' HW0 HN H) as (HW' & _).
    pose proof Eloop as SB. apply s_loop_W with (maxv := maxv) (f := f + 1) in SB; [|exact HW1|right; pose proof (next_c_rng b f Hb); lia|].
    2:{ rewrite En1. apply (w_vr _ _ _ _ HW0). apply prev_c_rng. exact Ha. }
    destruct SB as (_ & SB). unfold same_but_c2v in SB. destruct SB as (_ & S2 & S3 & _).
    set (p := c2v s0 (prev_c a)) in *. set (r := c2v s0 (prev_c b)) in *. set (n := c2v s0 (next_c b)) in *.
    intros v Hv Iv. rewrite Ei'. rewrite En', S3, En1 in Hv.
    destruct (Z.eq_dec v n) as [->|Nn]; [left; reflexivity|]. right.
    rewrite El', S2, El1 in Iv. rewrite upd_other in Iv by exact Nn.
    (* the corners 3f (vertex p) and 3f+2 (vertex r or p) of the new face witness that p and r are not isolated in s' *)
    assert (Hp : 0 <= p < nv s0) by (apply (w_vr _ _ _ _ HW0); apply prev_c_rng; exact Ha).
    destruct (s_loop_spec NC maxv (loop_fuel NC) s1 (f + 1) (next_c b) (next_c b) p s2 HW1) as (m & A & B & C & D);
      [pose proof (next_c_rng b f Hb); lia|rewrite En1; exact Hp|exact Eloop|].
    assert (V0 : c2v s' (3 * f) = p).
    { rewrite Ev'. destruct (D (3 * f)) as [D1|(i & Li & Ei)]; [|rewrite Ei; apply C; exact Li].
      rewrite D1, Ev1. rewrite !upd_other by lia. apply upd_same. }
    destruct (f_reach _ _ HF' (3 * f) ltac:(lia)) as (Np & _). rewrite V0 in Np.
    rewrite El', S2, El1 in Np.
    destruct (Z.eq_dec v p) as [->|Np']; [rewrite upd_other in Np by exact Nn; congruence|].
    rewrite upd_other in Iv by exact Np'. unfold upd in Iv. destruct (v =? r); [lia|]. apply HC0; assumption. }
  destruct (sym =? TOPOLOGY_E); [|discriminate].
  mstep H. apply split_loop_same in H. destruct H as (_ & _ & C1 & D1 & E1 & _).
  destruct (step_E_shape NC maxv s0 f a HW0 HN E) as (_ & _ & El & En & Ei).
  intros v Hv Iv. rewrite E1, Ei. rewrite D1, En in Hv. rewrite C1, El in Iv. unfold upd in Iv.
  destruct (v =? nv s0 + 2) eqn:Q2; [lia|]. destruct (v =? nv s0 + 1) eqn:Q1; [lia|]. destruct (v =? nv s0) eqn:Q0; [lia|].
  destruct (v =? nv s0 + 1 + 1) eqn:Q3; [lia|]. apply HC0; [lia|exact Iv].
Qed.

Lemma sym_loop_COV : forall ns syms sid s s', W NC maxv (nfaces s) s -> FI (nfaces s) s -> COV s ->
  3 * (nfaces s + Z.of_nat (length syms)) <= NC ->
  sym_loop NC maxv true ns syms sid s = Ok s' -> COV s'.
Proof.
  induction syms as [|sym r IH]; intros sid s s' HW HF HC HN H; cbn [sym_loop] in H.
  - apply Ok_inj in H. subst. exact HC.
  - cbn [length] in HN. rewrite Nat2Z.inj_succ in HN. mstep H.
    pose proof (step_W NC maxv _ _ _ _ _ _ HW ltac:(lia) E) as (A & B & _).
    pose proof (step_FI NC maxv _ _ _ _ _ _ HW HF ltac:(lia) E) as C.
    pose proof (step_COV _ _ _ _ _ HW HF HC ltac:(lia) E) as D.
    apply IH in H; [exact H|exact A|exact C|exact D|lia].
Qed.
End Cov.

(** * The vertex compaction *)
Section Compact.
Variables NC maxv : Z.

Lemma reach_same : forall s s', copp s' = copp s -> forall x y, reach s x y -> reach s' x y.
Proof.
  intros s s' E x y (k & R). exists k. rewrite <- R. clear R.
  assert (G : forall c, slf s' c = slf s c) by (intros; unfold slf, oppf; rewrite E; reflexivity).
  induction k; [reflexivity|]. rewrite !iter_S, IHk. apply G.
Qed.

Lemma find_src_spec : forall k s, Z.of_nat k <= nv s -> (exists v, 0 <= v < Z.of_nat k /\ vc s v <> -1) ->
  exists k', find_src k s = Ok k' /\ (0 < k' <= k)%nat /\ vc s (Z.of_nat k' - 1) <> -1 /\
    forall v, Z.of_nat k' <= v < Z.of_nat k -> vc s v = -1.
Proof.
  induction k as [|k IH]; intros s Hk (v & Hv & Nv); [lia|].
  cbn [find_src]. unfold lmc. assert (in_rng (Z.of_nat k) (nv s) = true) as R by (apply in_rng_true; lia). rewrite R. cbn [bind].
  destruct (vc s (Z.of_nat k) =? -1) eqn:E.
  - destruct (IH s ltac:(lia)) as (k' & A & B & C & D).
    { exists v. split; [|exact Nv]. assert (v <> Z.of_nat k) by (intro Q; subst v; lia). lia. }
    exists k'. split; [exact A|]. split; [lia|]. split; [exact C|].
    intros w Hw. destruct (Z.eq_dec w (Z.of_nat k)) as [->|Ne]; [lia|apply D; lia].
  - exists (S k). split; [reflexivity|]. split; [lia|]. replace (Z.of_nat (S k) - 1) with (Z.of_nat k) by lia. split; [lia|]. intros; lia.
Qed.

Lemma compact_spec : forall (Q : Prop) ivs k s f, W NC maxv f s -> FJ f s ->
  (forall c, 0 <= c < 3 * f -> 0 <= c2v s c < Z.of_nat k) ->
  Forall (fun v => 0 <= v < nv s /\ vc s v = -1) ivs -> NoDup ivs -> Z.of_nat k <= nv s -> (ivs = [] \/ 0 < f) ->
  (Q -> forall v, 0 <= v < Z.of_nat k -> vc s v = -1 -> In v ivs) ->
  compact NC maxv ivs k s <> Fuel /\
  forall k' s', compact NC maxv ivs k s = Ok (k', s') ->
    W NC maxv f s' /\ FJ f s' /\ (forall c, 0 <= c < 3 * f -> 0 <= c2v s' c < Z.of_nat k') /\
    (Q -> forall v, 0 <= v < Z.of_nat k' -> vc s' v <> -1) /\ copp s' = copp s /\ nv s' = nv s /\ Z.of_nat k' <= nv s.
Proof.
  intros Q. induction ivs as [|iv r IH]; intros k s f HW HJ HL Hiv ND Hk Hf HC; cbn [compact].
  { split; [discriminate|]. intros k' s' H. apply Ok_inj in H. apply pair_equal_spec in H. destruct H as (<- & <-).
    split; [exact HW|]. split; [exact HJ|]. split; [exact HL|]. split; [|split; [reflexivity|split; [reflexivity|exact Hk]]].
    intros q v Hv Iv. destruct (HC q v Hv Iv). }
  destruct Hf as [?|Hf]; [discriminate|].
  pose proof (w_nv _ _ _ _ HW) as Hnv. pose proof (w_nf _ _ _ _ HW) as Hnf.
  assert (Hw : exists v, 0 <= v < Z.of_nat k /\ vc s v <> -1).
  { exists (c2v s 0). split; [apply HL; lia|apply (j_reach _ _ HJ 0); lia]. }
  destruct (find_src_spec k s Hk Hw) as (k1 & A & B & C & D). rewrite A. cbn [bind].
  inversion Hiv as [|x y (Hivr & Hivi) Hr]; subst x y. inversion ND as [|x y Nin ND']; subst x y.
  set (src := Z.of_nat k1 - 1) in *.
  assert (Hsrc : 0 <= src < nv s) by (unfold src; lia).
  assert (HL1 : forall c, 0 <= c < 3 * f -> 0 <= c2v s c < Z.of_nat k1).
  { intros c Hc. pose proof (HL c Hc). destruct (j_reach _ _ HJ c Hc) as (N & _).
    destruct (Z_lt_dec (c2v s c) (Z.of_nat k1)); [lia|]. exfalso. apply N. apply D. lia. }
  assert (HC1 : Q -> forall v, 0 <= v < Z.of_nat k1 -> vc s v = -1 -> In v (iv :: r)) by (intros q v Hv; apply HC; [exact q|lia]).
  destruct (src <? iv) eqn:E.
  { destruct (IH k1 s f HW HJ HL1 Hr ND' ltac:(lia) (or_intror Hf)) as (I1 & I2).
    - intros q v Hv Iv. destruct (HC1 q v Hv Iv) as [<-|X]; [unfold src in *; lia|exact X].
    - split; [exact I1|]. intros k' s' H. destruct (I2 k' s' H) as (J1 & J2 & J3 & J4 & J5 & J6 & J7).
      split; [exact J1|]. split; [exact J2|]. split; [exact J3|]. split; [exact J4|]. split; [exact J5|]. split; [exact J6|exact J7]. }
  assert (Hne : iv <> src) by congruence. assert (Hlt : iv < src) by lia.
  assert (Hl : 0 <= vc s src < 3 * f) by (destruct (w_lr _ _ _ _ HW _ Hsrc) as [X|X]; [congruence|exact X]).
  assert (in_rng src (nv s) = true) as R by (apply in_rng_true; lia).
  assert (Elmc : lmc s src = Ok (vc s src)) by (unfold lmc; rewrite R; reflexivity). rewrite Elmc. cbn [bind].
  pose proof (vcit_nofuel NC maxv s f (vc s src) src iv HW Hl Hivr) as NF.
  destruct (vcit_loop_ok NC maxv (vcit_fuel NC) s (vc s src) (vc s src) true src iv f HW (or_intror Hl) Hl Hivr) as (_ & V2).
  match goal with |- context[vcit_loop ?p1 ?p2 ?p3 ?p4 ?p5 ?p6 ?p7 ?p8] => remember (vcit_loop p1 p2 p3 p4 p5 p6 p7 p8) as rv eqn:EV end.
  symmetry in EV. destruct rv as [a| | |]; cbn [bind];
    [|split; [discriminate|intros; discriminate]|split; [discriminate|intros; discriminate]|exfalso; apply NF; reflexivity].
  destruct (V2 a eq_refl) as (HWa & SBa). unfold same_but_c2v in SBa. destruct SBa as (S1 & S2 & S3 & S4 & _).
  destruct (vcit_mono NC _ _ _ _ _ _ _ _ Hne EV) as (Mono & _).
  pose proof (vcit_covers NC maxv s f src iv a HW HJ Hsrc C Hivr Hne EV) as Cov.
  assert (Lab : forall c, 0 <= c < 3 * f -> c2v a c = if c2v s c =? src then iv else c2v s c).
  { intros c Hc. destruct (c2v s c =? src) eqn:X; [apply Cov; [exact Hc|lia]|].
    destruct (Mono c) as [M|(M & _)]; [exact M|lia]. }
  unfold lmc. rewrite S3, R. cbn [bind].
  unfold set_lmc. destruct (iv =? -1) eqn:E1; [lia|]. rewrite S3.
  assert (in_rng iv (nv s) = true) as R2 by (apply in_rng_true; lia). rewrite R2. cbn [bind].
  unfold make_isolated. sproj. rewrite S3, R. cbn [bind].
  unfold get_hole, set_hole. sproj.
  assert (in_rng src maxv = true) as R3 by (apply in_rng_true; lia). assert (in_rng iv maxv = true) as R4 by (apply in_rng_true; lia).
  rewrite R3. cbn [bind]. sproj. rewrite R4. cbn [bind]. sproj.
  match goal with |- compact _ _ _ _ ?t5 <> Fuel /\ _ => set (s5 := t5) end.
  assert (E5c : c2v s5 = c2v a) by reflexivity. assert (E5o : copp s5 = copp s) by (unfold s5; sproj; exact S1).
  assert (E5v : vc s5 = upd (upd (vc s) iv (vc s src)) src (-1)) by (unfold s5; sproj; rewrite S2; reflexivity).
  assert (E5n : nv s5 = nv s) by (unfold s5; sproj; exact S3).
  assert (NoIv : forall c, 0 <= c < 3 * f -> c2v s c <> iv).
  { intros c Hc X. destruct (j_reach _ _ HJ c Hc) as (N & _). rewrite X in N. congruence. }
  destruct (IH (Nat.pred k1) s5 f) as (I1 & I2).
  - destruct HWa. constructor; unfold s5; sproj; try assumption.
    apply LR_upd; [|left; reflexivity]. apply LR_upd; [assumption|right; rewrite S2; exact Hl].
  - constructor.
    + intros c Hc. rewrite E5c, E5v, (Lab c Hc). destruct (j_reach _ _ HJ c Hc) as (N & Rc).
      destruct (c2v s c =? src) eqn:X.
      * rewrite upd_other by lia. rewrite upd_same. split; [lia|]. apply (reach_same s s5 E5o).
        replace (c2v s c) with src in Rc by lia. exact Rc.
      * rewrite !upd_other; [|pose proof (NoIv c Hc); lia|lia]. split; [exact N|apply (reach_same s s5 E5o); exact Rc].
    + intros v Hv N. rewrite E5n in Hv. rewrite E5c, E5v in *. unfold upd in *.
      destruct (v =? src) eqn:X1; [congruence|]. destruct (v =? iv) eqn:X2.
      * rewrite (Lab _ Hl). rewrite (j_vc _ _ HJ src Hsrc C). rewrite Z.eqb_refl. lia.
      * destruct (w_lr _ _ _ _ HW v Hv) as [Z|Z]; [congruence|]. rewrite (Lab _ Z). rewrite (j_vc _ _ HJ v Hv N).
        rewrite X1. reflexivity.
  - intros c Hc. rewrite E5c, (Lab c Hc). pose proof (HL1 c Hc). destruct (c2v s c =? src) eqn:X; unfold src in *; lia.
  - rewrite E5n, E5v. rewrite Forall_forall in *. intros v Hv. destruct (Hr v Hv) as (P1 & P2). split; [exact P1|].
    unfold upd. destruct (v =? src); [reflexivity|]. destruct (v =? iv) eqn:X; [exfalso; apply Nin; replace iv with v by lia; exact Hv|exact P2].
  - exact ND'.
  - rewrite E5n. lia.
  - right. exact Hf.
  - intros q v Hv Iv. rewrite E5v in Iv. unfold upd in Iv. destruct (v =? src) eqn:X1; [unfold src in *; lia|].
    destruct (v =? iv) eqn:X2; [lia|]. destruct (HC1 q v ltac:(lia) Iv) as [<-|X]; [lia|exact X].
  - split; [exact I1|]. intros k' s' H. destruct (I2 k' s' H) as (J1 & J2 & J3 & J4 & J5 & J6 & J7).
    split; [exact J1|]. split; [exact J2|]. split; [exact J3|]. split; [exact J4|]. split; [congruence|]. split; [congruence|].
    rewrite E5n in J7. exact J7.
Qed.
End Compact.

(** * Top level: the table returned by an accepted run; termination of the whole run *)
Theorem eb_core_accept : forall nf maxv rm syms events bits n sf, 0 <= nf -> 0 <= maxv -> Z.of_nat (length syms) <= nf ->
  eb_core (3 * nf) maxv nf rm syms events bits = Ok (n, sf) ->
  0 <= n <= nv sf /\ nv sf <= maxv /\
  (forall c, 0 <= c < 3 * nf -> 0 <= c2v sf c < n /\ vc sf (c2v sf c) <> -1) /\
  (forall c, 0 <= c < 3 * nf -> copp sf c = -1 \/
       (0 <= copp sf c < 3 * nf /\ copp sf (copp sf c) = c /\ copp sf c <> c /\ copp sf c / 3 <> c / 3)) /\
  (forall v, 0 <= v < nv sf -> vc sf v <> -1 -> 0 <= vc sf v < 3 * nf /\ c2v sf (vc sf v) = v) /\
  (rm = true -> forall v, 0 <= v < n -> vc sf v <> -1).
Proof.
  intros nf maxv rm syms events bits n sf Hnf Hmv Hns H. unfold eb_core in H.
  set (NC := 3 * nf) in *. set (s0 := init_st events) in *.
  assert (HW0 : W NC maxv (nfaces s0) s0) by (apply W_init; unfold NC; lia).
  assert (HF0 : FI (nfaces s0) s0) by apply FI_init.
  assert (HN0 : 3 * (nfaces s0 + Z.of_nat (length syms)) <= NC) by (unfold NC, s0; cbn [nfaces init_st]; lia).
  mstep H. rename a into s1. mstep H. mstep H. rename a into s2. mstep H. mstep H. destruct a as (k, s3). cbn [fst snd] in H.
  apply Ok_inj in H. apply pair_equal_spec in H. destruct H as (<- & <-).
  destruct (sym_loop_W NC maxv rm _ syms 0 s0 s1 HW0 HN0 E) as (HW1 & _).
  pose proof (sym_loop_FI NC maxv rm _ syms 0 s0 s1 HW0 HF0 HN0 E) as HF1.
  destruct (start_loop_W NC maxv nf bits (stack s1) O s1 s2 eq_refl HW1 (w_stack _ _ _ _ HW1) E1) as (HW2 & Einv & Env & Hfl).
  pose proof (start_loop_FJ NC maxv nf bits (stack s1) O s1 s2 eq_refl HW1 (FI_FJ _ _ HF1) (w_stack _ _ _ _ HW1) E1) as HJ2.
  destruct (start_loop_tail NC maxv nf bits (stack s1) O s1 eq_refl HW1 (FI_NI _ _ HF1) (w_stack _ _ _ _ HW1)) as (_ & T2).
  destruct (T2 s2 E1) as (_ & Evc).
  assert (Enf : nfaces s2 = nf) by lia. rewrite Enf in *.
  pose proof (w_nv _ _ _ _ HW2) as Hnv2.
  destruct (compact_spec NC maxv (rm = true) (rev (invalid s2)) (Z.to_nat (nv s2)) s2 nf HW2 HJ2) as (_ & CS).
  - intros c Hc. pose proof (w_vr _ _ _ _ HW2 c Hc). lia.
  - destruct (f_iso _ _ HF1) as (A & _). pose proof (w_invalid _ _ _ _ HW1) as B.
    rewrite Einv, Evc, Env. apply Forall_rev. rewrite Forall_forall in *. intros v Hv. split; [apply B; exact Hv|apply A; exact Hv].
  - rewrite Einv. apply NoDup_rev. apply (f_iso _ _ HF1).
  - lia.
  - destruct (f_inv _ _ HF1) as [Q|Q]; [left; rewrite Einv, Q; reflexivity|right].
    destruct (Z.eq_dec nf 0) as [Z0|Z0]; [|lia]. exfalso.
    destruct (sym_loop_W NC maxv rm _ syms 0 s0 s1 HW0 HN0 E) as (_ & X). cbn [nfaces init_st s0] in X. unfold s0 in X. cbn [nfaces init_st] in X. lia.
  - intros q v Hv Iv. subst rm.
    assert (HC0 : COV s0) by (intros w Hw; cbn [nv init_st s0] in Hw; unfold s0 in Hw; cbn [nv init_st] in Hw; lia).
    pose proof (sym_loop_COV NC maxv _ syms 0 s0 s1 HW0 HF0 HC0 HN0 E) as HC1.
    rewrite Einv. apply -> in_rev. apply HC1; [rewrite <- Env; lia|rewrite <- Evc; exact Iv].
  - destruct (CS k s3 E3) as (J1 & J2 & J3 & J4 & J5 & J6 & J7).
    pose proof (w_nv _ _ _ _ J1) as Hnv3.
    split; [lia|]. split; [lia|]. split; [|split; [|split]].
    + intros c Hc. split; [apply J3; exact Hc|apply (j_reach _ _ J2 c Hc)].
    + intros c Hc. destruct (w_pi _ _ _ _ J1 c Hc) as [X|(A & B & C)]; [left; exact X|right].
      repeat split; try lia; try assumption. intro X. rewrite X in C. lia.
    + intros v Hv N. split; [destruct (w_lr _ _ _ _ J1 v Hv) as [X|X]; [congruence|exact X]|apply (j_vc _ _ J2); assumption].
    + exact J4.
Qed.

Theorem eb_core_terminates : forall nf maxv rm syms events bits, 0 <= nf -> 0 <= maxv -> Z.of_nat (length syms) <= nf ->
  eb_core (3 * nf) maxv nf rm syms events bits <> Fuel.
Proof.
  intros nf maxv rm syms events bits Hnf Hmv Hns H. unfold eb_core in H.
  set (NC := 3 * nf) in *. set (s0 := init_st events) in *.
  assert (HW0 : W NC maxv (nfaces s0) s0) by (apply W_init; unfold NC; lia).
  assert (HF0 : FI (nfaces s0) s0) by apply FI_init.
  assert (HN0 : 3 * (nfaces s0 + Z.of_nat (length syms)) <= NC) by (unfold NC, s0; cbn [nfaces init_st]; lia).
  unfold bind in H at 1. destruct (sym_loop NC maxv rm _ syms 0 s0) as [s1| | |] eqn:E; try discriminate.
  2:{ exact (sym_loop_nofuel NC maxv rm _ syms 0 s0 HW0 HN0 E). }
  destruct (nv s1 >? maxv); [discriminate|].
  unfold bind in H at 1. destruct (start_loop NC maxv nf bits 0 (stack s1) s1) as [s2| | |] eqn:E1; try discriminate.
  2:{ exact (start_loop_nofuel NC maxv nf bits (stack s1) O s1 E1). }
  destruct (negb (nfaces s2 =? nf)) eqn:E2; [discriminate|].
  destruct (sym_loop_W NC maxv rm _ syms 0 s0 s1 HW0 HN0 E) as (HW1 & X1).
  pose proof (sym_loop_FI NC maxv rm _ syms 0 s0 s1 HW0 HF0 HN0 E) as HF1.
  destruct (start_loop_W NC maxv nf bits (stack s1) O s1 s2 eq_refl HW1 (w_stack _ _ _ _ HW1) E1) as (HW2 & Einv & Env & Hfl).
  pose proof (start_loop_FJ NC maxv nf bits (stack s1) O s1 s2 eq_refl HW1 (FI_FJ _ _ HF1) (w_stack _ _ _ _ HW1) E1) as HJ2.
  destruct (start_loop_tail NC maxv nf bits (stack s1) O s1 eq_refl HW1 (FI_NI _ _ HF1) (w_stack _ _ _ _ HW1)) as (_ & T2).
  destruct (T2 s2 E1) as (_ & Evc).
  assert (Enf : nfaces s2 = nf) by lia. rewrite Enf in *.
  pose proof (w_nv _ _ _ _ HW2) as Hnv2.
  destruct (compact_spec NC maxv False (rev (invalid s2)) (Z.to_nat (nv s2)) s2 nf HW2 HJ2) as (CF & _).
  - intros c Hc. pose proof (w_vr _ _ _ _ HW2 c Hc). lia.
  - destruct (f_iso _ _ HF1) as (A & _). pose proof (w_invalid _ _ _ _ HW1) as B.
    rewrite Einv, Evc, Env. apply Forall_rev. rewrite Forall_forall in *. intros v Hv. split; [apply B; exact Hv|apply A; exact Hv].
  - rewrite Einv. apply NoDup_rev. apply (f_iso _ _ HF1).
  - lia.
  - destruct (f_inv _ _ HF1) as [Q|Q]; [left; rewrite Einv, Q; reflexivity|right]. lia.
  - intros [].
  - unfold bind in H. destruct (compact NC maxv (rev (invalid s2)) (Z.to_nat (nv s2)) s2) eqn:E3; try discriminate. exact (CF eq_refl).
Qed.

Theorem eb_full_terminates : forall nev nf nsplit rm syms events bits,
  eb_full nev nf nsplit rm syms events bits <> Fuel.
Proof.
  intros. unfold eb_full.
  repeat match goal with |- context[if ?b then _ else _] => destruct b eqn:?; [discriminate|] end.
  apply eb_core_terminates; try lia. apply Z.mod_pos_bound. lia.
Qed.

(** through the header guards: no hypothesis on the declared counts *)
Theorem eb_full_accept : forall nev nf nsplit rm syms events bits n sf,
  eb_full nev nf nsplit rm syms events bits = Ok (n, sf) ->
  0 <= n <= nv sf /\
  (forall c, 0 <= c < 3 * nf -> 0 <= c2v sf c < n /\ vc sf (c2v sf c) <> -1) /\
  (forall c, 0 <= c < 3 * nf -> copp sf c = -1 \/
       (0 <= copp sf c < 3 * nf /\ copp sf (copp sf c) = c /\ copp sf c <> c /\ copp sf c / 3 <> c / 3)) /\
  (forall v, 0 <= v < nv sf -> vc sf v <> -1 -> 0 <= vc sf v < 3 * nf /\ c2v sf (vc sf v) = v) /\
  (rm = true -> forall v, 0 <= v < n -> vc sf v <> -1).
Proof.
  intros nev nf nsplit rm syms events bits n sf H. unfold eb_full in H.
  repeat match type of H with (if ?b then _ else _) = _ => destruct b eqn:?; [discriminate|] end.
  apply eb_core_accept in H; try lia; [|apply Z.mod_pos_bound; lia].
  destruct H as (A & _ & B & C & D & E). repeat split; try lia; try assumption; try apply B; try apply D; assumption.
Qed.

(** * The decoded mesh (no attribute connectivity data): every face refers to existing points *)
Lemma tab_Forall : forall (P : Z -> Prop) (g : Z -> Z) n start,
  (forall c, start <= c < start + Z.of_nat n -> P (g c)) ->
  Forall P ((fix tab (start : Z) (n : nat) : list Z := match n with O => [] | S m => g start :: tab (start + 1) m end) start n).
Proof.
  intros P g. induction n as [|n IH]; intros start H; [constructor|].
  constructor; [apply H; lia|]. apply IH. intros c Hc. apply H. lia.
Qed.

Theorem eb_decode_mesh_faces_valid : forall nev nf nsplit syms events bits np fl,
  eb_decode_mesh nev nf nsplit syms events bits = Ok (np, fl) ->
  Forall (fun i => 0 <= i < np) fl.
Proof.
  intros nev nf nsplit syms events bits np fl H. unfold eb_decode_mesh in H. mstep H. destruct a as (n, sf).
  apply Ok_inj in H. unfold assign_points_fast in H. cbn [fst snd] in H. apply pair_equal_spec in H. destruct H as (<- & <-).
  apply eb_full_accept in E. destruct E as (_ & B & _).
  apply tab_Forall. intros c Hc.
  apply B. lia.
Qed.

Theorem eb_decode_mesh_total : forall nev nf nsplit syms events bits,
  eb_decode_mesh nev nf nsplit syms events bits <> OOB /\ eb_decode_mesh nev nf nsplit syms events bits <> Fuel.
Proof.
  intros. unfold eb_decode_mesh, bind.
  pose proof (eb_full_no_oob nev nf nsplit true syms events bits). pose proof (eb_full_terminates nev nf nsplit true syms events bits).
  destruct (eb_full nev nf nsplit true syms events bits); split; congruence.
Qed.

(** * AssignPointsToCorners, deduplication path: every face index is a point, whatever the attribute corner tables are *)
Definition cpm_ok (st : (Z -> Z) * Z) : Prop := 0 <= snd st /\ forall c, 0 <= fst st c /\ (fst st c < snd st \/ fst st c = 0).

Section Dedup.
Variables NC maxv : Z.

Lemma cpm_write_new : forall st c st', cpm_ok st -> cpm_write NC st c (snd st) = Ok st' ->
  cpm_ok (fst st', snd st' + 1) /\ snd st' = snd st.
Proof.
  intros st c st' (A & B) H. unfold cpm_write in H. destruct (in_rng c NC); [|discriminate]. apply Ok_inj in H. subst st'.
  unfold cpm_ok. cbn [fst snd]. split; [|reflexivity]. split; [lia|]. intros x. unfold upd. destruct (x =? c); [lia|]. destruct (B x) as (B1 & [B2|B2]); lia.
Qed.
Lemma cpm_write_copy : forall st prev c v st', cpm_ok st -> cpm_read NC st prev = Ok v -> cpm_write NC st c v = Ok st' ->
  cpm_ok st' /\ snd st' = snd st.
Proof.
  intros st prev c v st' (A & B) R H. unfold cpm_read in R. destruct (in_rng prev NC); [|discriminate]. apply Ok_inj in R. subst v.
  unfold cpm_write in H. destruct (in_rng c NC); [|discriminate]. apply Ok_inj in H. subst st'.
  unfold cpm_ok. cbn [fst snd]. split; [|reflexivity]. split; [lia|]. intros x. unfold upd. destruct (x =? c); [apply B|apply B].
Qed.

Lemma dedup_walk_ok : forall fuel s atts st first prev c st', cpm_ok st ->
  dedup_walk NC fuel s atts st first prev c = Ok st' -> cpm_ok st' /\ snd st <= snd st'.
Proof.
  induction fuel as [|fuel IH]; intros s atts st first prev c st' HO H; cbn [dedup_walk] in H; [discriminate|].
  destruct ((c =? -1) || (c =? first)); [apply Ok_inj in H; subst; split; [exact HO|lia]|].
  mstep H. mstep H. apply IH in H.
  - destruct (att_seam atts c prev).
    + mstep E. apply Ok_inj in E. subst a. destruct (cpm_write_new _ _ _ HO E1) as (X & Y). cbn [snd] in H. destruct H as (H1 & H2). split; [exact H1|lia].
    + mstep E. destruct (cpm_write_copy _ _ _ _ _ HO E1 E) as (X & Y). destruct H as (H1 & H2). split; [exact H1|lia].
  - destruct (att_seam atts c prev).
    + mstep E. apply Ok_inj in E. subst a. apply (cpm_write_new _ _ _ HO E1).
    + mstep E. apply (cpm_write_copy _ _ _ _ _ HO E1 E).
Qed.

Lemma vert_loop_ok : forall n v s atts st st', cpm_ok st -> vert_loop NC maxv n v s atts st = Ok st' ->
  cpm_ok st' /\ snd st <= snd st' /\
  forall w, v <= w < v + Z.of_nat n -> vc s w <> -1 -> snd st < snd st'.
Proof.
  induction n as [|n IH]; intros v s atts st st' HO H; cbn [vert_loop] in H.
  - apply Ok_inj in H. subst. split; [exact HO|]. split; [lia|]. intros; lia.
  - mstep H. apply lmc_ok in E. destruct E as (Hv & ->). mstep H.
    + destruct (IH _ _ _ _ _ HO H) as (A & B & C). split; [exact A|]. split; [exact B|].
      intros w Hw Nw. destruct (Z.eq_dec w v) as [->|Ne]; [lia|]. apply (C w); [lia|exact Nw].
    + mstep H. mstep H. mstep H. mstep H. mstep H.
      destruct (cpm_write_new _ _ _ HO E2) as (X & Y).
      destruct (dedup_walk_ok _ _ _ _ _ _ _ _ X E4) as (X2 & Y2). cbn [snd] in Y2.
      destruct (IH _ _ _ _ _ X2 H) as (A & B & C). split; [exact A|]. split; [lia|]. intros; lia.
Qed.
End Dedup.

(** DecodeConnectivity() for a stream WITH attribute connectivity data (remove_invalid_vertices = false), the attribute corner
    tables being arbitrary *)
Definition eb_decode_mesh_att (nev nf nsplit : Z) (syms : list Z) (events : list (Z * Z * Z)) (bits : nat -> bool)
  (atts : list att) : res (Z * list Z) :=
  r <- eb_full nev nf nsplit false syms events bits ;;
  assign_points_seam (3 * nf) ((nev + nsplit) mod 4294967296) (snd r) atts.

Theorem eb_decode_mesh_att_faces_valid : forall nev nf nsplit syms events bits atts np fl,
  eb_decode_mesh_att nev nf nsplit syms events bits atts = Ok (np, fl) ->
  Forall (fun i => 0 <= i < np) fl.
Proof.
  intros nev nf nsplit syms events bits atts np fl H. unfold eb_decode_mesh_att in H. mstep H. destruct a as (n, sf). cbn [snd] in H.
  unfold assign_points_seam in H. mstep H. apply Ok_inj in H. apply pair_equal_spec in H. destruct H as (<- & <-).
  apply eb_full_accept in E. destruct E as (Hn & B & _).
  assert (HO : cpm_ok (fun _ : Z => 0, 0)) by (split; [cbn; lia|intros; cbn; lia]).
  destruct (vert_loop_ok _ _ _ _ _ _ _ _ HO E0) as (A1 & A2 & A3). cbn [snd] in A2, A3.
  destruct (Z_le_dec (3 * nf) 0) as [Z0|Z0].
  { replace (Z.to_nat (3 * nf)) with O by lia. constructor. }
  assert (Pos : 0 < snd a).
  { destruct (B 0 ltac:(lia)) as (B1 & B2). apply (A3 (c2v sf 0)); [lia|exact B2]. }
  destruct A1 as (_ & A1).
  assert (G : forall n0 start, Forall (fun i => 0 <= i < snd a) (tabulate (fst a) start n0)).
  { induction n0; intros start; cbn [tabulate]; constructor; [|apply IHn0]. destruct (A1 start) as (P1 & [P2|P2]); lia. }
  apply G.
Qed.
