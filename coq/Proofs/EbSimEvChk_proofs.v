(** EBSIM with topology split events: the script-level conditions of [EbSimEv_proofs.dec_roundtrip_events] as a DECIDABLE
    check of an encoder output against its table ([class_script]), sound ([class_script_sound]), and the round trip for every
    well-formed table whose encoding passes the check ([ebsim_roundtrip_checked]).

    What is NOT proved is the encoder half: that EVERY output of [eb_encode] passes the check (the lemma
    `eb_encode c2v opp nv niso ndeg = EOk o -> class_script c2v opp nf o = true`).  The Examples of Properties_EBSIM.v run
    the check on encodings with events (a torus, a disc with a hole). *)
From Coq Require Import ZArith List Bool Lia ZifyBool Arith PeanoNat Sorting.Sorted.
From Draco Require Import Model.CornerTable Model.EbEncoder Proofs.CornerTable_proofs Proofs.EbEncoder_proofs.
From Draco Require Model.Edgebreaker.
From Draco Require Import Proofs.EbSimDec_proofs Proofs.EbSimS_proofs Proofs.EbSimLoop_proofs Proofs.EbSimEv_proofs.
Import ListNotations.

(** the events of an output, grouped by their source symbol, in decoder indices and in the order the decoder reads them *)
Definition EVseg_of (o : enc_out) (k : nat) : list (nat * bool) :=
  let ns := length (o_syms o) in
  map (fun e => match e with (src, spl, ed) => (ns - 1 - Z.to_nat spl, Z.eqb ed 1) end)
      (filter (fun e => match e with (src, _, _) => Z.eqb src (Z.of_nat (ns - 1 - k)) end) (rev (o_events o))).

Definition ev_eqb (a b : Z * Z * Z) : bool :=
  match a, b with (a1, a2, a3), (b1, b2, b3) => (a1 =? b1)%Z && (a2 =? b2)%Z && (a3 =? b3)%Z end.
Fixpoint evs_eqb (l1 l2 : list (Z * Z * Z)) : bool :=
  match l1, l2 with [], [] => true | a :: r1, b :: r2 => ev_eqb a b && evs_eqb r1 r2 | _, _ => false end.
Lemma evs_eqb_eq l1 : forall l2, evs_eqb l1 l2 = true -> l1 = l2.
Proof.
  induction l1 as [|[[a1 a2] a3] r1 IH]; intros [|[[b1 b2] b3] r2] H; cbn in H; try discriminate; auto.
  apply andb_prop in H. destruct H as [H1 H2]. apply andb_prop in H1. destruct H1 as [H1 H3]. apply andb_prop in H1. destruct H1 as [H1 H4].
  f_equal; [|apply IH; auto]. f_equal; [f_equal|]; lia.
Qed.

Section Chk.
Variables (c2v : list nat) (opp : list (option nat)) (nf : nat) (Q : list nat) (Y : list Z) (ES : nat -> list (nat * bool)).
Let ns := length Y.
Let ecoQ (j r : nat) : nat := rot r (nth j Q 0).

Definition opp_eq_b (c x : nat) : bool := match opp_at opp c with Some y => y =? x | None => false end.
Lemma opp_eq_b_ok c x : opp_eq_b c x = true -> opp_at opp c = Some x.
Proof. unfold opp_eq_b. destruct (opp_at opp c); [|discriminate]. intros H. apply Nat.eqb_eq in H. congruence. Qed.

Definition notin_b (k f : nat) : bool := forallb (fun j' => negb (nth j' Q 0 / 3 =? f)) (seq 0 k).
Lemma notin_b_ok k f : notin_b k f = true -> forall j', j' < k -> nth j' Q 0 / 3 <> f.
Proof.
  unfold notin_b. intros H j' Hj'. rewrite forallb_forall in H. specialize (H j' ltac:(apply in_seq; lia)).
  apply negb_true_iff in H. apply Nat.eqb_neq in H. exact H.
Qed.

Definition ncr_b (k e : nat) : bool := match opp_at opp e with None => true | Some o => notin_b k (o / 3) end.
Lemma ncr_b_ok k e : ncr_b k e = true -> ncr opp Q k e.
Proof. unfold ncr_b, ncr. destruct (opp_at opp e); auto. apply notin_b_ok. Qed.

Definition created_b (k x : nat) : bool := existsb (fun j' => existsb (fun r' => x =? ecoQ j' r') [0; 1; 2]) (seq 0 k).
Lemma created_b_ok k x : created_b k x = true -> exists j' r', j' < k /\ r' < 3 /\ x = eco Q j' r'.
Proof.
  unfold created_b. intros H. apply existsb_exists in H. destruct H as (j' & Hj & H). apply existsb_exists in H. destruct H as (r' & Hr & H).
  apply Nat.eqb_eq in H. apply in_seq in Hj. exists j', r'. split; [lia|]. split; [cbn in Hr; lia|exact H].
Qed.

Definition is_some_b (o : option nat) : bool := match o with Some _ => true | None => false end.
Definition Cint_t_b (k t : nat) : bool :=
  forallb (fun x => implb (negb (is_degenerated c2v (x / 3)) && (vtx c2v x =? vtx c2v t))
                          (is_some_b (opp_at opp (next_c x)) && is_some_b (opp_at opp (prev_c x)) && ((x =? t) || created_b k x)))
          (seq 0 (3 * nf)).
Lemma Cint_t_b_ok k t : Cint_t_b k t = true -> Cint_t c2v opp nf Q k t.
Proof.
  unfold Cint_t_b, Cint_t. intros H x Hx Dx Vx. rewrite forallb_forall in H. specialize (H x ltac:(apply in_seq; lia)).
  rewrite Dx, Vx, Nat.eqb_refl in H. cbn [negb andb implb] in H.
  apply andb_prop in H. destruct H as [H H3]. apply andb_prop in H. destruct H as [H1 H2].
  split; [destruct (opp_at opp (next_c x)); [discriminate|discriminate H1]|].
  split; [destruct (opp_at opp (prev_c x)); [discriminate|discriminate H2]|].
  intros Nx. apply orb_prop in H3. destruct H3 as [H3|H3]; [apply Nat.eqb_eq in H3; congruence|]. apply created_b_ok. exact H3.
Qed.

Definition Sbreak_b (k : nat) : bool :=
  existsb (fun x => negb (is_degenerated c2v (x / 3)) && (vtx c2v x =? vtx c2v (ecoQ k 0)) && negb (x =? ecoQ k 0) &&
                    (notin_b k (x / 3) || negb (is_some_b (opp_at opp (next_c x))) || negb (is_some_b (opp_at opp (prev_c x)))))
          (seq 0 (3 * nf)).
Lemma Sbreak_b_ok k : Sbreak_b k = true -> Sbreak c2v opp nf Q k.
Proof.
  unfold Sbreak_b, Sbreak. intros H. apply existsb_exists in H. destruct H as (x & Hx & H). apply in_seq in Hx.
  apply andb_prop in H. destruct H as [H H4]. apply andb_prop in H. destruct H as [H H3]. apply andb_prop in H. destruct H as [H1 H2].
  exists x. split; [lia|]. split; [apply negb_true_iff in H1; exact H1|]. split; [apply Nat.eqb_eq in H2; exact H2|].
  split; [apply negb_true_iff in H3; apply Nat.eqb_neq in H3; exact H3|].
  apply orb_prop in H4. destruct H4 as [H4|H4]; [apply orb_prop in H4; destruct H4 as [H4|H4]|].
  - left. apply notin_b_ok. exact H4.
  - right. left. destruct (opp_at opp (next_c x)); [discriminate|reflexivity].
  - right. right. destruct (opp_at opp (prev_c x)); [discriminate|reflexivity].
Qed.

Definition is_nil_b {A} (l : list A) : bool := match l with [] => true | _ => false end.

Definition script_atE_b (k : nat) : bool :=
  forallb (fun e => fst e <? ns) (ES k) &&
  match nth_error Y k with
  | Some y =>
    if (y =? 7)%Z then ncr_b k (ecoQ k 0) && ncr_b k (ecoQ k 1) && ncr_b k (ecoQ k 2)
    else if (y =? 5)%Z then (1 <=? k) && opp_eq_b (ecoQ k 2) (ecoQ (k - 1) 0) && ncr_b k (ecoQ k 0) && ncr_b k (ecoQ k 1)
    else if (y =? 3)%Z then (1 <=? k) && opp_eq_b (ecoQ k 1) (ecoQ (k - 1) 0) && ncr_b k (ecoQ k 0) && ncr_b k (ecoQ k 2)
    else if (y =? 0)%Z then (1 <=? k) && opp_eq_b (ecoQ k 1) (ecoQ (k - 1) 0) && ncr_b k (ecoQ k 0) && Cint_t_b k (ecoQ k 0) && is_nil_b (ES k)
    else if (y =? 1)%Z then
      (1 <=? k) && opp_eq_b (ecoQ k 1) (ecoQ (k - 1) 0) && ncr_b k (ecoQ k 0) && is_nil_b (ES k) && Sbreak_b k &&
      (if hasev ES k
       then existsb (fun j => existsb (fun e => (fst e =? k) && opp_eq_b (ecoQ k 2) (ecoQ j (ra_of e)) &&
                       forallb (fun j' => forallb (fun e' => implb (fst e' =? k) ((j' =? j) && (ra_of e' =? ra_of e))) (ES j')) (seq 0 k))
                     (ES j)) (seq 0 k)
       else match topsE Y ES k with
            | t0 :: ja :: _ => (t0 =? k - 1) && opp_eq_b (ecoQ k 2) (ecoQ ja 0)
            | _ => false
            end)
    else false
  | None => false
  end.

Lemma script_atE_b_ok k : script_atE_b k = true -> script_atE c2v opp nf Q Y ES k.
Proof.
  unfold script_atE_b, script_atE. intros H. apply andb_prop in H. destruct H as [H0 H]. split.
  { intros e He. rewrite forallb_forall in H0. specialize (H0 e He). apply Nat.ltb_lt in H0. exact H0. }
  destruct (nth_error Y k) as [y|]; [|discriminate].
  destruct (y =? 7)%Z eqn:E7.
  { left. apply andb_prop in H. destruct H as [H H3]. apply andb_prop in H. destruct H as [H1 H2].
    split; [lia|]. split; [apply ncr_b_ok; exact H1|]. split; apply ncr_b_ok; assumption. }
  destruct (y =? 5)%Z eqn:E5.
  { right. left. apply andb_prop in H. destruct H as [H H4]. apply andb_prop in H. destruct H as [H H3]. apply andb_prop in H. destruct H as [H1 H2].
    split; [lia|]. split; [apply Nat.leb_le in H1; exact H1|]. split; [apply opp_eq_b_ok; exact H2|]. split; apply ncr_b_ok; assumption. }
  destruct (y =? 3)%Z eqn:E3.
  { right. right. left. apply andb_prop in H. destruct H as [H H4]. apply andb_prop in H. destruct H as [H H3]. apply andb_prop in H. destruct H as [H1 H2].
    split; [lia|]. split; [apply Nat.leb_le in H1; exact H1|]. split; [apply opp_eq_b_ok; exact H2|]. split; apply ncr_b_ok; assumption. }
  destruct (y =? 0)%Z eqn:E0.
  { right. right. right. left.
    apply andb_prop in H. destruct H as [H H5]. apply andb_prop in H. destruct H as [H H4]. apply andb_prop in H. destruct H as [H H3]. apply andb_prop in H. destruct H as [H1 H2].
    split; [lia|]. split; [apply Nat.leb_le in H1; exact H1|]. split; [apply opp_eq_b_ok; exact H2|]. split; [apply ncr_b_ok; exact H3|].
    split; [apply (Cint_t_b_ok k (ecoQ k 0)); exact H4|]. destruct (ES k); [reflexivity|discriminate]. }
  destruct (y =? 1)%Z eqn:E1; [|discriminate].
  right. right. right. right.
  apply andb_prop in H. destruct H as [H H6]. apply andb_prop in H. destruct H as [H H5]. apply andb_prop in H. destruct H as [H H4].
  apply andb_prop in H. destruct H as [H H3]. apply andb_prop in H. destruct H as [H1 H2].
  split; [lia|]. split; [apply Nat.leb_le in H1; exact H1|]. split; [apply opp_eq_b_ok; exact H2|]. split; [apply ncr_b_ok; exact H3|].
  split; [destruct (ES k); [reflexivity|discriminate]|]. split; [apply Sbreak_b_ok; exact H5|].
  destruct (hasev ES k) eqn:Eh.
  - right. apply existsb_exists in H6. destruct H6 as (j & Hj & H6). apply in_seq in Hj.
    apply existsb_exists in H6. destruct H6 as (e & He & H6).
    apply andb_prop in H6. destruct H6 as [H6 H9]. apply andb_prop in H6. destruct H6 as [H7 H8].
    exists j, e. split; [lia|]. split; [exact He|]. split; [apply Nat.eqb_eq in H7; exact H7|]. split; [apply opp_eq_b_ok; exact H8|].
    intros j' e' Hj' He' Ee'. rewrite forallb_forall in H9. specialize (H9 j' ltac:(apply in_seq; lia)).
    rewrite forallb_forall in H9. specialize (H9 e' He'). rewrite Ee', Nat.eqb_refl in H9. cbn [implb] in H9.
    apply andb_prop in H9. destruct H9 as [X1 X2]. apply Nat.eqb_eq in X1, X2. auto.
  - left. split; [reflexivity|]. destruct (topsE Y ES k) as [|t0 [|ja T]]; try discriminate.
    apply andb_prop in H6. destruct H6 as [X1 X2]. apply Nat.eqb_eq in X1. exists ja, T. split; [rewrite X1; reflexivity|apply opp_eq_b_ok; exact X2].
Qed.

Definition start_ok_b (TS : list nat) (B : list bool) : bool :=
  (length TS =? length B) && (ns + cnt_true B =? length Q) &&
  forallb (fun i => match nth_error TS i with
                    | Some j => implb (nth i B false)
                                  (let m := ns + cnt_true (firstn i B) in
                                   opp_eq_b (ecoQ m 0) (ecoQ j 0) && Cint_t_b m (ecoQ m 0) && Cint_t_b m (ecoQ m 1) && Cint_t_b m (ecoQ m 2))
                    | None => true
                    end) (seq 0 (length TS)).
Lemma start_ok_b_ok TS B : start_ok_b TS B = true -> start_ok_g c2v opp nf Q Y TS B.
Proof.
  unfold start_ok_b, start_ok_g. intros H. apply andb_prop in H. destruct H as [H H3]. apply andb_prop in H. destruct H as [H1 H2].
  apply Nat.eqb_eq in H1, H2. split; [exact H1|]. split; [exact H2|].
  intros i j Ei Bi. rewrite forallb_forall in H3.
  assert (Hi : i < length TS) by (apply nth_error_Some; congruence).
  specialize (H3 i ltac:(apply in_seq; lia)). rewrite Ei, Bi in H3. cbn [implb] in H3. cbv zeta in H3.
  apply andb_prop in H3. destruct H3 as [H3 X4]. apply andb_prop in H3. destruct H3 as [H3 X3]. apply andb_prop in H3. destruct H3 as [X1 X2].
  cbv zeta. split; [apply opp_eq_b_ok; exact X1|]. split; [apply Cint_t_b_ok; exact X2|]. split; apply Cint_t_b_ok; assumption.
Qed.
End Chk.

(** the check of an output against its table *)
Definition class_script (c2v : list nat) (opp : list (option nat)) (nf : nat) (o : enc_out) : bool :=
  let Q := o_pcc o in let Y := rev (o_syms o) in let ES := EVseg_of o in let ns := length Y in
  (Z.of_nat ns <? 2147483648)%Z &&
  evs_eqb (rev (REM Y ES 0)) (o_events o) &&
  forallb (script_atE_b c2v opp nf Q Y ES) (seq 0 ns) &&
  start_ok_b c2v opp nf Q Y (topsE Y ES ns) (o_bits o).

Theorem ebsim_roundtrip_checked c2v opp nf nv niso ndeg o rm maxv :
  length c2v = 3 * nf -> opp_ok c2v opp -> (forall c, c < 3 * nf -> vtx c2v c < nv) -> one_fan c2v opp ->
  eb_encode c2v opp nv niso ndeg = EOk o -> class_script c2v opp nf o = true -> (cntv (rev (o_syms o)) <= maxv)%Z ->
  let F := Z.of_nat (length (o_pcc o)) in
  exists n s, D.eb_core (3 * F) maxv F rm (rev (o_syms o)) (o_events o) (D.bits_of_list (o_bits o)) = D.Ok (n, s) /\
              eb_iso c2v opp (o_pcc o) (D.c2v s) (D.copp s).
Proof.
  intros Hlen OK Hv FAN E Cl Hm F.
  destruct (eb_encode_total c2v opp nf nv niso ndeg Hlen OK Hv FAN) as [T1 T2].
  destruct (Nat.eq_dec nf ndeg) as [Eq|Ne]; [rewrite (T1 Eq) in E; discriminate|].
  destruct (T2 Ne) as (o' & E' & OO & _). rewrite E in E'. inversion E'; subst o'. clear E' T1 T2.
  destruct OO as (ND & Rng & Comp & _ & L & _).
  unfold class_script in Cl. cbv zeta in Cl.
  apply andb_prop in Cl. destruct Cl as [Cl C4]. apply andb_prop in Cl. destruct Cl as [Cl C3]. apply andb_prop in Cl. destruct Cl as [C1 C2].
  apply evs_eqb_eq in C2. rewrite <- C2.
  set (Q := o_pcc o) in *. set (Y := rev (o_syms o)) in *.
  assert (LY : length Y = length (o_syms o)) by (unfold Y; apply rev_length).
  assert (Rq : forall j, j < length Q -> nth j Q 0 < 3 * nf /\ is_degenerated c2v (nth j Q 0 / 3) = false).
  { intros j Hj. rewrite Forall_forall in Rng. apply Rng. apply nth_In. auto. }
  apply (dec_roundtrip_events c2v opp nf Hlen OK Q Rq ND (3 * F)%Z maxv rm Y eq_refl ltac:(lia) Hm FAN (EVseg_of o) ltac:(lia)); auto.
  - intros j Hj. apply script_atE_b_ok. rewrite forallb_forall in C3. apply C3. apply in_seq. lia.
  - exact (start_ok_b_ok c2v opp nf Q Y (EVseg_of o) _ _ C4).
Qed.

(** against DecodeConnectivity for the tables of CornerTable::Create (premises as for the other `_ct` statements; the events
    fit: at most one per face) *)
Theorem ebsim_roundtrip_checked_ct faces t o rm : ct_create faces = Some t -> eb_encode_ct t = EOk o ->
  class_script (ct_c2v t) (ct_opp t) (length faces) o = true ->
  (Z.of_nat (3 * length faces + length (ct_vcorn t)) < 2147483648)%Z ->
  ((3 * o_nfaces o) / 2 <= (o_nverts o * (o_nverts o - 1)) / 2)%Z ->
  (Z.of_nat (length (o_events o)) <= o_nfaces o)%Z ->
  (cntv (rev (o_syms o)) <= o_nverts o + o_nsplit o)%Z ->
  exists n s, eb_decode_of o rm = D.Ok (n, s) /\ eb_iso (ct_c2v t) (ct_opp t) (o_pcc o) (D.c2v s) (D.copp s).
Proof.
  intros H E Cl Sz G3 Hev VF.
  destruct (ct_create_wf _ _ H) as (L & OK & Hv & FAN & _).
  destruct (eb_encode_ct_counts faces t o H E) as (_ & _ & _ & _ & _ & Nf & _).
  destruct (eb_encode_ct_guards faces t o rm H E Sz G3 Hev) as (Eq & _).
  rewrite Eq. rewrite <- Nf.
  apply (ebsim_roundtrip_checked (ct_c2v t) (ct_opp t) (length faces) (length (ct_vcorn t)) (ct_niso t) (ct_ndeg t) o rm); auto.
Qed.

(** ** the events of every encoding are grouped by their source symbol: [rev (REM 0) = o_events o] (bookkeeping, from the
    sortedness and the ranges in [out_ok]) *)
Definition ekey (e : Z * Z * Z) : Z := fst (fst e).

Lemma filter_none_all {A} (p : A -> bool) l : (forall e, In e l -> p e = false) -> filter p l = [].
Proof. induction l as [|a l IH]; intros H; [reflexivity|]. cbn [filter]. rewrite (H a (or_introl eq_refl)). apply IH. intros e He. apply H. right. auto. Qed.

Lemma filter_key_split (n : Z) : forall L, StronglySorted (fun e e' => (ekey e' <= ekey e)%Z) L -> (forall e, In e L -> (ekey e <= n)%Z) ->
  L = filter (fun e => (ekey e =? n)%Z) L ++ filter (fun e => (ekey e <? n)%Z) L.
Proof.
  induction L as [|a L IH]; intros S B; [reflexivity|]. inversion S as [|? ? S' F]; subst. cbn [filter].
  pose proof (B a (or_introl eq_refl)) as Ba.
  destruct (ekey a =? n)%Z eqn:E1.
  - replace (ekey a <? n)%Z with false by lia. cbn [app]. f_equal. apply IH; auto. intros e He. apply B. right. auto.
  - replace (ekey a <? n)%Z with true by lia.
    assert (N : filter (fun e => (ekey e =? n)%Z) L = []).
    { apply filter_none_all. intros e He. rewrite Forall_forall in F. specialize (F e He). lia. }
    rewrite N. cbn [app]. f_equal. rewrite IH at 1 by (auto; intros e He; apply B; right; auto). rewrite N. reflexivity.
Qed.

Lemma concat_by_key : forall (n : nat) L, StronglySorted (fun e e' => (ekey e' <= ekey e)%Z) L ->
  (forall e, In e L -> (0 <= ekey e < Z.of_nat n)%Z) ->
  concat (map (fun k => filter (fun e => (ekey e =? Z.of_nat (n - 1 - k))%Z) L) (seq 0 n)) = L.
Proof.
  induction n as [|n IH]; intros L SS B.
  - destruct L as [|a L]; [reflexivity|]. specialize (B a (or_introl eq_refl)). lia.
  - cbn [seq map concat]. rewrite <- seq_shift, map_map.
    replace (S n - 1 - 0) with n by lia.
    transitivity (filter (fun e => (ekey e =? Z.of_nat n)%Z) L ++ filter (fun e => (ekey e <? Z.of_nat n)%Z) L);
      [|symmetry; apply (filter_key_split (Z.of_nat n) L SS); intros e He; specialize (B e He); lia]. f_equal.
    set (L' := filter (fun e => (ekey e <? Z.of_nat n)%Z) L).
    assert (S' : StronglySorted (fun e e' => (ekey e' <= ekey e)%Z) L').
    { unfold L'. clear -SS. induction SS as [|a L SS IHS F]; cbn [filter]; [constructor|]. destruct (ekey a <? Z.of_nat n)%Z; auto.
      constructor; auto. rewrite Forall_forall in *. intros e He. apply filter_In in He. apply F. apply He. }
    rewrite <- (IH L' S') at 1.
    + f_equal. apply map_ext_in. intros k Hk. apply in_seq in Hk. replace (S n - 1 - S k) with (n - 1 - k) by lia.
      unfold L'. clear - Hk. induction L as [|a L IHL]; [reflexivity|]. cbn [filter].
      destruct (ekey a <? Z.of_nat n)%Z eqn:E1; cbn [filter]; destruct (ekey a =? Z.of_nat (n - 1 - k))%Z eqn:E2; try (f_equal; exact IHL); try exact IHL.
      lia.
    + intros e He. unfold L' in He. apply filter_In in He. destruct He as [He1 He2]. specialize (B e He1). lia.
Qed.

Theorem events_bookkeeping c2v opp nf nv niso ndeg o :
  length c2v = 3 * nf -> opp_ok c2v opp -> (forall c, c < 3 * nf -> vtx c2v c < nv) -> one_fan c2v opp ->
  eb_encode c2v opp nv niso ndeg = EOk o -> rev (REM (rev (o_syms o)) (EVseg_of o) 0) = o_events o.
Proof.
  intros Hlen OK Hv FAN E.
  destruct (eb_encode_total c2v opp nf nv niso ndeg Hlen OK Hv FAN) as [T1 T2].
  destruct (Nat.eq_dec nf ndeg) as [Eq|Ne]; [rewrite (T1 Eq) in E; discriminate|].
  destruct (T2 Ne) as (o' & E' & OO & _). rewrite E in E'. inversion E'; subst o'. clear E' T1 T2.
  destruct OO as (_ & _ & _ & Nsy & _ & _ & _ & _ & Rng & Srt).
  set (ns := length (o_syms o)) in *.
  assert (LY : length (rev (o_syms o)) = ns) by apply rev_length.
  rewrite <- (rev_involutive (o_events o)). f_equal.
  set (L := rev (o_events o)).
  assert (SL : StronglySorted (fun e e' => (ekey e' <= ekey e)%Z) L).
  { unfold L. clear -Srt. induction Srt as [|a l S IH F]; cbn [rev]; [constructor|].
    assert (G : forall l1 x, StronglySorted (fun e e' => (ekey e' <= ekey e)%Z) l1 -> Forall (fun e => (ekey x <= ekey e)%Z) l1 ->
              StronglySorted (fun e e' => (ekey e' <= ekey e)%Z) (l1 ++ [x])).
    { clear. induction l1 as [|b l1 IHl]; intros x S F; cbn [app]; [constructor; constructor|].
      inversion S; subst. inversion F; subst. constructor; [apply IHl; auto|]. apply Forall_app. split; auto. }
    apply G; auto. apply Forall_forall. intros e He. apply in_rev in He. rewrite Forall_forall in F. apply (F e He). }
  assert (BL : forall e, In e L -> (0 <= ekey e < Z.of_nat ns)%Z /\ (0 <= snd (fst e) < ekey e)%Z /\ (snd e = 0 \/ snd e = 1)%Z).
  { intros [[src spl] ed] He. apply in_rev in He. rewrite Forall_forall in Rng. specialize (Rng _ He). cbn in Rng. unfold ekey. cbn [fst snd]. lia. }
  unfold REM. rewrite LY, Nat.sub_0_r.
  etransitivity; [|apply (concat_by_key ns L SL); intros e He; apply (BL e He)].
  f_equal. apply map_ext_in. intros k Hk. apply in_seq in Hk. unfold rawseg, EVseg_of. rewrite LY. fold ns. fold L.
  rewrite map_map.
  assert (X : forall l, (forall e, In e l -> In e L) ->
    map (fun x => raw_ev ns k (let '(_, spl, ed) := x in (ns - 1 - Z.to_nat spl, (ed =? 1)%Z)))
        (filter (fun e => let '(src, _, _) := e in (src =? Z.of_nat (ns - 1 - k))%Z) l) =
    filter (fun e => (ekey e =? Z.of_nat (ns - 1 - k))%Z) l).
  { induction l as [|[[src spl] ed] l IHl]; intros Hin; [reflexivity|]. cbn [filter]. unfold ekey at 1. cbn [fst].
    destruct (src =? Z.of_nat (ns - 1 - k))%Z eqn:E1; [|apply IHl; intros e He; apply Hin; right; auto].
    cbn [map]. f_equal; [|apply IHl; intros e He; apply Hin; right; auto].
    destruct (BL _ (Hin _ (or_introl eq_refl))) as (B1 & B2 & B3). unfold ekey in B1, B2. cbn [fst snd] in B1, B2, B3.
    unfold raw_ev. cbn [fst snd]. f_equal; [f_equal; lia|]. destruct B3 as [->| ->]; reflexivity. }
  apply X. auto.
Qed.
