From Coq Require Import ZifyBool.
From Draco Require Import Base.Codec Base.Bits Model.Varint Model.BitCoders Proofs.Varint_proofs Proofs.BitCoders_proofs.
Local Open Scope Z_scope.

(** * DirectBitEncoder / Decoder *)
Lemma val_msb_bound l : 0 <= val_msb l < 2 ^ Z.of_nat (length l).
Proof.
  induction l as [|b l IH] using rev_ind.
  - cbn. lia.
  - rewrite val_msb_app, app_length. cbn [length].
    replace (Z.of_nat (length l + 1)) with (Z.succ (Z.of_nat (length l))) by lia.
    rewrite Z.pow_succ_r by lia.
    change (2 ^ Z.of_nat 1) with 2.
    assert (Hb: val_msb [b] = if b then 1 else 0) by (unfold val_msb; cbn; destruct b; reflexivity).
    rewrite Hb. destruct b; lia.
Qed.

Lemma testbit_eq a b k : 0 <= k -> (a / 2 ^ k) mod 2 = (b / 2 ^ k) mod 2 -> Z.testbit a k = Z.testbit b k.
Proof.
  intros Hk H. pose proof (Z.testbit_spec' a k Hk) as Ha. pose proof (Z.testbit_spec' b k Hk) as Hb.
  destruct (Z.testbit a k), (Z.testbit b k); cbn [Z.b2z] in *; try reflexivity; lia.
Qed.

Lemma bits_msb_low k v c : 0 <= v -> 0 <= c -> bits_msb k (c * 2 ^ Z.of_nat k + v) = bits_msb k v.
Proof.
  intros Hv. revert c. induction k as [|k IH]; intros c Hc; cbn [bits_msb]; [reflexivity|].
  rewrite Nat2Z.inj_succ, Z.pow_succ_r by lia.
  replace (c * (2 * 2 ^ Z.of_nat k) + v) with ((c * 2) * 2 ^ Z.of_nat k + v) by ring.
  f_equal.
  - apply testbit_eq; [lia|].
    rewrite Z.div_add_l by (apply Z.pow_nonzero; lia).
    rewrite Z.add_comm, Z.mod_add by lia. reflexivity.
  - apply IH. lia.
Qed.

Lemma bits_msb_val_msb l : bits_msb (length l) (val_msb l) = l.
Proof.
  induction l as [|b l IH]; [reflexivity|].
  assert (Hcons: val_msb (b :: l) = (if b then 1 else 0) * 2 ^ Z.of_nat (length l) + val_msb l).
  { change (b :: l) with ([b] ++ l). rewrite val_msb_app.
    assert (Hv: val_msb [b] = if b then 1 else 0) by (unfold val_msb; cbn; destruct b; reflexivity).
    rewrite Hv. reflexivity. }
  pose proof (val_msb_bound l) as Hb.
  assert (H2: 0 < 2 ^ Z.of_nat (length l)) by (apply Z.pow_pos_nonneg; lia).
  cbn [length bits_msb]. rewrite Hcons. f_equal.
  - destruct b.
    + apply Z.testbit_true; [lia|]. rewrite Z.div_add_l by lia. rewrite Z.div_small by lia. reflexivity.
    + apply Z.testbit_false; [lia|]. rewrite Z.mul_0_l, Z.add_0_l, Z.div_small by lia. reflexivity.
  - rewrite bits_msb_low by (destruct b; lia). exact IH.
Qed.

Lemma pad_to_length n l : length (pad_to n l) = n.
Proof. revert l; induction n as [|n IH]; intros l; cbn [pad_to length]; [reflexivity|]. destruct l; cbn [length]; rewrite IH; reflexivity. Qed.

Lemma pad_to_ge n : forall l, (n <= length l)%nat -> pad_to n l = firstn n l.
Proof.
  induction n as [|n IH]; intros l H; cbn [pad_to firstn]; [reflexivity|].
  destruct l as [|b r]; [cbn in H; lia|]. f_equal. apply IH. cbn in H. lia.
Qed.

Lemma bits_msb_pad bits : bits_msb 32 (val_msb (pad_to 32 bits)) = pad_to 32 bits.
Proof. pose proof (bits_msb_val_msb (pad_to 32 bits)) as H. rewrite pad_to_length in H. exact H. Qed.

(** the bits of all words: the input followed by zero padding *)
Lemma direct_words_bits nw : forall bits, (length bits < 32 * nw + 1)%nat ->
  exists pad, concat (map (bits_msb 32) (direct_words nw bits)) = bits ++ pad.
Proof.
  induction nw as [|nw IH]; intros bits Hl.
  - destruct bits; [|cbn in Hl; lia]. exists []. reflexivity.
  - cbn [direct_words map concat].
    rewrite bits_msb_pad.
    destruct (IH (skipn 32 bits)) as (pad & Hp). { rewrite skipn_length. lia. }
    rewrite Hp.
    destruct (Nat.le_gt_cases 32 (length bits)) as [Hge|Hlt].
    + exists pad. rewrite pad_to_ge by lia. rewrite app_assoc, firstn_skipn. reflexivity.
    + rewrite skipn_all2 by lia. cbn [app].
      assert (Hq: forall n l, (length l <= n)%nat -> exists z, pad_to n l = l ++ z).
      { clear. induction n as [|n IHn]; intros l Hl.
        - destruct l; [|cbn in Hl; lia]. exists []. reflexivity.
        - destruct l as [|b r]; cbn [pad_to].
          + exists (false :: pad_to n []). reflexivity.
          + destruct (IHn r) as (z & Hz); [cbn in Hl; lia|]. exists z. rewrite Hz. reflexivity. }
      destruct (Hq 32%nat bits ltac:(lia)) as (z & Hz). rewrite Hz.
      destruct (IH []) as (pad0 & Hp0); [cbn; lia|].
      assert (Hs: skipn 32 bits = []) by (apply skipn_all2; lia).
      rewrite Hs in Hp. exists (z ++ pad). rewrite <- app_assoc. reflexivity.
Qed.

Lemma direct_words_range nw : forall bits, Forall (fun w => 0 <= w < 256 ^ Z.of_nat 4) (direct_words nw bits).
Proof.
  induction nw as [|nw IH]; intros bits; cbn [direct_words]; constructor; [|apply IH].
  pose proof (val_msb_bound (pad_to 32 bits)) as H. rewrite pad_to_length in H. exact H.
Qed.
Lemma direct_words_length nw bits : length (direct_words nw bits) = nw.
Proof. revert bits; induction nw as [|nw IH]; intros bits; cbn [direct_words length]; [reflexivity|]. rewrite IH. reflexivity. Qed.

Lemma dec_words_roundtrip ws : forall rest, Forall (fun w => 0 <= w < 256 ^ Z.of_nat 4) ws ->
  dec_words (length ws) (concat (map (enc_le 4) ws) ++ rest) = Some (ws, rest).
Proof.
  induction ws as [|w ws IH]; intros rest H; [reflexivity|].
  inversion H as [|? ? Hw H']; subst. cbn [length dec_words map concat].
  rewrite <- app_assoc.
  rewrite (le_roundtrips 4 w (enc_le 4 w) (concat (map (enc_le 4) ws) ++ rest) Hw eq_refl).
  rewrite (IH rest H'). reflexivity.
Qed.

Lemma concat_enc_le_length ws : length (concat (map (enc_le 4) ws)) = (4 * length ws)%nat.
Proof. induction ws as [|w ws IH]; [reflexivity|]. cbn [map concat length]. rewrite app_length, IH. cbn [enc_le length]. lia. Qed.

Lemma direct_read_prefix bits : forall pad,
  fst (read_n direct_next (length bits) {| ds_bits := bits ++ pad |}) = bits.
Proof.
  induction bits as [|b r IH]; intros pad; [reflexivity|].
  cbn [length read_n app]. unfold direct_next at 1. cbn [ds_bits].
  specialize (IH pad). destruct (read_n direct_next (length r) {| ds_bits := r ++ pad |}) as [x s].
  cbn [fst] in *. congruence.
Qed.

Theorem direct_roundtrip bits bs rest :
  4 * (Z.of_nat (length bits) / 32 + 1) < 2 ^ 32 ->
  direct_encode bits = Some bs ->
  exists st, direct_start (bs ++ rest) = Some (st, rest) /\
             fst (read_n direct_next (length bits) st) = bits.
Proof.
  intros Hsz Henc. unfold direct_encode in Henc.
  set (nw := (length bits / 32 + 1)%nat) in *.
  replace bs with (enc_le 4 (4 * Z.of_nat nw) ++ concat (map (enc_le 4) (direct_words nw bits))) by congruence.
  assert (Hnw: Z.of_nat nw = Z.of_nat (length bits) / 32 + 1).
  { unfold nw. rewrite Nat2Z.inj_add, Nat2Z.inj_div. reflexivity. }
  unfold direct_start. rewrite <- app_assoc.
  rewrite (le_roundtrips 4 (4 * Z.of_nat nw) _ (concat (map (enc_le 4) (direct_words nw bits)) ++ rest)); [| |reflexivity].
  2:{ change (256 ^ Z.of_nat 4) with (2 ^ 32). lia. }
  replace ((4 * Z.of_nat nw =? 0) || negb (Z.land (4 * Z.of_nat nw) 3 =? 0)) with false.
  2:{ symmetry. apply orb_false_iff. split; [lia|]. apply negb_false_iff. apply Z.eqb_eq.
      change 3 with (2 ^ 2 - 1). rewrite land_ones_mod by lia. change (2 ^ 2) with 4.
      rewrite Z.mul_comm. apply Z.mod_mul. lia. }
  replace (4 * Z.of_nat nw >? Z.of_nat (length (concat (map (enc_le 4) (direct_words nw bits)) ++ rest))) with false.
  2:{ rewrite app_length, concat_enc_le_length, direct_words_length. lia. }
  replace (4 * Z.of_nat nw / 4) with (Z.of_nat nw) by (rewrite Z.mul_comm, Z.div_mul; lia).
  rewrite Nat2Z.id.
  pose proof (dec_words_roundtrip (direct_words nw bits) rest (direct_words_range nw bits)) as Hdw.
  rewrite direct_words_length in Hdw. rewrite Hdw.
  eexists; split; [reflexivity|].
  destruct (direct_words_bits nw bits) as (pad & Hp).
  { unfold nw. pose proof (Nat.div_mod (length bits) 32 ltac:(lia)). pose proof (Nat.mod_upper_bound (length bits) 32 ltac:(lia)). lia. }
  rewrite Hp. apply direct_read_prefix.
Qed.

(** DecodeLeastSignificantBits32 on the direct decoder = n single-bit reads, when n bits are available;
    otherwise it reports failure and reads nothing. *)
Lemma direct_lsb_spec n st : (n <= length (ds_bits st))%nat ->
  direct_lsb n st = Some (val_msb (fst (read_n direct_next n st)), snd (read_n direct_next n st)).
Proof.
  intros Hn. unfold direct_lsb. replace (length (ds_bits st) <? n)%nat with false by (symmetry; apply Nat.ltb_ge; lia).
  destruct st as [l]. cbn [ds_bits] in *.
  assert (H: read_n direct_next n {| ds_bits := l |} = (firstn n l, {| ds_bits := skipn n l |})).
  { revert l Hn. induction n as [|n IH]; intros l Hn; cbn [read_n firstn skipn]; [reflexivity|].
    destruct l as [|b r]; [cbn in Hn; lia|]. unfold direct_next at 1. cbn [ds_bits].
    rewrite IH by (cbn in Hn; lia). reflexivity. }
  rewrite H. reflexivity.
Qed.
