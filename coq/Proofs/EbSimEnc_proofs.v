(** EBSIM, encoder side: the HISTORY invariant of the Edgebreaker connectivity encoder (Model/EbEncoder.v).

    processed_connectivity_corners_ ([pcc s], newest first) and the emitted symbols ([syms s], newest first) are the
    encoder's own record of its run, in DECODER order.  [hist ifs nxt P Y] states, for every processed corner c with its
    symbol y, what the encoder saw when it processed c ([fact]):
      - c is a corner of a non-degenerated face, the face across its gate edge (opposite c) was visited (or is a boundary);
      - E: both the right and the left face were visited / boundary;
      - R: the right face was visited / boundary and the NEXT processed corner is the left corner Opposite(Previous(c));
      - L: symmetric;   C: the next processed corner is the right corner, the tip vertex is interior and no other
        visited face contains it;   S: nothing (outside the classes proved so far).
    "visited" = the face of an older entry of P or an interior start face ([ifs]) - exactly visited_faces_ at that moment
    ([Base.b_in]).  The invariant is proved along [inner] / [outer] / [from_corner] / [ec_corner] / [eb_encode] for every
    well-formed table ([encode_hist]); [hist_nth] gives the index form used by the decoder-side script. *)
From Coq Require Import ZArith List Bool Lia Arith PeanoNat.
From Draco Require Import Model.CornerTable Model.EbEncoder Proofs.CornerTable_proofs Proofs.EbEncoder_proofs Proofs.EbTrace_proofs.
Import ListNotations.

(** ** index form of the history facts (decoder order): [Q] = processed_connectivity_corners_ as EncodeConnectivity leaves it,
    entry [k] has symbol [y]; "visited then" = "not among the entries before k" *)
Definition nvis (Q : list nat) (k : nat) (o : option nat) : Prop :=
  forall x, o = Some x -> forall j', j' < k -> nth j' Q 0 / 3 <> x / 3.

Definition efact (c2v : list nat) (opp : list (option nat)) (nf : nat) (Q : list nat) (k : nat) (c : nat) (y : Z) : Prop :=
  c < 3 * nf /\ is_degenerated c2v (c / 3) = false /\ nvis Q k (opp_at opp c) /\
  let rc := opp_at opp (next_c c) in let lc := opp_at opp (prev_c c) in
  ((y = 7%Z /\ nvis Q k rc /\ nvis Q k lc) \/
   (y = 5%Z /\ 1 <= k /\ lc = Some (nth (k - 1) Q 0) /\ nvis Q k rc) \/
   (y = 3%Z /\ 1 <= k /\ rc = Some (nth (k - 1) Q 0) /\ nvis Q k lc) \/
   (y = 0%Z /\ 1 <= k /\ rc = Some (nth (k - 1) Q 0) /\
      (forall x, x < 3 * nf -> is_degenerated c2v (x / 3) = false -> vtx c2v x = vtx c2v c ->
         opp_at opp (next_c x) <> None /\ opp_at opp (prev_c x) <> None /\
         forall j', k < j' < length Q -> nth j' Q 0 / 3 <> x / 3)) \/
   (y = 1%Z /\ exists x, x < 3 * nf /\ is_degenerated c2v (x / 3) = false /\ vtx c2v x = vtx c2v c /\ x <> c /\
      ((forall j', j' < k -> nth j' Q 0 / 3 <> x / 3) \/ opp_at opp (next_c x) = None \/ opp_at opp (prev_c x) = None))).

(** an interior start face (index form, without the hole ids): every corner has a neighbour, no vertex lies on a boundary *)
Definition IFc' (c2v : list nat) (opp : list (option nat)) (nf : nat) (ic : nat) : Prop :=
  ic < 3 * nf /\ forall t, t < 3 * nf -> t / 3 = ic / 3 -> opp_at opp t <> None /\
    forall x, x < 3 * nf -> is_degenerated c2v (x / 3) = false -> vtx c2v x = vtx c2v t ->
      opp_at opp (next_c x) <> None /\ opp_at opp (prev_c x) <> None.

Lemma skipn_S_tl {A} (l : list A) : forall k, skipn (S k) l = tl (skipn k l).
Proof. induction l as [|a l IH]; intros [|k]; cbn [skipn tl]; auto. rewrite <- IH. reflexivity. Qed.

Lemma nodup_app_disj {A} (l1 l2 : list A) a : NoDup (l1 ++ l2) -> In a l1 -> In a l2 -> False.
Proof.
  induction l1 as [|b l1 IH]; cbn; intros N H1 H2; [tauto|]. inversion N; subst. destruct H1 as [->|H1].
  - apply H3. apply in_or_app. auto.
  - apply IH; auto.
Qed.

Ltac hstep H :=
  match type of H with
  | ebind ?e _ = EOk _ => let E := fresh "E" in destruct e eqn:E; cbn [ebind] in H; try discriminate
  | (if ?b then _ else _) = EOk _ => destruct b
  | match ?l with [] => _ | _ :: _ => _ end = EOk _ => let E := fresh "Est" in destruct l eqn:E; try discriminate
  end.

Lemma mark_all (b : bool) sa v s1 :
  (if b then EOk sa else vvl <-- eset (vv sa) v true ;; EOk (with_vv sa vvl)) = EOk s1 ->
  pcc s1 = pcc sa /\ syms s1 = syms sa /\ stack s1 = stack sa.
Proof.
  destruct b; intros X. inversion X; subst; auto.
  destruct (eset (vv sa) v true); cbn [ebind] in X; try discriminate. inversion X; subst; auto.
Qed.
Lemma check_split_stack s e o : stack (check_split s e o) = stack s.
Proof. unfold check_split. destruct o; auto. destruct (split_symbol_on_face _ _); auto. Qed.
Lemma encode_hole_stack c2v opp hid s c first s' : encode_hole c2v opp hid s c first = EOk s' -> stack s' = stack s.
Proof.
  unfold encode_hole. intros H.
  repeat match type of H with
  | ebind ?e _ = EOk _ => destruct e; cbn [ebind] in H; try discriminate
  | match ?h with Some _ => _ | None => _ end = EOk _ => destruct h; try discriminate
  end.
  inversion H; subst. auto.
Qed.

(** the shape of what one run of [inner] appends to the history (no invariant needed) *)
Definition blk_shape (s s' : est) (Yn : list Z) : Prop :=
  match Yn with
  | [] => s' = s
  | y0 :: Yr => ~ In 7%Z Yr /\ ~ In 1%Z Yr /\ (y0 = 7%Z -> stack s' = tl (stack s)) /\
                (y0 = 1%Z \/ y0 = 7%Z \/ y0 = 0%Z \/ y0 = 3%Z \/ y0 = 5%Z)
  end.

Lemma inner_shape c2v opp hid : forall k s c s', inner c2v opp hid k s (Some c) = EOk s' ->
  exists Pn Yn, pcc s' = Pn ++ pcc s /\ syms s' = Yn ++ syms s /\ length Pn = length Yn /\
    (Pn <> [] -> last Pn 0 = c) /\ blk_shape s s' Yn /\ (k <> 0 -> Yn <> []).
Proof.
  induction k as [|k IH]; intros s c s' H; cbn [inner] in H.
  - inversion H; subst. exists [], []. repeat split; auto; congruence.
  - cbv zeta in H.
    assert (Step : forall s3 o y0, inner c2v opp hid k s3 o = EOk s' -> pcc s3 = c :: pcc s -> syms s3 = y0 :: syms s ->
              stack s3 = stack s -> (y0 = 0 \/ y0 = 3 \/ y0 = 5)%Z ->
              exists Pn Yn, pcc s' = Pn ++ pcc s /\ syms s' = Yn ++ syms s /\ length Pn = length Yn /\
                (Pn <> [] -> last Pn 0 = c) /\ blk_shape s s' Yn /\ (S k <> 0 -> Yn <> [])).
    { intros s3 o y0 E3 P3 Y3 St3 Hy.
      assert (E3' : exists Pn Yn, pcc s' = Pn ++ pcc s3 /\ syms s' = Yn ++ syms s3 /\ length Pn = length Yn /\
                (Pn <> [] -> last Pn 0 = match o with Some nx => nx | None => 0 end) /\ blk_shape s3 s' Yn).
      { destruct o as [nx|]; [destruct (IH _ _ _ E3) as (Pn & Yn & B1 & B2 & B3 & B4 & B5 & _); exists Pn, Yn; auto|]. destruct k; cbn in E3; [|discriminate]. inversion E3; subst.
        exists [], []. repeat split; auto. }
      clear E3. destruct E3' as (Pn & Yn & A1 & A2 & A3 & A4 & A5).
      exists (Pn ++ [c]), (Yn ++ [y0]). rewrite A1, A2, P3, Y3, <- !app_assoc. cbn [app]. split; auto. split; auto.
      split; [rewrite !app_length; cbn; lia|]. split; [intros _; apply last_last|].
      split; [|intros _; destruct Yn; discriminate].
      destruct Yn as [|y1 Yr]; cbn [app blk_shape] in *.
      - subst s'. split; [tauto|]. split; [tauto|]. split; [intros ->; destruct Hy as [X|[X|X]]; discriminate|]. tauto.
      - destruct A5 as (B1 & B2 & B3 & B4). split; [|split; [|split; auto]].
        + intro X. apply in_app_or in X. destruct X as [X|[X|[]]]; auto. subst y0. destruct Hy as [X|[X|X]]; discriminate.
        + intro X. apply in_app_or in X. destruct X as [X|[X|[]]]; auto. subst y0. destruct Hy as [X|[X|X]]; discriminate.
        + intros X. rewrite (B3 X), St3. auto. }
    hstep H. hstep H. hstep H. hstep H. hstep H.
    match goal with X : (if _ then EOk _ else _) = EOk _ |- _ => apply mark_all in X; cbn in X; destruct X as (P1 & Y1 & St1) end.
    hstep H.
    + hstep H. apply (Step _ _ 0%Z H); unfold TOPOLOGY_C; cbn; auto; try congruence.
    + hstep H. hstep H. hstep H. hstep H.
      * hstep H. hstep H.
        -- hstep H. inversion H; subst. exists [c], [7%Z]. cbn [app emit with_syms with_stack pcc syms stack length last blk_shape].
           rewrite !(proj1 (check_split_hist _ _ _)), !(proj2 (check_split_hist _ _ _)), P1, Y1.
           split; auto. split; auto. split; auto. split; auto. split; [|discriminate]. split; [tauto|]. split; [tauto|]. split; [|tauto].
           intros _. cbn in Est. rewrite !check_split_stack, St1 in Est. rewrite Est. auto.
        -- apply (Step _ _ 5%Z H); unfold TOPOLOGY_R; cbn; rewrite ?(proj1 (check_split_hist _ _ _)), ?(proj2 (check_split_hist _ _ _)), ?check_split_stack; auto; try congruence.
      * hstep H. hstep H.
        -- apply (Step _ _ 3%Z H); unfold TOPOLOGY_L; cbn; rewrite ?(proj1 (check_split_hist _ _ _)), ?(proj2 (check_split_hist _ _ _)), ?check_split_stack; auto; try congruence.
        -- hstep H.
           match goal with X : match ?h with Some _ => _ | None => _ end = EOk ?sx |- _ =>
             assert (P6 : pcc sx = c :: pcc s /\ syms sx = TOPOLOGY_S :: syms s);
             [ destruct h as [hole|];
               [ hstep X; hstep X;
                 [ inversion X; subst; cbn; split; congruence
                 | apply encode_hole_hist in X; cbn in X; destruct X as [-> ->]; split; congruence ]
               | inversion X; subst; cbn; split; congruence ] | ] end.
           destruct P6 as [P6 Y6]. hstep H. inversion H; subst.
           exists [c], [1%Z]. cbn [app with_f2s with_stack pcc syms stack length last blk_shape]. rewrite P6, Y6.
           split; auto. split; auto. split; auto. split; auto. split; [|discriminate]. split; [tauto|]. split; [tauto|]. split; [discriminate|tauto].
Qed.

(** ** the runs (one per start-face bit), newest first: each appended a non-empty block to the history whose oldest entry
    is the run's first corner; without S symbol the block is  E :: (no E);  an interior start configuration comes with its
    start-face corner [ic] (pushed onto init_face_connectivity_corners), Opposite(ic) = the run's first corner *)
Inductive RUNS (opp : list (option nat)) (IP : nat -> Prop) : list bool -> list nat -> list nat -> list Z -> Prop :=
| R_nil : RUNS opp IP [] [] [] []
| R_run (b : bool) bits inits inits' P Y Pn Yn : RUNS opp IP bits inits P Y -> Pn <> [] -> length Pn = length Yn ->
    (~ In 1%Z Yn -> exists Yr, Yn = 7%Z :: Yr /\ ~ In 7%Z Yr) ->
    (if b then exists ic, inits' = ic :: inits /\ opp_at opp ic = Some (last Pn 0) /\ IP ic else inits' = inits) ->
    RUNS opp IP (b :: bits) inits' (Pn ++ P) (Yn ++ Y).

Lemma last_app2 {A} (l1 l2 : list A) d : l2 <> [] -> last (l1 ++ l2) d = last l2 d.
Proof.
  intros H. induction l1 as [|a l1 IH]; cbn [app]; auto. destruct (l1 ++ l2) eqn:E.
  - apply app_eq_nil in E. destruct E. congruence.
  - rewrite <- IH. reflexivity.
Qed.

Lemma ideal_app A B : ideal (A ++ B) = (ideal A + ideal B - 1)%Z.
Proof. induction A as [|a A IH]; cbn [app ideal]; lia. Qed.
(** a complete run without dead pop, newest symbol first: the count 1 + #S - #E is >= 1 before every symbol and 0 at the end *)
Definition BALC (Yn : list Z) : Prop := ideal Yn = 0%Z /\ forall m, 1 <= m <= length Yn -> (1 <= ideal (skipn m Yn))%Z.

(** the runs with the balance of every block, under the condition [NE] (= no split event was recorded) *)
Inductive RUNS2 (opp : list (option nat)) (IP : nat -> Prop) (NE : Prop) : list bool -> list nat -> list nat -> list Z -> Prop :=
| R2_nil : RUNS2 opp IP NE [] [] [] []
| R2_run (b : bool) bits inits inits' P Y Pn Yn : RUNS2 opp IP NE bits inits P Y -> Pn <> [] -> length Pn = length Yn ->
    (NE -> BALC Yn) ->
    (if b then exists ic, inits' = ic :: inits /\ opp_at opp ic = Some (last Pn 0) /\ IP ic else inits' = inits) ->
    RUNS2 opp IP NE (b :: bits) inits' (Pn ++ P) (Yn ++ Y).
Lemma RUNS2_impl opp (IP IP' : nat -> Prop) (NE NE' : Prop) : (forall x, IP x -> IP' x) -> (NE' -> NE) ->
  forall b i P Y, RUNS2 opp IP NE b i P Y -> RUNS2 opp IP' NE' b i P Y.
Proof.
  intros H HN b i P Y R. induction R as [|b bits inits inits' P Y Pn Yn R IH Np Ln Bl Hb]; [constructor|].
  apply (R2_run opp IP' NE' b bits inits inits' P Y Pn Yn); auto.
  destruct b; auto. destruct Hb as (ic & A1 & A2 & A3). exists ic. auto.
Qed.

Lemma RUNS_impl opp (IP IP' : nat -> Prop) : (forall x, IP x -> IP' x) -> forall b i P Y, RUNS opp IP b i P Y -> RUNS opp IP' b i P Y.
Proof.
  intros H b i P Y R. induction R; [constructor|]. econstructor; eauto.
  destruct b; auto. destruct H3 as (ic & A & B & C). exists ic. auto.
Qed.


Section Enc.
Variables (c2v : list nat) (opp : list (option nat)) (nf nv nh : nat) (hid : list (option nat)).
Hypothesis Hlen : length c2v = 3 * nf.
Hypothesis OK : opp_ok c2v opp.
Hypothesis Hv : forall c, c < 3 * nf -> vtx c2v c < nv.
Hypothesis Hhl : length hid = nv.
Hypothesis Hhr : forall v h, nth v hid None = Some h -> h < nh.
Hypothesis Hhb : forall j, j < 3 * nf -> is_degenerated c2v (j / 3) = false -> opp_at opp j = None ->
  nth (vtx c2v (next_c j)) hid None <> None /\ nth (vtx c2v (prev_c j)) hid None <> None.
Hypothesis Hhc : forall v, nth v hid None <> None ->
  exists j, j < 3 * nf /\ is_degenerated c2v (j / 3) = false /\ opp_at opp j = None /\ vtx c2v (next_c j) = v.
Hypothesis EH : forall s c first, length (vv s) = nv -> length (vhole s) = nh -> c < 3 * nf ->
  nondeg c2v c -> nth (vtx c2v c) hid None <> None ->
  exists vv' vh', encode_hole c2v opp hid s c first = EOk (with_vhole (with_vv s vv') vh') /\
     vle (vv s) vv' /\ length vh' = nh /\
     (first = true -> nth (vtx c2v c) vv' false = true /\
        (opp_at opp (prev_c c) = None -> nth (vtx c2v (prev_c (prev_c c))) vv' false = true)).
Hypothesis FI : forall f, f < nf -> is_degenerated c2v f = false ->
  exists start interior, find_init c2v opp hid f = EOk (start, interior) /\ start < 3 * nf /\
    (interior = true -> start / 3 = f /\
       forall x, x < 3 * nf -> x / 3 = f -> opp_at opp x <> None /\ nth (vtx c2v x) hid None = None) /\
    (interior = false -> nondeg c2v start /\ opp_at opp start = None /\
       exists c y, c / 3 = f /\ c < 3 * nf /\ y < 3 * nf /\ vtx c2v c = vtx c2v y /\ nondeg c2v y /\ start = prev_c y).
Hypothesis ENDH : forall sf cl new vfl, RunP c2v opp nf hid sf None cl new vfl [] -> NoDup (map (fun c => c / 3) new) ->
  (forall x, x < 3 * nf -> nth (x / 3) vfl false = true -> nondeg c2v x) -> length vfl = nf -> CLOSED opp nf vfl.
Hypothesis FANC : forall vfl a b, CLOSED opp nf vfl -> (forall x, x < 3 * nf -> nth (x / 3) vfl false = true -> nondeg c2v x) ->
  a < 3 * nf -> b < 3 * nf -> nondeg c2v a -> nondeg c2v b -> vtx c2v a = vtx c2v b ->
  nth (a / 3) vfl false = true -> nth (b / 3) vfl false = true.

Let NF_eq := NF_eq c2v nf Hlen.
Let e_vertex_ok := e_vertex_ok c2v nf Hlen.
Let e_opp_ok := e_opp_ok c2v opp nf Hlen OK.
Let opp_facts := opp_facts c2v opp nf Hlen OK.
Let Inv := Inv c2v nf nv nh.
Let Jnv := Jnv c2v nf nv nh.
Let gate_ok := gate_ok c2v nf.
Let stack_ok := stack_ok c2v nf.
Let nondeg := nondeg c2v.
Let gatev := gatev opp.
Let mark_J := mark_J c2v opp nf nv nh hid Hlen OK Hv Hhl Hhr Hhb.
Let check_split_J := check_split_J c2v opp nf nv nh hid Hlen OK Hv Hhl Hhr Hhb.
Let emit_Inv := emit_Inv c2v opp nf nv nh hid Hlen OK Hv Hhl Hhr Hhb.
Let emit_S_Inv := emit_S_Inv c2v opp nf nv nh hid Hlen OK Hv Hhl Hhr Hhb EH.
Let Inv_vv := Inv_vv c2v opp nf nv nh hid Hlen OK Hv Hhl Hhr Hhb.
Let Inv_f2s := Inv_f2s c2v opp nf nv nh hid Hlen OK Hv Hhl Hhr Hhb EH.
Let Inv_stack := Inv_stack c2v nf nv nh.
Let inner_eq := inner_eq c2v opp nf nv nh hid Hlen OK Hv Hhl Hhr Hhb.
Let fvo_some := fvo_some c2v opp nf nv nh hid Hlen OK Hv Hhl Hhr Hhb.
Let right_gate := right_gate c2v opp nf Hlen OK.
Let left_gate := left_gate c2v opp nf Hlen OK.
Let gate_mono := gate_mono c2v nf.
Let ogate_mono := ogate_mono c2v nf.
Let ogate_opt := ogate_opt c2v nf.
Let Inv_init := Inv_init c2v opp nf nv nh hid Hlen OK Hv Hhl Hhr Hhb EH FI ENDH FANC.

Definition faces (P : list nat) : list nat := map (fun c => c / 3) P.

(** the face across the edge [o] (None = mesh boundary) was visited when the entries [P] and the start faces [ifs] were *)
Definition vis_o (P ifs : list nat) (o : option nat) : Prop := forall x, o = Some x -> In (x / 3) (faces P ++ ifs).

Definition fact (ifs : list nat) (nxt : option nat) (c : nat) (y : Z) (P : list nat) : Prop :=
  c < 3 * nf /\ nondeg c /\ vis_o P ifs (opp_at opp c) /\
  let rc := opp_at opp (next_c c) in let lc := opp_at opp (prev_c c) in
  ((y = 7%Z /\ vis_o P ifs rc /\ vis_o P ifs lc) \/
   (y = 5%Z /\ nxt <> None /\ lc = nxt /\ vis_o P ifs rc) \/
   (y = 3%Z /\ nxt <> None /\ rc = nxt /\ vis_o P ifs lc) \/
   (y = 0%Z /\ nxt <> None /\ rc = nxt /\ nth (vtx c2v c) hid None = None /\
      forall x, x < 3 * nf -> nondeg x -> vtx c2v x = vtx c2v c -> ~ In (x / 3) (faces P ++ ifs)) \/
   (y = 1%Z /\ exists x, x < 3 * nf /\ nondeg x /\ vtx c2v x = vtx c2v c /\ x <> c /\
      (In (x / 3) (faces P ++ ifs) \/ opp_at opp (next_c x) = None \/ opp_at opp (prev_c x) = None))).

Inductive hist (ifs : list nat) : option nat -> list nat -> list Z -> Prop :=
| h_nil nxt : hist ifs nxt [] []
| h_cons nxt c y P Y : hist ifs (Some c) P Y -> fact ifs nxt c y P -> hist ifs nxt (c :: P) (y :: Y).

Lemma vis_o_mono P ifs ifs' o : incl ifs ifs' -> vis_o P ifs o -> vis_o P ifs' o.
Proof. intros I H x E. specialize (H x E). apply in_app_or in H. apply in_or_app. destruct H; auto. Qed.

(** symbols E and S end a strip: the next processed corner is not constrained *)
Lemma hist_any ifs nxt c y P Y : hist ifs nxt (c :: P) (y :: Y) -> y = 7%Z \/ y = 1%Z -> forall nxt', hist ifs nxt' (c :: P) (y :: Y).
Proof.
  intros H Hy nxt'. inversion H; subst. constructor; auto.
  destruct H6 as (A & B & C & D). repeat split; auto. cbv zeta in *.
  destruct D as [D|[D|[D|[D|D]]]]; destruct Hy; subst; try (destruct D as (X & _); discriminate); auto.
Qed.

(** index form *)
Lemma hist_nth ifs : forall P Y nxt, hist ifs nxt P Y -> length P = length Y /\ forall k c y,
  nth_error P k = Some c -> nth_error Y k = Some y ->
  fact ifs (match k with 0 => nxt | S k' => Some (nth k' P 0) end) c y (skipn (S k) P).
Proof.
  induction P as [|c0 P IH]; intros Y nxt H; inversion H as [|? ? y0 ? Y0 H3 H4]; subst.
  - split; auto. intros [|k] c y E; discriminate.
  - destruct (IH _ _ H3) as [L F]. split; [cbn; auto|]. intros [|k] c y E1 E2; cbn in E1, E2.
    + inversion E1; inversion E2; subst. cbn [skipn]. auto.
    + specialize (F k c y E1 E2). cbn [skipn]. destruct k; cbn [nth]; auto.
Qed.

(** stack entries: the face behind the gate edge is visited *)
Definition SG (s : est) : Prop := Forall (fun o => match o with Some y => gatev (vf s) y | None => True end) (stack s).

Lemma vis_of_vf ifs s o : Inv ifs s -> (forall x, o = Some x -> x < 3 * nf /\ nth (x / 3) (vf s) false = true) ->
  vis_o (pcc s) ifs o.
Proof.
  intros I H x E. destruct (H x E) as [A B]. apply (b_in _ _ _ _ _ _ (i_base _ _ _ _ _ _ I)). split; auto.
  apply Nat.div_lt_upper_bound; lia.
Qed.

(** without an S symbol there is no face-to-split-symbol entry and no topology split event *)
Definition NSI0 (s : est) : Prop := ~ In 1%Z (syms s) -> f2s s = [] /\ evs s = [].
(** a vertex is marked visited only if it lies on a mesh boundary or in a visited face *)
Definition VV (s : est) : Prop :=
  forall v, nth v (vv s) false = true ->
    nth v hid None <> None \/ exists x, x < 3 * nf /\ vtx c2v x = v /\ nth (x / 3) (vf s) false = true.
Definition NSI (s : est) : Prop := NSI0 s /\ VV s.

Lemma NSI_check s e o : NSI s -> NSI (check_split s e o).
Proof.
  intros [H V]. destruct (check_split_frame s e o) as (F1 & F2 & _). split.
  - unfold NSI0 in *. assert (E : syms (check_split s e o) = syms s).
    { unfold check_split. destruct o; auto. destruct (split_symbol_on_face _ _); auto. }
    rewrite E. intros N. destruct (H N) as [A B]. unfold check_split. destruct o; auto. rewrite A. cbn. auto.
  - unfold VV. rewrite F1, F2. exact V.
Qed.
Lemma NSI_emit s y : NSI s -> NSI (emit s y).
Proof. intros [H V]. split; [|exact V]. intros N. apply H. intro X. apply N. cbn. auto. Qed.
Lemma NSI_stack s r : NSI s -> NSI (with_stack s r).
Proof. intros [H V]. split; auto. Qed.
Lemma NSI_S s : In 1%Z (syms s) -> VV s -> NSI s.
Proof. intros H V. split; auto. intros N. contradiction. Qed.

Lemma VV_mark s c : c < 3 * nf -> length (vf s) = nf -> VV s -> VV (mark_state c2v s c).
Proof.
  intros Hc Lf V v Hv0. destruct (mark_frame c2v s c) as (F1 & _ & _ & F4 & _).
  assert (Hf3 : c / 3 < nf) by (apply Nat.div_lt_upper_bound; lia).
  assert (Cases : v = vtx c2v c \/ nth v (vv s) false = true).
  { unfold mark_state in Hv0. cbv zeta in Hv0. destruct (nth (vtx c2v c) (vv s) false) eqn:E; cbn [vv with_vv with_pcc with_vf with_last_id] in Hv0; auto.
    rewrite nth_upd in Hv0. destruct (v =? vtx c2v c) eqn:Q; [apply Nat.eqb_eq in Q; auto|]. cbn in Hv0. auto. }
  rewrite F1. destruct Cases as [->|Hv1].
  - right. exists c. split; auto. split; auto. apply nth_upd_eq. lia.
  - destruct (V v Hv1) as [X|(x & A & B & C)]; auto. right. exists x. split; auto. split; auto. apply (proj2 (vle_upd (vf s) (c / 3))). auto.
Qed.

(** EncodeHole marks boundary vertices only *)
Lemma bnd_swing_nd : forall fuel x c', x < 3 * nf -> nondeg x -> bnd_swing opp fuel x = EOk c' ->
  c' < 3 * nf /\ nondeg c' /\ opp_at opp c' = None.
Proof.
  induction fuel as [|k IH]; intros x c' Hx Nx E; cbn [bnd_swing] in E; [discriminate|].
  rewrite (e_opp_ok x Hx) in E. cbn [ebind] in E. destruct (opp_at opp x) as [oc|] eqn:Eo.
  - destruct (opp_facts _ _ Eo) as (_ & _ & Ho & _ & Do & _). apply (IH (next_c oc)); auto.
    + apply next_lt; auto.
    + unfold nondeg, EbEncoder_proofs.nondeg. rewrite next_face. auto.
  - inversion E as [E']. rewrite <- E'. auto.
Qed.

Lemma eh_walk_vv : forall fuel vvl c act start_v vvl', c < 3 * nf -> nondeg c -> opp_at opp c = None -> act = vtx c2v (prev_c c) ->
  eh_walk c2v opp fuel vvl c act start_v = EOk vvl' ->
  forall v, nth v vvl' false = true -> nth v vvl false = true \/ nth v hid None <> None.
Proof.
  induction fuel as [|k IH]; intros vvl c act start_v vvl' Hc Nc Oc Ea E v Hv0; cbn [eh_walk] in E; [discriminate|]. subst act.
  destruct (vtx c2v (prev_c c) =? start_v); [left; congruence|].
  destruct (eset vvl (vtx c2v (prev_c c)) true) as [vvl1| | |] eqn:E1; cbn [ebind] in E; try discriminate.
  destruct (bnd_swing opp (swing_fuel c2v) (next_c c)) as [c1| | |] eqn:E2; cbn [ebind] in E; try discriminate.
  destruct (bnd_swing_nd _ _ _ (next_lt _ _ Hc) ltac:(unfold nondeg, EbEncoder_proofs.nondeg in *; rewrite next_face; auto) E2) as (H1 & N1 & O1).
  rewrite (e_vertex_ok (prev_c c1)) in E by (apply prev_lt; auto). cbn [ebind] in E.
  destruct (IH _ _ _ _ _ H1 N1 O1 eq_refl E v Hv0) as [X|X]; auto.
  unfold eset in E1. destruct (vtx c2v (prev_c c) <? length vvl); [|discriminate]. inversion E1; subst vvl1.
  rewrite nth_upd in X. destruct ((v =? vtx c2v (prev_c c)) && _) eqn:Q; auto.
  apply andb_prop in Q. destruct Q as [Q _]. apply Nat.eqb_eq in Q. subst v. right. apply (Hhb c Hc Nc Oc).
Qed.

Lemma encode_hole_vv s c first s' : c < 3 * nf -> nondeg c -> encode_hole c2v opp hid s c first = EOk s' ->
  forall v, nth v (vv s') false = true -> nth v (vv s) false = true \/ nth v hid None <> None.
Proof.
  intros Hc Nc E v Hv0. unfold encode_hole in E.
  destruct (bnd_swing opp (swing_fuel c2v) (prev_c c)) as [c0| | |] eqn:E0; cbn [ebind] in E; try discriminate.
  destruct (bnd_swing_nd _ _ _ (prev_lt _ _ Hc) ltac:(unfold nondeg, EbEncoder_proofs.nondeg in *; rewrite prev_face; auto) E0) as (H0 & N0 & O0).
  rewrite (e_vertex_ok c Hc) in E. cbn [ebind] in E.
  destruct (if first then eset (vv s) (vtx c2v c) true else EOk (vv s)) as [vvl0| | |] eqn:Ev; cbn [ebind] in E; try discriminate.
  destruct (eget hid (vtx c2v c)) as [h| | |] eqn:Eh; cbn [ebind] in E; try discriminate. destruct h as [hole|]; [|discriminate].
  assert (Hh : nth (vtx c2v c) hid None <> None).
  { unfold eget in Eh. destruct (nth_error hid (vtx c2v c)) as [z|] eqn:Q; [|discriminate]. inversion Eh; subst z.
    rewrite (nth_error_nth _ _ _ Q). discriminate. }
  destruct (eset (vhole s) hole true) as [vhl| | |]; cbn [ebind] in E; try discriminate.
  rewrite (e_vertex_ok (next_c c0)) in E by (apply next_lt; auto). cbn [ebind] in E.
  rewrite (e_vertex_ok (prev_c c0)) in E by (apply prev_lt; auto). cbn [ebind] in E.
  destruct (eh_walk c2v opp (swing_fuel c2v) vvl0 c0 (vtx c2v (prev_c c0)) (vtx c2v c)) as [vvl| | |] eqn:Ew; cbn [ebind] in E; try discriminate.
  inversion E; subst s'. cbn [vv with_vhole with_vv] in Hv0.
  destruct (eh_walk_vv _ _ _ _ _ _ H0 N0 O0 eq_refl Ew v Hv0) as [X|X]; auto.
  destruct first; [|inversion Ev as [E']; rewrite E'; auto].
  unfold eset in Ev. destruct (vtx c2v c <? length (vv s)); [|discriminate]. inversion Ev; subst vvl0.
  rewrite nth_upd in X. destruct ((v =? vtx c2v c) && _) eqn:Q; auto.
  apply andb_prop in Q. destruct Q as [Q _]. apply Nat.eqb_eq in Q. subst v. auto.
Qed.

(** ** the stack discipline WITHOUT split events: while no event is recorded, no entry of the corner stack below the top dies
    (it is the left corner pushed by an S whose face carries a face_to_split_symbol_map_ entry: the strip that reaches its
    face from elsewhere sees the S face as a visited right / left neighbour and records an event), and
    |stack| = 1 + #S - #E (+ the offset [n] of the run).  [KI]: at the loop head of [inner] (the top entry is the current
    strip's own); [KO]: between two strips. *)
Definition GE (s : est) (e : option nat) : Prop :=
  exists x y, e = Some x /\ nth (x / 3) (vf s) false = false /\ opp_at opp x = Some y /\ nth (y / 3) (vf s) false = true /\
    split_symbol_on_face (f2s s) (y / 3) <> None.
(** [PREF n L0 sy]: every earlier moment of the current run (the symbols [skipn m sy], at least [L0] of them) had a
    non-empty stack; [CNT (n, L0) s]: the count, with the offset [n] and the number [L0] of symbols before the run *)
Definition PREF (n : Z) (L0 : nat) (sy : list Z) : Prop :=
  forall m, 1 <= m -> L0 + m <= length sy -> (1 <= ideal (skipn m sy) + n)%Z.
Definition CNT (n : Z * nat) (s : est) : Prop :=
  Z.of_nat (length (stack s)) = (ideal (syms s) + fst n)%Z /\ PREF (fst n) (snd n) (syms s).
Lemma CNT_emit n s s' y : CNT n s -> stack s <> [] -> syms s' = y :: syms s ->
  Z.of_nat (length (stack s')) = (Z.of_nat (length (stack s)) + delta y)%Z -> CNT n s'.
Proof.
  intros (A & B) Hne Hs Hl. unfold CNT. rewrite Hs. cbn [ideal]. split; [lia|].
  intros m Hm Hln. cbn [length] in Hln. destruct m as [|m]; [lia|]. cbn [skipn].
  destruct m as [|m].
  - cbn [skipn]. destruct (stack s); [congruence|]. cbn [length] in A. lia.
  - apply B; lia.
Qed.

Definition KI (n : Z * nat) (s : est) (c : nat) : Prop :=
  evs s = [] -> NoDup (tl (stack s)) /\ Forall (GE s) (tl (stack s)) /\ ~ In (Some c) (tl (stack s)) /\ CNT n s.
Definition KO (n : Z * nat) (s : est) : Prop :=
  evs s = [] -> NoDup (stack s) /\ Forall (GE s) (tl (stack s)) /\
    (forall top r, stack s = top :: r -> exists x, top = Some x /\ nth (x / 3) (vf s) false = false) /\ CNT n s.

Lemma GE_step s s' c e : GE s e -> (forall x, e = Some x -> x / 3 <> c / 3) -> vf s' = upd (vf s) (c / 3) true ->
  (forall f, split_symbol_on_face (f2s s) f <> None -> split_symbol_on_face (f2s s') f <> None) -> GE s' e.
Proof.
  intros (x & y & -> & A & B & C & D) N Ef Es. exists x, y. split; auto. rewrite Ef.
  split; [rewrite nth_upd_neq; auto; intro Q; apply (N x eq_refl); auto|].
  split; auto. split; [apply (proj2 (vle_upd (vf s) (c / 3))); auto|auto].
Qed.
Lemma check_split_evs s e o : evs (check_split s e o) = [] ->
  evs s = [] /\ (forall y, o = Some y -> split_symbol_on_face (f2s s) (y / 3) = None).
Proof.
  unfold check_split. destruct o as [oc|]; [|intros H; split; auto; intros; discriminate].
  destruct (split_symbol_on_face (f2s s) (oc / 3)) eqn:E; cbn; intros H; [discriminate|]. split; auto. intros y Q. injection Q as <-. exact E.
Qed.
Lemma check_split_f2s s e o : f2s (check_split s e o) = f2s s.
Proof. unfold check_split. destruct o; auto. destruct (split_symbol_on_face _ _); auto. Qed.

Lemma inner_hist_k ifs n : forall k s c s', Inv ifs s -> stack s <> [] -> stack_ok s -> SG s -> gate_ok (vv s) c ->
  nth (c / 3) (vf s) false = false -> gatev (vf s) c -> ucnt (vf s) <= k ->
  hist ifs (Some c) (pcc s) (syms s) -> NSI s ->
  inner c2v opp hid k s (Some c) = EOk s' ->
  Inv ifs s' /\ stack_ok s' /\ SG s' /\ (forall nxt, hist ifs nxt (pcc s') (syms s')) /\ vle (vf s) (vf s') /\ NSI s' /\
  (evs s' = [] -> evs s = []) /\ (KI n s c -> KO n s').
Proof.
  induction k as [|k' IH]; intros s c s' I St SO Sg G Hf Gv Uk Hh Ns0 Ein.
  { exfalso. destruct G as (Hc & _). pose proof (i_base _ _ _ _ _ _ I) as B0.
    pose proof (ucnt_upd (vf s) (c / 3) ltac:(rewrite (b_vf _ _ _ _ _ _ B0); apply Nat.div_lt_upper_bound; lia) Hf). lia. }
  destruct G as (Hc & Hd & G1 & G2).
  pose proof (i_base _ _ _ _ _ _ I) as B0.
  assert (Lf0 : length (vf s) = nf) by apply B0.
  assert (Lv0 : length (vv s) = nv) by apply B0.
  rewrite inner_eq in Ein by auto. cbv zeta in Ein.
  assert (Hf3 : c / 3 < nf) by (apply Nat.div_lt_upper_bound; lia).
  assert (Hvc : vtx c2v c < nv) by (apply Hv; auto).
  pose proof (mark_J ifs s c I (conj Hc (conj Hd (conj G1 G2))) Hf) as J2.
  destruct (mark_frame c2v s c) as (F1 & F2 & F3 & F4 & F5). specialize (F5 ltac:(lia)).
  set (s2 := mark_state c2v s c) in *.
  assert (U2 : S (ucnt (vf s2)) = ucnt (vf s)) by (rewrite F1; apply ucnt_upd; auto; lia).
  assert (Lf2 : length (vf s2) = nf) by apply (j_base _ _ _ _ _ _ J2).
  assert (Gn : nth (vtx c2v (next_c c)) (vv s2) false = true) by (apply F4; auto).
  assert (Gp : nth (vtx c2v (prev_c c)) (vv s2) false = true) by (apply F4; auto).
  assert (SO2 : Forall (ogate_ok c2v nf (vv s2)) (stack s)).
  { eapply Forall_impl; [|exact SO]. intros o. apply ogate_mono; auto. }
  assert (Vf2 : forall x, x / 3 <> c / 3 -> nth (x / 3) (vf s2) false = nth (x / 3) (vf s) false).
  { intros x Hx. rewrite F1. apply nth_upd_neq. auto. }
  assert (M2 : vle (vf s) (vf s2)) by (rewrite F1; apply vle_upd).
  assert (Sg2 : Forall (fun o => match o with Some y => gatev (vf s2) y | None => True end) (stack s)).
  { eapply Forall_impl; [|exact Sg]. intros [y|]; auto. apply gatev_mono; auto. }
  assert (Pc2 : pcc s2 = c :: pcc s).
  { unfold s2, mark_state. cbv zeta. destruct (nth (vtx c2v c) (vv s) false); reflexivity. }
  assert (Sy2 : syms s2 = syms s).
  { unfold s2, mark_state. cbv zeta. destruct (nth (vtx c2v c) (vv s) false); reflexivity. }
  assert (Ns2 : NSI s2).
  { destruct Ns0 as [N0 V0]. split; [|apply VV_mark; auto].
    unfold NSI0, s2, mark_state in *. cbv zeta. destruct (nth (vtx c2v c) (vv s) false); exact N0. }
  assert (Gnb : forall x y, opp_at opp x = Some y -> x / 3 = c / 3 -> gatev (vf s2) y).
  { intros x y E Ex x0 E0. destruct (opp_facts _ _ E) as (E' & _). rewrite E' in E0. inversion E0; subst x0. rewrite Ex.
    rewrite F1. apply nth_upd_eq. lia. }
  (* the gate of c was visited *)
  assert (Vg : vis_o (pcc s) ifs (opp_at opp c)).
  { apply vis_of_vf; auto. intros x E. split; [apply (opp_facts _ _ E)|apply Gv; auto]. }
  (* a visited neighbour (state s2, another face than c's) was visited in s *)
  assert (Vn : forall o, (forall x, o = Some x -> x < 3 * nf /\ x / 3 <> c / 3 /\ nth (x / 3) (vf s2) false = true) -> vis_o (pcc s) ifs o).
  { intros o H. apply vis_of_vf; auto. intros x E. destruct (H x E) as (A & B & C). split; auto. rewrite <- Vf2; auto. }
  set (rc := opp_at opp (next_c c)) in *. set (lc := opp_at opp (prev_c c)) in *.
  assert (Grc : forall x, rc = Some x -> gate_ok (vv s2) x /\ x / 3 <> c / 3 /\ vtx c2v (next_c x) = vtx c2v c).
  { intros x E. apply (right_gate (vv s2) c x Hc E F5 Gp). }
  assert (Glc : forall x, lc = Some x -> gate_ok (vv s2) x /\ x / 3 <> c / 3).
  { intros x E. apply (left_gate (vv s2) c x Hc E F5 Gn). }
  assert (Ev2 : evs s2 = evs s /\ f2s s2 = f2s s).
  { unfold s2, mark_state. cbv zeta. destruct (nth (vtx c2v c) (vv s) false); split; reflexivity. }
  (* a stack entry below the top in the face of c: its gate is the right or the left edge of c, across it lies a visited face
     with a split-symbol entry, and the tip vertex of c is visited *)
  assert (Hit : KI n s c -> evs s = [] -> forall x, In (Some x) (tl (stack s)) -> x / 3 = c / 3 ->
            exists y, nth (y / 3) (vf s2) false = true /\ split_symbol_on_face (f2s s2) (y / 3) <> None /\
                      (rc = Some y \/ lc = Some y) /\ nth (vtx c2v c) (vv s) false = true).
  { intros K0 E0 x Hx Fx. destruct (K0 E0) as (_ & Kg & Kc & _). rewrite Forall_forall in Kg.
    destruct (Kg _ Hx) as (x' & y & Q & A & B & C & D). inversion Q; subst x'.
    exists y. split; [apply (proj2 M2); auto|]. split; [rewrite (proj2 Ev2); auto|].
    assert (Gx : gate_ok (vv s) x).
    { assert (Hin : In (Some x) (stack s)) by (destruct (stack s); [destruct Hx|right; exact Hx]).
      unfold stack_ok, EbEncoder_proofs.stack_ok in SO. rewrite Forall_forall in SO. apply (SO (Some x)); auto. }
    destruct Gx as (_ & _ & Gx1 & Gx2).
    destruct (face_corners c x Fx) as [->|[->| ->]].
    - exfalso. apply Kc. exact Hx.
    - split; [left; exact B|]. rewrite prev_next in Gx2. exact Gx2.
    - split; [right; exact B|]. rewrite next_prev in Gx1. exact Gx1. }
  assert (Keep : forall sN, KI n s c -> evs s = [] -> (forall x, In (Some x) (tl (stack s)) -> x / 3 <> c / 3) -> vf sN = vf s2 ->
            (forall f, split_symbol_on_face (f2s s) f <> None -> split_symbol_on_face (f2s sN) f <> None) ->
            Forall (GE sN) (tl (stack s))).
  { intros sN K0 E0 NH EfN EsN. destruct (K0 E0) as (_ & Kg & _). rewrite Forall_forall in *. intros e He.
    apply (GE_step s sN c e); auto. intros x ->. apply NH; auto. rewrite EfN. exact F1. }
  assert (NotIn : KI n s c -> evs s = [] -> forall x z, opp_at opp z = Some x -> z / 3 = c / 3 -> ~ In (Some x) (tl (stack s))).
  { intros K0 E0 x z Ez Fz Hx. destruct (K0 E0) as (_ & Kg & _). rewrite Forall_forall in Kg.
    destruct (Kg _ Hx) as (x' & y & Q & A & B & C & D). inversion Q; subst x'.
    destruct (opp_facts _ _ Ez) as (Ez' & _). rewrite Ez' in B. inversion B; subst y. rewrite Fz in C. congruence. }
  (* the recursive call *)
  assert (Rec : forall s3 y0 nx, Inv ifs s3 -> stack s3 = stack s -> vv s3 = vv s2 -> vf s3 = vf s2 -> pcc s3 = c :: pcc s ->
            syms s3 = y0 :: syms s -> fact ifs (Some nx) c y0 (pcc s) -> gate_ok (vv s2) nx -> nx / 3 <> c / 3 ->
            nth (nx / 3) (vf s2) false = false -> gatev (vf s2) nx -> NSI s3 ->
            (evs s3 = [] -> evs s = []) -> (KI n s c -> KI n s3 nx) ->
            inner c2v opp hid k' s3 (Some nx) = EOk s' ->
            Inv ifs s' /\ stack_ok s' /\ SG s' /\ (forall nxt, hist ifs nxt (pcc s') (syms s')) /\ vle (vf s) (vf s') /\ NSI s' /\
            (evs s' = [] -> evs s = []) /\ (KI n s c -> KO n s')).
  { intros s3 y0 nx I3 St3 Vv3 Vf3 Pc3 Sy3 Fc Gx Nx Ux Gvx Ns3 Ev3 K3 E3.
    destruct (IH s3 nx s') as (R1 & R2 & R3 & R4 & R5 & R6 & R7 & R8); auto.
    - rewrite St3; auto.
    - unfold stack_ok, EbEncoder_proofs.stack_ok. rewrite St3, Vv3. auto.
    - unfold SG. rewrite St3, Vf3. auto.
    - rewrite Vv3. auto.
    - rewrite Vf3. auto.
    - rewrite Vf3. auto.
    - rewrite Vf3. lia.
    - rewrite Pc3, Sy3. constructor; auto.
    - split; auto. split; auto. split; auto. split; auto. split; [rewrite Vf3 in R5; eapply vle_trans; eauto|]. split; auto. }
  destruct (negb (nth (vtx c2v c) (vv s) false) && negb (is_some (nth (vtx c2v c) hid None))) eqn:EC.
  - (* TOPOLOGY_C *)
    apply andb_prop in EC. destruct EC as [E1 E2]. apply negb_true_iff in E1, E2.
    destruct (nth (vtx c2v c) hid None) eqn:Eh; [discriminate|].
    destruct rc as [r0|] eqn:Er.
    2:{ exfalso. destruct (Hhb (next_c c)) as [_ X]; auto. apply next_lt; auto. rewrite next_face; auto.
        rewrite prev_next in X. congruence. }
    destruct (Grc r0 eq_refl) as (Gr & Nr & Vr).
    assert (Fresh : forall x, x < 3 * nf -> vtx c2v x = vtx c2v c -> nth (x / 3) (vf s) false = false).
    { intros x Hx Vx. destruct (nth (x / 3) (vf s) false) eqn:Q; auto.
      destruct (b_vis _ _ _ _ _ _ B0 x Hx Q) as [_ Y]. rewrite Vx in Y. congruence. }
    assert (Hr0 : nth (r0 / 3) (vf s2) false = false).
    { rewrite Vf2 by auto. destruct Gr as (Hr & _). rewrite <- (next_face r0). apply Fresh; auto. apply next_lt; auto. }
    assert (A1 : Inv ifs (emit s2 TOPOLOGY_C)) by (apply emit_Inv; auto; [cbv; tauto|discriminate]).
    apply (Rec (emit s2 TOPOLOGY_C) 0%Z r0); auto.
    + cbn. rewrite Sy2. auto.
    + split; [auto|]. split; [auto|]. split; [auto|]. cbv zeta. right. right. right. left.
      split; auto. split; [discriminate|]. split; auto. split; auto.
      intros x Hx _ Vx Hin. apply (b_in _ _ _ _ _ _ B0) in Hin. destruct Hin as [_ Hin]. rewrite (Fresh x Hx Vx) in Hin. discriminate.
    + apply (Gnb (next_c c) r0); auto. apply next_face.
    + apply NSI_emit; auto.
    + cbn [emit with_syms evs]. rewrite (proj1 Ev2). auto.
    + intros K0 E0. cbn [emit with_syms evs] in E0. rewrite (proj1 Ev2) in E0.
      assert (NH : forall x, In (Some x) (tl (stack s)) -> x / 3 <> c / 3).
      { intros x Hx Fx. destruct (Hit K0 E0 x Hx Fx) as (_ & _ & _ & _ & Vc). congruence. }
      destruct (K0 E0) as (Kn & _ & _ & Kc).
      cbn [emit with_syms stack]. rewrite F2. split; auto.
      split; [apply Keep; auto; intros f; cbn [emit with_syms f2s]; rewrite (proj2 Ev2); auto|].
      split; [apply (NotIn K0 E0 r0 (next_c c)); auto; apply next_face|].
      apply (CNT_emit n s _ 0%Z Kc St); [cbn [emit with_syms syms]; rewrite Sy2; reflexivity|cbn [emit with_syms stack]; rewrite F2; change (delta 0) with 0%Z; lia].
  - (* not C *)

    assert (FV : forall vfl o, length vfl = nf -> (forall x, o = Some x -> x < 3 * nf) ->
              exists b, face_visited_opt vfl o = EOk b /\ (b = false -> exists x, o = Some x /\ nth (x / 3) vfl false = false) /\
                        (b = true -> forall x, o = Some x -> nth (x / 3) vfl false = true)).
    { intros vfl o L H. destruct o as [x|].
      - rewrite fvo_some by auto. eexists. split; [reflexivity|]. split; [eauto|]. intros E x' Ex. inversion Ex; subst. auto.
      - exists true. split; auto. split; [discriminate|]. intros _ x Ex. discriminate. }
    assert (Rlt : forall x, rc = Some x -> x < 3 * nf) by (intros x E; apply (Grc x E)).
    assert (Llt : forall x, lc = Some x -> x < 3 * nf) by (intros x E; apply (Glc x E)).
    destruct (FV (vf s2) rc Lf2 Rlt) as (rfv & Erf & Hrf & Hrt). rewrite Erf in Ein. cbn [ebind] in Ein.
    destruct rfv.
    + (* right visited *)
      pose proof (check_split_J ifs s2 RIGHT_FACE_EDGE rc (or_intror eq_refl) J2) as J3.
      destruct (check_split_frame s2 RIGHT_FACE_EDGE rc) as (C1 & C2 & C3 & C4).
      set (s3 := check_split s2 RIGHT_FACE_EDGE rc) in *.
      assert (P3 : pcc s3 = pcc s2 /\ syms s3 = syms s2).
      { unfold s3, check_split. destruct rc; repeat (destruct (split_symbol_on_face _ _)); split; reflexivity. }
      assert (Vr : vis_o (pcc s) ifs rc).
      { apply Vn. intros x E. destruct (Grc x E) as ((A & _) & B & _). split; auto. }
      destruct (FV (vf s3) lc ltac:(rewrite C1; auto) Llt) as (lfv & Elf & Hlf & Hlt). rewrite Elf in Ein. cbn [ebind] in Ein.
      destruct lfv.
      * (* E *)
        pose proof (check_split_J ifs s3 LEFT_FACE_EDGE lc (or_introl eq_refl) J3) as J4.
        destruct (check_split_frame s3 LEFT_FACE_EDGE lc) as (D1 & D2 & D3 & D4).
        set (s4 := check_split s3 LEFT_FACE_EDGE lc) in *.
        assert (P4 : pcc s4 = pcc s3 /\ syms s4 = syms s3).
        { unfold s4, check_split. destruct lc; repeat (destruct (split_symbol_on_face _ _)); split; reflexivity. }
        pose proof (emit_Inv ifs s4 TOPOLOGY_E J4 ltac:(cbv; tauto) ltac:(discriminate)) as I5.
        cbn [emit with_syms stack] in Ein. rewrite D3, C3, F2 in Ein.
        destruct (stack s) as [|top r] eqn:Est; [congruence|]. inversion Ein; subst s'. clear Ein.
        assert (Vl : vis_o (pcc s) ifs lc).
        { apply Vn. intros x E. destruct (Glc x E) as ((A & _) & B). split; auto. split; auto. rewrite <- C1. apply Hlt; auto. }
        split; [apply Inv_stack; auto|]. split.
        { unfold stack_ok, EbEncoder_proofs.stack_ok. cbn [with_stack stack vv emit with_syms]. rewrite D2, C2. inversion SO2; auto. }
        split.
        { unfold SG. cbn [with_stack stack vf emit with_syms]. rewrite D1, C1. inversion Sg2; auto. }
        split.
        { intros nxt. cbn [with_stack pcc syms emit with_syms]. destruct P4 as [-> ->]. destruct P3 as [-> ->]. rewrite Pc2, Sy2.
          constructor; [auto|]. split; [auto|]. split; [auto|]. split; [auto|]. cbv zeta. left. auto. }
        split; [cbn [with_stack vf emit with_syms]; rewrite D1, C1; auto|].
        split; [apply NSI_stack; apply (NSI_emit s4 TOPOLOGY_E); apply NSI_check; apply NSI_check; auto|].
        assert (EvE : evs (with_stack (emit s4 TOPOLOGY_E) r) = [] ->
                  evs s = [] /\ (forall y, rc = Some y -> split_symbol_on_face (f2s s2) (y / 3) = None) /\
                  (forall y, lc = Some y -> split_symbol_on_face (f2s s2) (y / 3) = None)).
        { cbn [with_stack emit with_syms evs]. intros E0. destruct (check_split_evs _ _ _ E0) as (E3 & N3).
          destruct (check_split_evs _ _ _ E3) as (E2 & N2). rewrite (proj1 Ev2) in E2. split; auto. split; auto.
          intros y Q. rewrite <- (check_split_f2s s2 RIGHT_FACE_EDGE rc). apply N3; auto. }
        split; [intros E0; apply (EvE E0)|].
        intros K0 E0. destruct (EvE E0) as (E2 & NR & NL).
        assert (NH : forall x, In (Some x) (tl (top :: r)) -> x / 3 <> c / 3).
        { intros x Hx Fx. destruct (Hit K0 E2 x Hx Fx) as (y & Vy & Sy & [Q|Q] & _).
          - apply Sy. apply NR. exact Q.
          - apply Sy. apply NL. exact Q. }
        assert (Kg' : Forall (GE (with_stack (emit s4 TOPOLOGY_E) r)) (tl (top :: r))).
        { apply (Keep _ K0 E2 NH); [cbn [with_stack emit with_syms vf]; rewrite D1, C1; auto|].
          intros f. cbn [with_stack emit with_syms f2s]. unfold s4, s3. rewrite !check_split_f2s, (proj2 Ev2). auto. }
        cbn [tl] in Kg'.
        destruct (K0 E2) as (Kn & _ & _ & Kc). rewrite Est in Kn. cbn [tl] in Kn.
        cbn [with_stack stack]. split; auto. split; [destruct r; [constructor|inversion Kg'; auto]|].
        split.
        { intros top0 r0 Q. rewrite Q in Kg'. inversion Kg' as [|e0 l0' (x & y & Q1 & Q2 & _) _ [Q3 Q4]]. exists x. split; auto. }
        apply (CNT_emit n s _ 7%Z Kc); [rewrite Est; discriminate
          |cbn [with_stack emit with_syms syms]; destruct P4 as [_ ->]; destruct P3 as [_ ->]; rewrite Sy2; reflexivity
          |cbn [with_stack stack]; rewrite Est; cbn [length]; change (delta 7) with (-1)%Z; lia].
      * (* R *)
        destruct (Hlf eq_refl) as (l0 & El & Hl0). rewrite El in Ein.
        destruct (Glc l0 El) as (Gl & Nl).
        assert (A1 : Inv ifs (emit s3 TOPOLOGY_R)) by (apply emit_Inv; auto; [cbv; tauto|discriminate]).
        apply (Rec (emit s3 TOPOLOGY_R) 5%Z l0); auto.
        -- cbn. rewrite C3; auto.
        -- cbn. destruct P3 as [-> _]. auto.
        -- cbn. destruct P3 as [_ ->]. rewrite Sy2. auto.
        -- split; [auto|]. split; [auto|]. split; [auto|]. cbv zeta. right. left. split; auto. split; [discriminate|]. split; auto.
        -- rewrite <- C1. auto.
        -- apply (Gnb (prev_c c) l0); auto. apply prev_face.
        -- apply NSI_emit. apply NSI_check. auto.
        -- cbn [emit with_syms evs]. intros E0. destruct (check_split_evs _ _ _ E0) as (E2 & _). rewrite (proj1 Ev2) in E2. auto.
        -- intros K0 E0. cbn [emit with_syms evs] in E0. destruct (check_split_evs _ _ _ E0) as (E2 & NR). rewrite (proj1 Ev2) in E2.
           assert (NH : forall x, In (Some x) (tl (stack s)) -> x / 3 <> c / 3).
           { intros x Hx Fx. destruct (Hit K0 E2 x Hx Fx) as (y & Vy & Sy & [Q|Q] & _).
             - apply Sy. apply NR. exact Q.
             - rewrite El in Q. inversion Q; subst y. rewrite C1 in Hl0. congruence. }
           destruct (K0 E2) as (Kn & _ & _ & Kc).
           cbn [emit with_syms stack]. rewrite C3, F2. split; auto.
           split; [apply (Keep _ K0 E2 NH); [cbn [emit with_syms vf]; auto|intros f; cbn [emit with_syms f2s]; unfold s3; rewrite check_split_f2s, (proj2 Ev2); auto]|].
           split; [apply (NotIn K0 E2 l0 (prev_c c)); auto; apply prev_face|].
           apply (CNT_emit n s _ 5%Z Kc St); [cbn [emit with_syms syms]; destruct P3 as [_ ->]; rewrite Sy2; reflexivity
             |cbn [emit with_syms stack]; rewrite C3, F2; change (delta 5) with 0%Z; lia].
    + (* right not visited *)
      destruct (Hrf eq_refl) as (r0 & Er & Hr0).
      destruct (FV (vf s2) lc Lf2 Llt) as (lfv & Elf & Hlf & Hlt). rewrite Elf in Ein. cbn [ebind] in Ein.
      destruct lfv.
      * (* L *)
        pose proof (check_split_J ifs s2 LEFT_FACE_EDGE lc (or_introl eq_refl) J2) as J3.
        destruct (check_split_frame s2 LEFT_FACE_EDGE lc) as (C1 & C2 & C3 & C4).
        set (s3 := check_split s2 LEFT_FACE_EDGE lc) in *.
        assert (P3 : pcc s3 = pcc s2 /\ syms s3 = syms s2).
        { unfold s3, check_split. destruct lc; repeat (destruct (split_symbol_on_face _ _)); split; reflexivity. }
        rewrite Er in Ein. destruct (Grc r0 Er) as (Gr & Nr & _).
        assert (Vl : vis_o (pcc s) ifs lc).
        { apply Vn. intros x E. destruct (Glc x E) as ((A & _) & B). split; auto. }
        assert (A1 : Inv ifs (emit s3 TOPOLOGY_L)) by (apply emit_Inv; auto; [cbv; tauto|discriminate]).
        apply (Rec (emit s3 TOPOLOGY_L) 3%Z r0); auto.
        -- cbn. rewrite C3; auto.
        -- cbn. destruct P3 as [-> _]. auto.
        -- cbn. destruct P3 as [_ ->]. rewrite Sy2. auto.
        -- split; [auto|]. split; [auto|]. split; [auto|]. cbv zeta. right. right. left. split; auto. split; [discriminate|]. split; auto.
        -- apply (Gnb (next_c c) r0); auto. apply next_face.
        -- apply NSI_emit. apply NSI_check. auto.
        -- cbn [emit with_syms evs]. intros E0. destruct (check_split_evs _ _ _ E0) as (E2 & _). rewrite (proj1 Ev2) in E2. auto.
        -- intros K0 E0. cbn [emit with_syms evs] in E0. destruct (check_split_evs _ _ _ E0) as (E2 & NL). rewrite (proj1 Ev2) in E2.
           assert (NH : forall x, In (Some x) (tl (stack s)) -> x / 3 <> c / 3).
           { intros x Hx Fx. destruct (Hit K0 E2 x Hx Fx) as (y & Vy & Sy & [Q|Q] & _).
             - rewrite Er in Q. inversion Q; subst y. congruence.
             - apply Sy. apply NL. exact Q. }
           destruct (K0 E2) as (Kn & _ & _ & Kc).
           cbn [emit with_syms stack]. rewrite C3, F2. split; auto.
           split; [apply (Keep _ K0 E2 NH); [cbn [emit with_syms vf]; auto|intros f; cbn [emit with_syms f2s]; unfold s3; rewrite check_split_f2s, (proj2 Ev2); auto]|].
           split; [apply (NotIn K0 E2 r0 (next_c c)); auto; apply next_face|].
           apply (CNT_emit n s _ 3%Z Kc St); [cbn [emit with_syms syms]; destruct P3 as [_ ->]; rewrite Sy2; reflexivity
             |cbn [emit with_syms stack]; rewrite C3, F2; change (delta 3) with 0%Z; lia].
      * (* S *)
        destruct (Hlf eq_refl) as (l0 & El & Hl0).
        assert (SF : exists x, x < 3 * nf /\ nondeg x /\ vtx c2v x = vtx c2v c /\ x <> c /\
                  (In (x / 3) (faces (pcc s) ++ ifs) \/ opp_at opp (next_c x) = None \/ opp_at opp (prev_c x) = None)).
        { assert (Bnd : nth (vtx c2v c) hid None <> None -> exists x, x < 3 * nf /\ nondeg x /\ vtx c2v x = vtx c2v c /\ x <> c /\
                    (In (x / 3) (faces (pcc s) ++ ifs) \/ opp_at opp (next_c x) = None \/ opp_at opp (prev_c x) = None)).
          { intros Hh0. destruct (Hhc _ Hh0) as (j & Hj & Nj & Oj & Vj). exists (next_c j).
            split; [apply next_lt; auto|]. split; [unfold nondeg, EbEncoder_proofs.nondeg; rewrite next_face; auto|]. split; auto.
            split; [intro X; unfold lc in El; rewrite <- X, prev_next, Oj in El; discriminate|]. right. right. rewrite prev_next. auto. }
          destruct (nth (vtx c2v c) (vv s) false) eqn:Evis.
          - destruct (proj2 Ns0 _ Evis) as [X|(x & A & B & C)]; auto.
            exists x. split; auto. destruct (b_vis _ _ _ _ _ _ B0 x A C) as [Nx _]. split; auto. split; auto.
            split; [intro X; subst x; congruence|]. left. apply (b_in _ _ _ _ _ _ B0). split; auto. apply Nat.div_lt_upper_bound; lia.
          - cbn [negb andb] in EC. destruct (nth (vtx c2v c) hid None) eqn:Eh; [|discriminate]. apply Bnd. discriminate. }
        pose proof (emit_S_Inv ifs s2 J2) as I3.
        set (s3 := with_nsplit (emit s2 TOPOLOGY_S) (S (nsplit (emit s2 TOPOLOGY_S)))) in *.
        change (nsplit (emit s2 TOPOLOGY_S)) with (nsplit s2) in *.
        assert (H4 : exists s4, (match nth (vtx c2v c) hid None with
                  | Some hole => b <-- eget (vhole s3) hole ;; if b then EOk s3 else encode_hole c2v opp hid s3 c false
                  | None => EOk s3 end) = EOk s4 /\ Inv ifs s4 /\ vle (vv s3) (vv s4) /\ vf s4 = vf s3 /\ stack s4 = stack s3 /\ syms s4 = syms s3 /\ pcc s4 = pcc s3 /\
                  VV s4 /\ evs s4 = evs s3 /\ f2s s4 = f2s s3).
        { assert (Lh3 : length (vhole s3) = nh) by apply (i_base _ _ _ _ _ _ I3).
          destruct (nth (vtx c2v c) hid None) as [hole|] eqn:Eh.
          - rewrite (eget_lt (vhole s3) hole false) by (rewrite Lh3; eapply Hhr; eauto). cbn [ebind].
            destruct (nth hole (vhole s3) false).
            + exists s3. split; [reflexivity|]. split; [exact I3|]. split; [apply vle_refl|]. split; auto. split; auto. split; auto. split; auto. split; [apply Ns2|auto].
            + destruct (EH s3 c false) as (vv' & vh' & E1 & E2 & E3 & _); auto; try apply (i_base _ _ _ _ _ _ I3). congruence.
              rewrite E1. eexists. split; [reflexivity|]. split; [apply Inv_vv; auto|]. split; [exact E2|]. split; auto. split; auto. split; auto. split; auto.
              split; [|auto].
              intros v Hv0. destruct (encode_hole_vv s3 c false _ Hc Hd E1 v Hv0) as [X|X]; auto. apply (proj2 Ns2). exact X.
          - exists s3. split; [reflexivity|]. split; [exact I3|]. split; [apply vle_refl|]. split; auto. split; auto. split; auto. split; auto. split; [apply Ns2|auto]. }
        destruct H4 as (s4 & E4 & I4 & M4 & Vf4 & St4 & Sy4 & Pc4 & V4 & Ev4 & Fs4). rewrite E4 in Ein. cbn [ebind] in Ein.
        assert (Ns : syms s4 <> []) by (rewrite Sy4; discriminate).
        pose proof (Inv_f2s ifs s4 (c / 3) I4 Ns) as I5.
        set (s5 := with_f2s s4 ((c / 3, last_id s4) :: f2s s4)) in *.
        destruct (stack s) as [|top r] eqn:Est; [congruence|].
        assert (St5 : stack s5 = top :: r) by (cbn [s5 with_f2s stack]; rewrite St4; cbn [s3 stack with_nsplit emit with_syms]; rewrite F2; auto).
        rewrite St5 in Ein. inversion Ein; subst s'. clear Ein.
        split; [apply Inv_stack; auto|]. split.
        { unfold stack_ok, EbEncoder_proofs.stack_ok. cbn [with_stack stack vv s5 with_f2s].
          assert (M : vle (vv s2) (vv s4)) by exact M4.
          constructor; [|constructor].
          ++ apply ogate_opt. intros x E. eapply gate_mono; [exact M|apply (Grc x E)].
          ++ apply ogate_opt. intros x E. eapply gate_mono; [exact M|apply (Glc x E)].
          ++ inversion SO2; subst. eapply Forall_impl; [|eassumption]. intros o. apply ogate_mono; auto. }
        split.
        { unfold SG. cbn [with_stack stack vf s5 with_f2s]. rewrite Vf4. cbn [s3 vf with_nsplit emit with_syms].
          constructor; [|constructor].
          ++ destruct rc as [x|] eqn:E; auto. apply (Gnb (next_c c) x); auto. apply next_face.
          ++ destruct lc as [x|] eqn:E; auto. apply (Gnb (prev_c c) x); auto. apply prev_face.
          ++ inversion Sg2; auto. }
        split.
        { intros nxt. cbn [with_stack pcc syms s5 with_f2s]. rewrite Pc4, Sy4. cbn [s3 pcc syms with_nsplit emit with_syms].
          rewrite Pc2, Sy2. constructor; [auto|]. split; [auto|]. split; [auto|]. split; [auto|]. cbv zeta. right. right. right. right.
          split; [reflexivity|]. exact SF. }
        split; [cbn [with_stack vf s5 with_f2s]; rewrite Vf4; cbn [s3 vf with_nsplit emit with_syms]; auto|].
        split; [apply NSI_S; [cbn [with_stack syms s5 with_f2s]; rewrite Sy4; cbn; auto|exact V4]|].
        assert (EvS : evs (with_stack s5 (rc :: lc :: r)) = evs s).
        { cbn [with_stack s5 with_f2s evs]. rewrite Ev4. cbn [s3 with_nsplit emit with_syms evs]. apply Ev2. }
        split; [rewrite EvS; auto|].
        intros K0 E0. rewrite EvS in E0.
        assert (Vf5 : vf (with_stack s5 (rc :: lc :: r)) = vf s2).
        { cbn [with_stack s5 with_f2s vf]. rewrite Vf4. reflexivity. }
        assert (Fs5 : f2s (with_stack s5 (rc :: lc :: r)) = (c / 3, last_id s4) :: f2s s).
        { cbn [with_stack s5 with_f2s f2s]. rewrite Fs4. cbn [s3 with_nsplit emit with_syms f2s]. rewrite (proj2 Ev2). reflexivity. }
        assert (NH : forall x, In (Some x) (tl (top :: r)) -> x / 3 <> c / 3).
        { intros x Hx Fx. destruct (Hit K0 E0 x Hx Fx) as (y & Vy & _ & [Q|Q] & _).
          - rewrite Er in Q. inversion Q; subst y. congruence.
          - rewrite El in Q. inversion Q; subst y. congruence. }
        assert (Kg' : Forall (GE (with_stack s5 (rc :: lc :: r))) (tl (top :: r))).
        { apply (Keep _ K0 E0 NH); [exact Vf5|].
          intros f Nf. rewrite Fs5. cbn [split_symbol_on_face]. destruct (c / 3 =? f); [discriminate|exact Nf]. }
        cbn [tl] in Kg'.
        destruct (K0 E0) as (Kn & _ & _ & Kc). rewrite Est in Kn. cbn [tl] in Kn.
        destruct (Grc r0 Er) as (_ & Nr & _). destruct (Glc l0 El) as (_ & Nl).
        assert (Fc3 : split_symbol_on_face (f2s (with_stack s5 (rc :: lc :: r))) (c / 3) <> None).
        { rewrite Fs5. cbn [split_symbol_on_face]. rewrite Nat.eqb_refl. discriminate. }
        assert (Vc3 : nth (c / 3) (vf s2) false = true) by (rewrite F1; apply nth_upd_eq; lia).
        assert (Gr0 : GE (with_stack s5 (rc :: lc :: r)) (Some r0)).
        { exists r0, (next_c c). split; auto. rewrite Vf5. split; auto. split; [apply (opp_facts _ _ Er)|]. rewrite next_face. split; auto. }
        assert (Gl0 : GE (with_stack s5 (rc :: lc :: r)) (Some l0)).
        { exists l0, (prev_c c). split; auto. rewrite Vf5. split; auto. split; [apply (opp_facts _ _ El)|]. rewrite prev_face. split; auto. }
        assert (Nr0 : ~ In (Some r0) r) by (apply (NotIn K0 E0 r0 (next_c c)); auto; apply next_face).
        assert (Nl0 : ~ In (Some l0) r) by (apply (NotIn K0 E0 l0 (prev_c c)); auto; apply prev_face).
        cbn [with_stack stack tl]. rewrite Er, El. split.
        { constructor; [|constructor; auto]. intros [Q|Q]; [|exact (Nr0 Q)]. inversion Q; subst l0.
          assert (X : r0 / 3 <> r0 / 3); [|congruence].
          apply (nbr_next_distinct c2v opp nf Hlen OK (next_c c) r0 r0); auto. rewrite next_next. exact El. }
        split; [constructor; auto|].
        split; [intros top0 rr Q; injection Q as <- _; exists r0; split; auto; cbn [with_stack vf s5 with_f2s]; rewrite Vf4; exact Hr0|].
        apply (CNT_emit n s _ 1%Z Kc); [rewrite Est; discriminate
          |cbn [with_stack syms s5 with_f2s]; rewrite Sy4; cbn [s3 with_nsplit emit with_syms syms]; rewrite Sy2; reflexivity
          |cbn [with_stack stack]; rewrite Est; cbn [length]; change (delta 1) with 1%Z; lia].
Qed.

Lemma inner_hist ifs : forall k s c s', Inv ifs s -> stack s <> [] -> stack_ok s -> SG s -> gate_ok (vv s) c ->
  nth (c / 3) (vf s) false = false -> gatev (vf s) c -> ucnt (vf s) <= k ->
  hist ifs (Some c) (pcc s) (syms s) -> NSI s ->
  inner c2v opp hid k s (Some c) = EOk s' ->
  Inv ifs s' /\ stack_ok s' /\ SG s' /\ (forall nxt, hist ifs nxt (pcc s') (syms s')) /\ vle (vf s) (vf s') /\ NSI s'.
Proof.
  intros k s c s' I St SO Sg G Hf Gv Uk Hh Ns0 Ein.
  destruct (inner_hist_k ifs (0%Z, 0) k s c s') as (A1 & A2 & A3 & A4 & A5 & A6 & _); auto.
  split; auto.
Qed.

(** the C entries: no start face of [ifs'] contains the tip vertex *)
Definition Cside (ifs' : list nat) (P : list nat) (Y : list Z) : Prop :=
  forall k c, nth_error P k = Some c -> nth_error Y k = Some 0%Z ->
    forall x, x < 3 * nf -> nondeg x -> vtx c2v x = vtx c2v c -> ~ In (x / 3) ifs'.

Lemma hist_mono ifs ifs' : incl ifs ifs' -> forall P Y nxt, hist ifs nxt P Y -> Cside ifs' P Y -> hist ifs' nxt P Y.
Proof.
  intros I. induction P as [|c P IH]; intros Y nxt H CS; inversion H as [|? ? y0 ? Y0 H3 H4]; subst; constructor.
  - apply IH; auto. intros k c0 E1 E2. apply (CS (S k) c0); auto.
  - destruct H4 as (A & B & C & D). split; [auto|]. split; [auto|]. split; [eapply vis_o_mono; eauto|]. cbv zeta in *.
    destruct D as [(D1 & D2 & D3)|[(D1 & D2 & D3 & D4)|[(D1 & D2 & D3 & D4)|[(D1 & D2 & D3 & D4 & D5)|D]]]].
    + left. repeat split; auto; eapply vis_o_mono; eauto.
    + right. left. repeat split; auto; eapply vis_o_mono; eauto.
    + right. right. left. repeat split; auto; eapply vis_o_mono; eauto.
    + right. right. right. left. repeat split; auto.
      intros x Hxl Nx Vx Hin. apply in_app_or in Hin. destruct Hin as [Hin|Hin].
      * apply (D5 x Hxl Nx Vx). apply in_or_app. auto.
      * subst y0. apply (CS 0 c eq_refl eq_refl x Hxl Nx Vx Hin).
    + destruct D as (D1 & x & X1 & X2 & X3 & X4 & X5). right. right. right. right. split; auto. exists x. repeat split; auto.
      destruct X5 as [X|X]; [left|right; auto]. apply in_app_or in X. apply in_or_app. destruct X; auto.
Qed.

Lemma outer_hist ifs : forall fuel s s', Inv ifs s -> stack_ok s -> SG s -> (forall nxt, hist ifs nxt (pcc s) (syms s)) -> NSI s ->
  outer c2v opp hid fuel s = EOk s' ->
  Inv ifs s' /\ (forall nxt, hist ifs nxt (pcc s') (syms s')) /\ vle (vf s) (vf s') /\ NSI s'.
Proof.
  induction fuel as [|k IH]; intros s s' I SO Sg Hh Ns E; cbn [outer] in E; [discriminate|].
  destruct (stack s) as [|top r] eqn:St.
  - inversion E; subst. split; auto. split; auto. split; auto. apply vle_refl.
  - assert (Pop : outer c2v opp hid k (with_stack s r) = EOk s' ->
       Inv ifs s' /\ (forall nxt, hist ifs nxt (pcc s') (syms s')) /\ vle (vf s) (vf s') /\ NSI s').
    { intros E'. apply (IH (with_stack s r) s'); [apply Inv_stack; auto| | |exact Hh|exact Ns|exact E'].
      - unfold stack_ok, EbEncoder_proofs.stack_ok in *. cbn [with_stack stack vv]. rewrite St in SO. inversion SO; auto.
      - unfold SG in *. cbn [with_stack stack vf]. rewrite St in Sg. inversion Sg; auto. }
    destruct top as [c|]; [|apply Pop; auto].
    assert (G : gate_ok (vv s) c). { unfold stack_ok, EbEncoder_proofs.stack_ok in SO. rewrite St in SO. inversion SO; auto. }
    assert (Hf3 : c / 3 < nf) by (destruct G; apply Nat.div_lt_upper_bound; lia).
    rewrite (eget_lt (vf s) (c / 3) false) in E by (rewrite (b_vf _ _ _ _ _ _ (i_base _ _ _ _ _ _ I)); auto). cbn [ebind] in E.
    destruct (nth (c / 3) (vf s) false) eqn:Ef; [apply Pop; auto|].
    rewrite NF_eq in E.
    destruct (inner c2v opp hid nf s (Some c)) as [s1| | |] eqn:E1; cbn [ebind] in E; try discriminate.
    assert (Gv : gatev (vf s) c). { unfold SG in Sg. rewrite St in Sg. inversion Sg; auto. }
    assert (Uk : ucnt (vf s) <= nf). { rewrite <- (b_vf _ _ _ _ _ _ (i_base _ _ _ _ _ _ I)). unfold ucnt. lia. }
    destruct (inner_hist ifs nf s c s1) as (I1 & SO1 & Sg1 & H1 & M1 & N1); auto. { rewrite St. discriminate. }
    destruct (IH s1 s') as (A1 & A2 & A3 & A4); auto. split; auto. split; auto. split; auto. eapply vle_trans; eauto.
Qed.

Lemma from_corner_hist ifs s c s' : Inv ifs s -> gate_ok (vv s) c -> gatev (vf s) c ->
  (forall nxt, hist ifs nxt (pcc s) (syms s)) -> NSI s ->
  from_corner c2v opp hid s (Some c) = EOk s' ->
  Inv ifs s' /\ (forall nxt, hist ifs nxt (pcc s') (syms s')) /\ vle (vf s) (vf s') /\ NSI s'.
Proof.
  intros I G Gv Hh Ns E. unfold from_corner in E.
  apply (outer_hist ifs (outer_fuel c2v) (with_stack s [Some c]) s'); [apply Inv_stack; auto| | |exact Hh|exact Ns|exact E].
  - unfold stack_ok, EbEncoder_proofs.stack_ok. cbn [with_stack stack vv]. constructor; auto.
  - unfold SG. cbn [with_stack stack vf]. constructor; auto.
Qed.

(** the stack discipline along [outer] / [from_corner]: without split event no entry is popped dead, the run ends with the
    count |stack| = 0 = ideal + n *)
Lemma outer_hist_k ifs n : forall fuel s s', Inv ifs s -> stack_ok s -> SG s -> (forall nxt, hist ifs nxt (pcc s) (syms s)) -> NSI s ->
  outer c2v opp hid fuel s = EOk s' ->
  stack s' = [] /\ (evs s' = [] -> evs s = []) /\ (KO n s -> KO n s').
Proof.
  induction fuel as [|k IH]; intros s s' I SO Sg Hh Ns E; cbn [outer] in E; [discriminate|].
  destruct (stack s) as [|top r] eqn:St.
  - inversion E; subst. auto.
  - assert (Pop : outer c2v opp hid k (with_stack s r) = EOk s' -> (KO n s -> evs s = [] -> False) ->
       stack s' = [] /\ (evs s' = [] -> evs s = []) /\ (KO n s -> KO n s')).
    { intros E' Dead. destruct (IH (with_stack s r) s') as (A5 & A6 & A7); [apply Inv_stack; auto| | |exact Hh|exact Ns|exact E'|].
      - unfold stack_ok, EbEncoder_proofs.stack_ok in *. cbn [with_stack stack vv]. rewrite St in SO. inversion SO; auto.
      - unfold SG in *. cbn [with_stack stack vf]. rewrite St in Sg. inversion Sg; auto.
      - split; auto. split; [exact A6|]. intros K0. apply A7. intros E0. exfalso. apply (Dead K0 E0). }
    destruct top as [c|].
    2:{ apply Pop; auto. intros K0 E0. destruct (K0 E0) as (_ & _ & T & _). destruct (T _ _ St) as (x & Q & _). discriminate. }
    assert (G : gate_ok (vv s) c). { unfold stack_ok, EbEncoder_proofs.stack_ok in SO. rewrite St in SO. inversion SO; auto. }
    assert (Hf3 : c / 3 < nf) by (destruct G; apply Nat.div_lt_upper_bound; lia).
    rewrite (eget_lt (vf s) (c / 3) false) in E by (rewrite (b_vf _ _ _ _ _ _ (i_base _ _ _ _ _ _ I)); auto). cbn [ebind] in E.
    destruct (nth (c / 3) (vf s) false) eqn:Ef.
    { apply Pop; auto. intros K0 E0. destruct (K0 E0) as (_ & _ & T & _). destruct (T _ _ St) as (x & Q & Ux). injection Q as <-. congruence. }
    rewrite NF_eq in E.
    destruct (inner c2v opp hid nf s (Some c)) as [s1| | |] eqn:E1; cbn [ebind] in E; try discriminate.
    assert (Gv : gatev (vf s) c). { unfold SG in Sg. rewrite St in Sg. inversion Sg; auto. }
    assert (Uk : ucnt (vf s) <= nf). { rewrite <- (b_vf _ _ _ _ _ _ (i_base _ _ _ _ _ _ I)). unfold ucnt. lia. }
    destruct (inner_hist_k ifs n nf s c s1) as (I1 & SO1 & Sg1 & H1 & M1 & N1 & V1 & Kk1); auto. { rewrite St. discriminate. }
    destruct (IH s1 s' I1 SO1 Sg1 H1 N1 E) as (A5 & A6 & A7).
    split; auto. split; [auto|]. intros K0. apply A7. apply Kk1.
    intros E0. destruct (K0 E0) as (Kn & Kg & _ & Kc). rewrite St in Kn, Kg. rewrite St. cbn [tl] in *.
    inversion Kn as [|a l Hnin Hnd]. split; [exact Hnd|]. split; [exact Kg|]. split; [exact Hnin|exact Kc].
Qed.

Lemma from_corner_hist_k ifs s c s' : Inv ifs s -> gate_ok (vv s) c -> gatev (vf s) c ->
  (forall nxt, hist ifs nxt (pcc s) (syms s)) -> NSI s -> nth (c / 3) (vf s) false = false ->
  from_corner c2v opp hid s (Some c) = EOk s' -> evs s' = [] ->
  evs s = [] /\ forall Yn, syms s' = Yn ++ syms s -> BALC Yn.
Proof.
  intros I G Gv Hh Ns Hf E E0. unfold from_corner in E.
  set (n := ((1 - ideal (syms s))%Z, length (syms s))).
  destruct (outer_hist_k ifs n (outer_fuel c2v) (with_stack s [Some c]) s') as (A5 & A6 & A7); [apply Inv_stack; auto| | |exact Hh|exact Ns|exact E|].
  - unfold stack_ok, EbEncoder_proofs.stack_ok. cbn [with_stack stack vv]. constructor; auto.
  - unfold SG. cbn [with_stack stack vf]. constructor; auto.
  - split; [exact (A6 E0)|].
    assert (K0 : KO n (with_stack s [Some c])).
    { intros E1. cbn [with_stack stack tl vf evs] in *. split; [constructor; [intros []|constructor]|]. split; [constructor|].
      split; [intros top r Q; injection Q as <- _; exists c; auto|]. unfold CNT, n. cbn [with_stack stack syms length fst snd].
      split; [lia|]. intros m Hm Hl. lia. }
    destruct (A7 K0 E0) as (_ & _ & _ & (Kc & Kp)). rewrite A5 in Kc. cbn [length fst snd n] in Kc, Kp.
    intros Yn EY. rewrite EY in Kc, Kp. rewrite ideal_app in Kc. split; [lia|].
    intros m Hm. specialize (Kp m ltac:(lia)). rewrite app_length in Kp. specialize (Kp ltac:(lia)).
    rewrite skipn_app in Kp. replace (m - length Yn) with 0 in Kp by lia. cbn [skipn] in Kp. rewrite ideal_app in Kp. lia.
Qed.

(** what a run appends to the history *)
Lemma outer_block ifs : forall fuel s s', Inv ifs s -> stack_ok s -> SG s -> (forall nxt, hist ifs nxt (pcc s) (syms s)) -> NSI s ->
  outer c2v opp hid fuel s = EOk s' ->
  exists Pn Yn, pcc s' = Pn ++ pcc s /\ syms s' = Yn ++ syms s /\ length Pn = length Yn /\ (stack s = [] -> Pn = []) /\
    (forall c, stack s = [Some c] -> nth (c / 3) (vf s) false = false ->
       Pn <> [] /\ last Pn 0 = c /\ (~ In 1%Z Yn -> exists Yr, Yn = 7%Z :: Yr /\ ~ In 7%Z Yr)).
Proof.
  induction fuel as [|k IH]; intros s s' I SO Sg Hh Ns E; cbn [outer] in E; [discriminate|].
  destruct (stack s) as [|top r] eqn:St.
  - inversion E; subst. exists [], []. split; [reflexivity|]. split; [reflexivity|]. split; [reflexivity|]. split; [reflexivity|]. intros c0 X. discriminate.
  - assert (Pop : outer c2v opp hid k (with_stack s r) = EOk s' -> (forall c, top = Some c -> nth (c / 3) (vf s) false = true) ->
       exists Pn Yn, pcc s' = Pn ++ pcc s /\ syms s' = Yn ++ syms s /\ length Pn = length Yn /\ (top :: r = [] -> Pn = []) /\
         (forall c, top :: r = [Some c] -> nth (c / 3) (vf s) false = false ->
            Pn <> [] /\ last Pn 0 = c /\ (~ In 1%Z Yn -> exists Yr, Yn = 7%Z :: Yr /\ ~ In 7%Z Yr))).
    { intros E' Hv0. destruct (IH (with_stack s r) s') as (Pn & Yn & A1 & A2 & A3 & _); [apply Inv_stack; auto| | |exact Hh|exact Ns|exact E'|].
      - unfold stack_ok, EbEncoder_proofs.stack_ok in *. cbn [with_stack stack vv]. rewrite St in SO. inversion SO; auto.
      - unfold SG in *. cbn [with_stack stack vf]. rewrite St in Sg. inversion Sg; auto.
      - exists Pn, Yn. split; auto. split; auto. split; auto. split; [discriminate|].
        intros c X U. inversion X; subst. rewrite (Hv0 c eq_refl) in U. discriminate. }
    destruct top as [c|]; [|apply Pop; auto; intros c X; discriminate].
    assert (G : gate_ok (vv s) c). { unfold stack_ok, EbEncoder_proofs.stack_ok in SO. rewrite St in SO. inversion SO; auto. }
    assert (Hf3 : c / 3 < nf) by (destruct G; apply Nat.div_lt_upper_bound; lia).
    rewrite (eget_lt (vf s) (c / 3) false) in E by (rewrite (b_vf _ _ _ _ _ _ (i_base _ _ _ _ _ _ I)); auto). cbn [ebind] in E.
    destruct (nth (c / 3) (vf s) false) eqn:Ef; [apply Pop; auto; intros c0 X; inversion X; subst; auto|].
    rewrite NF_eq in E.
    destruct (inner c2v opp hid nf s (Some c)) as [s1| | |] eqn:E1; cbn [ebind] in E; try discriminate.
    assert (Gv : gatev (vf s) c). { unfold SG in Sg. rewrite St in Sg. inversion Sg; auto. }
    assert (Uk : ucnt (vf s) <= nf). { rewrite <- (b_vf _ _ _ _ _ _ (i_base _ _ _ _ _ _ I)). unfold ucnt. lia. }
    destruct (inner_hist ifs nf s c s1) as (I1 & SO1 & Sg1 & H1 & M1 & N1); auto. { rewrite St. discriminate. }
    destruct (inner_shape c2v opp hid nf s c s1 E1) as (Pn1 & Yn1 & B1 & B2 & B3 & B4 & B5 & B6).
    destruct (IH s1 s' I1 SO1 Sg1 H1 N1 E) as (Pn2 & Yn2 & C1 & C2 & C3 & C4 & _).
    exists (Pn2 ++ Pn1), (Yn2 ++ Yn1). rewrite C1, C2, B1, B2, !app_assoc. split; auto. split; auto.
    split; [rewrite !app_length; lia|]. split; [discriminate|].
    intros c0 X _. inversion X; subst c0 r. clear X.
    assert (Ny : Yn1 <> []) by (apply B6; lia).
    assert (Np : Pn1 <> []) by (intro X; subst Pn1; destruct Yn1; [congruence|discriminate]).
    split; [intro X; apply app_eq_nil in X; destruct X; congruence|].
    split; [rewrite last_app2 by auto; auto|].
    intros N1'. destruct Yn1 as [|y0 Yr1]; [congruence|]. cbn [blk_shape] in B5. destruct B5 as (S1 & S2 & S3 & S4).
    assert (Ey : y0 = 7%Z).
    { destruct S4 as [X|[X|X]]; auto.
      - exfalso. apply N1'. apply in_or_app. right. left. auto.
      - exfalso. specialize (H1 None). rewrite B1, B2 in H1. destruct Pn1 as [|p Pr]; [congruence|].
        cbn [app] in H1. inversion H1 as [|? ? ? ? ? Hh0 Hf]; subst. destruct Hf as (_ & _ & _ & Hd). cbv zeta in Hd.
        destruct X as [X|[X|X]]; subst y0;
          destruct Hd as [(D1 & _)|[(D1 & D2 & _)|[(D1 & D2 & _)|[(D1 & D2 & _)|(D1 & _)]]]]; try discriminate; congruence. }
    subst y0. rewrite (S3 eq_refl), St in C4. cbn [tl] in C4. specialize (C4 eq_refl). subst Pn2. destruct Yn2; [|discriminate].
    cbn [app]. exists Yr1. auto.
Qed.

Lemma from_corner_block ifs s c s' : Inv ifs s -> gate_ok (vv s) c -> gatev (vf s) c ->
  (forall nxt, hist ifs nxt (pcc s) (syms s)) -> NSI s -> nth (c / 3) (vf s) false = false ->
  from_corner c2v opp hid s (Some c) = EOk s' ->
  exists Pn Yn, pcc s' = Pn ++ pcc s /\ syms s' = Yn ++ syms s /\ length Pn = length Yn /\
    Pn <> [] /\ last Pn 0 = c /\ (~ In 1%Z Yn -> exists Yr, Yn = 7%Z :: Yr /\ ~ In 7%Z Yr).
Proof.
  intros I G Gv Hh Ns U E. unfold from_corner in E.
  destruct (outer_block ifs (outer_fuel c2v) (with_stack s [Some c]) s') as (Pn & Yn & A1 & A2 & A3 & _ & A5);
    [apply Inv_stack; auto| | |exact Hh|exact Ns|exact E|].
  - unfold stack_ok, EbEncoder_proofs.stack_ok. cbn [with_stack stack vv]. constructor; auto.
  - unfold SG. cbn [with_stack stack vf]. constructor; auto.
  - destruct (A5 c eq_refl U) as (X1 & X2 & X3). exists Pn, Yn. auto.
Qed.

(** the loop over all corners of EncodeConnectivity *)
(** an interior start face: every corner has a neighbour, every vertex is interior *)
Definition IFc (ic : nat) : Prop :=
  ic < 3 * nf /\ forall x, x < 3 * nf -> x / 3 = ic / 3 -> opp_at opp x <> None /\ nth (vtx c2v x) hid None = None.
(** different interior start faces have no vertex in common *)
Definition IDJ (inits : list nat) : Prop :=
  forall m1 m2 ic1 ic2, m1 < m2 -> nth_error (rev inits) m1 = Some ic1 -> nth_error (rev inits) m2 = Some ic2 ->
    forall x1 x2, x1 < 3 * nf -> x2 < 3 * nf -> x1 / 3 = ic1 / 3 -> x2 / 3 = ic2 / 3 -> vtx c2v x1 <> vtx c2v x2.

(** with one start-face bit and no split event: #E = #S + 1 *)
Definition CNTE (bits : list bool) (inits : list nat) (s : est) : Prop :=
  (evs s = [] -> ideal (syms s) = (1 - Z.of_nat (length bits))%Z) /\
  RUNS2 opp IFc (evs s = []) bits inits (pcc s) (syms s).
Definition ECH (st : eres (est * list bool * list nat)) : Prop :=
  forall s bits inits, st = EOk (s, bits, inits) ->
    (forall nxt, hist (faces (rev inits)) nxt (pcc s) (syms s)) /\ NSI s /\
    RUNS opp IFc bits inits (pcc s) (syms s) /\ IDJ inits /\ CNTE bits inits s.

Lemma ec_corner_hist done st c_id : c_id < 3 * nf -> ECinv c2v opp nf nv nh done st -> ECH st -> ECH (ec_corner c2v opp hid st c_id).
Proof.
  intros Hc (s & bits & inits & -> & I & Fi & Cb & CL & DN & T3) HE. destruct (HE s bits inits eq_refl) as (Hh & Ns & HR & HD & HC). clear HE.
  unfold ec_corner. cbn [ebind].
  assert (Hf3 : c_id / 3 < nf) by (apply Nat.div_lt_upper_bound; lia).
  pose proof (i_base _ _ _ _ _ _ I) as B0.
  rewrite (eget_lt (vf s) (c_id / 3) false) by (rewrite (b_vf _ _ _ _ _ _ B0); auto). cbn [ebind].
  destruct (nth (c_id / 3) (vf s) false) eqn:Ef.
  { intros s0 b0 i0 E. inversion E; subst. split; auto. }
  destruct (is_degenerated c2v (c_id / 3)) eqn:Ed.
  { intros s0 b0 i0 E. inversion E; subst. split; auto. }
  destruct (FI _ Hf3 Ed) as (start & interior & E1 & Hs & HI & HB). rewrite E1. cbn [ebind].
  destruct interior.
  - destruct (HI eq_refl) as (HI1 & HIall). clear HB HI. rename HI1 into HI.
    destruct (HIall start Hs HI) as (_ & HI3).
    destruct (HIall (prev_c start) (prev_lt _ _ Hs) ltac:(rewrite prev_face; auto)) as (HIp & HI4).
    destruct (HIall (next_c start) (next_lt _ _ Hs) ltac:(rewrite next_face; auto)) as (HI2 & _).
    rewrite (e_vertex_ok start Hs), (e_vertex_ok (next_c start)), (e_vertex_ok (prev_c start)) by (try apply next_lt; try apply prev_lt; auto).
    cbn [ebind].
    pose proof (Hv start Hs) as V1. pose proof (Hv _ (next_lt _ _ Hs)) as V2. pose proof (Hv _ (prev_lt _ _ Hs)) as V3.
    rewrite (eset_lt (vv s)) by (rewrite (b_vv _ _ _ _ _ _ B0); auto). cbn [ebind].
    rewrite eset_lt by (rewrite upd_length, (b_vv _ _ _ _ _ _ B0); auto). cbn [ebind].
    rewrite eset_lt by (rewrite !upd_length, (b_vv _ _ _ _ _ _ B0); auto). cbn [ebind].
    rewrite (eset_lt (vf s)) by (rewrite (b_vf _ _ _ _ _ _ B0); auto). cbn [ebind].
    set (vv' := upd (upd (upd (vv s) (vtx c2v start) true) (vtx c2v (next_c start)) true) (vtx c2v (prev_c start)) true).
    assert (M : vle (vv s) vv') by (unfold vv'; eapply vle_trans; [eapply vle_trans|]; apply vle_upd).
    assert (Lv : length (vv s) = nv) by apply B0.
    assert (A1 : nth (vtx c2v start) vv' false = true).
    { unfold vv'. rewrite !nth_upd. rewrite !upd_length.
      destruct ((_ =? _) && _); auto. destruct ((_ =? _) && _); auto. rewrite Nat.eqb_refl.
      assert (vtx c2v start <? length (vv s) = true) by (apply Nat.ltb_lt; lia). rewrite H. auto. }
    assert (A2 : nth (vtx c2v (next_c start)) vv' false = true).
    { unfold vv'. rewrite !nth_upd. rewrite !upd_length.
      destruct ((_ =? _) && _); auto. rewrite Nat.eqb_refl.
      assert (vtx c2v (next_c start) <? length (vv s) = true) by (apply Nat.ltb_lt; lia). rewrite H. auto. }
    assert (A3 : nth (vtx c2v (prev_c start)) vv' false = true).
    { unfold vv'. rewrite nth_upd. rewrite !upd_length. rewrite Nat.eqb_refl.
      assert (vtx c2v (prev_c start) <? length (vv s) = true) by (apply Nat.ltb_lt; lia). rewrite H. auto. }
    assert (I1 : Inv (faces (rev (next_c start :: inits))) (with_vf (with_vv s vv') (upd (vf s) (c_id / 3) true))).
    { unfold faces. cbn [rev]. rewrite map_app. cbn [map]. cbv beta. rewrite (next_face start), HI. apply Inv_init; auto.
      intros x Hx Ex. rewrite <- HI in Ex. destruct (face_corners _ _ Ex) as [X|[X|X]]; subst x; auto. }
    set (s1 := with_vf (with_vv s vv') (upd (vf s) (c_id / 3) true)) in *.
    assert (Vf1 : vf s1 = upd (vf s) (c_id / 3) true) by reflexivity.
    (* the history under the larger set of start faces *)
    assert (H1 : forall nxt, hist (faces (rev (next_c start :: inits))) nxt (pcc s1) (syms s1)).
    { intros nxt. cbn [s1 with_vf with_vv pcc syms]. apply (hist_mono (faces (rev inits))); auto.
      - unfold faces. cbn [rev]. rewrite map_app. intros a Ha. apply in_or_app. auto.
      - intros k c Ec Ey x Hx Nx Vx Hin. unfold faces in Hin. cbn [rev] in Hin. rewrite map_app in Hin. apply in_app_or in Hin.
        destruct (hist_nth _ _ _ _ (Hh None)) as [_ Fk]. destruct (Fk k c 0%Z Ec Ey) as (Lc & Dc & _ & D). cbv zeta in D.
        destruct D as [(D & _)|[(D & _)|[(D & _)|[(_ & _ & _ & _ & D5)|(D & _)]]]]; try discriminate.
        destruct Hin as [Hin|[Hin|[]]].
        + apply (D5 x Hx Nx Vx). apply in_or_app. right. exact Hin.
        + (* the new start face is unvisited, but the face of a C corner and hence every face around its tip is visited *)
          cbv beta in Hin. rewrite next_face, HI in Hin.
          assert (Vc : nth (c / 3) (vf s) false = true).
          { apply (b_in _ _ _ _ _ _ B0). apply in_or_app. left. apply (in_map (fun c => c / 3)). eapply nth_error_In; eauto. }
          assert (Vx' : nth (x / 3) (vf s) false = true).
          { apply (FANC (vf s) c x); auto. intros y Hy Hvis. apply (b_vis _ _ _ _ _ _ B0 y Hy Hvis). }
          rewrite <- Hin in Vx'. congruence. }
    assert (Ns1 : NSI s1).
    { destruct Ns as [N0 V0]. split; [exact N0|]. intros v Hv0. cbn [s1 with_vf with_vv vv vf] in *.
      assert (Cases : (exists x, x < 3 * nf /\ x / 3 = c_id / 3 /\ vtx c2v x = v) \/ nth v (vv s) false = true).
      { unfold vv' in Hv0. rewrite !nth_upd in Hv0.
        destruct ((v =? vtx c2v (prev_c start)) && _) eqn:Q1.
        { left. apply andb_prop in Q1. destruct Q1 as [Q1 _]. apply Nat.eqb_eq in Q1. exists (prev_c start). split; [apply prev_lt; auto|]. split; [rewrite prev_face; auto|auto]. }
        destruct ((v =? vtx c2v (next_c start)) && _) eqn:Q2.
        { left. apply andb_prop in Q2. destruct Q2 as [Q2 _]. apply Nat.eqb_eq in Q2. exists (next_c start). split; [apply next_lt; auto|]. split; [rewrite next_face; auto|auto]. }
        destruct ((v =? vtx c2v start) && _) eqn:Q3.
        { left. apply andb_prop in Q3. destruct Q3 as [Q3 _]. apply Nat.eqb_eq in Q3. exists start. auto. }
        auto. }
      destruct Cases as [(x & A & B & C)|Hv1].
      - right. exists x. split; auto. split; auto. rewrite B. apply nth_upd_eq. rewrite (b_vf _ _ _ _ _ _ B0). auto.
      - destruct (V0 v Hv1) as [X|(x & A & B & C)]; auto. right. exists x. split; auto. split; auto. apply (proj2 (vle_upd (vf s) (c_id / 3))). auto. }
    rewrite (e_opp_ok (next_c start)) by (apply next_lt; auto). cbn [ebind].
    destruct (opp_at opp (next_c start)) as [oc|] eqn:Eo; [|congruence].
    destruct (right_gate vv' start oc Hs Eo A1 A3) as (Go & Nf & _).
    destruct (opp_facts _ _ Eo) as (Eo' & _).
    assert (Ho3 : oc / 3 < nf) by (destruct Go; apply Nat.div_lt_upper_bound; lia).
    cbn [s1 with_vf vf]. rewrite (eget_lt (upd (vf s) (c_id / 3) true) (oc / 3) false) by (rewrite upd_length, (b_vf _ _ _ _ _ _ B0); auto). cbn [ebind].
    destruct (nth (oc / 3) (upd (vf s) (c_id / 3) true) false) eqn:Eov.
    { exfalso. rewrite nth_upd_neq in Eov by (rewrite <- HI; auto).
      apply (CL oc (next_c start)). destruct Go as (Lo & _). repeat split; auto. rewrite next_face, HI. auto. }
    fold s1. destruct (from_corner c2v opp hid s1 (Some oc)) as [s'| | |] eqn:E'; cbn [ebind]; try (intros s0 b0 i0 E; discriminate).
    assert (Gvo : gatev (vf s1) oc).
    { intros x0 E0. rewrite Eo' in E0. inversion E0; subst x0. rewrite next_face, HI, Vf1. apply nth_upd_eq. rewrite (b_vf _ _ _ _ _ _ B0). auto. }
    destruct (from_corner_hist _ s1 oc s' I1 Go) as (R1 & R2 & R3 & R4); auto.
    destruct (from_corner_block _ s1 oc s' I1 Go Gvo H1 Ns1 Eov E') as (Pn & Yn & K1 & K2 & K3 & K4 & K5 & K6).
    intros s0 b0 i0 E. inversion E as [[X1 X2 X3]]. clear E. subst s0 b0 i0. split; [auto|]. split; [auto|]. split; [|split].
    3:{ assert (EvM : evs s' = [] -> evs s = [] /\ BALC Yn).
        { intros E0. destruct (from_corner_hist_k _ s1 oc s' I1 Go Gvo H1 Ns1 Eov E' E0) as (M1 & M2). split; [exact M1|]. apply M2. exact K2. }
        split.
        - intros E0. destruct (EvM E0) as (M1 & (B1 & _)). rewrite K2, ideal_app, B1. cbn [s1 with_vf with_vv syms length]. rewrite (proj1 HC M1). lia.
        - rewrite K1, K2. cbn [s1 with_vf with_vv pcc syms]. apply (R2_run opp IFc _ true bits inits (next_c start :: inits)); auto.
          + apply (RUNS2_impl opp IFc IFc (evs s = [])); [auto|intros E0; apply (EvM E0)|apply HC].
          + intros E0. apply (EvM E0).
          + exists (next_c start). split; auto. split; [rewrite K5; auto|]. split; [apply next_lt; auto|].
            intros x Hx Fx. rewrite next_face, HI in Fx. destruct (HIall x Hx Fx). auto. }
    { rewrite K1, K2. cbn [s1 with_vf with_vv pcc syms]. apply (R_run opp IFc true bits inits (next_c start :: inits)); auto.
      exists (next_c start). split; auto. split; [rewrite K5; auto|]. split; [apply next_lt; auto|].
      intros x Hx Fx. rewrite next_face, HI in Fx. destruct (HIall x Hx Fx). auto. }
    { (* the new start face shares no vertex with an earlier one *)
      intros m1 m2 ic1 ic2 Hm E1' E2' x1 x2 Hx1 Hx2 F1 F2 Ev. cbn [rev] in E1', E2'.
      assert (Lm2 : m2 < length (rev inits) + 1).
      { assert (m2 < length (rev inits ++ [next_c start])) by (apply nth_error_Some; congruence). rewrite app_length in H. cbn in H. lia. }
      assert (L1 : m1 < length (rev inits)) by lia.
      rewrite nth_error_app1 in E1' by auto.
      destruct (Nat.lt_ge_cases m2 (length (rev inits))) as [L2|L2].
      - rewrite nth_error_app1 in E2' by auto. apply (HD m1 m2 ic1 ic2 Hm E1' E2' x1 x2); auto.
      - rewrite nth_error_app2 in E2' by auto.
        assert (H : m2 - length (rev inits) = 0) by lia.
        rewrite H in E2'. cbn in E2'. inversion E2'; subst ic2. rewrite next_face, HI in F2.
        assert (W1 : nth (x1 / 3) (vf s) false = true).
        { apply (b_in _ _ _ _ _ _ B0). apply in_or_app. right. rewrite F1. apply (in_map (fun c => c / 3)). eapply nth_error_In; eauto. }
        assert (W2 : nth (x2 / 3) (vf s) false = true).
        { apply (FANC (vf s) x1 x2); auto.
          - intros y Hy Hvis. apply (b_vis _ _ _ _ _ _ B0 y Hy Hvis).
          - apply (b_vis _ _ _ _ _ _ B0 x1 Hx1 W1).
          - unfold EbEncoder_proofs.nondeg. rewrite F2. auto. }
        rewrite F2 in W2. congruence. }
  - destruct (HB eq_refl) as (Dn & On & cc & yy & F1 & F2 & F3 & F4 & F5 & F6). clear HI HB.
    destruct (Hhb start Hs Dn On) as (Hn1 & Hn2).
    assert (Dn' : nondeg (next_c start)) by (unfold nondeg, EbEncoder_proofs.nondeg in *; rewrite next_face; auto).
    destruct (EH s (next_c start) true (b_vv _ _ _ _ _ _ B0) (b_vh _ _ _ _ _ _ B0) (next_lt _ _ Hs) Dn' Hn1) as (vv' & vh' & E2 & M & Lh & Fst).
    destruct (Fst eq_refl) as (A1 & A2). rewrite prev_next in A2. specialize (A2 On).
    rewrite E2. cbn [ebind].
    pose proof (Inv_vv _ s vv' vh' I M Lh) as I1.
    set (s1 := with_vhole (with_vv s vv') vh') in *.
    destruct (from_corner c2v opp hid s1 (Some start)) as [s'| | |] eqn:E'; cbn [ebind]; try (intros s0 b0 i0 E; discriminate).
    assert (Gs : gate_ok (vv s1) start) by (repeat split; auto).
    assert (Gvs : gatev (vf s1) start) by (intros x0 E0; congruence).
    assert (Ns1 : NSI s1).
    { destruct Ns as [N0 V0]. split; [exact N0|]. intros v Hv0.
      destruct (encode_hole_vv s (next_c start) true _ (next_lt _ _ Hs) Dn' E2 v Hv0) as [X|X]; auto. }
    destruct (from_corner_hist _ s1 start s' I1 Gs Gvs Hh Ns1 E') as (R1 & R2 & R3 & R4).
    assert (Us : nth (start / 3) (vf s1) false = false).
    { cbn [s1 with_vhole with_vv vf]. destruct (nth (start / 3) (vf s) false) eqn:Q; auto. exfalso.
      assert (V2 : nth (cc / 3) (vf s) false = true).
      { apply (FANC (vf s) yy cc); auto.
        - intros y Hy Hvis. apply (b_vis _ _ _ _ _ _ B0 y Hy Hvis).
        - unfold EbEncoder_proofs.nondeg. rewrite F1. auto.
        - rewrite <- (prev_face yy), <- F6. auto. }
      rewrite F1 in V2. congruence. }
    destruct (from_corner_block _ s1 start s' I1 Gs Gvs Hh Ns1 Us E') as (Pn & Yn & K1 & K2 & K3 & K4 & K5 & K6).
    intros s0 b0 i0 E. inversion E as [[X1 X2 X3]]. clear E. subst s0 b0 i0. split; [auto|]. split; [auto|]. split; [|split; [auto|]].
    { rewrite K1, K2. cbn [s1 with_vhole with_vv pcc syms]. apply (R_run opp IFc false bits inits inits); auto. }
    assert (EvM : evs s' = [] -> evs s = [] /\ BALC Yn).
    { intros E0. destruct (from_corner_hist_k _ s1 start s' I1 Gs Gvs Hh Ns1 Us E' E0) as (M1 & M2). split; [exact M1|]. apply M2. exact K2. }
    split.
    + intros E0. destruct (EvM E0) as (M1 & (B1 & _)). rewrite K2, ideal_app, B1. cbn [s1 with_vhole with_vv syms length]. rewrite (proj1 HC M1). lia.
    + rewrite K1, K2. cbn [s1 with_vhole with_vv pcc syms]. apply (R2_run opp IFc _ false bits inits inits); auto.
      * apply (RUNS2_impl opp IFc IFc (evs s = [])); [auto|intros E0; apply (EvM E0)|apply HC].
      * intros E0. apply (EvM E0).
Qed.

Lemma ec_fold_hist l : Forall (fun c => c < 3 * nf) l -> forall done st, ECinv c2v opp nf nv nh done st -> ECH st ->
  ECH (fold_left (ec_corner c2v opp hid) l st).
Proof.
  induction 1; intros done st I E; simpl; auto. apply (IHForall (x :: done)).
  - apply (ec_corner_ok c2v opp nf nv nh hid Hlen OK Hv Hhl Hhr Hhb EH FI ENDH FANC); auto.
  - eapply ec_corner_hist; eauto.
Qed.

(** what [eb_encode] returns, with the history invariant *)
Theorem encode_hist vh niso ndeg o : length vh = nh ->
  find_holes c2v opp nv = EOk (hid, vh) ->
  eb_encode c2v opp nv niso ndeg = EOk o ->
  exists s bits inits,
    o_syms o = rev (syms s) /\ o_events o = rev (evs s) /\ o_bits o = rev bits /\ o_pcc o = pcc s ++ rev inits /\
    Inv (faces (rev inits)) s /\ Forall (fun c => c < 3 * nf) inits /\ length inits = count_occ bool_dec bits true /\
    (forall nxt, hist (faces (rev inits)) nxt (pcc s) (syms s)) /\ NSI s /\
    RUNS opp IFc bits inits (pcc s) (syms s) /\ IDJ inits /\ CNTE bits inits s.
Proof.
  intros Lh FH E. unfold eb_encode in E. rewrite NF_eq in E. destruct (nf =? ndeg); [discriminate|]. rewrite FH in E. cbn [ebind] in E.
  rewrite (NC_eq c2v nf Hlen) in E.
  assert (Fa : Forall (fun c => c < 3 * nf) (seq 0 (3 * nf))).
  { apply Forall_forall. intros x Hx. apply in_seq in Hx. lia. }
  assert (I0 : ECinv c2v opp nf nv nh [] (EOk (init_est nf nv vh, [], []))).
  { exists (init_est nf nv vh), [], []. split; auto. split. apply (init_Inv c2v opp); auto. split; auto. split; auto.
    split; [|split; [intros i []|simpl; lia]]. intros x y (_ & Vx & _). cbn [init_est vf] in Vx. rewrite nth_repeat_false in Vx. discriminate. }
  assert (H0 : ECH (EOk (init_est nf nv vh, @nil bool, @nil nat))).
  { intros s b i X. inversion X as [[Y1 Y2 Y3]]. cbn. split; [intros; constructor|].
    split; [split; [intros _; auto|intros v Hv0; cbn [init_est vv] in Hv0; rewrite nth_repeat_false in Hv0; discriminate]|]. split; [constructor|].
    split; [intros m1 m2 ic1 ic2 _ Z1; destruct m1; discriminate|]. split; [intros _; reflexivity|constructor]. }
  pose proof (ec_fold_ok c2v opp nf nv nh hid Hlen OK Hv Hhl Hhr Hhb EH FI ENDH FANC _ Fa [] _ I0) as (s & bits & inits & Ef & I & Fi & Cb & CL & DN & T3).
  pose proof (ec_fold_hist _ Fa [] _ I0 H0 s bits inits Ef) as (Hh & Ns & HR & HD & HC).
  rewrite Ef in E. cbn [ebind] in E. inversion E; subst o. cbn [o_syms o_events o_bits o_pcc].
  exists s, bits, inits. split; [reflexivity|]. split; [reflexivity|]. split; [reflexivity|]. split; [reflexivity|].
  split; [exact I|]. split; [exact Fi|]. split; [exact Cb|]. split; [exact Hh|]. split; [exact Ns|]. split; [exact HR|]. split; [exact HD|exact HC].
Qed.

(** one start-face bit, no split event: #E = #S + 1 over the output symbols *)
Theorem encode_cnt vh niso ndeg o : length vh = nh ->
  find_holes c2v opp nv = EOk (hid, vh) ->
  eb_encode c2v opp nv niso ndeg = EOk o ->
  length (o_bits o) = 1 -> o_events o = [] -> o_syms o = [] \/ ideal (rev (o_syms o)) = 0%Z.
Proof.
  intros Lh FH E. unfold eb_encode in E. rewrite NF_eq in E. destruct (nf =? ndeg); [discriminate|]. rewrite FH in E. cbn [ebind] in E.
  rewrite (NC_eq c2v nf Hlen) in E.
  assert (Fa : Forall (fun c => c < 3 * nf) (seq 0 (3 * nf))).
  { apply Forall_forall. intros x Hx. apply in_seq in Hx. lia. }
  assert (I0 : ECinv c2v opp nf nv nh [] (EOk (init_est nf nv vh, [], []))).
  { exists (init_est nf nv vh), [], []. split; auto. split. apply (init_Inv c2v opp); auto. split; auto. split; auto.
    split; [|split; [intros i []|simpl; lia]]. intros x y (_ & Vx & _). cbn [init_est vf] in Vx. rewrite nth_repeat_false in Vx. discriminate. }
  assert (H0 : ECH (EOk (init_est nf nv vh, @nil bool, @nil nat))).
  { intros s b i X. inversion X as [[Y1 Y2 Y3]]. cbn. split; [intros; constructor|].
    split; [split; [intros _; auto|intros v Hv0; cbn [init_est vv] in Hv0; rewrite nth_repeat_false in Hv0; discriminate]|]. split; [constructor|].
    split; [intros m1 m2 ic1 ic2 _ Z1; destruct m1; discriminate|]. split; [intros _; reflexivity|constructor]. }
  pose proof (ec_fold_ok c2v opp nf nv nh hid Hlen OK Hv Hhl Hhr Hhb EH FI ENDH FANC _ Fa [] _ I0) as (s & bits & inits & Ef & I & Fi & Cb & CL & DN & T3).
  pose proof (ec_fold_hist _ Fa [] _ I0 H0 s bits inits Ef) as (_ & _ & _ & _ & HC).
  rewrite Ef in E. cbn [ebind] in E. inversion E; subst o. cbn [o_syms o_events o_bits o_pcc].
  intros Lb Ev. rewrite rev_length in Lb. rewrite rev_involutive.
  assert (Ev' : evs s = []) by (destruct (evs s) as [|e l]; [auto|apply (f_equal (@length _)) in Ev; rewrite rev_length in Ev; cbn in Ev; lia]).
  right. rewrite (proj1 HC Ev'), Lb. reflexivity.
Qed.

Lemma nvis_of_vis P I k o : k < length P -> NoDup (faces (P ++ I)) -> vis_o (skipn (S k) P) (faces I) o -> nvis (P ++ I) k o.
Proof.
  intros Hk ND V x E j' Hj' F. specialize (V x E).
  rewrite <- (firstn_skipn k P) in ND. unfold faces in ND. rewrite <- app_assoc, map_app in ND.
  apply (nodup_app_disj _ _ (x / 3) ND).
  - rewrite <- F. apply (in_map (fun c => c / 3)). rewrite app_nth1 by lia.
    rewrite <- (firstn_skipn k P) at 1. rewrite app_nth1 by (rewrite firstn_length_le; lia). apply nth_In. rewrite firstn_length_le; lia.
  - rewrite map_app. apply in_app_or in V. apply in_or_app. destruct V as [V|V]; [left|right; exact V].
    unfold faces in V. apply in_map_iff in V. destruct V as (z & Ez & Hz). apply in_map_iff. exists z. split; auto.
    destruct (skipn k P) as [|a r] eqn:Es.
    + exfalso. assert (L : length (skipn k P) = length P - k) by apply skipn_length. rewrite Es in L. cbn in L. lia.
    + replace (skipn (S k) P) with r in Hz. right. auto.
      rewrite skipn_S_tl, Es. reflexivity.
Qed.

(** what [eb_encode] returns, in index form *)
Theorem encode_facts vh niso ndeg o : length vh = nh ->
  find_holes c2v opp nv = EOk (hid, vh) ->
  eb_encode c2v opp nv niso ndeg = EOk o ->
  let Q := o_pcc o in let Y := rev (o_syms o) in
  length Y + count_occ bool_dec (o_bits o) true = length Q /\
  NoDup (faces Q) /\
  (forall k y, nth_error Y k = Some y -> efact c2v opp nf Q k (nth k Q 0) y) /\
  (~ In 1%Z Y -> o_events o = []) /\
  RUNS opp (IFc' c2v opp nf) (rev (o_bits o)) (rev (skipn (length Y) Q)) (firstn (length Y) Q) Y /\
  (forall m1 m2, m1 < m2 -> length Y + m2 < length Q -> forall x1 x2, x1 < 3 * nf -> x2 < 3 * nf ->
     x1 / 3 = nth (length Y + m1) Q 0 / 3 -> x2 / 3 = nth (length Y + m2) Q 0 / 3 -> vtx c2v x1 <> vtx c2v x2).
Proof.
  intros Lh FH E Q Y. destruct (encode_hist vh niso ndeg o Lh FH E) as (s & bits & inits & E1 & E2 & E3 & E4 & I & Fi & Cb & Hh & Ns & HR & HD & _).
  pose proof (i_base _ _ _ _ _ _ I) as B0.
  destruct (hist_nth _ _ _ _ (Hh None)) as [Ln Fk].
  assert (EY : Y = syms s) by (unfold Y; rewrite E1, rev_involutive; auto).
  assert (EQ : Q = pcc s ++ rev inits) by (unfold Q; auto).
  assert (ND : NoDup (faces (pcc s ++ rev inits))) by (unfold faces; rewrite map_app; apply B0).
  assert (LY : length Y = length (pcc s)) by (rewrite EY; apply (i_len _ _ _ _ _ _ I)).
  split; [|split; [|split; [|split; [|split]]]].
  - rewrite EY, EQ, app_length, rev_length, E3, count_occ_rev, <- Cb. lia.
  - rewrite EQ. auto.
  - intros k y Ey. rewrite EY in Ey.
    assert (Hk : k < length (pcc s)). { rewrite Ln. apply nth_error_Some. congruence. }
    assert (Ec : nth_error (pcc s) k = Some (nth k Q 0)). { rewrite EQ, app_nth1 by auto. apply nth_error_nth'. auto. }
    destruct (Fk k _ y Ec Ey) as (A & B & C & D). cbv zeta in D.
    assert (NV : forall o0, vis_o (skipn (S k) (pcc s)) (faces (rev inits)) o0 -> nvis Q k o0).
    { intros o0 V. rewrite EQ. apply nvis_of_vis; auto. }
    assert (NX : forall o0, match k with 0 => None | S k' => Some (nth k' (pcc s) 0) end <> None ->
                 o0 = match k with 0 => None | S k' => Some (nth k' (pcc s) 0) end -> 1 <= k /\ o0 = Some (nth (k - 1) Q 0)).
    { intros o0 N1 N2. destruct k as [|k']; [congruence|]. split; [lia|]. rewrite N2. f_equal. rewrite EQ, app_nth1 by lia.
      f_equal. lia. }
    split; [auto|]. split; [auto|]. split; [apply NV; auto|]. cbv zeta.
    destruct D as [(D1 & D2 & D3)|[(D1 & D2 & D3 & D4)|[(D1 & D2 & D3 & D4)|[(D1 & D2 & D3 & D4 & D5)|D]]]].
    + left. repeat split; auto.
    + right. left. destruct (NX _ D2 D3). repeat split; auto.
    + right. right. left. destruct (NX _ D2 D3). repeat split; auto.
    + right. right. right. left. destruct (NX _ D2 D3). split; auto. split; auto. split; auto.
      intros x Hx Nx Vx. split; [|split].
      * intro X. destruct (Hhb (next_c x)) as [_ Y0]; auto. apply next_lt; auto. rewrite next_face; auto.
        rewrite prev_next, Vx in Y0. congruence.
      * intro X. destruct (Hhb (prev_c x)) as [Y0 _]; auto. apply prev_lt; auto. rewrite prev_face; auto.
        rewrite next_prev, Vx in Y0. congruence.
      * intros j' Hj' F. apply (D5 x Hx Nx Vx). rewrite <- F.
        assert (X : In (nth j' Q 0) (skipn (S k) (pcc s) ++ rev inits)).
        { assert (Sk : skipn (S k) Q = skipn (S k) (pcc s) ++ rev inits).
          { rewrite EQ, skipn_app. replace (S k - length (pcc s)) with 0 by lia. reflexivity. }
          rewrite <- Sk. rewrite <- (firstn_skipn (S k) Q) at 1. rewrite app_nth2 by (rewrite firstn_length_le; lia).
          apply nth_In. rewrite firstn_length_le by lia. rewrite skipn_length. lia. }
        unfold faces. rewrite <- map_app. apply (in_map (fun c => c / 3)). auto.
    + destruct D as (D1 & x & X1 & X2 & X3 & X4 & X5). right. right. right. right. split; auto. exists x. repeat split; auto.
      destruct X5 as [X|[X|X]]; auto. left. apply (NV (Some x)); auto. intros x0 E0. inversion E0 as [E0']. rewrite <- E0'. exact X.
  - intros N. rewrite EY in N. destruct (proj1 Ns N) as [_ Ev]. rewrite E2, Ev. reflexivity.
  - rewrite E3, rev_involutive, EQ, LY, firstn_app, Nat.sub_diag, firstn_all, skipn_app, Nat.sub_diag, skipn_all. cbn [firstn skipn app].
    rewrite app_nil_r, rev_involutive, EY. apply (RUNS_impl opp IFc); auto.
    intros ic (A1 & A2). split; auto. intros t Ht Ft. destruct (A2 t Ht Ft) as (B1 & B2). split; auto.
    intros x Hx Nx Vx. split.
    + intro X. destruct (Hhb (next_c x)) as [_ Y0]; auto. apply next_lt; auto. rewrite next_face; auto.
      rewrite prev_next, Vx in Y0. congruence.
    + intro X. destruct (Hhb (prev_c x)) as [Y0 _]; auto. apply prev_lt; auto. rewrite prev_face; auto.
      rewrite next_prev, Vx in Y0. congruence.
  - intros m1 m2 Hm Hl x1 x2 Hx1 Hx2 F1 F2. rewrite EQ, app_length, rev_length in Hl.
    rewrite EQ, LY in F1, F2. rewrite app_nth2 in F1, F2 by lia.
    replace (length (pcc s) + m1 - length (pcc s)) with m1 in F1 by lia.
    replace (length (pcc s) + m2 - length (pcc s)) with m2 in F2 by lia.
    apply (HD m1 m2 (nth m1 (rev inits) 0) (nth m2 (rev inits) 0)); auto; apply nth_error_nth'; rewrite rev_length; lia.
Qed.

(** the runs with their balance, and the count of the whole output, when no split event was recorded *)
Theorem encode_runs2 vh niso ndeg o : length vh = nh ->
  find_holes c2v opp nv = EOk (hid, vh) ->
  eb_encode c2v opp nv niso ndeg = EOk o ->
  let Q := o_pcc o in let Y := rev (o_syms o) in
  (o_events o = [] -> ideal Y = (1 - Z.of_nat (length (o_bits o)))%Z) /\
  RUNS2 opp (IFc' c2v opp nf) (o_events o = []) (rev (o_bits o)) (rev (skipn (length Y) Q)) (firstn (length Y) Q) Y.
Proof.
  intros Lh FH E Q Y. destruct (encode_hist vh niso ndeg o Lh FH E) as (s & bits & inits & E1 & E2 & E3 & E4 & I & Fi & Cb & Hh & Ns & HR & HD & HC1 & HC2).
  assert (EY : Y = syms s) by (unfold Y; rewrite E1, rev_involutive; auto).
  assert (EQ : Q = pcc s ++ rev inits) by (unfold Q; auto).
  assert (LY : length Y = length (pcc s)) by (rewrite EY; apply (i_len _ _ _ _ _ _ I)).
  assert (EvE : o_events o = [] -> evs s = []).
  { rewrite E2. intros X. destruct (evs s) as [|e l]; [auto|]. apply (f_equal (@length _)) in X. rewrite rev_length in X. cbn in X. lia. }
  split.
  - intros Ev. rewrite EY, E3, rev_length. apply HC1. auto.
  - rewrite E3, rev_involutive, EQ, LY, firstn_app, Nat.sub_diag, firstn_all, skipn_app, Nat.sub_diag, skipn_all. cbn [firstn skipn app].
    rewrite app_nil_r, rev_involutive, EY. apply (RUNS2_impl opp IFc (IFc' c2v opp nf) (evs s = [])); auto.
    intros ic (A1 & A2). split; auto. intros t Ht Ft. destruct (A2 t Ht Ft) as (B1 & B2). split; auto.
    intros x Hx Nx Vx. split.
    + intro X. destruct (Hhb (next_c x)) as [_ Y0]; auto. apply next_lt; auto. rewrite next_face; auto.
      rewrite prev_next, Vx in Y0. congruence.
    + intro X. destruct (Hhb (prev_c x)) as [Y0 _]; auto. apply prev_lt; auto. rewrite prev_face; auto.
      rewrite next_prev, Vx in Y0. congruence.
Qed.

End Enc.

(** for every well-formed table (C13's invariants as hypotheses) *)
Theorem encode_count_wf c2v opp nf nv niso ndeg o :
  length c2v = 3 * nf -> opp_ok c2v opp -> (forall c, c < 3 * nf -> vtx c2v c < nv) -> one_fan c2v opp ->
  eb_encode c2v opp nv niso ndeg = EOk o -> length (o_bits o) = 1 -> o_events o = [] ->
  o_syms o = [] \/ ideal (rev (o_syms o)) = 0%Z.
Proof.
  intros Hlen OK Hv FAN E.
  assert (FAN' : forall c c', c < 3 * nf -> c' < 3 * nf -> is_degenerated c2v (c / 3) = false ->
     is_degenerated c2v (c' / 3) = false -> vtx c2v c = vtx c2v c' ->
     reach (swing_right opp) c c' \/ reach (swing_right opp) c' c).
  { intros. apply FAN; auto; lia. }
  destruct (find_holes_ok c2v opp nf nv Hlen OK Hv) as (hid & vh & EH & I & B).
  apply (encode_cnt c2v opp nf nv (length vh) hid Hlen OK Hv) with (vh := vh) (niso := niso) (ndeg := ndeg); auto.
  + apply I.
  + apply I.
  + intros j Hj Dj Oj. apply B. split; auto.
  + intros v Hv0. destruct I as (_ & _ & I3). destruct (I3 v Hv0) as (j & (A1 & A2 & A3) & A4). exists j. auto.
  + intros s c first. apply (encode_hole_ok c2v opp nf nv Hlen OK Hv FAN' hid vh I).
  + intros f. apply (find_init_ok c2v opp nf nv Hlen OK Hv FAN' hid vh I).
  + intros sf cl new vfl RP ND VN L. apply (run_end c2v opp nf hid Hlen OK FAN') with (sf := sf) (cl := cl) (new := new); auto.
    intros j Hj Dj Oj. apply B. split; auto.
  + intros vfl a b CL VN Ha Hb Da Db Ev Hvis. apply (fan_closed c2v opp nf hid Hlen OK FAN') with (a := a); auto.
    intros j Hj Dj Oj. apply B. split; auto.
Qed.

Theorem encode_runs2_wf c2v opp nf nv niso ndeg o :
  length c2v = 3 * nf -> opp_ok c2v opp -> (forall c, c < 3 * nf -> vtx c2v c < nv) -> one_fan c2v opp ->
  eb_encode c2v opp nv niso ndeg = EOk o ->
  let Q := o_pcc o in let Y := rev (o_syms o) in
  (o_events o = [] -> ideal Y = (1 - Z.of_nat (length (o_bits o)))%Z) /\
  RUNS2 opp (IFc' c2v opp nf) (o_events o = []) (rev (o_bits o)) (rev (skipn (length Y) Q)) (firstn (length Y) Q) Y.
Proof.
  intros Hlen OK Hv FAN E.
  assert (FAN' : forall c c', c < 3 * nf -> c' < 3 * nf -> is_degenerated c2v (c / 3) = false ->
     is_degenerated c2v (c' / 3) = false -> vtx c2v c = vtx c2v c' ->
     reach (swing_right opp) c c' \/ reach (swing_right opp) c' c).
  { intros. apply FAN; auto; lia. }
  destruct (find_holes_ok c2v opp nf nv Hlen OK Hv) as (hid & vh & EH & I & B).
  apply (encode_runs2 c2v opp nf nv (length vh) hid Hlen OK Hv) with (vh := vh) (niso := niso) (ndeg := ndeg); auto.
  + apply I.
  + apply I.
  + intros j Hj Dj Oj. apply B. split; auto.
  + intros v Hv0. destruct I as (_ & _ & I3). destruct (I3 v Hv0) as (j & (A1 & A2 & A3) & A4). exists j. auto.
  + intros s c first. apply (encode_hole_ok c2v opp nf nv Hlen OK Hv FAN' hid vh I).
  + intros f. apply (find_init_ok c2v opp nf nv Hlen OK Hv FAN' hid vh I).
  + intros sf cl new vfl RP ND VN L. apply (run_end c2v opp nf hid Hlen OK FAN') with (sf := sf) (cl := cl) (new := new); auto.
    intros j Hj Dj Oj. apply B. split; auto.
  + intros vfl a b CL VN Ha Hb Da Db Ev Hvis. apply (fan_closed c2v opp nf hid Hlen OK FAN') with (a := a); auto.
    intros j Hj Dj Oj. apply B. split; auto.
Qed.

Theorem encode_facts_wf c2v opp nf nv niso ndeg o :
  length c2v = 3 * nf -> opp_ok c2v opp -> (forall c, c < 3 * nf -> vtx c2v c < nv) -> one_fan c2v opp ->
  eb_encode c2v opp nv niso ndeg = EOk o ->
  let Q := o_pcc o in let Y := rev (o_syms o) in
  length Y + count_occ bool_dec (o_bits o) true = length Q /\
  NoDup (faces Q) /\
  (forall k y, nth_error Y k = Some y -> efact c2v opp nf Q k (nth k Q 0) y) /\
  (~ In 1%Z Y -> o_events o = []) /\
  RUNS opp (IFc' c2v opp nf) (rev (o_bits o)) (rev (skipn (length Y) Q)) (firstn (length Y) Q) Y /\
  (forall m1 m2, m1 < m2 -> length Y + m2 < length Q -> forall x1 x2, x1 < 3 * nf -> x2 < 3 * nf ->
     x1 / 3 = nth (length Y + m1) Q 0 / 3 -> x2 / 3 = nth (length Y + m2) Q 0 / 3 -> vtx c2v x1 <> vtx c2v x2).
Proof.
  intros Hlen OK Hv FAN E.
  assert (FAN' : forall c c', c < 3 * nf -> c' < 3 * nf -> is_degenerated c2v (c / 3) = false ->
     is_degenerated c2v (c' / 3) = false -> vtx c2v c = vtx c2v c' ->
     reach (swing_right opp) c c' \/ reach (swing_right opp) c' c).
  { intros. apply FAN; auto; lia. }
  destruct (find_holes_ok c2v opp nf nv Hlen OK Hv) as (hid & vh & EH & I & B).
  apply (encode_facts c2v opp nf nv (length vh) hid Hlen OK Hv) with (vh := vh) (niso := niso) (ndeg := ndeg); auto.
  + apply I.
  + apply I.
  + intros j Hj Dj Oj. apply B. split; auto.
  + intros v Hv0. destruct I as (_ & _ & I3). destruct (I3 v Hv0) as (j & (A1 & A2 & A3) & A4). exists j. auto.
  + intros s c first. apply (encode_hole_ok c2v opp nf nv Hlen OK Hv FAN' hid vh I).
  + intros f. apply (find_init_ok c2v opp nf nv Hlen OK Hv FAN' hid vh I).
  + intros sf cl new vfl RP ND VN L. apply (run_end c2v opp nf hid Hlen OK FAN') with (sf := sf) (cl := cl) (new := new); auto.
    intros j Hj Dj Oj. apply B. split; auto.
  + intros vfl a b CL VN Ha Hb Da Db Ev Hvis. apply (fan_closed c2v opp nf hid Hlen OK FAN') with (a := a); auto.
    intros j Hj Dj Oj. apply B. split; auto.
Qed.
