(** Helpers the OCaml drivers use to move between decimal text and Coq's [Z].
    Nothing here is part of a model; it is extracted with every model so that the
    (trusted, tiny) driver never needs an OCaml bignum library or Extract directives. *)
From Coq Require Import ZArith.
Local Open Scope Z_scope.
Definition ds_zero : Z := 0.
Definition ds_push_digit (acc d : Z) : Z := acc * 10 + d.
Definition ds_digit (n : nat) : Z := Z.of_nat n.
Definition ds_pop_digit (z : Z) : Z * Z := (z / 10, z mod 10).
Definition ds_neg (z : Z) : Z := - z.
Definition ds_is_neg (z : Z) : bool := z <? 0.
Definition ds_is_zero (z : Z) : bool := z =? 0.
Definition ds_nat_of_z (z : Z) : nat := Z.to_nat z.
Definition ds_z_of_nat (n : nat) : Z := Z.of_nat n.
Definition ds_digit_nat (z : Z) : nat := Z.to_nat z.
Definition ds_sub (a b : Z) : Z := a - b.
Definition ds_api := (ds_zero, ds_push_digit, ds_digit, ds_pop_digit, ds_neg, ds_is_neg, ds_is_zero,
                      ds_nat_of_z, ds_z_of_nat, ds_digit_nat, ds_sub).
