(** Byte strings and the round-trip shape shared by every codec theorem. *)
From Coq Require Export List ZArith Lia Bool.
Export ListNotations.
Local Open Scope Z_scope.

Definition bytes := list Z.
Definition is_byte (b : Z) : Prop := 0 <= b < 256.
Definition wf_bytes (bs : bytes) : Prop := Forall is_byte bs.

(** [enc a = Some bs]: the C++ encoder returned true and appended [bs].
    [dec bs = Some (a, rest)]: the C++ decoder returned true, produced [a] and left
    [rest] unread.  One [roundtrips] statement gives losslessness, self-delimitation
    (exact consumption) and independence of whatever follows the block. *)
Definition roundtrips {A : Type} (enc : A -> option bytes) (dec : bytes -> option (A * bytes))
  (dom : A -> Prop) : Prop :=
  forall a bs rest, dom a -> enc a = Some bs -> dec (bs ++ rest) = Some (a, rest).

Lemma wf_bytes_app a b : wf_bytes a -> wf_bytes b -> wf_bytes (a ++ b).
Proof. unfold wf_bytes. intros; apply Forall_app; auto. Qed.

(** Bind for option-valued decoders. *)
Definition obind {A B} (o : option A) (f : A -> option B) : option B :=
  match o with Some a => f a | None => None end.
Notation "'do' x <- e ; f" := (obind e (fun x => f))
  (at level 200, x pattern, e at level 100, f at level 200, right associativity).
