(** IEEE-754 binary32 as used by the models: a thin, executable wrapper over Flocq's
    [binary32].  Everything here computes (no [B2R] in a definition), so it runs under
    [vm_compute] and after extraction.

    The library is compiled for x86-64 (SSE scalar arithmetic, FLT_EVAL_METHOD = 0): a C++
    [float] expression [a op b] is one correctly rounded binary32 operation in
    round-to-nearest-even, which is what [b32_plus mode_NE] etc. are. *)
From Coq Require Import ZArith Bool.
From Flocq Require Import Core IEEE754.BinarySingleNaN IEEE754.Binary IEEE754.Bits.
Local Open Scope Z_scope.

Definition f32 := binary32.

Definition f32_of_bits (z : Z) : f32 := b32_of_bits z.
Definition bits_of_f32 (x : f32) : Z := bits_of_b32 x.

Definition fadd : f32 -> f32 -> f32 := b32_plus mode_NE.
Definition fsub : f32 -> f32 -> f32 := b32_minus mode_NE.
Definition fmul : f32 -> f32 -> f32 := b32_mult mode_NE.
Definition fdiv : f32 -> f32 -> f32 := b32_div mode_NE.

(** [static_cast<float>(int32_t k)] (cvtsi2ss): the integer rounded to nearest-even; 0 gives +0. *)
Definition f32_of_Z (k : Z) : f32 :=
  binary_normalize 24 128 (eq_refl Lt) (eq_refl Lt) mode_NE k 0 false.

Definition f_zero : f32 := B754_zero 24 128 false.
Definition f_half : f32 := f32_of_bits 1056964608.   (* 0x3F000000 = 0.5f *)
Definition f_one : f32 := f32_of_bits 1065353216.    (* 0x3F800000 = 1.0f *)

(** C++ comparisons on floats: every comparison with a NaN is false. *)
Definition f_lt (a b : f32) : bool :=
  match b32_compare a b with Some Lt => true | _ => false end.
Definition f_gt (a b : f32) : bool :=
  match b32_compare a b with Some Gt => true | _ => false end.
Definition f_eq (a b : f32) : bool :=
  match b32_compare a b with Some Eq => true | _ => false end.

Definition f_isnan (a : f32) : bool := is_nan 24 128 a.
Definition f_isinf (a : f32) : bool :=
  match a with B754_infinity _ _ _ => true | _ => false end.
Definition f_isfinite (a : f32) : bool := is_finite 24 128 a.

(** [floor(x)] of a finite float, as an integer, straight from sign/mantissa/exponent:
    x = (-1)^s * m * 2^e.  [Z.div] rounds towards minus infinity for a positive divisor.
    [None] for infinities and NaN. *)
Definition floorZ (x : f32) : option Z :=
  match x with
  | B754_zero _ _ _ => Some 0
  | B754_finite _ _ s m e _ =>
      let v := if s then Zneg m else Zpos m in
      Some (if 0 <=? e then v * 2 ^ e else v / 2 ^ (- e))
  | _ => None
  end.

(** Machine integers. *)
Definition u32 (x : Z) : Z := x mod 2 ^ 32.
Definition to_i32 (x : Z) : Z := let y := x mod 2 ^ 32 in if y <? 2 ^ 31 then y else y - 2 ^ 32.
Definition in_i32 (x : Z) : bool := (- 2 ^ 31 <=? x) && (x <? 2 ^ 31).

(** A NaN has no portable bit pattern across operations (x86 and Flocq's [binop_nan_pl32]
    agree on propagation but the harness does not rely on it): observers print every NaN as -1. *)
Definition obs_bits (x : f32) : Z := if f_isnan x then -1 else bits_of_f32 x.
