(** IEEE-754 binary64 as used by the models: a thin, executable wrapper over Flocq's [binary64],
    in the style of Base/Float32.v.  Everything computes (no [B2R] in a definition).

    x86-64 SSE2 scalar arithmetic: a C++ [double] expression [a op b] is one correctly rounded
    binary64 operation in round-to-nearest-even ([b64_plus mode_NE] etc.); [float] -> [double]
    (cvtss2sd) and [int32_t] -> [double] (cvtsi2sd) are exact. *)
From Coq Require Import ZArith Bool.
From Flocq Require Import Core IEEE754.BinarySingleNaN IEEE754.Binary IEEE754.Bits.
From Draco Require Import Base.Float32.
Local Open Scope Z_scope.

Definition f64 := binary64.

Definition f64_of_bits (z : Z) : f64 := b64_of_bits z.
Definition bits_of_f64 (x : f64) : Z := bits_of_b64 x.

Definition dadd : f64 -> f64 -> f64 := b64_plus mode_NE.
Definition dsub : f64 -> f64 -> f64 := b64_minus mode_NE.
Definition dmul : f64 -> f64 -> f64 := b64_mult mode_NE.
Definition ddiv : f64 -> f64 -> f64 := b64_div mode_NE.

(** [std::abs(double)] (andpd): clears the sign bit, of a NaN too. *)
Definition dabs (x : f64) : f64 :=
  match x with
  | B754_zero _ _ _ => B754_zero 53 1024 false
  | B754_infinity _ _ _ => B754_infinity 53 1024 false
  | B754_nan _ _ _ pl H => B754_nan 53 1024 false pl H
  | B754_finite _ _ _ m e H => B754_finite 53 1024 false m e H
  end.

(** [static_cast<double>(float)]: exact for every finite value (24-bit significands and the
    binary32 exponent range fit); a NaN becomes some quiet NaN (payload never observed). *)
Definition d_of_f32 (x : f32) : f64 :=
  match x with
  | B754_zero _ _ s => B754_zero 53 1024 s
  | B754_infinity _ _ s => B754_infinity 53 1024 s
  | B754_nan _ _ s _ _ => B754_nan 53 1024 s 2251799813685248%positive (eq_refl true)
  | B754_finite _ _ s m e _ =>
      binary_normalize 53 1024 (eq_refl Lt) (eq_refl Lt) mode_NE (cond_Zopp s (Zpos m)) e s
  end.

(** [static_cast<double>(int32_t k)]: exact (|k| < 2^53); 0 gives +0. *)
Definition d_of_Z (k : Z) : f64 :=
  binary_normalize 53 1024 (eq_refl Lt) (eq_refl Lt) mode_NE k 0 false.

Definition d_zero : f64 := B754_zero 53 1024 false.
Definition d_half : f64 := f64_of_bits 4602678819172646912.   (* 0x3FE0000000000000 = 0.5 *)
Definition d_one  : f64 := f64_of_bits 4607182418800017408.   (* 0x3FF0000000000000 = 1.0 *)

(** C++ comparisons: every comparison with a NaN is false. *)
Definition d_lt (a b : f64) : bool :=
  match b64_compare a b with Some Lt => true | _ => false end.
Definition d_gt (a b : f64) : bool :=
  match b64_compare a b with Some Gt => true | _ => false end.

Definition d_isnan (a : f64) : bool := is_nan 53 1024 a.
Definition d_isfinite (a : f64) : bool := is_finite 53 1024 a.

(** [floor(x)] of a finite double as an integer ([None] for infinities and NaN). *)
Definition d_floorZ (x : f64) : option Z :=
  match x with
  | B754_zero _ _ _ => Some 0
  | B754_finite _ _ s m e _ =>
      let v := if s then Zneg m else Zpos m in
      Some (if 0 <=? e then v * 2 ^ e else v / 2 ^ (- e))
  | _ => None
  end.
