(** Small library of shift/mask facts used by all byte-level models. *)
From Coq Require Import ZArith Lia Bool List.
Local Open Scope Z_scope.

Lemma land_shiftl_small a b k : 0 <= k -> 0 <= b < 2 ^ k -> Z.land (Z.shiftl a k) b = 0.
Proof.
  intros Hk Hb. apply Z.bits_inj'. intros n Hn.
  rewrite Z.land_spec, Z.bits_0.
  destruct (Z_lt_ge_dec n k) as [Hlt|Hge].
  - rewrite Z.shiftl_spec_low by lia. reflexivity.
  - destruct (Z.eq_dec b 0) as [->|Hb0]. { rewrite Z.bits_0. apply andb_false_r. }
    rewrite (Z.bits_above_log2 b n); [apply andb_false_r|lia|].
    assert (Z.log2 b < k) by (apply Z.log2_lt_pow2; lia). lia.
Qed.

Lemma lor_shiftl_add a b k : 0 <= k -> 0 <= b < 2 ^ k -> Z.lor (Z.shiftl a k) b = a * 2 ^ k + b.
Proof.
  intros Hk Hb. rewrite <- Z.shiftl_mul_pow2 by lia.
  rewrite <- Z.lxor_lor by (apply land_shiftl_small; lia).
  symmetry. apply Z.add_nocarry_lxor. apply land_shiftl_small; lia.
Qed.

Lemma lor_mul_add a b k : 0 <= k -> 0 <= b < 2 ^ k -> Z.lor (a * 2 ^ k) b = a * 2 ^ k + b.
Proof. intros. rewrite <- (lor_shiftl_add a b k) by lia. rewrite Z.shiftl_mul_pow2 by lia. reflexivity. Qed.

Lemma land_ones_mod a k : 0 <= k -> Z.land a (2 ^ k - 1) = a mod 2 ^ k.
Proof. intros. replace (2 ^ k - 1) with (Z.ones k) by (rewrite Z.ones_equiv; lia). apply Z.land_ones; lia. Qed.

Lemma testbit_mod2 a k : 0 <= k -> Z.land (Z.shiftr a k) 1 = (a / 2 ^ k) mod 2.
Proof. intros. rewrite Z.shiftr_div_pow2 by lia. change 1 with (2^1 - 1). apply land_ones_mod. lia. Qed.

(** Finite sweep lifted to a statement: a boolean test that holds (by computation) on
    0..n-1 holds for every x in that range. *)
Lemma range_forallb (f : Z -> bool) (n : nat) :
  forallb f (map Z.of_nat (seq 0 n)) = true -> forall x, 0 <= x < Z.of_nat n -> f x = true.
Proof.
  intros H x Hx. rewrite forallb_forall in H. apply H.
  apply in_map_iff. exists (Z.to_nat x). split; [lia|]. apply in_seq. lia.
Qed.

Lemma land_hi128 x : 0 <= x < 128 -> Z.land (x + 128) 128 =? 0 = false.
Proof.
  intros. apply (range_forallb (fun x => negb (Z.land (x + 128) 128 =? 0)) 128) in H;
    [destruct (Z.land (x + 128) 128 =? 0); [discriminate|reflexivity] | vm_compute; reflexivity].
Qed.
Lemma land_lo127 x : 0 <= x < 128 -> Z.land (x + 128) 127 = x.
Proof.
  intros. apply (range_forallb (fun x => Z.land (x + 128) 127 =? x) 128) in H;
    [apply Z.eqb_eq; exact H | vm_compute; reflexivity].
Qed.
Lemma land_small128 x : 0 <= x < 128 -> Z.land x 128 =? 0 = true.
Proof.
  intros. apply (range_forallb (fun x => Z.land x 128 =? 0) 128) in H;
    [exact H | vm_compute; reflexivity].
Qed.

Lemma land1_mod2 x : Z.land x 1 = x mod 2.
Proof. change 1 with (2 ^ 1 - 1). rewrite land_ones_mod by lia. reflexivity. Qed.
Lemma shiftr1_div2 x : Z.shiftr x 1 = x / 2.
Proof. rewrite Z.shiftr_div_pow2 by lia. reflexivity. Qed.
