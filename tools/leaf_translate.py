#!/usr/bin/env python3
"""Translator, part 2: regenerate Gallina definitions of selected loop-free integer leaf functions from the
CURRENT C++ source (clang's JSON AST) into coq/Gen/Leaf.v.   (DESIGN.md 2.2)

Whitelist: tools/leaf_functions.json.  For each entry clang is run once per (header, dump filter)
    clang++ -std=c++17 -I$DRACO_REPO/src -I<build dir> -fsyntax-only -Xclang -ast-dump=json -Xclang -ast-dump-filter=<F> <header>
(the filter is the class name for member functions, so that trivial getters and field types are in the same dump).

What is emitted for a function f (one definition per requested template instantiation):
    Definition gen_<f> <self fields> <parameters> : <result> := ...      value, over Z / bool, machine arithmetic explicit
    Definition gen_<f>_no_ub <same arguments> : bool := ...                no signed overflow, shift counts in range,
                                                                           no division by zero, no abs/neg of the minimum
Semantics implemented here (LP64, two's complement; the translator computes all types itself with C++'s integer
promotions and usual arithmetic conversions, because uninstantiated templates carry dependent types; wherever clang
does give a non-dependent type for an expression it is compared with the computed one and a difference makes the
function UNSUPPORTED):
    unsigned + - * << and unary -      (... ) mod 2^w   (w = width of the converted operand type; literal modulus)
    signed   + - * unary - abs          exact, result range goes into _no_ub
    signed / %                          Z.quot / Z.rem, divisor <> 0 and not (min / -1) go into _no_ub
    unsigned / %                        Z.div / Z.modulo
    >>                                  Z.shiftr (arithmetic for signed), count range in _no_ub
    signed <<                           Z.shiftl, _no_ub: operand >= 0 and result representable (stricter than C++17)
    & | ^ ~                             Z.land Z.lor Z.lxor, Z.lnot / (2^w - 1 - x)
    conversions to unsigned w           x mod 2^w;  to signed w: (x + 2^(w-1)) mod 2^w - 2^(w-1); omitted when value preserving
    comparisons, && || ! ?:             boolean terms; conditions of the not-evaluated side are guarded in _no_ub
    locals / assignments                SSA let-bindings (x, x_1, x_2, ...); if/else without return: joined by a tuple
    early return                        if c then <result> else <rest>
    scalar out-pointers, p[0]/p[1]      extra results (and extra arguments when read)
    this->field, trivial getters        extra leading arguments (order: "self" of the whitelist entry, then sorted)
    std::abs/min/max/swap, std::numeric_limits<T>::max()/min(), switch over constants with return/break
Anything else: `UNSUPPORTED <function> <node kind>` for that function; the others are still translated.

Environment: DRACO_REPO (default /repo), VERIF_COQ_DIR (default <root>/coq), exactly as tools/cxx2v.py.
The LAST stdout line is a JSON object {"ok":..., "changed":..., "functions": {...}, "unsupported": [...], "seconds": ...}."""
import hashlib
import json
import os
import re
import subprocess
import sys
import time

ROOT = os.path.dirname(os.path.dirname(os.path.abspath(__file__)))
REPO = os.environ.get("DRACO_REPO", "/repo")
GEN = os.path.join(os.environ.get("VERIF_COQ_DIR", os.path.join(ROOT, "coq")), "Gen")
WHITELIST = os.environ.get("LEAF_WHITELIST", os.path.join(ROOT, "tools", "leaf_functions.json"))


class Unsupported(Exception):
    pass


def build_dir():
    """Directory holding draco/draco_features.h (what tools/build_repo.sh O1 produced for this source tree)."""
    if REPO == "/repo":
        cands = [os.path.join(ROOT, ".cache", "build-O1")]
    else:
        h = hashlib.md5((REPO + "\n").encode()).hexdigest()[:8]
        cands = [os.path.join(ROOT, ".cache", "build-O1-" + h), os.path.join(ROOT, ".cache", "build-O1")]
    for c in cands:
        if os.path.exists(os.path.join(c, "draco", "draco_features.h")):
            return c
    return cands[0]


# ------------------------------------------------------------------------------------------------ types
# ('int', signed, width) | ('bool',) | ('pair', elem) | ('ptr', elem) | ('vec', elem) | ('void',)
BUILTIN = {
    "bool": ("bool",),
    "char": ("int", True, 8), "signed char": ("int", True, 8), "unsigned char": ("int", False, 8),
    "short": ("int", True, 16), "unsigned short": ("int", False, 16),
    "int": ("int", True, 32), "unsigned int": ("int", False, 32), "unsigned": ("int", False, 32),
    "long": ("int", True, 64), "unsigned long": ("int", False, 64),
    "long long": ("int", True, 64), "unsigned long long": ("int", False, 64),
    "int8_t": ("int", True, 8), "uint8_t": ("int", False, 8), "int16_t": ("int", True, 16), "uint16_t": ("int", False, 16),
    "int32_t": ("int", True, 32), "uint32_t": ("int", False, 32), "int64_t": ("int", True, 64), "uint64_t": ("int", False, 64),
    "size_t": ("int", False, 64), "void": ("void",),
}
I32 = ("int", True, 32)
BOOL = ("bool",)


def is_int(t): return t[0] == "int"
def lo_hi(t):
    if t[0] == "bool":
        return 0, 1
    _, s, w = t
    return (-(1 << (w - 1)), (1 << (w - 1)) - 1) if s else (0, (1 << w) - 1)


def split_top(s, sep=","):
    out, depth, cur = [], 0, ""
    for ch in s:
        if ch in "<(":
            depth += 1
        elif ch in ">)":
            depth -= 1
        if ch == sep and depth == 0:
            out.append(cur)
            cur = ""
        else:
            cur += ch
    out.append(cur)
    return [x.strip() for x in out]


class TEnv:
    def __init__(self, subst, typedefs):
        self.subst = subst          # template parameter -> type text
        self.typedefs = typedefs    # typedef name -> type text

    def resolve(self, s, depth=0):
        if depth > 20:
            raise Unsupported("type recursion " + s)
        s = s.strip()
        changed = True
        while changed:
            changed = False
            for pre in ("const ", "volatile ", "typename ", "struct ", "class ", "mutable "):
                if s.startswith(pre):
                    s = s[len(pre):].strip(); changed = True
            for suf in (" const", " volatile"):
                if s.endswith(suf):
                    s = s[:-len(suf)].strip(); changed = True
            if s.endswith("&"):
                s = s[:-1].strip(); changed = True
        if s.endswith("*"):
            return ("ptr", self.resolve(s[:-1], depth + 1))
        if s in BUILTIN:
            return BUILTIN[s]
        if s in self.subst:
            return self.resolve(self.subst[s], depth + 1)
        m = re.match(r"^(?:std::)?make_(unsigned|signed)<(.*)>::type$", s) or re.match(r"^(?:std::)?make_(unsigned|signed)_t<(.*)>$", s)
        if m:
            t = self.resolve(m.group(2), depth + 1)
            if not is_int(t):
                raise Unsupported("type " + s)
            return ("int", m.group(1) == "signed", t[2])
        m = re.match(r"^(?:draco::)?VectorD<(.*)>$", s)
        if m:
            a = split_top(m.group(1))
            if len(a) == 2 and a[1] == "2":
                return ("pair", self.resolve(a[0], depth + 1))
            raise Unsupported("type " + s)
        m = re.match(r"^(?:std::)?vector<(.*)>$", s)
        if m:
            return ("vec", self.resolve(split_top(m.group(1))[0], depth + 1))
        if "<" not in s:
            last = s.split("::")[-1]
            if last in BUILTIN and s.startswith("std::"):
                return BUILTIN[last]
            if last in self.typedefs:
                return self.resolve(self.typedefs[last], depth + 1)
            if last in self.subst:
                return self.resolve(self.subst[last], depth + 1)
        raise Unsupported("type " + s)

    def of_node(self, n):
        """type clang gives for this node, or None when it is dependent / not an integer-like type we know"""
        t = n.get("type") or {}
        for k in ("desugaredQualType", "qualType"):
            if k in t:
                try:
                    return self.resolve(t[k])
                except Unsupported:
                    pass
        return None

    def of_decl(self, n):
        t = n.get("type") or {}
        err = None
        for k in ("qualType", "desugaredQualType"):
            if k in t:
                try:
                    return self.resolve(t[k])
                except Unsupported as e:
                    err = err or e
        raise err or Unsupported("type ?")


# ------------------------------------------------------------------------------------------------ expressions
class E:
    __slots__ = ("t", "ty", "ubs", "c")
    def __init__(self, t, ty, ubs=(), c=None):
        self.t, self.ty, self.ubs, self.c = t, ty, list(ubs), c


def lit(v):
    return str(v) if v >= 0 else "(%d)" % v


def const_e(v, ty, ubs=()):
    if ty[0] == "bool":
        return E("true" if v else "false", ty, ubs, bool(v))
    return E(lit(v), ty, ubs, v)


def conj(terms):
    terms = [t for t in terms if t != "true"]
    if not terms:
        return "true"
    if len(terms) == 1:
        return terms[0]
    return "(" + " && ".join(terms) + ")"


def irange(lo, hi, t):
    return "(irange %s %s %s)" % (lit(lo), lit(hi), t)


def convert(e, to):
    fr = e.ty
    if fr == to:
        return e
    if to[0] == "bool":
        if e.c is not None:
            return const_e(e.c != 0, to, e.ubs)
        return E("(negb (%s =? 0))" % e.t, to, e.ubs)
    if not is_int(to):
        raise Unsupported("conversion to " + str(to))
    if fr[0] == "bool":
        if e.c is not None:
            return const_e(1 if e.c else 0, to, e.ubs)
        return E("(Z.b2z %s)" % e.t, to, e.ubs)
    if not is_int(fr):
        raise Unsupported("conversion from " + str(fr))
    flo, fhi = lo_hi(fr)
    tlo, thi = lo_hi(to)
    w = to[2]
    if e.c is not None:
        v = e.c % (1 << w)
        if to[1] and v >= (1 << (w - 1)):
            v -= 1 << w
        return const_e(v, to, e.ubs)
    if tlo <= flo and fhi <= thi:
        return E(e.t, to, e.ubs)
    if not to[1]:
        return E("(%s mod %d)" % (e.t, 1 << w), to, e.ubs)
    h = 1 << (w - 1)
    return E("((%s + %d) mod %d - %d)" % (e.t, h, 1 << w, h), to, e.ubs)


def promote(e):
    if e.ty[0] == "bool":
        return convert(e, I32)
    if is_int(e.ty) and e.ty[2] < 32:
        return convert(e, I32)
    if not is_int(e.ty):
        raise Unsupported("arithmetic on " + str(e.ty))
    return e


def common_type(a, b):
    if a == b:
        return a
    (_, sa, wa), (_, sb, wb) = a, b
    if sa == sb:
        return a if wa >= wb else b
    (us, uw), (ss, sw) = ((a, wa), (b, wb)) if not sa else ((b, wb), (a, wa))
    if uw >= sw:
        return us
    return ss  # the signed type is wider: it represents every value of the unsigned one


def usual(a, b):
    a, b = promote(a), promote(b)
    t = common_type(a.ty, b.ty)
    return convert(a, t), convert(b, t), t


def in_range_ub(ty, term, c=None):
    lo, hi = lo_hi(ty)
    if c is not None:
        return [] if lo <= c <= hi else ["false"]
    return [irange(lo, hi, term)]


def binop(op, a, b):
    """C++ binary operator on two evaluated operands (integers or bool)."""
    if op in ("&&", "||"):
        a, b = convert(a, BOOL), convert(b, BOOL)
        gb = conj(b.ubs)
        if op == "&&":
            ubs = a.ubs + ([] if gb == "true" else ["(if %s then %s else true)" % (a.t, gb)])
            if a.c is not None and b.c is not None:
                return const_e(a.c and b.c, BOOL, ubs)
            return E("(%s && %s)" % (a.t, b.t), BOOL, ubs)
        ubs = a.ubs + ([] if gb == "true" else ["(if %s then true else %s)" % (a.t, gb)])
        if a.c is not None and b.c is not None:
            return const_e(a.c or b.c, BOOL, ubs)
        return E("(%s || %s)" % (a.t, b.t), BOOL, ubs)
    if op in ("<<", ">>"):
        a, b = promote(a), promote(b)
        ty = a.ty
        w = ty[2]
        ubs = a.ubs + b.ubs
        if b.c is not None:
            if not (0 <= b.c < w):
                ubs.append("false")
        else:
            ubs.append(irange(0, w - 1, b.t))
        if op == ">>":
            return E("(Z.shiftr %s %s)" % (a.t, b.t), ty, ubs)
        sh = "(Z.shiftl %s %s)" % (a.t, b.t)
        if not ty[1]:
            return E("(%s mod %d)" % (sh, 1 << w), ty, ubs)
        if a.c is None or a.c < 0:
            ubs.append("(0 <=? %s)" % a.t)
        ubs.append("(%s <=? %d)" % (sh, lo_hi(ty)[1]))
        return E(sh, ty, ubs)
    a, b, ty = usual(a, b)
    ubs = a.ubs + b.ubs
    if op in ("<", ">", "<=", ">=", "==", "!="):
        if a.c is not None and b.c is not None:
            v = {"<": a.c < b.c, ">": a.c > b.c, "<=": a.c <= b.c, ">=": a.c >= b.c, "==": a.c == b.c, "!=": a.c != b.c}[op]
            return const_e(v, BOOL, ubs)
        if op == "!=":
            return E("(negb (%s =? %s))" % (a.t, b.t), BOOL, ubs)
        return E("(%s %s %s)" % (a.t, {"<": "<?", ">": ">?", "<=": "<=?", ">=": ">=?", "==": "=?"}[op], b.t), BOOL, ubs)
    w = ty[2]
    lo, hi = lo_hi(ty)
    if op in ("+", "-", "*"):
        if a.c is not None and b.c is not None:
            v = {"+": a.c + b.c, "-": a.c - b.c, "*": a.c * b.c}[op]
            if not ty[1]:
                return const_e(v % (1 << w), ty, ubs)
            if lo <= v <= hi:
                return const_e(v, ty, ubs)
        raw = "(%s %s %s)" % (a.t, op, b.t)
        if not ty[1]:
            return E("(%s mod %d)" % (raw, 1 << w), ty, ubs)
        return E(raw, ty, ubs + [irange(lo, hi, raw)])
    if op in ("/", "%"):
        if b.c is None:
            ubs.append("(negb (%s =? 0))" % b.t)
        elif b.c == 0:
            ubs.append("false")
        if ty[1]:
            if b.c is None or b.c == -1:
                ubs.append("(negb ((%s =? %s) && (%s =? (-1))))" % (a.t, lit(lo), b.t))
            return E("(Z.%s %s %s)" % ("quot" if op == "/" else "rem", a.t, b.t), ty, ubs)
        return E("(%s %s %s)" % (a.t, "/" if op == "/" else "mod", b.t), ty, ubs)
    if op in ("&", "|", "^"):
        f = {"&": "Z.land", "|": "Z.lor", "^": "Z.lxor"}[op]
        if a.c is not None and b.c is not None:
            v = {"&": a.c & b.c, "|": a.c | b.c, "^": a.c ^ b.c}[op]
            return const_e(v, ty, ubs)
        return E("(%s %s %s)" % (f, a.t, b.t), ty, ubs)
    raise Unsupported("BinaryOperator " + op)


def unop(op, a):
    if op == "!":
        a = convert(a, BOOL)
        if a.c is not None:
            return const_e(not a.c, BOOL, a.ubs)
        return E("(negb %s)" % a.t, BOOL, a.ubs)
    a = promote(a)
    ty = a.ty
    w = ty[2]
    lo, hi = lo_hi(ty)
    if op == "+":
        return a
    if op == "-":
        if a.c is not None:
            v = -a.c
            if not ty[1]:
                return const_e(v % (1 << w), ty, a.ubs)
            if lo <= v <= hi:
                return const_e(v, ty, a.ubs)
        raw = "(- %s)" % a.t
        if not ty[1]:
            return E("(%s mod %d)" % (raw, 1 << w), ty, a.ubs)
        return E(raw, ty, a.ubs + [irange(lo, hi, raw)])
    if op == "~":
        if a.c is not None:
            return const_e((~a.c) if ty[1] else (hi - a.c), ty, a.ubs)
        if ty[1]:
            return E("(Z.lnot %s)" % a.t, ty, a.ubs)
        return E("(%d - %s)" % (hi, a.t), ty, a.ubs)
    raise Unsupported("UnaryOperator " + op)


# ------------------------------------------------------------------------------------------------ function translation
RESERVED = set("""as at cofix else end exists exists2 fix for forall fun if IF in let match mod return then using where with
Type Prop Set SProp Z bool nat list fst snd negb andb orb true false irange xH xO xI Zpos Zneg Z0 O S pair option Some None
positive unit tt prod Admitted admit Axiom Axioms Parameter Parameters Conjecture Conjectures Variable Hypothesis
Definition Lemma Theorem Proof Qed Fixpoint Record Inductive Section End Require Import""".split())

PASS_THROUGH = ("ParenExpr", "ExprWithCleanups", "ConstantExpr", "MaterializeTemporaryExpr", "CXXBindTemporaryExpr",
                "SubstNonTypeTemplateParmExpr")
EXPLICIT_CASTS = ("CXXStaticCastExpr", "CStyleCastExpr", "CXXFunctionalCastExpr")


def strip(n):
    while n.get("kind") in PASS_THROUGH or (n.get("kind") == "ImplicitCastExpr" and n.get("castKind") in
                                            ("LValueToRValue", "NoOp", "FunctionToPointerDecay", "ArrayToPointerDecay",
                                             "UncheckedDerivedToBase", "DerivedToBase")):
        n = n["inner"][0]
    return n


class Env:
    def __init__(self, vars=None):
        self.vars = dict(vars or {})   # key -> (coq name | None when uninitialised, type)
    def copy(self):
        return Env(self.vars)


class FnTranslator:
    def __init__(self, fn, cls, tenv, src, entry):
        self.fn, self.cls, self.tenv, self.src, self.entry = fn, cls, tenv, src, entry
        self.counter = {}
        self.used_names = set()
        self.loop_var = None
        self.field_types = {}
        self.getters = {}
        if cls is not None:
            for c in cls.get("inner", []):
                if c.get("kind") == "FieldDecl":
                    self.field_types[c["name"]] = c
        self.ignore = set(entry.get("ignore_fields", []))
        self.fields_used = []      # field names in order of discovery
        self.fields_written = set()
        self.params = []           # (coq name, coq type) in order
        self.outputs = []          # keys written, in parameter order (pointer/reference params)
        self.ret_ty = None

    # ---- names
    def fresh(self, base):
        base = re.sub(r"[^A-Za-z0-9_]", "_", base)
        if base in RESERVED or not re.match(r"[A-Za-z_]", base):
            base = base + "_v" if re.match(r"[A-Za-z_]", base) else "v_" + base
        n = self.counter.get(base, 0)
        while True:
            name = base if n == 0 else "%s_%d" % (base, n)
            n += 1
            if name not in self.used_names and name not in RESERVED:
                break
        self.counter[base] = n
        self.used_names.add(name)
        return name

    def text(self, n):
        try:
            b, e = n["range"]["begin"], n["range"]["end"]
            b = b.get("expansionLoc", b)
            e = e.get("expansionLoc", e)
            return self.src[b["offset"]: e["offset"] + e["tokLen"]].decode("utf8", "replace")   # clang offsets are byte offsets
        except Exception:
            return ""

    # ---- l-values
    def is_this(self, n):
        return strip(n).get("kind") == "CXXThisExpr"

    def getter_field(self, name):
        """field returned by the trivial getter `name` of the class, or Unsupported"""
        if name in self.getters:
            return self.getters[name]
        cands = [c for c in (self.cls or {}).get("inner", []) if c.get("kind") == "CXXMethodDecl" and c.get("name") == name]
        for c in cands:
            if [p for p in c.get("inner", []) if p.get("kind") == "ParmVarDecl"]:
                continue
            body = [x for x in c.get("inner", []) if x.get("kind") == "CompoundStmt"]
            if not body:
                continue
            st = [s for s in body[0].get("inner", []) if s.get("kind") != "NullStmt"]
            if len(st) == 1 and st[0].get("kind") == "ReturnStmt" and st[0].get("inner"):
                e = strip(st[0]["inner"][0])
                if e.get("kind") == "MemberExpr" and e.get("inner") and self.is_this(e["inner"][0]) and e["name"] in self.field_types:
                    self.getters[name] = e["name"]
                    return e["name"]
        raise Unsupported("call of non-trivial member " + name)

    def field_key(self, name):
        if name not in self.field_types:
            raise Unsupported("MemberExpr " + name)
        return ("field", name)

    def lkey(self, n):
        """key of an assignable location, or None"""
        n = strip(n)
        k = n.get("kind")
        if k == "DeclRefExpr":
            rd = n["referencedDecl"]
            if rd.get("kind") not in ("ParmVarDecl", "VarDecl"):
                return None
            return ("var", rd["id"])
        if k == "UnaryOperator" and n.get("opcode") == "*":
            b = strip(n["inner"][0])
            if b.get("kind") == "DeclRefExpr":
                return ("deref", b["referencedDecl"]["id"])
            return None
        if k == "MemberExpr" and n.get("inner") and self.is_this(n["inner"][0]):
            return self.field_key(n["name"])
        if k == "ArraySubscriptExpr":
            base, idx = strip(n["inner"][0]), strip(n["inner"][1])
            bk = None
            if base.get("kind") == "DeclRefExpr":
                bk = ("var", base["referencedDecl"]["id"])
            elif base.get("kind") == "MemberExpr" and base.get("inner") and self.is_this(base["inner"][0]):
                bk = self.field_key(base["name"])
            if bk is None:
                return None
            if idx.get("kind") == "IntegerLiteral":
                return ("idx", bk, int(idx["value"]))
            if self.loop_var is not None and idx.get("kind") == "DeclRefExpr" and idx["referencedDecl"]["id"] == self.loop_var:
                return ("elem", bk)
            return None
        return None

    def read(self, key, env, what):
        self.ensure_input(key, env)
        if key not in env.vars:
            raise Unsupported("read of unknown location " + what)
        name, ty = env.vars[key]
        if name is None:
            raise Unsupported("read of uninitialised " + what)
        return E(name, ty)

    # ---- lazily created inputs (fields, pointees, elements)
    def ensure_input(self, key, env):
        pass  # all inputs are created up front by setup(); kept as a hook

    # ---- expressions
    def ev(self, n, env):
        e = self.ev_raw(n, env)
        ct = self.tenv.of_node(n)
        if ct is not None and ct[0] in ("int", "bool") and e.ty[0] in ("int", "bool") and ct != e.ty:
            raise Unsupported("type-mismatch at %s `%s`: clang %s, translator %s" % (n.get("kind"), self.text(n)[:60], ct, e.ty))
        return e

    def ev_raw(self, n, env):
        k = n.get("kind")
        if k in PASS_THROUGH:
            return self.ev(n["inner"][0], env)
        if k == "ImplicitCastExpr":
            ck = n.get("castKind")
            if ck in ("LValueToRValue", "NoOp"):
                return self.ev(n["inner"][0], env)
            if ck == "IntegralCast":
                to = self.tenv.of_node(n)
                if to is None:
                    raise Unsupported("ImplicitCastExpr to " + str(n.get("type")))
                return convert(self.ev(n["inner"][0], env), to)
            if ck == "IntegralToBoolean":
                return convert(self.ev(n["inner"][0], env), BOOL)
            raise Unsupported("ImplicitCastExpr " + str(ck))
        if k in EXPLICIT_CASTS:
            t = n.get("type") or {}
            to = self.tenv.resolve(t.get("qualType", "?"))
            if to[0] not in ("int", "bool"):
                raise Unsupported(k + " to " + t.get("qualType", "?"))
            return convert(self.ev(n["inner"][0], env), to)
        if k == "IntegerLiteral":
            ty = self.tenv.of_node(n)
            if ty is None:
                raise Unsupported("IntegerLiteral type")
            return const_e(int(n["value"]), ty)
        if k == "CXXBoolLiteralExpr":
            return const_e(bool(n["value"]), BOOL)
        if k == "CharacterLiteral":
            return const_e(int(n["value"]), self.tenv.of_node(n) or ("int", True, 8))
        if k in ("DeclRefExpr", "MemberExpr", "ArraySubscriptExpr") or (k == "UnaryOperator" and n.get("opcode") == "*"):
            if k == "DeclRefExpr" and n["referencedDecl"].get("kind") not in ("ParmVarDecl", "VarDecl"):
                raise Unsupported("DeclRefExpr to " + n["referencedDecl"].get("kind", "?"))
            key = self.lkey(n)
            if key is None:
                raise Unsupported(k + " `" + self.text(n)[:50] + "`")
            e = self.read(key, env, self.text(n)[:50])
            if e.ty[0] not in ("int", "bool"):
                raise Unsupported("use of non-scalar " + self.text(n)[:50])
            return e
        if k == "UnaryOperator":
            op = n["opcode"]
            if op in ("++", "--"):
                raise Unsupported("UnaryOperator %s inside an expression" % op)
            if op in ("&",):
                raise Unsupported("UnaryOperator &")
            return unop(op, self.ev(n["inner"][0], env))
        if k == "BinaryOperator":
            op = n["opcode"]
            if op in ("=", ","):
                raise Unsupported("BinaryOperator %s inside an expression" % op)
            return binop(op, self.ev(n["inner"][0], env), self.ev(n["inner"][1], env))
        if k == "ConditionalOperator":
            c = convert(self.ev(n["inner"][0], env), BOOL)
            a, b = self.ev(n["inner"][1], env), self.ev(n["inner"][2], env)
            if a.ty == BOOL and b.ty == BOOL:
                ty = BOOL
            else:
                a, b, ty = usual(a, b)
            ga, gb = conj(a.ubs), conj(b.ubs)
            ubs = list(c.ubs)
            if ga != "true" or gb != "true":
                ubs.append("(if %s then %s else %s)" % (c.t, ga, gb))
            if c.c is not None:
                r = a if c.c else b
                return E(r.t, ty, ubs, r.c)
            return E("(if %s then %s else %s)" % (c.t, a.t, b.t), ty, ubs)
        if k == "CXXMemberCallExpr" or k == "CallExpr":
            return self.ev_call(n, env)
        raise Unsupported(k)

    def ev_call(self, n, env):
        callee = strip(n["inner"][0])
        args = n["inner"][1:]
        ck = callee.get("kind")
        txt = re.sub(r"\s+", "", self.text(n))
        # std::numeric_limits<T>::max() / min() / lowest()
        m = re.match(r"^(?:std::)?numeric_limits<(.+)>::(max|min|lowest)\(\)$", txt)
        if m and not args:
            ty = self.tenv.resolve(m.group(1))
            if not is_int(ty):
                raise Unsupported("numeric_limits of " + m.group(1))
            lo, hi = lo_hi(ty)
            return const_e(hi if m.group(2) == "max" else lo, ty)
        # trivial getter on this
        mname = None
        if ck == "MemberExpr" and callee.get("inner") and self.is_this(callee["inner"][0]):
            mname = callee.get("name")
        elif ck == "CXXDependentScopeMemberExpr" and callee.get("inner") and self.is_this(callee["inner"][0]):
            mname = callee.get("member")
        if mname is not None:
            if args:
                raise Unsupported("call of member " + mname)
            f = self.getter_field(mname)
            return self.read(self.field_key(f), env, f)
        name = None
        if ck == "DeclRefExpr":
            name = callee["referencedDecl"].get("name")
        elif ck == "UnresolvedLookupExpr":
            name = callee.get("name")
        ctext = re.sub(r"\s+", "", self.text(callee))
        if name in ("abs", "min", "max") and ctext in (name, "std::" + name):
            vals = [self.ev(a, env) for a in args]
            if name == "abs" and len(vals) == 1:
                a = promote(vals[0])
                if not a.ty[1]:
                    raise Unsupported("std::abs of unsigned")
                lo, hi = lo_hi(a.ty)
                if a.c is not None and a.c != lo:
                    return const_e(abs(a.c), a.ty, a.ubs)
                return E("(Z.abs %s)" % a.t, a.ty, a.ubs + ["(negb (%s =? %s))" % (a.t, lit(lo))])
            if name in ("min", "max") and len(vals) == 2:
                a, b = vals
                if a.ty != b.ty or not is_int(a.ty):
                    raise Unsupported("std::%s on different types" % name)
                return E("(Z.%s %s %s)" % (name, a.t, b.t), a.ty, a.ubs + b.ubs)
        # call of a free leaf function translated earlier in this run (scalar arguments and result, no state)
        if name in TRANSLATED_FREE and ck == "DeclRefExpr" and ctext in (name, "draco::" + name):
            cname, ptys, rty = TRANSLATED_FREE[name]
            if len(args) == len(ptys):
                vals = [convert(self.ev(a, env), t) for a, t in zip(args, ptys)]
                argt = " ".join(v.t for v in vals)
                ubs = [u for v in vals for u in v.ubs] + ["(%s_no_ub %s)" % (cname, argt)]
                return E("(%s %s)" % (cname, argt), rty, ubs)
        raise Unsupported("%s `%s`" % (n.get("kind"), self.text(callee)[:60] or name or "?"))

    # ---- statements (continuation passing: k(env) -> (value term, ub term) of what follows)
    def bind(self, env, key, e, base, k):
        name = self.fresh(base)
        env2 = env.copy()
        ty = env.vars[key][1] if key in env.vars else e.ty
        env2.vars[key] = (name, ty)
        rv, ru = k(env2)
        if rv == name:     # `let x := e in x`
            val = e.t
        else:
            val = "let %s := %s in\n%s" % (name, e.t, rv)
        ub = self.ub_let(conj(e.ubs), [name], e.t, ru)
        return val, ub

    @staticmethod
    def occurs(name, term):
        return re.search(r"(?<![\w'])" + re.escape(name) + r"(?![\w'])", term) is not None

    def ub_let(self, guard, names, term, rest_ub):
        """guard && (let names := term in rest_ub), dropping the let when rest_ub does not mention the names"""
        if rest_ub != "true" and any(self.occurs(x, rest_ub) for x in names):
            pat = names[0] if len(names) == 1 else "'(" + ", ".join(names) + ")"
            rest = "(let %s := %s in\n%s)" % (pat, term, rest_ub)
        else:
            rest = rest_ub
        return conj([guard, rest])

    def base_name(self, key):
        return self.key_names.get(key) or "v"

    def assign(self, env, target, e, k):
        key = self.lkey(target)
        if key is None or key not in env.vars:
            raise Unsupported("assignment to `%s`" % self.text(target)[:50])
        ty = env.vars[key][1]
        if ty[0] not in ("int", "bool"):
            raise Unsupported("assignment to non-scalar `%s`" % self.text(target)[:50])
        if key[0] == "field":
            self.fields_written.add(key[1])
        return self.bind(env, key, convert(e, ty), self.base_name(key), k)

    def expr_stmt(self, n, env, k):
        n0 = n
        while n.get("kind") in PASS_THROUGH:
            n = n["inner"][0]
        kind = n.get("kind")
        if kind == "BinaryOperator" and n.get("opcode") == "=":
            tk = self.lkey(n["inner"][0])
            if tk is not None and tk[0] == "field" and tk[1] in self.ignore:
                # a (non-integer) field the whitelist entry declares out of scope: the store is skipped, provided
                # its right-hand side has no effect of its own
                if self.contains(n["inner"][1], ("CallExpr", "CXXMemberCallExpr", "CompoundAssignOperator", "CXXOperatorCallExpr")) \
                        or self.has_side_effect(n["inner"][1]):
                    raise Unsupported("ignored field %s assigned from an expression with effects" % tk[1])
                return k(env)
            return self.assign(env, n["inner"][0], self.ev(n["inner"][1], env), k)
        if kind == "CompoundAssignOperator":
            op = n["opcode"][:-1]
            cur = self.ev(n["inner"][0], env)
            return self.assign(env, n["inner"][0], binop(op, cur, self.ev(n["inner"][1], env)), k)
        if kind == "UnaryOperator" and n.get("opcode") in ("++", "--"):
            cur = self.ev(n["inner"][0], env)
            return self.assign(env, n["inner"][0], binop("+" if n["opcode"] == "++" else "-", cur, const_e(1, I32)), k)
        if kind == "CallExpr":
            callee = strip(n["inner"][0])
            name = callee.get("referencedDecl", {}).get("name") if callee.get("kind") == "DeclRefExpr" else callee.get("name")
            ctext = re.sub(r"\s+", "", self.text(callee))
            if name == "swap" and ctext in ("swap", "std::swap") and len(n["inner"]) == 3:
                ka, kb = self.lkey(n["inner"][1]), self.lkey(n["inner"][2])
                if ka is None or kb is None or ka not in env.vars or kb not in env.vars:
                    raise Unsupported("std::swap of `%s`" % self.text(n)[:50])
                a, b = self.read(ka, env, "swap operand"), self.read(kb, env, "swap operand")
                if a.ty != b.ty:
                    raise Unsupported("std::swap on different types")
                for kk in (ka, kb):
                    if kk[0] == "field":
                        self.fields_written.add(kk[1])
                return self.bind(env, ka, b, self.base_name(ka), lambda env2: self.bind(env2, kb, a, self.base_name(kb), k))
        raise Unsupported(kind + (" " + n.get("opcode", "") if "opcode" in n else ""))

    def has_side_effect(self, n):
        if not isinstance(n, dict):
            return False
        if (n.get("kind") == "BinaryOperator" and n.get("opcode") == "=") or \
                (n.get("kind") == "UnaryOperator" and n.get("opcode") in ("++", "--")):
            return True
        return any(self.has_side_effect(c) for c in n.get("inner", []))

    def seq(self, stmts, env, k):
        if not stmts:
            return k(env)
        return self.stmt(stmts[0], env, lambda env2: self.seq(stmts[1:], env2, k))

    def contains(self, n, kinds):
        if not isinstance(n, dict):
            return False
        if n.get("kind") in kinds:
            return True
        if n.get("kind") == "_If":
            return any(self.contains(s, kinds) for s in n["then"] + n["else"])
        return any(self.contains(c, kinds) for c in n.get("inner", []))

    def always_returns(self, stmts):
        stmts = [s for s in stmts if s.get("kind") != "NullStmt"]
        if not stmts:
            return False
        s = stmts[-1]
        k = s.get("kind")
        if k == "ReturnStmt":
            return True
        if k == "CompoundStmt":
            return self.always_returns(s.get("inner", []))
        if k == "IfStmt" and s.get("hasElse"):
            return self.always_returns([s["inner"][1]]) and self.always_returns([s["inner"][2]])
        return False

    def assigned_keys(self, n, acc):
        if not isinstance(n, dict):
            return
        k = n.get("kind")
        if k == "_If":
            for s in n["then"] + n["else"]:
                self.assigned_keys(s, acc)
            return
        if (k == "BinaryOperator" and n.get("opcode") == "=") or k == "CompoundAssignOperator" or \
                (k == "UnaryOperator" and n.get("opcode") in ("++", "--")):
            key = self.lkey(n["inner"][0])
            if key is not None and key not in acc:
                acc.append(key)
        if k == "CallExpr":
            callee = strip(n["inner"][0])
            name = callee.get("referencedDecl", {}).get("name") if callee.get("kind") == "DeclRefExpr" else callee.get("name")
            if name == "swap":
                for a in n["inner"][1:]:
                    key = self.lkey(a)
                    if key is not None and key not in acc:
                        acc.append(key)
        for c in n.get("inner", []):
            self.assigned_keys(c, acc)

    def do_if(self, cond, then_s, else_s, env, k):
        """cond: evaluated E of type bool; then_s / else_s: statement lists"""
        kinds = ("ReturnStmt",)
        has_ret = any(self.contains(s, kinds) for s in then_s + else_s)
        if cond.c is not None:
            return self.seq(then_s if cond.c else else_s, env, k)
        if has_ret:
            tv, tu = self.seq(then_s, env.copy(), k)
            ev_, eu = self.seq(else_s, env.copy(), k)
            val = "if %s then\n%s\nelse\n%s" % (cond.t, indent(tv), indent(ev_))
            ub = conj(cond.ubs + ([] if (tu == "true" and eu == "true") else ["(if %s then\n%s\nelse\n%s)" % (cond.t, indent(tu), indent(eu))]))
            return val, ub
        # join: no return inside; the branches produce the tuple of locations they may assign
        mod = []
        for s in then_s + else_s:
            self.assigned_keys(s, mod)
        mod = [key for key in mod if key in env.vars]
        finals = []
        def probe(envb):
            finals.append(envb)
            return "tt", "true"
        saved = (dict(self.counter), set(self.used_names))
        self.seq(then_s, env.copy(), probe)
        self.seq(else_s, env.copy(), probe)
        self.counter, self.used_names = saved
        if len(finals) != 2:
            raise Unsupported("IfStmt control flow")
        live = [key for key in mod if all(f.vars[key][0] is not None for f in finals)]
        dead = [key for key in mod if key not in live]
        def tail(envb):
            names = [envb.vars[key][0] for key in live]
            return ("tt" if not names else names[0] if len(names) == 1 else "(" + ", ".join(names) + ")"), "true"
        tv, tu = self.seq(then_s, env.copy(), tail)
        ev_, eu = self.seq(else_s, env.copy(), tail)
        env2 = env.copy()
        new = []
        for key in live:
            nm = self.fresh(self.base_name(key))
            env2.vars[key] = (nm, env.vars[key][1])
            new.append(nm)
            if key[0] == "field":
                self.fields_written.add(key[1])
        for key in dead:
            env2.vars[key] = (None, env.vars[key][1])
        rv, ru = k(env2)
        ite = "if %s then\n%s\nelse\n%s" % (cond.t, indent(tv), indent(ev_))
        if not new:
            val = rv
        elif len(new) == 1 and rv == new[0]:     # `let x := if .. in x`
            val = ite
        else:
            pat = new[0] if len(new) == 1 else "'(" + ", ".join(new) + ")"
            val = "let %s :=\n%s in\n%s" % (pat, indent(ite), rv)
        branch_ub = [] if (tu == "true" and eu == "true") else ["(if %s then\n%s\nelse\n%s)" % (cond.t, indent(tu), indent(eu))]
        ub = self.ub_let(conj(cond.ubs + branch_ub), new, "\n" + indent(ite), ru) if new else conj(cond.ubs + branch_ub + [ru])
        return val, ub

    def stmt(self, s, env, k):
        kind = s.get("kind")
        if kind in ("NullStmt",):
            return k(env)
        if kind == "CompoundStmt":
            return self.seq(s.get("inner", []), env, k)
        if kind == "DeclStmt":
            decls = s.get("inner", [])
            def go(i, env_i):
                if i == len(decls):
                    return k(env_i)
                d = decls[i]
                dk = d.get("kind")
                if dk in ("TypedefDecl", "TypeAliasDecl", "StaticAssertDecl", "UsingDecl", "UsingDirectiveDecl"):
                    return go(i + 1, env_i)
                if dk != "VarDecl":
                    raise Unsupported("DeclStmt " + str(dk))
                if d.get("storageClass") == "static":
                    raise Unsupported("static local " + d.get("name", "?"))
                init = [c for c in d.get("inner", []) if "kind" in c and not c["kind"].endswith("Type")]
                key = ("var", d["id"])
                self.key_names[key] = d["name"]
                tq = (d.get("type") or {}).get("qualType", "")
                if re.match(r"^(const\s+)?auto(\s+const)?$", tq.strip()) and init:
                    e0 = self.ev(init[0], env_i)
                    ty = e0.ty
                else:
                    ty = self.tenv.of_decl(d)
                    e0 = self.ev(init[0], env_i) if init else None
                if ty[0] not in ("int", "bool"):
                    raise Unsupported("VarDecl of type " + tq)
                if e0 is None:
                    env_n = env_i.copy()
                    env_n.vars[key] = (None, ty)
                    return go(i + 1, env_n)
                env_n = env_i.copy()
                env_n.vars[key] = (None, ty)
                return self.bind(env_n, key, convert(e0, ty), d["name"], lambda e2: go(i + 1, e2))
            return go(0, env)
        if kind == "ReturnStmt":
            return self.do_return(s, env)
        if kind == "IfStmt":
            if s.get("hasInit") or s.get("hasVar") or s.get("isConstexpr"):
                raise Unsupported("IfStmt with init/var/constexpr")
            inner = s["inner"]
            cond = convert(self.ev(inner[0], env), BOOL)
            then_s = [inner[1]]
            else_s = [inner[2]] if len(inner) > 2 else []
            return self.do_if(cond, then_s, else_s, env, k)
        if kind == "_If":
            return self.do_if(s["cond"], s["then"], s["else"], env, k)
        if kind == "SwitchStmt":
            return self.do_switch(s, env, k)
        if kind in ("ForStmt", "WhileStmt", "DoStmt", "CXXForRangeStmt", "GotoStmt", "BreakStmt", "ContinueStmt", "CXXTryStmt"):
            raise Unsupported(kind)
        return self.expr_stmt(s, env, k)

    def do_switch(self, s, env, k):
        inner = [c for c in s["inner"] if c]
        if s.get("hasInit") or s.get("hasVar") or len(inner) != 2 or inner[1].get("kind") != "CompoundStmt":
            raise Unsupported("SwitchStmt shape")
        c = promote(self.ev(inner[0], env))
        groups = []        # (labels or None for default, [stmts])
        for st in inner[1].get("inner", []):
            labels = []
            is_default = False
            while st.get("kind") in ("CaseStmt", "DefaultStmt"):
                if st["kind"] == "CaseStmt":
                    if len(st["inner"]) != 2:
                        raise Unsupported("CaseStmt range")
                    lv = self.ev(st["inner"][0], env)
                    if lv.c is None:
                        raise Unsupported("CaseStmt label")
                    labels.append(convert(lv, c.ty))
                    st = st["inner"][1]
                else:
                    is_default = True
                    st = st["inner"][0]
            if labels or is_default:
                groups.append([labels, is_default, [st]])
            else:
                if not groups:
                    raise Unsupported("SwitchStmt statement before first label")
                groups[-1][2].append(st)
        default = []
        chain = []
        for gi, (labels, is_default, body) in enumerate(groups):
            body = [b for b in body if b.get("kind") != "NullStmt"]
            if body and body[-1].get("kind") == "BreakStmt":
                body = body[:-1]
            elif not self.always_returns(body) and gi != len(groups) - 1:
                raise Unsupported("SwitchStmt fall-through")
            if any(self.contains(b, ("BreakStmt", "ContinueStmt")) for b in body):
                raise Unsupported("SwitchStmt nested break")
            if is_default:
                if labels:
                    raise Unsupported("SwitchStmt case sharing default")
                default = body
            else:
                chain.append((labels, body))
        sw = self.fresh("sw")
        node = default
        for labels, body in reversed(chain):
            t = " || ".join("(%s =? %s)" % (sw, l.t) for l in labels)
            cond = E("(%s)" % t if len(labels) > 1 else t, BOOL)
            node = [{"kind": "_If", "cond": cond, "then": body, "else": node}]
        rv, ru = self.seq(node, env, k)
        return "let %s := %s in\n%s" % (sw, c.t, rv), self.ub_let(conj(c.ubs), [sw], c.t, ru)

    # ---- results
    def pair_value(self, n, env):
        """components of an expression of the 2-component point type"""
        n = strip(n)
        k = n.get("kind")
        if k in ("CXXUnresolvedConstructExpr", "CXXTemporaryObjectExpr", "CXXConstructExpr", "CXXFunctionalCastExpr", "InitListExpr"):
            args = [a for a in n.get("inner", [])]
            if len(args) == 1 and k in ("CXXFunctionalCastExpr", "CXXConstructExpr"):
                return self.pair_value(args[0], env)
            if len(args) != 2:
                raise Unsupported(k + " with %d arguments" % len(args))
            el = self.ret_ty[1]
            return [convert(self.ev(a, env), el) for a in args]
        if k == "DeclRefExpr":
            key = ("var", n["referencedDecl"]["id"])
            return [self.read(("idx", key, i), env, n["referencedDecl"].get("name", "?")) for i in (0, 1)]
        raise Unsupported("point-valued " + str(k))

    def do_return(self, s, env):
        parts, ubs = [], []
        inner = s.get("inner", [])
        if self.loop_var is not None:
            raise Unsupported("ReturnStmt inside the loop body")
        if self.ret_ty[0] in ("int", "bool"):
            if not inner:
                raise Unsupported("ReturnStmt without value")
            e = convert(self.ev(inner[0], env), self.ret_ty)
            parts.append(e.t)
            ubs += e.ubs
        elif self.ret_ty[0] == "pair":
            es = self.pair_value(inner[0], env)
            parts.append("(%s, %s)" % (es[0].t, es[1].t))
            ubs += es[0].ubs + es[1].ubs
        elif self.ret_ty[0] == "void":
            if inner:
                raise Unsupported("ReturnStmt with value in void function")
        else:
            raise Unsupported("return type " + str(self.ret_ty))
        return self.finish(env, parts, ubs)

    def finish(self, env, parts, ubs):
        for key in self.outputs:
            name, _ = env.vars[key]
            if name is None:
                raise Unsupported("out-parameter %s not written on every path" % self.base_name(key))
            parts.append(name)
        # fields written anywhere in the function are appended once the whole function is known: placeholder
        self.results.append((env, list(parts)))
        return "\x00RESULT(%d)\x00" % (len(self.results) - 1), conj(ubs)

    # ---- whole function
    def setup(self):
        fn, tenv = self.fn, self.tenv
        self.key_names = {}
        self.results = []
        env = Env()
        # function type -> return type
        q = fn["type"]["qualType"]
        depth = 0
        idx = None
        for i, ch in enumerate(q):
            if ch == "<":
                depth += 1
            elif ch == ">":
                depth -= 1
            elif ch == "(" and depth == 0:
                idx = i
                break
        self.ret_ty = tenv.resolve(q[:idx]) if not self.entry.get("loop_body") else ("void",)
        body = [c for c in fn.get("inner", []) if c.get("kind") == "CompoundStmt"]
        if not body:
            raise Unsupported("no body")
        self.body = body[0]
        # which pointer/reference locations are read / written (syntactic pre-scan)
        writes = []
        self.assigned_keys(self.body, writes)
        reads = set()
        def scan_reads(n, as_target=False):
            if not isinstance(n, dict):
                return
            k = n.get("kind")
            if (k == "BinaryOperator" and n.get("opcode") == "="):
                tgt = n["inner"][0]
                if self.lkey(tgt) is None:
                    scan_reads(tgt)
                else:   # index expressions of the target are still reads, the location itself is not
                    pass
                scan_reads(n["inner"][1])
                return
            key = None
            try:
                key = self.lkey(n) if k in ("DeclRefExpr", "UnaryOperator", "MemberExpr", "ArraySubscriptExpr") else None
            except Unsupported:
                key = None
            if key is not None:
                reads.add(key)
                if key[0] in ("idx", "elem"):
                    reads.add(key[1])
                return
            if k in ("CXXMemberCallExpr", "CallExpr"):
                callee = strip(n["inner"][0])
                nm = callee.get("name") if callee.get("kind") == "MemberExpr" else callee.get("member") if callee.get("kind") == "CXXDependentScopeMemberExpr" else None
                if nm is not None and callee.get("inner") and self.is_this(callee["inner"][0]) and len(n["inner"]) == 1:
                    try:
                        reads.add(("field", self.getter_field(nm)))
                    except Unsupported:
                        pass
                    return
            for c in n.get("inner", []):
                scan_reads(c)
        # loop-body mode: the body must be `for (int i = 0; i < N; ++i) BODY` [+ return]; BODY is translated for one i
        if self.entry.get("loop_body"):
            st = [x for x in self.body.get("inner", []) if x.get("kind") != "NullStmt"]
            if not st or st[0].get("kind") != "ForStmt" or any(x.get("kind") != "ReturnStmt" for x in st[1:]):
                raise Unsupported("loop_body: function is not a single for loop")
            f = st[0]["inner"]
            init, cond, inc, lbody = f[0], f[2], f[3], f[4]
            try:
                vd = init["inner"][0]
                assert init["kind"] == "DeclStmt" and vd["kind"] == "VarDecl" and len(init["inner"]) == 1
                assert strip(vd["inner"][0])["kind"] == "IntegerLiteral" and strip(vd["inner"][0])["value"] == "0"
                self.loop_var = vd["id"]
                assert cond["kind"] == "BinaryOperator" and cond["opcode"] == "<" and strip(cond["inner"][0])["referencedDecl"]["id"] == self.loop_var
                assert inc["kind"] == "UnaryOperator" and inc["opcode"] == "++" and strip(inc["inner"][0])["referencedDecl"]["id"] == self.loop_var
            except Exception:
                raise Unsupported("loop_body: loop is not `for (int i = 0; i < n; ++i)`")
            if self.contains(lbody, ("BreakStmt", "ContinueStmt", "ReturnStmt", "ForStmt", "WhileStmt", "DoStmt")):
                raise Unsupported("loop_body: control flow leaves the body")
            self.body = lbody
            writes = []
            self.assigned_keys(self.body, writes)
        scan_reads(self.body)
        if self.loop_var is not None and ("var", self.loop_var) in reads:
            # the index may only be used as a subscript
            def uses_index(n, in_sub=False):
                if not isinstance(n, dict):
                    return False
                if n.get("kind") == "ArraySubscriptExpr":
                    return uses_index(n["inner"][0])
                if n.get("kind") == "DeclRefExpr" and n.get("referencedDecl", {}).get("id") == self.loop_var:
                    return True
                return any(uses_index(c) for c in n.get("inner", []))
            if uses_index(self.body):
                raise Unsupported("loop_body: index used other than as a subscript")
        # self fields
        fields = []
        for key in list(reads) + writes:
            kk = key[1] if key[0] in ("idx", "elem") else key
            if kk[0] == "field" and kk[1] not in fields and kk[1] not in self.ignore:
                fields.append(kk[1])
        order = [f for f in self.entry.get("self", []) if f in fields] + sorted(f for f in fields if f not in self.entry.get("self", []))
        self.self_order = order
        for f in order:
            fty = tenv.of_decl(self.field_types[f])
            if fty[0] in ("int", "bool"):
                key = ("field", f)
                self.key_names[key] = f
                nm = self.fresh(f)
                env.vars[key] = (nm, fty)
                self.params.append((nm, fty))
            elif fty[0] == "vec" and self.loop_var is not None and fty[1][0] in ("int", "bool"):
                key = ("elem", ("field", f))
                self.key_names[key] = f + "_i"
                if key in reads:
                    nm = self.fresh(f + "_i")
                    env.vars[key] = (nm, fty[1])
                    self.params.append((nm, fty[1]))
                else:
                    env.vars[key] = (None, fty[1])
                if key in writes:
                    self.outputs.append(key)
            else:
                raise Unsupported("field %s of type %s" % (f, self.field_types[f]["type"]["qualType"]))
        # parameters
        for p in [c for c in fn.get("inner", []) if c.get("kind") == "ParmVarDecl"]:
            pty = tenv.of_decl(p)
            pname = p.get("name") or "arg"
            vkey = ("var", p["id"])
            tq = p["type"]["qualType"]
            is_ref = tq.rstrip().endswith("&") and not tq.rstrip().endswith("&&")
            is_const = bool(re.search(r"\bconst\b", tq))
            if pty[0] in ("int", "bool"):
                self.key_names[vkey] = pname
                nm = self.fresh(pname)
                env.vars[vkey] = (nm, pty)
                self.params.append((nm, pty))
                if is_ref and not is_const and vkey in writes:
                    self.outputs.append(vkey)
            elif pty[0] == "pair" and pty[1][0] == "int":
                for i in (0, 1):
                    key = ("idx", vkey, i)
                    self.key_names[key] = "%s_%d" % (pname, i)
                    nm = self.fresh("%s_%d" % (pname, i))
                    env.vars[key] = (nm, pty[1])
                    self.params.append((nm, pty[1]))
                    if is_ref and not is_const and key in writes:
                        self.outputs.append(key)
            elif pty[0] == "ptr" and pty[1][0] in ("int", "bool"):
                keys = [k for k in set(list(reads) + writes)
                        if (k[0] == "deref" and k[1] == p["id"]) or (k[0] in ("idx", "elem") and k[1] == vkey)]
                keys.sort(key=lambda k: (0, 0) if k[0] == "deref" else (1, k[2]) if k[0] == "idx" else (2, 0))
                for key in keys:
                    base = pname if key[0] == "deref" else "%s_%d" % (pname, key[2]) if key[0] == "idx" else pname + "_i"
                    self.key_names[key] = base
                    if key in reads:
                        nm = self.fresh(base)
                        env.vars[key] = (nm, pty[1])
                        self.params.append((nm, pty[1]))
                    else:
                        env.vars[key] = (None, pty[1])
                    if key in writes:
                        self.outputs.append(key)
            else:
                raise Unsupported("parameter %s of type %s" % (pname, tq))
        return env

    def translate(self):
        env = self.setup()
        def end(env_end):
            if self.loop_var is None and self.ret_ty[0] != "void":
                raise Unsupported("control reaches the end of a non-void function")
            return self.finish(env_end, [], [])
        stmts = self.body.get("inner", []) if self.body.get("kind") == "CompoundStmt" else [self.body]
        val, ub = self.seq(stmts, env, end)
        # written fields become extra results
        wf = [f for f in self.self_order if f in self.fields_written]
        def repl(m):
            envr, parts = self.results[int(m.group(1))]
            parts = list(parts) + [envr.vars[("field", f)][0] for f in wf]
            if not parts:
                return "tt"
            return parts[0] if len(parts) == 1 else "(" + ", ".join(parts) + ")"
        val = re.sub("\x00RESULT\\((\\d+)\\)\x00", repl, val)
        # result type
        rts = []
        if self.ret_ty[0] in ("int", "bool"):
            rts.append(coq_ty(self.ret_ty))
        elif self.ret_ty[0] == "pair":
            rts.append("(Z * Z)")
        for key in self.outputs:
            rts.append(coq_ty(env.vars[key][1]))
        for f in wf:
            rts.append(coq_ty(env.vars[("field", f)][1]))
        rty = "unit" if not rts else rts[0] if len(rts) == 1 else " * ".join(rts)
        if rty.startswith("(") and rty.endswith(")") and len(rts) == 1:
            rty = rty[1:-1]
        return val, ub, rty


def coq_ty(t):
    return "bool" if t[0] == "bool" else "Z"


def indent(s, n=2):
    return "\n".join(" " * n + l for l in s.split("\n"))


# ------------------------------------------------------------------------------------------------ AST access
def parse_dump(txt):
    dec = json.JSONDecoder()
    i, objs = 0, []
    n = len(txt)
    while True:
        while i < n and txt[i].isspace():
            i += 1
        if i >= n:
            break
        if txt[i] != "{":      # "Dumping xyz:" lines
            j = txt.find("\n", i)
            i = n if j < 0 else j + 1
            continue
        o, i = dec.raw_decode(txt, i)
        objs.append(o)
    return objs


_dump_cache = {}
def clang_dump(header, filt):
    key = (header, filt)
    if key in _dump_cache:
        return _dump_cache[key]
    cmd = ["clang++", "-std=c++17", "-x", "c++-header", "-I" + os.path.join(REPO, "src"), "-I" + build_dir(), "-fsyntax-only",
           "-Xclang", "-ast-dump=json", "-Xclang", "-ast-dump-filter=" + filt, header]
    p = subprocess.run(cmd, stdout=subprocess.PIPE, stderr=subprocess.PIPE, text=True, timeout=120)
    if p.returncode != 0:
        raise Unsupported("clang failed: " + p.stderr.strip().splitlines()[-1][:300] if p.stderr.strip() else "clang failed")
    r = parse_dump(p.stdout)
    _dump_cache[key] = r
    return r


def find_functions(objs, cls_name, fn_name):
    """[(function node with a body, enclosing class node or None)]"""
    out = []
    def walk(n, cls):
        if not isinstance(n, dict):
            return
        k = n.get("kind")
        if k in ("ClassTemplateSpecializationDecl", "ClassTemplatePartialSpecializationDecl"):
            return
        if k == "CXXRecordDecl" and n.get("inner") is not None and n.get("completeDefinition"):
            for c in n["inner"]:
                walk(c, n)
            return
        if k in ("FunctionDecl", "CXXMethodDecl"):
            if n.get("name") == fn_name and any(c.get("kind") == "CompoundStmt" for c in n.get("inner", [])):
                cn = cls.get("name") if cls else None
                if cls_name is None or cn == cls_name:
                    if not any(c.get("kind") == "TemplateArgument" for c in n.get("inner", [])):   # skip implicit specialisations
                        out.append((n, cls))
            return
        for c in n.get("inner", []):
            walk(c, cls)
    for o in objs:
        walk(o, None)
    # a member function defined out of line appears with its class only as "parentDeclContextId": not handled
    return out


def collect_typedefs(n, acc, deep):
    if not isinstance(n, dict):
        return
    for c in n.get("inner", []):
        if c.get("kind") in ("TypedefDecl", "TypeAliasDecl") and "name" in c:
            acc.setdefault(c["name"], c["type"]["qualType"])
        elif deep or c.get("kind") in ("DeclStmt",):
            collect_typedefs(c, acc, deep)


# ------------------------------------------------------------------------------------------------ driver
TRANSLATED_FREE = {}   # C++ name of a translated non-template free function -> (coq name, parameter types, result type)

PREAMBLE = """(** GENERATED by tools/leaf_translate.py from the C++ source tree -- do not edit.
    One definition per whitelisted leaf function (tools/leaf_functions.json) and template instantiation:
      gen_<f> : the value computed, over Z / bool, with the machine arithmetic explicit;
      gen_<f>_no_ub : bool, true iff no signed overflow / out-of-range shift / division by zero / abs or
      negation of the minimum happens on the path taken.
    Tie/Tie_Leaf.v proves gen_<f> = the hand-written model function. *)
From Coq Require Import ZArith Bool.
Local Open Scope Z_scope.
Local Open Scope bool_scope.

Definition irange (lo hi x : Z) : bool := (lo <=? x) && (x <=? hi).

"""


def translate_entry(entry, status, out_defs):
    header = os.path.join(REPO, "src", entry["file"])
    qn = entry["function"].split("::")
    qn = [q for q in qn if q != "draco"]
    fn_name = qn[-1]
    cls_name = qn[-2] if len(qn) >= 2 else None
    insts = entry.get("instances") or [{"suffix": "", "subst": {}}]
    base = entry.get("coq_name", fn_name)
    names = ["gen_" + base + i.get("suffix", "") for i in insts]
    try:
        if not os.path.exists(header):
            raise Unsupported("file not found " + entry["file"])
        src = open(header, "rb").read()
        objs = clang_dump(header, cls_name or fn_name)
        cands = find_functions(objs, cls_name, fn_name)
        if "overload" in entry:
            cands = cands[entry["overload"]: entry["overload"] + 1]
        if len(cands) != 1:
            raise Unsupported("%d definitions found" % len(cands))
        fn, cls = cands[0]
    except Unsupported as e:
        for nm in names:
            status["functions"][nm] = {"status": "UNSUPPORTED", "reason": str(e), "function": entry["function"]}
            status["unsupported"].append("UNSUPPORTED %s %s" % (entry["function"], e))
            print("UNSUPPORTED %s %s" % (entry["function"], e))
            out_defs.append("(* UNSUPPORTED %s (%s): %s *)\n" % (nm, entry["function"], str(e).replace("*)", "* )")))
        return
    for inst, nm in zip(insts, names):
        try:
            typedefs = {}
            if cls is not None:
                collect_typedefs(cls, typedefs, False)
            collect_typedefs([c for c in fn["inner"] if c.get("kind") == "CompoundStmt"][0], typedefs, True)
            tenv = TEnv(inst.get("subst", {}), typedefs)
            tr = FnTranslator(fn, cls, tenv, src, entry)
            val, ub, rty = tr.translate()
            args = " ".join("(%s : %s)" % (n, coq_ty(t)) for n, t in tr.params)
            doc = "(** %s  [%s]%s\n    arguments: %s *)\n" % (
                entry["function"], entry["file"],
                "  with " + ", ".join("%s := %s" % kv for kv in sorted(inst.get("subst", {}).items())) if inst.get("subst") else "",
                ", ".join("%s : %s" % (n, ctype_name(t)) for n, t in tr.params) or "-")
            d = doc + "Definition %s %s : %s :=\n%s.\n\nDefinition %s_no_ub %s : bool :=\n%s.\n" % (
                nm, args, rty, indent(val), nm, args, indent(ub))
            out_defs.append(d)
            status["functions"][nm] = {"status": "translated", "function": entry["function"],
                                       "sha1": hashlib.sha1(d.encode()).hexdigest()[:12]}
            if cls is None and not inst.get("subst") and not tr.outputs and tr.ret_ty[0] in ("int", "bool") \
                    and all(t[0] in ("int", "bool") for _, t in tr.params):
                TRANSLATED_FREE[fn_name] = (nm, [t for _, t in tr.params], tr.ret_ty)
        except Unsupported as e:
            status["functions"][nm] = {"status": "UNSUPPORTED", "reason": str(e), "function": entry["function"]}
            status["unsupported"].append("UNSUPPORTED %s %s" % (entry["function"], e))
            print("UNSUPPORTED %s %s" % (entry["function"], e))
            out_defs.append("(* UNSUPPORTED %s (%s): %s *)\n" % (nm, entry["function"], str(e).replace("*)", "* )")))


def ctype_name(t):
    if t[0] == "bool":
        return "bool"
    return "%sint%d" % ("" if t[1] else "u", t[2])


def main():
    t0 = time.time()
    status = {"ok": True, "functions": {}, "unsupported": []}
    try:
        wl = json.load(open(WHITELIST))
    except Exception as e:
        print(json.dumps({"ok": False, "error": "whitelist: %s" % e}))
        return
    defs = []
    for entry in wl["functions"]:
        try:
            translate_entry(entry, status, defs)
        except Exception as e:   # a translator bug must not take the other functions down
            nm = "gen_" + entry.get("coq_name", entry.get("function", "?"))
            msg = "internal error %s: %s" % (type(e).__name__, e)
            status["functions"][nm] = {"status": "UNSUPPORTED", "reason": msg, "function": entry.get("function")}
            status["unsupported"].append("UNSUPPORTED %s %s" % (entry.get("function"), msg))
            print("UNSUPPORTED %s %s" % (entry.get("function"), msg))
            defs.append("(* UNSUPPORTED %s: %s *)\n" % (nm, msg.replace("*)", "* )")))
    txt = PREAMBLE + "\n".join(defs)
    os.makedirs(GEN, exist_ok=True)
    path = os.path.join(GEN, "Leaf.v")
    changed = not (os.path.exists(path) and open(path).read() == txt)
    if changed:
        open(path, "w").write(txt)
    status["changed"] = changed
    status["translated"] = sorted(k for k, v in status["functions"].items() if v["status"] == "translated")
    if not status["translated"]:
        status["ok"] = False      # nothing could be translated (clang missing? build dir missing?): a translator problem
    status["seconds"] = round(time.time() - t0, 2)
    print(json.dumps(status))


if __name__ == "__main__":
    main()
