#!/usr/bin/env python3
"""Regenerates MANIFEST.json from props/registry.py and validates it against the schema."""
import json, os, sys
ROOT = os.path.dirname(os.path.dirname(os.path.abspath(__file__)))
sys.path.insert(0, os.path.join(ROOT, "props"))
import registry, glob
for f in glob.glob(os.path.join(ROOT, 'props', 'reg', '*.json')):
    registry.PROPS[os.path.basename(f)[:-5]] = json.load(open(f))
ids = [json.loads(l)["id"] for l in open(os.path.join(ROOT, "properties.jsonl"))]
checks, na = [], []
for pid in ids:
    r = registry.PROPS.get(pid)
    if r and r.get("claimed"):
        checks.append({
            "property_id": pid,
            "quick_cmd": "./check %s --tier quick" % pid,
            "thorough_cmd": "./check %s --tier thorough" % pid,
            "evidence_file": "/verif/evidence/%s.json" % pid,
            "replay_cmd_template": "./check %s --replay {path}" % pid,
            "engine": "coq-model+correspondence",
            "level_claimed": {"category": r.get("category", "proof"), "text": r["text"], "design_ref": r.get("design_ref", "DESIGN.md section 5 " + pid)},
            "level_note": r["note"],
            "technique": r["technique"],
        })
    else:
        na.append({"property_id": pid, "reason": (r or {}).get("reason", "Coq model for this property is not built yet; not claimed (the search alone never stands in for the proof technique)")})
m = {
    "version": 1,
    "setup_cmd": "tools/setup.sh",
    "hooks": {"guard": "DRACO_VERIF", "enable": "tools/build_repo.sh passes -DDRACO_VERIF in CMAKE_CXX_FLAGS when it builds /repo's working tree into /verif/.cache/build-<flavour>",
              "baseline_off_cmd": "tools/baseline_off.py", "source_commits": registry.HOOK_COMMITS, "add_only": True},
    "engines": [{"name": "coq-model+correspondence", "path": "/verif/check",
                 "serves_properties": [c["property_id"] for c in checks],
                 "kind_free_text": "Coq 8.16 theorems about a hand-written Gallina model (plus definitions regenerated from /repo by tools/cxx2v.py), tied to /repo's current build by a byte-exact correspondence check (C++ harness vs OCaml extraction of the model) and accompanied by a search on the real library for failing inputs"}],
    "checks": checks,
    "notes": registry.NOTES,
    "not_applicable": na,
}
json.dump(m, open(os.path.join(ROOT, "MANIFEST.json"), "w"), indent=1)
try:
    import jsonschema
    jsonschema.validate(m, json.load(open("/root/.vp/MANIFEST.schema.json")))
    print("MANIFEST.json valid: %d checks, %d not claimed" % (len(checks), len(na)))
except ImportError:
    import subprocess
    subprocess.call(["python3-vt", "-c", "import json,jsonschema;jsonschema.validate(json.load(open('%s/MANIFEST.json')),json.load(open('/root/.vp/MANIFEST.schema.json')));print('MANIFEST.json valid')" % ROOT])
